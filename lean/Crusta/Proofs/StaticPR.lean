import Crusta.Proofs.Assemble

/-!
# Preferred and complete solvers: entry points on the whole framework
-/

namespace Crusta
open Prog (mkSolver doReserve addClause addClauses getNVars doSolve)

theorem map_some_inj' {α : Type} : ∀ {l l' : List α}, l.map some = l'.map some → l = l'
  | [], [], _ => rfl
  | [], _ :: _, h => by simp at h
  | _ :: _, [], h => by simp at h
  | a :: l, b :: l', h => by
    simp only [List.map_cons, List.cons.injEq, Option.some.injEq] at h
    rw [h.1, map_some_inj' h.2]

/-! ## lifting statements about the merged component to the framework -/

theorem G.ext_sub_live {g : G} {σ : Sem} {S : ASet} (h : g.Ext σ S) : ∀ a, S a = true → g.live a = true := by
  cases σ with
  | GR => exact h.1.1.1.1
  | CO => exact h.1.1.1
  | PR => exact h.1.1.1
  | ST => exact h.1.1
  | SST => exact h.1.1.1.1
  | STG => exact h.1.1
  | ID => exact h.1.1.1.1

theorem parts_binary {g : G} {c : Comp} (hc : GoodComp g c) : Parts g [c.memB, compl c.memB] := by
  refine ⟨?_, ?_, ?_⟩
  · intro U hU
    simp only [List.mem_cons, List.mem_nil_iff, or_false] at hU
    rcases hU with rfl | rfl
    · exact hc.closedB
    · exact G.closedB_compl hc.closedB
  · simp only [List.pairwise_cons, List.mem_cons, List.mem_nil_iff, or_false, forall_eq, List.Pairwise.nil,
      and_true, not_and]
    refine ⟨?_, fun _ h => by cases h⟩
    intro a h1; simp [compl, h1]
  · intro a _
    cases h : c.memB a with
    | true => exact ⟨_, by simp, h⟩
    | false => exact ⟨compl c.memB, by simp, by simp [compl, h]⟩

theorem ext_split_comp {g : G} {c : Comp} (hc : GoodComp g c) (hfin : ∃ n, ∀ a, g.live a = true → a < n)
    (σ : Sem) (S : ASet) (hS : ∀ a, S a = true → g.live a = true) :
    g.Ext σ S ↔ ((g.restrict c.memB).Ext σ (inter S c.memB) ∧
      (g.restrict (compl c.memB)).Ext σ (inter S (compl c.memB))) := by
  rw [ext_parts (parts_binary hc) hfin σ S hS]
  simp

/-- statements "some extension of the merged component satisfies `R`" lift to the framework -/
theorem comp_ext_exists {g : G} {c : Comp} (hc : GoodComp g c) (hfin : ∃ n, ∀ a, g.live a = true → a < n)
    (σ : Sem) (hex : ∃ S0, g.Ext σ S0) (R : ASet → Prop) :
    (∃ T, σ.Ext c.af T ∧ R (c.up T)) ↔ (∃ S, g.Ext σ S ∧ R (inter S c.memB)) := by
  have tr := Comp.transfer_ext hc σ
  constructor
  · rintro ⟨T, hT, hR⟩
    obtain ⟨S0, hS0⟩ := hex
    have hup : ∀ a, c.up T a = true → c.memB a = true := fun a ha => by
      simpa [Comp.memB] using Comp.up_sub hc T a ha
    have hlive : ∀ a, splice c.memB (c.up T) S0 a = true → g.live a = true := by
      intro a ha
      cases hU : c.memB a with
      | true =>
        simp only [splice, hU, cond_true] at ha
        exact hc.live a (Comp.up_sub hc T a ha)
      | false =>
        simp only [splice, hU, cond_false] at ha
        exact G.ext_sub_live hS0 a ha
    refine ⟨splice c.memB (c.up T) S0, ?_, by rw [inter_splice_self S0 hup]; exact hR⟩
    rw [ext_split_comp hc hfin σ _ hlive, inter_splice_self S0 hup,
      inter_splice_disj (c.up T) S0 (fun a h => by simp [compl, h.1] at h)]
    exact ⟨(tr.iff T (tr.sub T hT)).1 hT, ((ext_split_comp hc hfin σ S0 (G.ext_sub_live hS0)).1 hS0).2⟩
  · rintro ⟨S, hS, hR⟩
    have h1 := ((ext_split_comp hc hfin σ S (G.ext_sub_live hS)).1 hS).1
    obtain ⟨T, hT, hup⟩ := Comp.exists_down hc (inter S c.memB) (fun a ha => by
      have := ((inter_true _ _ a).1 ha).2
      simpa [Comp.memB] using this)
    exact ⟨T, (tr.iff T hT).2 (by rw [hup]; exact h1), by rw [hup]; exact hR⟩

theorem comp_ext_forall {g : G} {c : Comp} (hc : GoodComp g c) (hfin : ∃ n, ∀ a, g.live a = true → a < n)
    (σ : Sem) (hex : ∃ S0, g.Ext σ S0) (R : ASet → Prop) :
    (∀ T, σ.Ext c.af T → R (c.up T)) ↔ (∀ S, g.Ext σ S → R (inter S c.memB)) := by
  have h := comp_ext_exists hc hfin σ hex (fun X => ¬ R X)
  constructor
  · intro hall S hS
    apply Classical.byContradiction
    intro hn
    obtain ⟨T, hT, hnR⟩ := h.2 ⟨S, hS, hn⟩
    exact hnR (hall T hT)
  · intro hall T hT
    apply Classical.byContradiction
    intro hn
    obtain ⟨S, hS, hnR⟩ := h.1 ⟨T, hT, hn⟩
    exact hnR (hall S hS)

/-- queried arguments and their positions -/
theorem hits_up {g : G} {c : Comp} (hc : GoodComp g c) {args pos : List Nat} (hpos : posAll c args = some pos) (T : ASet) :
    Hits pos T ↔ HitsL args (c.up T) := by
  unfold Hits HitsL
  constructor
  · rintro ⟨p, hp, hT⟩
    obtain ⟨a, ha, hpa⟩ := (mem_posAll hpos p).1 hp
    exact ⟨a, ha, by simp [Comp.up, hpa, hT]⟩
  · rintro ⟨a, ha, hup⟩
    unfold Comp.up at hup
    cases hpa : c.pos a with
    | none => rw [hpa] at hup; cases hup
    | some i =>
      rw [hpa] at hup
      exact ⟨i, (mem_posAll hpos i).2 ⟨a, ha, hpa⟩, hup⟩

theorem hitsL_inter {c : Comp} {args : List Nat} (hargs : ∀ a ∈ args, a ∈ c.ids) (S : ASet) :
    HitsL args (inter S c.memB) ↔ HitsL args S := by
  unfold HitsL
  constructor
  · rintro ⟨a, ha, h⟩; exact ⟨a, ha, ((inter_true _ _ a).1 h).1⟩
  · rintro ⟨a, ha, h⟩; exact ⟨a, ha, (inter_true _ _ a).2 ⟨h, by simpa [Comp.memB] using hargs a ha⟩⟩

/-- SE for a solver that computes one extension per component -/
theorem se_by_components (σ : Sem) (f : Comp → Prog (List Nat)) (v : FwView) (g : G) (hv : v.Ok g)
    (hf : ∀ c w, w.Bounded → GoodComp g c → wp True (f c) w (fun r w' => w'.Bounded ∧
      ∃ e, r = c.back e ∧ σ.Ext c.af (ofList e) ∧ ∀ a ∈ e, a < c.af.n))
    (w : World) (hb : w.Bounded) :
    wp True (forEachComp f (allComps v) []) w (fun res w' => w'.Bounded ∧ g.Ext σ (ofList res)) := by
  obtain ⟨cs, hcs, hgood, hdisj, hcover⟩ := allComps_list v g hv
  have hparts := comps_parts hgood hdisj hcover
  refine wp_mono _ _ _ _ ?_ (wp_forEachComp f (GoodComp g)
    (fun c r => ∃ e, r = c.back e ∧ σ.Ext c.af (ofList e) ∧ ∀ a ∈ e, a < c.af.n) hf (allComps v) [] w hb ?_)
  · rintro res w' ⟨hb', cs', rs, hcs', hlen, hres, hall⟩
    have : cs' = cs := map_some_inj' (by rw [← hcs', hcs])
    subst this
    refine ⟨hb', ?_⟩
    rw [hres, List.nil_append]
    apply (assemble_ext hparts hgood hv.fin σ rs hlen ?_).2
    · intro i c r hc hr
      obtain ⟨e, rfl, hext, hlt⟩ := hall i c r hc hr
      exact (Comp.ext_back_iff (hgood c (List.mem_of_getElem? hc)) σ e hlt).1 hext
    · intro i c r hc hr a ha
      obtain ⟨e, rfl, _, _⟩ := hall i c r hc hr
      exact Comp.back_mem (hgood c (List.mem_of_getElem? hc)) e a ha
  · intro c hc
    rw [hcs] at hc
    obtain ⟨c', hc', he⟩ := List.mem_map.1 hc
    injection he with he; subst he
    exact hgood c' hc'

/-- **SE-PR** -/
theorem pr_se_ok (cfg : Cfg) (hk : ∀ af T, cfg.enc.Base af T ↔ Complete af T) (v : FwView) (g : G) (hv : v.Ok g)
    (w : World) (hb : w.Bounded) :
    wp True (prSE cfg v) w (fun res _ => SEOK .PR g res) := by
  unfold prSE
  simp only [Prog.bind_eq]
  rw [wp_bind]
  refine wp_mono _ _ _ _ ?_ (se_by_components .PR (prMaximalOfComp cfg) v g hv ?_ w hb)
  · rintro res w' ⟨_, hext⟩
    refine ⟨fun e he => ?_, fun h => by cases h⟩
    injection he with he; subst he
    exact (gext_iff .PR g _).2 hext
  · intro c w hb hc
    exact wp_prMaximalOfComp cfg hk c (Comp.af_wf hc) (GrOK_of_wf _ (Comp.af_wf hc)) w hb

theorem posAll_of_mem (c : Comp) : ∀ (args : List Nat), (∀ a ∈ args, a ∈ c.ids) → ∃ pos, posAll c args = some pos
  | [], _ => ⟨[], rfl⟩
  | a :: t, h => by
    obtain ⟨r, hr⟩ := posAll_of_mem c t (fun x hx => h x (by simp [hx]))
    have hmem : a ∈ c.ids := h a (by simp)
    cases hp : c.pos a with
    | none =>
      exfalso
      unfold Comp.pos posOf at hp
      have := List.findIdx?_eq_none_iff.1 hp a hmem
      simp at this
    | some i => exact ⟨i :: r, by simp [posAll, hp, hr]⟩

/-- **DS-PR** (status) -/
theorem pr_ds_ok (cfg : Cfg) (hk : ∀ af T, cfg.enc.Base af T ↔ Complete af T) (v : FwView) (g : G) (hv : v.Ok g)
    (args : List Nat) (hargs : ∀ a ∈ args, g.live a = true) (w : World) (hb : w.Bounded) :
    wp True (prDS cfg v args) w (fun a _ => DSOK .PR g args false a ∧ a.cert = none) := by
  unfold prDS
  simp only [Prog.bind_eq]
  rw [wp_bind]
  apply wp_needComp trivial
  intro c cc hcc
  obtain ⟨c', hc', hgood, hin, _⟩ := CC.mergedOf_spec v g hv args hargs _ _ hcc
  injection hc' with hc'; subst hc'
  simp only
  rw [wp_bind]
  refine wp_mono _ _ _ _ ?_ (wp_prSkeptInCc cfg hk c args true (Comp.af_wf hgood) (GrOK_of_wf _ (Comp.af_wf hgood)) w hb)
  rintro ⟨st, ce⟩ w' ⟨_, hres⟩
  obtain ⟨pos, hpos⟩ := posAll_of_mem c args hin
  obtain ⟨h1, h2⟩ := hres pos hpos
  have hex : ∃ S0, g.Ext .PR S0 := G.exists_preferred g hv.fin
  refine ⟨⟨fun hst => ⟨?_, fun hc => by cases hc⟩, fun hst => ⟨?_, fun hc => by cases hc⟩⟩, rfl⟩
  · intro S hS
    have hall := (h1 hst).2
    have := (comp_ext_forall hgood hv.fin .PR hex (HitsL args)).1
      (fun T hT => (hits_up hgood hpos T).1 (hall T hT)) S ((gext_iff .PR g S).1 hS)
    exact (hitsL_inter hin S).1 this
  · obtain ⟨P, hP, hnh⟩ := (h2 hst).1
    obtain ⟨S, hS, hn⟩ := (comp_ext_exists hgood hv.fin .PR hex (fun X => ¬ HitsL args X)).1
      ⟨P, hP, fun hh => hnh ((hits_up hgood hpos P).2 hh)⟩
    exact ⟨S, (gext_iff .PR g S).2 hS, fun hh => hn ((hitsL_inter hin S).2 hh)⟩

/-- **DC-CO** (status) -/
theorem co_dc_ok (cfg : Cfg) (hk : ∀ af T, cfg.enc.Base af T ↔ Complete af T) (v : FwView) (g : G) (hv : v.Ok g)
    (args : List Nat) (hargs : ∀ a ∈ args, g.live a = true) (w : World) (hb : w.Bounded) :
    wp True (coDC cfg v args) w (fun a _ => DCOK .CO g args false a ∧ a.cert = none) := by
  refine wp_mono _ _ _ _ ?_ (wp_coDC cfg hk v args w hb)
  rintro a _ ⟨c, cc, hcc, hres⟩
  obtain ⟨c', hc', hgood, hin, _⟩ := CC.mergedOf_spec v g hv args hargs _ _ hcc
  injection hc' with hc'; subst hc'
  obtain ⟨pos, hpos⟩ := posAll_of_mem c args hin
  obtain ⟨hcert, hst⟩ := hres (Comp.af_wf hgood) hgood.n_eq pos hpos
  have hex : ∃ S0, g.Ext .CO S0 := ⟨_, (groundedV_spec v g hv).1.1⟩
  have key : (∃ T, Complete c.af T ∧ ∃ i ∈ pos, T i = true) ↔ (∃ S, g.Complete S ∧ HitsL args S) := by
    have := comp_ext_exists hgood hv.fin .CO hex (HitsL args)
    constructor
    · rintro ⟨T, hT, i, hi, hTi⟩
      obtain ⟨S, hS, hh⟩ := this.1 ⟨T, hT, (hits_up hgood hpos T).1 ⟨i, hi, hTi⟩⟩
      exact ⟨S, hS, (hitsL_inter hin S).1 hh⟩
    · rintro ⟨S, hS, hh⟩
      obtain ⟨T, hT, hh'⟩ := this.2 ⟨S, hS, (hitsL_inter hin S).2 hh⟩
      obtain ⟨i, hi, hTi⟩ := (hits_up hgood hpos T).2 hh'
      exact ⟨T, hT, i, hi, hTi⟩
  refine ⟨⟨fun h => ⟨key.1 (hst.1 h), fun hc => by cases hc⟩, fun h => ⟨fun hn => ?_, fun hc => by cases hc⟩⟩, hcert⟩
  have := hst.2 (key.2 hn)
  rw [h] at this; cases this

end Crusta
