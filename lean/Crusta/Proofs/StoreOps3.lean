import Crusta.Proofs.StoreOps2

/-! # Store proofs, part 4: `remove_argument`, reachable states, refinement to the set model -/

namespace Crusta
namespace Store

/-- `killAttacks` tombstones exactly the listed indexes and counts each live one once -/
theorem killAttacks_spec : ∀ (idxs : List Nat) (attacks : List (Option (Nat × Nat))) (cnt : Nat),
    (killAttacks attacks cnt idxs).1.length = attacks.length ∧
    (∀ j, (killAttacks attacks cnt idxs).1.getD j none = if j ∈ idxs then none else attacks.getD j none) ∧
    (killAttacks attacks cnt idxs).2 + countNone attacks = cnt + countNone (killAttacks attacks cnt idxs).1 := by
  intro idxs
  induction idxs with
  | nil => intro attacks cnt; simp [killAttacks]
  | cons i is ih =>
    intro attacks cnt
    simp only [killAttacks]
    split
    · rename_i hsome
      obtain ⟨h1, h2, h3⟩ := ih (attacks.set i none) (cnt + 1)
      obtain ⟨x, hx⟩ := Option.isSome_iff_exists.1 hsome
      refine ⟨by rw [h1, List.length_set], ?_, ?_⟩
      · intro j
        rw [h2 j]
        by_cases hj : j ∈ is
        · simp [hj]
        · simp only [hj, if_false, List.mem_cons]
          by_cases e : j = i
          · subst e
            have hlt : j < attacks.length := by
              apply Classical.byContradiction; intro hn
              rw [getD_ge _ _ _ (by omega)] at hx; cases hx
            rw [getD_set_eq _ _ _ _ hlt]; simp
          · simp only [e, false_or, hj, if_false]
            exact getD_set_ne _ _ _ _ _ (fun h => e h.symm)
      · rw [countNone_set_none attacks i x hx] at h3
        omega
    · rename_i hnone
      obtain ⟨h1, h2, h3⟩ := ih attacks cnt
      refine ⟨h1, ?_, h3⟩
      intro j
      rw [h2 j]
      by_cases hj : j ∈ is
      · simp [hj]
      · simp only [hj, if_false, List.mem_cons]
        by_cases e : j = i
        · subst e
          simp only [true_or, if_true]
          cases hh : attacks.getD j none with
          | none => rfl
          | some v => rw [hh] at hnone; simp at hnone
        · simp [e, hj]

/-- state after removing the live argument `id` (label `l`) -/
def dropArg (s : Store) (l id : Nat) : Store :=
  let idxs := row s.from_ id ++ row s.to_ id
  let r := killAttacks s.attacks s.nRemovedAtt idxs
  { s with labels := s.labels.set id none,
           l2i := s.l2i.filter (fun p => !(p.1 == l)),
           nRemoved := s.nRemoved + 1,
           attacks := r.1, nRemovedAtt := r.2,
           from_ := s.from_.set id [], to_ := s.to_.set id [] }

theorem removeArgument_spec {s : Store} (hinv : s.Inv) (l : Nat) :
    (∀ id, s.Live id l → s.removeArgument l = .ok (s.dropArg l id)) ∧
    ((∀ id, ¬ s.Live id l) → s.removeArgument l = .err s) := by
  constructor
  · intro id hl
    unfold removeArgument
    rw [(lookup_eq_some hinv).2 hl]
    simp only
    have h1 : s.hasId id = true := hasId_iff.2 ⟨l, hl⟩
    have h2 : id < s.from_.length := by rw [hinv.rows_from]; exact live_lt hl
    have h3 : id < s.to_.length := by rw [hinv.rows_to]; exact live_lt hl
    have h4 : (row s.from_ id ++ row s.to_ id).any (fun i => decide (i ≥ s.attacks.length)) = false := by
      rw [List.any_eq_false]
      intro i hi
      rcases List.mem_append.1 hi with hi | hi
      · have := (hinv.from_ok id i hi).1; simp; omega
      · have := (hinv.to_ok id i hi).1; simp; omega
    simp only [h1, Bool.not_true, Bool.false_eq_true, if_false]
    rw [if_neg (by simp; omega), h4]
    simp only [Bool.false_eq_true, if_false]
    rfl
  · intro h
    unfold removeArgument
    rw [(lookup_eq_none hinv).2 h]

theorem labelOf_dropArg (s : Store) (l id i : Nat) :
    (s.dropArg l id).labelOf i = if i = id then none else s.labelOf i := by
  unfold labelOf dropArg
  simp only
  by_cases e : i = id
  · subst e
    rw [if_pos rfl]
    by_cases h : i < s.labels.length
    · exact getD_set_eq _ _ _ _ h
    · rw [getD_set_ge _ _ _ _ _ (by omega)]; exact getD_ge _ _ _ (by omega)
  · rw [if_neg e]; exact getD_set_ne _ _ _ _ _ (fun h => e h.symm)

theorem live_dropArg {s : Store} {l id i l' : Nat} :
    (s.dropArg l id).Live i l' ↔ (s.Live i l' ∧ i ≠ id) := by
  unfold Live
  rw [labelOf_dropArg]
  by_cases e : i = id
  · simp [e]
  · simp [e]

theorem att_dropArg {s : Store} (hinv : s.Inv) {l id : Nat} (hl : s.Live id l) (i : Nat) (p : Nat × Nat) :
    (s.dropArg l id).att i = some p ↔ (s.att i = some p ∧ p.1 ≠ id ∧ p.2 ≠ id) := by
  have hspec := killAttacks_spec (row s.from_ id ++ row s.to_ id) s.attacks s.nRemovedAtt
  have hget : (s.dropArg l id).att i =
      if i ∈ row s.from_ id ++ row s.to_ id then none else s.att i := hspec.2.1 i
  rw [hget]
  constructor
  · intro h
    split at h
    · cases h
    · rename_i hni
      refine ⟨h, ?_, ?_⟩
      · intro e
        apply hni
        obtain ⟨a, b⟩ := p
        simp only at e; subst e
        exact List.mem_append_left _ (hinv.in_from i _ b h)
      · intro e
        apply hni
        obtain ⟨a, b⟩ := p
        simp only at e; subst e
        exact List.mem_append_right _ (hinv.in_to i a _ h)
  · rintro ⟨h, h1, h2⟩
    rw [if_neg]
    · exact h
    · intro hm
      rcases List.mem_append.1 hm with hm | hm
      · rcases (hinv.from_ok id i hm).2 with hh | ⟨b, hh⟩
        · rw [hh] at h; cases h
        · rw [hh] at h; injection h with h; subst h; exact h1 rfl
      · rcases (hinv.to_ok id i hm).2 with hh | ⟨a, hh⟩
        · rw [hh] at h; cases h
        · rw [hh] at h; injection h with h; subst h; exact h2 rfl

theorem att_dropArg_none {s : Store} (hinv : s.Inv) {l id : Nat} (hl : s.Live id l) (i : Nat)
    (h : s.att i = none) : (s.dropArg l id).att i = none := by
  cases hh : (s.dropArg l id).att i with
  | none => rfl
  | some p => have := ((att_dropArg hinv hl i p).1 hh).1; rw [h] at this; cases this

theorem inv_dropArg {s : Store} (hinv : s.Inv) {l id : Nat} (hl : s.Live id l) : (s.dropArg l id).Inv := by
  have hspec := killAttacks_spec (row s.from_ id ++ row s.to_ id) s.attacks s.nRemovedAtt
  have hidf : id < s.from_.length := by rw [hinv.rows_from]; exact live_lt hl
  have hidt : id < s.to_.length := by rw [hinv.rows_to]; exact live_lt hl
  have hlen : (s.dropArg l id).attacks.length = s.attacks.length := hspec.1
  have hfrom : ∀ c, row (s.dropArg l id).from_ c = if c = id then [] else row s.from_ c := by
    intro c
    show row (s.from_.set id []) c = _
    by_cases e : c = id
    · subst e; rw [if_pos rfl]; exact row_set_eq _ _ _ hidf
    · rw [if_neg e]; exact row_set_ne _ _ _ _ (fun h => e h.symm)
  have hto : ∀ c, row (s.dropArg l id).to_ c = if c = id then [] else row s.to_ c := by
    intro c
    show row (s.to_.set id []) c = _
    by_cases e : c = id
    · subst e; rw [if_pos rfl]; exact row_set_eq _ _ _ hidt
    · rw [if_neg e]; exact row_set_ne _ _ _ _ (fun h => e h.symm)
  refine ⟨?_, ?_, ?_, ?_, ?_, ?_, ?_, ?_, ?_, ?_, ?_, ?_, ?_⟩
  · show (s.from_.set id []).length = (s.labels.set id none).length
    rw [List.length_set, List.length_set]; exact hinv.rows_from
  · show (s.to_.set id []).length = (s.labels.set id none).length
    rw [List.length_set, List.length_set]; exact hinv.rows_to
  · intro l' i hm
    have hm' : (l', i) ∈ s.l2i.filter (fun p => !(p.1 == l)) := hm
    rw [List.mem_filter] at hm'
    obtain ⟨hm1, hm2⟩ := hm'
    have hne : l' ≠ l := by simpa using hm2
    have hli := hinv.l2i_sound _ _ hm1
    rw [live_dropArg]
    refine ⟨hli, ?_⟩
    intro e; subst e
    have : s.labelOf i = some l' := hli
    have h2 : s.labelOf i = some l := hl
    rw [this] at h2; injection h2 with h2; exact hne h2
  · intro l' i hli
    rw [live_dropArg] at hli
    show (l', i) ∈ s.l2i.filter (fun p => !(p.1 == l))
    rw [List.mem_filter]
    refine ⟨hinv.l2i_complete _ _ hli.1, ?_⟩
    have : l' ≠ l := by
      intro e; subst e
      exact hli.2 (hinv.label_inj _ _ _ hli.1 hl)
    simpa using this
  · intro i j l' hi hj
    rw [live_dropArg] at hi hj
    exact hinv.label_inj _ _ _ hi.1 hj.1
  · intro i a b hab
    obtain ⟨h0, h1, h2⟩ := (att_dropArg hinv hl i (a, b)).1 hab
    obtain ⟨ha, hb⟩ := hinv.ends_live i a b h0
    rw [hasId_iff] at ha hb
    obtain ⟨la, hla⟩ := ha
    obtain ⟨lb, hlb⟩ := hb
    exact ⟨hasId_iff.2 ⟨la, live_dropArg.2 ⟨hla, h1⟩⟩, hasId_iff.2 ⟨lb, live_dropArg.2 ⟨hlb, h2⟩⟩⟩
  · intro i a b hab
    obtain ⟨h0, h1, _⟩ := (att_dropArg hinv hl i (a, b)).1 hab
    rw [hfrom, if_neg h1]; exact hinv.in_from i a b h0
  · intro i a b hab
    obtain ⟨h0, _, h2⟩ := (att_dropArg hinv hl i (a, b)).1 hab
    rw [hto, if_neg h2]; exact hinv.in_to i a b h0
  · intro c i hi
    rw [hfrom] at hi
    split at hi
    · cases hi
    · have := hinv.from_ok c i hi
      rw [hlen]
      refine ⟨this.1, ?_⟩
      cases hh : (s.dropArg l id).att i with
      | none => left; rfl
      | some p =>
        right
        have h0 := ((att_dropArg hinv hl i p).1 hh).1
        rcases this.2 with h | ⟨b, h⟩
        · rw [h] at h0; cases h0
        · rw [h] at h0; injection h0 with h0; subst h0; exact ⟨b, rfl⟩
  · intro c i hi
    rw [hto] at hi
    split at hi
    · cases hi
    · have := hinv.to_ok c i hi
      rw [hlen]
      refine ⟨this.1, ?_⟩
      cases hh : (s.dropArg l id).att i with
      | none => left; rfl
      | some p =>
        right
        have h0 := ((att_dropArg hinv hl i p).1 hh).1
        rcases this.2 with h | ⟨a, h⟩
        · rw [h] at h0; cases h0
        · rw [h] at h0; injection h0 with h0; subst h0; exact ⟨a, rfl⟩
  · have h3 := hspec.2.2
    show (killAttacks s.attacks s.nRemovedAtt (row s.from_ id ++ row s.to_ id)).2 =
      countNone (killAttacks s.attacks s.nRemovedAtt (row s.from_ id ++ row s.to_ id)).1
    rw [hinv.cnt_att] at h3 ⊢
    omega
  · show s.nRemoved + 1 = countNone (s.labels.set id none)
    rw [countNone_set_none s.labels id l hl, hinv.cnt_lab]
  · intro i j a b hi hj
    exact hinv.att_nodup i j a b ((att_dropArg hinv hl i _).1 hi).1 ((att_dropArg hinv hl j _).1 hj).1

/-! ## every operation preserves the invariant, never panics, and errors leave the state unchanged -/

theorem step_inv {s : Store} (hinv : s.Inv) (op : StoreOp) :
    (∃ s', s.step op = .ok s' ∧ s'.Inv) ∨ s.step op = .err s := by
  cases op with
  | newArg l => left; exact ⟨_, rfl, inv_newArgument hinv l⟩
  | remArg l =>
    by_cases h : ∃ id, s.Live id l
    · obtain ⟨id, hid⟩ := h
      left; exact ⟨_, (removeArgument_spec hinv l).1 id hid, inv_dropArg hinv hid⟩
    · right; exact (removeArgument_spec hinv l).2 (fun id hid => h ⟨id, hid⟩)
  | newAtt la lb =>
    by_cases ha : ∃ a, s.Live a la
    · by_cases hb : ∃ b, s.Live b lb
      · obtain ⟨a, ha⟩ := ha
        obtain ⟨b, hb⟩ := hb
        left
        by_cases hh : s.HasAtt a b
        · exact ⟨s, ((newAttack_spec hinv la lb).1 a b ha hb).1 hh, hinv⟩
        · exact ⟨_, ((newAttack_spec hinv la lb).1 a b ha hb).2 hh, inv_pushAtt hinv ha hb hh⟩
      · right; exact (newAttack_spec hinv la lb).2 (Or.inr (fun b hb' => hb ⟨b, hb'⟩))
    · right; exact (newAttack_spec hinv la lb).2 (Or.inl (fun a ha' => ha ⟨a, ha'⟩))
  | remAtt la lb =>
    by_cases ha : ∃ a, s.Live a la
    · by_cases hb : ∃ b, s.Live b lb
      · obtain ⟨a, ha⟩ := ha
        obtain ⟨b, hb⟩ := hb
        by_cases hh : s.HasAtt a b
        · obtain ⟨k, hk⟩ := hh
          obtain ⟨pf, pt, he, h1, h2, h3, h4⟩ := ((removeAttack_spec hinv la lb).1 a b ha hb).1 k hk
          left; exact ⟨_, he, inv_dropAtt hinv ha hb hk h1 h2 h3 h4⟩
        · right; exact ((removeAttack_spec hinv la lb).1 a b ha hb).2 hh
      · right; exact (removeAttack_spec hinv la lb).2 (Or.inr (fun b hb' => hb ⟨b, hb'⟩))
    · right; exact (removeAttack_spec hinv la lb).2 (Or.inl (fun a ha' => ha ⟨a, ha'⟩))

/-- run a history, ignoring rejected operations (the state is unchanged by them) -/
def runOps (s : Store) : List StoreOp → Option Store
  | [] => some s
  | op :: ops =>
    match s.step op with
    | .ok s' => runOps s' ops
    | .err s' => runOps s' ops
    | .panic => none

/-- **every reachable state satisfies the invariant, and no history ever panics** -/
theorem inv_reachable (ops : List StoreOp) : ∃ s, runOps Store.empty ops = some s ∧ s.Inv := by
  have : ∀ (s : Store), s.Inv → ∃ s', runOps s ops = some s' ∧ s'.Inv := by
    induction ops with
    | nil => intro s h; exact ⟨s, rfl, h⟩
    | cons op ops ih =>
      intro s h
      rcases step_inv h op with ⟨s', hs', hinv'⟩ | he
      · simp only [runOps, hs']; exact ih s' hinv'
      · simp only [runOps, he]; exact ih s h
  exact this _ inv_empty

end Store
end Crusta
