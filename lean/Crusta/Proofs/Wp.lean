import Crusta.Proofs.Prog

/-!
# Sound replies and a weakest-precondition calculus for solver programs

`interp` runs a `Prog` on an arbitrary reply list.  The theorems about *answers* need the replies to
come from a correct SAT solver: `ReplySound` says what that means for one call (against the clauses
the solver has received so far and the assumptions of the call), `RunSound` says it of every reply a
run consumes.  `wp p w Q` is the usual predicate transformer ("whatever a correct solver replies,
if `p` started in world `w` returns `a` in world `w'` then `Q a w'`"); `wp_sound` ties it to
`interp`, so each per-solver theorem is proved once in the calculus and holds of every run.
`crashOk` says whether a `crash` node counts as meeting the postcondition (`True`: partial
correctness; `False`: the program provably never panics).
-/

namespace Crusta

/-- the clauses solver `s` has been given since it was created (newest first) -/
def dbOf (s : Nat) : List Ev → Cnf
  | [] => []
  | .clause s' c :: t => if s' = s then c :: dbOf s t else dbOf s t
  | .new s' :: t => if s' = s then [] else dbOf s t
  | _ :: t => dbOf s t

def World.db (w : World) (s : Nat) : Cnf := dbOf s w.trace

def assumpsTrue (ν : Asg) (a : List Lit) : Bool := a.all (litTrue ν)

/-- the model vector gives a value to every variable that occurs in the clauses -/
def ModelTotal (m : Model) (db : Cnf) : Prop := ∀ c ∈ db, ∀ l ∈ c, (m.getD (l.var - 1) none).isSome = true

/-- what a correct SAT solver may reply to `solve_under_assumptions(a)` when it holds `db` -/
def ReplySound (db : Cnf) (a : List Lit) : Reply → Prop
  | .sat m => ModelTotal m db ∧ cnfTrue (asgOfModel m) db = true ∧ assumpsTrue (asgOfModel m) a = true
  | .unsat => ∀ ν : Asg, ¬ (cnfTrue ν db = true ∧ assumpsTrue ν a = true)
  | .unknown => True

/-- every reply consumed by the run of `p` on `rs` from `w` is sound -/
def RunSound {α : Type} : Prog α → List Reply → World → Prop
  | .pure _, _, _ => True
  | .crash _, _, _ => True
  | .newSolver k, rs, w => RunSound (k w.solvers.length) rs w.onNew
  | .reserve s n k, rs, w => RunSound k rs (w.onReserve s n)
  | .clause s c k, rs, w => RunSound k rs (w.onClause s c)
  | .nVars s k, rs, w => RunSound (k (w.nVarsOf s)) rs (w.onNVars s)
  | .solve _ _ _, [], _ => True
  | .solve _ _ _, .unknown :: _, _ => True
  | .solve s a k, .unsat :: rs', w =>
    ReplySound (w.db s) a .unsat ∧
      RunSound (k none) rs' ((w.onSolve s a).onReply s .unsat)
  | .solve s a k, .sat m :: rs', w =>
    ReplySound (w.db s) a (.sat m) ∧
      RunSound (k (some m)) rs' ((w.onSolve s a).onReply s (.sat m))

def wp {α : Type} (crashOk : Prop) : Prog α → World → (α → World → Prop) → Prop
  | .pure a, w, Q => Q a w
  | .crash _, _, _ => crashOk
  | .newSolver k, w, Q => wp crashOk (k w.solvers.length) w.onNew Q
  | .reserve s n k, w, Q => wp crashOk k (w.onReserve s n) Q
  | .clause s c k, w, Q => wp crashOk k (w.onClause s c) Q
  | .nVars s k, w, Q => wp crashOk (k (w.nVarsOf s)) (w.onNVars s) Q
  | .solve s a k, w, Q =>
    (∀ m, ReplySound (w.db s) a (.sat m) →
        wp crashOk (k (some m)) ((w.onSolve s a).onReply s (.sat m)) Q) ∧
    (ReplySound (w.db s) a .unsat →
        wp crashOk (k none) ((w.onSolve s a).onReply s .unsat) Q)

/-- **soundness of the calculus**: a run on sound replies that returns meets the postcondition -/
theorem wp_sound {α : Type} {C : Prop} (p : Prog α) : ∀ (rs : List Reply) (w w' : World) (a : α)
    (Q : α → World → Prop), wp C p w Q → RunSound p rs w → interp p rs w = (.done a, w') → Q a w' := by
  induction p with
  | pure a0 =>
    intro rs w w' a Q h _ hi
    simp only [interp, Prod.mk.injEq, Outcome.done.injEq] at hi
    obtain ⟨rfl, rfl⟩ := hi
    exact h
  | crash m => intro rs w w' a Q _ _ hi; simp [interp] at hi
  | newSolver k ih => intro rs w w' a Q h hs hi; exact ih _ rs _ w' a Q h hs hi
  | reserve s n k ih => intro rs w w' a Q h hs hi; exact ih rs _ w' a Q h hs hi
  | clause s c k ih => intro rs w w' a Q h hs hi; exact ih rs _ w' a Q h hs hi
  | nVars s k ih => intro rs w w' a Q h hs hi; exact ih _ rs _ w' a Q h hs hi
  | solve s as k ih =>
    intro rs w w' a Q h hs hi
    cases rs with
    | nil => simp [interp] at hi
    | cons r rs' =>
      cases r with
      | unknown => simp [interp] at hi
      | unsat => exact ih none rs' _ w' a Q (h.2 hs.1) hs.2 hi
      | sat m => exact ih (some m) rs' _ w' a Q (h.1 m hs.1) hs.2 hi

/-- a program that meets `wp False` never panics on sound replies -/
theorem wp_no_crash {α : Type} (p : Prog α) : ∀ (rs : List Reply) (w : World)
    (Q : α → World → Prop), wp False p w Q → RunSound p rs w →
      ∀ msg w', interp p rs w ≠ (.crashed msg, w') := by
  induction p with
  | pure a0 => intro rs w Q _ _ msg w' hi; simp [interp] at hi
  | crash m => intro rs w Q h; exact h.elim
  | newSolver k ih => intro rs w Q h hs; exact ih _ rs _ Q h hs
  | reserve s n k ih => intro rs w Q h hs; exact ih rs _ Q h hs
  | clause s c k ih => intro rs w Q h hs; exact ih rs _ Q h hs
  | nVars s k ih => intro rs w Q h hs; exact ih _ rs _ Q h hs
  | solve s as k ih =>
    intro rs w Q h hs msg w' hi
    cases rs with
    | nil => simp [interp] at hi
    | cons r rs' =>
      cases r with
      | unknown => simp [interp] at hi
      | unsat => exact ih none rs' _ Q (h.2 hs.1) hs.2 msg w' hi
      | sat m => exact ih (some m) rs' _ Q (h.1 m hs.1) hs.2 msg w' hi

theorem wp_mono {α : Type} {C : Prop} (p : Prog α) : ∀ (w : World) (Q Q' : α → World → Prop),
    (∀ a w', Q a w' → Q' a w') → wp C p w Q → wp C p w Q' := by
  induction p with
  | pure a0 => intro w Q Q' hq h; exact hq _ _ h
  | crash m => intro w Q Q' _ h; exact h
  | newSolver k ih => intro w Q Q' hq h; exact ih _ _ Q Q' hq h
  | reserve s n k ih => intro w Q Q' hq h; exact ih _ Q Q' hq h
  | clause s c k ih => intro w Q Q' hq h; exact ih _ Q Q' hq h
  | nVars s k ih => intro w Q Q' hq h; exact ih _ _ Q Q' hq h
  | solve s as k ih =>
    intro w Q Q' hq h
    exact ⟨fun m hm => ih _ _ Q Q' hq (h.1 m hm), fun hu => ih _ _ Q Q' hq (h.2 hu)⟩

theorem wp_bind {α β : Type} {C : Prop} (p : Prog α) (f : α → Prog β) : ∀ (w : World) (Q : β → World → Prop),
    wp C (p.bind f) w Q ↔ wp C p w (fun a w' => wp C (f a) w' Q) := by
  induction p with
  | pure a0 => intro w Q; simp [Prog.bind, wp]
  | crash m => intro w Q; simp [Prog.bind, wp]
  | newSolver k ih => intro w Q; simp only [Prog.bind, wp]; exact ih _ _ Q
  | reserve s n k ih => intro w Q; simp only [Prog.bind, wp]; exact ih _ Q
  | clause s c k ih => intro w Q; simp only [Prog.bind, wp]; exact ih _ Q
  | nVars s k ih => intro w Q; simp only [Prog.bind, wp]; exact ih _ _ Q
  | solve s as k ih =>
    intro w Q
    simp only [Prog.bind, wp]
    constructor
    · intro h; exact ⟨fun m hm => (ih _ _ Q).1 (h.1 m hm), fun hu => (ih _ _ Q).1 (h.2 hu)⟩
    · intro h; exact ⟨fun m hm => (ih _ _ Q).2 (h.1 m hm), fun hu => (ih _ _ Q).2 (h.2 hu)⟩

theorem wp_bind' {α β : Type} {C : Prop} (p : Prog α) (f : α → Prog β) (w : World) (Q : β → World → Prop) :
    wp C (p >>= f) w Q ↔ wp C p w (fun a w' => wp C (f a) w' Q) := wp_bind p f w Q

@[simp] theorem wp_pure {α : Type} {C : Prop} (a : α) (w : World) (Q : α → World → Prop) :
    wp C (pure a : Prog α) w Q ↔ Q a w := Iff.rfl

/-! ## the clause database of a world -/

theorem db_onNew (w : World) (s : Nat) : w.onNew.db s = if w.solvers.length = s then [] else w.db s := by
  simp [World.db, World.onNew, dbOf]
@[simp] theorem db_onNew_self (w : World) : w.onNew.db w.solvers.length = [] := by
  simp [db_onNew]
@[simp] theorem db_onReserve (w : World) (s t n : Nat) : (w.onReserve t n).db s = w.db s := by
  simp [World.db, World.onReserve, World.upd, dbOf]
@[simp] theorem db_onNVars (w : World) (s t : Nat) : (w.onNVars t).db s = w.db s := by
  simp [World.db, World.onNVars, dbOf]
@[simp] theorem db_onSolve (w : World) (s t : Nat) (a : List Lit) : (w.onSolve t a).db s = w.db s := by
  simp [World.db, World.onSolve, World.upd, dbOf]
@[simp] theorem db_onReply (w : World) (s t : Nat) (r : Reply) : (w.onReply t r).db s = w.db s := by
  simp [World.db, World.onReply, dbOf]
theorem db_onClause (w : World) (s t : Nat) (c : Clause) :
    (w.onClause t c).db s = if t = s then c :: w.db s else w.db s := by
  simp [World.db, World.onClause, World.upd, dbOf]
@[simp] theorem db_onClause_same (w : World) (s : Nat) (c : Clause) : (w.onClause s c).db s = c :: w.db s := by
  simp [db_onClause]

@[simp] theorem nVarsOf_onNVars (w : World) (s t : Nat) : (w.onNVars s).nVarsOf t = w.nVarsOf t := rfl
@[simp] theorem nVarsOf_onReply (w : World) (s t : Nat) (r : Reply) : (w.onReply s r).nVarsOf t = w.nVarsOf t := rfl

/-! ## variables of the clause database are known to the solver -/

/-- every variable of a clause given to an existing solver is counted by its `n_vars` -/
def World.Bounded (w : World) : Prop :=
  ∀ s, s < w.solvers.length → ∀ c ∈ w.db s, ∀ l ∈ c, l.var ≤ w.nVarsOf s

theorem getD_set_self {α : Type} (l : List α) (i : Nat) (x d : α) (h : i < l.length) : (l.set i x).getD i d = x := by
  simp [List.getD_eq_getElem?_getD, List.getElem?_set, h]

theorem getD_set_other {α : Type} (l : List α) (i j : Nat) (x d : α) (h : i ≠ j) : (l.set i x).getD j d = l.getD j d := by
  simp [List.getD_eq_getElem?_getD, List.getElem?_set, h]

theorem nVarsOf_upd (w : World) (s t : Nat) (f : SolverSt → SolverSt) :
    (w.upd s f).nVarsOf t = if t = s ∧ s < w.solvers.length then (f (w.solvers.getD s {})).nVars else w.nVarsOf t := by
  unfold World.upd World.nVarsOf
  by_cases h : t = s ∧ s < w.solvers.length
  · obtain ⟨rfl, hlt⟩ := h
    rw [if_pos ⟨rfl, hlt⟩, getD_set_self _ _ _ _ hlt]
  · rw [if_neg h]
    by_cases hts : t = s
    · subst hts
      have : ¬ t < w.solvers.length := fun hh => h ⟨rfl, hh⟩
      simp only
      rw [List.set_eq_of_length_le (by omega)]
    · simp only
      rw [getD_set_other _ _ _ _ _ (fun e => hts e.symm)]

theorem litsMax_ge {c : List Lit} {l : Lit} (h : l ∈ c) : l.var ≤ litsMax c := by
  unfold litsMax
  have : ∀ (c : List Lit) (m : Nat), (m ≤ c.foldl (fun m x => max m x.var) m) ∧
      (∀ l ∈ c, l.var ≤ c.foldl (fun m x => max m x.var) m) := by
    intro c
    induction c with
    | nil => intro m; simp
    | cons a t ih =>
      intro m
      simp only [List.foldl_cons]
      obtain ⟨h1, h2⟩ := ih (max m a.var)
      refine ⟨by omega, ?_⟩
      intro l hl
      rcases List.mem_cons.1 hl with rfl | hl
      · omega
      · exact h2 l hl
  exact (this c 0).2 l h

theorem Bounded_onNew {w : World} (h : w.Bounded) : w.onNew.Bounded := by
  intro s hs c hc l hl
  rw [db_onNew] at hc
  by_cases he : w.solvers.length = s
  · rw [if_pos he] at hc; cases hc
  · rw [if_neg he] at hc
    have hs' : s < w.solvers.length := by simp [World.onNew] at hs; omega
    have := h s hs' c hc l hl
    have e : w.onNew.nVarsOf s = w.nVarsOf s := by
      simp [World.onNew, World.nVarsOf, List.getD_eq_getElem?_getD, List.getElem?_append_left hs']
    rw [e]; exact this

theorem Bounded_onReserve {w : World} (h : w.Bounded) (s n : Nat) : (w.onReserve s n).Bounded := by
  intro t ht c hc l hl
  have ht' : t < w.solvers.length := by simpa [World.onReserve, World.upd] using ht
  rw [db_onReserve] at hc
  have := h t ht' c hc l hl
  have e : (w.onReserve s n).nVarsOf t = (w.upd s (fun st => { st with reserved := max st.reserved n })).nVarsOf t := rfl
  rw [e, nVarsOf_upd]
  split
  · rename_i hh
    obtain ⟨rfl, _⟩ := hh
    simp only [SolverSt.nVars, World.nVarsOf] at this ⊢
    omega
  · exact this

theorem Bounded_onClause {w : World} (h : w.Bounded) (s : Nat) (c0 : Clause) : (w.onClause s c0).Bounded := by
  intro t ht c hc l hl
  have ht' : t < w.solvers.length := by simpa [World.onClause, World.upd] using ht
  have e : (w.onClause s c0).nVarsOf t = (w.upd s (fun st => { st with maxVar := max st.maxVar (litsMax c0) })).nVarsOf t := rfl
  rw [e, nVarsOf_upd]
  rw [db_onClause] at hc
  by_cases hst : s = t
  · subst hst
    rw [if_pos ⟨rfl, ht'⟩]
    rw [if_pos rfl] at hc
    simp only [SolverSt.nVars]
    rcases List.mem_cons.1 hc with rfl | hc
    · have := litsMax_ge hl; omega
    · have := h s ht' c hc l hl
      simp only [World.nVarsOf, SolverSt.nVars] at this
      omega
  · rw [if_neg (fun hh => hst hh.1.symm)]
    rw [if_neg hst] at hc
    exact h t ht' c hc l hl

theorem Bounded_onNVars {w : World} (h : w.Bounded) (s : Nat) : (w.onNVars s).Bounded := by
  intro t ht c hc l hl
  rw [db_onNVars] at hc
  exact h t ht c hc l hl

theorem Bounded_onSolve {w : World} (h : w.Bounded) (s : Nat) (a : List Lit) : (w.onSolve s a).Bounded := by
  intro t ht c hc l hl
  have ht' : t < w.solvers.length := by simpa [World.onSolve, World.upd] using ht
  rw [db_onSolve] at hc
  have := h t ht' c hc l hl
  have e : (w.onSolve s a).nVarsOf t = (w.upd s (fun st => { st with maxVar := max st.maxVar (litsMax a) })).nVarsOf t := rfl
  rw [e, nVarsOf_upd]
  split
  · rename_i hh
    obtain ⟨rfl, _⟩ := hh
    simp only [SolverSt.nVars, World.nVarsOf] at this ⊢
    omega
  · exact this

theorem Bounded_onReply {w : World} (h : w.Bounded) (s : Nat) (r : Reply) : (w.onReply s r).Bounded := by
  intro t ht c hc l hl
  rw [db_onReply] at hc
  exact h t ht c hc l hl

/-- boundedness is an invariant of every program: it can be added to any postcondition -/
theorem wp_bounded {α : Type} {C : Prop} (p : Prog α) : ∀ (w : World) (Q : α → World → Prop),
    w.Bounded → wp C p w Q → wp C p w (fun a w' => w'.Bounded ∧ Q a w') := by
  induction p with
  | pure a0 => intro w Q hb h; exact ⟨hb, h⟩
  | crash m => intro w Q _ h; exact h
  | newSolver k ih => intro w Q hb h; exact ih _ _ Q (Bounded_onNew hb) h
  | reserve s n k ih => intro w Q hb h; exact ih _ Q (Bounded_onReserve hb s n) h
  | clause s c k ih => intro w Q hb h; exact ih _ Q (Bounded_onClause hb s c) h
  | nVars s k ih => intro w Q hb h; exact ih _ _ Q (Bounded_onNVars hb s) h
  | solve s as k ih =>
    intro w Q hb h
    exact ⟨fun m hm => ih _ _ Q (Bounded_onReply (Bounded_onSolve hb s as) s _) (h.1 m hm),
           fun hu => ih _ _ Q (Bounded_onReply (Bounded_onSolve hb s as) s _) (h.2 hu)⟩

theorem len_onClause (w : World) (s : Nat) (c : Clause) : (w.onClause s c).solvers.length = w.solvers.length := by
  simp [World.onClause, World.upd]
theorem len_onSolve (w : World) (s : Nat) (a : List Lit) : (w.onSolve s a).solvers.length = w.solvers.length := by
  simp [World.onSolve, World.upd]

/-- conjunction rule of the calculus -/
theorem wp_and {α : Type} {C : Prop} (p : Prog α) : ∀ (w : World) (Q1 Q2 : α → World → Prop),
    wp C p w Q1 → wp C p w Q2 → wp C p w (fun a w' => Q1 a w' ∧ Q2 a w') := by
  induction p with
  | pure a0 => intro w Q1 Q2 h1 h2; exact ⟨h1, h2⟩
  | crash m => intro w Q1 Q2 h1 _; exact h1
  | newSolver k ih => intro w Q1 Q2 h1 h2; exact ih _ _ Q1 Q2 h1 h2
  | reserve s n k ih => intro w Q1 Q2 h1 h2; exact ih _ Q1 Q2 h1 h2
  | clause s c k ih => intro w Q1 Q2 h1 h2; exact ih _ Q1 Q2 h1 h2
  | nVars s k ih => intro w Q1 Q2 h1 h2; exact ih _ _ Q1 Q2 h1 h2
  | solve s as k ih =>
    intro w Q1 Q2 h1 h2
    exact ⟨fun m hm => ih _ _ Q1 Q2 (h1.1 m hm) (h2.1 m hm), fun hu => ih _ _ Q1 Q2 (h1.2 hu) (h2.2 hu)⟩

/-- conjunction rule, the second statement being crash-tolerant -/
theorem wp_andT {α : Type} {C : Prop} (p : Prog α) : ∀ (w : World) (Q1 Q2 : α → World → Prop),
    wp C p w Q1 → wp True p w Q2 → wp C p w (fun a w' => Q1 a w' ∧ Q2 a w') := by
  induction p with
  | pure a0 => intro w Q1 Q2 h1 h2; exact ⟨h1, h2⟩
  | crash m => intro w Q1 Q2 h1 _; exact h1
  | newSolver k ih => intro w Q1 Q2 h1 h2; exact ih _ _ Q1 Q2 h1 h2
  | reserve s n k ih => intro w Q1 Q2 h1 h2; exact ih _ Q1 Q2 h1 h2
  | clause s c k ih => intro w Q1 Q2 h1 h2; exact ih _ Q1 Q2 h1 h2
  | nVars s k ih => intro w Q1 Q2 h1 h2; exact ih _ _ Q1 Q2 h1 h2
  | solve s as k ih =>
    intro w Q1 Q2 h1 h2
    exact ⟨fun m hm => ih _ _ Q1 Q2 (h1.1 m hm) (h2.1 m hm), fun hu => ih _ _ Q1 Q2 (h1.2 hu) (h2.2 hu)⟩

theorem Bounded_empty : ({} : World).Bounded := by
  intro s hs; simp at hs

end Crusta
