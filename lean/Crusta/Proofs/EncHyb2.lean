import Crusta.Proofs.EncHyb

/-!
# hybrid encoder: freshness of the allocated variables, "no fewer" direction, range variant
-/

namespace Crusta
namespace Hyb

/-- allocation invariant: every allocated variable lies in `[lo, next)` and is used once -/
def AInv (lo : Nat) (st : St) : Prop :=
  lo ≤ st.next ∧ (∀ b v, dvOf st b = some v → lo ≤ v ∧ v < st.next) ∧
  (∀ b b' v, dvOf st b = some v → dvOf st b' = some v → b = b')

theorem allocFor_ainv (af : AF) (lo : Nat) : ∀ (bs : List Nat) (st : St),
    (∀ b ∈ bs, b < st.dv.length) → AInv lo st → AInv lo (allocFor af st bs) := by
  intro bs
  induction bs with
  | nil => intro st _ h; exact h
  | cons b bs ih =>
    intro st hlt hinv
    have hb : b < st.dv.length := hlt b (List.mem_cons_self ..)
    have hbs : ∀ c ∈ bs, c < st.dv.length := fun c hc => hlt c (List.mem_cons_of_mem _ hc)
    simp only [allocFor]
    split
    · exact ih st hbs hinv
    · rename_i hnone
      apply ih
      · intro c hc; simp; exact hbs c hc
      · obtain ⟨h1, h2, h3⟩ := hinv
        have hb1 : ∀ (o : Cnf), dvOf { dv := st.dv.set b (some st.next), next := st.next + 1, out := o } b = some st.next :=
          fun o => dvOf_set_self hb _ _ _
        have hne1 : ∀ (o : Cnf) c, b ≠ c → dvOf { dv := st.dv.set b (some st.next), next := st.next + 1, out := o } c = dvOf st c :=
          fun o c hne => dvOf_set_ne hne _ _ _
        refine ⟨by simp; omega, ?_, ?_⟩
        · intro c v hc
          by_cases e : b = c
          · subst e; rw [hb1] at hc; injection hc with hc; subst hc; simp; omega
          · rw [hne1 _ c e] at hc
            have := h2 c v hc; simp; omega
        · intro c c' v hc hc'
          by_cases e : b = c <;> by_cases e' : b = c'
          · rw [← e, ← e']
          · subst e; rw [hb1] at hc; injection hc with hc; subst hc
            rw [hne1 _ c' e'] at hc'
            have := (h2 c' _ hc').2; omega
          · subst e'; rw [hb1] at hc'; injection hc' with hc'; subst hc'
            rw [hne1 _ c e] at hc
            have := (h2 c _ hc).2; omega
          · rw [hne1 _ c e] at hc; rw [hne1 _ c' e'] at hc'
            exact h3 c c' v hc hc'

/-- `argStep` only changes the allocation through `allocFor` -/
theorem argStep_dv {af : AF} (hwf : af.WF) (thr : Nat) (st : St) (k : Nat) (hk : k < af.n)
    (hlen : st.dv.length = af.n) (lo : Nat) :
    (argStep thr af st k).dv.length = af.n ∧
    (∀ b v, dvOf st b = some v → dvOf (argStep thr af st k) b = some v) ∧
    (AInv lo st → AInv lo (argStep thr af st k)) := by
  have hlt : ∀ b ∈ af.attackers k, b < st.dv.length := by
    intro b hb; rw [hlen]; exact AF.attackers_lt hwf hb
  unfold argStep
  simp only
  split
  · exact ⟨hlen, fun _ _ h => h, fun h => h⟩
  · split
    · exact ⟨hlen, fun _ _ h => h, fun h => h⟩
    · split
      · exact ⟨hlen, fun _ _ h => h, fun h => h⟩
      · obtain ⟨hl', hmono, _, _⟩ := allocFor_spec af (fun _ => true) (af.attackers k) st hlt
        refine ⟨by show (allocFor af st (af.attackers k)).dv.length = af.n; rw [hl', hlen], ?_, ?_⟩
        · intro b v h; exact hmono b v h
        · intro h; exact allocFor_ainv af lo (af.attackers k) st hlt h

theorem init_ainv (af : AF) (r : Bool) : AInv (init af r).next (init af r) := by
  refine ⟨Nat.le_refl _, ?_, ?_⟩
  · intro b v h
    unfold dvOf init at h
    simp only [List.getD_eq_getElem?_getD, List.getElem?_replicate] at h
    split at h <;> cases h
  · intro b b' v h
    unfold dvOf init at h
    simp only [List.getD_eq_getElem?_getD, List.getElem?_replicate] at h
    split at h <;> cases h

/-! ### the canonical assignment of a set, relative to a final allocation -/

open Classical in
noncomputable def asgOf (af : AF) (T : ASet) (stF : St) : Asg := fun v =>
  if v ≤ af.n then T (v - 1)
  else if ∃ b, dvOf stF b = some v then decide (∃ b, dvOf stF b = some v ∧ AttackedBy af T b)
  else decide (InRange af T (v - af.n - 1))

theorem asgOf_x (af : AF) (T : ASet) (stF : St) {a : Nat} (ha : a < af.n) :
    asgOf af T stF (Exp.x a) = T a := by
  unfold asgOf Exp.x
  have : a + 1 ≤ af.n := by omega
  simp [this]

theorem S_asgOf (af : AF) (T : ASet) (stF : St) (hT : Sub af T) : Exp.S af (asgOf af T stF) = T := by
  funext a
  unfold Exp.S setOfAsg
  by_cases ha : a < af.n
  · simp [ha, asgOf_x af T stF ha]
  · cases h : T a
    · simp [ha]
    · exact absurd (hT a h) ha

open Classical in
theorem asgOf_dv (af : AF) (T : ASet) (stF : St) {lo : Nat} (hlo : af.n < lo) (hA : AInv lo stF)
    {b v : Nat} (hbv : dvOf stF b = some v) :
    asgOf af T stF v = true ↔ AttackedBy af T b := by
  have hv : ¬ v ≤ af.n := by have := (hA.2.1 b v hbv).1; omega
  unfold asgOf
  rw [if_neg hv, if_pos ⟨b, hbv⟩, decide_eq_true_eq]
  constructor
  · rintro ⟨b', hb', hatt⟩
    rw [hA.2.2 b b' v hbv hb']; exact hatt
  · intro h; exact ⟨b, hbv, h⟩

open Classical in
theorem asgOf_r (af : AF) (T : ASet) (stF : St) {lo : Nat} (hlo : af.n * 2 < lo) (hA : AInv lo stF)
    {a : Nat} (ha : a < af.n) :
    asgOf af T stF (Exp.r af.n a) = true ↔ InRange af T a := by
  unfold asgOf Exp.r
  have h1 : ¬ af.n + a + 1 ≤ af.n := by omega
  have h2 : ¬ ∃ b, dvOf stF b = some (af.n + a + 1) := by
    rintro ⟨b, hb⟩
    have := (hA.2.1 b _ hb).1; omega
  have h3 : af.n + a + 1 - af.n - 1 = a := by omega
  rw [if_neg h1, if_neg h2, h3, decide_eq_true_eq]

/-- the canonical assignment defines every allocated disjunction variable correctly -/
theorem asgOf_dvc {af : AF} (hwf : af.WF) (T : ASet) (hT : ConflictFree af T) (stF : St) {lo : Nat}
    (hlo : af.n < lo) (hA : AInv lo stF) (hlen : stF.dv.length = af.n) :
    DvC af (asgOf af T stF) stF := by
  intro b v hbv
  rw [disjWith_iff hwf]
  have hb : b < af.n := by rw [← hlen]; exact dvOf_lt hbv
  unfold DisjDef
  rw [S_asgOf af T stF hT.1, asgOf_x af T stF hb]
  refine ⟨?_, asgOf_dv af T stF hlo hA hbv⟩
  intro hTb
  cases hv : asgOf af T stF v
  · rfl
  · exact absurd ((asgOf_dv af T stF hlo hA hbv).1 hv) (hT.2 b hTb)

/-! ### plain variant: no fewer -/

theorem fold_dv {af : AF} (hwf : af.WF) (thr : Nat) (r : Bool)
    (f : St → Nat → St) (hf : ∀ st k, (f st k).dv = (argStep thr af st k).dv ∧ (f st k).next = (argStep thr af st k).next) :
    ∀ k, k ≤ af.n →
      ((List.range k).foldl f (init af r)).dv.length = af.n ∧
      AInv (init af r).next ((List.range k).foldl f (init af r)) := by
  intro k
  induction k with
  | zero => intro _; exact ⟨by simp [init], init_ainv af r⟩
  | succ k ih =>
    intro hk
    rw [List.range_succ, List.foldl_append]
    obtain ⟨h1, h2⟩ := ih (by omega)
    obtain ⟨g1, _, g3⟩ := argStep_dv hwf thr _ k (by omega) h1 (init af r).next
    have ⟨e1, e2⟩ := hf ((List.range k).foldl f (init af r)) k
    simp only [List.foldl_cons, List.foldl_nil]
    refine ⟨by rw [e1]; exact g1, ?_⟩
    have hA := g3 h2
    unfold AInv dvOf at hA ⊢
    rw [e1, e2]; exact hA

theorem co_surj (thr : Nat) (af : AF) (hwf : af.WF) (T : ASet) (hT : Complete af T) :
    ∃ ν, cnfTrue ν (co thr af) = true ∧ Exp.S af ν = T := by
  obtain ⟨hlen, hA⟩ := fold_dv hwf thr false (argStep thr af) (fun _ _ => ⟨rfl, rfl⟩) af.n (Nat.le_refl _)
  refine ⟨asgOf af T (run thr af), ?_, S_asgOf af T _ hT.1.1.1⟩
  rw [co_iff thr af hwf, S_asgOf af T _ hT.1.1.1]
  refine ⟨hT, asgOf_dvc hwf T hT.1.1 _ (lo := (init af false).next) (by simp [init]) hA hlen⟩

/-! ### range variant -/

def RS (af : AF) (ν : Asg) (a : Nat) : Prop :=
  (Exp.S af ν a = true → ν (Exp.r af.n a) = true) ∧ (ν (Exp.r af.n a) = true → InRange af (Exp.S af ν) a)

def Exact (af : AF) (ν : Asg) : Prop :=
  ∀ a, a < af.n → (ν (Exp.r af.n a) = true ↔ InRange af (Exp.S af ν) a)

def HInvR (af : AF) (ν : Asg) (st : St) (k : Nat) : Prop :=
  ∃ rc : Cnf, HInvP (cnfTrue ν rc = true) af ν st k ∧
    (cnfTrue ν rc = true → DvC af ν st → ∀ a, a < k → RS af ν a) ∧
    (Exact af ν → DvC af ν st → cnfTrue ν rc = true)

theorem rangeStep_inv {af : AF} (hwf : af.WF) (ν : Asg) (st : St) (k : Nat) (hk : k < af.n)
    (rc : Cnf) (hP : HInvP (cnfTrue ν rc = true) af ν st (k + 1))
    (h2 : cnfTrue ν rc = true → DvC af ν st → ∀ a, a < k → RS af ν a)
    (h3 : Exact af ν → DvC af ν st → cnfTrue ν rc = true) :
    HInvR af ν (rangeStep af st k) (k + 1) := by
  -- the clauses added by `rangeStep`
  have key : ∃ X : Cnf, rangeStep af st k = { st with out := st.out ++ X } ∧
      (cnfTrue ν X = true → DvC af ν st → RS af ν k) ∧
      (Exact af ν → DvC af ν st → cnfTrue ν X = true) := by
    unfold rangeStep
    cases hdv : dvOf st k with
    | none =>
      refine ⟨Exp.range af k, rfl, ?_, ?_⟩
      · intro hX _; exact (Exp.range_iff hwf ν hk).1 hX
      · intro hE _
        apply (Exp.range_iff hwf ν hk).2
        exact ⟨fun h => (hE k hk).2 (Or.inl h), fun h => (hE k hk).1 h⟩
    | some v =>
      refine ⟨_, rfl, ?_, ?_⟩
      · intro hX hD
        have hdd := (disjWith_iff hwf ν k v).1 (hD k v hdv)
        simp only [cnfTrue_cons, cnfTrue_nil, Bool.and_true, Bool.and_eq_true, clauseTrue_cons,
          clauseTrue_nil, litTrue_nl, litTrue_pl, Bool.or_false, Bool.or_eq_true,
          Bool.not_eq_true'] at hX
        obtain ⟨hx1, hx2, hx3⟩ := hX
        unfold RS InRange
        rw [Exp.S_lt hk]
        refine ⟨?_, ?_⟩
        · intro hxa; rcases hx1 with h | h
          · rw [hxa] at h; cases h
          · exact h
        · intro hr
          rcases hx3 with h | h | h
          · rw [hr] at h; cases h
          · left; exact h
          · right; exact hdd.2.1 h
      · intro hE hD
        have hdd := (disjWith_iff hwf ν k v).1 (hD k v hdv)
        have hEk := hE k hk
        unfold InRange at hEk
        rw [Exp.S_lt hk] at hEk
        simp only [cnfTrue_cons, cnfTrue_nil, Bool.and_true, Bool.and_eq_true, clauseTrue_cons,
          clauseTrue_nil, litTrue_nl, litTrue_pl, Bool.or_false, Bool.or_eq_true,
          Bool.not_eq_true']
        refine ⟨?_, ?_, ?_⟩
        · cases hxa : ν (Exp.x k)
          · left; rfl
          · right; exact hEk.2 (Or.inl hxa)
        · cases hv : ν v
          · left; rfl
          · right; exact hEk.2 (Or.inr (hdd.2.1 hv))
        · cases hr : ν (Exp.r af.n k)
          · left; rfl
          · right
            rcases hEk.1 hr with h | h
            · left; exact h
            · right; exact hdd.2.2 h
  obtain ⟨X, hXeq, hX2, hX3⟩ := key
  rw [hXeq]
  refine ⟨rc ++ X, ⟨hP.1, ?_⟩, ?_, ?_⟩
  · show cnfTrue ν (st.out ++ X) = true ↔ (((∀ a, a < k + 1 → Local3 af ν a) ∧ DvC af ν st) ∧ cnfTrue ν (rc ++ X) = true)
    rw [cnfTrue_append, Bool.and_eq_true, hP.2, cnfTrue_append, Bool.and_eq_true]
    constructor
    · rintro ⟨⟨h, hr⟩, hx⟩; exact ⟨h, hr, hx⟩
    · rintro ⟨h, hr, hx⟩; exact ⟨⟨h, hr⟩, hx⟩
  · intro hrc hD a ha
    rw [cnfTrue_append, Bool.and_eq_true] at hrc
    have hD' : DvC af ν st := hD
    by_cases e : a = k
    · subst e; exact hX2 hrc.2 hD'
    · exact h2 hrc.1 hD' a (by omega)
  · intro hE hD
    have hD' : DvC af ν st := hD
    rw [cnfTrue_append, Bool.and_eq_true]
    exact ⟨h3 hE hD', hX3 hE hD'⟩

theorem foldR_inv {af : AF} (hwf : af.WF) (thr : Nat) (ν : Asg) : ∀ k, k ≤ af.n →
    HInvR af ν ((List.range k).foldl (fun st a => rangeStep af (argStep thr af st a) a) (init af true)) k := by
  intro k
  induction k with
  | zero =>
    intro _
    refine ⟨[], ?_, fun _ _ a ha => absurd ha (Nat.not_lt_zero _), fun _ _ => rfl⟩
    have := init_inv af ν true
    simp only [List.range_zero, List.foldl_nil]
    refine ⟨this.1, ?_⟩
    rw [this.2]; simp
  | succ k ih =>
    intro hk
    rw [List.range_succ, List.foldl_append]
    simp only [List.foldl_cons, List.foldl_nil]
    obtain ⟨rc, hP, h2, h3⟩ := ih (by omega)
    generalize (List.range k).foldl (fun st a => rangeStep af (argStep thr af st a) a) (init af true) = st at *
    have hk' : k < af.n := by omega
    have hP' := argStep_inv hwf thr ν _ st k hk' hP
    obtain ⟨_, hmono, _⟩ := argStep_dv hwf thr st k hk' hP.1 0
    have hDmono : DvC af ν (argStep thr af st k) → DvC af ν st := fun hD b v hb => hD b v (hmono b v hb)
    exact rangeStep_inv hwf ν _ k hk' rc hP' (fun hrc hD => h2 hrc (hDmono hD)) (fun hE hD => h3 hE (hDmono hD))

/-- range variant, soundness: every model denotes a complete set and a range variable is true
only inside the range of that set (and true for every member of the set) -/
theorem coRange_sound (thr : Nat) (af : AF) (hwf : af.WF) (ν : Asg)
    (h : cnfTrue ν (coRange thr af) = true) :
    Complete af (Exp.S af ν) ∧ Exp.RSound af ν := by
  obtain ⟨rc, hP, h2, _⟩ := foldR_inv hwf thr ν af.n (Nat.le_refl _)
  unfold coRange runRange at h
  obtain ⟨⟨hloc, hD⟩, hrc⟩ := hP.2.1 h
  refine ⟨?_, fun a ha => h2 hrc hD a ha⟩
  rw [co_iff_local af _ (Exp.S_sub af ν)]
  exact ⟨fun a ha => (hloc a ha).1, fun a ha => (hloc a ha).2.1, fun a ha => (hloc a ha).2.2⟩

/-- range variant, completeness: every complete set has a model whose range variables are exactly
its range -/
theorem coRange_exact (thr : Nat) (af : AF) (hwf : af.WF) (T : ASet) (hT : Complete af T) :
    ∃ ν, cnfTrue ν (coRange thr af) = true ∧ Exp.S af ν = T ∧
      ∀ a, a < af.n → (ν (Exp.r af.n a) = true ↔ InRange af T a) := by
  obtain ⟨hlen, hA⟩ := fold_dv hwf thr true (fun st a => rangeStep af (argStep thr af st a) a)
    (fun st k => by unfold rangeStep; cases dvOf (argStep thr af st k) k <;> exact ⟨rfl, rfl⟩) af.n (Nat.le_refl _)
  have hlo : af.n * 2 < (init af true).next := by simp [init]
  let stF := (List.range af.n).foldl (fun st a => rangeStep af (argStep thr af st a) a) (init af true)
  let ν := asgOf af T stF
  have hS : Exp.S af ν = T := S_asgOf af T stF hT.1.1.1
  have hE : Exact af ν := by
    intro a ha; rw [hS]; exact asgOf_r af T stF hlo hA ha
  have hD : DvC af ν stF := asgOf_dvc hwf T hT.1.1 stF (lo := (init af true).next) (by omega) hA hlen
  obtain ⟨rc, hP, _, h3⟩ := foldR_inv hwf thr ν af.n (Nat.le_refl _)
  refine ⟨ν, ?_, hS, fun a ha => by rw [← hS]; exact hE a ha⟩
  unfold coRange runRange
  apply hP.2.2
  refine ⟨⟨?_, hD⟩, h3 hE hD⟩
  have hloc := (co_iff_local af _ (Exp.S_sub af ν)).1 (hS ▸ hT)
  exact fun a ha => ⟨hloc.1 a ha, hloc.2.1 a ha, hloc.2.2 a ha⟩

end Hyb
end Crusta
