/-!
# Spec layer: Dung argumentation frameworks and the seven semantics

Import-free (core Lean only) so that the driver executable can link it.

* `AF` is a *compact* framework: arguments are `0 .. n-1`, attacks a list of pairs (order and
  duplicates are kept: the ICCMA reader keeps them and iteration order is observable in the CNF).
* Sets of arguments are `ASet := Nat → Bool` in the `Prop`-level definitions and `List Nat` in the
  executable deciders; `ofList` connects the two.
* Every `Prop` below is the textbook definition; the `…B` functions are brute-force deciders whose
  agreement with the `Prop`s is proved in `Crusta/Proofs/Deciders.lean`.
-/

namespace Crusta

structure AF where
  n : Nat
  atts : List (Nat × Nat)
deriving Repr, DecidableEq

abbrev ASet := Nat → Bool

def ofList (l : List Nat) : ASet := fun a => l.contains a

namespace AF

/-- well-formed: every endpoint is an argument -/
def WF (af : AF) : Prop := ∀ p ∈ af.atts, p.1 < af.n ∧ p.2 < af.n

def wfB (af : AF) : Bool := af.atts.all (fun p => decide (p.1 < af.n) && decide (p.2 < af.n))

/-- attackers of `a`, in attack-list order, duplicates kept -/
def attackers (af : AF) (a : Nat) : List Nat :=
  (af.atts.filter (fun p => p.2 == a)).map (·.1)

/-- arguments attacked by `a`, in attack-list order, duplicates kept -/
def attackedOf (af : AF) (a : Nat) : List Nat :=
  (af.atts.filter (fun p => p.1 == a)).map (·.2)

end AF

/-! ## Textbook definitions -/

def Sub (af : AF) (S : ASet) : Prop := ∀ a, S a = true → a < af.n

def SubsetS (S T : ASet) : Prop := ∀ a, S a = true → T a = true

def AttackedBy (af : AF) (S : ASet) (a : Nat) : Prop := ∃ b, (b, a) ∈ af.atts ∧ S b = true

def ConflictFree (af : AF) (S : ASet) : Prop :=
  Sub af S ∧ ∀ a, S a = true → ¬ AttackedBy af S a

def Defended (af : AF) (S : ASet) (a : Nat) : Prop :=
  ∀ b, (b, a) ∈ af.atts → AttackedBy af S b

def Admissible (af : AF) (S : ASet) : Prop :=
  ConflictFree af S ∧ ∀ a, S a = true → Defended af S a

def Complete (af : AF) (S : ASet) : Prop :=
  Admissible af S ∧ ∀ a, a < af.n → Defended af S a → S a = true

def Stable (af : AF) (S : ASet) : Prop :=
  ConflictFree af S ∧ ∀ a, a < af.n → S a = false → AttackedBy af S a

def Preferred (af : AF) (S : ASet) : Prop :=
  Admissible af S ∧ ∀ T, Admissible af T → SubsetS S T → SubsetS T S

def Grounded (af : AF) (S : ASet) : Prop :=
  Complete af S ∧ ∀ T, Complete af T → SubsetS S T

def InRange (af : AF) (S : ASet) (a : Nat) : Prop := S a = true ∨ AttackedBy af S a

def RangeSub (af : AF) (S T : ASet) : Prop := ∀ a, InRange af S a → InRange af T a

def SemiStable (af : AF) (S : ASet) : Prop :=
  Complete af S ∧ ∀ T, Complete af T → RangeSub af S T → RangeSub af T S

def Stage (af : AF) (S : ASet) : Prop :=
  ConflictFree af S ∧ ∀ T, ConflictFree af T → RangeSub af S T → RangeSub af T S

/-- admissible and inside every preferred extension -/
def IdealCand (af : AF) (S : ASet) : Prop :=
  Admissible af S ∧ ∀ P, Preferred af P → SubsetS S P

def Ideal (af : AF) (S : ASet) : Prop :=
  IdealCand af S ∧ ∀ T, IdealCand af T → SubsetS S T → SubsetS T S

inductive Sem | GR | CO | PR | ST | SST | STG | ID
deriving Repr, DecidableEq, Inhabited

def Sem.Ext : Sem → AF → ASet → Prop
  | .GR => Grounded
  | .CO => Complete
  | .PR => Preferred
  | .ST => Stable
  | .SST => SemiStable
  | .STG => Stage
  | .ID => Ideal

/-! ## Executable deciders (brute force) -/

def subsetB (s t : List Nat) : Bool := s.all (fun a => t.contains a)

/-- all subsets of `{0..n-1}` -/
def subsets : Nat → List (List Nat)
  | 0 => [[]]
  | n + 1 => subsets n ++ (subsets n).map (fun l => n :: l)

def subL (af : AF) (l : List Nat) : Bool := l.all (fun a => decide (a < af.n))

def attackedByB (af : AF) (l : List Nat) (a : Nat) : Bool :=
  af.atts.any (fun p => p.2 == a && l.contains p.1)

def cfB (af : AF) (l : List Nat) : Bool :=
  subL af l && l.all (fun a => !attackedByB af l a)

def defendedB (af : AF) (l : List Nat) (a : Nat) : Bool :=
  af.atts.all (fun p => !(p.2 == a) || attackedByB af l p.1)

def admB (af : AF) (l : List Nat) : Bool :=
  cfB af l && l.all (defendedB af l)

def coB (af : AF) (l : List Nat) : Bool :=
  admB af l && (List.range af.n).all (fun a => !defendedB af l a || l.contains a)

def stB (af : AF) (l : List Nat) : Bool :=
  cfB af l && (List.range af.n).all (fun a => l.contains a || attackedByB af l a)

def inRangeB (af : AF) (l : List Nat) (a : Nat) : Bool := l.contains a || attackedByB af l a

def rangeL (af : AF) (l : List Nat) : List Nat := (List.range af.n).filter (inRangeB af l)

def rangeSubB (af : AF) (s t : List Nat) : Bool :=
  (List.range af.n).all (fun a => !inRangeB af s a || inRangeB af t a)

def extsCF (af : AF) : List (List Nat) := (subsets af.n).filter (cfB af)
def extsADM (af : AF) : List (List Nat) := (subsets af.n).filter (admB af)
def extsCO (af : AF) : List (List Nat) := (subsets af.n).filter (coB af)
def extsST (af : AF) : List (List Nat) := (subsets af.n).filter (stB af)

def prB (af : AF) (l : List Nat) : Bool :=
  admB af l && (extsADM af).all (fun t => !subsetB l t || subsetB t l)

def grB (af : AF) (l : List Nat) : Bool :=
  coB af l && (extsCO af).all (fun t => subsetB l t)

def sstB (af : AF) (l : List Nat) : Bool :=
  coB af l && (extsCO af).all (fun t => !rangeSubB af l t || rangeSubB af t l)

def stgB (af : AF) (l : List Nat) : Bool :=
  cfB af l && (extsCF af).all (fun t => !rangeSubB af l t || rangeSubB af t l)

def extsPR (af : AF) : List (List Nat) :=
  let A := extsADM af
  A.filter (fun s => A.all (fun t => !subsetB s t || subsetB t s))

def idealCandB (af : AF) (l : List Nat) : Bool :=
  admB af l && (extsPR af).all (fun p => subsetB l p)

def extsIDC (af : AF) : List (List Nat) :=
  let P := extsPR af
  (extsADM af).filter (fun s => P.all (fun p => subsetB s p))

def idB (af : AF) (l : List Nat) : Bool :=
  idealCandB af l && (extsIDC af).all (fun t => !subsetB l t || subsetB t l)

def extsGR (af : AF) : List (List Nat) :=
  let C := extsCO af
  C.filter (fun s => C.all (fun t => subsetB s t))

def extsSST (af : AF) : List (List Nat) :=
  let C := extsCO af
  C.filter (fun s => C.all (fun t => !rangeSubB af s t || rangeSubB af t s))

def extsSTG (af : AF) : List (List Nat) :=
  let C := extsCF af
  C.filter (fun s => C.all (fun t => !rangeSubB af s t || rangeSubB af t s))

def extsID (af : AF) : List (List Nat) :=
  let A := extsIDC af
  A.filter (fun s => A.all (fun t => !subsetB s t || subsetB t s))

def Sem.extB : Sem → AF → List Nat → Bool
  | .GR => grB
  | .CO => coB
  | .PR => prB
  | .ST => stB
  | .SST => sstB
  | .STG => stgB
  | .ID => idB

def Sem.exts : Sem → AF → List (List Nat)
  | .GR => extsGR
  | .CO => extsCO
  | .PR => extsPR
  | .ST => extsST
  | .SST => extsSST
  | .STG => extsSTG
  | .ID => extsID

/-- credulous acceptance of at least one member of `as` (reference) -/
def Sem.credB (σ : Sem) (af : AF) (as : List Nat) : Bool :=
  (σ.exts af).any (fun e => as.any (fun a => e.contains a))

/-- skeptical acceptance of at least one member of `as` in every extension (reference) -/
def Sem.skepB (σ : Sem) (af : AF) (as : List Nat) : Bool :=
  (σ.exts af).all (fun e => as.any (fun a => e.contains a))

def Sem.ofString? : String → Option Sem
  | "GR" => some .GR | "CO" => some .CO | "PR" => some .PR | "ST" => some .ST
  | "SST" => some .SST | "STG" => some .STG | "ID" => some .ID | _ => none

end Crusta
