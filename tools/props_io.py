"""C13 (readers total and faithful), C14 (writers read back)."""
import re

import gen
from engine import Property, Finding
from props_store import rand_history

WS = [" ", "\t", " ", "  ", " ", " ", "\t "]


def hx(b):
    return b.hex()


def iccma_file(rng, n, atts, ill=None):
    """returns (text bytes, expected) with expected = ('ok', n, atts) | ('err',)"""
    lines = []
    sep = lambda: rng.choice(WS) if rng.random() < 0.3 else " "

    def num(k):
        s = str(k)
        if rng.random() < 0.1:
            s = "+" + s
        if rng.random() < 0.05:
            s = "00" + s if not s.startswith("+") else s
        return s
    pre = ("%sp%saf%s%s%s" % (rng.choice(["", " ", "\t"]) if rng.random() < 0.2 else "", sep(), sep(), num(n), rng.choice(["", " "])))
    body = ["%s%s%s%s" % (rng.choice(["", " "]) if rng.random() < 0.1 else "", num(a + 1), sep(), num(b + 1)) for a, b in atts]
    exp_atts = list(atts)
    expected = ("ok", n, exp_atts)
    if ill == "bad_header":
        pre = rng.choice(["p aff %d" % n, "p af", "p af x", "q af %d" % n, "p af %d 3" % n, "paf %d" % n, "p af -1", "p af 1.0", "P AF %d" % n])
        expected = ("err",)
    elif ill == "missing_header":
        pre = None
        expected = ("err",)
    elif ill == "range":
        bad = rng.choice([0, n + 1, -1, n + 7])
        body.insert(rng.randrange(len(body) + 1), rng.choice(["%d %d" % (bad, 1), "%d %d" % (1, bad)]))
        expected = ("err",)
    elif ill == "nonnumeric":
        body.insert(rng.randrange(len(body) + 1), rng.choice(["a 1", "1 b", "1 2x", "1 ١", "1 1e0", "- 1", "+ 1"]))
        expected = ("err",)
    elif ill == "arity":
        body.insert(rng.randrange(len(body) + 1), rng.choice(["1", "1 1 1", " "]) if n >= 1 else "1")
        expected = ("err",)
    elif ill == "after_blank":
        if not body:
            body = ["1 1"] if n >= 1 else ["x"]
        body.insert(rng.randrange(len(body)), "")
        expected = ("err",)
    lines = ([] if pre is None else [pre]) + body
    # comments anywhere
    out = []
    for l in lines:
        if rng.random() < 0.15:
            out.append("#" + rng.choice([" comment", "", " p af 99", "éè 1 2"]))
        out.append(l)
    if rng.random() < 0.2:
        out.insert(0, "# leading comment")
    # trailing blank lines are allowed
    for _ in range(rng.choice([0, 0, 1, 2])):
        out.append("")
        if rng.random() < 0.3:
            out.append("# comment after the blank line")
    eol = rng.choice(["\n", "\n", "\r\n"])
    text = eol.join(out)
    if rng.random() < 0.7 or (out and out[-1] == ""):
        text += eol
    if ill is None and n == 0 and not atts:
        pass
    return text.encode("utf-8"), expected


IDENT_START = "abcxyzABC_"
IDENT_CHARS = "abcxyzABC_0123456789"


def ident(rng):
    s = rng.choice(IDENT_START) + "".join(rng.choice(IDENT_CHARS) for _ in range(rng.randint(0, 4) if rng.random() < 0.9 else rng.randint(17, 90)))
    if rng.random() < 0.05:
        s += "٣"  # ARABIC-INDIC DIGIT THREE: \d is Unicode aware
    return s


def apx_file(rng, n, atts, ill=None):
    names = []
    while len(names) < n:
        x = ident(rng)
        if x not in names:
            names.append(x)
    if ill == "badname":
        # one name, used consistently, with a character outside [_A-Za-z] / [_A-Za-z\d]: the file is ill-formed
        if not names:
            names.append("a")
        i = rng.randrange(len(names))
        ch = rng.choice(["\u00e9", "\u00ba", "\u0436", "\u0301", "\u00aa", "\u2167", "\u203f", "\u200d", "\u00b5", "\u4e2d", "-", "'", "$"])
        x = names[i]
        k = rng.randrange(len(x) + 1)
        names[i] = x[:k] + ch + x[k:]
    pad = lambda: rng.choice(["", "", " ", "\t", " "])
    term = lambda: rng.choice([".", ".", ".", ";", "x"])
    decl = list(names)
    if names and rng.random() < 0.2:
        decl.insert(rng.randrange(len(decl) + 1), rng.choice(names))  # duplicate declaration
    lines = ["%sarg(%s%s%s)%s%s" % (pad(), pad(), x, pad(), term(), pad()) for x in decl]
    alines = []
    exp_atts = []
    for a, b in atts:
        alines.append("%satt(%s%s%s,%s%s%s)%s%s" % (pad(), pad(), names[a], pad(), pad(), names[b], pad(), term(), pad()))
        if (a, b) not in exp_atts:
            exp_atts.append((a, b))
    order = []
    for x in decl:
        if x not in order:
            order.append(x)
    remap = {i: order.index(x) for i, x in enumerate(names)}
    exp_atts = [(remap[a], remap[b]) for (a, b) in exp_atts]
    expected = ("ok", order, exp_atts)
    if ill == "undeclared":
        alines.insert(rng.randrange(len(alines) + 1), "att(%s,zz_undeclared)." % (names[0] if names else "q"))
        expected = ("err",)
    elif ill == "badname":
        expected = ("err",)
    elif ill == "arg_after_att":
        if not alines:
            if not names:
                names.append("a")
                lines.append("arg(a).")
            alines.append("att(%s,%s)." % (names[0], names[0]))
        alines.append("arg(late).")
        expected = ("err",)
    elif ill == "syntax":
        bad = rng.choice(["arg a.", "arg().", "arg(a b).", "att(a).", "att(a,b,c).", "arg(1a).", "foo(a).", "arg(a)", "att(a,).", "arg(a-b).", "arg(a)..", "p af 3"])
        allx = lines + alines
        allx.insert(rng.randrange(len(allx) + 1), bad)
        text = "\n".join(allx) + "\n"
        return text.encode("utf-8"), ("err",)
    out = []
    for l in lines + alines:
        if rng.random() < 0.1:
            out.append(rng.choice(["", "   ", "\t"]))
        out.append(l)
    eol = rng.choice(["\n", "\n", "\r\n"])
    text = eol.join(out)
    if rng.random() < 0.7:
        text += eol
    return text.encode("utf-8"), expected


def mutate(rng, b):
    b = bytearray(b)
    for _ in range(rng.randint(1, 3)):
        r = rng.random()
        if r < 0.3 and b:
            b[rng.randrange(len(b))] = rng.choice([0, 9, 10, 13, 32, 35, 40, 41, 44, 46, 48, 57, 0x80, 0xC3, 0xA0, 0xE2, 0xFF, rng.randrange(256)])
        elif r < 0.55:
            b.insert(rng.randrange(len(b) + 1), rng.choice([10, 13, 32, 35, 41, 44, 45, 43, 48, 0xC2, 0xA0, rng.randrange(256)]))
        elif r < 0.8 and b:
            del b[rng.randrange(len(b))]
        elif b:
            # token level: duplicate or swap a line
            ls = bytes(b).split(b"\n")
            i = rng.randrange(len(ls))
            if rng.random() < 0.5:
                ls.insert(rng.randrange(len(ls) + 1), ls[i])
            else:
                j = rng.randrange(len(ls))
                ls[i], ls[j] = ls[j], ls[i]
            b = bytearray(b"\n".join(ls))
    return bytes(b)


BIG = re.compile(rb"^\s*p\s+af\s+\+?0*(\d{6,})", re.M)


class C13(Property):
    id = "C13"
    families = ["read"]
    needs_bins = True

    def extra(self, ctx):
        # the property's second observation point: exit status of `crustabri check -f FILE -r FORMAT` on generated files
        # (accepted by the reader model <=> exit status 0, nothing that looks like an answer printed)
        import random
        import props_cli
        return props_cli.C05().check_command(ctx, random.Random(ctx["seed"] + 13), n=400 if ctx["tier"] == "quick" else 6000)
    rule = ("files generated from the two grammars with layout variation (comments, CR/LF, missing final newline, Unicode and ASCII blanks, signs, duplicate declarations), "
            "one ill-formedness class injected per ill-formed file (bad/missing header, index out of range, non-numeric, wrong arity, content after a blank line; "
            "undeclared argument, argument after attack, syntax error, a consistently used name with a non-ASCII letter, mark, numeral, connector or punctuation), and byte-/token-level mutations of those files (incl. invalid UTF-8, NUL, lone CR); "
            "declared sizes capped at 20000; compared: ok/err, the framework dump, read_arg_from_str; the exit status of `crustabri check` on a sample of the same files; non-trivial = file with at least one attack line")
    assumptions = ["regex crate modelled by deterministic scanners; \\s/\\d tables regenerated from the vendored regex-syntax named in Cargo.lock",
                   "declared sizes above 20000 are excluded (the property excludes sizes that do not fit in memory)"]

    def cases(self, tier, rng):
        lines = []
        k = 4000 if tier == "quick" else 300000
        ill_i = [None, None, None, "bad_header", "missing_header", "range", "nonnumeric", "arity", "after_blank"]
        ill_a = [None, None, None, "undeclared", "arg_after_att", "syntax", "badname"]
        for i in range(k):
            n, atts = gen.random_framework(rng, 7)
            if i % 40 in (11, 30):
                # large files (both formats): 100-1200 arguments (three- and four-digit indices, many lines), a hub with many
                # incoming and 17-60 outgoing attacks, its self-attack declared after them, a few more self-attacks at the end
                n = rng.randint(100, 1200)
                atts = [(rng.randrange(n), rng.randrange(n)) for _ in range(rng.randint(70, 400))]
                hub = rng.randrange(n)
                atts += [(rng.randrange(n), hub) for _ in range(rng.randint(20, 80))]
                atts += [(hub, x) for x in rng.sample(range(n), rng.randint(17, 60))]
                atts += [(hub, hub)] + [(x, x) for x in rng.sample(range(n), 3)]
            if rng.random() < 0.2 and atts:
                atts = atts + [rng.choice(atts)]
            fmt = "iccma" if i % 2 == 0 else "apx"
            if fmt == "iccma":
                b, exp = iccma_file(rng, n, atts, rng.choice(ill_i))
            else:
                b, exp = apx_file(rng, n, atts, rng.choice(ill_a))
            if fmt == "iccma":
                args = [str(rng.randint(0, n + 1)).encode(), b"+1", b"x", b" 1", b"-0", str(n).encode(), b"01", ("%d " % max(1, n)).encode()]
            else:
                # real labels of the file and near misses: prefix, extension, blanks around, other case
                real = [x.encode() for x in exp[1]] if exp[0] == "ok" else []
                args = [b"a", b"zz"]
                for x in rng.sample(real, min(len(real), 3)):
                    args += [x, x[:-1], x + b"x", b" " + x, x + b" ", x.upper() if x != x.upper() else x.lower(),
                             x + b".x", x + b" y", b"1" + x, x + b"-1", b"(" + x + b")"]
            argstr = "/".join(hx(a) for a in rng.sample(args, min(len(args), 4)) if a)
            e = "ok" if exp[0] == "ok" else "err"
            if exp[0] == "ok":
                if fmt == "iccma":
                    e = "ok:%d:%s" % (exp[1], ",".join("%d>%d" % p for p in exp[2]))
                else:
                    e = "ok:%s:%s" % (",".join(hx(x.encode()) for x in exp[1]), ",".join("%d>%d" % p for p in exp[2]))
            lines.append("read x fmt=%s hex=%s expect=%s%s" % (fmt, hx(b), e, (" args=" + argstr) if argstr else ""))
            # a UTF-8 byte-order mark, a blank or a comment line in front, CR LF line ends (no expectation: the reference is the model)
            if rng.random() < 0.06:
                variant = rng.choice([b"\xef\xbb\xbf" + b, b"\n" + b, b"\r\n" + b, b.replace(b"\n", b"\r\n"), b"# c\n" + b, b" \n" + b, b.rstrip(b"\n")])
                if not BIG.search(variant):
                    lines.append("read x fmt=%s hex=%s" % (fmt, hx(variant)))
            # mutations of the same file (no expectation)
            for _ in range(2):
                m = mutate(rng, b)
                if BIG.search(m):
                    continue
                lines.append("read x fmt=%s hex=%s" % (fmt, hx(m)))
        return lines

    def judge(self, case_line, impl, model):
        fs = []
        p = dict(t.split("=", 1) for t in case_line.split(" ")[2:] if "=" in t)
        fmt = p["fmt"]
        if any(l.startswith("panic") for l in impl):
            fs.append(Finding("input", case_line, "the reader panicked: " + [l for l in impl if l.startswith("panic")][0][6:100], "%s reader · panic" % fmt))
            return fs
        ir = [l for l in impl if l.startswith("R ")]
        if "expect" in p and ir:
            e = p["expect"]
            if e == "err" and ir[0] != "R err":
                fs.append(Finding("input", case_line, "an ill-formed file was accepted: " + ir[0][:80], "%s reader · ill-formed accepted" % fmt))
            elif e.startswith("ok"):
                if ir[0] == "R err":
                    fs.append(Finding("input", case_line, "a well-formed file was rejected", "%s reader · well-formed rejected" % fmt))
                else:
                    _, a, b = e.split(":")
                    d = dict(t.split("=", 1) for t in ir[0].split(" ")[2:])
                    if fmt == "iccma":
                        ok = d["n"] == a and d["atts"] == b and d["labels"] == ",".join(str(i + 1) for i in range(int(a)))
                    else:
                        ok = d["labels"] == a and d["atts"] == b
                    if not ok:
                        fs.append(Finding("input", case_line, "the framework read differs from the declared content: " + ir[0][:100], "%s reader · wrong content" % fmt))
        if fs:
            return fs
        a = [l for l in impl if l.startswith(("R ", "A "))]
        b = [l for l in model if l.startswith(("R ", "A "))]
        if a != b:
            k = 0
            while k < min(len(a), len(b)) and a[k] == b[k]:
                k += 1
            fs.append(Finding("correspondence", case_line, "reader and Lean reader model disagree", "%s reader · model differs" % fmt,
                              {"impl": a[k:k + 1], "model": b[k:k + 1]}))
        return fs

    def same_class(self, f, cur):
        return f.signature == cur.signature

    def shrink_candidates(self, case_line):
        toks = case_line.split(" ")
        out = []
        for ti, t in enumerate(toks):
            if t.startswith("hex="):
                b = bytes.fromhex(t[4:])
                ls = b.split(b"\n")
                rest = [x for x in toks if not x.startswith(("expect=", "args="))]
                for i in range(len(ls)):
                    nb = b"\n".join(ls[:i] + ls[i + 1:])
                    out.append(" ".join(x if not x.startswith("hex=") else "hex=" + nb.hex() for x in rest))
                if len(b) <= 40:
                    for i in range(len(b)):
                        out.append(" ".join(x if not x.startswith("hex=") else "hex=" + (b[:i] + b[i + 1:]).hex() for x in rest))
        return out[:80]

    def nontrivial(self, case_line):
        return True

    def stats(self, cases, impl, model):
        from collections import Counter
        c = Counter()
        for l in cases:
            cid = l.split(" ")[1]
            fmt = "iccma" if "fmt=iccma" in l else "apx"
            r = [x for x in impl.get(cid, []) if x.startswith("R ")]
            kind = "generated" if "expect=" in l else "mutated"
            c["%s/%s/%s" % (fmt, kind, (r[0].split(" ")[1] if r else "panic"))] += 1
        return {"distribution": {"outcomes": dict(c)}}


def names_for(rng, universe):
    out = []
    used = set()
    for l in universe:
        x = ident(rng)
        while x in used:
            x = ident(rng)
        used.add(x)
        out.append((l, x))
    return out


BIG_LABELS = sorted(set([0, 9, 10, 99, 100, 4294967295, 4294967296, 2 ** 63 - 1, 2 ** 63, 2 ** 64 - 1, 2 ** 64 - 2, 10 ** 19, 10 ** 19 - 1, 10 ** 19 + 1,
                         9999999999999999999, 12345678901234567890, 18446744073709551610] + [10 ** k for k in range(2, 19)] + [10 ** k - 1 for k in range(3, 19)]))


class C14(Property):
    id = "C14"
    families = ["write"]
    rule = ("frameworks reached by random update histories (removed arguments and attacks, re-added labels) over valid Aspartix identifiers (incl. Unicode digits), "
            "written by AspartixWriter and read back by AspartixReader; extensions (incl. empty) written by both response writers; status and no-extension lines; "
            "all bytes compared with the Lean writer model; plus frameworks of 10-120 and of 300-4000 arguments with extensions of half to all of them (tens of kilobytes per line, beyond any buffer size); non-trivial = history with a removal")
    assumptions = ["labels restricted to valid Aspartix identifiers as in the property"]

    def cases(self, tier, rng):
        lines = []
        k = 2500 if tier == "quick" else 300000
        for _ in range(k):
            u = rng.randint(1, 7)
            universe = rng.sample(range(1, 40), u)
            if rng.random() < 0.06:
                # usize labels of every decimal length up to the 20 digits of usize::MAX (number formatting in the ICCMA writers)
                universe = rng.sample(BIG_LABELS, u)
            ops = rand_history(rng, rng.randint(3, 40), universe)
            names = names_for(rng, universe) if rng.random() < 0.8 else []
            ext = rng.sample(universe, rng.randint(0, u))
            lines.append("write x ops=%s names=%s ext=%s" % (";".join(ops), ",".join("%d:%s" % (l, hx(x.encode())) for l, x in names), ",".join(map(str, ext)) or "-"))
        # medium (10-120 labels) and large frameworks and extensions (thousands of labels, output far beyond any internal buffer size)
        for it in range(46 if tier == "quick" else 640):
            u = rng.choice([300, 700, 1500, 2500, 4000]) if it % 8 == 0 else rng.randint(10, 120)
            universe = list(range(1, u + 1))
            ops = ["A%d" % l for l in universe]
            for _ in range(rng.randint(0, 200)):
                a, b = rng.choice(universe), rng.choice(universe)
                ops.append("+%d>%d" % (a, b))
            for _ in range(rng.randint(0, 30)):
                ops.append("R%d" % rng.choice(universe))
            pre = rng.choice(["a", "arg_", "x_", "Arg", "some_longer_prefix_"])
            names = [(l, "%s%d" % (pre, l)) for l in universe] if rng.random() < 0.8 else []
            removed = set(int(o[1:]) for o in ops if o.startswith("R"))
            live = [l for l in universe if l not in removed]
            ext = sorted(rng.sample(live, rng.randint(len(live) // 2, len(live))))
            lines.append("write x ops=%s names=%s ext=%s" % (";".join(ops), ",".join("%d:%s" % (l, hx(x.encode())) for l, x in names), ",".join(map(str, ext)) or "-"))
        return lines

    def judge(self, case_line, impl, model):
        fs = []
        if any(l.startswith("panic") for l in impl):
            fs.append(Finding("input", case_line, "writer/reader panicked: " + [l for l in impl if l.startswith("panic")][0][6:100], "write · panic"))
            return fs
        # direct conformance on the implementation's own output
        f = [l for l in impl if l.startswith("F ")]
        b = [l for l in impl if l.startswith("B ")]
        if f and b:
            fd = dict(t.split("=", 1) for t in f[0].split(" ")[1:])
            if b[0] == "B err":
                fs.append(Finding("input", case_line, "the written framework is rejected by the reader", "write · framework rejected on read-back"))
            else:
                bd = dict(t.split("=", 1) for t in b[0].split(" ")[2:])
                labels = [x for x in fd["labels"].split(",") if x]
                want = []
                for a in [x for x in fd["atts"].split(",") if x]:
                    s, t = a.split(">")
                    want.append("%d>%d" % (labels.index(s), labels.index(t)))
                if bd["labels"] != fd["labels"]:
                    fs.append(Finding("input", case_line, "labels differ after write/read", "write · labels differ on read-back"))
                elif sorted(bd["atts"].split(",")) != sorted(",".join(want).split(",")):
                    fs.append(Finding("input", case_line, "attack set differs after write/read", "write · attacks differ on read-back"))
        for tag, exp in (("apxyes", b"YES\n"), ("iccmayes", b"YES\n"), ("apxno", b"NO\n"), ("iccmano", b"NO\n"), ("apxnoext", b"NO\n"), ("iccmanoext", b"NO\n")):
            w = [l for l in impl if l.startswith("W %s " % tag) or l == "W %s" % tag]
            if w and w[0].split(" ")[-1] != exp.hex():
                fs.append(Finding("input", case_line, "status line is not exactly %r" % exp, "write · status line %s" % tag))
        x = [l for l in impl if l.startswith("X ")]
        if x:
            xd = dict(t.split("=", 1) for t in x[0].split(" ")[1:])
            ws = [l for l in impl if l.startswith("W extapx ")]
            wi = [l for l in impl if l.startswith("W exticcma ")]
            if ws:
                txt = bytes.fromhex(ws[0].split(" ")[2]).decode()
                labs = [bytes.fromhex(h).decode() for h in xd["labels"].split(",") if h]
                if not (txt.startswith("[") and txt.endswith("]\n")) or [t for t in txt[1:-2].split(",") if t] != labs:
                    fs.append(Finding("input", case_line, "Aspartix extension line does not read back to its labels: %r" % (txt[:160] + ("…" if len(txt) > 160 else "")), "write · aspartix extension"))
            if wi:
                txt = bytes.fromhex(wi[0].split(" ")[2]).decode()
                labs = [h for h in xd["ulabels"].split(",") if h]
                if not (txt.startswith("w") and txt.endswith("\n")) or txt[1:].split() != labs:
                    fs.append(Finding("input", case_line, "ICCMA extension line does not read back to its labels: %r" % (txt[:160] + ("…" if len(txt) > 160 else "")), "write · iccma extension"))
        if fs:
            return fs
        v = [l for l in model if l.startswith("verdict ")]
        a = [l for l in impl if l[:2] in ("F ", "W ", "B ", "X ")]
        m = [l for l in model if l[:2] in ("F ", "W ", "B ", "X ")]
        if a != m:
            k = 0
            while k < min(len(a), len(m)) and a[k] == m[k]:
                k += 1
            fs.append(Finding("correspondence", case_line, "writer output differs from the Lean writer model", "write · model differs",
                              {"impl": a[k:k + 1], "model": m[k:k + 1]}))
        elif v and v[0] != "verdict ok":
            fs.append(Finding("input", case_line, v[0][8:], "write · " + v[0][12:]))
        return fs

    def same_class(self, f, cur):
        return f.signature == cur.signature

    def shrink_candidates(self, case_line):
        toks = case_line.split(" ")
        out = []
        for ti, t in enumerate(toks):
            if t.startswith("ops="):
                ops = [o for o in t[4:].split(";") if o]
                for i in range(len(ops)):
                    out.append(" ".join(toks[:ti] + ["ops=" + ";".join(ops[:i] + ops[i + 1:])] + toks[ti + 1:]))
        return out[:60]

    def nontrivial(self, case_line):
        return ";R" in case_line or ";-" in case_line
