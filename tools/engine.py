"""Generic check engine: build, audit, run cases, judge, shrink, classify, report."""
import json
import os
import random
import sys
import time

import common
from common import Runner


class Finding:
    def __init__(self, kind, case, reason, signature, detail=None):
        self.kind = kind            # 'input' | 'correspondence' | 'theorem'
        self.case = case            # case line (or None)
        self.reason = reason
        self.signature = signature
        self.detail = detail or {}


class Property:
    id = None
    families = []
    needs_bins = False
    assumptions = []
    rule = ""

    def corpus(self):
        d = os.path.join(common.VERIF, "corpus", self.id)
        lines = []
        if os.path.isdir(d):
            for f in sorted(os.listdir(d)):
                if f.endswith(".case"):
                    for l in open(os.path.join(d, f)):
                        l = l.strip()
                        if l and not l.startswith("#"):
                            lines.append(l)
        return lines

    def cases(self, tier, rng):
        return []

    def judge(self, case_line, impl, model):
        """-> list[Finding] for one case"""
        return []

    def nontrivial(self, case_line):
        return True

    def shrink_candidates(self, case_line):
        return []

    def judge_group(self, cases, impl, model):
        """relations between cases (metamorphic checks) -> list[Finding]"""
        return []

    def extra(self, ctx):
        """additional non-case-based checks; returns (findings, coverage_extra)"""
        return [], {}

    def stats(self, cases, impl, model):
        return {}


def case_id(line):
    return line.split(" ")[1]


def renumber(lines, prefix):
    out = []
    for i, l in enumerate(lines):
        t = l.split(" ")
        t[1] = "%s%d" % (prefix, i)
        out.append(" ".join(t))
    return out


def evaluate(prop, runner, lines, full=False):
    impl, model = runner.both(lines)
    findings = []
    for l in lines:
        cid = case_id(l)
        if cid not in impl:
            findings.append(Finding("input", l, "harness produced no output for the case (process died or hung)",
                                    "%s · harness-died" % prop.id))
            continue
        if cid not in model:
            findings.append(Finding("correspondence", l, "model driver produced no output for the case",
                                    "%s · driver-died" % prop.id))
            continue
        findings.extend(prop.judge(l, impl[cid], model[cid]))
    if full:
        findings.extend(prop.judge_group(lines, impl, model))
    return findings, impl, model


def shrink(prop, runner, finding, budget=40, seconds=90):
    """greedy one-step delta debugging: keep a candidate if the same reason class persists;
    bounded in rounds and in wall-clock time (large failing inputs are reported as they are)"""
    cur = finding
    if os.environ.get("VERIF_NO_SHRINK"):
        return cur      # corpus harvesting keeps the generated (well-formed by construction) case
    t0 = time.time()
    runner.call_timeout = 60
    for _ in range(budget):
        if time.time() - t0 > seconds:
            break
        cands = prop.shrink_candidates(cur.case)
        if not cands:
            break
        cands = renumber(cands, "s")
        fs, _, _ = evaluate(prop, runner, cands)
        nxt = None
        for f in fs:
            if f.kind == cur.kind and prop.same_class(f, cur):
                nxt = f
                break
        if nxt is None:
            break
        cur = nxt
    runner.call_timeout = None
    return cur


def run_property(prop, tier, seed, replay=None):
    t0 = time.time()
    runner = Runner(prop.id, tier)
    out_lines = []
    violations = []     # (signature, replay payload, no_input_found)
    known_hits = []
    coverage = {}
    theorem_names, discharged = [], []
    try:
        # 1. regenerated model parts
        try:
            common.gen_from_source()
        except Exception as e:  # generator failure = the tie is broken
            violations.append(("gen_from_source failed", {"kind": "correspondence", "what": "tools/gen_from_source.py could not regenerate Crusta/Gen from /repo: %r" % (e,)}, True))
        # 2. proofs
        rc, out = common.lake_build(["Crusta.Props.%s" % prop.id, "driver"] + ([common.witness_module(prop.id)] if prop.id in common.WITNESSES else []))
        lean_ok = rc == 0
        driver_ok = lean_ok
        if not lean_ok:
            errs = [l for l in out.splitlines() if l.startswith("error")][:8]
            violations.append(("lean build failed", {"kind": "theorem", "what": "lake build Crusta.Props.%s driver failed" % prop.id, "errors": errs}, True))
            # a proof no longer checks: the executable model may still build, and is then used to look for a concrete
            # failing input (the correspondence and conformance runs below)
            rc2, _ = common.lake_build(["driver"])
            driver_ok = rc2 == 0
        # 3. axiom audit + forbidden constructs
        if lean_ok:
            ok, theorem_names, discharged, problems, raw = common.audit(prop.id, runner.dir)
            for p in problems:
                violations.append(("axiom audit", {"kind": "theorem", "what": p}, True))
            hits = common.forbidden_scan()
            for h in hits:
                violations.append(("forbidden construct", {"kind": "theorem", "what": h}, True))
            if tier == "thorough":
                # independent re-check of the compiled property module by the toolchain's leanchecker
                rc, out = common.sh(["lake", "env", "leanchecker", "Crusta.Props.%s" % prop.id], cwd=common.LEAN_DIR, timeout=1800)
                coverage["leanchecker"] = "ok" if rc == 0 else "FAILED"
                if rc != 0:
                    violations.append(("leanchecker", {"kind": "theorem", "what": "leanchecker rejects Crusta.Props.%s: %s" % (prop.id, out[-400:])}, True))
        # 4. harness
        rc, out = common.harness_build()
        harness_ok = rc == 0
        if not harness_ok:
            errs = [l for l in out.splitlines() if l.startswith("error")][:8]
            violations.append(("harness build failed", {"kind": "correspondence", "what": "the harness no longer builds against /repo (public API changed?)", "errors": errs}, True))
        if prop.needs_bins and harness_ok:
            rc, out = common.repo_bins_build()
            if rc != 0:
                harness_ok = False
                violations.append(("repo bins build failed", {"kind": "correspondence", "what": out[-500:]}, True))
        # 5. cases
        findings = []
        all_cases = []
        impl, model = {}, {}
        if harness_ok and driver_ok:
            if replay:
                payload = json.load(open(replay))
                all_cases = renumber(payload.get("cases", []), "r")
            else:
                rng = random.Random(seed)
                gen_cases = prop.cases(tier, rng)
                prop.ncases = len(gen_cases)
                all_cases = renumber(prop.corpus(), "k") + renumber(gen_cases, "g")
            ctx = {"runner": runner, "tier": tier, "seed": seed, "replay": replay}
            if all_cases:
                findings, impl, model = evaluate(prop, runner, all_cases, full=not replay)
            if not replay:
                xf, xc = prop.extra(ctx)
                findings += xf
                coverage.update(xc)
        # 6. classify
        seen_sigs = set()
        for f in findings:
            if f.signature in seen_sigs:
                continue
            seen_sigs.add(f.signature)
            if f.kind == "input" and f.case and not replay:
                try:
                    f = shrink(prop, runner, f)
                except Exception:      # the failing input is reported as generated
                    runner.call_timeout = None
            k = common.match_known(prop.id, f.signature)
            if k is not None and not replay:
                known_hits.append((k, f))
                continue
            payload = {"kind": f.kind, "cases": [f.case] if f.case else [], "reason": f.reason,
                       "signature": f.signature, "detail": f.detail}
            violations.append((f.signature, payload, f.kind != "input"))
        # 7. evidence
        nontriv = set()
        for l in all_cases:
            if prop.nontrivial(l):
                nontriv.add(" ".join(l.split(" ")[2:]))
        coverage.update({
            "obligations": len(theorem_names),
            "discharged": len(discharged),
            "theorems": discharged,
            "checker_cmd": "cd /verif/lean && lake build Crusta.Props.%s && lake env lean <audit file with #print axioms for each theorem>" % prop.id,
            "trusted_base": common.TRUSTED_BASE,
            "evaluations": len(all_cases),
            "distinct_nontrivial": len(nontriv),
            "rule": prop.rule,
            "samples": all_cases[:3] + all_cases[-2:] if all_cases else [],
            "traces_validated_against_impl": len([c for c in all_cases if case_id(c) in impl and case_id(c) in model]),
        })
        try:
            coverage.update(prop.stats(all_cases, impl, model))
        except Exception as e:
            coverage["stats_error"] = repr(e)
        for k, f in known_hits:
            out_lines.append("KNOWN-FINDING: property=%s %s [%s]" % (prop.id, k.get("what_fails", ""), f.signature))
        rc = 0
        for sig, payload, noinput in violations:
            payload["tier"] = tier
            payload["seed"] = seed
            path = common.write_replay(prop.id, payload)
            out_lines.append("VIOLATION property=%s replay=%s%s" % (prop.id, path, " no-failing-input-found" if noinput else ""))
            rc = 1
        coverage["known_findings_hit"] = [k.get("signature") for k, _ in known_hits]
        if not replay:
            common.write_evidence(prop.id, tier, seed, coverage, prop.assumptions, time.time() - t0, len(violations))
        for l in out_lines:
            print(l)
        print("%s %s: %d cases, %d/%d theorems audited, %d violation(s), %d known finding(s), %.1fs" % (
            prop.id, tier, len(all_cases), len(discharged), len(theorem_names), len(violations), len(known_hits), time.time() - t0))
        for sig, payload, noinput in violations:
            print("  - %s: %s" % (sig, payload.get("reason") or payload.get("what")))
        return rc
    finally:
        runner.cleanup()
