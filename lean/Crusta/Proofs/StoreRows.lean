import Crusta.Proofs.StoreOps3

/-!
# Store proofs: the index rows hold no duplicate

`Store.Inv` does not say that a row lists an attack index at most once, yet the grounded worklist
algorithm depends on it (row multiplicities drive its counters).  `RowsNodup` is that extra
invariant; it holds in every reachable store (`rows_reachable`) and in the stores built the ICCMA
way (`rows_withRowsByLen`, `rows_newAttackByIds`).
-/

namespace Crusta
namespace Store

/-- no row of the `from_`/`to_` tables lists an attack index twice -/
structure RowsNodup (s : Store) : Prop where
  from_nodup : ∀ a, (row s.from_ a).Nodup
  to_nodup : ∀ a, (row s.to_ a).Nodup

/-- every index held by a row is an index of the attack vector (part of `Store.Inv`) -/
def RowsLt (s : Store) : Prop :=
  ∀ a i, (i ∈ row s.from_ a ∨ i ∈ row s.to_ a) → i < s.attacks.length

theorem Inv.rowsLt {s : Store} (hinv : s.Inv) : s.RowsLt := by
  intro a i h
  rcases h with h | h
  · exact (hinv.from_ok a i h).1
  · exact (hinv.to_ok a i h).1

/-! ## list facts -/

theorem nodup_set_fresh {l : List Nat} (hn : l.Nodup) {x : Nat} (hx : x ∉ l) (i : Nat) :
    (l.set i x).Nodup := by
  induction l generalizing i with
  | nil => simp
  | cons y t ih =>
    rw [List.nodup_cons] at hn
    cases i with
    | zero =>
      simp only [List.set_cons_zero]
      rw [List.nodup_cons]
      exact ⟨fun h => hx (by simp [h]), hn.2⟩
    | succ k =>
      simp only [List.set_cons_succ]
      rw [List.nodup_cons]
      refine ⟨?_, ih hn.2 (fun h => hx (by simp [h])) k⟩
      intro hm
      rcases List.mem_or_eq_of_mem_set hm with h | h
      · exact hn.1 h
      · subst h; exact hx (by simp)

theorem nodup_swapRemove {l : List Nat} (hn : l.Nodup) (pos : Nat) : (swapRemove l pos).Nodup := by
  unfold swapRemove
  cases hl : l.getLast? with
  | none => exact hn
  | some last =>
    obtain ⟨init, rfl⟩ := List.getLast?_eq_some_iff.1 hl
    simp only
    have hn' := List.nodup_append.1 hn
    have hlast : last ∉ init := fun h => hn'.2.2 last h last (by simp) rfl
    by_cases hp : pos < init.length
    · rw [List.set_append_left _ _ hp, List.dropLast_concat]
      exact nodup_set_fresh hn'.1 hlast pos
    · rw [List.set_append_right _ _ (by omega)]
      have : [last].set (pos - init.length) last = [last] := by
        cases pos - init.length <;> simp
      rw [this, List.dropLast_concat]
      exact hn'.1

theorem nodup_snoc_fresh {l : List Nat} (hn : l.Nodup) {x : Nat} (hx : x ∉ l) : (l ++ [x]).Nodup := by
  refine List.nodup_append.2 ⟨hn, by simp, ?_⟩
  intro a ha b hb e
  simp at hb
  subst hb; subst e
  exact hx ha

theorem row_set_cases (r : List (List Nat)) (a c : Nat) (x : List Nat) :
    row (r.set a x) c = x ∨ row (r.set a x) c = row r c := by
  by_cases e : a = c
  · subst e
    by_cases h : a < r.length
    · left; exact row_set_eq r a x h
    · right; unfold row; exact getD_set_ge _ _ _ _ _ (by omega)
  · right; exact row_set_ne r a c x e

theorem nodup_rows_set {r : List (List Nat)} (h : ∀ c, (row r c).Nodup) (a : Nat) {x : List Nat}
    (hx : x.Nodup) : ∀ c, (row (r.set a x) c).Nodup := by
  intro c
  rcases row_set_cases r a c x with e | e
  · rw [e]; exact hx
  · rw [e]; exact h c

/-! ## each explicit result state -/

theorem rows_pushArg {s : Store} (hr : s.RowsNodup) (l : Nat) : (s.pushArg l).RowsNodup := by
  constructor
  · intro a
    show (row (s.from_ ++ [[]]) a).Nodup
    rw [row_pushArg]; exact hr.from_nodup a
  · intro a
    show (row (s.to_ ++ [[]]) a).Nodup
    rw [row_pushArg]; exact hr.to_nodup a

theorem rows_pushAtt {s : Store} (hl : s.RowsLt) (hr : s.RowsNodup) (a b : Nat) :
    (s.pushAtt a b).RowsNodup := by
  constructor
  · show ∀ c, (row (s.from_.set a (row s.from_ a ++ [s.attacks.length])) c).Nodup
    apply nodup_rows_set hr.from_nodup
    apply nodup_snoc_fresh (hr.from_nodup a)
    intro hm
    have := hl a _ (Or.inl hm)
    omega
  · show ∀ c, (row (s.to_.set b (row s.to_ b ++ [s.attacks.length])) c).Nodup
    apply nodup_rows_set hr.to_nodup
    apply nodup_snoc_fresh (hr.to_nodup b)
    intro hm
    have := hl b _ (Or.inr hm)
    omega

theorem rowsLt_pushAtt {s : Store} (hl : s.RowsLt) (a b : Nat) : (s.pushAtt a b).RowsLt := by
  intro c i h
  show i < (s.attacks ++ [some (a, b)]).length
  simp only [List.length_append, List.length_singleton]
  have key : ∀ (r : List (List Nat)) (x : Nat), (∀ c i, i ∈ row r c → i < s.attacks.length) →
      i ∈ row (r.set x (row r x ++ [s.attacks.length])) c → i < s.attacks.length + 1 := by
    intro r x hrr hm
    rcases row_set_cases r x c (row r x ++ [s.attacks.length]) with e | e
    · rw [e] at hm
      rcases List.mem_append.1 hm with h1 | h1
      · have := hrr x i h1; omega
      · simp at h1; omega
    · rw [e] at hm
      have := hrr c i hm; omega
  rcases h with h | h
  · exact key s.from_ a (fun c i hi => hl c i (Or.inl hi)) h
  · exact key s.to_ b (fun c i hi => hl c i (Or.inr hi)) h

theorem rows_dropAtt {s : Store} (hr : s.RowsNodup) (a b k pf pt : Nat) :
    (s.dropAtt a b k pf pt).RowsNodup := by
  constructor
  · show ∀ c, (row (s.from_.set a (swapRemove (row s.from_ a) pf)) c).Nodup
    exact nodup_rows_set hr.from_nodup a (nodup_swapRemove (hr.from_nodup a) pf)
  · show ∀ c, (row (s.to_.set b (swapRemove (row s.to_ b) pt)) c).Nodup
    exact nodup_rows_set hr.to_nodup b (nodup_swapRemove (hr.to_nodup b) pt)

theorem rows_dropArg {s : Store} (hr : s.RowsNodup) (l id : Nat) : (s.dropArg l id).RowsNodup := by
  constructor
  · show ∀ c, (row (s.from_.set id []) c).Nodup
    exact nodup_rows_set hr.from_nodup id List.nodup_nil
  · show ∀ c, (row (s.to_.set id []) c).Nodup
    exact nodup_rows_set hr.to_nodup id List.nodup_nil

/-! ## the invariant is kept by every operation -/

theorem rows_empty : Store.empty.RowsNodup := by
  constructor <;> intro a <;> simp [row, empty]

theorem step_rows {s : Store} (hinv : s.Inv) (hr : s.RowsNodup) (op : StoreOp) :
    ∀ s', s.step op = .ok s' → s'.RowsNodup := by
  intro s' hs
  cases op with
  | newArg l =>
    have hs' : StoreRes.ok (s.newArgument l) = .ok s' := hs
    injection hs' with e
    subst e
    by_cases h : ∃ i, s.Live i l
    · obtain ⟨i, hi⟩ := h
      rw [newArgument_existing hinv hi]; exact hr
    · rw [newArgument_fresh hinv (fun i hi => h ⟨i, hi⟩)]; exact rows_pushArg hr l
  | remArg l =>
    have hs' : s.removeArgument l = .ok s' := hs
    by_cases h : ∃ id, s.Live id l
    · obtain ⟨id, hid⟩ := h
      rw [(removeArgument_spec hinv l).1 id hid] at hs'
      injection hs' with e
      subst e
      exact rows_dropArg hr l id
    · rw [(removeArgument_spec hinv l).2 (fun id hid => h ⟨id, hid⟩)] at hs'
      cases hs'
  | newAtt la lb =>
    have hs' : s.newAttack la lb = .ok s' := hs
    by_cases ha : ∃ a, s.Live a la
    · by_cases hb : ∃ b, s.Live b lb
      · obtain ⟨a, ha⟩ := ha
        obtain ⟨b, hb⟩ := hb
        by_cases hh : s.HasAtt a b
        · rw [((newAttack_spec hinv la lb).1 a b ha hb).1 hh] at hs'
          injection hs' with e
          subst e
          exact hr
        · rw [((newAttack_spec hinv la lb).1 a b ha hb).2 hh] at hs'
          injection hs' with e
          subst e
          exact rows_pushAtt hinv.rowsLt hr a b
      · rw [(newAttack_spec hinv la lb).2 (Or.inr (fun b hb' => hb ⟨b, hb'⟩))] at hs'
        cases hs'
    · rw [(newAttack_spec hinv la lb).2 (Or.inl (fun a ha' => ha ⟨a, ha'⟩))] at hs'
      cases hs'
  | remAtt la lb =>
    have hs' : s.removeAttack la lb = .ok s' := hs
    by_cases ha : ∃ a, s.Live a la
    · by_cases hb : ∃ b, s.Live b lb
      · obtain ⟨a, ha⟩ := ha
        obtain ⟨b, hb⟩ := hb
        by_cases hh : s.HasAtt a b
        · obtain ⟨k, hk⟩ := hh
          obtain ⟨pf, pt, he, _⟩ := ((removeAttack_spec hinv la lb).1 a b ha hb).1 k hk
          rw [he] at hs'
          injection hs' with e
          subst e
          exact rows_dropAtt hr a b k pf pt
        · rw [((removeAttack_spec hinv la lb).1 a b ha hb).2 hh] at hs'
          cases hs'
      · rw [(removeAttack_spec hinv la lb).2 (Or.inr (fun b hb' => hb ⟨b, hb'⟩))] at hs'
        cases hs'
    · rw [(removeAttack_spec hinv la lb).2 (Or.inl (fun a ha' => ha ⟨a, ha'⟩))] at hs'
      cases hs'

/-- **every reachable state satisfies the invariant and has duplicate-free rows** -/
theorem rows_reachable (ops : List StoreOp) :
    ∃ s, runOps Store.empty ops = some s ∧ s.Inv ∧ s.RowsNodup := by
  have : ∀ (s : Store), s.Inv → s.RowsNodup → ∃ s', runOps s ops = some s' ∧ s'.Inv ∧ s'.RowsNodup := by
    induction ops with
    | nil => intro s h hr; exact ⟨s, rfl, h, hr⟩
    | cons op ops ih =>
      intro s h hr
      rcases step_inv h op with ⟨s', hs', hinv'⟩ | he
      · simp only [runOps, hs']; exact ih s' hinv' (step_rows h hr op s' hs')
      · simp only [runOps, he]; exact ih s h hr
  exact this _ inv_empty rows_empty

/-! ## the ICCMA-style construction: rows sized by the label count, then `new_attack_by_ids` -/

theorem row_replicate (n a : Nat) : row (List.replicate n []) a = [] := by
  unfold row
  simp [List.getD_eq_getElem?_getD, List.getElem?_replicate]
  split <;> simp

theorem rows_withRowsByLen (s : Store) : s.withRowsByLen.RowsNodup := by
  constructor
  · intro a
    show (row (List.replicate s.labels.length []) a).Nodup
    rw [row_replicate]; exact List.nodup_nil
  · intro a
    show (row (List.replicate s.labels.length []) a).Nodup
    rw [row_replicate]; exact List.nodup_nil

theorem rowsLt_withRowsByLen (s : Store) : s.withRowsByLen.RowsLt := by
  intro a i h
  have h' : i ∈ row (List.replicate s.labels.length []) a ∨ i ∈ row (List.replicate s.labels.length []) a := h
  rw [row_replicate] at h'
  simp at h'

/-- `new_attack_by_ids` keeps the rows duplicate-free (and bounded), whatever it is given; only the
bound on the row entries is needed, not the whole `Store.Inv` (which `new_attack_by_ids` does not
preserve: it inserts duplicates of an existing attack) -/
theorem rows_newAttackByIds {s : Store} (hl : s.RowsLt) (hr : s.RowsNodup) (a b : Nat) :
    ∀ s', s.newAttackByIds a b = .ok s' → s'.RowsLt ∧ s'.RowsNodup := by
  intro s' hs
  unfold newAttackByIds at hs
  split at hs
  · cases hs
  · split at hs
    · cases hs
    · injection hs with e
      subst e
      exact ⟨rowsLt_pushAtt hl a b, rows_pushAtt hl hr a b⟩

end Store
end Crusta
