import Crusta.Model.Equiv
import Crusta.Proofs.Deciders

/-! # C19 — arguments merged by the equivalence reduction are indistinguishable (property theorems) -/

namespace Crusta.C19
open Crusta Crusta.Eq

/-- the criterion used to judge every merged pair is exact: identical membership in every complete
extension of the framework (textbook definition), for all frameworks -/
theorem sameComplete_exact (af : AF) (a b : Nat) :
    sameCompleteB af a b = true ↔ ∀ S, Complete af S → S a = S b := by
  unfold sameCompleteB
  simp only [List.all_eq_true, beq_iff_eq]
  constructor
  · intro h S hS
    obtain ⟨l, hl, rfl⟩ := exists_list_of_sub af S (co_sub hS)
    exact h l ((mem_extsCO af l).2 ⟨hl, hS⟩)
  · intro h e he
    exact h (ofList e) ((mem_extsCO af e).1 he).2

/-- indistinguishability is an equivalence relation, so "merge classes" is meaningful -/
theorem sameComplete_equiv (af : AF) :
    (∀ a, sameCompleteB af a a = true) ∧
    (∀ a b, sameCompleteB af a b = true → sameCompleteB af b a = true) ∧
    (∀ a b c, sameCompleteB af a b = true → sameCompleteB af b c = true → sameCompleteB af a c = true) := by
  simp only [sameComplete_exact]
  exact ⟨fun _ _ _ => trivial, fun _ _ h S hS => (h S hS).symm, fun _ _ _ h1 h2 S hS => (h1 S hS).trans (h2 S hS)⟩

end Crusta.C19
