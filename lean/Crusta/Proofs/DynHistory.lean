import Crusta.Proofs.DynPR

/-!
# Every reachable state of a dynamic solver, every query, every sound reply list

`update_preserves`: the four update entry points keep the invariant, report an error exactly when
the store does and then change nothing, and a redundant update changes nothing either.
`Reach`: the states reachable from a fresh solver by updates and by queries run on sound replies.
-/

namespace Crusta.Dyn
open Crusta.Store

theorem inv_init (sem : DSem) (d : Nat → Prop) :
    EncInv Store.empty ({ sem := sem } : Enc) [] (fun _ => false) (fun _ => false) d := by
  have hty : ∀ v, ({ sem := sem } : Enc).ty v = .ignored := by
    intro v
    unfold Enc.ty
    cases v with
    | zero => rfl
    | succ n => rfl
  have hid : ∀ i, Store.empty.hasId i = false := fun i => rfl
  constructor
  · show 1 ≤ 1; omega
  · rfl
  · rfl
  · intro i hi; rw [hid] at hi; cases hi
  · intro i s hs; simp [Enc.sv] at hs
  · intro v i hv; rw [hty] at hv; cases hv
  · intro v i hv; rw [hty] at hv; cases hv
  · intro v i hv; rw [hty] at hv; cases hv
  · intro l
    constructor
    · intro h; simp at h
    · rintro ⟨s, i, _, ht⟩; rw [hty] at ht; cases ht
  · simp
  · intro v hv; cases hv
  · intro v hv; cases hv
  · intro v ⟨h, _⟩; cases h
  · intro c hc; simp at hc
  · intro i hi; rw [hid] at hi; cases hi
  · intro v i hv; rw [hty] at hv; cases hv

theorem QInv_init (sem : DSem) : QInv sem (DState.init sem) ({} : World).onNew := by
  refine ⟨⟨⟨by simp [World.onNew], Bounded_onNew Bounded_empty⟩, inv_empty, ⟨rfl, _, _, inv_init sem _⟩, rfl, rfl,
    Nat.le_refl _, fun h => (h rfl).elim⟩, inv_empty, ?_, rows_empty⟩
  intro c hc
  simp [DState.init] at hc

/-! ## updates -/

theorem EffRun_append : ∀ (evs : List Event) (st st1 st2 : Store) (ev : Event) (op : StoreOp),
    EffRun st evs st1 → Event.op ev = some op → Eff st1 op st2 → EffRun st (evs ++ [ev]) st2
  | [], st, st1, st2, ev, op, h, hop, heff => by
    have : st1 = st := h
    subst this
    simp only [List.nil_append, EffRun, hop]
    exact ⟨st2, heff, rfl⟩
  | e :: rest, st, st1, st2, ev, op, h, hop, heff => by
    simp only [List.cons_append, EffRun] at h ⊢
    cases he : Event.op e with
    | none =>
      rw [he] at h
      simp only
      exact EffRun_append rest st st1 st2 ev op h hop heff
    | some op' =>
      rw [he] at h
      obtain ⟨sta, h1, h2⟩ := h
      exact ⟨sta, h1, EffRun_append rest sta st1 st2 ev op h2 hop heff⟩

theorem tail_after_update (buffer : List Event) (ev : Event) (hev : ev.isUpdate = true) :
    (buffer ++ [ev]).reverse.takeWhile (fun e => !e.isUpdate) = [] := by
  simp [List.takeWhile_cons, hev]

/-- pushing an effective update -/
theorem QInv_buffer_update {sem : DSem} {d : DState} {w : World} (h : QInv sem d w) {ev : Event} {op : StoreOp}
    {p : Store} (hop : Event.op ev = some op) (hev : ev.isUpdate = true) (heff : Eff d.pending op p)
    (hp : p.Inv) (hpr : p.RowsNodup := step_rows h.pend_inv h.pend_rows op p heff.1) : QInv sem { d with pending := p, buffer := d.buffer ++ [ev] } w := by
  have hle := h.dinv.next_le
  refine ⟨⟨h.dinv.w0, h.dinv.af_inv, h.dinv.clean, h.dinv.disabled, ?_,
    by show d.next ≤ (d.buffer ++ [ev]).length; simp; omega,
    fun hne => absurd (tail_after_update d.buffer ev hev) hne⟩, hp, ?_, hpr⟩
  · show EffRun d.af ((d.buffer ++ [ev]).drop d.next) p
    rw [List.drop_append_of_le_length hle]
    exact EffRun_append _ _ _ _ _ _ h.dinv.sync hop heff
  · intro c hc
    have : ({ d with pending := p, buffer := d.buffer ++ [ev] } : DState).buffer = d.buffer ++ [ev] := rfl
    rw [this, tail_after_update _ _ hev] at hc
    cases hc

theorem nArguments_pushArg {s : Store} (hinv : s.Inv) (l : Nat) : (s.pushArg l).nArguments > s.nArguments := by
  have hle : s.nRemoved ≤ s.labels.length := by rw [hinv.cnt_lab]; exact countNone_le _
  simp [Store.nArguments, Store.len, Store.pushArg]; omega

theorem nAttacks_pushAtt {s : Store} (hinv : s.Inv) (a b : Nat) : (s.pushAtt a b).nAttacks > s.nAttacks := by
  have hle : s.nRemovedAtt ≤ s.attacks.length := by rw [hinv.cnt_att]; exact countNone_le _
  simp [Store.nAttacks, Store.pushAtt]; omega

/-- **the update entry points** (C09): the result is the store's, an error or a redundant update
changes nothing, and the invariant is kept -/
theorem update_preserves {sem : DSem} {d : DState} {w : World} (h : QInv sem d w) (op : StoreOp) :
    QInv sem (d.update op).1 w ∧
    ((d.update op).2 = .ok ∧ d.pending.step op = .ok (d.update op).1.pending ∨
     (d.update op).2 = .err ∧ d.pending.step op = .err d.pending ∧ (d.update op).1 = d) ∧
    ((d.update op).1.pending = d.pending → (d.update op).1 = d) := by
  have hpinv := h.pend_inv
  cases op with
  | newArg l =>
    by_cases hex : ∃ i, d.pending.Live i l
    · obtain ⟨i, hi⟩ := hex
      have he := newArgument_existing hpinv hi
      have hd : d.update (.newArg l) = (d, .ok) := by
        simp only [DState.update, he, Nat.lt_irrefl, gt_iff_lt, if_false]
      rw [hd]
      exact ⟨h, Or.inl ⟨rfl, by simp [Store.step, he]⟩, fun _ => rfl⟩
    · have hfresh : ∀ i, ¬ d.pending.Live i l := fun i hi => hex ⟨i, hi⟩
      have he := newArgument_fresh hpinv hfresh
      have hgt := nArguments_pushArg hpinv l
      have hd : d.update (.newArg l) =
          ({ d with pending := d.pending.pushArg l, buffer := d.buffer ++ [.newArg l] }, .ok) := by
        simp only [DState.update, he, hgt, if_true]
      rw [hd]
      refine ⟨QInv_buffer_update h (op := .newArg l) rfl rfl ⟨by simp [Store.step, he], hgt⟩
        (inv_pushArg hpinv hfresh), Or.inl ⟨rfl, by simp [Store.step, he]⟩, ?_⟩
      intro heq
      exfalso
      have : (d.pending.pushArg l).nArguments > d.pending.nArguments := hgt
      simp only at heq
      rw [heq] at this
      exact Nat.lt_irrefl _ this
  | remArg l =>
    by_cases hex : ∃ i, d.pending.Live i l
    · obtain ⟨i, hi⟩ := hex
      have he := (removeArgument_spec hpinv l).1 i hi
      have hd : d.update (.remArg l) =
          ({ d with pending := d.pending.dropArg l i, buffer := d.buffer ++ [.remArg l] }, .ok) := by
        simp only [DState.update, he]
      rw [hd]
      refine ⟨QInv_buffer_update h (op := .remArg l) rfl rfl ⟨by simp [Store.step, he], trivial⟩
        (inv_dropArg hpinv hi), Or.inl ⟨rfl, by simp [Store.step, he]⟩, ?_⟩
      intro heq
      exfalso
      simp only at heq
      have h1 : (d.pending.dropArg l i).hasId i = true := by rw [heq]; exact hasId_iff.2 ⟨l, hi⟩
      rw [hasId_dropArg] at h1
      simp at h1
    · have he := (removeArgument_spec hpinv l).2 (fun i hi => hex ⟨i, hi⟩)
      have hd : d.update (.remArg l) = (d, .err) := by simp only [DState.update, he]
      rw [hd]
      exact ⟨h, Or.inr ⟨rfl, by simp [Store.step, he], rfl⟩, fun _ => rfl⟩
  | newAtt la lb =>
    by_cases hexa : ∃ a, d.pending.Live a la
    · by_cases hexb : ∃ b, d.pending.Live b lb
      · obtain ⟨a, ha⟩ := hexa
        obtain ⟨b, hb⟩ := hexb
        by_cases hh : d.pending.HasAtt a b
        · have he := ((newAttack_spec hpinv la lb).1 a b ha hb).1 hh
          have hd : d.update (.newAtt la lb) = (d, .ok) := by
            simp only [DState.update, he, Nat.lt_irrefl, gt_iff_lt, if_false]
          rw [hd]
          exact ⟨h, Or.inl ⟨rfl, by simp [Store.step, he]⟩, fun _ => rfl⟩
        · have he := ((newAttack_spec hpinv la lb).1 a b ha hb).2 hh
          have hgt := nAttacks_pushAtt hpinv a b
          have hd : d.update (.newAtt la lb) =
              ({ d with pending := d.pending.pushAtt a b, buffer := d.buffer ++ [.newAtt la lb] }, .ok) := by
            simp only [DState.update, he, hgt, if_true]
          rw [hd]
          refine ⟨QInv_buffer_update h (op := .newAtt la lb) rfl rfl ⟨by simp [Store.step, he], hgt⟩
            (inv_pushAtt hpinv ha hb hh), Or.inl ⟨rfl, by simp [Store.step, he]⟩, ?_⟩
          intro heq
          exfalso
          have : (d.pending.pushAtt a b).nAttacks > d.pending.nAttacks := hgt
          simp only at heq
          rw [heq] at this
          exact Nat.lt_irrefl _ this
      · have he := (newAttack_spec hpinv la lb).2 (Or.inr (fun b hb => hexb ⟨b, hb⟩))
        have hd : d.update (.newAtt la lb) = (d, .err) := by simp only [DState.update, he]
        rw [hd]
        exact ⟨h, Or.inr ⟨rfl, by simp [Store.step, he], rfl⟩, fun _ => rfl⟩
    · have he := (newAttack_spec hpinv la lb).2 (Or.inl (fun a ha => hexa ⟨a, ha⟩))
      have hd : d.update (.newAtt la lb) = (d, .err) := by simp only [DState.update, he]
      rw [hd]
      exact ⟨h, Or.inr ⟨rfl, by simp [Store.step, he], rfl⟩, fun _ => rfl⟩
  | remAtt la lb =>
    have herr : d.pending.removeAttack la lb = .err d.pending →
        QInv sem (d.update (.remAtt la lb)).1 w ∧
        ((d.update (.remAtt la lb)).2 = .ok ∧ d.pending.step (.remAtt la lb) = .ok (d.update (.remAtt la lb)).1.pending ∨
         (d.update (.remAtt la lb)).2 = .err ∧ d.pending.step (.remAtt la lb) = .err d.pending ∧
           (d.update (.remAtt la lb)).1 = d) ∧
        ((d.update (.remAtt la lb)).1.pending = d.pending → (d.update (.remAtt la lb)).1 = d) := by
      intro he
      have hd : d.update (.remAtt la lb) = (d, .err) := by simp only [DState.update, he]
      rw [hd]
      exact ⟨h, Or.inr ⟨rfl, by simp [Store.step, he], rfl⟩, fun _ => rfl⟩
    by_cases hexa : ∃ a, d.pending.Live a la
    · by_cases hexb : ∃ b, d.pending.Live b lb
      · obtain ⟨a, ha⟩ := hexa
        obtain ⟨b, hb⟩ := hexb
        by_cases hh : d.pending.HasAtt a b
        · obtain ⟨k, hk⟩ := hh
          obtain ⟨pf, pt, he, h1, h2, h3, h4⟩ := ((removeAttack_spec hpinv la lb).1 a b ha hb).1 k hk
          have hd : d.update (.remAtt la lb) =
              ({ d with pending := d.pending.dropAtt a b k pf pt, buffer := d.buffer ++ [.remAtt la lb] }, .ok) := by
            simp only [DState.update, he]
          rw [hd]
          refine ⟨QInv_buffer_update h (op := .remAtt la lb) rfl rfl ⟨by simp [Store.step, he], trivial⟩
            (inv_dropAtt hpinv ha hb hk h1 h2 h3 h4), Or.inl ⟨rfl, by simp [Store.step, he]⟩, ?_⟩
          intro heq
          exfalso
          simp only at heq
          have h5 : (d.pending.dropAtt a b k pf pt).att k = some (a, b) := by rw [heq]; exact hk
          rw [att_dropAtt, if_pos rfl] at h5
          cases h5
        · exact herr (((removeAttack_spec hpinv la lb).1 a b ha hb).2 hh)
      · exact herr ((removeAttack_spec hpinv la lb).2 (Or.inr (fun b hb => hexb ⟨b, hb⟩)))
    · exact herr ((removeAttack_spec hpinv la lb).2 (Or.inl (fun a ha => hexa ⟨a, ha⟩)))

/-! ## histories -/

def AnswerOK (sem : DSem) (st : Store) : DQuery → Nat → AccAns → Prop
  | .cred => CredOK sem st
  | .skep => SkepOK sem st

theorem update_enc (d : DState) (op : StoreOp) : (d.update op).1.enc = d.enc := by
  cases op with
  | newArg l => simp only [DState.update]; split <;> rfl
  | remArg l => simp only [DState.update]; split <;> rfl
  | newAtt a b =>
    simp only [DState.update]
    split
    · split <;> rfl
    · rfl
    · rfl
  | remAtt a b => simp only [DState.update]; split <;> rfl

/-- one query on a state satisfying the invariant, on sound replies (all three semantics; the
preferred solver offers the skeptical query only, `wp_prSkepQuery`) -/
theorem query_ok {sem : DSem} {fuel : Nat} {d : DState} {w : World} (h : QInv sem d w)
    (henc : d.enc.sem = sem) (q : DQuery) {l id : Nat} (hl : d.pending.Live id l)
    {rs : List Reply} (hs : RunSound (query fuel d q l) rs w) {d' : DState} {a : AccAns} {w' : World}
    (hrun : interp (query fuel d q l) rs w = (.done (d', a), w')) :
    QInv sem d' w' ∧ d'.pending = d.pending ∧ AnswerOK sem d.pending q l a := by
  have key : wp True (query fuel d q l) w (fun r w' => QInv sem r.1 w' ∧ r.1.pending = d.pending ∧
      AnswerOK sem d.pending q l r.2) := by
    unfold query
    rw [henc]
    cases sem with
    | PR =>
      cases q with
      | cred => exact trivial
      | skep =>
        refine wp_mono _ _ _ _ ?_ (wp_prSkepQuery fuel h h.dinv.w0.2 hl)
        rintro r w' ⟨h1, _, h2, h3⟩
        exact ⟨h1, h2, h3⟩
    | CO =>
      cases q with
      | cred => exact wp_credQuery (by simp) h hl
      | skep => exact trivial
    | ST =>
      cases q with
      | cred => exact wp_credQuery (by simp) h hl
      | skep => exact wp_stSkepQuery h hl
  exact wp_sound _ rs w w' (d', a) _ key hs hrun

/-- the states reachable from a fresh solver: by update calls, and by queries about existing
arguments that ran to completion on sound replies; indexed by the update calls made so far -/
inductive Reach (sem : DSem) (fuel : Nat) : List StoreOp → DState → World → Prop
  | init : Reach sem fuel [] (DState.init sem) ({} : World).onNew
  | update {ops : List StoreOp} {d : DState} {w : World} (op : StoreOp) :
      Reach sem fuel ops d w → Reach sem fuel (ops ++ [op]) (d.update op).1 w
  | query {ops : List StoreOp} {d : DState} {w : World} (q : DQuery) (l id : Nat) (rs : List Reply)
      (d' : DState) (a : AccAns) (w' : World) :
      Reach sem fuel ops d w → d.pending.Live id l → RunSound (query fuel d q l) rs w →
      interp (query fuel d q l) rs w = (.done (d', a), w') → Reach sem fuel ops d' w'

theorem runOps_append (s : Store) : ∀ (ops : List StoreOp) (op : StoreOp) (s1 : Store),
    runOps s ops = some s1 → runOps s (ops ++ [op]) = runOps s1 [op]
  | [], op, s1, h => by simp only [runOps] at h; injection h with h; subst h; rfl
  | o :: rest, op, s1, h => by
    simp only [List.cons_append, runOps] at h ⊢
    cases hs : s.step o with
    | ok s' => rw [hs] at h; simp only at h ⊢; exact runOps_append s' rest op s1 h
    | err s' => rw [hs] at h; simp only at h ⊢; exact runOps_append s' rest op s1 h
    | panic => rw [hs] at h; cases h

/-- **every reachable state satisfies the invariant**, and its pending framework is the store
obtained by applying the update calls made so far (rejected ones having no effect) -/
theorem reach_inv {sem : DSem} {fuel : Nat} {ops : List StoreOp} {d : DState} {w : World}
    (h : Reach sem fuel ops d w) :
    QInv sem d w ∧ d.enc.sem = sem ∧ runOps Store.empty ops = some d.pending := by
  induction h with
  | init => exact ⟨QInv_init sem, rfl, rfl⟩
  | @update ops d w op _ ih =>
    obtain ⟨hq, henc, hrun⟩ := ih
    obtain ⟨hq', hres, _⟩ := update_preserves hq op
    refine ⟨hq', by rw [update_enc]; exact henc, ?_⟩
    rw [runOps_append _ _ _ _ hrun]
    rcases hres with ⟨_, hok⟩ | ⟨_, herr, hd⟩
    · simp only [runOps, hok]
    · simp only [runOps, herr, hd]
  | @query ops d w q l id rs d' a w' _ hl hs hrun ih =>
    obtain ⟨hq, henc, hops⟩ := ih
    obtain ⟨hq', hp, _⟩ := query_ok hq henc q hl hs hrun
    refine ⟨hq', ?_, by rw [hp]; exact hops⟩
    obtain ⟨hs', _⟩ := hq'.dinv.clean
    exact hs'

end Crusta.Dyn
