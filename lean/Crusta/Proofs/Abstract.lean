import Mathlib.Data.Finset.Card
import Mathlib.Data.Fintype.Powerset

/-!
# Abstract search procedures (S7, S8, S9): correctness and call bounds for every sound oracle

The procedures of `MaximalExtensionComputer` seen at the level of *sets*: a query asks for a set of
a base family that contains `must` and is not included in any blocked set; a reply is a set or
"none".  Replies are given as a **list**, soundness of the list along the run is `SoundRun`.
These theorems are independent of encodings; `Crusta/Proofs/Glue*.lean` connect them to the `Prog`
models for the aux_var complete encoding.
-/

namespace Crusta.Abs
open Finset

variable {α : Type} [DecidableEq α]

inductive SReply (α : Type) | sat (S : Finset α) | unsat

def Ok (base : Finset α → Prop) (must : Finset α) (blocked : List (Finset α)) (S : Finset α) : Prop :=
  base S ∧ must ⊆ S ∧ ∀ B ∈ blocked, ¬ S ⊆ B

def SoundReply (base : Finset α → Prop) (must : Finset α) (blocked : List (Finset α)) :
    SReply α → Prop
  | .sat S => Ok base must blocked S
  | .unsat => ∀ S, ¬ Ok base must blocked S

def IsMaxBase (base : Finset α → Prop) (M : Finset α) : Prop :=
  base M ∧ ∀ T, base T → M ⊆ T → T = M

/-! ## S7: grow until UNSAT (`compute_maximal` for PR) -/

/-- returns the final set and the number of calls made -/
def grow : List (SReply α) → Finset α → List (Finset α) → Option (Finset α × Nat)
  | [], _, _ => none
  | .unsat :: _, cur, _ => some (cur, 1)
  | .sat S :: rs, cur, blocked => (grow rs S (cur :: blocked)).map (fun p => (p.1, p.2 + 1))

def GrowSound (base : Finset α → Prop) : List (SReply α) → Finset α → List (Finset α) → Prop
  | [], _, _ => True
  | r :: rs, cur, blocked =>
    SoundReply base cur (cur :: blocked) r ∧
    match r with
    | .unsat => True
    | .sat S => GrowSound base rs S (cur :: blocked)

theorem grow_maximal (base : Finset α → Prop) :
    ∀ rs cur blocked res, base cur → (∀ B ∈ blocked, B ⊆ cur ∨ ¬ cur ⊆ B) →
      GrowSound base rs cur blocked → grow rs cur blocked = some res →
      IsMaxBase base res.1 ∧ cur ⊆ res.1 := by
  intro rs
  induction rs with
  | nil => intro cur blocked res _ _ _ h; simp [grow] at h
  | cons r rs ih =>
    intro cur blocked res hb hbl hs h
    obtain ⟨hr, hrest⟩ := hs
    cases r with
    | unsat =>
      simp only [grow, Option.some.injEq] at h; subst h
      refine ⟨⟨hb, ?_⟩, Subset.refl _⟩
      intro T hT hsub
      by_contra hne
      apply hr T
      refine ⟨hT, hsub, ?_⟩
      intro B hB hTB
      rcases List.mem_cons.1 hB with rfl | hB
      · exact hne (Subset.antisymm hTB hsub)
      · rcases hbl B hB with h1 | h1
        · exact hne (Subset.antisymm (hTB.trans h1) hsub)
        · exact h1 (hsub.trans hTB)
    | sat S =>
      simp only [grow, Option.map_eq_some_iff] at h
      obtain ⟨p, hp, rfl⟩ := h
      obtain ⟨hbS, hmust, hnb⟩ := hr
      have := ih S (cur :: blocked) p hbS (by
        intro B hB
        rcases List.mem_cons.1 hB with rfl | hB
        · left; exact hmust
        · rcases hbl B hB with h1 | h1
          · left; exact h1.trans hmust
          · right; exact hnb B (List.mem_cons_of_mem _ hB)) hrest hp
      exact ⟨this.1, hmust.trans this.2⟩

/-- every SAT reply strictly enlarges the current set: at most `|U| - |cur| + 1` calls, where `U`
is any finite superset of all base sets -/
theorem grow_calls (base : Finset α → Prop) (U : Finset α) (hU : ∀ S, base S → S ⊆ U) :
    ∀ rs cur blocked res, base cur →
      GrowSound base rs cur blocked → grow rs cur blocked = some res →
      res.2 + cur.card ≤ U.card + 1 := by
  intro rs
  induction rs with
  | nil => intro cur blocked res _ _ h; simp [grow] at h
  | cons r rs ih =>
    intro cur blocked res hb hs h
    obtain ⟨hr, hrest⟩ := hs
    cases r with
    | unsat =>
      simp only [grow, Option.some.injEq] at h; subst h
      have := Finset.card_le_card (hU cur hb); simp; omega
    | sat S =>
      simp only [grow, Option.map_eq_some_iff] at h
      obtain ⟨p, hp, rfl⟩ := h
      obtain ⟨hbS, hmust, hnb⟩ := hr
      have := ih S (cur :: blocked) p hbS hrest hp
      have hlt : cur.card < S.card := by
        apply Finset.card_lt_card
        exact ⟨hmust, hnb cur (List.mem_cons_self ..)⟩
      simp only; omega

/-- termination: with enough sound replies the loop returns -/
theorem grow_terminates (base : Finset α → Prop) (U : Finset α) (hU : ∀ S, base S → S ⊆ U) :
    ∀ rs cur blocked, base cur → GrowSound base rs cur blocked →
      U.card - cur.card < rs.length → (grow rs cur blocked).isSome := by
  intro rs
  induction rs with
  | nil => intro cur blocked _ _ h; simp at h
  | cons r rs ih =>
    intro cur blocked hb hs hlen
    obtain ⟨hr, hrest⟩ := hs
    cases r with
    | unsat => simp [grow]
    | sat S =>
      simp only [grow, Option.isSome_map]
      obtain ⟨hbS, hmust, hnb⟩ := hr
      apply ih S _ hbS hrest
      have hlt : cur.card < S.card := by
        apply Finset.card_lt_card
        exact ⟨hmust, hnb cur (List.mem_cons_self ..)⟩
      have := Finset.card_le_card (hU S hbS)
      simp at hlen; omega

/-! ## S8: skeptical search with discard (DS-PR without shortcut) -/

/-- `some (some M)` = NO with witness, `some none` = YES, `none` = ran out of replies; the second
component counts the calls -/
def skept (a : α) : List (SReply α) → Finset α → List (Finset α) → Option (Option (Finset α) × Nat)
  | [], _, _ => none
  | .unsat :: _, cur, _ => if a ∈ cur then some (none, 1) else some (some cur, 1)
  | .sat S :: rs, cur, blocked => (skept a rs S (cur :: blocked)).map (fun p => (p.1, p.2 + 1))

def SkeptSound (base : Finset α → Prop) (a : α) :
    List (SReply α) → Finset α → List (Finset α) → Prop
  | [], _, _ => True
  | r :: rs, cur, blocked =>
    (if a ∈ cur then SoundReply base ∅ (cur :: blocked) r
     else SoundReply base cur (cur :: blocked) r) ∧
    match r with
    | .unsat => True
    | .sat S => SkeptSound base a rs S (cur :: blocked)

structure SInv (base : Finset α → Prop) (a : α) (cur : Finset α) (blocked : List (Finset α)) : Prop where
  cur_base : base cur
  sep : ∀ B ∈ blocked, B ⊆ cur ∨ ¬ cur ⊆ B
  top : ∀ B ∈ blocked, (∃ D, base D ∧ B ⊆ D ∧ a ∈ D) ∨ B ⊆ cur

theorem skept_correct (base : Finset α → Prop) (a : α) :
    ∀ rs cur blocked res, SInv base a cur blocked → SkeptSound base a rs cur blocked →
      skept a rs cur blocked = some res →
      (∀ M, res.1 = some M → IsMaxBase base M ∧ a ∉ M) ∧
      (res.1 = none → ∀ M, IsMaxBase base M → a ∈ M) := by
  intro rs
  induction rs with
  | nil => intro cur blocked res _ _ h; simp [skept] at h
  | cons r rs ih =>
    intro cur blocked res inv hs h
    obtain ⟨hr, hrest⟩ := hs
    cases r with
    | unsat =>
      simp only [skept] at h
      by_cases ha : a ∈ cur
      · simp only [ha, if_true, Option.some.injEq] at h hr; subst h
        refine ⟨fun M hM => (by cases hM), fun _ M hM => ?_⟩
        by_contra hna
        have : Ok base ∅ (cur :: blocked) M := by
          refine ⟨hM.1, empty_subset _, ?_⟩
          intro B hB hMB
          rcases List.mem_cons.1 hB with rfl | hB
          · have := hM.2 _ inv.cur_base hMB
            exact hna (this ▸ ha)
          · rcases inv.top B hB with ⟨D, hD, hBD, haD⟩ | hBc
            · have := hM.2 D hD (hMB.trans hBD)
              exact hna (this ▸ haD)
            · have := hM.2 _ inv.cur_base (hMB.trans hBc)
              exact hna (this ▸ ha)
        exact hr M this
      · simp only [ha, if_false, Option.some.injEq] at h hr; subst h
        refine ⟨?_, by intro h; cases h⟩
        intro M hM; injection hM with hM; subst hM
        refine ⟨⟨inv.cur_base, ?_⟩, ha⟩
        intro T hT hsub
        by_contra hne
        apply hr T
        refine ⟨hT, hsub, ?_⟩
        intro B hB hTB
        rcases List.mem_cons.1 hB with rfl | hB
        · exact hne (Subset.antisymm hTB hsub)
        · rcases inv.sep B hB with h1 | h1
          · exact hne (Subset.antisymm (hTB.trans h1) hsub)
          · exact h1 (hsub.trans hTB)
    | sat S =>
      simp only [skept, Option.map_eq_some_iff] at h
      obtain ⟨p, hp, rfl⟩ := h
      simp only at hrest
      by_cases ha : a ∈ cur
      · simp only [ha, if_true] at hr
        obtain ⟨hbS, _, hnb⟩ := hr
        apply ih S (cur :: blocked) p ?_ hrest hp
        refine ⟨hbS, ?_, ?_⟩
        · intro B hB; right; exact hnb B hB
        · intro B hB
          rcases List.mem_cons.1 hB with rfl | hB
          · left; exact ⟨B, inv.cur_base, Subset.refl _, ha⟩
          · rcases inv.top B hB with h1 | h1
            · left; exact h1
            · left; exact ⟨cur, inv.cur_base, h1, ha⟩
      · simp only [ha, if_false] at hr
        obtain ⟨hbS, hmust, hnb⟩ := hr
        apply ih S (cur :: blocked) p ?_ hrest hp
        refine ⟨hbS, ?_, ?_⟩
        · intro B hB
          rcases List.mem_cons.1 hB with rfl | hB
          · left; exact hmust
          · right; exact hnb B (List.mem_cons_of_mem _ hB)
        · intro B hB
          rcases List.mem_cons.1 hB with rfl | hB
          · right; exact hmust
          · rcases inv.top B hB with h1 | h1
            · left; exact h1
            · right; exact h1.trans hmust

/-- **no candidate set is examined twice**: every SAT reply is a base set that is not included in
any previously blocked set, in particular it differs from every earlier current set -/
theorem skept_replies_fresh (base : Finset α → Prop) (a : α) (cur : Finset α) (blocked : List (Finset α))
    (S : Finset α) (rs : List (SReply α)) (h : SkeptSound base a (.sat S :: rs) cur blocked) :
    base S ∧ S ≠ cur ∧ ∀ B ∈ blocked, S ≠ B := by
  obtain ⟨hr, _⟩ := h
  by_cases ha : a ∈ cur
  · simp only [ha, if_true] at hr
    exact ⟨hr.1, fun e => hr.2.2 cur (List.mem_cons_self ..) (e ▸ Subset.refl _),
      fun B hB e => hr.2.2 B (List.mem_cons_of_mem _ hB) (e ▸ Subset.refl _)⟩
  · simp only [ha, if_false] at hr
    exact ⟨hr.1, fun e => hr.2.2 cur (List.mem_cons_self ..) (e ▸ Subset.refl _),
      fun B hB e => hr.2.2 B (List.mem_cons_of_mem _ hB) (e ▸ Subset.refl _)⟩

/-- call bound for the skeptical search: the blocked list only ever holds pairwise distinct base
sets, so the number of calls is at most (number of base sets) + 1 -/
theorem skept_calls [Fintype α] (base : Finset α → Prop) [DecidablePred base] (a : α) :
    ∀ rs cur blocked res, base cur → (∀ B ∈ blocked, base B) → (cur :: blocked).Nodup →
      SkeptSound base a rs cur blocked → skept a rs cur blocked = some res →
      res.2 + (cur :: blocked).length ≤ (Finset.univ.filter base).card + 1 := by
  intro rs
  induction rs with
  | nil => intro cur blocked res _ _ _ _ h; simp [skept] at h
  | cons r rs ih =>
    intro cur blocked res hb hbl hnd hs h
    cases r with
    | unsat =>
      have hres : res.2 = 1 := by
        simp only [skept] at h
        split at h <;> (injection h with h; subst h; rfl)
      rw [hres]
      have : (cur :: blocked).toFinset ⊆ Finset.univ.filter base := by
        intro x hx
        simp only [List.mem_toFinset, List.mem_cons] at hx
        simp only [mem_filter, mem_univ, true_and]
        rcases hx with rfl | hx
        · exact hb
        · exact hbl x hx
      have hc := Finset.card_le_card this
      rw [List.toFinset_card_of_nodup hnd] at hc
      omega
    | sat S =>
      have hfresh := skept_replies_fresh base a cur blocked S rs hs
      obtain ⟨_, hrest⟩ := hs
      simp only [skept, Option.map_eq_some_iff] at h
      obtain ⟨p, hp, rfl⟩ := h
      have := ih S (cur :: blocked) p hfresh.1 (by
        intro B hB
        rcases List.mem_cons.1 hB with rfl | hB
        · exact hb
        · exact hbl B hB) (by
        rw [List.nodup_cons]
        refine ⟨?_, hnd⟩
        intro hmem
        rcases List.mem_cons.1 hmem with e | hB
        · exact hfresh.2.1 e
        · exact hfresh.2.2 _ hB rfl) hrest hp
      simp only [List.length_cons] at this ⊢
      omega

/-! ## S9: range-guided grow loop -/

structure RCtx (α : Type) [DecidableEq α] where
  base : Finset α → Prop
  rg : Finset α → Finset α
  sub_rg : ∀ S, S ⊆ rg S

inductive RReply (α : Type) | sat (S R : Finset α) | unsat

def ROk (c : RCtx α) (must : Finset α) (blocked : List (Finset α)) (S R : Finset α) : Prop :=
  c.base S ∧ S ⊆ R ∧ R ⊆ c.rg S ∧ must ⊆ R ∧ ∀ B ∈ blocked, ¬ R ⊆ B

def RSoundReply (c : RCtx α) (must : Finset α) (blocked : List (Finset α)) : RReply α → Prop
  | .sat S R => ROk c must blocked S R
  | .unsat => ∀ S R, ¬ ROk c must blocked S R

def rgrow : List (RReply α) → Finset α → Finset α → List (Finset α) → Option (Finset α × Finset α)
  | [], _, _, _ => none
  | .unsat :: _, S, R, _ => some (S, R)
  | .sat S' R' :: rs, _, R, blocked => rgrow rs S' R' (R :: blocked)

def RSoundRun (c : RCtx α) : List (RReply α) → Finset α → List (Finset α) → Prop
  | [], _, _ => True
  | r :: rs, R, blocked =>
    RSoundReply c R (R :: blocked) r ∧
    match r with
    | .unsat => True
    | .sat _ R' => RSoundRun c rs R' (R :: blocked)

def MaxRange (c : RCtx α) (S : Finset α) : Prop :=
  c.base S ∧ ∀ T, c.base T → c.rg S ⊆ c.rg T → c.rg T = c.rg S

/-- when the range-guided loop gets UNSAT, the asserted range *is* the range of the current set
and it is ⊆-maximal among the ranges of base sets -/
theorem rgrow_correct (c : RCtx α) :
    ∀ rs S R blocked res, c.base S → S ⊆ R → R ⊆ c.rg S →
      (∀ B ∈ blocked, B ⊆ R) →
      RSoundRun c rs R blocked → rgrow rs S R blocked = some res →
      MaxRange c res.1 ∧ res.2 = c.rg res.1 := by
  intro rs
  induction rs with
  | nil => intro S R blocked res _ _ _ _ _ h; simp [rgrow] at h
  | cons r rs ih =>
    intro S R blocked res hb hSR hRrg hbl hs h
    obtain ⟨hr, hrest⟩ := hs
    cases r with
    | unsat =>
      simp only [rgrow, Option.some.injEq] at h; subst h
      have hR : R = c.rg S := by
        apply Subset.antisymm hRrg
        by_contra hne
        apply hr S (c.rg S)
        refine ⟨hb, c.sub_rg S, Subset.refl _, hRrg, ?_⟩
        intro B hB hsub
        rcases List.mem_cons.1 hB with rfl | hB
        · exact hne hsub
        · exact hne (hsub.trans (hbl B hB))
      refine ⟨⟨hb, ?_⟩, hR⟩
      intro T hT hsub
      by_contra hne
      apply hr T (c.rg T)
      refine ⟨hT, c.sub_rg T, Subset.refl _, hR ▸ hsub, ?_⟩
      intro B hB hTB
      have hBR : B ⊆ R := by
        rcases List.mem_cons.1 hB with rfl | hB
        · exact Subset.refl _
        · exact hbl B hB
      exact hne (Subset.antisymm (hR ▸ (hTB.trans hBR)) hsub)
    | sat S' R' =>
      simp only [rgrow] at h
      obtain ⟨hbS, hSR', hR'rg, hmust, _⟩ := hr
      apply ih S' R' (R :: blocked) res hbS hSR' hR'rg ?_ hrest h
      intro B hB
      rcases List.mem_cons.1 hB with rfl | hB
      · exact hmust
      · exact (hbl B hB).trans hmust

end Crusta.Abs
