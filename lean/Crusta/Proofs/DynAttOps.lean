import Crusta.Proofs.DynAttInv

/-!
# The invariant is established by a re-encoding and preserved by the replayed updates
-/

namespace Crusta.DynAtt
open Crusta Crusta.Dyn

/-! ## lists -/

theorem auxLits_length : ∀ (m N : Nat), (auxLits m N).length = m := by
  intro m
  induction m with
  | zero => intro N; rfl
  | succ m ih => intro N; simp [auxLits, ih]

theorem passSpec_len {n N : Nat} {pre : Nat → Cnf} {head : Nat → Lit} {cell : Nat → Nat → Nat → Cnf}
    (hpre : ∀ x, ∀ c ∈ pre x, 2 ≤ c.length) (hcell : ∀ x a u, ∀ c ∈ cell x a u, 2 ≤ c.length)
    {c : Clause} (h : PassSpec n N pre head cell c) : 2 ≤ c.length := by
  obtain ⟨i, hi, h | ⟨j, _, h⟩ | rfl⟩ := h
  · exact hpre _ c h
  · exact hcell _ _ _ c h
  · simp [auxLits_length]; omega

theorem encSpec_len {sem : DSem} {n : Nat} {c : Clause} (h : EncSpec sem n c) : 2 ≤ c.length := by
  have hst : ∀ x a u, ∀ c ∈ stCell n x a u, 2 ≤ c.length := by
    intro x a u c hc
    simp only [stCell, List.mem_cons, List.not_mem_nil, or_false] at hc
    rcases hc with rfl | rfl | rfl | rfl <;> simp
  have hc1 : ∀ x a u, ∀ c ∈ coCell1 n x a u, 2 ≤ c.length := by
    intro x a u c hc
    simp only [coCell1, List.mem_cons, List.not_mem_nil, or_false] at hc
    rcases hc with rfl | rfl | rfl | rfl <;> simp
  have hc2 : ∀ x a u, ∀ c ∈ coCell2 n x a u, 2 ≤ c.length := by
    intro x a u c hc
    simp only [coCell2, List.mem_cons, List.not_mem_nil, or_false] at hc
    rcases hc with rfl | rfl | rfl | rfl <;> simp
  have hp0 : ∀ x : Nat, ∀ c ∈ (fun _ : Nat => ([] : Cnf)) x, 2 ≤ c.length := by
    intro x c hc; simp at hc
  have hp1 : ∀ x : Nat, ∀ c ∈ (fun x : Nat => ([[nl x, nl (disjVar n x)]] : Cnf)) x, 2 ≤ c.length := by
    intro x c hc; simp at hc; subst hc; simp
  cases sem with
  | ST => simp only [EncSpec] at h; exact passSpec_len hp0 hst h
  | CO =>
    simp only [EncSpec] at h
    rcases h with h | h
    · exact passSpec_len hp1 hc1 h
    · exact passSpec_len hp0 hc2 h
  | PR =>
    simp only [EncSpec] at h
    rcases h with h | h
    · exact passSpec_len hp1 hc1 h
    · exact passSpec_len hp0 hc2 h

theorem foldl_set_spec : ∀ (ps : List ((Nat × Nat) × Nat)) (t : List (Option Nat)),
    (ps.map (·.1.1)).Nodup → (∀ p ∈ ps, p.1.1 < t.length) →
    (ps.foldl (fun t p => t.set p.1.1 (some (p.2 + 1))) t).length = t.length ∧
    ∀ i v, (ps.foldl (fun t p => t.set p.1.1 (some (p.2 + 1))) t).getD i none = some v ↔
      (∃ p ∈ ps, p.1.1 = i ∧ v = p.2 + 1) ∨ (i ∉ ps.map (·.1.1) ∧ t.getD i none = some v) := by
  intro ps
  induction ps with
  | nil => intro t _ _; simp
  | cons q rest ih =>
    intro t hnd hlt
    simp only [List.map_cons, List.nodup_cons] at hnd
    have hq := hlt q List.mem_cons_self
    obtain ⟨hlen, hget⟩ := ih (t.set q.1.1 (some (q.2 + 1))) hnd.2
      (by intro p hp; simpa using hlt p (List.mem_cons_of_mem _ hp))
    refine ⟨by simpa using hlen, ?_⟩
    intro i v
    simp only [List.foldl_cons]
    rw [hget i v]
    by_cases hiq : q.1.1 = i
    · subst hiq
      rw [getD_set_eq _ _ _ _ hq]
      constructor
      · rintro (⟨p, hp, h1, h2⟩ | ⟨_, h2⟩)
        · exact Or.inl ⟨p, List.mem_cons_of_mem _ hp, h1, h2⟩
        · exact Or.inl ⟨q, List.mem_cons_self, rfl, (Option.some.inj h2).symm⟩
      · rintro (⟨p, hp, h1, h2⟩ | ⟨h1, _⟩)
        · rcases List.mem_cons.1 hp with rfl | hp
          · exact Or.inr ⟨hnd.1, by rw [h2]⟩
          · exact Or.inl ⟨p, hp, h1, h2⟩
        · simp at h1
    · rw [getD_set_ne _ _ _ _ _ hiq]
      constructor
      · rintro (⟨p, hp, h1, h2⟩ | ⟨h1, h2⟩)
        · exact Or.inl ⟨p, List.mem_cons_of_mem _ hp, h1, h2⟩
        · refine Or.inr ⟨?_, h2⟩
          simp only [List.map_cons, List.mem_cons, not_or]
          exact ⟨fun h => hiq h.symm, h1⟩
      · rintro (⟨p, hp, h1, h2⟩ | ⟨h1, h2⟩)
        · rcases List.mem_cons.1 hp with rfl | hp
          · exact absurd h1 hiq
          · exact Or.inl ⟨p, hp, h1, h2⟩
        · simp only [List.map_cons, List.mem_cons, not_or] at h1
          exact Or.inr ⟨h1.2, h2⟩

theorem liveArgs_length_aux : ∀ (l : List (Option Nat)) (k : Nat),
    ((l.zipIdx k).filterMap (fun p => p.1.map (fun x => (p.2, x)))).length = (l.filterMap id).length := by
  intro l
  induction l with
  | nil => intro k; rfl
  | cons a t ih =>
    intro k
    cases a with
    | none => simp [List.zipIdx_cons, ih]
    | some x => simp [List.zipIdx_cons, ih]

theorem liveArgs_length {st : Store} (hinv : st.Inv) : st.liveArgs.length = st.nArguments := by
  have h1 := Store.nArguments_eq hinv
  have h2 := Store.filterMap_id_length st.labels
  have h3 : st.liveArgs.length = (st.labels.filterMap id).length := liveArgs_length_aux st.labels 0
  omega

theorem hasId_lt {st : Store} {i : Nat} (h : st.hasId i = true) : i < st.labels.length := by
  obtain ⟨l, hl⟩ := Store.hasId_iff.1 h
  exact Store.live_lt hl

theorem table_len {st : Store} (h : st.labels ≠ []) : 1 + st.maxId.getD 0 = st.labels.length := by
  unfold Store.maxId
  cases hl : st.labels with
  | nil => exact absurd hl h
  | cons a t => simp; omega

theorem freshArgVar_spec (st : Store) :
    (st.labels ≠ [] → (freshArgVar st).length = st.labels.length) ∧
    ∀ i v, (freshArgVar st).getD i none = some v ↔
      ∃ p l, st.liveArgs[p]? = some (i, l) ∧ v = p + 1 := by
  unfold freshArgVar
  have hmap : (st.liveArgs.zipIdx.map (·.1.1)) = st.liveArgs.map (·.1) := by
    rw [show (fun p : (Nat × Nat) × Nat => p.1.1) = (fun q : Nat × Nat => q.1) ∘ Prod.fst from rfl,
      ← List.map_map, List.zipIdx_map_fst]
  obtain ⟨hlen, hget⟩ := foldl_set_spec st.liveArgs.zipIdx (List.replicate (1 + st.maxId.getD 0) none)
    (by rw [hmap]; exact Store.liveArgs_nodup st)
    (by
      intro p hp
      have hm : p.1.1 ∈ st.liveArgs.map (·.1) := by
        rw [← hmap]; exact List.mem_map_of_mem (f := fun p : (Nat × Nat) × Nat => p.1.1) hp
      have hl := hasId_lt ((Store.mem_liveArgs st _).1 hm)
      have hne : st.labels ≠ [] := by intro h; rw [h] at hl; simp at hl
      rw [List.length_replicate, table_len hne]; exact hl)
  refine ⟨fun hne => by rw [hlen, List.length_replicate, table_len hne], ?_⟩
  intro i v
  rw [hget i v]
  constructor
  · rintro (⟨p, hp, rfl, rfl⟩ | ⟨_, h2⟩)
    · have := List.mem_zipIdx_iff_getElem?.1 hp
      exact ⟨p.2, p.1.2, this, rfl⟩
    · simp [List.getD_eq_getElem?_getD, List.getElem?_replicate] at h2
      split at h2 <;> simp at h2
  · rintro ⟨p, l, hp, rfl⟩
    exact Or.inl ⟨((i, l), p), List.mem_zipIdx_iff_getElem?.2 hp, rfl, rfl⟩

theorem getElem?_append_noArg {A T : List AVarType} (hT : ∀ x ∈ T, ∀ i, x ≠ .arg i) (p i : Nat) :
    (A ++ T)[p]? = some (.arg i) ↔ A[p]? = some (.arg i) := by
  rw [List.getElem?_append]
  by_cases hp : p < A.length
  · simp [hp]
  · simp only [hp, if_false]
    constructor
    · intro h; exact absurd rfl (hT _ (List.mem_of_getElem? h) i)
    · intro h
      have : A[p]? = none := List.getElem?_eq_none (by omega)
      rw [this] at h; cases h

theorem freshVars_spec (sem : DSem) (st : Store) (n v i : Nat) :
    (freshVars sem st n).getD v .ignored = .arg i ↔ ∃ p l, st.liveArgs[p]? = some (i, l) ∧ v = p + 1 := by
  have key : ∃ T : List AVarType, (∀ x ∈ T, ∀ i, x ≠ .arg i) ∧
      freshVars sem st n = AVarType.ignored :: (st.liveArgs.map (fun p => AVarType.arg p.1) ++ T) := by
    cases sem with
    | ST =>
      refine ⟨List.replicate (n - st.nArguments) .ignored ++ List.replicate (n * n) .attack, ?_, ?_⟩
      · intro x hx i
        simp only [List.mem_append, List.mem_replicate] at hx
        rcases hx with ⟨_, rfl⟩ | ⟨_, rfl⟩ <;> simp
      · simp [freshVars]
    | CO =>
      refine ⟨List.replicate (n - st.nArguments) .ignored ++ (List.replicate (n * n) .attack ++
        (st.liveArgs.map (fun p => AVarType.disj p.1) ++ List.replicate (n - st.nArguments) .ignored)), ?_, ?_⟩
      · intro x hx i
        simp only [List.mem_append, List.mem_replicate, List.mem_map] at hx
        rcases hx with ⟨_, rfl⟩ | ⟨_, rfl⟩ | ⟨_, _, rfl⟩ | ⟨_, rfl⟩ <;> simp
      · simp [freshVars]
    | PR =>
      refine ⟨List.replicate (n - st.nArguments) .ignored ++ List.replicate (n * n) .attack, ?_, ?_⟩
      · intro x hx i
        simp only [List.mem_append, List.mem_replicate] at hx
        rcases hx with ⟨_, rfl⟩ | ⟨_, rfl⟩ <;> simp
      · simp [freshVars]
  obtain ⟨T, hT, hfv⟩ := key
  rw [hfv, List.getD_eq_getElem?_getD]
  cases v with
  | zero =>
    simp only [List.getElem?_cons_zero, Option.getD_some]
    constructor
    · intro h; cases h
    · rintro ⟨p, l, _, h⟩; omega
  | succ p =>
    rw [List.getElem?_cons_succ]
    have h1 : ((st.liveArgs.map (fun p => AVarType.arg p.1) ++ T)[p]?.getD .ignored = .arg i) ↔
        (st.liveArgs.map (fun p => AVarType.arg p.1) ++ T)[p]? = some (.arg i) := by
      cases hx : (st.liveArgs.map (fun p => AVarType.arg p.1) ++ T)[p]? with
      | none => simp
      | some x => simp
    rw [h1, getElem?_append_noArg hT, List.getElem?_map]
    constructor
    · intro h
      cases hl : st.liveArgs[p]? with
      | none => rw [hl] at h; cases h
      | some q =>
        rw [hl] at h
        simp only [Option.map_some, Option.some.injEq, AVarType.arg.injEq] at h
        subst h
        exact ⟨p, q.2, hl, rfl⟩
    · intro h
      obtain ⟨p', l, hp', h⟩ := h
      have : p = p' := by omega
      subst this
      rw [hp']; rfl

theorem liveArgs_get_of_hasId {st : Store} {i : Nat} (h : st.hasId i = true) :
    ∃ (p : Nat) (l : Nat), st.liveArgs[p]? = some (i, l) := by
  have := (Store.mem_liveArgs st i).2 h
  obtain ⟨q, hq, rfl⟩ := List.mem_map.1 this
  obtain ⟨p, hp⟩ := List.mem_iff_getElem?.1 hq
  exact ⟨p, q.2, hp⟩

/-! ## establishment -/

theorem nArguments_pos_labels {st : Store} (h : 0 < st.nArguments) : st.labels ≠ [] := by
  intro hl
  unfold Store.nArguments Store.len at h
  rw [hl] at h
  simp at h

/-- the invariant holds right after a re-encoding -/
theorem ainv_reencoded {st : Store} (hinv : st.Inv) (e : AEnc) (k : Nat) {Γ : Cnf}
    (hfac : st.nArguments ≤ e.scaled st.nArguments)
    (hΓ : ∀ c, c ∈ Γ ↔ EncSpec e.sem (e.scaled st.nArguments) c) :
    AInv st (e.reencoded st k) Γ := by
  have hlen := liveArgs_length hinv
  have hav : ∀ i v, (e.reencoded st k).av i = some v ↔ ∃ p l, st.liveArgs[p]? = some (i, l) ∧ v = p + 1 :=
    (freshArgVar_spec st).2
  have hty : ∀ v i, (e.reencoded st k).ty v = .arg i ↔ ∃ p l, st.liveArgs[p]? = some (i, l) ∧ v = p + 1 :=
    fun v i => freshVars_spec e.sem st _ v i
  have hplt : ∀ {p : Nat} {x : Nat × Nat}, st.liveArgs[p]? = some x → p < st.nArguments := by
    intro p x hp
    rw [← hlen]
    exact (List.getElem?_eq_some_iff.1 hp).1
  constructor
  · intro c hc; exact (hΓ c).2 hc
  · intro c hc; exact Or.inl ((hΓ c).1 hc)
  · intro i hi
    obtain ⟨p, l, hp⟩ := liveArgs_get_of_hasId hi
    have := hplt hp
    refine ⟨p + 1, (hav i _).2 ⟨p, l, hp, rfl⟩, by omega, ?_, (hty _ i).2 ⟨p, l, hp, rfl⟩⟩
    show p + 1 ≤ e.scaled st.nArguments
    omega
  · intro v i h
    obtain ⟨p, l, hp, rfl⟩ := (hty v i).1 h
    refine ⟨?_, (hav i _).2 ⟨p, l, hp, rfl⟩⟩
    apply (Store.mem_liveArgs st i).1
    exact List.mem_map.2 ⟨(i, l), List.mem_of_getElem? hp, rfl⟩
  · intro v i h
    obtain ⟨p, l, hp, rfl⟩ := (hty v i).1 h
    have := hplt hp
    show p + 1 < st.nArguments + 1
    omega
  · intro v hv
    have := encSpec_len ((hΓ _).1 hv)
    simp at this
  · show 1 ≤ st.nArguments + 1
    omega
  · show st.nArguments + 1 ≤ e.scaled st.nArguments + 1
    omega
  · intro hpos
    have hpos' : 0 < e.scaled st.nArguments := hpos
    have : 0 < st.nArguments := by
      apply Classical.byContradiction
      intro hn
      have h0 : st.nArguments = 0 := by omega
      rw [h0] at hpos'
      simp [AEnc.scaled] at hpos'
    exact (freshArgVar_spec st).1 (nArguments_pos_labels this)
  · show e.scaled st.nArguments + e.scaled st.nArguments * e.scaled st.nArguments <
        (freshVars e.sem st (e.scaled st.nArguments)).length ∧
      (e.sem = .CO → 2 * e.scaled st.nArguments + e.scaled st.nArguments * e.scaled st.nArguments <
        (freshVars e.sem st (e.scaled st.nArguments)).length)
    cases hs : e.sem <;> simp [freshVars, hlen] <;> omega

end Crusta.DynAtt
