"""Shared machinery for the checks: builds, runs, audit, evidence, known findings, replays."""
import fcntl
import hashlib
import json
import os
import re
import shutil
import subprocess
import sys
import time

VERIF = os.path.dirname(os.path.dirname(os.path.abspath(__file__)))
REPO = os.environ.get("VERIF_REPO", "/repo")
LEAN_DIR = os.path.join(VERIF, "lean")
HARNESS_DIR = os.path.join(VERIF, "harness")
CACHE = os.path.join(VERIF, ".cache")
EVIDENCE = os.path.join(VERIF, "evidence")
REPLAYS = os.path.join(VERIF, "replays")
DRIVER = os.path.join(LEAN_DIR, ".lake", "build", "bin", "driver")
VH = os.environ.get("VERIF_VH") or os.path.join(HARNESS_DIR, "target", "release", "vh")   # VERIF_VH: an instrumented build (tools/coverage.sh)
REPO_TARGET = os.environ.get("VERIF_REPO_TARGET") or os.path.join(CACHE, "repo-target")   # VERIF_REPO_TARGET: instrumented binaries (tools/coverage.sh cli)
GUARD = "crustabri_verif"
ALLOWED_AXIOMS = {"propext", "Classical.choice", "Quot.sound"}
TRUSTED_BASE = [
    "Lean 4.33 kernel; axioms limited to propext, Classical.choice, Quot.sound (audited by #print axioms on every property theorem)",
    "hand-written Lean model of the code, tied to /repo by the differential correspondence run of this check (harness /verif/harness + driver /verif/lean/Driver, canonicalisation in /verif/tools)",
    "CaDiCaL / external SAT solvers assumed sound and complete (every reply seen is re-checked by the model evaluator where stated)",
    "Rust std collections, regex, clap, permutator modelled not verified",
]


def env_offline():
    e = dict(os.environ)
    e["CARGO_NET_OFFLINE"] = "true"
    e.setdefault("CARGO_TERM_COLOR", "never")
    return e


class Lock:
    def __init__(self, name="build.lock"):
        os.makedirs(CACHE, exist_ok=True)
        self.path = os.path.join(CACHE, name)

    def __enter__(self):
        self.f = open(self.path, "w")
        fcntl.flock(self.f, fcntl.LOCK_EX)
        return self

    def __exit__(self, *a):
        fcntl.flock(self.f, fcntl.LOCK_UN)
        self.f.close()


def sh(cmd, cwd=None, env=None, timeout=None, input=None):
    p = subprocess.run(cmd, cwd=cwd, env=env, timeout=timeout, input=input,
                       stdout=subprocess.PIPE, stderr=subprocess.STDOUT, text=True)
    return p.returncode, p.stdout


# ----------------------------------------------------------------------------- builds

def gen_from_source():
    """Regenerate lean/Crusta/Gen/* from /repo (data, not logic). Only rewrites on change."""
    from gen_from_source import regenerate
    return regenerate(REPO, os.path.join(LEAN_DIR, "Crusta", "Gen"))


def lake_build(targets):
    with Lock():
        rc, out = sh(["lake", "build"] + targets, cwd=LEAN_DIR, timeout=3000)
    return rc, out


def harness_build(log=None):
    env = env_offline()
    flags = env.get("RUSTFLAGS", "")
    if ("--cfg " + GUARD) not in flags:
        env["RUSTFLAGS"] = (flags + " --cfg " + GUARD).strip()
    with Lock():
        lock_src = os.path.join(REPO, "Cargo.lock")
        lock_dst = os.path.join(HARNESS_DIR, "Cargo.lock")
        if not os.path.exists(lock_dst) and os.path.exists(lock_src):
            shutil.copy(lock_src, lock_dst)
        rc, out = sh(["cargo", "build", "--release", "--offline"], cwd=HARNESS_DIR, env=env, timeout=3000)
    return rc, out


def repo_bins_build():
    if os.environ.get("VERIF_REPO_TARGET"):
        return 0, "prebuilt"
    env = env_offline()
    flags = env.get("RUSTFLAGS", "")
    if ("--cfg " + GUARD) not in flags:
        env["RUSTFLAGS"] = (flags + " --cfg " + GUARD).strip()
    with Lock():
        rc, out = sh(["cargo", "build", "--release", "--offline", "--bins", "--manifest-path",
                      os.path.join(REPO, "Cargo.toml"), "--target-dir", REPO_TARGET], env=env, timeout=3000)
    return rc, out


# ----------------------------------------------------------------------------- lean audit

THEOREM_RE = re.compile(r"^theorem\s+([A-Za-z_][A-Za-z0-9_.']*)", re.M)
NAMESPACE_RE = re.compile(r"^namespace\s+(\S+)", re.M)
FORBIDDEN_RE = re.compile(r"\bsorry\b|\badmit\b|^axiom\s|native_decide|bv_decide|implemented_by|\bunsafe\s|maxHeartbeats\s+0", re.M)


def strip_comments(src):
    # remove block comments (nested) and line comments
    out = []
    i = 0
    depth = 0
    n = len(src)
    while i < n:
        if src.startswith("/-", i):
            depth += 1
            i += 2
        elif depth > 0 and src.startswith("-/", i):
            depth -= 1
            i += 2
        elif depth > 0:
            i += 1
        elif src.startswith("--", i):
            while i < n and src[i] != "\n":
                i += 1
        else:
            out.append(src[i])
            i += 1
    return "".join(out)


def forbidden_scan():
    hits = []
    for root, _, files in os.walk(os.path.join(LEAN_DIR, "Crusta")):
        for f in files:
            if f.endswith(".lean"):
                p = os.path.join(root, f)
                src = strip_comments(open(p).read())
                for m in FORBIDDEN_RE.finditer(src):
                    hits.append("%s: %s" % (os.path.relpath(p, LEAN_DIR), m.group(0).strip()))
    return hits


def theorems_of(prop_id):
    p = os.path.join(LEAN_DIR, "Crusta", "Props", prop_id + ".lean")
    src = strip_comments(open(p).read())
    # namespaces are tracked linearly (Props files use a single top-level namespace)
    names = []
    ns = []
    for line in src.splitlines():
        m = re.match(r"^namespace\s+(\S+)", line)
        if m:
            ns.append(m.group(1))
            continue
        m = re.match(r"^end\s+(\S+)", line)
        if m and ns and ns[-1].split(".")[-1] == m.group(1).split(".")[-1]:
            ns.pop()
            continue
        m = re.match(r"^(?:protected\s+|private\s+)?theorem\s+([A-Za-z_][A-Za-z0-9_.']*)", line)
        if m:
            names.append(".".join(ns + [m.group(1)]))
    return names


# non-vacuity witnesses (Crusta/Proofs/NonVacuity.lean imports the Props files, so it is audited alongside them):
# concrete runs on which all hypotheses of the property theorems hold, and the theorems applied to them
WITNESSES = {
    "C01": ["static_hyps_PR_se", "static_hyps_ST_se_none", "static_concl_ST_se_none"],
    "C02": ["static_hyps_CO_dc", "static_concl_CO_dc"],
    "C03": ["static_hyps_PR_ds", "static_concl_PR_ds"],
    "C04": ["static_hyps_CO_dc", "static_concl_CO_dc", "static_concl_PR_ds"],
    "C06": ["c06_hyps"],
    "C07": ["static_hyps_CO_dc", "static_hyps_PR_ds"],
    "C15": ["c15_hyps", "c15_concl"],
    "C18": ["c18_hyps", "c18_concl", "static_hyps_PR_ds"],
    "C19": ["c19_hyps", "c19_concl"],
    # dynamic solvers, command line, readers / writers (Crusta/Proofs/NonVacuityDyn.lean)
    "C05": ["cli_hyps", "cli_concl"],
    "C08": ["dyn_hyps_ST", "dyn_concl_ST", "dyn_hyps_PR_no", "dyn_hyps_PR", "dyn_concl_PR", "dynatt_hyps", "dynatt_concl"],
    "C09": ["dyn_concl_ST", "dyn_concl_PR_no", "dynatt_concl"],
    "C13": ["io_hyps_iccma", "io_concl_iccma"],
    "C14": ["io_store_concl"],
    "C16": ["io_hyps_reply", "io_concl_reply"],
}
_DYN_WITNESS_PROPS = ("C05", "C08", "C09", "C13", "C14", "C16")


def witness_module(prop_id):
    return "Crusta.Proofs.NonVacuityDyn" if prop_id in _DYN_WITNESS_PROPS else "Crusta.Proofs.NonVacuity"


WITNESS_MODULE = "Crusta.Proofs.NonVacuity"


def audit(prop_id, run_dir):
    """Returns (ok, discharged_names, problems, raw). Re-elaborates nothing: prints the axioms of
    every theorem of Props/<id>.lean (and of its non-vacuity witnesses) from the compiled .olean."""
    names = theorems_of(prop_id)
    wit = ["Crusta.NonVacuity." + n for n in WITNESSES.get(prop_id, [])]
    names = names + wit
    src = "import Crusta.Props.%s\n" % prop_id + ("import %s\n" % witness_module(prop_id) if wit else "") + "".join("#print axioms %s\n" % n for n in names)
    f = os.path.join(run_dir, "Audit_%s.lean" % prop_id)
    open(f, "w").write(src)
    rc, out = sh(["lake", "env", "lean", f], cwd=LEAN_DIR, timeout=1200)
    discharged, problems = [], []
    flat = re.sub(r"\s+", " ", out)
    for n in names:
        m = re.search(r"'%s' (does not depend on any axioms|depends on axioms: \[([^\]]*)\])" % re.escape(n), flat)
        if not m:
            problems.append("%s: no axiom report (does not elaborate?)" % n)
            continue
        axs = set(a.strip() for a in (m.group(2) or "").split(",") if a.strip())
        bad = axs - ALLOWED_AXIOMS
        if bad:
            problems.append("%s: forbidden axioms %s" % (n, sorted(bad)))
        else:
            discharged.append(n)
    if rc != 0 and not problems:
        problems.append("audit file failed to elaborate: " + out[-400:])
    return (not problems), names, discharged, problems, out


# ----------------------------------------------------------------------------- running cases

def parse_blocks(text):
    """case <id> <family> ... end  ->  {id: [lines]} (order preserved)"""
    blocks = {}
    cur = None
    for line in text.splitlines():
        if line.startswith("case "):
            parts = line.split(" ")
            cur = parts[1]
            blocks[cur] = []
        elif line == "end":
            cur = None
        elif cur is not None:
            blocks[cur].append(line)
    return blocks


def purge_stale_scratch(max_age=3 * 3600):
    """scratch directories of runs that were killed before their clean-up (older than max_age seconds)"""
    import time
    now = time.time()
    for base, pref in ((os.path.join(CACHE, "run"), ""), (CACHE, "cap-"), (CACHE, "c16-")):
        try:
            names = os.listdir(base)
        except OSError:
            continue
        for n in names:
            d = os.path.join(base, n)
            if n.startswith(pref) and (pref or base.endswith("run")) and os.path.isdir(d):
                try:
                    if now - os.path.getmtime(d) > max_age:
                        shutil.rmtree(d, ignore_errors=True)
                except OSError:
                    pass


class Runner:
    def __init__(self, prop_id, tier):
        self.prop_id = prop_id
        self.tier = tier
        self.dir = os.path.join(CACHE, "run", "%s-%d" % (prop_id, os.getpid()))
        shutil.rmtree(self.dir, ignore_errors=True)
        os.makedirs(self.dir, exist_ok=True)
        purge_stale_scratch()
        self.n = 0
        self.call_timeout = None   # set while shrinking: a hanging candidate must not stall the check

    def cleanup(self):
        shutil.rmtree(self.dir, ignore_errors=True)

    def harness(self, case_lines, timeout=1800, chunk=None):
        """Run the real code on the cases (16-way parallel by chunks)."""
        if self.call_timeout:
            timeout = min(timeout, self.call_timeout)
        self.n += 1
        if not case_lines:
            return "", {}
        nproc = min(16, max(1, len(case_lines) // 50)) if chunk is None else chunk
        chunks = [case_lines[i::nproc] for i in range(nproc)]
        procs = []
        for k, ch in enumerate(chunks):
            f = os.path.join(self.dir, "cases_%d_%d.txt" % (self.n, k))
            open(f, "w").write("\n".join(ch) + "\n")
            o = open(os.path.join(self.dir, "impl_%d_%d.txt" % (self.n, k)), "w")
            procs.append((subprocess.Popen([VH, f], stdout=o, stderr=subprocess.DEVNULL, env=env_offline()), o, f))
        texts = []
        deadline = time.time() + timeout
        for p, o, f in procs:
            try:
                p.wait(timeout=max(1, deadline - time.time()))
            except subprocess.TimeoutExpired:
                p.kill()
                p.wait()
            o.close()
            texts.append(open(o.name).read())
            if p.returncode not in (0, None):
                texts.append("case HARNESS-CRASH-%s crash\npanic harness process died rc=%s file=%s\nend\n" % (os.path.basename(f), p.returncode, f))
        text = "".join(texts)
        return text, parse_blocks(text)

    def driver(self, impl_text, timeout=1800):
        """Replay on the Lean model (parallel by splitting at case boundaries)."""
        if self.call_timeout:
            timeout = min(timeout, self.call_timeout)
        if not impl_text:
            return "", {}
        blocks = re.split(r"(?m)^(?=case )", impl_text)
        blocks = [b for b in blocks if b.strip()]
        nproc = min(16, max(1, len(blocks) // 50))
        chunks = ["".join(blocks[i::nproc]) for i in range(nproc)]
        procs = []
        for ch in chunks:
            p = subprocess.Popen([DRIVER], stdin=subprocess.PIPE, stdout=subprocess.PIPE, stderr=subprocess.DEVNULL, text=True)
            procs.append((p, ch))
        # feed concurrently through threads to avoid pipe deadlocks
        import threading
        outs = [None] * len(procs)

        def work(i, p, ch):
            try:
                outs[i] = p.communicate(ch, timeout=timeout)[0]
            except subprocess.TimeoutExpired:
                p.kill()
                outs[i] = ""
        ths = [threading.Thread(target=work, args=(i, p, ch)) for i, (p, ch) in enumerate(procs)]
        for t in ths:
            t.start()
        for t in ths:
            t.join()
        text = "".join(o or "" for o in outs)
        return text, parse_blocks(text)

    def both(self, case_lines, **kw):
        itext, impl = self.harness(case_lines, **kw)
        mtext, model = self.driver(itext)
        return impl, model


# ----------------------------------------------------------------------------- findings / evidence

def load_known():
    p = os.path.join(VERIF, "known_findings.json")
    if not os.path.exists(p):
        return []
    return json.load(open(p))


def match_known(prop_id, signature):
    for k in load_known():
        if k.get("status") == "open" and k.get("property") == prop_id:
            pat = k.get("signature", "")
            if pat == signature or (k.get("signature_regex") and re.fullmatch(k["signature_regex"], signature)):
                return k
    return None


def write_replay(prop_id, payload):
    os.makedirs(REPLAYS, exist_ok=True)
    payload = dict(payload)
    payload["property"] = prop_id
    h = hashlib.sha1(json.dumps(payload, sort_keys=True).encode()).hexdigest()[:12]
    path = os.path.join(REPLAYS, "%s-%s.json" % (prop_id, h))
    payload["how_to_replay"] = "cd /verif && ./check %s --replay %s" % (prop_id, path)
    json.dump(payload, open(path, "w"), indent=1)
    return path


def write_evidence(prop_id, tier, seed, coverage, assumptions, wall, violations):
    os.makedirs(EVIDENCE, exist_ok=True)
    ev = {
        "property_id": prop_id,
        "tier": tier,
        "seed": int(seed),
        "level": "proof",
        "coverage": coverage,
        "assumptions": assumptions,
        "wall_s": round(wall, 2),
        "violations": int(violations),
    }
    tmp = os.path.join(EVIDENCE, ".%s.json.tmp" % prop_id)
    json.dump(ev, open(tmp, "w"), indent=1)
    os.replace(tmp, os.path.join(EVIDENCE, prop_id + ".json"))
