HOOK_COMMITS = []
NOTES = ("Every check: (1) regenerates Crusta/Gen from /repo, (2) rebuilds and re-audits the Lean theorems of the property "
         "(#print axioms, forbidden-construct scan), (3) rebuilds the harness against /repo's working tree, (4) runs the real code "
         "and the Lean model on the same generated cases and diffs them (correspondence), (5) judges the implementation's outputs "
         "with reference deciders that are proved equivalent to the textbook definitions (conformance). known_findings.json lists "
         "open findings (none open at present) and the defects repaired by fix: commits in /repo.")

_SOLVE_NOTE = ("Trusted: Lean kernel + {propext, Classical.choice, Quot.sound}; the correspondence harness/driver/orchestrator; CaDiCaL assumed sound and "
               "complete. The theorems show that the judge applied to the real solvers' answers accepts exactly the answers the property allows "
               "(checkAnswer_iff over the textbook semantics, all frameworks) and that the reference deciders are exact; the solver algorithms "
               "themselves are tied by running the real code on generated frameworks (exhaustive for tiny sizes) and judging every answer.")

CLAIMED = {
    "C01": {"text": "Kernel-checked: the SE judge = textbook extension-hood for all frameworks and the 7 semantics (se_judge_exact, decider_exact, enumeration_complete); every SE answer of the real solvers on the generated frameworks is judged by it.",
            "note": _SOLVE_NOTE, "technique": "Lean 4 proof of the judge + differential conformance run"},
    "C02": {"text": "Kernel-checked: the credulous judge is exact (dc_judge_exact, credB_iff); every DC answer of the real solvers on generated frameworks x all arguments is judged by it.",
            "note": _SOLVE_NOTE, "technique": "Lean 4 proof of the judge + differential conformance run"},
    "C03": {"text": "Kernel-checked: the skeptical judge is exact (ds_judge_exact, skepB_iff, vacuous truth without extensions); every DS answer of the real solvers is judged by it.",
            "note": _SOLVE_NOTE, "technique": "Lean 4 proof of the judge + differential conformance run"},
    "C04": {"text": "Kernel-checked: certificate judge exact (dc_cert_judge_exact, ds_cert_judge_exact, no_cert_slot): witness is a duplicate-free extension containing / omitting the argument, present exactly when promised; membership of the certificate in the queried framework's own argument set is checked in the harness.",
            "note": _SOLVE_NOTE, "technique": "Lean 4 proof of the judge + differential conformance run"},
    "C07": {"text": "Kernel-checked: list queries are disjunctions at spec level (cred_is_disjunction, skep_list_spec, permutation/repetition invariance, variants_agree); all static solvers are run on lists of 1-3 arguments over several components, both entry points.",
            "note": _SOLVE_NOTE, "technique": "Lean 4 proof of the judge + differential conformance run"},
}
NOT_APPLICABLE = {}
