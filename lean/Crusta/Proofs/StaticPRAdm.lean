import Crusta.Proofs.StaticTotal

/-!
# SE-PR with the admissibility encoder

For the problem string literally `SE-PR` and the encoding `aux_var`, the command line hands the
preferred solver the encoder of the **admissible sets** (`solve_command.rs`, `create_encoder`), not
the encoder of the complete extensions that `CfgOK .PR` asks for.  The search of `compute_maximal`
(start from the grounded extension, ask for a strict superset in the encoded family until UNSAT) is
correct for both: the grounded extension is admissible, and a ⊆-maximal admissible set is a
preferred extension by definition (`PrefFam`, `wp_computeMaximalF` in `SolvePR.lean`).

* `pr_se_okF` / `prSE_safeF`: SE-PR for an encoder of any family of `PrefFam`;
* `pr_se_ok_adm`, `pr_se_total_adm`: the admissibility encoder (partial and total correctness).
-/

namespace Crusta
open Prog (mkSolver doReserve addClause addClauses getNVars doSolve)

/-- the admissibility encoder describes the admissible sets -/
theorem base_admissible_of {k : EncKind} (h : k = .auxADM) : ∀ af T, k.Base af T ↔ Admissible af T := by
  subst h; intro af T; rfl

/-- **SE-PR** for an encoder of a family whose ⊆-maximal members are the preferred extensions -/
theorem pr_se_okF {F : AF → ASet → Prop} (hF : PrefFam F) (cfg : Cfg) (hk : ∀ af T, cfg.enc.Base af T ↔ F af T)
    (v : FwView) (g : G) (hv : v.Ok g) (w : World) (hb : w.Bounded) :
    wp True (prSE cfg v) w (fun res _ => SEOK .PR g res) := by
  unfold prSE
  simp only [Prog.bind_eq]
  rw [wp_bind]
  refine wp_mono _ _ _ _ ?_ (se_by_components .PR (prMaximalOfComp cfg) v g hv ?_ w hb)
  · rintro res w' ⟨_, hext⟩
    refine ⟨fun e he => ?_, fun h => by cases h⟩
    injection he with he; subst he
    exact (gext_iff .PR g _).2 hext
  · intro c w hb hc
    exact wp_prMaximalOfCompF hF cfg hk c (Comp.af_wf hc) (GrOK_of_wf _ (Comp.af_wf hc)) w hb

/-- SE-PR reaches no crash node, for an encoder of a family of `PrefFam` -/
theorem prSE_safeF {F : AF → ASet → Prop} (hF : PrefFam F) (cfg : Cfg) (hk : ∀ af T, cfg.enc.Base af T ↔ F af T)
    {v : FwView} {g : G} (hv : v.Ok g) (hfuel : cfg.fuel ≥ fuelFor (1 + v.maxId.getD 0))
    (w : World) (hb : w.Bounded) : Safe (prSE cfg v) w := by
  unfold prSE
  simp only [Prog.bind_eq]
  refine Safe.bind (se_safe hv _ ?_ w hb) (fun _ _ h => h)
  intro c w' hb' hc
  exact safe_of_wp hb' (prMaximalOfComp_callsF hF cfg hk c (Comp.af_wf hc) (GrOK_of_wf _ (Comp.af_wf hc)) w' hb'
    (fuel_lin hv hc hfuel))

/-- total correctness of SE-PR for an encoder of a family of `PrefFam` -/
theorem pr_se_totalF {F : AF → ASet → Prop} (hF : PrefFam F) (cfg : Cfg) (hk : ∀ af T, cfg.enc.Base af T ↔ F af T)
    (v : FwView) (g : G) (hv : v.Ok g) (w : World) (hb : w.Bounded)
    (hfuel : cfg.fuel ≥ fuelFor (1 + v.maxId.getD 0)) :
    wp False (prSE cfg v) w (fun res _ => SEOK .PR g res) :=
  wp_mono _ _ _ _ (fun _ _ h => h.2)
    (wp_andT _ w _ _ (prSE_safeF hF cfg hk hv hfuel w hb) (pr_se_okF hF cfg hk v g hv w hb))

/-- **SE-PR with the admissibility encoder** (the combination the command line uses for the
problem string `SE-PR` with `--encoding aux_var`, the default): the answer is a preferred extension -/
theorem pr_se_ok_adm (cfg : Cfg) (henc : cfg.enc = .auxADM) (v : FwView) (g : G) (hv : v.Ok g)
    (w : World) (hb : w.Bounded) :
    wp True (prSE cfg v) w (fun res _ => SEOK .PR g res) :=
  pr_se_okF prefFam_admissible cfg (base_admissible_of henc) v g hv w hb

/-- **SE-PR with the admissibility encoder, total correctness**: no crash node (no modelled panic,
no fuel exhaustion) on sound replies, and the answer is a preferred extension -/
theorem pr_se_total_adm (cfg : Cfg) (henc : cfg.enc = .auxADM) (v : FwView) (g : G) (hv : v.Ok g)
    (w : World) (hb : w.Bounded) (hfuel : cfg.fuel ≥ fuelFor (1 + v.maxId.getD 0)) :
    wp False (prSE cfg v) w (fun res _ => SEOK .PR g res) :=
  pr_se_totalF prefFam_admissible cfg (base_admissible_of henc) v g hv w hb hfuel

end Crusta
