import Crusta.Proofs.Oracle
import Crusta.Proofs.Prog
import Crusta.Model.Solvers
import Crusta.Proofs.StaticAll

/-!
# C06 — answers do not depend on encoding, backend, certificate flag or query order
-/

namespace Crusta.C06
open Crusta

/-- two answers to the same question that both pass the judge have the same status — whatever
encoder, backend, certificate flag or earlier queries produced them (the reference status depends
on the framework and the question only) -/
theorem status_config_invariant (af : AF) (hwf : af.WF) (σ : Sem) (t : Task) (as : List Nat)
    (cert1 cert2 : Bool) (st1 st2 : Bool) (c1 c2 : Option (Option (List Nat)))
    (h1 : checkAnswer af ⟨σ, t, cert1, as⟩ (.acc st1 c1) = .ok ())
    (h2 : checkAnswer af ⟨σ, t, cert2, as⟩ (.acc st2 c2) = .ok ()) : st1 = st2 := by
  rw [checkAnswer_iff af hwf] at h1 h2
  cases t
  · simp [Conforms] at h1
  · simp only [Conforms] at h1 h2; exact status_eq_of_iff h1.1 h2.1
  · simp only [Conforms] at h1 h2; exact status_eq_of_iff h1.1 h2.1

/-- the program a solver runs for a query is a function of (solver, encoder, framework, query)
only: nothing is carried from one query to the next (the hybrid encoder's two cells are
re-initialised by `Hyb.init` at every `encode_*`) -/
theorem query_history_invariant (sk : SolverKind) (cfg : Cfg) (v : FwView) (e : Entry)
    (earlier : List Entry) :
    entryProg sk cfg v e = (fun _ : List Entry => entryProg sk cfg v e) earlier := rfl

/-- the outcome of a program depends on the replies only: two backends returning the same
replies lead to the same answer, and the answer does not depend on the solver-object numbering
or the calls made before (world) -/
theorem outcome_world_invariant {α : Type} (p : Prog α) : ∀ (rs : List Reply) (w1 w2 : World)
    (_h : w1.solvers = w2.solvers),
    (match (interp p rs w1).1, (interp p rs w2).1 with
     | .done a, .done b => a = b
     | .abort, .abort => True
     | .crashed _, .crashed _ => True
     | .starved, .starved => True
     | _, _ => False) := by
  induction p with
  | pure a => intro rs w1 w2 _; simp [interp]
  | crash m => intro rs w1 w2 _; simp [interp]
  | newSolver k ih =>
    intro rs w1 w2 h; simp only [interp]
    have := ih w1.solvers.length rs w1.onNew w2.onNew (by simp [World.onNew, h])
    rw [h] at this ⊢; exact this
  | reserve s n k ih =>
    intro rs w1 w2 h; simp only [interp]
    exact ih rs _ _ (by simp [World.onReserve, World.upd, h])
  | clause s c k ih =>
    intro rs w1 w2 h; simp only [interp]
    exact ih rs _ _ (by simp [World.onClause, World.upd, h])
  | nVars s k ih =>
    intro rs w1 w2 h; simp only [interp]
    have e : w1.nVarsOf s = w2.nVarsOf s := by simp [World.nVarsOf, h]
    rw [e]
    exact ih _ rs _ _ (by simp [World.onNVars, h])
  | solve s a k ih =>
    intro rs w1 w2 h
    cases rs with
    | nil => simp [interp]
    | cons r rs' =>
      cases r with
      | unknown => simp [interp]
      | unsat => simp only [interp]; exact ih none rs' _ _ (by simp [World.onReply, World.onSolve, World.upd, h])
      | sat m => simp only [interp]; exact ih (some m) rs' _ _ (by simp [World.onReply, World.onSolve, World.upd, h])


/-- **C06 on the solver programs**: the status is a function of the semantics, the graph and the
query only.  Two runs of the same query — with different encoders (any of those the solver type is
meant for), different SAT solvers (any sound reply lists), with or without certificate, from
different worlds (i.e. after different histories of earlier queries on the solver object) — return
the same status. -/
theorem status_independent_of_configuration (sk : SolverKind) (v : FwView) (g : G) (hv : v.Ok g)
    (args : List Nat) (hargs : ∀ a ∈ args, g.live a = true)
    (cfg1 cfg2 : Cfg) (h1 : CfgOK sk cfg1) (h2 : CfgOK sk cfg2) (c1 c2 : Bool)
    (w1 w2 : World) (hb1 : w1.Bounded) (hb2 : w2.Bounded) (rs1 rs2 : List Reply)
    (a1 a2 : AccAns) (cv1 cv2 : Bool) (w1' w2' : World) :
    (∀ p1 p2, entryProg sk cfg1 v (.dc c1 args) = some p1 → entryProg sk cfg2 v (.dc c2 args) = some p2 →
      RunSound p1 rs1 w1 → RunSound p2 rs2 w2 →
      interp p1 rs1 w1 = (.done (.acc a1 cv1), w1') → interp p2 rs2 w2 = (.done (.acc a2 cv2), w2') →
      a1.status = a2.status) ∧
    (∀ p1 p2, entryProg sk cfg1 v (.ds c1 args) = some p1 → entryProg sk cfg2 v (.ds c2 args) = some p2 →
      RunSound p1 rs1 w1 → RunSound p2 rs2 w2 →
      interp p1 rs1 w1 = (.done (.acc a1 cv1), w1') → interp p2 rs2 w2 = (.done (.acc a2 cv2), w2') →
      a1.status = a2.status) := by
  constructor
  · intro p1 p2 hp1 hp2 hs1 hs2 hr1 hr2
    obtain ⟨_, hd1, _⟩ := static_answers_conform sk cfg1 h1 v g hv (.dc c1 args) (fun x hx => hargs x hx) p1 hp1 w1 hb1 rs1 hs1 _ w1' hr1
    obtain ⟨_, hd2, _⟩ := static_answers_conform sk cfg2 h2 v g hv (.dc c2 args) (fun x hx => hargs x hx) p2 hp2 w2 hb2 rs2 hs2 _ w2' hr2
    exact (status_determined sk.sem g args c1 c2 a1 a2).1 hd1 hd2
  · intro p1 p2 hp1 hp2 hs1 hs2 hr1 hr2
    obtain ⟨_, hd1, _⟩ := static_answers_conform sk cfg1 h1 v g hv (.ds c1 args) (fun x hx => hargs x hx) p1 hp1 w1 hb1 rs1 hs1 _ w1' hr1
    obtain ⟨_, hd2, _⟩ := static_answers_conform sk cfg2 h2 v g hv (.ds c2 args) (fun x hx => hargs x hx) p2 hp2 w2 hb2 rs2 hs2 _ w2' hr2
    exact (status_determined sk.sem g args c1 c2 a1 a2).2 hd1 hd2

end Crusta.C06
