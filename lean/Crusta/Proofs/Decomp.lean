import Crusta.Proofs.GSem

/-!
# Semantics decompose over a set of arguments that no attack leaves or enters
-/

namespace Crusta

def G.restrict (g : G) (U : Nat → Bool) : G :=
  ⟨fun a => g.live a && U a, fun a b => g.att a b ∧ U a = true ∧ U b = true⟩

/-- no attack relates the inside and the outside of `U` -/
def G.ClosedB (g : G) (U : Nat → Bool) : Prop := ∀ a b, g.att a b → U a = U b

def inter (S : ASet) (U : Nat → Bool) : ASet := fun a => S a && U a
def compl (U : Nat → Bool) : Nat → Bool := fun a => !U a

theorem G.closedB_compl {g : G} {U : Nat → Bool} (h : g.ClosedB U) : g.ClosedB (compl U) := by
  intro a b hab; simp [compl, h a b hab]

@[simp] theorem inter_true (S : ASet) (U : Nat → Bool) (a : Nat) : inter S U a = true ↔ (S a = true ∧ U a = true) := by
  simp [inter]

section
variable {g : G} {U : Nat → Bool}

theorem attackedBy_restrict (hc : g.ClosedB U) (S : ASet) (a : Nat) (ha : U a = true) :
    (g.restrict U).AttackedBy (inter S U) a ↔ g.AttackedBy S a := by
  constructor
  · rintro ⟨b, ⟨hb, _, _⟩, hSb⟩
    exact ⟨b, hb, ((inter_true S U b).1 hSb).1⟩
  · rintro ⟨b, hb, hSb⟩
    have hUb : U b = true := by rw [hc b a hb]; exact ha
    exact ⟨b, ⟨hb, hUb, ha⟩, (inter_true S U b).2 ⟨hSb, hUb⟩⟩

theorem defended_restrict (hc : g.ClosedB U) (S : ASet) (a : Nat) (ha : U a = true) :
    (g.restrict U).Defended (inter S U) a ↔ g.Defended S a := by
  constructor
  · intro h b hb
    have hUb : U b = true := by rw [hc b a hb]; exact ha
    exact (attackedBy_restrict hc S b hUb).1 (h b ⟨hb, hUb, ha⟩)
  · intro h b ⟨hb, hUb, _⟩
    exact (attackedBy_restrict hc S b hUb).2 (h b hb)

theorem cf_split (hc : g.ClosedB U) (S : ASet) :
    g.CF S ↔ ((g.restrict U).CF (inter S U) ∧ (g.restrict (compl U)).CF (inter S (compl U))) := by
  have hc' := G.closedB_compl hc
  constructor
  · rintro ⟨h1, h2⟩
    refine ⟨⟨?_, ?_⟩, ⟨?_, ?_⟩⟩
    · intro a ha
      obtain ⟨hS, hU⟩ := (inter_true _ _ a).1 ha
      simp [G.restrict, h1 a hS, hU]
    · intro a ha hatt
      obtain ⟨hS, hU⟩ := (inter_true _ _ a).1 ha
      exact h2 a hS ((attackedBy_restrict hc S a hU).1 hatt)
    · intro a ha
      obtain ⟨hS, hU⟩ := (inter_true _ _ a).1 ha
      simp [G.restrict, h1 a hS, hU]
    · intro a ha hatt
      obtain ⟨hS, hU⟩ := (inter_true _ _ a).1 ha
      exact h2 a hS ((attackedBy_restrict hc' S a hU).1 hatt)
  · rintro ⟨⟨h1, h2⟩, ⟨h3, h4⟩⟩
    refine ⟨?_, ?_⟩
    · intro a ha
      cases hU : U a with
      | true =>
        have := h1 a ((inter_true _ _ a).2 ⟨ha, hU⟩)
        simp [G.restrict] at this; exact this.1
      | false =>
        have := h3 a ((inter_true _ _ a).2 ⟨ha, by simp [compl, hU]⟩)
        simp [G.restrict] at this; exact this.1
    · intro a ha hatt
      cases hU : U a with
      | true => exact h2 a ((inter_true _ _ a).2 ⟨ha, hU⟩) ((attackedBy_restrict hc S a hU).2 hatt)
      | false =>
        have hU' : compl U a = true := by simp [compl, hU]
        exact h4 a ((inter_true _ _ a).2 ⟨ha, hU'⟩) ((attackedBy_restrict hc' S a hU').2 hatt)

theorem adm_split (hc : g.ClosedB U) (S : ASet) :
    g.Admissible S ↔ ((g.restrict U).Admissible (inter S U) ∧ (g.restrict (compl U)).Admissible (inter S (compl U))) := by
  have hc' := G.closedB_compl hc
  unfold G.Admissible
  rw [cf_split hc S]
  constructor
  · rintro ⟨⟨h1, h2⟩, h3⟩
    refine ⟨⟨h1, ?_⟩, ⟨h2, ?_⟩⟩
    · intro a ha
      obtain ⟨hS, hU⟩ := (inter_true _ _ a).1 ha
      exact (defended_restrict hc S a hU).2 (h3 a hS)
    · intro a ha
      obtain ⟨hS, hU⟩ := (inter_true _ _ a).1 ha
      exact (defended_restrict hc' S a hU).2 (h3 a hS)
  · rintro ⟨⟨h1, h2⟩, ⟨h3, h4⟩⟩
    refine ⟨⟨h1, h3⟩, ?_⟩
    intro a ha
    cases hU : U a with
    | true => exact (defended_restrict hc S a hU).1 (h2 a ((inter_true _ _ a).2 ⟨ha, hU⟩))
    | false =>
      have hU' : compl U a = true := by simp [compl, hU]
      exact (defended_restrict hc' S a hU').1 (h4 a ((inter_true _ _ a).2 ⟨ha, hU'⟩))

theorem complete_split (hc : g.ClosedB U) (S : ASet) :
    g.Complete S ↔ ((g.restrict U).Complete (inter S U) ∧ (g.restrict (compl U)).Complete (inter S (compl U))) := by
  have hc' := G.closedB_compl hc
  unfold G.Complete
  rw [adm_split hc S]
  constructor
  · rintro ⟨⟨h1, h2⟩, h3⟩
    refine ⟨⟨h1, ?_⟩, ⟨h2, ?_⟩⟩
    · intro a ha hd
      simp only [G.restrict, Bool.and_eq_true] at ha
      exact (inter_true _ _ a).2 ⟨h3 a ha.1 ((defended_restrict hc S a ha.2).1 hd), ha.2⟩
    · intro a ha hd
      simp only [G.restrict, Bool.and_eq_true] at ha
      exact (inter_true _ _ a).2 ⟨h3 a ha.1 ((defended_restrict hc' S a ha.2).1 hd), ha.2⟩
  · rintro ⟨⟨h1, h2⟩, ⟨h3, h4⟩⟩
    refine ⟨⟨h1, h3⟩, ?_⟩
    intro a ha hd
    cases hU : U a with
    | true =>
      have := h2 a (by simp [G.restrict, ha, hU]) ((defended_restrict hc S a hU).2 hd)
      exact ((inter_true _ _ a).1 this).1
    | false =>
      have hU' : compl U a = true := by simp [compl, hU]
      have := h4 a (by simp [G.restrict, ha, hU']) ((defended_restrict hc' S a hU').2 hd)
      exact ((inter_true _ _ a).1 this).1

theorem stable_split (hc : g.ClosedB U) (S : ASet) :
    g.Stable S ↔ ((g.restrict U).Stable (inter S U) ∧ (g.restrict (compl U)).Stable (inter S (compl U))) := by
  have hc' := G.closedB_compl hc
  unfold G.Stable
  rw [cf_split hc S]
  constructor
  · rintro ⟨⟨h1, h2⟩, h3⟩
    refine ⟨⟨h1, ?_⟩, ⟨h2, ?_⟩⟩
    · intro a ha hn
      simp only [G.restrict, Bool.and_eq_true] at ha
      have : S a = false := by
        cases hS : S a with
        | false => rfl
        | true => have := (inter_true S U a).2 ⟨hS, ha.2⟩; rw [this] at hn; cases hn
      exact (attackedBy_restrict hc S a ha.2).2 (h3 a ha.1 this)
    · intro a ha hn
      simp only [G.restrict, Bool.and_eq_true] at ha
      have : S a = false := by
        cases hS : S a with
        | false => rfl
        | true => have := (inter_true S (compl U) a).2 ⟨hS, ha.2⟩; rw [this] at hn; cases hn
      exact (attackedBy_restrict hc' S a ha.2).2 (h3 a ha.1 this)
  · rintro ⟨⟨h1, h2⟩, ⟨h3, h4⟩⟩
    refine ⟨⟨h1, h3⟩, ?_⟩
    intro a ha hn
    cases hU : U a with
    | true =>
      exact (attackedBy_restrict hc S a hU).1 (h2 a (by simp [G.restrict, ha, hU]) (by simp [inter, hn]))
    | false =>
      have hU' : compl U a = true := by simp [compl, hU]
      exact (attackedBy_restrict hc' S a hU').1 (h4 a (by simp [G.restrict, ha, hU']) (by simp [inter, hn]))

end

end Crusta
