//! Framework construction from a case specification, and canonical dumps.
use crustabri::aa::AAFramework;
use crustabri::io::{Iccma23Reader, InstanceReader};
use std::collections::HashMap;

#[derive(Clone, Debug)]
pub enum Op {
    NewArg(usize),
    RemArg(usize),
    NewAtt(usize, usize),
    RemAtt(usize, usize),
}

pub fn parse_ops(s: &str) -> Vec<Op> {
    s.split(';')
        .filter(|t| !t.is_empty())
        .map(|t| {
            let (c, rest) = t.split_at(1);
            match c {
                "A" => Op::NewArg(rest.parse().unwrap()),
                "R" => Op::RemArg(rest.parse().unwrap()),
                "+" | "-" => {
                    let mut it = rest.split('>');
                    let a = it.next().unwrap().parse().unwrap();
                    let b = it.next().unwrap().parse().unwrap();
                    if c == "+" {
                        Op::NewAtt(a, b)
                    } else {
                        Op::RemAtt(a, b)
                    }
                }
                _ => panic!("bad op {}", t),
            }
        })
        .collect()
}

pub fn apply_op(af: &mut AAFramework<usize>, op: &Op) -> bool {
    match op {
        Op::NewArg(l) => {
            af.new_argument(*l);
            true
        }
        Op::RemArg(l) => af.remove_argument(l).is_ok(),
        Op::NewAtt(a, b) => af.new_attack(a, b).is_ok(),
        Op::RemAtt(a, b) => af.remove_attack(a, b).is_ok(),
    }
}

pub fn iccma_text(n: usize, atts: &[(usize, usize)]) -> String {
    let mut s = format!("p af {}\n", n);
    for (a, b) in atts {
        s.push_str(&format!("{} {}\n", a, b));
    }
    s
}

pub fn parse_att_list(s: &str) -> Vec<(usize, usize)> {
    s.split(',')
        .filter(|t| !t.is_empty())
        .map(|t| {
            let mut it = t.split('>');
            (
                it.next().unwrap().parse().unwrap(),
                it.next().unwrap().parse().unwrap(),
            )
        })
        .collect()
}

/// `h:<ops>` (history on an empty framework) or `i:<n>:<a>b,...>` (ICCMA text through the reader)
pub fn build(spec: &str) -> AAFramework<usize> {
    if let Some(rest) = spec.strip_prefix("h:") {
        let mut af = AAFramework::default();
        for op in parse_ops(rest) {
            apply_op(&mut af, &op);
        }
        af
    } else if let Some(rest) = spec.strip_prefix("i:") {
        let mut it = rest.splitn(2, ':');
        let n: usize = it.next().unwrap().parse().unwrap();
        let atts = parse_att_list(it.next().unwrap_or(""));
        let text = iccma_text(n, &atts);
        Iccma23Reader::default()
            .read(&mut text.as_bytes())
            .expect("iccma text must be readable")
    } else {
        panic!("bad framework spec {}", spec)
    }
}

/// label -> dense rank among live arguments in id order
pub fn dense_map(af: &AAFramework<usize>) -> HashMap<usize, usize> {
    af.argument_set()
        .iter()
        .enumerate()
        .map(|(i, a)| (*a.label(), i))
        .collect()
}

/// `fw n=<k> labels=.. ids=.. atts=i>j,..` with dense indices, attacks in iter_attacks order
pub fn dump_dense(af: &AAFramework<usize>) -> String {
    let dm = dense_map(af);
    let labels = af
        .argument_set()
        .iter()
        .map(|a| a.label().to_string())
        .collect::<Vec<_>>()
        .join(",");
    let ids = af
        .argument_set()
        .iter()
        .map(|a| a.id().to_string())
        .collect::<Vec<_>>()
        .join(",");
    let atts = af
        .iter_attacks()
        .map(|att| format!("{}>{}", dm[att.attacker().label()], dm[att.attacked().label()]))
        .collect::<Vec<_>>()
        .join(",");
    format!("fw n={} labels={} ids={} atts={}", af.n_arguments(), labels, ids, atts)
}
