import Crusta.Proofs.Calls
import Crusta.Model.DynAtt

/-!
# SAT calls of the dynamic solvers, for arbitrary replies (C18, dynamic part)

`Bounded p n` (`Calls.lean`): whatever the replies (sound or not, `unknown` included, reply list
exhausted or not), running `p` makes at most `n` SAT calls.  Here: the programs of `Model/Dyn.lean`
and `Model/DynAtt.lean`.

* the replay of the buffer (`update_encoding`) and the cache path make no SAT call;
* a credulous query and a skeptical query of the stable solver make at most **one** call;
* each iteration of the loop of the preferred solver makes at most one call, so the preferred
  skeptical query is bounded by the fuel of the model's loop.
-/

namespace Crusta.Dyn
open Prog (addClause addClauses getNVars doSolve)

attribute [local simp] Prog.bind_eq Prog.pure_eq

theorem bounded_addClause (s : Nat) (c : Clause) : Bounded (addClause s c) 0 :=
  bounded_clause (bounded_pure _ _)

theorem bounded_newSolverVar (e : Enc) (t : VarType) : Bounded (newSolverVar e t) 0 :=
  bounded_nVars (fun _ => bounded_pure _ _)

theorem bounded_removeSelector (e : Enc) (s : Nat) : Bounded (removeSelector e s) 0 := by
  unfold removeSelector
  apply bounded_bind_free (bounded_addClause _ _); intro _
  split
  · exact bounded_crash _ _
  · exact bounded_pure _ _

theorem bounded_dropSel (e : Enc) (to : Nat) : Bounded (dropSel e to) 0 := by
  unfold dropSel
  split
  · apply bounded_bind_free (bounded_removeSelector _ _); intro _; exact bounded_pure _ _
  · exact bounded_pure _ _

theorem bounded_emitAttackClauses (st : Store) (e : Enc) (to sv : Nat) : Bounded (emitAttackClauses st e to sv) 0 := by
  unfold emitAttackClauses
  split
  · exact bounded_crash _ _
  · split
    · apply bounded_bind_free (bounded_addClauses _ _); intro _; exact bounded_pure _ _
    · exact bounded_crash _ _

theorem bounded_updateAttacksTo (st : Store) (e : Enc) (to : Nat) : Bounded (updateAttacksTo st e to) 0 := by
  unfold updateAttacksTo
  split
  · exact bounded_pure _ _
  · split
    · exact bounded_crash _ _
    · apply bounded_bind_free (bounded_dropSel _ _); intro _
      apply bounded_bind_free (bounded_newSolverVar _ _); intro _
      exact bounded_emitAttackClauses _ _ _ _

theorem bounded_foldProg {α β : Type} (f : β → α → Prog β) (hf : ∀ b a, Bounded (f b a) 0) :
    ∀ (l : List α) (b : β), Bounded (foldProg f l b) 0
  | [], b => bounded_pure _ _
  | a :: r, b => by
    unfold foldProg
    apply bounded_bind_free (hf b a); intro b'
    exact bounded_foldProg f hf r b'

theorem bounded_allocArg (e : Enc) (id : Nat) : Bounded (allocArg e id) 0 := by
  unfold allocArg
  apply bounded_bind_free (bounded_newSolverVar _ _); intro r
  split
  · exact bounded_pure _ _
  · apply bounded_bind_free (bounded_newSolverVar _ _); intro r'
    apply bounded_bind_free (bounded_addClause _ _); intro _
    exact bounded_pure _ _

theorem bounded_encNewArgument (st : Store) (e : Enc) (l : Nat) : Bounded (encNewArgument st e l) 0 := by
  unfold encNewArgument
  split
  · exact bounded_crash _ _
  · apply bounded_bind_free (bounded_allocArg _ _); intro _
    apply bounded_bind_free (bounded_updateAttacksTo _ _ _); intro _
    exact bounded_pure _ _

theorem bounded_forgetArg (e : Enc) (id v : Nat) : Bounded (forgetArg e id v) 0 := by
  unfold forgetArg
  apply bounded_bind_free (bounded_dropSel _ _); intro _
  apply bounded_bind_free (bounded_addClause _ _); intro _
  exact bounded_pure _ _

theorem bounded_encRemoveArgument (st : Store) (e : Enc) (l : Nat) : Bounded (encRemoveArgument st e l) 0 := by
  unfold encRemoveArgument
  split
  · exact bounded_crash _ _
  · split
    · split
      · exact bounded_crash _ _
      · apply bounded_bind_free (bounded_forgetArg _ _ _); intro _
        apply bounded_bind_free (bounded_foldProg _ (fun b a => bounded_updateAttacksTo _ b a) _ _); intro _
        exact bounded_pure _ _
    · exact bounded_crash _ _

theorem bounded_encAttack (add : Bool) (st : Store) (e : Enc) (a b : Nat) : Bounded (encAttack add st e a b) 0 := by
  unfold encAttack
  split
  · split
    · exact bounded_crash _ _
    · apply bounded_bind_free (bounded_updateAttacksTo _ _ _); intro _
      exact bounded_pure _ _
  · exact bounded_crash _ _

theorem bounded_needArg (st : Store) (l : Nat) : Bounded (needArg st l) 0 := by
  unfold needArg
  split
  · exact bounded_pure _ _
  · exact bounded_crash _ _

theorem bounded_replayEvent (r : Replay) (ev : Event) : Bounded (replayEvent r ev) 0 := by
  cases ev with
  | newArg l =>
    unfold replayEvent
    apply bounded_bind_free (bounded_encNewArgument _ _ _); intro _
    apply bounded_bind_free (bounded_needArg _ _); intro _
    exact bounded_pure _ _
  | remArg l =>
    unfold replayEvent
    apply bounded_bind_free (bounded_needArg _ _); intro _
    apply bounded_bind_free (bounded_encRemoveArgument _ _ _); intro _
    exact bounded_pure _ _
  | newAtt a b =>
    unfold replayEvent
    apply bounded_bind_free (bounded_encAttack _ _ _ _ _); intro _
    apply bounded_bind_free (bounded_needArg _ _); intro _
    exact bounded_pure _ _
  | remAtt a b =>
    unfold replayEvent
    apply bounded_bind_free (bounded_encAttack _ _ _ _ _); intro _
    apply bounded_bind_free (bounded_needArg _ _); intro _
    exact bounded_pure _ _
  | cred _ _ _ => exact bounded_pure _ _
  | skep _ _ _ => exact bounded_pure _ _

/-- `update_encoding` (the replay of the buffered updates) makes no SAT call -/
theorem bounded_updateEncoding (d : DState) : Bounded d.updateEncoding 0 := by
  unfold DState.updateEncoding
  apply bounded_bind_free (bounded_foldProg _ bounded_replayEvent _ _); intro r
  apply bounded_bind_free (bounded_foldProg _ (fun b a => bounded_updateAttacksTo _ b a) _ _); intro _
  exact bounded_pure _ _

theorem bounded_needLabels (st : Store) (ids : List Nat) : Bounded (needLabels st ids) 0 := by
  unfold needLabels
  split
  · exact bounded_pure _ _
  · exact bounded_crash _ _

theorem bounded_argLit (d : DState) (l : Nat) : Bounded (d.argLit l) 0 := by
  unfold DState.argLit
  split
  · exact bounded_crash _ _
  · split
    · exact bounded_pure _ _
    · exact bounded_crash _ _

/-- the cache path makes no SAT call -/
theorem bounded_fromCache (d : DState) (b : Bool) (e : List Nat) : Bounded (fromCache d b e) 0 := by
  unfold fromCache
  apply bounded_bind_free (bounded_needLabels _ _); intro _
  exact bounded_pure _ _

theorem bounded_credSolve (d : DState) (l : Nat) : Bounded (credSolve d l) 1 := by
  unfold credSolve
  apply bounded_bind_free (bounded_argLit _ _); intro x
  apply bounded_solve; intro r
  cases r with
  | none => exact bounded_pure _ _
  | some m =>
    apply bounded_bind_free (bounded_needLabels _ _); intro _
    apply bounded_bind_free (bounded_needLabels _ _); intro _
    exact bounded_pure _ _

/-- **a credulous query (complete and stable dynamic solvers) makes at most one SAT call** -/
theorem dyn_cred_bounded (d : DState) (l : Nat) : Bounded (credQuery d l) 1 := by
  unfold credQuery
  split
  · exact (bounded_fromCache _ _ _).mono (by omega)
  · apply bounded_bind_free (bounded_updateEncoding _); intro d'
    exact bounded_credSolve d' l

theorem bounded_stSkepSolve (d : DState) (l : Nat) : Bounded (stSkepSolve d l) 1 := by
  unfold stSkepSolve
  apply bounded_bind_free (bounded_argLit _ _); intro x
  apply bounded_solve; intro r
  cases r with
  | none =>
    apply bounded_bind_free (bounded_needArg _ _); intro _
    apply bounded_bind_free (bounded_needLabels _ _); intro _
    exact bounded_pure _ _
  | some m =>
    apply bounded_bind_free (bounded_needLabels _ _); intro _
    apply bounded_bind_free (bounded_needLabels _ _); intro _
    exact bounded_pure _ _

/-- **a skeptical query of the stable dynamic solver makes at most one SAT call** -/
theorem dyn_stSkep_bounded (d : DState) (l : Nat) : Bounded (stSkepQuery d l) 1 := by
  unfold stSkepQuery
  split
  · exact (bounded_fromCache _ _ _).mono (by omega)
  · apply bounded_bind_free (bounded_updateEncoding _); intro d'
    exact bounded_stSkepSolve d' l

/-! ## the preferred solver -/

theorem bounded_block (d : DState) (m : DMEC) : Bounded (m.block d) 0 := by
  unfold DMEC.block
  split
  · exact bounded_crash _ _
  · simp only [Prog.bind_eq]
    apply bounded_bind_free (bounded_addClause _ _); intro _
    exact bounded_pure _ _

theorem bounded_dsolve (d : DState) (m : DMEC) (as : List Lit) : Bounded (m.solve d as) 1 := by
  unfold DMEC.solve
  simp only [Prog.bind_eq, Prog.doSolve, Prog.bind]
  apply bounded_solve; intro r
  cases r with
  | none => exact bounded_pure _ _
  | some mdl =>
    apply bounded_bind_free (bounded_needLabels _ _); intro _
    exact bounded_pure _ _

theorem bounded_newSearch (d : DState) (m : DMEC) : Bounded (m.newSearch d) 1 := by
  unfold DMEC.newSearch
  simp only [Prog.bind_eq]
  have := bounded_bind (bounded_dsolve d m [nl m.sel]) (m := 0)
    (f := fun r => match r with
      | some ext => Prog.pure { m with cur := ext, state := .intermediate }
      | none => Prog.pure { m with state := .none })
    (fun r => by cases r <;> exact bounded_pure _ _)
  exact this

/-- `compute_next` makes at most one SAT call -/
theorem bounded_computeNext (d : DState) (m : DMEC) : Bounded (m.computeNext d) 1 := by
  unfold DMEC.computeNext
  split
  · exact bounded_pure _ _
  · simp only [Prog.bind_eq]
    apply bounded_bind_free (bounded_block _ _); intro as
    have := bounded_bind (bounded_dsolve d m as) (m := 0)
      (f := fun r => match r with
        | some ext => Prog.pure { m with cur := ext, state := .intermediate }
        | none => Prog.pure { m with state := .maximal })
      (fun r => by cases r <;> exact bounded_pure _ _)
    exact this
  · simp only [Prog.bind_eq]
    apply bounded_bind_free (bounded_block _ _); intro _
    exact bounded_newSearch _ _
  · exact bounded_newSearch _ _
  · exact bounded_crash _ _

/-- each iteration of the loop makes at most one SAT call -/
theorem bounded_prLoop (d : DState) (argId len : Nat) : ∀ (fuel : Nat) (m : DMEC) (st : PrSt),
    Bounded (prLoop d argId len fuel m st) fuel
  | 0, _, _ => bounded_crash _ _
  | fuel + 1, m, st => by
    unfold prLoop
    simp only [Prog.bind_eq]
    rw [Nat.add_comm]
    apply bounded_bind (bounded_computeNext d m); intro m'
    split
    · split
      · exact bounded_pure _ _
      · exact bounded_prLoop d argId len fuel _ _
    · split
      · apply bounded_bind_free (bounded_block _ _); intro _
        exact bounded_prLoop d argId len fuel _ _
      · exact bounded_prLoop d argId len fuel _ _
    · exact bounded_pure _ _
    · exact bounded_prLoop d argId len fuel _ _

/-- **the skeptical query of the preferred dynamic solver is bounded by the fuel of its loop**: at
most one SAT call per iteration, none outside the loop -/
theorem dyn_prSkep_bounded_fuel (fuel : Nat) (d : DState) (l : Nat) : Bounded (prSkepQuery fuel d l) fuel := by
  unfold prSkepQuery
  split
  · exact (bounded_fromCache _ _ _).mono (by omega)
  · simp only [Prog.bind_eq, Prog.getNVars]
    apply bounded_bind_free (bounded_updateEncoding _); intro d'
    apply bounded_bind_free (bounded_nVars (fun _ => bounded_pure _ _)); intro nv
    apply bounded_bind_free (bounded_needArg _ _); intro argId
    have := bounded_bind (bounded_prLoop d' argId (1 + d'.af.maxId.getD 0) fuel
      { sel := nv + 1, additional := d'.enc.assumptions }
      { missing := List.replicate (1 + d'.af.maxId.getD 0) false }) (m := 0)
      (f := fun r => (addClause 0 [pl r.1.sel]).bind fun _ =>
        Prog.pure ({ d' with buffer := d'.buffer ++ [Event.skep (boolLabels d' r.2.2.1) (boolLabels d' r.2.2.2.1) r.2.2.2.2] },
          (⟨r.2.1, r.2.2.2.2⟩ : AccAns)))
      (fun r => by
        apply bounded_bind_free (bounded_addClause _ _); intro _
        exact bounded_pure _ _)
    exact this

/-- **the complete and the stable dynamic solver make at most one SAT call per query** (the fuel is
irrelevant: only the preferred solver has a loop) -/
theorem dyn_query_bounded_co_st (fuel : Nat) (d : DState) (q : DQuery) (l : Nat) (h : d.enc.sem ≠ .PR) :
    Bounded (query fuel d q l) 1 := by
  unfold query
  cases hs : d.enc.sem <;> cases q <;> simp only
  · exact dyn_cred_bounded d l
  · exact bounded_crash _ _
  · exact dyn_cred_bounded d l
  · exact dyn_stSkep_bounded d l
  · exact absurd hs h
  · exact absurd hs h

/-- whatever the semantics: a query is bounded by `max 1 fuel` -/
theorem dyn_query_bounded (fuel : Nat) (d : DState) (q : DQuery) (l : Nat) :
    Bounded (query fuel d q l) (max 1 fuel) := by
  unfold query
  split
  · exact (dyn_cred_bounded d l).mono (by omega)
  · exact (dyn_cred_bounded d l).mono (by omega)
  · exact (dyn_stSkep_bounded d l).mono (by omega)
  · exact (dyn_prSkep_bounded_fuel fuel d l).mono (by omega)
  · exact bounded_crash _ _

end Crusta.Dyn

namespace Crusta.DynAtt
open Prog (addClause addClauses)
open Crusta.Dyn (DSem Event UpdRes cachedCred cachedSkep foldProg needArg needLabels)
open Crusta.Dyn (bounded_addClause bounded_foldProg bounded_needArg bounded_needLabels)

attribute [local simp] Prog.bind_eq Prog.pure_eq

theorem bounded_assumptions (e : AEnc) (st : Store) : Bounded (e.assumptions st) 0 := by
  unfold AEnc.assumptions
  split
  · exact bounded_pure _ _
  · exact bounded_crash _ _

theorem bounded_encNewArgument (st : Store) (e : AEnc) (l : Nat) : Bounded (encNewArgument st e l) 0 := by
  unfold encNewArgument
  simp only
  split
  · exact bounded_pure _ _
  · split
    · exact bounded_crash _ _
    · split
      · exact bounded_crash _ _
      · split
        · split
          · exact bounded_crash _ _
          · exact bounded_pure _ _
        · exact bounded_pure _ _

theorem bounded_encRemoveArgument (st : Store) (e : AEnc) (l : Nat) : Bounded (encRemoveArgument st e l) 0 := by
  unfold encRemoveArgument
  split
  · exact bounded_crash _ _
  · split
    · split
      · split
        · split
          · exact bounded_crash _ _
          · apply bounded_bind_free (bounded_addClause _ _); intro _
            exact bounded_pure _ _
        · exact bounded_pure _ _
      · exact bounded_pure _ _
    · exact bounded_crash _ _

theorem bounded_encAttack (add : Bool) (st : Store) (e : AEnc) (a b : Nat) : Bounded (encAttack add st e a b) 0 := by
  unfold encAttack
  split
  · exact bounded_pure _ _
  · exact bounded_crash _ _

theorem bounded_replayEvent (r : Store × AEnc) (ev : Event) : Bounded (replayEvent r ev) 0 := by
  cases ev with
  | newArg l => exact bounded_encNewArgument _ _ _
  | remArg l => exact bounded_encRemoveArgument _ _ _
  | newAtt a b => exact bounded_encAttack _ _ _ _ _
  | remAtt a b => exact bounded_encAttack _ _ _ _ _
  | cred _ _ _ => exact bounded_pure _ _
  | skep _ _ _ => exact bounded_pure _ _

theorem bounded_auxLoop (k : Nat) (cell : Nat → Nat → Cnf) : ∀ (l : List Nat) (acc : Clause),
    Bounded (auxLoop k cell l acc) 0
  | [], _ => bounded_pure _ _
  | a :: rest, acc => by
    unfold auxLoop
    apply bounded_nVars; intro nv
    apply bounded_bind_free (bounded_addClauses _ _); intro _
    exact bounded_auxLoop k cell rest _

theorem bounded_rowLoop (k n : Nat) (pre : Nat → Cnf) (head : Nat → Lit) (cell : Nat → Nat → Nat → Cnf) :
    ∀ (l : List Nat), Bounded (rowLoop k n pre head cell l) 0
  | [] => bounded_pure _ _
  | x :: rest => by
    unfold rowLoop
    apply bounded_bind_free (bounded_addClauses _ _); intro _
    apply bounded_bind_free (bounded_auxLoop _ _ _ _); intro c
    exact bounded_clause (bounded_rowLoop k n pre head cell rest)

/-- the re-encoding on a new solver makes no SAT call -/
theorem bounded_encUpdateEncoding (e : AEnc) (st : Store) : Bounded (e.updateEncoding st) 0 := by
  unfold AEnc.updateEncoding
  split
  · exact bounded_crash _ _
  · split
    · exact bounded_pure _ _
    · simp only
      split
      · exact bounded_crash _ _
      · apply bounded_newSolver; intro k
        split
        · apply bounded_reserve
          apply bounded_bind_free (bounded_rowLoop _ _ _ _ _ _); intro _
          exact bounded_pure _ _
        · apply bounded_reserve
          apply bounded_bind_free (bounded_rowLoop _ _ _ _ _ _); intro _
          apply bounded_bind_free (bounded_rowLoop _ _ _ _ _ _); intro _
          exact bounded_pure _ _

theorem bounded_updateEncoding (d : ADState) : Bounded d.updateEncoding 0 := by
  unfold ADState.updateEncoding
  apply bounded_bind_free (bounded_foldProg _ bounded_replayEvent _ _); intro r
  apply bounded_bind_free (bounded_encUpdateEncoding _ _); intro _
  exact bounded_pure _ _

theorem bounded_argLit (d : ADState) (l : Nat) : Bounded (d.argLit l) 0 := by
  unfold ADState.argLit
  split
  · exact bounded_crash _ _
  · split
    · exact bounded_pure _ _
    · exact bounded_crash _ _

theorem bounded_fromCache (d : ADState) (b : Bool) (e : List Nat) : Bounded (fromCache d b e) 0 := by
  unfold fromCache
  apply bounded_bind_free (bounded_needLabels _ _); intro _
  exact bounded_pure _ _

theorem bounded_credSolve (d : ADState) (l : Nat) : Bounded (credSolve d l) 1 := by
  unfold credSolve
  apply bounded_bind_free (bounded_assumptions _ _); intro as
  apply bounded_bind_free (bounded_argLit _ _); intro x
  apply bounded_solve; intro r
  cases r with
  | none => exact bounded_pure _ _
  | some m =>
    apply bounded_bind_free (bounded_needLabels _ _); intro _
    apply bounded_bind_free (bounded_needLabels _ _); intro _
    exact bounded_pure _ _

theorem dynatt_cred_bounded (d : ADState) (l : Nat) : Bounded (credQuery d l) 1 := by
  unfold credQuery
  split
  · exact (bounded_fromCache _ _ _).mono (by omega)
  · apply bounded_bind_free (bounded_updateEncoding _); intro d'
    exact bounded_credSolve d' l

theorem bounded_stSkepSolve (d : ADState) (l : Nat) : Bounded (stSkepSolve d l) 1 := by
  unfold stSkepSolve
  apply bounded_bind_free (bounded_assumptions _ _); intro as
  apply bounded_bind_free (bounded_argLit _ _); intro x
  apply bounded_solve; intro r
  cases r with
  | none =>
    apply bounded_bind_free (bounded_needArg _ _); intro _
    apply bounded_bind_free (bounded_needLabels _ _); intro _
    exact bounded_pure _ _
  | some m =>
    apply bounded_bind_free (bounded_needLabels _ _); intro _
    apply bounded_bind_free (bounded_needLabels _ _); intro _
    exact bounded_pure _ _

theorem dynatt_stSkep_bounded (d : ADState) (l : Nat) : Bounded (stSkepQuery d l) 1 := by
  unfold stSkepQuery
  split
  · exact (bounded_fromCache _ _ _).mono (by omega)
  · apply bounded_bind_free (bounded_updateEncoding _); intro d'
    exact bounded_stSkepSolve d' l

/-- **the assumptions-on-attacks dynamic solvers make at most one SAT call per query** -/
theorem dynatt_query_bounded (d : ADState) (q : Crusta.Dyn.DQuery) (l : Nat) : Bounded (query d q l) 1 := by
  unfold query
  split
  · exact dynatt_cred_bounded d l
  · exact dynatt_cred_bounded d l
  · exact dynatt_stSkep_bounded d l
  · exact bounded_crash _ _

end Crusta.DynAtt
