import Crusta.Model.Cli
import Crusta.Gen.Problem
import Crusta.Gen.Dispatch
import Crusta.Gen.Wrapper
import Crusta.Proofs.Oracle
import Crusta.Proofs.CliCompose
import Crusta.Proofs.CliFile
import Crusta.Proofs.CliApx
import Crusta.Proofs.CliOut

/-!
# C05 — the command-line tools print exactly the right answer, or none (property theorems)
-/

namespace Crusta.C05
open Crusta Crusta.Cli

/-- exactly 21 problems are listed -/
theorem problems_21 : problemStrings.length = 21 ∧ problemsLower.length = 21 := by decide

theorem lowerChar_idem (c : Nat) : lowerChar (lowerChar c) = lowerChar c := by
  unfold lowerChar; split <;> (try split) <;> omega

theorem lower_idem (s : Str) : lower (lower s) = lower s := by
  unfold lower; rw [List.map_map]; congr 1; funext c; exact lowerChar_idem c

theorem lowerChar_hyphen (c : Nat) : lowerChar c = 45 ↔ c = 45 := by
  unfold lowerChar; split <;> omega

theorem splitHyphen_lower (s : Str) :
    splitHyphen (lower s) = (splitHyphen s).map (fun p => (lower p.1, lower p.2)) := by
  induction s with
  | nil => rfl
  | cons c cs ih =>
    simp only [lower, List.map_cons, splitHyphen]
    by_cases h : c = 45
    · subst h; simp [lowerChar]
    · have : ¬ lowerChar c = 45 := fun e => h ((lowerChar_hyphen c).1 e)
      simp only [h, this, if_false]
      have ih' := ih; unfold lower at ih'
      rw [ih']
      cases splitHyphen cs <;> simp [lower]

theorem queryOf_lower (s : Str) : Cli.queryOf (lower s) = Cli.queryOf s := by
  unfold Cli.queryOf; rw [lower_idem]

theorem semOf_lower (s : Str) : semOf (lower s) = semOf s := by
  unfold semOf; rw [lower_idem]

/-- **case-insensitive**: a problem string and its ASCII-lowercase form are parsed identically -/
theorem read_lower (s : Str) : readProblem (lower s) = readProblem s := by
  unfold readProblem
  rw [splitHyphen_lower]
  cases splitHyphen s with
  | none => rfl
  | some p => simp only [Option.map_some, queryOf_lower, semOf_lower]

theorem splitHyphen_join (q sem : Str) (hq : ∀ c ∈ q, c ≠ 45) :
    splitHyphen (q ++ [45] ++ sem) = some (q, sem) := by
  induction q with
  | nil => simp [splitHyphen]
  | cons c cs ih =>
    have hc : c ≠ 45 := hq c (List.mem_cons_self ..)
    simp only [List.cons_append, splitHyphen, hc, if_false]
    have := ih (fun d hd => hq d (List.mem_cons_of_mem _ hd))
    simp only [List.append_assoc, List.cons_append, List.nil_append] at this ⊢
    rw [this]; rfl

theorem splitHyphen_eq (s q sem : Str) (h : splitHyphen s = some (q, sem)) : s = q ++ [45] ++ sem := by
  induction s generalizing q with
  | nil => simp [splitHyphen] at h
  | cons c cs ih =>
    simp only [splitHyphen] at h
    by_cases hc : c = 45
    · subst hc; simp at h; obtain ⟨rfl, rfl⟩ := h; rfl
    · simp only [hc, if_false, Option.map_eq_some_iff] at h
      obtain ⟨⟨q', s'⟩, hp, he⟩ := h
      simp only [Prod.mk.injEq] at he
      obtain ⟨rfl, rfl⟩ := he
      rw [ih q' hp]; rfl

theorem queryOf_some (q : Str) (t : Task) (h : Cli.queryOf q = some t) : lower q = taskLower t := by
  unfold Cli.queryOf at h
  simp only at h
  split at h
  · injection h with h; subst h; assumption
  · split at h
    · injection h with h; subst h; assumption
    · split at h
      · injection h with h; subst h; assumption
      · cases h

theorem semOf_some (q : Str) (σ : Sem) (h : semOf q = some σ) : lower q = semLower σ := by
  unfold semOf at h
  simp only at h
  repeat (first | (split at h; · (injection h with h; subst h; assumption)) | cases h)

/-- **the problems accepted are exactly the 21 listed ones, case-insensitively**: a string is
accepted iff its ASCII-lowercase form is one of the 21 `query-semantics` strings -/
theorem problem_parse_iff (s : Str) : (readProblem s).isSome = true ↔ lower s ∈ problemsLower := by
  constructor
  · intro h
    unfold readProblem at h
    cases hs : splitHyphen s with
    | none => rw [hs] at h; cases h
    | some p =>
      obtain ⟨q, sem⟩ := p
      rw [hs] at h
      simp only at h
      cases hq : Cli.queryOf q with
      | none => rw [hq] at h; cases h
      | some t =>
        cases hm : semOf sem with
        | none => rw [hq, hm] at h; cases h
        | some σ =>
          have e := splitHyphen_eq s q sem hs
          have : lower s = taskLower t ++ [45] ++ semLower σ := by
            rw [e]; unfold lower
            rw [List.map_append, List.map_append]
            have h1 := queryOf_some q t hq; unfold lower at h1
            have h2 := semOf_some sem σ hm; unfold lower at h2
            rw [h1, h2]; rfl
          rw [this]
          unfold problemsLower
          simp only [List.mem_flatMap, List.mem_map]
          exact ⟨σ, by cases σ <;> simp [allSems], t, by cases t <;> simp [allTasks], rfl⟩
  · intro h
    rw [← read_lower]
    have : ∀ x ∈ problemsLower, (readProblem x).isSome = true := by decide
    exact this _ h

/-- every listed problem is routed to a solver that implements the requested query -/
theorem dispatch_total (t : Task) (σ : Sem) (cfg : Cfg) (v : FwView) (cert : Bool) (args : List Nat) :
    (entryProg (dispatchSolver t σ) cfg v
      (match t with | .SE => .se | .DC => .dc cert args | .DS => .ds cert args)).isSome = true := by
  cases t <;> cases σ <;> rfl

/-- the witnesses the CLI may print for a problem are extensions under the queried semantics,
complete extensions for DC-PR (a sufficient witness: every complete extension is in a preferred one) -/
theorem witness_semantics (t : Task) (σ : Sem) :
    witnessSem t σ = σ ∨ (t = .DC ∧ σ = .PR ∧ witnessSem t σ = .CO) := by
  cases t <;> cases σ <;> simp [witnessSem]

/-- the ICCMA'23 wrapper turns every solve invocation into `solve <args> --logging-level off
--with-certificate --reader iccma23`, and the two special invocations into `authors` / `problems` -/
theorem wrapper_translate (args : List String) :
    (args = [] → wrapperArgs args = ["authors", "--logging-level", "off"]) ∧
    (args = ["--problems"] → wrapperArgs args = ["problems", "--logging-level", "off"]) ∧
    (args ≠ [] → args ≠ ["--problems"] →
      wrapperArgs args = ["solve"] ++ args ++ ["--logging-level", "off", "--with-certificate", "--reader", "iccma23"]) := by
  refine ⟨?_, ?_, ?_⟩
  · intro h; subst h; rfl
  · intro h; subst h; rfl
  · intro h1 h2
    unfold wrapperArgs
    have : args.isEmpty = false := by cases args <;> simp_all
    simp [this, h2]

/-- **the composition theorem `cli_answer_valid`.**  For every string the problem parser accepts
(any letter case) with the problem `t-σ` it denotes, every value of `--encoding` (`enc`; the branch
taken for the literal string `SE-PR` is computed from the string as the code does), every view
presenting a graph `g` (so: every readable instance file, by C13/C01 `views_present_their_graph`),
certificate flag and queried argument of `g`: the solver program the command line dispatches to
exists, reaches no crash node on sound SAT replies (with the fuel the model gives its loops at least
`fuelFor`), and returns what the *problem* asks for (`ProblemOK`): an extension under `σ` or "none"
only if there is none; the credulous / skeptical status under `σ`, with a witness under
`witnessSem t σ` (a complete extension for DC-PR, which extends to a preferred one:
`dc_pr_witness_extends`).  This covers the places where the dispatched solver is not the one of
the problem's semantics: SE-CO / DS-CO through the grounded solver, DC-PR through the complete
solver, SE-PR through the preferred solver over the *admissibility* encoder. -/
theorem cli_answer_valid (s : Str) (t : Task) (σ : Sem) (hread : readProblem s = some (t, σ))
    (enc : Option String) (cfg : Cfg)
    (henc : ∀ k, dispatchEncoder σ enc (decide (s = s_SEPR)) = some k → cfg.enc = k)
    (v : FwView) (g : G) (hv : v.Ok g) (cert : Bool) (args : List Nat)
    (hargs : ∀ a, a ∈ (entryOf t cert args).argsList → g.live a = true)
    (w : World) (hb : w.Bounded) (hfuel : cfg.fuel ≥ fuelFor (1 + v.maxId.getD 0)) :
    ∃ p, entryProg (dispatchSolver t σ) cfg v (entryOf t cert args) = some p ∧
      wp False p w (fun ans _ => ProblemOK t σ g (entryOf t cert args) ans) :=
  cli_answer_valid_read s t σ hread enc cfg henc v g hv cert args hargs w hb hfuel

/-- the same on interpreter runs: every run on sound replies returns an answer the problem asks for,
or aborts on an `unknown` reply (no answer is printed: C17), or the reply list was too short; it
never panics -/
theorem cli_runs (s : Str) (t : Task) (σ : Sem) (hread : readProblem s = some (t, σ))
    (enc : Option String) (cfg : Cfg)
    (henc : ∀ k, dispatchEncoder σ enc (decide (s = s_SEPR)) = some k → cfg.enc = k)
    (v : FwView) (g : G) (hv : v.Ok g) (cert : Bool) (args : List Nat)
    (hargs : ∀ a, a ∈ (entryOf t cert args).argsList → g.live a = true)
    (p : Prog Ans) (hp : entryProg (dispatchSolver t σ) cfg v (entryOf t cert args) = some p)
    (w : World) (hb : w.Bounded) (hfuel : cfg.fuel ≥ fuelFor (1 + v.maxId.getD 0))
    (rs : List Reply) (hs : RunSound p rs w) :
    (∀ msg w', interp p rs w ≠ (.crashed msg, w')) ∧
    ((∃ ans w', interp p rs w = (.done ans, w') ∧ ProblemOK t σ g (entryOf t cert args) ans) ∨
     (∃ w', interp p rs w = (.abort, w')) ∨ (∃ w', interp p rs w = (.starved, w'))) :=
  ⟨cli_never_panics t σ enc _ (literal_guard s t σ hread) cfg henc v g hv cert args hargs p hp w hb hfuel rs hs,
   cli_run_total t σ enc _ (literal_guard s t σ hread) cfg henc v g hv cert args hargs p hp w hb hfuel rs hs⟩

/-- what `ProblemOK` is: the conformance relation of the problem's own semantics (`EntryOK σ`, the
one C01–C04 are stated with) for every problem except DC-PR, whose witness is a complete extension -/
theorem problem_spec (t : Task) (σ : Sem) (h : ¬ (t = .DC ∧ σ = .PR)) (g : G) (cert : Bool)
    (args : List Nat) (ans : Ans) :
    ProblemOK t σ g (entryOf t cert args) ans ↔ EntryOK σ g (entryOf t cert args) ans :=
  problemOK_iff_entryOK t σ h g cert args ans

/-- a DC-PR witness (a complete extension containing the argument) extends to a preferred extension
containing it -/
theorem dc_pr_witness_extends {g : G} (hfin : ∃ n, ∀ a, g.live a = true → a < n) {args : List Nat}
    {e : List Nat} (he : Sem.GExt (witnessSem .DC .PR) g (ofList e)) (hh : HitsL args (ofList e)) :
    ∃ P, Sem.GExt .PR g P ∧ SubsetS (ofList e) P ∧ HitsL args P :=
  dc_pr_certificate_extends hfin he hh

/-- the encoder the command line selects is admissible for the solver and entry point it dispatches
to, for every problem and every value of `--encoding` -/
theorem dispatched_encoder_admissible (t : Task) (σ : Sem) (enc : Option String) (literal : Bool)
    (hlit : literal = true → t = .SE ∧ σ = .PR) (cfg : Cfg)
    (henc : ∀ k, dispatchEncoder σ enc literal = some k → cfg.enc = k) (cert : Bool) (args : List Nat) :
    CliCfgOK (dispatchSolver t σ) (entryOf t cert args) cfg :=
  cli_dispatch_cfg_ok t σ enc literal hlit cfg henc cert args

/-- non-vacuity: `SE-PR` with the default encoding reaches the admissibility branch, `se-pr` does not -/
example : dispatchEncoder .PR none (decide (s_SEPR = s_SEPR)) = some .auxADM ∧
    dispatchEncoder .PR none (decide (lower s_SEPR = s_SEPR)) = some .auxCO := by decide

/-- **from the bytes of the instance file to the answer** (ICCMA'23 format, the one the wrapper
forces): for every byte sequence the reader accepts, the store it builds presents exactly the
declared graph (arguments `0..n-1`, the declared attacks, repeated lines included), and for every
accepted problem string, `--encoding` value, certificate flag and `-a` string accepted by the
reader's argument look-up, the dispatched solver program exists, never panics on sound replies and
returns what the problem asks for on that graph -/
theorem cli_on_readable_file (bs : List UInt8) (fw : IO.IccmaFw) (hfile : IO.readIccma bs = .ok fw)
    (s : Str) (t : Task) (σ : Sem) (hread : readProblem s = some (t, σ))
    (enc : Option String) (cfg : Cfg)
    (henc : ∀ k, dispatchEncoder σ enc (decide (s = s_SEPR)) = some k → cfg.enc = k)
    (cert : Bool) (argStr : Str) (a : Nat) (harg : t ≠ .SE → IO.iccmaArgOfStr fw.n argStr = some a)
    (w : World) (hb : w.Bounded)
    (hfuel : cfg.fuel ≥ fuelFor (1 + (Store.ofIccma fw.n fw.atts).view.maxId.getD 0)) :
    (∀ x, (Store.ofIccma fw.n fw.atts).g.live x = true ↔ x < fw.n) ∧
    (∀ x y, (Store.ofIccma fw.n fw.atts).g.att x y ↔ (x, y) ∈ fw.atts) ∧
    ∃ p, entryProg (dispatchSolver t σ) cfg (Store.ofIccma fw.n fw.atts).view (entryOf t cert [a]) = some p ∧
      wp False p w (fun ans _ => ProblemOK t σ (Store.ofIccma fw.n fw.atts).g (entryOf t cert [a]) ans) :=
  cli_on_iccma_file bs fw hfile s t σ hread enc cfg henc cert argStr a harg w hb hfuel

/-- **the same for the Aspartix format**: for every byte sequence the Aspartix reader accepts, the
framework it builds (arguments in declaration order, duplicates dropped; one `new_attack` per attack
line, repeated lines having no effect) presents exactly the declared graph, and for every accepted
problem string, `--encoding` value, certificate flag and `-a` label that is declared in the file, the
dispatched solver program exists, never panics on sound replies and returns what the problem asks for -/
theorem cli_on_readable_apx_file (bs : List UInt8) (fw : IO.ApxFw) (hfile : IO.readApx bs = .ok fw)
    (s : Str) (t : Task) (σ : Sem) (hread : readProblem s = some (t, σ))
    (enc : Option String) (cfg : Cfg)
    (henc : ∀ k, dispatchEncoder σ enc (decide (s = s_SEPR)) = some k → cfg.enc = k)
    (cert : Bool) (argStr : Str) (a : Nat) (harg : t ≠ .SE → IO.idxOf fw.labels argStr = some a)
    (w : World) (hb : w.Bounded)
    (hfuel : cfg.fuel ≥ fuelFor (1 + (apxStore fw).view.maxId.getD 0)) :
    (∀ x, (apxStore fw).g.live x = true ↔ x < fw.labels.length) ∧
    (∀ x y, (apxStore fw).g.att x y ↔ (x, y) ∈ fw.atts) ∧
    ∃ p, entryProg (dispatchSolver t σ) cfg (apxStore fw).view (entryOf t cert [a]) = some p ∧
      wp False p w (fun ans _ => ProblemOK t σ (apxStore fw).g (entryOf t cert [a]) ans) :=
  cli_on_apx_file bs fw hfile s t σ hread enc cfg henc cert argStr a harg w hb hfuel

/-- **the grammar is the one in the source**: the tables below are regenerated from
`src/aa/problem.rs` on every run (`tools/gen_from_source.py`: variants of the two enums in
declaration order, match arms of the two `TryFrom<&str>` implementations, which must still compare
the ASCII-lowercased string, and `read_problem_string` must still split at the first hyphen); the
Lean grammar the theorems above are about has exactly these variants, in this order, and exactly
these spellings — a problem added, removed, renamed or re-spelled in the source breaks this theorem -/
theorem grammar_is_the_source :
    allSems.map semName = Gen.semanticsVariants ∧ allTasks.map taskName = Gen.queryVariants ∧
    allSems.map (fun σ => (semLower σ, semName σ)) = Gen.semanticsArms ∧
    allTasks.map (fun t => (taskLower t, taskName t)) = Gen.queryArms ∧
    (∀ s σ, semOf s = some σ ↔ (lower s, semName σ) ∈ Gen.semanticsArms) ∧
    (∀ s t, Cli.queryOf s = some t ↔ (lower s, taskName t) ∈ Gen.queryArms) := by
  have h3 : allSems.map (fun σ => (semLower σ, semName σ)) = Gen.semanticsArms := by decide
  have h4 : allTasks.map (fun t => (taskLower t, taskName t)) = Gen.queryArms := by decide
  refine ⟨by decide, by decide, h3, h4, ?_, ?_⟩
  · intro s σ
    rw [← h3]
    constructor
    · intro h
      have := semOf_some s σ h
      rw [this]
      cases σ <;> decide
    · intro h
      simp only [allSems, List.map, List.mem_cons, Prod.mk.injEq, List.mem_nil_iff, or_false] at h
      unfold semOf
      cases σ <;> simp_all [semName, semLower] <;> decide
  · intro s t
    rw [← h4]
    constructor
    · intro h
      have := queryOf_some s t h
      rw [this]
      cases t <;> decide
    · intro h
      simp only [allTasks, List.map, List.mem_cons, Prod.mk.injEq, List.mem_nil_iff, or_false] at h
      unfold Cli.queryOf
      cases t <;> simp_all [taskName, taskLower] <;> decide

def kindName : SolverKind → String
  | .GR => "GR" | .CO => "CO" | .PR => "PR" | .ST => "ST" | .SST => "SST" | .STG => "STG" | .ID => "ID"

def encOfName : String → Option EncKind
  | "auxCF" => some .auxCF | "auxADM" => some .auxADM | "auxCO" => some .auxCO
  | "expCF" => some .expCF | "expCO" => some .expCO | "hyb" => some .hyb | _ => none

/-- does an arm of `create_encoder` apply? (`[]` = the wildcard arm; a guard needs the literal problem string) -/
def rowApplies (r : List String × String × String × String × String) (σ : Sem) (literal : Bool) : Bool :=
  (r.1.isEmpty || r.1.contains (semName σ)) && (r.2.1 == "" || literal)

/-- interpretation of the generated table as Rust evaluates the nested `match` -/
def lookupEnc (tbl : List (List String × String × String × String × String)) (σ : Sem) (enc : Option String)
    (literal : Bool) : Option (Option EncKind) :=
  match tbl.find? (fun r => rowApplies r σ literal) with
  | none => none
  | some r0 =>
    if r0.2.2.2.2 == "none" then some none
    else
      let v := enc.getD r0.2.2.1
      match tbl.find? (fun r => r.1 == r0.1 && r.2.1 == r0.2.1 && r.2.2.2.1 == v) with
      | some r => (encOfName r.2.2.2.2).map some
      | none => none

/-- **the dispatch tables are those of the source**: which solver type answers each of the 21
problems (the three `match semantics` of `compute_one_extension`, `check_credulous_acceptance`,
`check_skeptical_acceptance`) and which encoder `create_encoder` selects for every semantics, every
`--encoding` value and the literal `SE-PR` guard are regenerated from `src/app/solve_command.rs` on
every run; the Lean `dispatchSolver` / `dispatchEncoder` — the functions `cli_answer_valid` is
about — agree with these tables on every problem and every option value -/
theorem dispatch_is_the_source :
    (∀ t σ, (taskName t, semName σ, kindName (dispatchSolver t σ)) ∈ Gen.dispatchTable) ∧
    Gen.dispatchTable.length = 21 ∧
    (∀ σ (enc : Option String) (literal : Bool), (literal = true → σ = .PR) →
      enc ∈ [none, some "aux_var", some "exp", some "hybrid"] →
      lookupEnc Gen.encoderTable σ enc literal = some (dispatchEncoder σ enc literal)) := by
  refine ⟨?_, by decide, ?_⟩
  · intro t σ
    cases t <;> cases σ <;> decide
  · intro σ enc literal hl henc
    simp only [List.mem_cons, List.mem_nil_iff, or_false] at henc
    cases literal with
    | true =>
      have := hl rfl; subst this
      rcases henc with rfl | rfl | rfl | rfl <;> decide
    | false =>
      cases σ <;> rcases henc with rfl | rfl | rfl | rfl <;> decide

/-- **the wrapper's argument translation is the one in the source** (`main_iccma23.rs`, regenerated
on every run: the common arguments, the special `--problems` invocation, the three sub-commands and
the arguments appended to a solve invocation, with the order of the `chain` calls checked by the generator) -/
theorem wrapper_is_the_source (args : List String) :
    ∃ a p s, Gen.wrapperSubcommands = [a, p, s] ∧
      wrapperArgs args =
        (if args.isEmpty then a :: Gen.wrapperCommonArgs
         else if args == Gen.wrapperSpecialInvocation then p :: Gen.wrapperCommonArgs
         else [s] ++ args ++ Gen.wrapperCommonArgs ++ Gen.wrapperSolveTail) := by
  refine ⟨_, _, _, rfl, ?_⟩
  unfold wrapperArgs
  simp [Gen.wrapperCommonArgs, Gen.wrapperSpecialInvocation, Gen.wrapperSolveTail]

/-! ### the text on stdout

`stdoutIccma` / `stdoutApx` (`Model/CliOut.lean`) are the bytes `execute_with_reader_and_writer` prints
for an answer (status line, extension line of the writer); `parseStdoutIccma` / `parseStdoutApx` are
what a reader of that text sees (`Shown`: status and printed set as argument ids), and `ShownOK` says,
in terms of the shown text and the declared graph only, what the property promises.  The model's
stdout bytes are compared with the real binary's on every run (cli family). -/

/-- **from the bytes of the file to the bytes on stdout (ICCMA format)**: for every accepted file,
problem string, `--encoding` value, certificate flag and argument, on sound SAT replies the run does
not panic, and what it prints parses to a status / set that is right for the declared graph: SE — `NO`
only if no extension exists, otherwise an extension listed without repetition; DC / DS — the status
is the truth, a set is printed exactly when a certificate was requested and the status is YES (DC) /
NO (DS), and it is an extension (for DC-PR a complete one) containing / omitting the argument -/
theorem cli_stdout_on_readable_file (bs : List UInt8) (fw : IO.IccmaFw) (hfile : IO.readIccma bs = .ok fw)
    (s : Str) (t : Task) (σ : Sem) (hread : readProblem s = some (t, σ))
    (enc : Option String) (cfg : Cfg)
    (henc : ∀ k, dispatchEncoder σ enc (decide (s = s_SEPR)) = some k → cfg.enc = k)
    (cert : Bool) (argStr : Str) (a : Nat) (harg : t ≠ .SE → IO.iccmaArgOfStr fw.n argStr = some a)
    (w : World) (hb : w.Bounded)
    (hfuel : cfg.fuel ≥ fuelFor (1 + (Store.ofIccma fw.n fw.atts).view.maxId.getD 0)) :
    ∃ p, entryProg (dispatchSolver t σ) cfg (Store.ofIccma fw.n fw.atts).view (entryOf t cert [a]) = some p ∧
      wp False p w (fun ans _ => ∃ sh, parseStdoutIccma t (stdoutIccma ans) = some sh ∧
        ShownOK t σ (Store.ofIccma fw.n fw.atts).g cert a sh) :=
  Cli.cli_stdout_on_readable_file bs fw hfile s t σ hread enc cfg henc cert argStr a harg w hb hfuel

/-- the same for the Aspartix format (labels of the file instead of numbers) -/
theorem cli_stdout_on_readable_apx_file (bs : List UInt8) (fw : IO.ApxFw) (hfile : IO.readApx bs = .ok fw)
    (s : Str) (t : Task) (σ : Sem) (hread : readProblem s = some (t, σ))
    (enc : Option String) (cfg : Cfg)
    (henc : ∀ k, dispatchEncoder σ enc (decide (s = s_SEPR)) = some k → cfg.enc = k)
    (cert : Bool) (argStr : Str) (a : Nat) (harg : t ≠ .SE → IO.idxOf fw.labels argStr = some a)
    (w : World) (hb : w.Bounded)
    (hfuel : cfg.fuel ≥ fuelFor (1 + (apxStore fw).view.maxId.getD 0)) :
    ∃ p, entryProg (dispatchSolver t σ) cfg (apxStore fw).view (entryOf t cert [a]) = some p ∧
      wp False p w (fun ans _ => ∃ sh, parseStdoutApx fw.labels t (stdoutApx fw.labels ans) = some sh ∧
        ShownOK t σ (apxStore fw).g cert a sh) :=
  Cli.cli_stdout_on_readable_apx_file bs fw hfile s t σ hread enc cfg henc cert argStr a harg w hb hfuel

/-- the printed text determines the answer: stdout of an answer of the right shape parses back to it -/
theorem stdout_parses_back (t : Task) (ans : Ans) (hs : shapeOk t ans = true) :
    parseStdoutIccma t (stdoutIccma ans) = some (shownOf ans) := parseStdoutIccma_stdoutIccma t ans hs

/-- two runs that both satisfy the promise show the same status, whatever the certificate flag -/
theorem shown_status_unique {t : Task} {σ : Sem} {g : G} {c1 c2 : Bool} {a : Nat} {sh1 sh2 : Shown}
    (h1 : ShownOK t σ g c1 a sh1) (h2 : ShownOK t σ g c2 a sh2) : sh1.status = sh2.status :=
  shownOK_status_unique h1 h2

end Crusta.C05
