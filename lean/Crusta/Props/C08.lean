import Crusta.Proofs.Oracle
import Crusta.Proofs.DynHistory
import Crusta.Proofs.DynTotal
import Crusta.Proofs.StaticAll
import Crusta.Proofs.DynAttHistory

/-!
# C08 — dynamic solvers always answer for the current framework (property theorems)

The model is `Crusta.Dyn` (`Model/Dyn.lean`), replayed call by call against the implementation by
the `dyn` family (`trace=1`).  The theorems below are about every state reachable from a fresh
solver by any sequence of update calls and of queries (about arguments of the framework) that ran
to completion on replies a correct SAT solver may give (`RunSound`), with no bound on the length of
the history, the number of arguments or the number of SAT variables retired.

`dynamic_answers_for_current_framework` is proved for the three dynamic solvers: complete, stable
and preferred.  For the preferred solver the answer comes from its own search for maximal
extensions on the shared SAT solver (blocking clauses guarded by a selector that is retired after
the search); its soundness is `Dyn.wp_prSkepQuery` (`Proofs/DynPR.lean`): YES means that every
preferred extension of the current framework contains the argument, NO comes with a preferred
extension that does not, and the computation cached for later queries is a true statement.

`supported_queries_are_answered` adds totality (`Proofs/DynTotal.lean`): a supported query about an
existing argument never panics and, unless the SAT solver gives up, ends with that answer; the search
loop of the preferred solver terminates within `prFuel` iterations.
-/

namespace Crusta.C08
open Crusta Crusta.Dyn

/-- the judge applied to every answer of a dynamic solver is the exact judge of C02–C04 run on the
framework as it stands at the moment of the query -/
theorem judge_is_exact (af : AF) (hwf : af.WF) (q : Query) (a : Answer) :
    checkAnswer af q a = .ok () ↔ Conforms af q a := checkAnswer_iff af hwf q a

/-- **C08 for the complete, stable and preferred dynamic solvers.**  After any history of update calls `ops`
and queries, a query about an argument of the framework, run on sound replies, returns the status
and the certificate the semantics dictate for the framework obtained by applying `ops` (rejected
updates having no effect) — whatever was asked, cached, buffered or retired before. -/
theorem dynamic_answers_for_current_framework {sem : DSem} {fuel : Nat}
    {ops : List StoreOp} {d : DState} {w : World} (hreach : Reach sem fuel ops d w)
    (q : DQuery) {l id : Nat} (hl : d.pending.Live id l) {rs : List Reply}
    (hs : RunSound (query fuel d q l) rs w) {d' : DState} {a : AccAns} {w' : World}
    (hrun : interp (query fuel d q l) rs w = (.done (d', a), w')) :
    Store.runOps Store.empty ops = some d.pending ∧ AnswerOK sem d.pending q l a := by
  obtain ⟨hq, henc, hops⟩ := reach_inv hreach
  exact ⟨hops, (query_ok hq henc q hl hs hrun).2.2⟩

/-- **each supported query is answered.**  In every reachable state a query the solver offers
(`Supported`: credulous for the complete solver, both for the stable one, skeptical for the preferred
one), about an argument of the framework, on sound replies, does not panic: the run ends with an
answer — and then it is the right one for the framework obtained by applying `ops` — unless the SAT
solver replied `unknown` (the query is aborted) or the reply list is exhausted.  For the preferred
solver the fuel of the model's loop must cover `prFuel` (`FuelOK`), the proved bound on the number of
iterations of the search; the Rust loop has no fuel. -/
theorem supported_queries_are_answered {sem : DSem} {fuel : Nat}
    {ops : List StoreOp} {d : DState} {w : World} (hreach : Reach sem fuel ops d w)
    (q : DQuery) (hq : Supported sem q) {l id : Nat} (hl : d.pending.Live id l) {fuel' : Nat}
    (hfuel : FuelOK sem d.pending fuel') {rs : List Reply} (hs : RunSound (query fuel' d q l) rs w) :
    (∀ msg w', interp (query fuel' d q l) rs w ≠ (.crashed msg, w')) ∧
    ((∃ d' a w', interp (query fuel' d q l) rs w = (.done (d', a), w') ∧
        Store.runOps Store.empty ops = some d.pending ∧ AnswerOK sem d.pending q l a) ∨
     (∃ w', interp (query fuel' d q l) rs w = (.abort, w')) ∨
     (∃ w', interp (query fuel' d q l) rs w = (.starved, w'))) := by
  obtain ⟨hq', henc, hops⟩ := reach_inv hreach
  refine ⟨wp_no_crash _ rs w _ (supported_query_total hq' henc q hq hfuel hl) hs, ?_⟩
  rcases supported_query_outcome hq' henc q hq hfuel hl hs with ⟨d', a, w', hrun, _, _, hans⟩ | hr
  · exact Or.inl ⟨d', a, w', hrun, hops, hans⟩
  · exact Or.inr hr

/-- what `AnswerOK` says, spelled out for a credulous query: YES comes with an extension of the
current framework that contains the argument, NO means that no extension contains it -/
theorem credulous_answer_meaning (sem : DSem) (st : Store) (l id : Nat) (a : AccAns)
    (h : AnswerOK sem st .cred l a) (hl : st.Live id l) :
    (a.status = true → ∃ e, a.cert = some e ∧ IsExt sem st.g (ofList e) ∧ id ∈ e) ∧
    (a.status = false → a.cert = none ∧ ∀ S, IsExt sem st.g S → S id = false) := h id hl

theorem skeptical_answer_meaning (sem : DSem) (st : Store) (l id : Nat) (a : AccAns)
    (h : AnswerOK sem st .skep l a) (hl : st.Live id l) :
    (a.status = true → a.cert = none ∧ ∀ S, IsExt sem st.g S → S id = true) ∧
    (a.status = false → ∃ e, a.cert = some e ∧ IsExt sem st.g (ofList e) ∧ id ∉ e) := h id hl

/-- the semantics used above are the textbook ones: on a compact framework they are the
definitions of the spec layer -/
theorem semantics_are_the_spec (af : AF) (S : ASet) :
    (af.g.Complete S ↔ Complete af S) ∧ (af.g.Stable S ↔ Stable af S) ∧ (af.g.Preferred S ↔ Preferred af S) :=
  ⟨AF.g_complete af S, AF.g_stable af S, AF.g_preferred af S⟩

/-- **re-encoding.**  Whatever updates are buffered, `update_encoding` leaves the solver's
framework equal to the pending one and a clause database in which no stale constraint is active
(`DInv.clean`: nothing dirty) — this is what makes retired selectors and removed arguments
harmless.  The statement holds for every reading `C` of the crash nodes of the model, in particular
for `C = False`: the replay of the buffer never panics (the buffered updates were validated against
the pending framework, so each replayed store operation succeeds, every live argument has a variable
and every selector to retire is among the assumptions). -/
theorem update_encoding_resynchronises {C : Prop} {sem : DSem} {d : DState} {w : World} (h : DInv sem d w) :
    wp C d.updateEncoding w (fun d' w' => DInv sem d' w' ∧ d'.af = d.pending ∧ d'.pending = d.pending ∧
      d'.buffer = d.buffer ∧ d'.next = d.buffer.length) := wp_updateEncoding h

/-- **soundness and completeness of the incremental encoding**: with nothing dirty, the
assignments satisfying the clause database under the current assumptions are exactly (on the
argument variables) the complete — resp. stable — extensions of the solver's framework -/
theorem incremental_encoding_exact {sem : DSem} {st : Store} {e : Enc} {Γ : Cnf} (hinv : st.Inv)
    (h : CleanEnc sem st e Γ) :
    (∀ ν : Asg, cnfTrue ν Γ = true → assumpsTrue ν e.assumptions = true → EncExt sem st.g (setOf st e ν)) ∧
    (∀ S : ASet, EncExt sem st.g S → ∃ ν : Asg, cnfTrue ν Γ = true ∧ assumpsTrue ν e.assumptions = true ∧
      ∀ i, st.hasId i = true → ν (e.xv i) = S i) :=
  ⟨fun _ hΓ hA => models_ext hinv h hΓ hA, fun _ hS => ext_model hinv h hS⟩

/-- a cached answer is only ever read from a computation that no update separates from the query -/
theorem cache_reads_are_after_last_update (evs : List Event) (l : Nat) (b : Bool) (e : List Nat) :
    (cachedCred evs l = (some b, some e) ∨ cachedSkep evs l = (some b, some e)) →
    ∃ c ∈ evs.takeWhile (fun ev => !ev.isUpdate), ∃ acc ref,
      (c = .cred acc ref (some e) ∨ c = .skep acc ref (some e)) := by
  rintro (h | h)
  · obtain ⟨_, c, hc, acc, ref, hcc, _⟩ := cachedCred_spec evs l b e h
    exact ⟨c, hc, acc, ref, hcc⟩
  · obtain ⟨_, c, hc, acc, ref, hcc, _⟩ := cachedSkep_spec evs l b e h
    exact ⟨c, hc, acc, ref, hcc⟩

/-- non-vacuity: a fresh solver is reachable and after `A1; A2; +1>2` the argument labelled 2 is an
argument of the pending framework -/
example : ∃ d w, Reach .CO 100 [.newArg 1, .newArg 2, .newAtt 1 2] d w ∧ d.pending.Live 1 2 :=
  ⟨_, _, Reach.update (.newAtt 1 2) (Reach.update (.newArg 2) (Reach.update (.newArg 1) Reach.init)), by unfold Store.Live; decide⟩

/-- the same for the preferred solver -/
example : ∃ d w, Reach .PR 100 [.newArg 1, .newArg 2, .newAtt 1 2] d w ∧ d.pending.Live 1 2 :=
  ⟨_, _, Reach.update (.newAtt 1 2) (Reach.update (.newArg 2) (Reach.update (.newArg 1) Reach.init)), by unfold Store.Live; decide⟩

/-- **the recompute-from-scratch wrapper** (`DummyDynamicConstraintsEncoder` over any of the seven
static solvers): its state is the framework store itself; a query runs the static solver's program
on the store's view.  After any history of update calls, every answer is what the semantics dictate
for the store reached by that history (model replayed call by call by the `dyn` family, kinds
`dummy_*`). -/
theorem recompute_wrapper_answers (sk : SolverKind) (cfg : Cfg) (hcfg : CfgOK sk cfg) (ops : List StoreOp)
    (st : Store) (hst : Store.runOps Store.empty ops = some st) (e : Entry)
    (hargs : ∀ a, a ∈ e.argsList → st.hasId a = true) (p : Prog Ans)
    (hp : entryProg sk cfg st.view e = some p) (w : World) (hb : w.Bounded) (rs : List Reply)
    (hs : RunSound p rs w) (ans : Ans) (w' : World) (hrun : interp p rs w = (.done ans, w')) :
    EntryOK sk.sem st.g e ans := by
  obtain ⟨s, hs', hinv, hrows⟩ := Store.rows_reachable ops
  rw [hst] at hs'
  injection hs' with hs'
  subst hs'
  exact static_answers_conform sk cfg hcfg st.view st.g (Store.view_ok st hinv hrows) e hargs p hp w hb rs hs ans w' hrun

/-- **the two assumptions-on-attacks solvers** (model `Crusta.DynAtt`, replayed call by call by the
`dyn` family, kinds `co_att` / `st_att`, every reservation factor `num/den ≥ 1`): after any history
of update calls and queries (re-encodings into fresh SAT solvers, reuse of reserved argument
variables, cached answers), a query about an argument of the framework that completes on sound
replies returns the status and certificate the semantics dictate for the framework reached by the
update calls. -/
theorem attack_assumption_solvers_answer {sem : DSem} (hsem : sem ≠ .PR) {num den : Nat}
    (hfac : 0 < den ∧ den ≤ num) {ops : List StoreOp} {d : DynAtt.ADState} {w : World}
    (h : DynAtt.Reach sem num den ops d w) (q : DQuery) {l id : Nat} (hl : d.pending.Live id l)
    {rs : List Reply} (hs : RunSound (DynAtt.query d q l) rs w) {d' : DynAtt.ADState} {a : AccAns} {w' : World}
    (hrun : interp (DynAtt.query d q l) rs w = (.done (d', a), w')) :
    ∃ st, Store.runOps Store.empty ops = some st ∧ st = d.pending ∧ AnswerOK sem st q l a :=
  DynAtt.answers_correct hsem hfac h q hl hs hrun

end Crusta.C08
