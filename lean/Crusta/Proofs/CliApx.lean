import Crusta.Proofs.CliCompose
import Crusta.Proofs.StoreRows
import Crusta.Proofs.ReaderWFApx

/-!
# From the bytes of an Aspartix instance file to the answer of the command line

The Aspartix reader builds the framework over the de-duplicated labels (ids = positions in
declaration order) and calls `new_attack` (by labels, duplicate test) once per attack line.  In the
store labels are natural numbers: the label at position `i` is modelled by the number `i`.

* `apxStore fw`: the store reached by declaring the labels `0 .. n-1` and then adding the attacks;
* `apxStore_g`: for a well-formed `fw` its view presents its graph, which is the declared one
  (ids = positions, label `i` has id `i`);
* `cli_on_apx_file`: composition of `readApx_wfa`, `apxStore_g` and `cli_answer_valid_read`.
-/

namespace Crusta
open Crusta.IO

/-- the update history of the Aspartix reader: one `new_argument` per (de-duplicated) label, the
label being its position, then one `new_attack` per attack in order -/
def apxOps (fw : ApxFw) : List StoreOp :=
  (List.range fw.labels.length).map StoreOp.newArg ++ fw.atts.map (fun p => StoreOp.newAtt p.1 p.2)

/-- the store built by the Aspartix reader (the fold of the run-time driver over `apxOps`) -/
def apxStore (fw : ApxFw) : Store :=
  (apxOps fw).foldl (fun s o => match s.step o with | .ok s' => s' | .err s' => s' | .panic => s) Store.empty

namespace Store

/-- the state of the reader's store: the invariants, and exactly the arguments `0 .. n-1`, the one
with id `i` carrying the label `i` -/
structure ApxInv (n : Nat) (s : Store) : Prop where
  inv : s.Inv
  rows : s.RowsNodup
  live : ∀ i l, s.Live i l ↔ (i < n ∧ l = i)

theorem ApxInv.hasId {n : Nat} {s : Store} (h : s.ApxInv n) (i : Nat) : s.hasId i = true ↔ i < n := by
  rw [hasId_iff]
  constructor
  · rintro ⟨l, hl⟩; exact ((h.live i l).1 hl).1
  · intro hi; exact ⟨i, (h.live i i).2 ⟨hi, rfl⟩⟩

/-- the fold of the driver -/
abbrev foldFrom (s : Store) (ops : List StoreOp) : Store :=
  ops.foldl (fun s o => match s.step o with | .ok s' => s' | .err s' => s' | .panic => s) s

/-! ## the argument declarations: ids are handed out in order, label `i` gets id `i` -/

theorem apxArgs (n : Nat) :
    (foldFrom Store.empty ((List.range n).map StoreOp.newArg)).ApxInv n ∧
    (foldFrom Store.empty ((List.range n).map StoreOp.newArg)).labels.length = n ∧
    ∀ a b, ¬ (foldFrom Store.empty ((List.range n).map StoreOp.newArg)).HasAtt a b := by
  induction n with
  | zero =>
    refine ⟨⟨inv_empty, rows_empty, ?_⟩, rfl, ?_⟩
    · intro i l
      simp [Live, labelOf, Store.empty]
    · rintro a b ⟨i, hi⟩
      simp [att, Store.empty] at hi
  | succ n ih =>
    obtain ⟨hs, hlen, hatt⟩ := ih
    have e : foldFrom Store.empty ((List.range (n + 1)).map StoreOp.newArg) =
        (foldFrom Store.empty ((List.range n).map StoreOp.newArg)).newArgument n := by
      simp only [foldFrom, List.range_succ, List.map_append, List.foldl_append, List.map_cons, List.map_nil,
        List.foldl_cons, List.foldl_nil, Store.step]
    rw [e]
    generalize foldFrom Store.empty ((List.range n).map StoreOp.newArg) = s at hs hlen hatt
    have hfresh : ∀ i, ¬ s.Live i n := by
      intro i hi
      have := (hs.live i n).1 hi
      omega
    have hrows : (s.newArgument n).RowsNodup := step_rows hs.inv hs.rows (.newArg n) _ rfl
    have hinv : (s.newArgument n).Inv := inv_newArgument hs.inv n
    rw [newArgument_fresh hs.inv hfresh] at hrows hinv ⊢
    refine ⟨⟨hinv, hrows, ?_⟩, ?_, ?_⟩
    · intro i l
      rw [live_pushArg, hs.live, hlen]
      omega
    · simp [pushArg, hlen]
    · intro a b h
      exact hatt a b h

/-! ## the attack lines -/

theorem apxAtts {n : Nat} (atts : List (Nat × Nat)) (h : ∀ p ∈ atts, p.1 < n ∧ p.2 < n) :
    ∀ s : Store, s.ApxInv n →
      (foldFrom s (atts.map (fun p => StoreOp.newAtt p.1 p.2))).ApxInv n ∧
      ∀ a b, (foldFrom s (atts.map (fun p => StoreOp.newAtt p.1 p.2))).HasAtt a b ↔
        (s.HasAtt a b ∨ (a, b) ∈ atts) := by
  induction atts with
  | nil => intro s hs; exact ⟨hs, fun a b => by simp⟩
  | cons p t ih =>
    intro s hs
    obtain ⟨hp1, hp2⟩ := h p List.mem_cons_self
    have hl1 : s.Live p.1 p.1 := (hs.live _ _).2 ⟨hp1, rfl⟩
    have hl2 : s.Live p.2 p.2 := (hs.live _ _).2 ⟨hp2, rfl⟩
    have hspec := (newAttack_spec hs.inv p.1 p.2).1 p.1 p.2 hl1 hl2
    have ht := fun q hq => h q (List.mem_cons_of_mem _ hq)
    by_cases hh : s.HasAtt p.1 p.2
    · have he : s.step (.newAtt p.1 p.2) = .ok s := hspec.1 hh
      obtain ⟨i1, i2⟩ := ih ht s hs
      simp only [foldFrom, List.map_cons, List.foldl_cons, he]
      refine ⟨i1, fun a b => ?_⟩
      refine Iff.trans (i2 a b) ?_
      simp only [List.mem_cons]
      constructor
      · rintro (h1 | h1)
        · exact Or.inl h1
        · exact Or.inr (Or.inr h1)
      · rintro (h1 | h1 | h1)
        · exact Or.inl h1
        · left; subst h1; exact hh
        · exact Or.inr h1
    · have he : s.step (.newAtt p.1 p.2) = .ok (s.pushAtt p.1 p.2) := hspec.2 hh
      have hs' : (s.pushAtt p.1 p.2).ApxInv n :=
        ⟨inv_pushAtt hs.inv hl1 hl2 hh, step_rows hs.inv hs.rows _ _ he, fun i l => hs.live i l⟩
      obtain ⟨i1, i2⟩ := ih ht _ hs'
      simp only [foldFrom, List.map_cons, List.foldl_cons, he]
      refine ⟨i1, fun a b => ?_⟩
      refine Iff.trans (i2 a b) ?_
      rw [hasAtt_pushAtt]
      simp only [List.mem_cons]
      constructor
      · rintro ((h1 | ⟨rfl, rfl⟩) | h1)
        · exact Or.inl h1
        · exact Or.inr (Or.inl rfl)
        · exact Or.inr (Or.inr h1)
      · rintro (h1 | h1 | h1)
        · exact Or.inl (Or.inl h1)
        · subst h1; exact Or.inl (Or.inr ⟨rfl, rfl⟩)
        · exact Or.inr h1

end Store

/-- the store of the Aspartix reader: invariants, arguments `0 .. n-1` with label = id, and exactly
the declared attacks (only the range of the attacks matters: `new_attack` tests for duplicates) -/
theorem apxStore_apxInv (fw : ApxFw) (h : ∀ p ∈ fw.atts, p.1 < fw.labels.length ∧ p.2 < fw.labels.length) :
    (apxStore fw).ApxInv fw.labels.length ∧ ∀ a b, (apxStore fw).HasAtt a b ↔ (a, b) ∈ fw.atts := by
  obtain ⟨h1, _, h3⟩ := Store.apxArgs fw.labels.length
  obtain ⟨k1, k2⟩ := Store.apxAtts fw.atts h _ h1
  have e : apxStore fw = Store.foldFrom (Store.foldFrom Store.empty ((List.range fw.labels.length).map StoreOp.newArg))
      (fw.atts.map (fun p => StoreOp.newAtt p.1 p.2)) := by
    simp only [apxStore, apxOps, Store.foldFrom, List.foldl_append]
  rw [e]
  refine ⟨k1, fun a b => ?_⟩
  refine Iff.trans (k2 a b) ?_
  constructor
  · rintro (h4 | h4)
    · exact absurd h4 (h3 a b)
    · exact h4
  · exact Or.inr

/-- **the store built by the Aspartix reader presents the declared graph**: for a well-formed
framework the view presents the graph of the store, the live ids are the positions of the labels
and the attacks are the declared ones -/
theorem apxStore_g (fw : ApxFw) (_hnd : fw.labels.Nodup)
    (hlt : ∀ p ∈ fw.atts, p.1 < fw.labels.length ∧ p.2 < fw.labels.length) (_hand : fw.atts.Nodup) :
    (apxStore fw).view.Ok (apxStore fw).g ∧
    (∀ a, (apxStore fw).g.live a = true ↔ a < fw.labels.length) ∧
    (∀ a b, (apxStore fw).g.att a b ↔ (a, b) ∈ fw.atts) := by
  obtain ⟨h1, h2⟩ := apxStore_apxInv fw hlt
  exact ⟨Store.view_ok _ h1.inv h1.rows, h1.hasId, h2⟩

/-- the argument with id `i` carries the label `i` (the position of its name), and the look-up by
label (`ArgumentSet::get_argument`) of position `i` finds id `i` -/
theorem apxStore_labels (fw : ApxFw)
    (hlt : ∀ p ∈ fw.atts, p.1 < fw.labels.length ∧ p.2 < fw.labels.length) :
    (∀ i l, (apxStore fw).Live i l ↔ (i < fw.labels.length ∧ l = i)) ∧
    (∀ i, i < fw.labels.length → (apxStore fw).getArg i = some i) := by
  obtain ⟨h1, _⟩ := apxStore_apxInv fw hlt
  exact ⟨h1.live, fun i hi => (Store.getArg_eq_some h1.inv).2 ((h1.live i i).2 ⟨hi, rfl⟩)⟩

/-- the driver's fold is the history semantics: the reader's history runs without panic -/
theorem apxStore_runOps (fw : ApxFw) : Store.runOps Store.empty (apxOps fw) = some (apxStore fw) := by
  obtain ⟨s, hs, _⟩ := Store.inv_reachable (apxOps fw)
  have : ∀ (ops : List StoreOp) (s s' : Store), Store.runOps s ops = some s' → Store.foldFrom s ops = s' := by
    intro ops
    induction ops with
    | nil => intro s s' h; simp only [Store.runOps, Option.some.injEq] at h; simpa using h
    | cons op ops ih =>
      intro s s' h
      simp only [Store.runOps] at h
      simp only [Store.foldFrom, List.foldl_cons]
      cases hs : s.step op with
      | ok t => rw [hs] at h; exact ih t s' h
      | err t => rw [hs] at h; exact ih t s' h
      | panic => rw [hs] at h; cases h
  rw [hs, ← this _ _ _ hs]
  rfl

/-- non-vacuity: two labels, the attacks `(0,1)` and `(1,1)`; ids are positions, label = id -/
example : apxStore ⟨[[97], [98]], [(0, 1), (1, 1)]⟩ =
    ⟨[some 0, some 1], [(0, 0), (1, 1)], 0, [some (0, 1), some (1, 1)], [[0], [1]], [[], [0, 1]], 0⟩ := by decide

namespace Cli

/-- the argument string of `-a` denotes an argument of the framework read -/
theorem apxArgOfStr_lt (labels : List Str) (arg : Str) (a : Nat) (h : idxOf labels arg = some a) :
    a < labels.length := idxOf_lt labels arg a h

/-- **from the bytes of an Aspartix instance file to the answer**: for every byte sequence the
Aspartix reader accepts, the store it builds presents exactly the declared graph (ids = positions of
the labels), and for every accepted problem string, `--encoding` value, certificate flag and `-a`
string the reader's argument look-up accepts, the dispatched solver program exists, never panics on
sound replies and returns what the problem asks for on that graph -/
theorem cli_on_apx_file (bs : List UInt8) (fw : ApxFw) (hfile : readApx bs = .ok fw)
    (s : Str) (t : Task) (σ : Sem) (hread : readProblem s = some (t, σ))
    (enc : Option String) (cfg : Cfg)
    (henc : ∀ k, dispatchEncoder σ enc (decide (s = s_SEPR)) = some k → cfg.enc = k)
    (cert : Bool) (argStr : Str) (a : Nat) (harg : t ≠ .SE → idxOf fw.labels argStr = some a)
    (w : World) (hb : w.Bounded)
    (hfuel : cfg.fuel ≥ fuelFor (1 + (apxStore fw).view.maxId.getD 0)) :
    (∀ x, (apxStore fw).g.live x = true ↔ x < fw.labels.length) ∧
    (∀ x y, (apxStore fw).g.att x y ↔ (x, y) ∈ fw.atts) ∧
    ∃ p, entryProg (dispatchSolver t σ) cfg (apxStore fw).view (entryOf t cert [a]) = some p ∧
      wp False p w (fun ans _ => ProblemOK t σ (apxStore fw).g (entryOf t cert [a]) ans) := by
  obtain ⟨hnd, hlt, hand⟩ := readApx_wfa bs fw hfile
  obtain ⟨hok, hlive, hatt⟩ := apxStore_g fw hnd hlt hand
  refine ⟨hlive, hatt, ?_⟩
  apply cli_answer_valid_read s t σ hread enc cfg henc _ _ hok cert [a] ?_ w hb hfuel
  intro x hx
  cases t with
  | SE => simp [entryOf, Entry.argsList] at hx
  | DC =>
    simp [entryOf, Entry.argsList] at hx; subst hx
    exact (hlive x).2 (apxArgOfStr_lt _ _ _ (harg (by simp)))
  | DS =>
    simp [entryOf, Entry.argsList] at hx; subst hx
    exact (hlive x).2 (apxArgOfStr_lt _ _ _ (harg (by simp)))

end Cli
end Crusta
