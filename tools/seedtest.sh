#!/bin/sh
# usage: seedtest.sh <seed-id> <worktree> <property> [<more properties to run>...]
# 1. confirms the seeded change in its worktree (suite passes, demo fails with / passes without the change)
# 2. applies patch.diff to /repo, runs the checks, reverts /repo
# 3. stores patch, demo and meta.json under /verif/seeded/<seed-id>/
set -u
ID=$1; WT=$2; shift 2
PROPS="$@"
OUT=/verif/seeded/$ID
mkdir -p $OUT
cd $WT || exit 2
export CARGO_NET_OFFLINE=true
git diff -- src > $OUT/patch.diff
cp tests/seeded_demo.rs $OUT/ 2>/dev/null
for f in tests/*; do case "$f" in tests/seeded_demo.rs|tests/test_iccma23*) ;; *) cp -r "$f" $OUT/ 2>/dev/null;; esac; done
SUITE=$(cargo nextest run --workspace --no-fail-fast --offline 2>&1 | grep -E "^\s+Summary|tests run" | tail -1)
FAILS=$(cargo nextest run --workspace --no-fail-fast --offline 2>&1 | grep -E "^\s+FAIL" | grep -v seeded_demo | sort -u | head -3)
DEMO_WITH=$(cargo nextest run --offline --test seeded_demo 2>&1 | grep -E "tests? run" | tail -1)
git apply -R $OUT/patch.diff
DEMO_WITHOUT=$(cargo nextest run --offline --test seeded_demo 2>&1 | grep -E "tests? run" | tail -1)
git apply $OUT/patch.diff
echo "suite with change : $SUITE"
echo "other failures    : ${FAILS:-none}"
echo "demo with change  : $DEMO_WITH"
echo "demo without      : $DEMO_WITHOUT"
cd /repo && git apply $OUT/patch.diff || { echo "patch does not apply"; exit 3; }
RES=""
for p in $PROPS; do
  cd /verif
  O=$(./check $p 2>&1)
  RC=$?
  N=$(echo "$O" | grep -c "^VIOLATION")
  echo "== $p: exit=$RC violations=$N"
  echo "$O" | grep -E "^  - " | head -4
  RES="$RES $p:rc=$RC:viol=$N"
done
cd /repo && git checkout -- . && git status --short | head -3
cat > $OUT/run.txt <<EOT
suite with change : $SUITE
other failures    : ${FAILS:-none}
demo with change  : $DEMO_WITH
demo without      : $DEMO_WITHOUT
checks            : $RES
EOT
