import Crusta.Proofs.Iso
import Crusta.Proofs.Maximal
import Crusta.Proofs.SolveIDAux
import Crusta.Proofs.Assemble
import Crusta.Proofs.StaticAll
import Crusta.Proofs.StoreIccma
import Crusta.Proofs.GRename
import Crusta.Proofs.GLocal

/-!
# C11 — statuses are invariant under presentation and mutually consistent (property theorems)

Spec-level theorems, for all frameworks (no bound on size): the textbook semantics — which the
judge of C01–C04 is proved to implement — depend only on the attack graph, and satisfy the
cross-semantics relations the property lists.  The metamorphic runs check that the real solvers'
answers on 20–300 arguments obey the same relations.
-/

namespace Crusta.C11
open Crusta

/-- reordering or repeating attack declarations changes no extension of any of the 7 semantics -/
theorem attack_lines_irrelevant (σ : Sem) {f g : AF} (h : f.SameGraph g) (S : ASet) :
    σ.Ext f S ↔ σ.Ext g S := ext_attack_set σ h S

/-- renaming / reordering arguments: extensions are mapped to extensions, for all 7 semantics -/
theorem renaming_invariant {af : AF} (ρ : Renaming af.n) (σ : Sem) (S : ASet) :
    σ.Ext (af.rename ρ.f) (imageSet S ρ.g) ↔ σ.Ext af S := ext_rename ρ σ S

/-- hence credulous and skeptical statuses are invariant under renaming -/
theorem status_renaming_invariant {af : AF} (ρ : Renaming af.n) (σ : Sem) (a : Nat) :
    ((∃ S, σ.Ext af S ∧ S a = true) ↔ (∃ S', σ.Ext (af.rename ρ.f) S' ∧ S' (ρ.f a) = true)) ∧
    ((∀ S, σ.Ext af S → S a = true) ↔ (∀ S', σ.Ext (af.rename ρ.f) S' → S' (ρ.f a) = true)) :=
  status_rename ρ σ a

/-- skeptical acceptance implies credulous acceptance whenever an extension exists -/
theorem skeptical_implies_credulous (σ : Sem) (af : AF) (a : Nat)
    (hex : ∃ S, σ.Ext af S) (hs : ∀ S, σ.Ext af S → S a = true) : ∃ S, σ.Ext af S ∧ S a = true := by
  obtain ⟨S, hS⟩ := hex
  exact ⟨S, hS, hs S hS⟩

/-- GR within every PR extension; ID within every PR extension; PR extensions are complete -/
theorem gr_id_within_pr {af : AF} {G I P : ASet} (hP : Preferred af P) :
    (Grounded af G → SubsetS G P) ∧ (Ideal af I → SubsetS I P) ∧ Complete af P :=
  ⟨fun hG => grounded_sub_preferred hG hP, fun hI => ideal_sub_preferred hI hP, preferred_complete hP⟩

/-- a credulously PR-accepted argument is credulously CO-accepted (the CLI answers DC-PR through
the complete solver; the converse direction is the existence of a preferred superset) -/
theorem dc_pr_implies_dc_co {af : AF} {a : Nat} (h : ∃ S, Preferred af S ∧ S a = true) :
    ∃ S, Complete af S ∧ S a = true := cred_pr_imp_cred_co h

/-- ST within PR, CO, SST and STG -/
theorem st_within {af : AF} (hwf : af.WF) {S : ASet} (h : Stable af S) :
    Preferred af S ∧ Complete af S ∧ SemiStable af S ∧ Stage af S :=
  ⟨stable_preferred hwf h, stable_complete hwf h, stable_semistable hwf h, stable_stage hwf h⟩

/-- ST, SST and STG coincide whenever a stable extension exists -/
theorem st_sst_stg_coincide {af : AF} (hwf : af.WF) {E : ASet} (hE : Stable af E) (S : ASet) :
    (SemiStable af S ↔ Stable af S) ∧ (Stage af S ↔ Stable af S) := Crusta.st_sst_stg_coincide hwf hE S

/-- non-vacuity: a renaming of a 3-argument framework (swap 0 and 2) -/
example : ∃ ρ : Renaming 3, ρ.f 0 = 2 :=
  ⟨⟨fun a => if a = 0 then 2 else if a = 2 then 0 else a, fun a => if a = 0 then 2 else if a = 2 then 0 else a,
    by intro a; by_cases h0 : a = 0 <;> by_cases h2 : a = 2 <;> simp_all,
    by intro a; by_cases h0 : a = 0 <;> by_cases h2 : a = 2 <;> simp_all,
    by intro a; by_cases h0 : a = 0 <;> by_cases h2 : a = 2 <;> simp_all <;> omega⟩, rfl⟩

/-- **credulous acceptance coincides for CO and PR**: an argument in some complete extension is in
some preferred extension (every admissible set lies in a preferred one), and conversely -/
theorem dc_co_iff_dc_pr {af : AF} {a : Nat} :
    (∃ S, Complete af S ∧ S a = true) ↔ (∃ S, Preferred af S ∧ S a = true) := by
  constructor
  · rintro ⟨S, hS, ha⟩
    obtain ⟨P, hP, hsub⟩ := exists_preferred_superset hS.1
    exact ⟨P, hP, hsub a ha⟩
  · rintro ⟨S, hS, ha⟩
    exact ⟨S, preferred_complete hS, ha⟩

/-- **GR ⊆ ID**: the grounded extension lies inside the ideal extension (which is complete) -/
theorem gr_within_id {af : AF} {G I : ASet} (hG : Grounded af G) (hI : Ideal af I) : SubsetS G I :=
  hG.2 I (ideal_complete hI)

/-- the ideal extension is unique; a preferred extension always exists -/
theorem id_unique_pr_exists (af : AF) :
    (∀ S T, Ideal af S → Ideal af T → ∀ a, S a = T a) ∧ (∃ P, Preferred af P) :=
  ⟨fun _ _ hS hT => ideal_unique hS hT, exists_preferred af⟩

/-- **locality (disjoint unions)**: when the live arguments are partitioned into parts that no
attack leaves or enters, the extensions of the whole graph — for each of the seven semantics — are
exactly the sets whose trace on every part is an extension of that part: adding an unrelated
component changes nothing inside the others -/
theorem locality {g : G} {parts : List (Nat → Bool)} (hp : Parts g parts)
    (hfin : ∃ n, ∀ a, g.live a = true → a < n) (σ : Sem) (S : ASet) (hS : ∀ a, S a = true → g.live a = true) :
    g.Ext σ S ↔ ∀ U ∈ parts, (g.restrict U).Ext σ (inter S U) := ext_parts hp hfin σ S hS

/-- **the solvers' statuses do not depend on the presentation** (on the solver programs): two views
that present the same graph — the same arguments and the same attack relation, declared in any
order, any number of times, reached by different update histories — give the same credulous and
the same skeptical status, for every solver type, admissible encoders, sound reply lists, with or
without certificate -/
theorem solver_status_presentation_invariant (sk : SolverKind) (v1 v2 : FwView) (g1 g2 : G)
    (hv1 : v1.Ok g1) (hv2 : v2.Ok g2)
    (hlive : ∀ a, g1.live a = g2.live a) (hatt : ∀ a b, g1.att a b ↔ g2.att a b)
    (args : List Nat) (hargs : ∀ a ∈ args, g1.live a = true)
    (cfg1 cfg2 : Cfg) (h1 : CfgOK sk cfg1) (h2 : CfgOK sk cfg2) (c1 c2 : Bool)
    (w1 w2 : World) (hb1 : w1.Bounded) (hb2 : w2.Bounded) (rs1 rs2 : List Reply)
    (a1 a2 : AccAns) (cv1 cv2 : Bool) (w1' w2' : World) :
    (∀ p1 p2, entryProg sk cfg1 v1 (.dc c1 args) = some p1 → entryProg sk cfg2 v2 (.dc c2 args) = some p2 →
      RunSound p1 rs1 w1 → RunSound p2 rs2 w2 →
      interp p1 rs1 w1 = (.done (.acc a1 cv1), w1') → interp p2 rs2 w2 = (.done (.acc a2 cv2), w2') →
      a1.status = a2.status) ∧
    (∀ p1 p2, entryProg sk cfg1 v1 (.ds c1 args) = some p1 → entryProg sk cfg2 v2 (.ds c2 args) = some p2 →
      RunSound p1 rs1 w1 → RunSound p2 rs2 w2 →
      interp p1 rs1 w1 = (.done (.acc a1 cv1), w1') → interp p2 rs2 w2 = (.done (.acc a2 cv2), w2') →
      a1.status = a2.status) := by
  have hg : g1 = g2 := by
    cases g1; cases g2
    simp only [G.mk.injEq]
    exact ⟨funext hlive, funext fun a => funext fun b => propext (hatt a b)⟩
  subst hg
  constructor
  · intro p1 p2 hp1 hp2 hs1 hs2 hr1 hr2
    obtain ⟨_, hd1, _⟩ := static_answers_conform sk cfg1 h1 v1 g1 hv1 (.dc c1 args) (fun x hx => hargs x hx) p1 hp1 w1 hb1 rs1 hs1 _ w1' hr1
    obtain ⟨_, hd2, _⟩ := static_answers_conform sk cfg2 h2 v2 g1 hv2 (.dc c2 args) (fun x hx => hargs x hx) p2 hp2 w2 hb2 rs2 hs2 _ w2' hr2
    exact (status_determined sk.sem g1 args c1 c2 a1 a2).1 hd1 hd2
  · intro p1 p2 hp1 hp2 hs1 hs2 hr1 hr2
    obtain ⟨_, hd1, _⟩ := static_answers_conform sk cfg1 h1 v1 g1 hv1 (.ds c1 args) (fun x hx => hargs x hx) p1 hp1 w1 hb1 rs1 hs1 _ w1' hr1
    obtain ⟨_, hd2, _⟩ := static_answers_conform sk cfg2 h2 v2 g1 hv2 (.ds c2 args) (fun x hx => hargs x hx) p2 hp2 w2 hb2 rs2 hs2 _ w2' hr2
    exact (status_determined sk.sem g1 args c1 c2 a1 a2).2 hd1 hd2

/-- instance: two ICCMA'23 files declaring the same attacks in different orders, with repetitions,
are two presentations of one graph -/
theorem iccma_files_same_graph (n : Nat) (atts atts' : List (Nat × Nat))
    (h : ∀ p ∈ atts, p.1 < n ∧ p.2 < n) (hsame : ∀ p, p ∈ atts ↔ p ∈ atts') :
    (Store.ofIccma n atts).view.Ok (Store.ofIccma n atts).g ∧
    (Store.ofIccma n atts').view.Ok (Store.ofIccma n atts').g ∧
    (∀ a, (Store.ofIccma n atts).g.live a = (Store.ofIccma n atts').g.live a) ∧
    (∀ a b, (Store.ofIccma n atts).g.att a b ↔ (Store.ofIccma n atts').g.att a b) := by
  have h' : ∀ p ∈ atts', p.1 < n ∧ p.2 < n := fun p hp => h p ((hsame p).2 hp)
  have g1 := Store.ofIccma_g n atts h
  have g2 := Store.ofIccma_g n atts' h'
  refine ⟨Store.ofIccma_view_ok n atts h, Store.ofIccma_view_ok n atts' h', ?_, ?_⟩
  · intro a
    show (Store.ofIccma n atts).hasId a = (Store.ofIccma n atts').hasId a
    exact Bool.eq_iff_iff.2 ((g1.1 a).trans (g2.1 a).symm)
  · intro a b
    show (Store.ofIccma n atts).HasAtt a b ↔ (Store.ofIccma n atts').HasAtt a b
    rw [g1.2 a b, g2.2 a b]
    exact hsame (a, b)

/-- **renaming the arguments** (on the solver programs): if the second view presents the graph
obtained from the first by any bijective renaming `ρ` of the ids, the credulous and the skeptical
status of the renamed query equal those of the original query — for every solver type, admissible
encoders, sound reply lists, with or without certificate -/
theorem solver_status_renaming_invariant (sk : SolverKind) (v1 v2 : FwView) (g : G) (ρ : Bij)
    (hv1 : v1.Ok g) (hv2 : v2.Ok (g.rename ρ))
    (args : List Nat) (hargs : ∀ a ∈ args, g.live a = true)
    (cfg1 cfg2 : Cfg) (h1 : CfgOK sk cfg1) (h2 : CfgOK sk cfg2) (c1 c2 : Bool)
    (w1 w2 : World) (hb1 : w1.Bounded) (hb2 : w2.Bounded) (rs1 rs2 : List Reply)
    (a1 a2 : AccAns) (cv1 cv2 : Bool) (w1' w2' : World) :
    (∀ p1 p2, entryProg sk cfg1 v1 (.dc c1 args) = some p1 →
      entryProg sk cfg2 v2 (.dc c2 (args.map ρ.f)) = some p2 →
      RunSound p1 rs1 w1 → RunSound p2 rs2 w2 →
      interp p1 rs1 w1 = (.done (.acc a1 cv1), w1') → interp p2 rs2 w2 = (.done (.acc a2 cv2), w2') →
      a1.status = a2.status) ∧
    (∀ p1 p2, entryProg sk cfg1 v1 (.ds c1 args) = some p1 →
      entryProg sk cfg2 v2 (.ds c2 (args.map ρ.f)) = some p2 →
      RunSound p1 rs1 w1 → RunSound p2 rs2 w2 →
      interp p1 rs1 w1 = (.done (.acc a1 cv1), w1') → interp p2 rs2 w2 = (.done (.acc a2 cv2), w2') →
      a1.status = a2.status) :=
  Crusta.solver_status_renaming_invariant sk v1 v2 g ρ hv1 hv2 args hargs cfg1 cfg2 h1 h2 c1 c2 w1 w2 hb1 hb2 rs1 rs2
    a1 a2 cv1 cv2 w1' w2'

/-- all seven semantics over sparse id spaces commute with bijective renamings -/
theorem semantics_renaming_invariant (g : G) (ρ : Bij) (σ : Sem) (S : ASet) :
    (g.rename ρ).Ext σ (ρ.image S) ↔ g.Ext σ S := G.ext_rename g ρ σ S

/-- **adding an unrelated component** (on the solver programs): if the second view presents the
disjoint union `g'` of the graph `g` of the first view and any other graph `h` (no attack between
them), the statuses of arguments of `g` are the same on both views — for every solver type, provided
`h` has an extension under the solver's semantics, which is automatic except for the stable
semantics (`solver_status_local_all_but_stable`); when `h` has no stable extension, the stable
solver answers NO to every credulous and YES to every skeptical query on the union
(`stable_component_without_extension`). -/
theorem solver_status_local (sk : SolverKind) (v1 v2 : FwView) (g h g' : G)
    (hv1 : v1.Ok g) (hv2 : v2.Ok g') (d : DisjUnion g h g') (hex : ∃ T, h.Ext sk.sem T)
    (args : List Nat) (hargs : ∀ a ∈ args, g.live a = true)
    (cfg1 cfg2 : Cfg) (h1 : CfgOK sk cfg1) (h2 : CfgOK sk cfg2) (c1 c2 : Bool)
    (w1 w2 : World) (hb1 : w1.Bounded) (hb2 : w2.Bounded) (rs1 rs2 : List Reply)
    (a1 a2 : AccAns) (cv1 cv2 : Bool) (w1' w2' : World) :
    (∀ p1 p2, entryProg sk cfg1 v1 (.dc c1 args) = some p1 → entryProg sk cfg2 v2 (.dc c2 args) = some p2 →
      RunSound p1 rs1 w1 → RunSound p2 rs2 w2 →
      interp p1 rs1 w1 = (.done (.acc a1 cv1), w1') → interp p2 rs2 w2 = (.done (.acc a2 cv2), w2') →
      a1.status = a2.status) ∧
    (∀ p1 p2, entryProg sk cfg1 v1 (.ds c1 args) = some p1 → entryProg sk cfg2 v2 (.ds c2 args) = some p2 →
      RunSound p1 rs1 w1 → RunSound p2 rs2 w2 →
      interp p1 rs1 w1 = (.done (.acc a1 cv1), w1') → interp p2 rs2 w2 = (.done (.acc a2 cv2), w2') →
      a1.status = a2.status) :=
  Crusta.solver_status_local sk v1 v2 g h g' hv1 hv2 d hex args hargs cfg1 cfg2 h1 h2 c1 c2 w1 w2 hb1 hb2 rs1 rs2
    a1 a2 cv1 cv2 w1' w2'

theorem solver_status_local_all_but_stable (sk : SolverKind) (hsk : sk ≠ .ST) (v1 v2 : FwView) (g h g' : G)
    (hv1 : v1.Ok g) (hv2 : v2.Ok g') (d : DisjUnion g h g')
    (args : List Nat) (hargs : ∀ a ∈ args, g.live a = true)
    (cfg1 cfg2 : Cfg) (h1 : CfgOK sk cfg1) (h2 : CfgOK sk cfg2) (c1 c2 : Bool)
    (w1 w2 : World) (hb1 : w1.Bounded) (hb2 : w2.Bounded) (rs1 rs2 : List Reply)
    (a1 a2 : AccAns) (cv1 cv2 : Bool) (w1' w2' : World) :
    (∀ p1 p2, entryProg sk cfg1 v1 (.dc c1 args) = some p1 → entryProg sk cfg2 v2 (.dc c2 args) = some p2 →
      RunSound p1 rs1 w1 → RunSound p2 rs2 w2 →
      interp p1 rs1 w1 = (.done (.acc a1 cv1), w1') → interp p2 rs2 w2 = (.done (.acc a2 cv2), w2') →
      a1.status = a2.status) ∧
    (∀ p1 p2, entryProg sk cfg1 v1 (.ds c1 args) = some p1 → entryProg sk cfg2 v2 (.ds c2 args) = some p2 →
      RunSound p1 rs1 w1 → RunSound p2 rs2 w2 →
      interp p1 rs1 w1 = (.done (.acc a1 cv1), w1') → interp p2 rs2 w2 = (.done (.acc a2 cv2), w2') →
      a1.status = a2.status) :=
  solver_status_local_nonstable sk hsk v1 v2 g h g' hv1 hv2 d args hargs cfg1 cfg2 h1 h2 c1 c2 w1 w2 hb1 hb2 rs1 rs2
    a1 a2 cv1 cv2 w1' w2'

theorem stable_component_without_extension (v2 : FwView) (g h g' : G)
    (hv2 : v2.Ok g') (d : DisjUnion g h g') (hno : ¬ ∃ T, h.Ext .ST T)
    (args : List Nat) (hargs : ∀ a ∈ args, g.live a = true)
    (cfg2 : Cfg) (c2 : Bool)
    (w2 : World) (hb2 : w2.Bounded) (rs2 : List Reply) (a2 : AccAns) (cv2 : Bool) (w2' : World) :
    (∀ p2, entryProg .ST cfg2 v2 (.dc c2 args) = some p2 → RunSound p2 rs2 w2 →
      interp p2 rs2 w2 = (.done (.acc a2 cv2), w2') → a2.status = false) ∧
    (∀ p2, entryProg .ST cfg2 v2 (.ds c2 args) = some p2 → RunSound p2 rs2 w2 →
      interp p2 rs2 w2 = (.done (.acc a2 cv2), w2') → a2.status = true) :=
  solver_status_stable_none v2 g h g' hv2 d hno args hargs cfg2 c2 w2 hb2 rs2 a2 cv2 w2'

/-- non-vacuity: one fresh self-attacking argument is such a component -/
example (g : G) (hwf : g.WF) (hfin : ∃ n, ∀ a, g.live a = true → a < n) (k : Nat) (hk : g.live k = false) :
    DisjUnion g (G.selfLoop k) (g.addSelfLoop k) ∧ ¬ ∃ T, (G.selfLoop k).Ext .ST T :=
  ⟨G.addSelfLoop_disjUnion g hwf hfin k hk, G.selfLoop_no_stable k⟩

end Crusta.C11
