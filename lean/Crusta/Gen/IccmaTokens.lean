/-! Regenerated from /repo/src/io/iccma23_reader.rs by tools/gen_from_source.py on every run. Do not edit. -/

namespace Crusta.Gen

/-- first character of a comment line -/
def iccmaComment : Nat := 35
/-- the preamble: number of words, first word, kind -/
def iccmaPreambleWords : Nat := 3
def iccmaAttackWords : Nat := 2
def iccmaFirstWord : List Nat := [112]
def iccmaKind : List Nat := [97, 102]
/-- label of the first argument -/
def iccmaFirstLabel : Nat := 1

end Crusta.Gen
