import Crusta.Model.Solvers

/-!
# Model of the dynamic solvers (`src/dynamics/*`)

* `Enc`  — `DynamicConstraintsEncoder`: argument / attacker-disjunction / selector variables, the
  assumption list, `new_solver_var` (which asks the solver for `n_vars`), the per-argument attack
  constraints guarded by a selector, and selector retirement;
* `DState` — `BufferedDynamicConstraintsEncoder` together with the solver's own framework: the
  event buffer (updates and cached computations), the eagerly validated `pending_af`, the replay
  of the buffer with the deferred re-encoding set (`update_encoding`);
* the query procedures of `DynamicCompleteSemanticsSolver`, `DynamicStableSemanticsSolver` and
  `DynamicPreferredSemanticsSolver` (the latter with its own search for maximal extensions over the
  sparse framework), as `Prog` programs on solver 0.

Labels are naturals; answers carry **ids** of the solver's framework.
-/

namespace Crusta.Dyn
open Prog (addClause addClauses getNVars doSolve)

inductive DSem | CO | ST | PR
deriving Repr, DecidableEq

inductive VarType
  | arg (id : Nat)
  | disj (id : Nat)
  | sel (id : Nat)
  | ignored
deriving Repr, DecidableEq

structure Enc where
  sem : DSem
  argVar : List (Option Nat) := []
  selVar : List (Option Nat) := []
  vars : List VarType := [.ignored]
  assumptions : List Lit := []
  enabled : Bool := false
deriving Repr

/-- `Vec::swap_remove` -/
def swapRemoveL {α : Type} (l : List α) (pos : Nat) : List α :=
  match l.getLast? with
  | none => l
  | some last => if pos + 1 == l.length then l.dropLast else (l.set pos last).dropLast

/-- `new_solver_var`: never reuse a variable the solver already knows -/
def allocVar (e : Enc) (t : VarType) (nv : Nat) : Nat × Enc :=
  let vars := e.vars ++ List.replicate (nv + 1 - e.vars.length) .ignored ++ [t]
  (vars.length - 1, { e with vars := vars })

def newSolverVar (e : Enc) (t : VarType) : Prog (Nat × Enc) :=
  .nVars 0 (fun nv => .pure (allocVar e t nv))

def removeSelector (e : Enc) (s : Nat) : Prog Enc :=
  (addClause 0 [nl s]).bind fun _ =>
    match e.assumptions.findIdx? (fun l => l == pl s) with
    | none => .crash "selector is not among the assumptions"
    | some p => .pure { e with vars := e.vars.set s .ignored, assumptions := swapRemoveL e.assumptions p }

/-- the clauses tying argument `to` (variable `xt`) to its attackers (variables `xs`) under selector `sel` -/
def attackClauses (sem : DSem) (sel xt : Nat) (xs : List Nat) : Cnf :=
  match sem with
  | .ST =>
    xs.map (fun xa => [nl sel, nl xt, nl xa]) ++ [[nl sel, pl xt] ++ xs.map pl]
  | _ =>
    xs.map (fun xa => [nl sel, nl xt, pl (xa + 1)]) ++ [[nl sel, pl xt] ++ xs.map (fun xa => nl (xa + 1))] ++
    xs.map (fun xa => [nl sel, pl (xt + 1), nl xa]) ++ [[nl sel, nl (xt + 1)] ++ xs.map pl]

def optAll {α : Type} : List (Option α) → Option (List α)
  | [] => some []
  | none :: _ => none
  | some a :: r => (optAll r).map (a :: ·)

/-- retire the current selector of `to`, if it has one -/
def dropSel (e : Enc) (to : Nat) : Prog Enc :=
  match e.selVar.getD to none with
  | some s => (removeSelector e s).bind fun e' => .pure { e' with selVar := e'.selVar.set to none }
  | none => .pure e

/-- record the freshly allocated selector `r.1` of `to` -/
def withSelOf (r : Nat × Enc) (to : Nat) : Enc :=
  { r.2 with assumptions := r.2.assumptions ++ [pl r.1], selVar := r.2.selVar.set to (some r.1) }

def emitAttackClauses (st : Store) (e : Enc) (to sv : Nat) : Prog Enc :=
  if !st.hasId to then .crash "get_argument_by_id on a removed argument" else
  match e.argVar.getD to none, optAll ((st.iterTo to).map (fun p => e.argVar.getD p.1 none)) with
  | some xt, some xs => (addClauses 0 (attackClauses e.sem sv xt xs)).bind fun _ => .pure e
  | _, _ => .crash "argument without a solver variable"

/-- `update_attacks_to_constraints` -/
def updateAttacksTo (st : Store) (e : Enc) (to : Nat) : Prog Enc :=
  if !e.enabled then .pure e
  else if to ≥ e.selVar.length then .crash "index out of bounds (selector table)"
  else
    (dropSel e to).bind fun e1 =>
    (newSolverVar e1 (.sel to)).bind fun r =>
    emitAttackClauses st (withSelOf r to) to r.1

def foldProg {α β : Type} (f : β → α → Prog β) : List α → β → Prog β
  | [], b => .pure b
  | a :: r, b => (f b a).bind fun b' => foldProg f r b'

/-- allocate the variable(s) of a new argument `id` and record them -/
def allocArg (e : Enc) (id : Nat) : Prog Enc :=
  (newSolverVar e (.arg id)).bind fun r =>
    match e.sem with
    | .ST => .pure { r.2 with argVar := r.2.argVar ++ [some r.1], selVar := r.2.selVar ++ [none] }
    | _ =>
      (newSolverVar r.2 (.disj id)).bind fun r' =>
      (addClause 0 [nl r.1, nl r'.1]).bind fun _ =>
      .pure { r'.2 with argVar := r'.2.argVar ++ [some r.1], selVar := r'.2.selVar ++ [none] }

/-- `DynamicConstraintsEncoder::new_argument` -/
def encNewArgument (st : Store) (e : Enc) (l : Nat) : Prog (Store × Enc) :=
  match (st.newArgument l).maxId with
  | none => .crash "max_argument_id on an empty framework"
  | some id =>
    (allocArg e id).bind fun e1 =>
    (updateAttacksTo (st.newArgument l) e1 id).bind fun e2 =>
    .pure (st.newArgument l, e2)

/-- forget the variable and the selector of the removed argument `id` -/
def forgetArg (e : Enc) (id v : Nat) : Prog Enc :=
  (dropSel e id).bind fun e1 =>
  (addClause 0 [pl v]).bind fun _ =>
  .pure { e1 with argVar := e1.argVar.set id none, vars := e1.vars.set v .ignored }

/-- `DynamicConstraintsEncoder::remove_argument` (the caller unwraps) -/
def encRemoveArgument (st : Store) (e : Enc) (l : Nat) : Prog (Store × Enc) :=
  match st.getArg l with
  | none => .crash "remove_argument: no such argument"
  | some id =>
    match st.removeArgument l with
    | .ok st' =>
      match e.argVar.getD id none with
      | none => .crash "argument without a solver variable"
      | some v =>
        (forgetArg e id v).bind fun e1 =>
        (foldProg (updateAttacksTo st') (((st.iterFrom id).map (·.2)).filter (fun t => t != id)) e1).bind fun e2 =>
        .pure (st', e2)
    | _ => .crash "remove_argument failed"

def encAttack (add : Bool) (st : Store) (e : Enc) (a b : Nat) : Prog (Store × Enc) :=
  match (if add then st.newAttack a b else st.removeAttack a b) with
  | .ok st' =>
    match st'.getArg b with
    | none => .crash "attack target vanished"
    | some to => (updateAttacksTo st' e to).bind fun e' => .pure (st', e')
  | _ => .crash "attack update failed"

/-! ## the buffer -/

inductive Event
  | newArg (l : Nat)
  | remArg (l : Nat)
  | newAtt (a b : Nat)
  | remAtt (a b : Nat)
  | cred (accepted refused : List Nat) (ext : Option (List Nat))
  | skep (accepted refused : List Nat) (ext : Option (List Nat))
deriving Repr, DecidableEq

def Event.isUpdate : Event → Bool
  | .cred .. => false
  | .skep .. => false
  | _ => true

structure DState where
  af : Store := Store.empty
  pending : Store := Store.empty
  enc : Enc
  buffer : List Event := []
  next : Nat := 0
deriving Repr

def DState.init (sem : DSem) : DState := { enc := { sem := sem } }

inductive UpdRes | ok | err | panic
deriving Repr, DecidableEq

/-- the four update entry points: validated against `pending`, buffered only when they change it -/
def DState.update (d : DState) : StoreOp → DState × UpdRes
  | .newArg l =>
    let p := d.pending.newArgument l
    if p.nArguments > d.pending.nArguments then ({ d with pending := p, buffer := d.buffer ++ [.newArg l] }, .ok)
    else ({ d with pending := p }, .ok)
  | .remArg l =>
    match d.pending.removeArgument l with
    | .ok p => ({ d with pending := p, buffer := d.buffer ++ [.remArg l] }, .ok)
    | .err _ => (d, .err)
    | .panic => (d, .panic)
  | .newAtt a b =>
    match d.pending.newAttack a b with
    | .ok p =>
      if p.nAttacks > d.pending.nAttacks then ({ d with pending := p, buffer := d.buffer ++ [.newAtt a b] }, .ok)
      else ({ d with pending := p }, .ok)
    | .err _ => (d, .err)
    | .panic => (d, .panic)
  | .remAtt a b =>
    match d.pending.removeAttack a b with
    | .ok p => ({ d with pending := p, buffer := d.buffer ++ [.remAtt a b] }, .ok)
    | .err _ => (d, .err)
    | .panic => (d, .panic)

structure Replay where
  af : Store
  enc : Enc
  upd : List Nat := []

/-- `must_update_attacks_to`: remember the id once -/
def mustL (upd : List Nat) (id : Nat) : List Nat := if upd.contains id then upd else upd ++ [id]

def needArg (st : Store) (l : Nat) : Prog Nat :=
  match st.getArg l with
  | some i => .pure i
  | none => .crash "get_argument: no such label"

def replayEvent (r : Replay) : Event → Prog Replay
  | .newArg l =>
    (encNewArgument r.af r.enc l).bind fun p =>
    (needArg p.1 l).bind fun id => .pure { af := p.1, enc := p.2, upd := mustL r.upd id }
  | .remArg l =>
    (needArg r.af l).bind fun id =>
    (encRemoveArgument r.af r.enc l).bind fun p =>
    .pure { af := p.1, enc := p.2,
            upd := (((r.af.iterFrom id).map (·.2)).filter (fun t => t != id)).foldl mustL r.upd }
  | .newAtt a b =>
    (encAttack true r.af r.enc a b).bind fun p =>
    (needArg p.1 b).bind fun id => .pure { af := p.1, enc := p.2, upd := mustL r.upd id }
  | .remAtt a b =>
    (encAttack false r.af r.enc a b).bind fun p =>
    (needArg p.1 b).bind fun id => .pure { af := p.1, enc := p.2, upd := mustL r.upd id }
  | _ => .pure r

/-- `update_encoding` -/
def DState.updateEncoding (d : DState) : Prog DState :=
  (foldProg replayEvent (d.buffer.drop d.next) { af := d.af, enc := d.enc }).bind fun r =>
  (foldProg (updateAttacksTo r.af) (r.upd.filter r.af.hasId) { r.enc with enabled := true }).bind fun e =>
  .pure { d with af := r.af, enc := { e with enabled := false }, next := d.buffer.length }

/-! ## answer caches -/

/-- `is_credulously_accepted` (argument: the buffer, newest first) -/
def cachedCred : List Event → Nat → Option Bool × Option (List Nat)
  | [], _ => (none, none)
  | .cred acc ref ext :: rest, l =>
    if acc.contains l && ext.isSome then (some true, ext)
    else if ref.contains l then (some false, none)
    else cachedCred rest l
  | .skep acc _ ext :: rest, l =>
    if acc.contains l && ext.isSome then (some true, ext) else cachedCred rest l
  | _ :: _, _ => (none, none)

/-- `is_skeptically_accepted` -/
def cachedSkep : List Event → Nat → Option Bool × Option (List Nat)
  | [], _ => (none, none)
  | .skep acc ref ext :: rest, l =>
    if acc.contains l then (some true, none)
    else if ref.contains l && ext.isSome then (some false, ext)
    else cachedSkep rest l
  | .cred _ ref ext :: rest, l =>
    if ref.contains l && ext.isSome then (some false, ext) else cachedSkep rest l
  | _ :: _, _ => (none, none)

/-! ## decoding models -/

/-- `solver_var_to_arg` -/
def Enc.varToArg (e : Enc) (v : Nat) : Option Nat :=
  match e.vars.getD v .ignored with
  | .arg id => some id
  | _ => none

/-- ids of the argument variables whose value satisfies `p` (variable order) -/
def Enc.argsWhere (e : Enc) (m : Model) (p : Option Bool → Bool) : List Nat :=
  (m.zipIdx).filterMap (fun q => if p q.1 then e.varToArg (q.2 + 1) else none)

def Enc.extension (e : Enc) (m : Model) : List Nat := e.argsWhere m (fun b => b == some true)

def labelsOf (st : Store) (ids : List Nat) : Option (List Nat) := optAll (ids.map st.labelOf)

def needLabels (st : Store) (ids : List Nat) : Prog (List Nat) :=
  match labelsOf st ids with
  | some ls => .pure ls
  | none => .crash "get_argument_by_id on a removed argument"

def DState.argLit (d : DState) (l : Nat) : Prog Nat :=
  match d.af.getArg l with
  | none => .crash "arg_to_lit: no such argument"
  | some id =>
    match d.enc.argVar.getD id none with
    | some x => .pure x
    | none => .crash "arg_to_lit: argument without a solver variable"

def fromCache (d : DState) (b : Bool) (e : List Nat) : Prog (DState × AccAns) :=
  (needLabels d.af e).bind fun _ => .pure (d, ⟨b, some e⟩)

/-- the SAT call of a credulous query, on an up-to-date encoding -/
def credSolve (d : DState) (l : Nat) : Prog (DState × AccAns) :=
  (d.argLit l).bind fun x =>
  .solve 0 (d.enc.assumptions ++ [pl x]) fun r =>
    match r with
    | some m =>
      (needLabels d.af (d.enc.argsWhere m (fun b => b != some false))).bind fun acc =>
      (needLabels d.af (d.enc.extension m)).bind fun _ =>
      .pure ({ d with buffer := d.buffer ++ [.cred acc [] (some (d.enc.extension m))] },
             ⟨true, some (d.enc.extension m)⟩)
    | none => .pure ({ d with buffer := d.buffer ++ [.cred [] [l] none] }, ⟨false, none⟩)

/-- credulous acceptance of the complete and stable dynamic solvers -/
def credQuery (d : DState) (l : Nat) : Prog (DState × AccAns) :=
  match cachedCred d.buffer.reverse l with
  | (some b, some e) => fromCache d b e
  | _ => d.updateEncoding.bind fun d' => credSolve d' l

/-- the SAT call of a skeptical query of the stable solver, on an up-to-date encoding -/
def stSkepSolve (d : DState) (l : Nat) : Prog (DState × AccAns) :=
  (d.argLit l).bind fun x =>
  .solve 0 (d.enc.assumptions ++ [nl x]) fun r =>
    match r with
    | some m =>
      (needLabels d.af (d.enc.argsWhere m (fun b => b != some true))).bind fun ref =>
      (needLabels d.af (d.enc.extension m)).bind fun _ =>
      .pure ({ d with buffer := d.buffer ++ [.skep [] ref (some (d.enc.extension m))] },
             ⟨false, some (d.enc.extension m)⟩)
    | none =>
      (needArg d.af l).bind fun id =>
      (needLabels d.af ((d.af.iterFrom id).map (·.2))).bind fun ref =>
      .pure ({ d with buffer := d.buffer ++ [.skep [l] ref none] }, ⟨true, none⟩)

/-- skeptical acceptance of the stable dynamic solver -/
def stSkepQuery (d : DState) (l : Nat) : Prog (DState × AccAns) :=
  match cachedSkep d.buffer.reverse l with
  | (some b, some e) => fromCache d b e
  | _ => d.updateEncoding.bind fun d' => stSkepSolve d' l

/-! ## the preferred solver: maximal-extension search over the sparse framework -/

structure DMEC where
  sel : Nat
  additional : List Lit
  cur : List Nat := []
  state : MState := .init

/-- `split_in_extension` on the (possibly sparse) framework of the solver -/
def splitSparse (d : DState) (cur : List Nat) : Option (List Lit × List Lit) :=
  let nIds := match d.af.maxId with | some m => m + 1 | none => 0
  let len := cur.foldl (fun m a => max m (a + 1)) (max d.af.nArguments nIds)
  let ids := (List.range len).filter d.af.hasId
  match optAll (ids.map (fun i => (d.enc.argVar.getD i none).map (fun x => (i, x)))) with
  | none => none
  | some ps =>
    some ((ps.filter (fun p => cur.contains p.1)).map (fun p => pl p.2),
          (ps.filter (fun p => !cur.contains p.1)).map (fun p => pl p.2))

def DMEC.block (d : DState) (m : DMEC) : Prog (List Lit) :=
  match splitSparse d m.cur with
  | none => .crash "arg_to_lit: argument without a solver variable"
  | some (i, o) => do
    addClause 0 (o ++ [pl m.sel])
    pure (i ++ [nl m.sel])

def DMEC.solve (d : DState) (m : DMEC) (assumps : List Lit) : Prog (Option (List Nat)) := do
  let r ← doSolve 0 (assumps ++ m.additional)
  match r with
  | none => pure none
  | some mdl =>
    let ext := d.enc.extension mdl
    let _ ← needLabels d.af ext
    pure (some ext)

def DMEC.newSearch (d : DState) (m : DMEC) : Prog DMEC := do
  match ← m.solve d [nl m.sel] with
  | some ext => pure { m with cur := ext, state := .intermediate }
  | none => pure { m with state := .none }

def DMEC.computeNext (d : DState) (m : DMEC) : Prog DMEC :=
  match m.state with
  | .init => pure { m with cur := groundedV d.af.view, state := .intermediate }
  | .intermediate => do
    let as ← m.block d
    match ← m.solve d as with
    | some ext => pure { m with cur := ext, state := .intermediate }
    | none => pure { m with state := .maximal }
  | .maximal => do
    let _ ← m.block d
    m.newSearch d
  | .justDiscarded => m.newSearch d
  | .none => .crash "no more extensions"

structure PrSt where
  first : Bool := true
  inAll : Option (List Bool) := none
  missing : List Bool

def boolVec (len : Nat) (ids : List Nat) : List Bool := ids.foldl (fun v a => v.set a true) (List.replicate len false)

def addDefeated (d : DState) (cur : List Nat) (missing : List Bool) : List Bool :=
  cur.foldl (fun m a => ((d.af.iterFrom a).map (·.2)).foldl (fun m t => m.set t true) m) missing

def boolLabels (d : DState) (v : List Bool) : List Nat :=
  (v.zipIdx).filterMap (fun p => if p.1 then d.af.labelOf p.2 else none)

/-- result of the loop: status, accepted flags, refused flags, extension -/
def prLoop (d : DState) (argId len : Nat) : Nat → DMEC → PrSt →
    Prog (DMEC × Bool × List Bool × List Bool × Option (List Nat))
  | 0, _, _ => .crash "fuel exhausted in the dynamic preferred loop"
  | fuel + 1, m, st => do
    let m ← m.computeNext d
    match m.state with
    | .maximal =>
      let inCur := boolVec len m.cur
      let missing := addDefeated d m.cur st.missing
      let argMissing := !(inCur.getD argId false)
      let (inAll, missing) :=
        if st.first then (some inCur, missing)
        else
          (st.inAll.map (fun ia => (ia.zip inCur).map (fun p => p.1 && p.2)),
           (missing.zip inCur).map (fun p => p.1 || !p.2))
      if argMissing then
        let missing := m.cur.foldl (fun v a => v.set a false) missing
        pure (m, false, [], missing, some m.cur)
      else prLoop d argId len fuel m { first := false, inAll := inAll, missing := missing }
    | .intermediate =>
      let missing := addDefeated d m.cur st.missing
      if m.cur.contains argId then do
        let inAll := if st.first then some (boolVec len m.cur) else st.inAll
        let _ ← m.block d
        prLoop d argId len fuel { m with state := .justDiscarded } { first := false, inAll := inAll, missing := missing }
      else prLoop d argId len fuel m { st with missing := missing }
    | .none => pure (m, true, st.inAll.getD [], st.missing, none)
    | _ => prLoop d argId len fuel m st

/-- skeptical acceptance of the preferred dynamic solver -/
def prSkepQuery (fuel : Nat) (d : DState) (l : Nat) : Prog (DState × AccAns) :=
  match cachedSkep d.buffer.reverse l with
  | (some b, some e) => fromCache d b e
  | _ => do
    let d ← d.updateEncoding
    let nv ← getNVars 0
    let m : DMEC := { sel := nv + 1, additional := d.enc.assumptions }
    let argId ← needArg d.af l
    let len := 1 + (d.af.maxId.getD 0)
    let (m, res, accB, refB, ext) ← prLoop d argId len fuel m { missing := List.replicate len false }
    addClause 0 [pl m.sel]
    pure ({ d with buffer := d.buffer ++ [.skep (boolLabels d accB) (boolLabels d refB) ext] }, ⟨res, ext⟩)

/-! ## entry points -/

inductive DQuery | cred | skep
deriving Repr, DecidableEq

def query (fuel : Nat) (d : DState) (q : DQuery) (l : Nat) : Prog (DState × AccAns) :=
  match d.enc.sem, q with
  | .CO, .cred => credQuery d l
  | .ST, .cred => credQuery d l
  | .ST, .skep => stSkepQuery d l
  | .PR, .skep => prSkepQuery fuel d l
  | _, _ => .crash "not implemented"

end Crusta.Dyn
