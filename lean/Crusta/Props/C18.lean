import Crusta.Proofs.Calls
import Crusta.Proofs.Abstract

/-!
# C18 — every query terminates within a bounded number of SAT calls (property theorems)

Two layers.  (1) On the `Prog` models of the real procedures, for **arbitrary** reply lists:
CO makes at most one call, ST at most two per connected component.  (2) On the set-level search
procedures (`Proofs/Abstract`), for every **sound** reply list: the grow loop makes at most
`|U| - |start| + 1` calls and ends in a ⊆-maximal base set; the skeptical search never examines a
candidate twice and makes at most `|base| + 1` calls; the range-guided loop ends in a maximal range.
The link between the two layers for PR/ID/SST/STG is established by trace correspondence (the
recorded call count equals the program's on the same replies) and by the measured bound.
-/

namespace Crusta.C18
open Crusta

/-- the number of SAT calls of a run is the number of replies it consumed -/
theorem calls_eq_replies_consumed (sk : SolverKind) (cfg : Cfg) (v : FwView) (e : Entry)
    (p : Prog Ans) (_hp : entryProg sk cfg v e = some p)
    (rs : List Reply) (w w' : World) (a : Ans) (h : interp p rs w = (.done a, w')) :
    w'.calls - w.calls ≤ rs.length :=
  (done_consumed_no_unknown p rs w w' a h).1

/-- CO: at most one SAT call per query, for every framework, encoder and reply -/
theorem co_calls (cfg : Cfg) (v : FwView) (args : List Nat) :
    Bounded (coDC cfg v args) 1 ∧ Bounded (coDCcert cfg v args) 1 :=
  ⟨coDC_bounded cfg v args, coDCcert_bounded cfg v args⟩

/-- ST: one call per component for SE, at most two per component for DC/DS -/
theorem st_calls (v : FwView) (args : List Nat) :
    Bounded (stSE v) (allComps v).length ∧
    Bounded (stDC v args) (2 * (allComps v).length) ∧
    Bounded (stDS v args) (2 * (allComps v).length) :=
  ⟨stSE_bounded v, stAcc_bounded v args true false, stAcc_bounded v args false true⟩

/-- PR (set level): the grow loop of `compute_maximal` returns a ⊆-maximal base set and makes at
most `|U| - |start| + 1` calls, for every sound oracle -/
theorem pr_grow {α : Type} [DecidableEq α] (base : Finset α → Prop) (U : Finset α)
    (hU : ∀ S, base S → S ⊆ U) (rs : List (Abs.SReply α)) (cur : Finset α) (res : Finset α × Nat)
    (hb : base cur) (hs : Abs.GrowSound base rs cur []) (h : Abs.grow rs cur [] = some res) :
    Abs.IsMaxBase base res.1 ∧ cur ⊆ res.1 ∧ res.2 + cur.card ≤ U.card + 1 :=
  ⟨(Abs.grow_maximal base rs cur [] res hb (by simp) hs h).1,
   (Abs.grow_maximal base rs cur [] res hb (by simp) hs h).2,
   Abs.grow_calls base U hU rs cur [] res hb hs h⟩

/-- PR (set level): the skeptical search answers correctly and makes at most `|base| + 1` calls;
no candidate set is examined twice -/
theorem pr_skeptical {α : Type} [DecidableEq α] [Fintype α] (base : Finset α → Prop) [DecidablePred base]
    (a : α) (rs : List (Abs.SReply α)) (start : Finset α) (res : Option (Finset α) × Nat)
    (hb : base start) (hs : Abs.SkeptSound base a rs start []) (h : Abs.skept a rs start [] = some res) :
    (∀ M, res.1 = some M → Abs.IsMaxBase base M ∧ a ∉ M) ∧
    (res.1 = none → ∀ M, Abs.IsMaxBase base M → a ∈ M) ∧
    res.2 ≤ (Finset.univ.filter base).card := by
  have h1 := Abs.skept_correct base a rs start [] res ⟨hb, by simp, by simp⟩ hs h
  have h2 := Abs.skept_calls base a rs start [] res hb (by simp) (by simp) hs h
  refine ⟨h1.1, h1.2, ?_⟩
  simp at h2; omega

/-- SST / STG (set level): at UNSAT the asserted range is the true range and is maximal -/
theorem range_grow {α : Type} [DecidableEq α] (c : Abs.RCtx α) (rs : List (Abs.RReply α))
    (S R : Finset α) (res : Finset α × Finset α) (hb : c.base S) (hSR : S ⊆ R) (hR : R ⊆ c.rg S)
    (hs : Abs.RSoundRun c rs R []) (h : Abs.rgrow rs S R [] = some res) :
    Abs.MaxRange c res.1 ∧ res.2 = c.rg res.1 :=
  Abs.rgrow_correct c rs S R [] res hb hSR hR (by simp) hs h

end Crusta.C18
