import Crusta.Proofs.StaticAll
import Crusta.Proofs.Oracle

/-!
# Every list returned by a static solver is duplicate-free; the run-time judge accepts the answers

`EntryOK` (`StaticSpec`) speaks of the *set* `ofList e` of a returned list.  The property text
(C01–C04) and the run-time judge `checkAnswer` also demand that the list has no duplicates.

* `wp_and`: conjunction rule of the calculus.
* `Leaves P p`: every `pure` leaf of the program tree `p` satisfies `P` — whatever the SAT solver
  replies (sound or not).  Duplicate-freeness does not depend on the replies: every returned list is
  a concatenation over pairwise disjoint components of `c.back e`, `e` duplicate-free.
* `static_answers_nodup`: `AnsNodup` of every answer of every entry point.
* `entryOK_conforms`, `static_answers_accepted_by_judge`: on a compact well-formed framework the
  judge accepts every answer of every run on sound replies.
-/

namespace Crusta
open Prog (mkSolver doReserve addClause addClauses getNVars doSolve)

/-! ## conjunction rule -/

/-! ## properties of all leaves of a program -/

/-- every value the program can return (on any replies at all) satisfies `P` -/
def Leaves {α : Type} (P : α → Prop) : Prog α → Prop
  | .pure a => P a
  | .crash _ => True
  | .newSolver k => ∀ i, Leaves P (k i)
  | .reserve _ _ k => Leaves P k
  | .clause _ _ k => Leaves P k
  | .nVars _ k => ∀ n, Leaves P (k n)
  | .solve _ _ k => ∀ r, Leaves P (k r)

theorem Leaves.wp {α : Type} {P : α → Prop} (p : Prog α) (w : World) :
    Leaves P p → wp True p w (fun a _ => P a) := by
  induction p generalizing w with
  | pure a0 => intro h; exact h
  | crash m => intro _; trivial
  | newSolver k ih => intro h; exact ih _ _ (h _)
  | reserve s n k ih => intro h; exact ih _ h
  | clause s c k ih => intro h; exact ih _ h
  | nVars s k ih => intro h; exact ih _ _ (h _)
  | solve s as k ih => intro h; exact ⟨fun m _ => ih _ _ (h _), fun _ => ih _ _ (h _)⟩

theorem Leaves.mono {α : Type} {P Q : α → Prop} (hpq : ∀ a, P a → Q a) (p : Prog α) :
    Leaves P p → Leaves Q p := by
  induction p with
  | pure a0 => intro h; exact hpq _ h
  | crash m => intro _; trivial
  | newSolver k ih => intro h i; exact ih i (h i)
  | reserve s n k ih => intro h; exact ih h
  | clause s c k ih => intro h; exact ih h
  | nVars s k ih => intro h i; exact ih i (h i)
  | solve s as k ih => intro h r; exact ih r (h r)

theorem Leaves.triv {α : Type} (p : Prog α) : Leaves (fun _ => True) p := by
  induction p with
  | pure a0 => trivial
  | crash m => trivial
  | newSolver k ih => intro i; exact ih i
  | reserve s n k ih => exact ih
  | clause s c k ih => exact ih
  | nVars s k ih => intro i; exact ih i
  | solve s as k ih => intro r; exact ih r

theorem Leaves.bind_iff {α β : Type} {Q : β → Prop} (p : Prog α) (f : α → Prog β) :
    Leaves Q (p.bind f) ↔ Leaves (fun a => Leaves Q (f a)) p := by
  induction p with
  | pure a0 => exact Iff.rfl
  | crash m => exact Iff.rfl
  | newSolver k ih => exact forall_congr' fun i => ih i
  | reserve s n k ih => exact ih
  | clause s c k ih => exact ih
  | nVars s k ih => exact forall_congr' fun i => ih i
  | solve s as k ih => exact forall_congr' fun r => ih r

/-- sequencing: what is known of the leaves of `p` may be used for the continuation -/
theorem Leaves.bind {α β : Type} {R : α → Prop} {Q : β → Prop} {p : Prog α} {f : α → Prog β}
    (hp : Leaves R p) (hf : ∀ a, R a → Leaves Q (f a)) : Leaves Q (p >>= f) :=
  (Leaves.bind_iff p f).2 (Leaves.mono hf p hp)

/-- sequencing, nothing known (or needed) of the first program -/
theorem Leaves.bind_all {α β : Type} {Q : β → Prop} {p : Prog α} {f : α → Prog β}
    (hf : ∀ a, Leaves Q (f a)) : Leaves Q (p >>= f) :=
  Leaves.bind (Leaves.triv p) (fun a _ => hf a)

theorem Leaves.pure {α : Type} {P : α → Prop} {a : α} (h : P a) : Leaves P (Pure.pure a : Prog α) := h

/-! ## lists -/

/-- mapping duplicate-free positions back through a duplicate-free list of ids -/
theorem back_nodup {c : Comp} (hnd : c.ids.Nodup) {e : List Nat} (he : e.Nodup) : (c.back e).Nodup := by
  unfold Comp.back
  refine List.Pairwise.filterMap _ ?_ he
  intro i j hij a ha b hb hab
  subst hab
  have h1 := posOf_nodup c.ids a i hnd ha
  have h2 := posOf_nodup c.ids a j hnd hb
  rw [h1] at h2
  exact hij (Option.some.inj h2)

theorem back_mem_ids {c : Comp} {e : List Nat} : ∀ a ∈ c.back e, a ∈ c.ids := by
  intro a ha
  unfold Comp.back at ha
  obtain ⟨i, _, hi⟩ := List.mem_filterMap.1 ha
  exact List.mem_of_getElem? hi

/-- the piece of an answer contributed by a component: no duplicates, ids of the component -/
def Piece (c : Comp) (r : List Nat) : Prop := r.Nodup ∧ ∀ a ∈ r, a ∈ c.ids

theorem piece_back {g : G} {c : Comp} (hc : GoodComp g c) {e : List Nat} (he : e.Nodup) : Piece c (c.back e) :=
  ⟨back_nodup hc.nodup he, back_mem_ids⟩

theorem nodup_append_piece {acc r : List Nat} (hacc : acc.Nodup) (hr : r.Nodup) (hd : ∀ a ∈ acc, a ∉ r) :
    (acc ++ r).Nodup := by
  rw [List.nodup_append]
  exact ⟨hacc, hr, fun a ha b hb hab => hd a ha (hab ▸ hb)⟩

theorem grounded_nodup_of_good {g : G} {c : Comp} (hc : GoodComp g c) : (groundedV c.af.view).Nodup :=
  (groundedV_spec _ _ (AF.view_ok c.af (Comp.af_wf hc))).2.1

/-! ## the maximal-extension computer -/

/-- the current set of a computer has no duplicates, and neither has the grounded extension it starts from -/
def MEC.ND (m : MEC) : Prop := m.cur.Nodup ∧ (groundedV m.af.view).Nodup

theorem leaves_MEC_new (af : AF) (enc : EncKind) (s : Nat) (kind : MKind) (hgr : (groundedV af.view).Nodup) :
    Leaves MEC.ND (MEC.new af enc s kind) := by
  unfold MEC.new
  apply Leaves.bind_all
  intro nv
  exact ⟨List.nodup_nil, hgr⟩

theorem leaves_MEC_solve (m : MEC) (as : List Lit) :
    Leaves (fun r => ∀ mdl ext, r = some (mdl, ext) → ext.Nodup) (m.solve as) := by
  unfold MEC.solve
  apply Leaves.bind_all
  intro r
  apply Leaves.pure
  intro mdl ext h
  cases r with
  | none => cases h
  | some m0 =>
    simp only [Option.map_some, Option.some.injEq, Prod.mk.injEq] at h
    rw [← h.2]
    exact EncKind.decode_nodup _ _ _

theorem leaves_newSearch (m : MEC) (h : m.ND) : Leaves MEC.ND m.newSearch := by
  unfold MEC.newSearch
  refine Leaves.bind (leaves_MEC_solve m _) ?_
  intro r hr
  cases r with
  | none => exact h
  | some p =>
    obtain ⟨mdl, ext⟩ := p
    exact ⟨hr mdl ext rfl, h.2⟩

theorem leaves_computeNext (m : MEC) (h : m.ND) : Leaves MEC.ND m.computeNext := by
  unfold MEC.computeNext
  split
  · exact ⟨h.2, h.2⟩
  · generalize m.blockAndAssume = ba
    obtain ⟨cl, as⟩ := ba
    apply Leaves.bind_all
    intro _
    refine Leaves.bind (leaves_MEC_solve m _) ?_
    intro r hr
    cases r with
    | none => exact h
    | some p =>
      obtain ⟨mdl, ext⟩ := p
      exact ⟨hr mdl ext rfl, h.2⟩
  · apply Leaves.bind_all
    intro _
    exact leaves_newSearch m h
  · exact leaves_newSearch m h
  · trivial

theorem leaves_discard (m : MEC) (h : m.ND) : Leaves MEC.ND m.discardCurrentSearch := by
  unfold MEC.discardCurrentSearch
  apply Leaves.bind_all
  intro _
  exact h

theorem leaves_computeMaximal : ∀ (fuel : Nat) (m : MEC), m.ND → Leaves List.Nodup (MEC.computeMaximal fuel m)
  | 0, _, _ => trivial
  | fuel + 1, m, h => by
    unfold MEC.computeMaximal
    split
    · apply Leaves.bind_all
      intro _
      exact h.1
    · exact Leaves.bind (leaves_computeNext m h) (fun m' h' => leaves_computeMaximal fuel m' h')

/-- what the acceptance loops return: an optional duplicate-free list -/
def OptND (r : Bool × Option (List Nat)) : Prop := ∀ e, r.2 = some e → e.Nodup

theorem leaves_prSkeptLoop (sc : Bool) (pos : List Nat) : ∀ (fuel : Nat) (m : MEC), m.ND →
    Leaves OptND (prSkeptLoop sc pos fuel m)
  | 0, _, _ => trivial
  | fuel + 1, m, h => by
    unfold prSkeptLoop
    refine Leaves.bind (leaves_computeNext m h) ?_
    intro m1 h1
    have hret : Leaves OptND (m1.drop >>= fun _ => (Pure.pure (false, some m1.cur) : Prog _)) := by
      apply Leaves.bind_all
      intro _ e he
      cases he
      exact h1.1
    split
    · split
      · exact hret
      · exact leaves_prSkeptLoop sc pos fuel m1 h1
    · split
      · exact Leaves.bind (leaves_discard m1 h1) (fun m2 h2 => leaves_prSkeptLoop sc pos fuel m2 h2)
      · split
        · exact hret
        · exact leaves_prSkeptLoop sc pos fuel m1 h1
    · apply Leaves.bind_all
      intro _ e he
      cases he
    · exact leaves_prSkeptLoop sc pos fuel m1 h1

theorem leaves_rgAccLoop (cred : Bool) (pos : List Nat) : ∀ (fuel : Nat) (m : MEC), m.ND →
    Leaves OptND (rgAccLoop cred pos fuel m)
  | 0, _, _ => trivial
  | fuel + 1, m, h => by
    unfold rgAccLoop
    refine Leaves.bind (leaves_computeNext m h) ?_
    intro m1 h1
    have hdec : ∀ mdl : Model, Leaves OptND
        (m1.drop >>= fun _ => (Pure.pure (cred, some (m1.enc.decode m1.af.n mdl)) : Prog _)) := by
      intro mdl
      apply Leaves.bind_all
      intro _ e he
      cases he
      exact EncKind.decode_nodup _ _ _
    split
    · split
      · apply Leaves.bind_all
        intro _ e he
        cases he
        exact h1.1
      · generalize splitInRange m1 = sp
        obtain ⟨inR, notR⟩ := sp
        dsimp only
        split
        · apply Leaves.bind_all
          intro nv
          apply Leaves.bind_all
          intro _
          apply Leaves.bind_all
          intro r
          apply Leaves.bind_all
          intro _
          cases r with
          | none => exact leaves_rgAccLoop cred pos fuel m1 h1
          | some mdl => exact hdec mdl
        · apply Leaves.bind_all
          intro r
          cases r with
          | none => exact leaves_rgAccLoop cred pos fuel m1 h1
          | some mdl => exact hdec mdl
    · apply Leaves.bind_all
      intro _ e he
      cases he
    · exact leaves_rgAccLoop cred pos fuel m1 h1

/-! ## loops over components -/

/-- two (optional) components share no id -/
def DisjOpt (x y : Option Comp) : Prop := ∀ c c', x = some c → y = some c' → ∀ a, a ∈ c.ids → a ∉ c'.ids

/-- invariant of the loops over the list of components: the accumulated answer has no duplicates and
shares no id with the components that are still to come, which are good and pairwise disjoint -/
structure AccInv (g : G) (comps : List (Option Comp)) (acc : List Nat) : Prop where
  nodup : acc.Nodup
  good : ∀ c, some c ∈ comps → GoodComp g c
  disj : comps.Pairwise DisjOpt
  fresh : ∀ c, some c ∈ comps → ∀ a ∈ acc, a ∉ c.ids

theorem AccInv.init (v : FwView) (g : G) (hv : v.Ok g) : AccInv g (allComps v) [] := by
  obtain ⟨h1, h2, _⟩ := allComps_spec v g hv
  refine ⟨List.nodup_nil, ?_, h2, fun _ _ a ha => by cases ha⟩
  intro c hc
  obtain ⟨c', hc', hg, _⟩ := h1 _ hc
  cases hc'
  exact hg

theorem AccInv.head {g : G} {c : Comp} {rest : List (Option Comp)} {acc : List Nat}
    (h : AccInv g (some c :: rest) acc) : GoodComp g c := h.good c List.mem_cons_self

theorem AccInv.step {g : G} {c : Comp} {rest : List (Option Comp)} {acc r : List Nat}
    (h : AccInv g (some c :: rest) acc) (hr : Piece c r) : AccInv g rest (acc ++ r) := by
  obtain ⟨hd1, hd2⟩ := List.pairwise_cons.1 h.disj
  refine ⟨nodup_append_piece h.nodup hr.1 (fun a ha har => h.fresh c List.mem_cons_self a ha (hr.2 a har)),
    fun c' hc' => h.good c' (List.mem_cons_of_mem _ hc'), hd2, ?_⟩
  intro c' hc' a ha
  rcases List.mem_append.1 ha with ha | ha
  · exact h.fresh c' (List.mem_cons_of_mem _ hc') a ha
  · exact hd1 _ hc' c c' rfl rfl a (hr.2 a ha)

theorem leaves_needComp' {β : Type} {Q : β → Prop} (oc : Option Comp) (k : Comp → Prog β)
    (h : ∀ c, oc = some c → Leaves Q (k c)) : Leaves Q (needComp' oc >>= k) := by
  cases oc with
  | none => trivial
  | some c => exact h c rfl

theorem leaves_forEachComp (g : G) (f : Comp → Prog (List Nat))
    (hf : ∀ c, GoodComp g c → Leaves (Piece c) (f c)) :
    ∀ (comps : List (Option Comp)) (acc : List Nat), AccInv g comps acc →
      Leaves List.Nodup (forEachComp f comps acc)
  | [], acc, h => h.nodup
  | oc :: rest, acc, h => by
    unfold forEachComp
    apply leaves_needComp'
    intro c hc
    subst hc
    refine Leaves.bind (hf c h.head) ?_
    intro r hr
    exact leaves_forEachComp g f hf rest (acc ++ r) (h.step hr)

theorem leaves_otherCompsWith (v : FwView) (g : G) (hv : v.Ok g) (f : Comp → Prog (List Nat))
    (hf : ∀ c, GoodComp g c → Leaves (Piece c) (f c)) :
    ∀ (fuel : Nat) (cc : CC) (marked : Nat → Prop) (acc : List Nat), CCInv v g cc marked → acc.Nodup →
      (∀ a ∈ acc, marked a) → Leaves List.Nodup (otherCompsWith v f fuel cc acc)
  | 0, _, _, _, _, _, _ => trivial
  | fuel + 1, cc, marked, acc, hI, hnd, hm => by
    obtain ⟨_, hsome⟩ := CC.nextComp_spec v g hv cc marked hI
    unfold otherCompsWith
    cases hnc : CC.nextComp v cc with
    | none => exact hnd
    | some p =>
      obtain ⟨oc, cc'⟩ := p
      obtain ⟨c, rfl, hgood, _, hnm, hI'⟩ := hsome oc cc' hnc
      dsimp only
      apply leaves_needComp'
      intro c' hc'
      injection hc' with hc'; subst hc'
      refine Leaves.bind (hf c hgood) ?_
      intro r hr
      refine leaves_otherCompsWith v g hv f hf fuel cc' _ (acc ++ r) hI' ?_ ?_
      · exact nodup_append_piece hnd hr.1 (fun a ha har => hnm a (hr.2 a har) (hm a ha))
      · intro a ha
        rcases List.mem_append.1 ha with ha | ha
        · exact Or.inl (hm a ha)
        · exact Or.inr (hr.2 a ha)

/-- the merged component of the queried arguments -/
theorem leaves_needMerged (v : FwView) (g : G) (hv : v.Ok g) (args : List Nat)
    (hargs : ∀ a ∈ args, g.live a = true) {β : Type} {Q : β → Prop} (k : Comp × CC → Prog β)
    (hk : ∀ c cc, GoodComp g c → CCInv v g cc (fun a => a ∈ c.ids) → Leaves Q (k (c, cc))) :
    Leaves Q (needComp (CC.mergedOf v (CC.new v) args) >>= k) := by
  cases hm : CC.mergedOf v (CC.new v) args with
  | none => trivial
  | some p =>
    obtain ⟨oc, cc⟩ := p
    obtain ⟨c, rfl, hgood, _, hI⟩ := CC.mergedOf_spec v g hv args hargs oc cc hm
    exact hk c cc hgood hI

/-! ## what the solvers compute on one component -/

/-- certificate slot of an acceptance answer -/
def CertND (a : AccAns) : Prop := ∀ e, a.cert = some e → e.Nodup

/-- optional extension -/
def OptL (r : Option (List Nat)) : Prop := ∀ e, r = some e → e.Nodup

theorem certND_none (st : Bool) : CertND ⟨st, none⟩ := fun _ h => by cases h

theorem certND_some (st : Bool) {e : List Nat} (h : e.Nodup) : CertND ⟨st, some e⟩ := fun _ he => by
  cases he; exact h

theorem leaves_prMaximalOfComp (cfg : Cfg) {g : G} {c : Comp} (hc : GoodComp g c) :
    Leaves (Piece c) (prMaximalOfComp cfg c) := by
  unfold prMaximalOfComp
  apply Leaves.bind_all; intro s
  apply Leaves.bind_all; intro _
  refine Leaves.bind (leaves_MEC_new _ _ _ _ (grounded_nodup_of_good hc)) ?_
  intro m hm
  refine Leaves.bind (leaves_computeMaximal _ m hm) ?_
  intro e he
  exact piece_back hc he

theorem leaves_rgMaximalOfComp (cfg : Cfg) {g : G} {c : Comp} (hc : GoodComp g c) :
    Leaves (Piece c) (rgMaximalOfComp cfg c) := by
  unfold rgMaximalOfComp
  apply Leaves.bind_all; intro s
  apply Leaves.bind_all; intro _
  refine Leaves.bind (leaves_MEC_new _ _ _ _ (grounded_nodup_of_good hc)) ?_
  intro m hm
  refine Leaves.bind (leaves_computeMaximal _ m hm) ?_
  intro e he
  exact piece_back hc he

theorem leaves_prSkeptInCc (cfg : Cfg) {g : G} {c : Comp} (hc : GoodComp g c) (args : List Nat) (sc : Bool) :
    Leaves OptND (prSkeptInCc cfg c args sc) := by
  unfold prSkeptInCc
  apply Leaves.bind_all; intro pos
  apply Leaves.bind_all; intro s
  apply Leaves.bind_all; intro _
  refine Leaves.bind (leaves_MEC_new _ _ _ _ (grounded_nodup_of_good hc)) ?_
  intro m hm
  exact leaves_prSkeptLoop sc pos _ m hm

theorem leaves_rgAccInCc (cfg : Cfg) {g : G} {c : Comp} (hc : GoodComp g c) (args : List Nat) (cred : Bool) :
    Leaves OptND (rgAccInCc cfg c args cred) := by
  unfold rgAccInCc
  apply Leaves.bind_all; intro pos
  apply Leaves.bind_all; intro s
  apply Leaves.bind_all; intro _
  refine Leaves.bind (leaves_MEC_new _ _ _ _ (grounded_nodup_of_good hc)) ?_
  intro m hm
  exact leaves_rgAccLoop cred pos _ m hm

theorem leaves_idFinish (cfg : Cfg) (c : Comp) (s : Nat) (gr : List Nat) (ia : InAll) (hgr : gr.Nodup)
    (hgc : (groundedV c.af.view).Nodup) : Leaves List.Nodup (idFinish cfg c s gr ia) := by
  unfold idFinish
  split
  · exact hgr
  · split
    · exact List.Pairwise.filter _ List.nodup_range
    · dsimp only
      refine Leaves.bind (leaves_MEC_new _ _ _ _ hgc) ?_
      intro m hm
      exact leaves_computeMaximal _ m hm

theorem leaves_idOneForCc (cfg : Cfg) {g : G} {c : Comp} (hc : GoodComp g c) :
    Leaves List.Nodup (idOneForCc cfg c) := by
  unfold idOneForCc
  dsimp only
  apply Leaves.bind_all; intro s
  apply Leaves.bind_all; intro ia
  exact leaves_idFinish cfg c s _ ia (grounded_nodup_of_good hc) (grounded_nodup_of_good hc)

theorem leaves_idPiece (cfg : Cfg) {g : G} {c : Comp} (hc : GoodComp g c) :
    Leaves (Piece c) (idOneForCc cfg c >>= fun e => (Pure.pure (c.back e) : Prog _)) :=
  Leaves.bind (leaves_idOneForCc cfg hc) (fun _ he => piece_back hc he)

theorem leaves_idCredForCc (cfg : Cfg) {g : G} {c : Comp} (hc : GoodComp g c) (pos : List Nat) :
    Leaves OptND (idCredForCc cfg c pos) := by
  unfold idCredForCc
  dsimp only
  apply Leaves.bind_all; intro s
  apply Leaves.bind_all; intro ia
  split
  · intro e he; cases he
  · refine Leaves.bind (leaves_idFinish cfg c s _ ia (grounded_nodup_of_good hc) (grounded_nodup_of_good hc)) ?_
    intro ext hext
    split
    · intro e he; cases he; exact hext
    · intro e he; cases he

/-! ## single-extension entry points -/

theorem leaves_grSE (v : FwView) (g : G) (hv : v.Ok g) : Leaves OptL (grSE v) := by
  intro e he
  cases he
  exact (groundedV_spec v g hv).2.1

theorem leaves_prSE (cfg : Cfg) (v : FwView) (g : G) (hv : v.Ok g) : Leaves OptL (prSE cfg v) := by
  unfold prSE
  refine Leaves.bind (leaves_forEachComp g _ (fun c hc => leaves_prMaximalOfComp cfg hc) _ _ (AccInv.init v g hv)) ?_
  intro r hr e he
  cases he; exact hr

theorem leaves_rgSE (cfg : Cfg) (v : FwView) (g : G) (hv : v.Ok g) : Leaves OptL (rgSE cfg v) := by
  unfold rgSE
  refine Leaves.bind (leaves_forEachComp g _ (fun c hc => leaves_rgMaximalOfComp cfg hc) _ _ (AccInv.init v g hv)) ?_
  intro r hr e he
  cases he; exact hr

theorem leaves_idSE (cfg : Cfg) (v : FwView) (g : G) (hv : v.Ok g) : Leaves OptL (idSE cfg v) := by
  unfold idSE
  refine Leaves.bind (leaves_forEachComp g _ ?_ _ _ (AccInv.init v g hv)) ?_
  · intro c hc
    apply Leaves.bind_all; intro s0
    apply Leaves.bind_all; intro _
    exact leaves_idPiece cfg hc
  · intro r hr e he
    cases he; exact hr

theorem piece_stb {g : G} {c : Comp} (hc : GoodComp g c) (mdl : Model) :
    Piece c (c.back (Stb.decode c.af.n mdl)) :=
  piece_back hc (EncKind.decode_nodup .stb _ _)

theorem leaves_stSE_go (g : G) : ∀ (comps : List (Option Comp)) (acc : List Nat), AccInv g comps acc →
    Leaves OptL (stSE.go comps acc)
  | [], acc, h => by
    unfold stSE.go
    intro e he; cases he; exact h.nodup
  | oc :: rest, acc, h => by
    unfold stSE.go
    apply leaves_needComp'
    intro c hc
    subst hc
    apply Leaves.bind_all; intro s
    apply Leaves.bind_all; intro _
    apply Leaves.bind_all; intro r
    cases r with
    | none => intro e he; cases he
    | some mdl => exact leaves_stSE_go g rest _ (h.step (piece_stb h.head mdl))

theorem leaves_stSE (v : FwView) (g : G) (hv : v.Ok g) : Leaves OptL (stSE v) := by
  unfold stSE
  exact leaves_stSE_go g _ _ (AccInv.init v g hv)

/-! ## acceptance entry points -/

theorem leaves_stAcc_go (g : G) (args : List Nat) (pol st : Bool) :
    ∀ (comps : List (Option Comp)) (acc : List Nat) (found : Bool), AccInv g comps acc →
      Leaves CertND (stAcc.go args pol st comps acc found)
  | [], acc, found, h => by
    unfold stAcc.go
    split
    · exact certND_none _
    · exact certND_some _ h.nodup
  | oc :: rest, acc, found, h => by
    unfold stAcc.go
    apply leaves_needComp'
    intro c hc
    subst hc
    have hgo : ∀ (mdl : Model) (fd : Bool),
        Leaves CertND (stAcc.go args pol st rest (acc ++ c.back (Stb.decode c.af.n mdl)) fd) :=
      fun mdl fd => leaves_stAcc_go g args pol st rest _ fd (h.step (piece_stb h.head mdl))
    apply Leaves.bind_all; intro s
    apply Leaves.bind_all; intro _
    dsimp only
    split
    · split
      · apply Leaves.bind_all; intro nv
        apply Leaves.bind_all; intro _
        apply Leaves.bind_all; intro r
        apply Leaves.bind_all; intro _
        cases r with
        | some mdl => exact hgo mdl true
        | none =>
          apply Leaves.bind_all; intro r2
          cases r2 with
          | some mdl => exact hgo mdl found
          | none => exact certND_none _
      · apply Leaves.bind_all; intro r
        cases r with
        | some mdl => exact hgo mdl found
        | none => exact certND_none _
    · apply Leaves.bind_all; intro r
      cases r with
      | some mdl => exact hgo mdl found
      | none => exact certND_none _

theorem leaves_stAcc (v : FwView) (g : G) (hv : v.Ok g) (args : List Nat) (pol st : Bool) :
    Leaves CertND (stAcc v args pol st) := by
  unfold stAcc
  exact leaves_stAcc_go g args pol st _ _ _ (AccInv.init v g hv)

theorem leaves_grDC (v : FwView) (g : G) (hv : v.Ok g) (args : List Nat) (cert : Bool) :
    Leaves CertND (grDC v args cert) := by
  unfold grDC
  dsimp only
  split
  · exact certND_some _ (groundedV_spec v g hv).2.1
  · exact certND_none _

theorem leaves_grDS (v : FwView) (g : G) (hv : v.Ok g) (args : List Nat) (cert : Bool) :
    Leaves CertND (grDS v args cert) := by
  unfold grDS
  dsimp only
  split
  · exact certND_none _
  · exact certND_some _ (groundedV_spec v g hv).2.1

theorem leaves_coDC (cfg : Cfg) (v : FwView) (args : List Nat) : Leaves CertND (coDC cfg v args) := by
  unfold coDC
  apply Leaves.bind_all; intro s
  apply Leaves.bind_all; intro p
  obtain ⟨c, cc⟩ := p
  dsimp only
  apply Leaves.bind_all; intro _
  apply Leaves.bind_all; intro nv
  apply Leaves.bind_all; intro pos
  apply Leaves.bind_all; intro _
  apply Leaves.bind_all; intro r
  apply Leaves.bind_all; intro _
  exact certND_none _

theorem leaves_coDCcert (cfg : Cfg) (v : FwView) (g : G) (hv : v.Ok g) (args : List Nat)
    (hargs : ∀ a ∈ args, g.live a = true) : Leaves CertND (coDCcert cfg v args) := by
  unfold coDCcert
  apply leaves_needMerged v g hv args hargs
  intro c cc hgood hI
  dsimp only
  apply Leaves.bind_all; intro s
  apply Leaves.bind_all; intro _
  apply Leaves.bind_all; intro nv
  apply Leaves.bind_all; intro pos
  apply Leaves.bind_all; intro _
  apply Leaves.bind_all; intro r
  cases r with
  | none => exact certND_none _
  | some mdl =>
    dsimp only
    refine Leaves.bind (leaves_otherCompsWith v g hv _ ?_ _ cc _ _ hI
      (back_nodup hgood.nodup (EncKind.decode_nodup _ _ _)) back_mem_ids) ?_
    · intro oc hoc
      exact piece_back hoc (grounded_nodup_of_good hoc)
    · intro all hall
      exact certND_some _ hall

theorem leaves_prDS (cfg : Cfg) (v : FwView) (args : List Nat) : Leaves CertND (prDS cfg v args) := by
  unfold prDS
  apply Leaves.bind_all; intro p
  obtain ⟨c, cc⟩ := p
  dsimp only
  apply Leaves.bind_all; intro r
  obtain ⟨st, oe⟩ := r
  exact certND_none _

theorem leaves_prDScert (cfg : Cfg) (v : FwView) (g : G) (hv : v.Ok g) (args : List Nat)
    (hargs : ∀ a ∈ args, g.live a = true) : Leaves CertND (prDScert cfg v args) := by
  unfold prDScert
  apply leaves_needMerged v g hv args hargs
  intro c cc hgood hI
  dsimp only
  refine Leaves.bind (leaves_prSkeptInCc cfg hgood args false) ?_
  intro r hr
  obtain ⟨st, oe⟩ := r
  cases st with
  | true => exact certND_none _
  | false =>
    cases oe with
    | none => trivial
    | some e =>
      dsimp only
      refine Leaves.bind (leaves_otherCompsWith v g hv _ (fun oc hoc => leaves_prMaximalOfComp cfg hoc) _ cc _ _ hI
        (back_nodup hgood.nodup (hr e rfl)) back_mem_ids) ?_
      intro all hall
      exact certND_some _ hall

theorem leaves_rgAcc (cfg : Cfg) (v : FwView) (args : List Nat) (cred : Bool) :
    Leaves CertND (rgAcc cfg v args cred) := by
  unfold rgAcc
  apply Leaves.bind_all; intro p
  obtain ⟨c, cc⟩ := p
  dsimp only
  apply Leaves.bind_all; intro r
  obtain ⟨st, oe⟩ := r
  exact certND_none _

theorem leaves_rgAccCert (cfg : Cfg) (v : FwView) (g : G) (hv : v.Ok g) (args : List Nat)
    (hargs : ∀ a ∈ args, g.live a = true) (cred : Bool) : Leaves CertND (rgAccCert cfg v args cred) := by
  unfold rgAccCert
  apply leaves_needMerged v g hv args hargs
  intro c cc hgood hI
  dsimp only
  refine Leaves.bind (leaves_rgAccInCc cfg hgood args cred) ?_
  intro r hr
  obtain ⟨st, oe⟩ := r
  cases oe with
  | none => exact certND_none _
  | some e =>
    dsimp only
    refine Leaves.bind (leaves_otherCompsWith v g hv _ (fun oc hoc => leaves_rgMaximalOfComp cfg hoc) _ cc _ _ hI
      (back_nodup hgood.nodup (hr e rfl)) back_mem_ids) ?_
    intro all hall
    exact certND_some _ hall

theorem leaves_idDC (cfg : Cfg) (v : FwView) (args : List Nat) : Leaves CertND (idDC cfg v args) := by
  unfold idDC
  apply Leaves.bind_all; intro p
  obtain ⟨c, cc⟩ := p
  dsimp only
  apply Leaves.bind_all; intro pos
  apply Leaves.bind_all; intro r
  obtain ⟨st, oe⟩ := r
  exact certND_none _

theorem leaves_idDCcert (cfg : Cfg) (v : FwView) (g : G) (hv : v.Ok g) (args : List Nat)
    (hargs : ∀ a ∈ args, g.live a = true) : Leaves CertND (idDCcert cfg v args) := by
  unfold idDCcert
  apply leaves_needMerged v g hv args hargs
  intro c cc hgood hI
  dsimp only
  apply Leaves.bind_all; intro pos
  refine Leaves.bind (leaves_idCredForCc cfg hgood pos) ?_
  intro r hr
  obtain ⟨st, oe⟩ := r
  cases st with
  | false => exact certND_none _
  | true =>
    cases oe with
    | none => exact certND_none _
    | some e =>
      dsimp only
      refine Leaves.bind (leaves_otherCompsWith v g hv _ (fun oc hoc => leaves_idPiece cfg hoc) _ cc _ _ hI
        (back_nodup hgood.nodup (hr e rfl)) back_mem_ids) ?_
      intro all hall
      exact certND_some _ hall

theorem leaves_idDScert (cfg : Cfg) (v : FwView) (g : G) (hv : v.Ok g) (args : List Nat) :
    Leaves CertND (idDScert cfg v args) := by
  unfold idDScert
  refine Leaves.bind (leaves_idSE cfg v g hv) ?_
  intro r hr
  cases r with
  | none => trivial
  | some ext =>
    dsimp only
    split
    · exact certND_none _
    · exact certND_some _ (hr ext rfl)

/-! ## all entry points -/

/-- every list an answer carries (extension or certificate) is duplicate-free -/
def AnsNodup : Ans → Prop
  | .ext (some e) => e.Nodup
  | .ext none => True
  | .acc a _ => ∀ e, a.cert = some e → e.Nodup

theorem leaves_ext {p : Prog (Option (List Nat))} (h : Leaves OptL p) :
    Leaves AnsNodup (p >>= fun r => (Pure.pure (Ans.ext r) : Prog Ans)) := by
  refine Leaves.bind h ?_
  intro r hr
  cases r with
  | none => trivial
  | some e => exact hr e rfl

theorem leaves_certOnly (cv : Bool) {p : Prog AccAns} (h : Leaves CertND p) :
    Leaves AnsNodup (certOnly cv p) := by
  unfold certOnly
  refine Leaves.bind h ?_
  intro a ha
  cases cv with
  | true => exact ha
  | false => intro e he; cases he

/-- the syntactic form of `static_answers_nodup`: whatever the SAT solver replies -/
theorem static_leaves_nodup (sk : SolverKind) (cfg : Cfg) (v : FwView) (g : G) (hv : v.Ok g)
    (e : Entry) (hargs : ∀ a, a ∈ e.argsList → g.live a = true) (p : Prog Ans)
    (hp : entryProg sk cfg v e = some p) : Leaves AnsNodup p := by
  cases e with
  | se =>
    cases sk <;> simp only [entryProg, Option.some.injEq, reduceCtorEq] at hp <;> subst hp
    · exact leaves_ext (leaves_grSE v g hv)
    · exact leaves_ext (leaves_prSE cfg v g hv)
    · exact leaves_ext (leaves_stSE v g hv)
    · exact leaves_ext (leaves_rgSE cfg v g hv)
    · exact leaves_ext (leaves_rgSE cfg v g hv)
    · exact leaves_ext (leaves_idSE cfg v g hv)
  | dc cert args =>
    have hargs' : ∀ a ∈ args, g.live a = true := hargs
    cases sk <;> simp only [entryProg, Option.some.injEq, reduceCtorEq] at hp <;> subst hp <;>
      apply leaves_certOnly
    · exact leaves_grDC v g hv args cert
    · cases cert
      · exact leaves_coDC cfg v args
      · exact leaves_coDCcert cfg v g hv args hargs'
    · exact leaves_stAcc v g hv args _ _
    · cases cert
      · exact leaves_rgAcc cfg v args true
      · exact leaves_rgAccCert cfg v g hv args hargs' true
    · cases cert
      · exact leaves_rgAcc cfg v args true
      · exact leaves_rgAccCert cfg v g hv args hargs' true
    · cases cert
      · exact leaves_idDC cfg v args
      · exact leaves_idDCcert cfg v g hv args hargs'
  | ds cert args =>
    have hargs' : ∀ a ∈ args, g.live a = true := hargs
    cases sk <;> simp only [entryProg, Option.some.injEq, reduceCtorEq] at hp <;> subst hp <;>
      apply leaves_certOnly
    · exact leaves_grDS v g hv args cert
    · cases cert
      · exact leaves_prDS cfg v args
      · exact leaves_prDScert cfg v g hv args hargs'
    · exact leaves_stAcc v g hv args _ _
    · cases cert
      · exact leaves_rgAcc cfg v args false
      · exact leaves_rgAccCert cfg v g hv args hargs' false
    · cases cert
      · exact leaves_rgAcc cfg v args false
      · exact leaves_rgAccCert cfg v g hv args hargs' false
    · cases cert
      · exact leaves_idDC cfg v args
      · exact leaves_idDScert cfg v g hv args

/-- **every list returned by every static solver is duplicate-free** -/
theorem static_answers_nodup (sk : SolverKind) (cfg : Cfg) (_hcfg : CfgOK sk cfg) (v : FwView) (g : G) (hv : v.Ok g)
    (e : Entry) (hargs : ∀ a, a ∈ e.argsList → g.live a = true) (p : Prog Ans)
    (hp : entryProg sk cfg v e = some p) (w : World) (_hb : w.Bounded) :
    wp True p w (fun ans _ => AnsNodup ans) :=
  Leaves.wp p w (static_leaves_nodup sk cfg v g hv e hargs p hp)

/-- the same for runs of the interpreter on sound replies -/
theorem static_answers_nodup_run (sk : SolverKind) (cfg : Cfg) (v : FwView) (g : G)
    (hv : v.Ok g) (e : Entry) (hargs : ∀ a, a ∈ e.argsList → g.live a = true) (p : Prog Ans)
    (hp : entryProg sk cfg v e = some p) (w : World) (rs : List Reply)
    (hs : RunSound p rs w) (ans : Ans) (w' : World) (hrun : interp p rs w = (.done ans, w')) :
    AnsNodup ans :=
  wp_sound p rs w w' ans _ (Leaves.wp p w (static_leaves_nodup sk cfg v g hv e hargs p hp)) hs hrun

/-! ## the run-time judge accepts the answers (compact frameworks) -/

/-- the query the judge is given for an entry point of a solver -/
def queryOf (sk : SolverKind) : Entry → Query
  | .se => ⟨sk.sem, .SE, false, []⟩
  | .dc cert args => ⟨sk.sem, .DC, cert, args⟩
  | .ds cert args => ⟨sk.sem, .DS, cert, args⟩

/-- the answer the judge is given: the certificate slot exists exactly for the certificate variants -/
def answerOf : Ans → Answer
  | .ext r => .se r
  | .acc a cv => .acc a.status (if cv then some a.cert else none)

theorem hitsL_ofList (args e : List Nat) : HitsL args (ofList e) ↔ ∃ a ∈ args, a ∈ e := by
  unfold HitsL
  simp only [ofList_mem]

/-- **an answer that meets `EntryOK` and carries duplicate-free lists conforms** (C01–C04, C07) -/
theorem entryOK_conforms (sk : SolverKind) (af : AF) (_hwf : af.WF) (e : Entry) (ans : Ans)
    (h : EntryOK sk.sem af.g e ans) (hn : AnsNodup ans) : Conforms af (queryOf sk e) (answerOf ans) := by
  have hx : ∀ S, sk.sem.GExt af.g S ↔ sk.sem.Ext af S := gext_compact sk.sem af
  cases e with
  | se =>
    cases ans with
    | acc a cv => exact h.elim
    | ext r =>
      cases r with
      | none => exact ⟨rfl, fun ⟨S, hS⟩ => h.2 rfl ⟨S, (hx S).2 hS⟩⟩
      | some l => exact ⟨rfl, hn, (hx _).1 (h.1 l rfl)⟩
  | dc cert args =>
    cases ans with
    | ext r => exact h.elim
    | acc a cv =>
      obtain ⟨rfl, hd, _⟩ := h
      simp only [queryOf, answerOf, Conforms]
      refine ⟨⟨?_, ?_⟩, ?_⟩
      · intro hs
        obtain ⟨S, hS, hh⟩ := (hd.1 hs).1
        exact ⟨S, (hx S).1 hS, hh⟩
      · rintro ⟨S, hS, hh⟩
        cases hst : a.status with
        | true => rfl
        | false => exact absurd ⟨S, (hx S).2 hS, hh⟩ (hd.2 hst).1
      · cases cv with
        | false => simp [CertConforms]
        | true =>
          simp only [if_true]
          cases hc : a.cert with
          | none =>
            refine ⟨rfl, ?_⟩
            cases hst : a.status with
            | false => rfl
            | true =>
              obtain ⟨l, hl, _⟩ := (hd.1 hst).2 rfl
              rw [hc] at hl; cases hl
          | some l =>
            have hst : a.status = true := by
              cases hst : a.status with
              | true => rfl
              | false =>
                have := (hd.2 hst).2 rfl
                rw [hc] at this; cases this
            obtain ⟨l', hl', hext, hhit⟩ := (hd.1 hst).2 rfl
            rw [hc] at hl'
            cases hl'
            exact ⟨rfl, hst, hn l hc, (hx _).1 hext, (hitsL_ofList args l).1 hhit⟩
  | ds cert args =>
    cases ans with
    | ext r => exact h.elim
    | acc a cv =>
      obtain ⟨rfl, hd, _⟩ := h
      simp only [queryOf, answerOf, Conforms]
      refine ⟨⟨?_, ?_⟩, ?_⟩
      · intro hs S hS
        exact (hd.1 hs).1 S ((hx S).2 hS)
      · intro hall
        cases hst : a.status with
        | true => rfl
        | false =>
          obtain ⟨S, hS, hno⟩ := (hd.2 hst).1
          exact absurd (hall S ((hx S).1 hS)) hno
      · cases cv with
        | false => simp [CertConforms]
        | true =>
          simp only [if_true]
          cases hc : a.cert with
          | none =>
            refine ⟨rfl, ?_⟩
            cases hst : a.status with
            | true => rfl
            | false =>
              obtain ⟨l, hl, _⟩ := (hd.2 hst).2 rfl
              rw [hc] at hl; cases hl
          | some l =>
            have hst : a.status = false := by
              cases hst : a.status with
              | false => rfl
              | true =>
                have := (hd.1 hst).2 rfl
                rw [hc] at this; cases this
            obtain ⟨l', hl', hext, hhit⟩ := (hd.2 hst).2 rfl
            rw [hc] at hl'
            cases hl'
            refine ⟨rfl, by rw [hst]; rfl, hn l hc, (hx _).1 hext, ?_⟩
            intro hh
            exact hhit ((hitsL_ofList args l).2 hh)

/-- **the judge accepts every answer of every static solver**, for every run on sound replies, on
every compact well-formed framework -/
theorem static_answers_accepted_by_judge (sk : SolverKind) (cfg : Cfg) (hcfg : CfgOK sk cfg) (af : AF)
    (hwf : af.WF) (e : Entry) (hargs : ∀ a, a ∈ e.argsList → af.g.live a = true) (p : Prog Ans)
    (hp : entryProg sk cfg af.view e = some p) (w : World) (hb : w.Bounded) (rs : List Reply)
    (hs : RunSound p rs w) (ans : Ans) (w' : World) (hrun : interp p rs w = (.done ans, w')) :
    checkAnswer af (queryOf sk e) (answerOf ans) = .ok () := by
  have hv := AF.view_ok af hwf
  exact (checkAnswer_iff af hwf _ _).2 (entryOK_conforms sk af hwf e ans
    (static_answers_conform sk cfg hcfg af.view af.g hv e hargs p hp w hb rs hs ans w' hrun)
    (static_answers_nodup_run sk cfg af.view af.g hv e hargs p hp w rs hs ans w' hrun))

end Crusta
