#!/usr/bin/env python3
"""Drop corpus cases that are not valid inputs: a corpus case must pass on the unchanged tree (shrinking a failing case
under a seeded defect can produce an ill-formed one, e.g. a query about an argument that was never added)."""
import glob, os, sys
sys.path.insert(0, "/verif/tools")
import common, engine, vcheck

props = vcheck.props if hasattr(vcheck, "props") else None
if props is None:
    import importlib
    props = {}
    for m in ("props_solve", "props_store", "props_enc", "props_meta", "props_io", "props_sat", "props_equiv", "props_dyn", "props_fault", "props_cli"):
        mod = importlib.import_module(m)
        for n in dir(mod):
            c = getattr(mod, n)
            if isinstance(c, type) and issubclass(c, engine.Property) and getattr(c, "id", None):
                props[c.id] = c
common.harness_build()
for d in sorted(glob.glob("/verif/corpus/*")):
    pid = os.path.basename(d)
    if pid not in props:
        continue
    prop = props[pid]()
    runner = common.Runner(pid, "quick")
    for f in sorted(glob.glob(d + "/*.case")):
        keep, dropped = [], 0
        lines = open(f).read().split("\n")
        out = []
        pending_comment = []
        for l in lines:
            if not l.strip():
                continue
            if l.startswith("#"):
                pending_comment.append(l)
                continue
            cases = engine.renumber([l], "k")
            try:
                fs, _, _ = engine.evaluate(prop, runner, cases)
            except Exception as e:
                fs = [e]
            if fs:
                dropped += 1
                pending_comment = [c for c in pending_comment if c.startswith("# failing inputs")]
            else:
                out += pending_comment + [l]
                pending_comment = []
        if any(not x.startswith("#") for x in out):
            open(f, "w").write("\n".join(out) + "\n")
        else:
            os.remove(f)
        print(os.path.relpath(f, "/verif"), "dropped", dropped, flush=True)
    runner.cleanup()
