import Crusta.Proofs.DynReplay
import Crusta.Proofs.StoreRows

/-!
# The queries of the dynamic solvers answer for the pending framework

`CredOK` / `SkepOK` say what a correct answer is (relative to the framework `st` and the queried
label); `CacheSound` says that every cached computation that a later query may still read is a true
statement about the pending framework.  The theorems are `wp` statements: they hold for every run of
the model on sound replies (`wp_sound`).
-/

namespace Crusta.Dyn
open Prog (addClause addClauses getNVars doSolve)
open Crusta.Store

/-- what the clauses describe: stable extensions for ST, complete extensions for CO and PR -/
def EncExt (sem : DSem) (g : G) (S : ASet) : Prop :=
  match sem with
  | .ST => g.Stable S
  | _ => g.Complete S

/-- the extensions of the semantics the solver answers for -/
def IsExt (sem : DSem) (g : G) (S : ASet) : Prop :=
  match sem with
  | .ST => g.Stable S
  | .CO => g.Complete S
  | .PR => g.Preferred S

theorem isExt_eq_encExt {sem : DSem} (h : sem ≠ .PR) (g : G) (S : ASet) : IsExt sem g S ↔ EncExt sem g S := by
  cases sem <;> simp_all [IsExt, EncExt]

structure CleanEnc (sem : DSem) (st : Store) (e : Enc) (Γ : Cnf) : Prop where
  sem_eq : e.sem = sem
  inv : ∃ T F, EncInv st e Γ T F (fun _ => False)

theorem models_ext {sem : DSem} {st : Store} {e : Enc} {Γ : Cnf} (hinv : st.Inv) (h : CleanEnc sem st e Γ)
    {ν : Asg} (hΓ : cnfTrue ν Γ = true) (hA : assumpsTrue ν e.assumptions = true) :
    EncExt sem st.g (setOf st e ν) := by
  obtain ⟨hs, T, F, hI⟩ := h
  subst hs
  by_cases hst : e.sem = .ST
  · rw [hst]; exact models_stable hinv hI (fun _ h => h) hst hΓ hA
  · have : EncExt e.sem st.g (setOf st e ν) = st.g.Complete (setOf st e ν) := by
      cases hh : e.sem <;> simp_all [EncExt]
    rw [this]; exact models_complete hinv hI (fun _ h => h) hst hΓ hA

theorem ext_model {sem : DSem} {st : Store} {e : Enc} {Γ : Cnf} (hinv : st.Inv) (h : CleanEnc sem st e Γ)
    {S : ASet} (hS : EncExt sem st.g S) :
    ∃ ν : Asg, cnfTrue ν Γ = true ∧ assumpsTrue ν e.assumptions = true ∧
      ∀ i, st.hasId i = true → ν (e.xv i) = S i := by
  obtain ⟨hs, T, F, hI⟩ := h
  subst hs
  by_cases hst : e.sem = .ST
  · rw [hst] at hS; exact ⟨_, stable_model hinv hI (fun _ h => h) hst hS⟩
  · have : EncExt e.sem st.g S = st.g.Complete S := by
      cases hh : e.sem <;> simp_all [EncExt]
    rw [this] at hS; exact ⟨_, complete_model hinv hI (fun _ h => h) hst hS⟩

/-! ## decoding -/

theorem mem_argsWhere (e : Enc) (m : Model) (p : Option Bool → Bool) (a : Nat) :
    a ∈ e.argsWhere m p ↔ ∃ i b, m[i]? = some b ∧ p b = true ∧ e.ty (i + 1) = .arg a := by
  unfold Enc.argsWhere
  rw [List.mem_filterMap]
  constructor
  · rintro ⟨⟨b, i⟩, hq, hf⟩
    have hm := List.mem_zipIdx_iff_getElem?.1 hq
    simp only at hm hf
    by_cases hp : p b = true
    · rw [if_pos hp] at hf
      refine ⟨i, b, hm, hp, ?_⟩
      unfold Enc.varToArg at hf
      unfold Enc.ty
      split at hf
      · rename_i id hid; injection hf with hf; rw [hid, hf]
      · cases hf
    · rw [if_neg hp] at hf; cases hf
  · rintro ⟨i, b, hm, hp, ht⟩
    refine ⟨(b, i), List.mem_zipIdx_iff_getElem?.2 hm, ?_⟩
    simp only [hp, if_true]
    unfold Enc.varToArg
    unfold Enc.ty at ht
    rw [ht]

theorem getD_eq_of_getElem? {m : Model} {i : Nat} {b : Option Bool} (h : m[i]? = some b) : m.getD i none = b := by
  rw [List.getD_eq_getElem?_getD, h]; rfl

theorem getElem?_of_getD_some {m : Model} {i : Nat} {x : Bool} (h : m.getD i none = some x) :
    m[i]? = some (some x) := by
  rw [List.getD_eq_getElem?_getD] at h
  cases hm : m[i]? with
  | none => rw [hm] at h; cases h
  | some b => rw [hm] at h; simp at h; rw [h]

/-- the decoded extension is the set read off the model -/
theorem ext_eq_setOf {st : Store} {e : Enc} {Γ : Cnf} {T F : Nat → Bool} {d : Nat → Prop}
    (h : EncInv st e Γ T F d) (m : Model) : ofList (e.extension m) = setOf st e (asgOfModel m) := by
  funext a
  rw [Bool.eq_iff_iff]
  unfold ofList Enc.extension
  rw [List.contains_iff_mem, mem_argsWhere]
  simp only [setOf, Bool.and_eq_true]
  constructor
  · rintro ⟨i, b, hm, hp, ht⟩
    obtain ⟨hl, hav⟩ := h.ty_arg (i + 1) a ht
    have hxv : e.xv a = i + 1 := by unfold Enc.xv; rw [hav]; rfl
    refine ⟨hl, ?_⟩
    rw [hxv]
    have hb : b = some true := by simpa using hp
    subst hb
    simp [asgOfModel, List.getD_eq_getElem?_getD, hm]
  · rintro ⟨hl, hν⟩
    obtain ⟨v, hv, hv1, hvt, _⟩ := h.av_live a hl
    have hxv : e.xv a = v := by unfold Enc.xv; rw [hv]; rfl
    rw [hxv] at hν
    simp only [asgOfModel, ge_iff_le, Bool.and_eq_true, decide_eq_true_eq, beq_iff_eq] at hν
    refine ⟨v - 1, some true, getElem?_of_getD_some hν.2, by simp, ?_⟩
    have : v - 1 + 1 = v := by omega
    rw [this]; exact hvt

/-! ## what a correct answer is -/

def CredOK (sem : DSem) (st : Store) (l : Nat) (a : AccAns) : Prop :=
  ∀ id, st.Live id l →
    (a.status = true → ∃ e, a.cert = some e ∧ IsExt sem st.g (ofList e) ∧ id ∈ e) ∧
    (a.status = false → a.cert = none ∧ ∀ S, IsExt sem st.g S → S id = false)

def SkepOK (sem : DSem) (st : Store) (l : Nat) (a : AccAns) : Prop :=
  ∀ id, st.Live id l →
    (a.status = true → a.cert = none ∧ ∀ S, IsExt sem st.g S → S id = true) ∧
    (a.status = false → ∃ e, a.cert = some e ∧ IsExt sem st.g (ofList e) ∧ id ∉ e)

/-- a cached computation is a true statement about the framework -/
def CompSound (sem : DSem) (st : Store) : Event → Prop
  | .cred acc ref ext => ∀ e, ext = some e → IsExt sem st.g (ofList e) ∧
      (∀ l ∈ acc, ∃ id, st.Live id l ∧ id ∈ e) ∧ (∀ l ∈ ref, ∀ id, st.Live id l → id ∉ e)
  | .skep acc ref ext => ∀ e, ext = some e → IsExt sem st.g (ofList e) ∧
      (∀ l ∈ acc, ∃ id, st.Live id l ∧ id ∈ e) ∧ (∀ l ∈ ref, ∀ id, st.Live id l → id ∉ e)
  | _ => True

/-- the computations a query may still read: those after the last update -/
def CacheSound (sem : DSem) (d : DState) : Prop :=
  ∀ c ∈ d.buffer.reverse.takeWhile (fun ev => !ev.isUpdate), CompSound sem d.pending c

theorem mem_tail_head {ev : Event} {rest : List Event} (hev : ev.isUpdate = false) :
    ev ∈ (ev :: rest).takeWhile (fun ev => !ev.isUpdate) := by
  simp [List.takeWhile_cons, hev]

theorem mem_tail_cons {c ev : Event} {rest : List Event} (hev : ev.isUpdate = false)
    (hc : c ∈ rest.takeWhile (fun ev => !ev.isUpdate)) :
    c ∈ (ev :: rest).takeWhile (fun ev => !ev.isUpdate) := by
  simp only [List.takeWhile_cons, hev, Bool.not_false, if_true, List.mem_cons]
  exact Or.inr hc

theorem cachedCred_spec : ∀ (evs : List Event) (l : Nat) (b : Bool) (e : List Nat),
    cachedCred evs l = (some b, some e) →
      b = true ∧ ∃ c ∈ evs.takeWhile (fun ev => !ev.isUpdate), ∃ acc ref,
        (c = .cred acc ref (some e) ∨ c = .skep acc ref (some e)) ∧ l ∈ acc
  | [], l, b, e, h => by simp [cachedCred] at h
  | .cred acc ref ext :: rest, l, b, e, h => by
    simp only [cachedCred] at h
    split at h
    · rename_i hc
      simp only [Bool.and_eq_true, List.contains_iff_mem] at hc
      injection h with h1 h2
      injection h1 with h1
      subst h1
      refine ⟨rfl, .cred acc ref ext, mem_tail_head rfl, acc, ref, Or.inl (by rw [h2]), hc.1⟩
    · split at h
      · cases h
      · obtain ⟨hb, c, hc, hrest⟩ := cachedCred_spec rest l b e h
        exact ⟨hb, c, mem_tail_cons rfl hc, hrest⟩
  | .skep acc ref ext :: rest, l, b, e, h => by
    simp only [cachedCred] at h
    split at h
    · rename_i hc
      simp only [Bool.and_eq_true, List.contains_iff_mem] at hc
      injection h with h1 h2
      injection h1 with h1
      subst h1
      refine ⟨rfl, .skep acc ref ext, mem_tail_head rfl, acc, ref, Or.inr (by rw [h2]), hc.1⟩
    · obtain ⟨hb, c, hc, hrest⟩ := cachedCred_spec rest l b e h
      exact ⟨hb, c, mem_tail_cons rfl hc, hrest⟩
  | .newArg _ :: _, l, b, e, h => by simp [cachedCred] at h
  | .remArg _ :: _, l, b, e, h => by simp [cachedCred] at h
  | .newAtt _ _ :: _, l, b, e, h => by simp [cachedCred] at h
  | .remAtt _ _ :: _, l, b, e, h => by simp [cachedCred] at h

theorem cachedSkep_spec : ∀ (evs : List Event) (l : Nat) (b : Bool) (e : List Nat),
    cachedSkep evs l = (some b, some e) →
      b = false ∧ ∃ c ∈ evs.takeWhile (fun ev => !ev.isUpdate), ∃ acc ref,
        (c = .cred acc ref (some e) ∨ c = .skep acc ref (some e)) ∧ l ∈ ref
  | [], l, b, e, h => by simp [cachedSkep] at h
  | .skep acc ref ext :: rest, l, b, e, h => by
    simp only [cachedSkep] at h
    split at h
    · cases h
    · split at h
      · rename_i hc
        simp only [Bool.and_eq_true, List.contains_iff_mem] at hc
        injection h with h1 h2
        injection h1 with h1
        subst h1
        refine ⟨rfl, .skep acc ref ext, mem_tail_head rfl, acc, ref, Or.inr (by rw [h2]), hc.1⟩
      · obtain ⟨hb, c, hc, hrest⟩ := cachedSkep_spec rest l b e h
        exact ⟨hb, c, mem_tail_cons rfl hc, hrest⟩
  | .cred acc ref ext :: rest, l, b, e, h => by
    simp only [cachedSkep] at h
    split at h
    · rename_i hc
      simp only [Bool.and_eq_true, List.contains_iff_mem] at hc
      injection h with h1 h2
      injection h1 with h1
      subst h1
      refine ⟨rfl, .cred acc ref ext, mem_tail_head rfl, acc, ref, Or.inl (by rw [h2]), hc.1⟩
    · obtain ⟨hb, c, hc, hrest⟩ := cachedSkep_spec rest l b e h
      exact ⟨hb, c, mem_tail_cons rfl hc, hrest⟩
  | .newArg _ :: _, l, b, e, h => by simp [cachedSkep] at h
  | .remArg _ :: _, l, b, e, h => by simp [cachedSkep] at h
  | .newAtt _ _ :: _, l, b, e, h => by simp [cachedSkep] at h
  | .remAtt _ _ :: _, l, b, e, h => by simp [cachedSkep] at h

/-! ## the solve step of a query -/

/-- the invariant between two API calls as the queries need it: `DInv`, the validity of the pending
framework (with duplicate-free index rows, which the grounded computation of the preferred solver
relies on) and the soundness of the cache -/
structure QInv (sem : DSem) (d : DState) (w : World) : Prop where
  dinv : DInv sem d w
  pend_inv : d.pending.Inv
  cache : CacheSound sem d
  pend_rows : d.pending.RowsNodup

theorem EInv_congr {sem : DSem} {st : Store} {dirty : Nat → Prop} {e : Enc} {w w' : World}
    (hdb : w'.db 0 = w.db 0) (h : EInv sem st dirty e w) : EInv sem st dirty e w' := by
  obtain ⟨hs, T, F, hI⟩ := h
  exact ⟨hs, T, F, by rw [hdb]; exact hI⟩

theorem labelsOf_some {st : Store} : ∀ {ids : List Nat}, (∀ i ∈ ids, st.hasId i = true) →
    ∃ ls, labelsOf st ids = some ls
  | [], _ => ⟨[], rfl⟩
  | i :: t, h => by
    obtain ⟨ls, hls⟩ := labelsOf_some (ids := t) (fun j hj => h j (List.mem_cons_of_mem _ hj))
    obtain ⟨l, hl⟩ := hasId_iff.1 (h i List.mem_cons_self)
    refine ⟨l :: ls, ?_⟩
    unfold labelsOf at hls ⊢
    have hl' : st.labelOf i = some l := hl
    simp only [List.map_cons, hl', optAll, hls, Option.map_some]

/-- `get_argument_by_id` on each of `ids` does not panic when the ids are ids of the framework -/
theorem wp_needLabels {C : Prop} (st : Store) (ids : List Nat) (w : World) (Q : List Nat → World → Prop)
    (hlive : ∀ i ∈ ids, st.hasId i = true) (h : ∀ ls, labelsOf st ids = some ls → Q ls w) :
    wp C (needLabels st ids) w Q := by
  unfold needLabels
  obtain ⟨ls, hl⟩ := labelsOf_some hlive
  rw [hl]
  exact h ls hl

/-- the ids decoded from a model are ids of the framework -/
theorem argsWhere_live {st : Store} {e : Enc} {Γ : Cnf} {T F : Nat → Bool} {d : Nat → Prop}
    (h : EncInv st e Γ T F d) (m : Model) (p : Option Bool → Bool) : ∀ a ∈ e.argsWhere m p, st.hasId a = true := by
  intro a ha
  obtain ⟨i, b, _, _, hty⟩ := (mem_argsWhere e m p a).1 ha
  exact (h.ty_arg (i + 1) a hty).1

theorem isExt_live {sem : DSem} {g : G} {S : ASet} (h : IsExt sem g S) : ∀ a, S a = true → g.live a = true := by
  cases sem with
  | ST => exact h.1.1
  | CO => exact h.1.1.1
  | PR => exact h.1.1.1

theorem labelsOf_spec {st : Store} {ids ls : List Nat} (h : labelsOf st ids = some ls) :
    ∀ l ∈ ls, ∃ id ∈ ids, st.Live id l := by
  unfold labelsOf at h
  have h1 := optAll_eq_some _ _ h
  intro l hl
  have : some l ∈ ids.map st.labelOf := by rw [h1]; exact List.mem_map_of_mem hl
  obtain ⟨id, hid, hlab⟩ := List.mem_map.1 this
  exact ⟨id, hid, hlab⟩

/-- the variable of every live argument occurs in the clause database -/
theorem argvar_in_db {st : Store} {e : Enc} {Γ : Cnf} {T F : Nat → Bool}
    (h : EncInv st e Γ T F (fun _ => False)) {a : Nat} (ha : st.hasId a = true) :
    ∃ c ∈ Γ, ∃ lit ∈ c, lit.var = e.xv a := by
  obtain ⟨v, hv, _, _, hp⟩ := h.av_live a ha
  have hxv : e.xv a = v := by unfold Enc.xv; rw [hv]; rfl
  by_cases hst : e.sem = .ST
  · obtain ⟨s, cl, _, ⟨xt, xs, hxt, _, rfl⟩, hcl⟩ := h.act a ha (fun h => h)
    rw [hv] at hxt; injection hxt with hxt; subst hxt
    refine ⟨[nl s, pl v] ++ xs.map pl, hcl _ ?_, pl v, by simp, by rw [hxv]; rfl⟩
    rw [hst]; simp [attackClauses]
  · exact ⟨_, (hp hst).2, nl v, by simp, by rw [hxv]; rfl⟩

theorem assumpsTrue_append (ν : Asg) (a b : List Lit) :
    assumpsTrue ν (a ++ b) = (assumpsTrue ν a && assumpsTrue ν b) := by
  simp [assumpsTrue, List.all_append]

/-- appending a computation to the buffer of a synchronised state (the clause database may have
changed, as long as it still encodes the framework cleanly) -/
theorem QInv_push' {sem : DSem} {d : DState} {w w' : World} (h : QInv sem d w) (hw : W0 w')
    (hclean : EInv sem d.af (fun _ => False) d.enc w')
    (hsync : d.af = d.pending) (hnext : d.next = d.buffer.length) {c : Event} (hc : c.isUpdate = false)
    (hsound : CompSound sem d.pending c) : QInv sem { d with buffer := d.buffer ++ [c] } w' := by
  have hle : d.next ≤ (d.buffer ++ [c]).length := by
    have := h.dinv.next_le
    simp; omega
  refine ⟨⟨hw, h.dinv.af_inv, hclean, h.dinv.disabled, ?_, hle, fun _ => hsync⟩, h.pend_inv, ?_, h.pend_rows⟩
  · show EffRun d.af ((d.buffer ++ [c]).drop d.next) d.pending
    rw [hnext, List.drop_append_of_le_length (Nat.le_refl _), List.drop_length, List.nil_append]
    have : Event.op c = none := by cases c <;> simp_all [Event.isUpdate, Event.op]
    simp only [EffRun, this]
    exact hsync.symm
  · intro c' hc'
    show CompSound sem d.pending c'
    have hrev : (d.buffer ++ [c]).reverse = c :: d.buffer.reverse := by simp
    rw [show ({ d with buffer := d.buffer ++ [c] } : DState).buffer = d.buffer ++ [c] from rfl, hrev] at hc'
    simp only [List.takeWhile_cons, hc, Bool.not_false, if_true, List.mem_cons] at hc'
    rcases hc' with rfl | hc'
    · exact hsound
    · exact h.cache c' hc'

/-- appending a computation to the buffer of a synchronised state -/
theorem QInv_push {sem : DSem} {d : DState} {w w' : World} (h : QInv sem d w) (hw : W0 w') (hdb : w'.db 0 = w.db 0)
    (hsync : d.af = d.pending) (hnext : d.next = d.buffer.length) {c : Event} (hc : c.isUpdate = false)
    (hsound : CompSound sem d.pending c) : QInv sem { d with buffer := d.buffer ++ [c] } w' :=
  QInv_push' h hw (EInv_congr hdb h.dinv.clean) hsync hnext hc hsound

theorem wp_argLit {C : Prop} {sem : DSem} {d : DState} {w : World} (h : QInv sem d w) (hsync : d.af = d.pending)
    {l id : Nat} (hl : d.pending.Live id l) (Q : Nat → World → Prop) :
    wp C (d.argLit l) w Q ↔ Q (d.enc.xv id) w := by
  unfold DState.argLit
  rw [hsync, (getArg_eq_some h.pend_inv).2 hl]
  simp only
  obtain ⟨_, T, F, hI⟩ := h.dinv.clean
  obtain ⟨v, hv, _⟩ := hI.av_live id (by rw [hsync]; exact hasId_iff.2 ⟨l, hl⟩)
  have hv' : d.enc.argVar.getD id none = some v := hv
  have hxv : d.enc.xv id = v := by unfold Enc.xv; rw [hv]; rfl
  rw [hv', hxv]
  rfl

theorem wp_credSolve {C : Prop} {sem : DSem} (hsem : sem ≠ .PR) {d : DState} {w : World} (h : QInv sem d w)
    (hsync : d.af = d.pending) (hnext : d.next = d.buffer.length) {l id : Nat} (hl : d.pending.Live id l) :
    wp C (credSolve d l) w (fun r w' => QInv sem r.1 w' ∧ r.1.pending = d.pending ∧
      CredOK sem d.pending l r.2) := by
  have hpinv := h.pend_inv
  obtain ⟨hs, T, F, hI⟩ := h.dinv.clean
  have hclean : CleanEnc sem d.pending d.enc (w.db 0) := ⟨hs, T, F, by rw [← hsync]; exact hI⟩
  have hidl : d.pending.hasId id = true := hasId_iff.2 ⟨l, hl⟩
  have huniq : ∀ id', d.pending.Live id' l → id' = id := fun id' h' => hpinv.label_inj id' id l h' hl
  unfold credSolve
  rw [wp_bind, wp_argLit h hsync hl]
  constructor
  · -- satisfiable
    rintro m ⟨htot, hΓ, hA⟩
    rw [assumpsTrue_append] at hA
    simp only [Bool.and_eq_true] at hA
    have hν : asgOfModel m (d.enc.xv id) = true := by simpa [assumpsTrue] using hA.2
    have hext : IsExt sem d.pending.g (ofList (d.enc.extension m)) := by
      rw [isExt_eq_encExt hsem, ext_eq_setOf hI, hsync]
      exact models_ext hpinv hclean hΓ hA.1
    have hmem : ∀ a, a ∈ d.enc.extension m ↔ (d.pending.hasId a = true ∧ asgOfModel m (d.enc.xv a) = true) := by
      intro a
      have := congrFun (ext_eq_setOf hI m) a
      rw [← List.contains_iff_mem]
      show ofList _ a = true ↔ _
      rw [this, hsync]; simp [setOf]
    simp only
    rw [wp_bind]
    apply wp_needLabels _ _ _ _ (argsWhere_live hI m _)
    intro acc hacc
    rw [wp_bind]
    apply wp_needLabels _ _ _ _ (argsWhere_live hI m _)
    intro _ _
    refine ⟨QInv_push h (W0_onSolve h.dinv.w0 _ _ _) (by simp) hsync hnext rfl ?_, rfl, ?_⟩
    · intro e he
      injection he with he; subst he
      refine ⟨hext, ?_, by simp⟩
      intro l' hl'
      obtain ⟨id', hid', hlive'⟩ := labelsOf_spec hacc l' hl'
      rw [hsync] at hlive'
      refine ⟨id', hlive', ?_⟩
      obtain ⟨i, b, hm, hp, hty⟩ := (mem_argsWhere _ _ _ _).1 hid'
      obtain ⟨hl2, hav2⟩ := hI.ty_arg (i + 1) id' hty
      have hxv : d.enc.xv id' = i + 1 := by unfold Enc.xv; rw [hav2]; rfl
      obtain ⟨c, hc, lit, hlit, hvar⟩ := argvar_in_db hI hl2
      have hsome := htot c hc lit hlit
      rw [hvar, hxv] at hsome
      simp only [Nat.add_sub_cancel, List.getD_eq_getElem?_getD, hm] at hsome
      apply (mem_argsWhere _ _ _ _).2
      refine ⟨i, b, hm, ?_, hty⟩
      cases b with
      | none => simp at hsome
      | some x => cases x <;> simp_all
    · intro id' hl'
      rw [huniq id' hl']
      refine ⟨fun _ => ⟨_, rfl, hext, (hmem id).2 ⟨hidl, hν⟩⟩, fun hf => by simp at hf⟩
  · -- unsatisfiable
    intro hunsat
    refine ⟨QInv_push h (W0_onSolve h.dinv.w0 _ _ _) (by simp) hsync hnext rfl (by intro e he; cases he), rfl, ?_⟩
    intro id' hl'
    rw [huniq id' hl']
    refine ⟨fun hf => by simp at hf, fun _ => ⟨rfl, ?_⟩⟩
    intro S hS
    rw [isExt_eq_encExt hsem] at hS
    obtain ⟨ν, h1, h2, h3⟩ := ext_model hpinv hclean hS
    cases hSi : S id with
    | false => rfl
    | true =>
      exfalso
      apply hunsat ν
      refine ⟨h1, ?_⟩
      rw [assumpsTrue_append, h2]
      simp [assumpsTrue, h3 id hidl, hSi]

theorem wp_stSkepSolve {C : Prop} {d : DState} {w : World} (h : QInv .ST d w)
    (hsync : d.af = d.pending) (hnext : d.next = d.buffer.length) {l id : Nat} (hl : d.pending.Live id l) :
    wp C (stSkepSolve d l) w (fun r w' => QInv .ST r.1 w' ∧ r.1.pending = d.pending ∧
      SkepOK .ST d.pending l r.2) := by
  have hpinv := h.pend_inv
  obtain ⟨hs, T, F, hI⟩ := h.dinv.clean
  have hclean : CleanEnc .ST d.pending d.enc (w.db 0) := ⟨hs, T, F, by rw [← hsync]; exact hI⟩
  have hidl : d.pending.hasId id = true := hasId_iff.2 ⟨l, hl⟩
  have huniq : ∀ id', d.pending.Live id' l → id' = id := fun id' h' => hpinv.label_inj id' id l h' hl
  have hsem : DSem.ST ≠ .PR := by simp
  unfold stSkepSolve
  rw [wp_bind, wp_argLit h hsync hl]
  constructor
  · rintro m ⟨_, hΓ, hA⟩
    rw [assumpsTrue_append] at hA
    simp only [Bool.and_eq_true] at hA
    have hν : asgOfModel m (d.enc.xv id) = false := by simpa [assumpsTrue] using hA.2
    have hext : IsExt .ST d.pending.g (ofList (d.enc.extension m)) := by
      rw [isExt_eq_encExt hsem, ext_eq_setOf hI, hsync]
      exact models_ext hpinv hclean hΓ hA.1
    have hmem : ∀ a, a ∈ d.enc.extension m ↔ (d.pending.hasId a = true ∧ asgOfModel m (d.enc.xv a) = true) := by
      intro a
      have := congrFun (ext_eq_setOf hI m) a
      rw [← List.contains_iff_mem]
      show ofList _ a = true ↔ _
      rw [this, hsync]; simp [setOf]
    simp only
    rw [wp_bind]
    apply wp_needLabels _ _ _ _ (argsWhere_live hI m _)
    intro ref href
    rw [wp_bind]
    apply wp_needLabels _ _ _ _ (argsWhere_live hI m _)
    intro _ _
    refine ⟨QInv_push h (W0_onSolve h.dinv.w0 _ _ _) (by simp) hsync hnext rfl ?_, rfl, ?_⟩
    · intro e he
      injection he with he; subst he
      refine ⟨hext, by simp, ?_⟩
      intro l' hl' id' hlive'
      obtain ⟨id'', hid'', hlive''⟩ := labelsOf_spec href l' hl'
      rw [hsync] at hlive''
      have : id'' = id' := hpinv.label_inj id'' id' l' hlive'' hlive'
      subst this
      obtain ⟨i, b, hm, hp, hty⟩ := (mem_argsWhere _ _ _ _).1 hid''
      obtain ⟨hl2, hav2⟩ := hI.ty_arg (i + 1) id'' hty
      have hxv : d.enc.xv id'' = i + 1 := by unfold Enc.xv; rw [hav2]; rfl
      intro hin
      have := ((hmem id'').1 hin).2
      rw [hxv] at this
      simp only [asgOfModel, Nat.add_sub_cancel, List.getD_eq_getElem?_getD, hm] at this
      cases b with
      | none => simp at this
      | some x => cases x <;> simp_all
    · intro id' hl'
      rw [huniq id' hl']
      refine ⟨fun hf => by simp at hf, fun _ => ⟨_, rfl, hext, ?_⟩⟩
      intro hin
      have := ((hmem id).1 hin).2
      rw [hν] at this; cases this
  · intro hunsat
    simp only
    rw [wp_bind, wp_needArg (by rw [hsync]; exact hpinv) (by rw [hsync]; exact hl), wp_bind]
    apply wp_needLabels _ _ _ _ (by
      intro j hj
      obtain ⟨p, hp, rfl⟩ := List.mem_map.1 hj
      have hatt := ((mem_iterFrom h.dinv.af_inv id p).1 hp).2
      exact (Store.g_wf h.dinv.af_inv _ _ hatt).2)
    intro ref _
    refine ⟨QInv_push h (W0_onSolve h.dinv.w0 _ _ _) (by simp) hsync hnext rfl (by intro e he; cases he), rfl, ?_⟩
    intro id' hl'
    rw [huniq id' hl']
    refine ⟨fun _ => ⟨rfl, ?_⟩, fun hf => by simp at hf⟩
    intro S hS
    rw [isExt_eq_encExt hsem] at hS
    obtain ⟨ν, h1, h2, h3⟩ := ext_model hpinv hclean hS
    cases hSi : S id with
    | true => rfl
    | false =>
      exfalso
      apply hunsat ν
      refine ⟨h1, ?_⟩
      rw [assumpsTrue_append, h2]
      simp [assumpsTrue, h3 id hidl, hSi]

/-! ## the queries: cache or recompute -/

/-- answering from the cache does not panic: the cached extension was computed for the framework
the solver still holds (`DInv.tail_sync`), so its ids are ids of that framework -/
theorem wp_fromCache {C : Prop} {sem : DSem} {d : DState} {w : World} (h : QInv sem d w) {b : Bool} {e : List Nat}
    {c : Event} (hcm : c ∈ d.buffer.reverse.takeWhile (fun ev => !ev.isUpdate)) {acc ref : List Nat}
    (hcc : c = .cred acc ref (some e) ∨ c = .skep acc ref (some e)) (Q : DState × AccAns → World → Prop)
    (hQ : Q (d, ⟨b, some e⟩) w) : wp C (fromCache d b e) w Q := by
  have hsync : d.af = d.pending := h.dinv.tail_sync (List.ne_nil_of_mem hcm)
  have hext : IsExt sem d.pending.g (ofList e) := by
    have hsound := h.cache c hcm
    rcases hcc with rfl | rfl
    · exact (hsound e rfl).1
    · exact (hsound e rfl).1
  unfold fromCache
  rw [wp_bind]
  apply wp_needLabels
  · intro i hi
    rw [hsync]
    exact isExt_live hext i (List.contains_iff_mem.2 hi)
  · intro _ _
    exact hQ

theorem QInv_of_update {sem : DSem} {d d' : DState} {w w' : World} (h : QInv sem d w)
    (hd : DInv sem d' w') (hp : d'.pending = d.pending) (hb : d'.buffer = d.buffer) : QInv sem d' w' := by
  refine ⟨hd, by rw [hp]; exact h.pend_inv, ?_, by rw [hp]; exact h.pend_rows⟩
  intro c hc
  rw [hp]
  rw [hb] at hc
  exact h.cache c hc

theorem wp_credQuery {C : Prop} {sem : DSem} (hsem : sem ≠ .PR) {d : DState} {w : World} (h : QInv sem d w)
    {l id : Nat} (hl : d.pending.Live id l) :
    wp C (credQuery d l) w (fun r w' => QInv sem r.1 w' ∧ r.1.pending = d.pending ∧
      CredOK sem d.pending l r.2) := by
  unfold credQuery
  split
  · rename_i b e hc
    obtain ⟨hb, c, hcm, acc, ref, hcc, hlacc⟩ := cachedCred_spec _ _ _ _ hc
    subst hb
    apply wp_fromCache h hcm hcc
    refine ⟨h, rfl, ?_⟩
    have hsound := h.cache c hcm
    have : IsExt sem d.pending.g (ofList e) ∧ (∀ l ∈ acc, ∃ id, d.pending.Live id l ∧ id ∈ e) := by
      rcases hcc with rfl | rfl
      · exact ⟨(hsound e rfl).1, (hsound e rfl).2.1⟩
      · exact ⟨(hsound e rfl).1, (hsound e rfl).2.1⟩
    intro id' hl'
    obtain ⟨id'', hl'', hin⟩ := this.2 l hlacc
    have : id'' = id' := h.pend_inv.label_inj id'' id' l hl'' hl'
    subst this
    exact ⟨fun _ => ⟨e, rfl, this.1, hin⟩, fun hf => by simp at hf⟩
  · rw [wp_bind]
    refine wp_mono _ _ _ _ ?_ (wp_updateEncoding h.dinv)
    rintro d' w' ⟨hd, haf, hp, hb, hn⟩
    have hq := QInv_of_update h hd hp hb
    have := wp_credSolve (C := C) hsem hq (by rw [haf, hp]) (by rw [hn, hb]) (l := l) (id := id) (by rw [hp]; exact hl)
    rw [hp] at this
    exact this

theorem wp_stSkepQuery {C : Prop} {d : DState} {w : World} (h : QInv .ST d w) {l id : Nat} (hl : d.pending.Live id l) :
    wp C (stSkepQuery d l) w (fun r w' => QInv .ST r.1 w' ∧ r.1.pending = d.pending ∧
      SkepOK .ST d.pending l r.2) := by
  unfold stSkepQuery
  split
  · rename_i b e hc
    obtain ⟨hb, c, hcm, acc, ref, hcc, hlref⟩ := cachedSkep_spec _ _ _ _ hc
    subst hb
    apply wp_fromCache h hcm hcc
    refine ⟨h, rfl, ?_⟩
    have hsound := h.cache c hcm
    have : IsExt .ST d.pending.g (ofList e) ∧ (∀ l ∈ ref, ∀ id, d.pending.Live id l → id ∉ e) := by
      rcases hcc with rfl | rfl
      · exact ⟨(hsound e rfl).1, (hsound e rfl).2.2⟩
      · exact ⟨(hsound e rfl).1, (hsound e rfl).2.2⟩
    intro id' hl'
    exact ⟨fun hf => by simp at hf, fun _ => ⟨e, rfl, this.1, this.2 l hlref id' hl'⟩⟩
  · rw [wp_bind]
    refine wp_mono _ _ _ _ ?_ (wp_updateEncoding h.dinv)
    rintro d' w' ⟨hd, haf, hp, hb, hn⟩
    have hq := QInv_of_update h hd hp hb
    have := wp_stSkepSolve (C := C) hq (by rw [haf, hp]) (by rw [hn, hb]) (l := l) (id := id) (by rw [hp]; exact hl)
    rw [hp] at this
    exact this

end Crusta.Dyn
