/-!
# Model of the framework store (`utils/label.rs`, `aa/arguments.rs`, `aa/aa_framework.rs`)

Mirrors the code at the granularity at which it can be observed: ids are push indexes, removed
labels and attacks leave tombstones, the per-argument index rows keep *stale* indexes after
`remove_argument` and are permuted by `swap_remove` in `remove_attack`.
Labels are `Nat` (the harness instantiates `AAFramework<usize>`).  Import-free.
-/

namespace Crusta

structure Store where
  labels : List (Option Nat)            -- index = id
  l2i : List (Nat × Nat)                -- label ↦ id of the live arguments (model of the HashMap)
  nRemoved : Nat
  attacks : List (Option (Nat × Nat))   -- tombstoned attack vector, pairs of ids
  from_ : List (List Nat)               -- per-id rows of attack indexes (may hold stale ones)
  to_ : List (List Nat)
  nRemovedAtt : Nat
deriving Repr, DecidableEq

inductive StoreOp
  | newArg (l : Nat)
  | remArg (l : Nat)
  | newAtt (a b : Nat)
  | remAtt (a b : Nat)
deriving Repr, DecidableEq

/-- outcome of an update: `ok`, `err` (the call returned `Err`, state as given), or a panic -/
inductive StoreRes
  | ok (s : Store)
  | err (s : Store)
  | panic
deriving Repr

namespace Store

def empty : Store := ⟨[], [], 0, [], [], [], 0⟩

def lookup (s : Store) (l : Nat) : Option Nat := (s.l2i.find? (fun p => p.1 == l)).map (·.2)

def len (s : Store) : Nat := s.labels.length - s.nRemoved

def maxId (s : Store) : Option Nat := if s.labels.isEmpty then none else some (s.labels.length - 1)

def hasId (s : Store) (i : Nat) : Bool := (s.labels.getD i none).isSome

/-- `get_label`: map lookup, then the slot must still be occupied -/
def getArg (s : Store) (l : Nat) : Option Nat :=
  match s.lookup l with
  | some i => if s.hasId i then some i else none
  | none => none

def att (s : Store) (i : Nat) : Option (Nat × Nat) := s.attacks.getD i none

def row (r : List (List Nat)) (a : Nat) : List Nat := r.getD a []

/-- `LabelSet::new_label` -/
def newLabel (s : Store) (l : Nat) : Store :=
  match s.lookup l with
  | some _ => s
  | none => { s with labels := s.labels ++ [some l], l2i := s.l2i ++ [(l, s.labels.length)] }

/-- `AAFramework::new_argument`: rows are pushed only when the live count grew -/
def newArgument (s : Store) (l : Nat) : Store :=
  let s' := s.newLabel l
  if s'.len > s.len then { s' with from_ := s'.from_ ++ [[]], to_ := s'.to_ ++ [[]] } else s'

def killAttacks (attacks : List (Option (Nat × Nat))) (cnt : Nat) :
    List Nat → List (Option (Nat × Nat)) × Nat
  | [] => (attacks, cnt)
  | i :: is =>
    if (attacks.getD i none).isSome then killAttacks (attacks.set i none) (cnt + 1) is
    else killAttacks attacks cnt is

/-- `AAFramework::remove_argument` -/
def removeArgument (s : Store) (l : Nat) : StoreRes :=
  match s.lookup l with
  | none => .err s
  | some id =>
    -- `labels[id].take().unwrap()`
    if !s.hasId id then .panic else
    if id ≥ s.from_.length || id ≥ s.to_.length then .panic else
    let idxs := row s.from_ id ++ row s.to_ id
    if idxs.any (fun i => i ≥ s.attacks.length) then .panic else
    let (attacks', cnt') := killAttacks s.attacks s.nRemovedAtt idxs
    .ok { s with
      labels := s.labels.set id none,
      l2i := s.l2i.filter (fun p => !(p.1 == l)),
      nRemoved := s.nRemoved + 1,
      attacks := attacks',
      nRemovedAtt := cnt',
      from_ := s.from_.set id [],
      to_ := s.to_.set id [] }

/-- `AAFramework::new_attack` (by labels, duplicate test on live attacks) -/
def newAttack (s : Store) (a b : Nat) : StoreRes :=
  match s.getArg a with
  | none => .err s
  | some ai =>
    match s.getArg b with
    | none => .err s
    | some bi =>
      if ai ≥ s.from_.length then .panic else
      if (row s.from_ ai).any (fun i => i ≥ s.attacks.length) then .panic else
      if (row s.from_ ai).any (fun i => s.att i == some (ai, bi)) then .ok s
      else
        if bi ≥ s.to_.length then .panic else
        let i := s.attacks.length
        .ok { s with attacks := s.attacks ++ [some (ai, bi)],
                     from_ := s.from_.set ai (row s.from_ ai ++ [i]),
                     to_ := s.to_.set bi (row s.to_ bi ++ [i]) }

/-- `AAFramework::new_attack_by_ids` (bound check against the *live* count, no duplicate test) -/
def newAttackByIds (s : Store) (ai bi : Nat) : StoreRes :=
  if ai ≥ s.len || bi ≥ s.len then .err s
  else if ai ≥ s.from_.length || bi ≥ s.to_.length then .panic
  else
    let i := s.attacks.length
    .ok { s with attacks := s.attacks ++ [some (ai, bi)],
                 from_ := s.from_.set ai (row s.from_ ai ++ [i]),
                 to_ := s.to_.set bi (row s.to_ bi ++ [i]) }

/-- `Vec::swap_remove` -/
def swapRemove (l : List Nat) (pos : Nat) : List Nat :=
  match l.getLast? with
  | none => l
  | some last => (l.set pos last).dropLast

def findPos (l : List Nat) (p : Nat → Bool) : Option Nat := l.findIdx? p

/-- `AAFramework::remove_attack` -/
def removeAttack (s : Store) (a b : Nat) : StoreRes :=
  match s.getArg a with
  | none => .err s
  | some ai =>
    match s.getArg b with
    | none => .err s
    | some bi =>
      if ai ≥ s.from_.length then .panic else
      if (row s.from_ ai).any (fun i => i ≥ s.attacks.length) then .panic else
      match findPos (row s.from_ ai) (fun i => s.att i == some (ai, bi)) with
      | none => .err s
      | some posFrom =>
        let attId := (row s.from_ ai).getD posFrom 0
        if bi ≥ s.to_.length then .panic else
        match findPos (row s.to_ bi) (fun i => i == attId) with
        | none => .panic
        | some posTo =>
          -- the two rows may be the same vector only through different tables, so order is free
          let to' := s.to_.set bi (swapRemove (row s.to_ bi) posTo)
          let from' := s.from_.set ai (swapRemove (row s.from_ ai) posFrom)
          .ok { s with attacks := s.attacks.set attId none, to_ := to', from_ := from',
                       nRemovedAtt := s.nRemovedAtt + 1 }

def step (s : Store) : StoreOp → StoreRes
  | .newArg l => .ok (s.newArgument l)
  | .remArg l => s.removeArgument l
  | .newAtt a b => s.newAttack a b
  | .remAtt a b => s.removeAttack a b

/-- `ArgumentSet::new_with_labels` then optional set-level updates, then
`AAFramework::new_with_argument_set` (rows sized by the number of ids ever issued) -/
def ofLabels (ls : List Nat) : Store := ls.foldl newLabel empty

def setRemove (s : Store) (l : Nat) : Store :=
  match s.lookup l with
  | none => s
  | some id => { s with labels := s.labels.set id none,
                        l2i := s.l2i.filter (fun p => !(p.1 == l)),
                        nRemoved := s.nRemoved + 1 }

def withRowsByLen (s : Store) : Store :=
  { s with from_ := List.replicate s.labels.length [], to_ := List.replicate s.labels.length [] }

/-- the store built by the ICCMA'23 reader: labels `1..n`, one `new_attack_by_ids` per attack line
(0-based ids; duplicates are not tested by that call) -/
def ofIccma (n : Nat) (atts : List (Nat × Nat)) : Store :=
  atts.foldl (fun s p => match s.newAttackByIds p.1 p.2 with
    | .ok s' => s' | .err s' => s' | .panic => s) ((ofLabels ((List.range n).map (· + 1))).withRowsByLen)

/-! ## observers -/

/-- live arguments `(id, label)` in id order (`ArgumentSet::iter`) -/
def liveArgs (s : Store) : List (Nat × Nat) :=
  (s.labels.zipIdx).filterMap (fun p => p.1.map (fun l => (p.2, l)))

def labelOf (s : Store) (i : Nat) : Option Nat := s.labels.getD i none

def nArguments (s : Store) : Nat := s.len
def nAttacks (s : Store) : Nat := s.attacks.length - s.nRemovedAtt

/-- `iter_attacks`: live entries in push order, as id pairs -/
def iterAttacks (s : Store) : List (Nat × Nat) := s.attacks.filterMap id

/-- `iter_attacks_from_id`: row order, live only -/
def iterFrom (s : Store) (i : Nat) : List (Nat × Nat) := (row s.from_ i).filterMap s.att
def iterTo (s : Store) (i : Nat) : List (Nat × Nat) := (row s.to_ i).filterMap s.att

end Store

/-! ## the abstract set model (the spec the store refines) -/

/-- `args`: live `(id, label)` pairs in creation order; `atts`: set of label pairs (no duplicates);
`next`: number of ids ever issued -/
structure SetModel where
  args : List (Nat × Nat)
  atts : List (Nat × Nat)
  next : Nat
deriving Repr, DecidableEq

namespace SetModel

def empty : SetModel := ⟨[], [], 0⟩

def has (m : SetModel) (l : Nat) : Bool := m.args.any (fun p => p.2 == l)

inductive Res | ok (m : SetModel) | err (m : SetModel)
deriving Repr

def step (m : SetModel) : StoreOp → Res
  | .newArg l => if m.has l then .ok m else .ok { m with args := m.args ++ [(m.next, l)], next := m.next + 1 }
  | .remArg l =>
    if m.has l then
      .ok { m with args := m.args.filter (fun p => !(p.2 == l)),
                   atts := m.atts.filter (fun p => !(p.1 == l) && !(p.2 == l)) }
    else .err m
  | .newAtt a b =>
    if m.has a && m.has b then
      (if m.atts.contains (a, b) then .ok m else .ok { m with atts := m.atts ++ [(a, b)] })
    else .err m
  | .remAtt a b =>
    if m.has a && m.has b && m.atts.contains (a, b) then
      .ok { m with atts := m.atts.filter (fun p => !(p == (a, b))) }
    else .err m

end SetModel

end Crusta
