import Driver.Util
import Crusta.Model.Encoders

/-! Driver side of the encoder family (C10): model clauses + bounded all-models oracle. -/

namespace Driver
open Crusta

def litOfInt (i : Int) : Lit := if i < 0 then nl i.natAbs else pl i.natAbs

def clauseOfString (s : String) : Clause :=
  (toks s).filterMap (fun t => t.toInt?.map litOfInt)

def renderClause (c : Clause) : String := " ".intercalate (c.map (fun l => toString l.toInt))

/-- framework of an `in` line: `fw=i:n:atts` (1-based labels) or `fw=h:ops` without removals -/
def afOfSpec (spec : String) : Option AF :=
  if spec.startsWith "i:" then
    match (spec.drop 2).toString.splitOn ":" with
    | [n] => some ⟨natOf n, []⟩
    | [n, a] => some ⟨natOf n, (attList a).map (fun p => (p.1 - 1, p.2 - 1))⟩
    | _ => none
  else if spec.startsWith "h:" then
    let ops := opsOf (spec.drop 2).toString
    let s := ops.foldl (fun s o => match s.step o with | .ok s' => s' | .err s' => s' | .panic => s) Store.empty
    if s.nRemoved == 0 then some ⟨s.labels.length, s.iterAttacks⟩ else none
  else none

def encNameKind (name : String) : Option EncKind :=
  match name with
  | "default_complete" => some .auxCO
  | "default_cf" => some .expCF
  | "def" => none
  | n => EncKind.ofString? n

def intendedSem (k : EncKind) : String :=
  match k with
  | .auxCF | .expCF => "CF" | .auxADM => "ADM" | .auxCO | .expCO | .hyb => "CO" | .stb => "ST"

def familyOf (k : EncKind) (af : AF) : List (List Nat) :=
  match k with
  | .auxCF | .expCF => extsCF af | .auxADM => extsADM af
  | .auxCO | .expCO | .hyb => extsCO af | .stb => extsST af

def parseBits (s : String) : List (Option Bool) :=
  s.toList.map (fun c => if c == '+' then some true else if c == '-' then some false else none)

/-- all assignments over variables `1..n` (as lists of Bool, index = var-1) satisfying the CNF -/
def allModels (f : Cnf) (n : Nat) : List (List Bool) :=
  let rec go (k : Nat) (acc : List Bool) : List (List Bool) :=
    match k with
    | 0 =>
      let ν : Asg := fun v => acc.getD (v - 1) false
      if cnfTrue ν f then [acc] else []
    | k + 1 => go k (false :: acc) ++ go k (true :: acc)
  go n []

def sortNat (l : List Nat) : List Nat := l.foldl (fun acc a => insertS a acc) []
where insertS (a : Nat) : List Nat → List Nat
  | [] => [a]
  | b :: l => if a ≤ b then a :: b :: l else b :: insertS a l

def sameFamily (a b : List (List Nat)) : Bool :=
  a.all (fun x => b.any (fun y => sortNat x == sortNat y)) &&
  b.all (fun x => a.any (fun y => sortNat x == sortNat y))

def runEnc (lines : List String) : List String := Id.run do
  let inl := (lines.find? (fun l => l.startsWith "in ")).getD ""
  let ts := toks inl
  let name := kvGetD ts "enc" ""
  let withRange := kvGetD ts "range" "0" == "1"
  let twice := kvGetD ts "twice" "0" == "1"
  let some af := afOfSpec (kvGetD ts "fw" "") | return ["verdict BAD unparsable framework spec"]
  let some k := encNameKind name | return ["verdict BAD unknown encoder"]
  let cls := if withRange then k.clausesRange af else k.clauses af
  let mut out : List String := []
  for tag in (if twice then ["E", "E2"] else ["E"]) do
    match k.reserve af.n withRange with
    | some r => out := s!"{tag} r {r}" :: out
    | none => pure ()
    for c in cls do
      out := s!"{tag} c {renderClause c}" :: out
    let nv := max ((k.reserve af.n withRange).getD 0) (Cnf.maxVar cls)
    out := s!"{if tag == "E" then "N" else "N2"} {nv}" :: out
  out := ("L " ++ " ".intercalate ((List.range af.n).map (fun a => s!"{a}={k.argVar a}"))) :: out
  if withRange then out := s!"F {k.firstRangeVar af.n}" :: out
  for l in lines do
    match toks l with
    | ["D", bits] => out := s!"D {bits} {joinNat (k.decode af.n (parseBits bits)) ","}" :: out
    | ["D", bits, _] => out := s!"D {bits} {joinNat (k.decode af.n (parseBits bits)) ","}" :: out
    | _ => pure ()
  -- conformance oracle on the clauses the implementation produced (bounded: it only serves the
  -- search for a failing input; the unbounded statement is the theorem)
  let implCls : Cnf := lines.filterMap (fun l =>
    if l.startsWith "E c" then some (clauseOfString (l.drop 3).toString) else none)
  let implN := match lines.find? (fun l => l.startsWith "N ") with
    | some l => natOf (l.drop 2).toString | none => 0
  let implArgVar (a : Nat) : Nat :=
    match lines.find? (fun l => l.startsWith "L ") with
    | some l => natOf (kvGetD (toks l) (toString a) "0")
    | none => 0
  let implF := match lines.find? (fun l => l.startsWith "F ") with
    | some l => natOf (l.drop 2).toString | none => 0
  let mut verdict := "ok"
  let argVars := (List.range af.n).map implArgVar
  -- layout
  if !(argVars.all (fun v => v ≥ 1)) || !(nodupN argVars) then verdict := "BAD arguments are not mapped to distinct literals"
  if withRange then
    let rvars := (List.range af.n).map (fun a => implF + a)
    if rvars.any (fun r => argVars.contains r) then verdict := "BAD range variables collide with argument variables"
  if implN ≤ 16 && verdict == "ok" then
    let ms := allModels implCls implN
    let setOfModel (m : List Bool) : List Nat := (List.range af.n).filter (fun a => m.getD (implArgVar a - 1) false)
    let projected := ms.map setOfModel
    let fam := familyOf k af
    if !(sameFamily projected fam) then
      verdict := s!"BAD models of the CNF are not exactly the {intendedSem k} sets"
    else if withRange then
      -- range soundness + exact-range model for every set
      let rangeOf (m : List Bool) : List Nat := (List.range af.n).filter (fun a => m.getD (implF + a - 1) false)
      if !(ms.all (fun m => (rangeOf m).all (fun a => inRangeB af (setOfModel m) a))) then
        verdict := "BAD a range variable is true outside the range of the model's set"
      else if !(fam.all (fun s => ms.any (fun m => sortNat (setOfModel m) == sortNat s && rangeOf m == rangeL af s))) then
        verdict := "BAD some set has no model whose range variables equal its range"
  else if verdict == "ok" then verdict := "ok-unjudged"
  return (s!"verdict {verdict}" :: out).reverse
where nodupN : List Nat → Bool
  | [] => true
  | a :: l => !l.contains a && nodupN l

end Driver
