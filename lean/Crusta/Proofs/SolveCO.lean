import Crusta.Proofs.SolveBase

/-!
# Complete semantics solver: credulous acceptance inside the (merged) component
-/

namespace Crusta
open Prog (mkSolver doReserve addClause addClauses getNVars doSolve)

theorem wp_needComp {C : Prop} (hc : C) (x : Option (Option Comp × CC)) (w : World) (Q : Comp × CC → World → Prop)
    (h : ∀ c cc, x = some (some c, cc) → Q (c, cc) w) : wp C (needComp x) w Q := by
  cases x with
  | none => exact hc
  | some p =>
    obtain ⟨oc, cc⟩ := p
    cases oc with
    | none => exact hc
    | some c => exact h c cc rfl

/-- positions of all the arguments, when each lies in the component -/
def posAll (c : Comp) : List Nat → Option (List Nat)
  | [] => some []
  | a :: t => match c.pos a, posAll c t with
    | some i, some r => some (i :: r)
    | _, _ => none

theorem wp_ccArgs {C : Prop} (hc : C) (c : Comp) : ∀ (args : List Nat) (w : World) (Q : List Nat → World → Prop),
    (∀ pos, posAll c args = some pos → Q pos w) → wp C (ccArgs c args) w Q
  | [], w, Q, h => h [] rfl
  | a :: t, w, Q, h => by
    unfold ccArgs
    simp only [List.foldr_cons, Prog.bind_eq]
    rw [wp_bind]
    apply wp_ccArgs hc c t w
    intro rest hrest
    cases hp : c.pos a with
    | none => exact hc
    | some i =>
      apply h
      simp [posAll, hp, hrest]

theorem mem_posAll {c : Comp} : ∀ {args pos : List Nat}, posAll c args = some pos →
    ∀ i, i ∈ pos ↔ ∃ a ∈ args, c.pos a = some i
  | [], pos, h, i => by simp [posAll] at h; subst h; simp
  | a :: t, pos, h, i => by
    simp only [posAll] at h
    cases hp : c.pos a with
    | none => rw [hp] at h; simp at h
    | some j =>
      cases hr : posAll c t with
      | none => rw [hp, hr] at h; simp at h
      | some r =>
        rw [hp, hr] at h
        injection h with h; subst h
        simp only [List.mem_cons, mem_posAll hr i]
        constructor
        · rintro (rfl | ⟨b, hb, hbi⟩)
          · exact ⟨a, Or.inl rfl, hp⟩
          · exact ⟨b, Or.inr hb, hbi⟩
        · rintro ⟨b, rfl | hb, hbi⟩
          · left; rw [hp] at hbi; injection hbi with hbi; exact hbi.symm
          · right; exact ⟨b, hb, hbi⟩

/-- the answer of `coDC`, stated on the merged component of the queried arguments -/
theorem wp_coDC (cfg : Cfg) (hk : ∀ af T, cfg.enc.Base af T ↔ Complete af T) (v : FwView) (args : List Nat)
    (w : World) (hb : w.Bounded) :
    wp True (coDC cfg v args) w (fun ans _ =>
      ∃ c cc, CC.mergedOf v (CC.new v) args = some (some c, cc) ∧ (c.af.WF → c.af.n = c.ids.length → ∀ pos, posAll c args = some pos →
        ans.cert = none ∧ (ans.status = true ↔ ∃ T, Complete c.af T ∧ ∃ i ∈ pos, T i = true))) := by
  unfold coDC
  simp only [Prog.bind_eq]
  rw [wp_bind, wp_mkSolver, wp_bind]
  apply wp_needComp trivial
  intro c cc hcc
  simp only
  rw [wp_bind]
  have hlen : w.solvers.length < w.onNew.solvers.length := by simp [World.onNew]
  apply wp_encodeInto _ _ _ _ _ (Bounded_onNew hb) hlen (db_onNew_self w)
  intro w1 henc _
  rw [wp_bind, wp_getNVars, wp_bind]
  apply wp_ccArgs trivial
  intro pos hpos
  rw [wp_bind, wp_addClause1, wp_bind]
  generalize hsel : w1.nVarsOf w.solvers.length + 1 = sel
  have hfresh_db : ∀ c' ∈ w1.db w.solvers.length, ∀ l ∈ c', l.var ≠ sel := by
    intro c' hc' l hl; have := henc.db_lt c' hc' l hl; omega
  have hfresh_arg : ∀ a, a < c.af.n → cfg.enc.argVar a ≠ sel := by
    intro a ha; have := henc.argVar_le ha; omega
  have hdb : ∀ ν, cnfTrue ν (w1.db w.solvers.length) = cnfTrue ν (cfg.enc.clauses c.af) := by
    intro ν
    rw [henc.db]
    simp [cnfTrue, List.all_reverse]
  have hpos_lt : ∀ i ∈ pos, i < c.af.n → True := fun _ _ _ => trivial
  -- the solve node
  refine ⟨?_, ?_⟩
  · rintro m ⟨_, hΓ, hA⟩
    show wp True ((addClause _ _).bind _) _ _
    rw [wp_bind, wp_addClause1]
    refine ⟨c, cc, hcc, ?_⟩
    intro hwf hn pos' hpos'
    rw [hpos] at hpos'; injection hpos' with hpos'; subst hpos'
    refine ⟨rfl, ?_⟩
    simp only [Option.isSome_some, true_iff]
    simp only [db_onClause_same, db_onNVars] at hΓ
    rw [cnfTrue_iff] at hΓ
    have hsel_true : asgOfModel m sel = true := by simpa [assumpsTrue] using hA
    have hcl := hΓ _ (List.mem_cons_self)
    have hbase : cnfTrue (asgOfModel m) (w1.db w.solvers.length) = true := by
      rw [cnfTrue_iff]; intro c'' hc''; exact hΓ _ (List.mem_cons_of_mem _ hc'')
    rw [hdb] at hbase
    have hco := (hk _ _).1 (cfg.enc.sound c.af hwf _ hbase)
    refine ⟨_, hco, ?_⟩
    rw [clauseTrue_iff] at hcl
    obtain ⟨l, hl, hlt⟩ := hcl
    rcases List.mem_append.1 hl with hl | hl
    · obtain ⟨i, hi, rfl⟩ := List.mem_map.1 hl
      refine ⟨i, hi, ?_⟩
      simp only [argLit, litTrue_pl'] at hlt
      by_cases hin : i < c.af.n
      · rw [cfg.enc.S_lt hin]; exact hlt
      · exfalso
        obtain ⟨a, _, hpa⟩ := (mem_posAll hpos i).1 hi
        exact hin (Comp.pos_lt hn hpa)
    · simp only [List.mem_singleton] at hl; subst hl
      simp [litTrue, nl, hsel_true] at hlt
  · intro hunsat
    show wp True ((addClause _ _).bind _) _ _
    rw [wp_bind, wp_addClause1]
    refine ⟨c, cc, hcc, ?_⟩
    intro hwf hn pos' hpos'
    rw [hpos] at hpos'; injection hpos' with hpos'; subst hpos'
    refine ⟨rfl, ?_⟩
    simp only [Option.isSome_none, Bool.false_eq_true, false_iff]
    rintro ⟨T, hT, i, hi, hTi⟩
    obtain ⟨ν, hν, hS⟩ := cfg.enc.complete c.af hwf T ((hk _ _).2 hT)
    apply hunsat (ν.set sel true)
    simp only [db_onClause_same, db_onNVars]
    refine ⟨?_, by simp [assumpsTrue, litTrue, pl]⟩
    rw [cnfTrue_iff]
    intro c'' hc''
    rcases List.mem_cons.1 hc'' with rfl | hc''
    · rw [clauseTrue_iff]
      refine ⟨argLit cfg.enc i, List.mem_append_left _ (List.mem_map_of_mem hi), ?_⟩
      have hin : i < c.af.n := by
        have := hT.1.1.1 i hTi; exact this
      simp only [argLit, litTrue_pl']
      rw [Asg.set_ne _ _ (hfresh_arg i hin), ← cfg.enc.S_lt (ν := ν) hin, hS]; exact hTi
    · rw [clauseTrue_set_fresh _ _ _ (hfresh_db c'' hc'')]
      have : cnfTrue ν (w1.db w.solvers.length) = true := by rw [hdb]; exact hν
      exact (cnfTrue_iff _ _).1 this c'' hc''

end Crusta
