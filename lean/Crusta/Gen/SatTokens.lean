/-! Regenerated from /repo/src/sat/buffered_sat_solver.rs by tools/gen_from_source.py on every run. Do not edit. -/

namespace Crusta.Gen

/-- the two status lines, satisfiable first -/
def statusLines : List (List Nat) := [[115, 32, 83, 65, 84, 73, 83, 70, 73, 65, 66, 76, 69], [115, 32, 85, 78, 83, 65, 84, 73, 83, 70, 73, 65, 66, 76, 69]]

/-- prefix of a value line -/
def valuePrefix : List Nat := [118, 32]

/-- prefix of a comment line, and the two bare lines that are skipped -/
def commentPrefix : List Nat := [99, 32]
def bareLines : List (List Nat) := [[99], [118]]

/-- the DIMACS header up to the variable count -/
def dimacsHeaderPrefix : List Nat := [112, 32, 99, 110, 102, 32]

end Crusta.Gen
