import Crusta.Proofs.Oracle
import Crusta.Proofs.DynHistory

/-!
# C09 — redundant or invalid updates never corrupt a dynamic solver (property theorems)

Model and tie as for C08.  `update_call_contract` is proved for the buffered solvers of all three
semantics (the update path does not depend on the semantics); the statement about later answers
is `C08.dynamic_answers_for_current_framework` (complete, stable and preferred solvers), whose framework is
`runOps ops`: a history in which rejected or redundant updates have no effect.
-/

namespace Crusta.C09
open Crusta Crusta.Dyn

theorem judge_is_exact (af : AF) (hwf : af.WF) (q : Query) (a : Answer) :
    checkAnswer af q a = .ok () ↔ Conforms af q a := checkAnswer_iff af hwf q a

/-- **the update calls.**  On every state satisfying the solver invariant: the call reports `ok`
or `err` exactly as the framework store does on the pending framework (C12 says when that is), never
panics; after an error the solver state is unchanged; an update that does not change the framework
(an argument or an attack that is already present) leaves the whole solver state unchanged; and
the invariant is kept, so the solver stays usable. -/
theorem update_call_contract {sem : DSem} {d : DState} {w : World} (h : QInv sem d w) (op : StoreOp) :
    QInv sem (d.update op).1 w ∧
    ((d.update op).2 = .ok ∧ d.pending.step op = .ok (d.update op).1.pending ∨
     (d.update op).2 = .err ∧ d.pending.step op = .err d.pending ∧ (d.update op).1 = d) ∧
    ((d.update op).1.pending = d.pending → (d.update op).1 = d) := update_preserves h op

/-- for every reachable state of the three solvers (complete, stable, preferred) the contract applies, and the
pending framework is the one obtained from the calls made so far with the rejected ones dropped -/
theorem reachable_states_keep_contract {sem : DSem} {fuel : Nat} {ops : List StoreOp}
    {d : DState} {w : World} (hreach : Reach sem fuel ops d w) (op : StoreOp) :
    Store.runOps Store.empty ops = some d.pending ∧
    Store.runOps Store.empty (ops ++ [op]) = some (d.update op).1.pending ∧
    ((d.update op).2 = .err → (d.update op).1 = d) := by
  obtain ⟨hq, _, hops⟩ := reach_inv hreach
  obtain ⟨_, _, hops'⟩ := reach_inv (Reach.update op hreach)
  refine ⟨hops, hops', ?_⟩
  intro herr
  rcases (update_preserves hq op).2.1 with ⟨hok, _⟩ | ⟨_, _, hd⟩
  · rw [hok] at herr; cases herr
  · exact hd

/-- which updates the store rejects: unknown argument to remove, unknown endpoint of an attack,
unknown attack to remove (from the store theorems of C12) -/
theorem store_rejects_exactly {s : Store} (hinv : s.Inv) :
    (∀ l, (∀ id, ¬ s.Live id l) → s.step (.remArg l) = .err s) ∧
    (∀ la lb, ((∀ a, ¬ s.Live a la) ∨ (∀ b, ¬ s.Live b lb)) → s.step (.newAtt la lb) = .err s) ∧
    (∀ la lb, ((∀ a, ¬ s.Live a la) ∨ (∀ b, ¬ s.Live b lb)) → s.step (.remAtt la lb) = .err s) ∧
    (∀ la lb a b, s.Live a la → s.Live b lb → ¬ s.HasAtt a b → s.step (.remAtt la lb) = .err s) :=
  ⟨fun l h => (Store.removeArgument_spec hinv l).2 h,
   fun la lb h => (Store.newAttack_spec hinv la lb).2 h,
   fun la lb h => (Store.removeAttack_spec hinv la lb).2 h,
   fun la lb a b ha hb hn => ((Store.removeAttack_spec hinv la lb).1 a b ha hb).2 hn⟩

end Crusta.C09
