"""Regenerates lean/Crusta/Gen/* from /repo: data the model depends on (constants, tables)."""
import os
import re


def write_if_changed(path, content):
    if os.path.exists(path) and open(path).read() == content:
        return False
    os.makedirs(os.path.dirname(path), exist_ok=True)
    open(path, "w").write(content)
    return True


def regenerate(repo, gen_dir):
    src = open(os.path.join(repo, "src/encodings/hybrid_complete_constraints_encoder.rs")).read()
    m = re.search(r"const DEFENDER_SETS_PROD_THRESHOLD: usize = ([^;]+);", src)
    if not m:
        raise RuntimeError("DEFENDER_SETS_PROD_THRESHOLD not found")
    expr = m.group(1).strip()
    mm = re.fullmatch(r"1 << (\d+)", expr)
    if mm:
        thr = 1 << int(mm.group(1))
    elif re.fullmatch(r"\d+", expr):
        thr = int(expr)
    else:
        raise RuntimeError("cannot evaluate threshold expression %r" % expr)
    content = "/-! Regenerated from /repo by tools/gen_from_source.py on every run. Do not edit. -/\n\nnamespace Crusta.Gen\n\n/-- `DEFENDER_SETS_PROD_THRESHOLD` in `encodings/hybrid_complete_constraints_encoder.rs` -/\ndef hybridThreshold : Nat := %d\n\nend Crusta.Gen\n" % thr
    return write_if_changed(os.path.join(gen_dir, "Constants.lean"), content)
