import Crusta.Proofs.StaticAll
import Crusta.Proofs.SolveCallsID
import Crusta.Proofs.SolveCallsRG

/-!
# Tools for the total-correctness theorems of the static solvers

* `NC p`: the program `p` contains no reachable `crash` node, whatever the SAT solver replies
  (a structural property; `NC.wp` turns it into a `wp False` statement);
* the facts that exclude the crash nodes of the plumbing: `mergedOf_some` (the merged component of
  live arguments, from the fresh state, exists and is extracted), `ccArgs_eq` (queried arguments lie in
  the merged component), `allComps` has no `none` entry (`allComps_list`);
* `safe_forEachComp`, `safe_otherCompsWith`: the loops over the components, for a per-component
  program that reaches no crash node;
* the fuel: `fuelFor` and the inequalities that discharge the per-component fuel hypotheses of the
  call-bound theorems (`SolveCalls*.lean`).
-/

namespace Crusta
open Prog (mkSolver doReserve addClause addClauses getNVars doSolve)

/-! ## structural crash-freedom -/

/-- no `crash` node is reachable, whatever the replies of the SAT solver -/
def NC {α : Type} : Prog α → Prop
  | .pure _ => True
  | .crash _ => False
  | .newSolver k => ∀ i, NC (k i)
  | .reserve _ _ k => NC k
  | .clause _ _ k => NC k
  | .nVars _ k => ∀ n, NC (k n)
  | .solve _ _ k => ∀ r, NC (k r)

theorem NC.wp {α : Type} {p : Prog α} : NC p → ∀ (w : World) (Q : α → World → Prop),
    (∀ a w', Q a w') → wp False p w Q := by
  induction p with
  | pure a0 => intro _ w Q hq; exact hq _ _
  | crash m => intro h; exact h.elim
  | newSolver k ih => intro h w Q hq; exact ih _ (h _) _ Q hq
  | reserve s n k ih => intro h w Q hq; exact ih h _ Q hq
  | clause s c k ih => intro h w Q hq; exact ih h _ Q hq
  | nVars s k ih => intro h w Q hq; exact ih _ (h _) _ Q hq
  | solve s as k ih => intro h w Q hq; exact ⟨fun m _ => ih _ (h _) _ Q hq, fun _ => ih _ (h _) _ Q hq⟩

theorem NC.bind {α β : Type} {p : Prog α} {f : α → Prog β} (hp : NC p) (hf : ∀ a, NC (f a)) : NC (p.bind f) := by
  induction p with
  | pure a0 => exact hf a0
  | crash m => exact hp.elim
  | newSolver k ih => intro i; exact ih i (hp i)
  | reserve s n k ih => exact ih hp
  | clause s c k ih => exact ih hp
  | nVars s k ih => intro n; exact ih n (hp n)
  | solve s as k ih => intro r; exact ih r (hp r)

theorem NC_pure {α : Type} (a : α) : NC (pure a : Prog α) := trivial
theorem NC_mkSolver : NC mkSolver := fun _ => trivial
theorem NC_getNVars (s : Nat) : NC (getNVars s) := fun _ => trivial
theorem NC_addClause (s : Nat) (c : Clause) : NC (addClause s c) := trivial
theorem NC_doSolve (s : Nat) (a : List Lit) : NC (doSolve s a) := fun _ => trivial
theorem NC_doReserve (s n : Nat) : NC (doReserve s n) := trivial

theorem NC_addClauses (s : Nat) : ∀ cs : Cnf, NC (addClauses s cs)
  | [] => trivial
  | _ :: cs => NC_addClauses s cs

theorem NC_encodeInto (k : EncKind) (af : AF) (s : Nat) (wr : Bool) : NC (encodeInto k af s wr) := by
  unfold encodeInto
  cases hr : k.reserve af.n wr with
  | none => exact NC_addClauses _ _
  | some r => exact NC.bind (NC_doReserve _ r) (fun _ => NC_addClauses _ _)

/-! ## the plumbing -/

theorem ccArgs_eq (c : Comp) : ∀ (args pos : List Nat), posAll c args = some pos → ccArgs c args = pure pos
  | [], pos, h => by
    simp only [posAll, Option.some.injEq] at h; subst h; rfl
  | a :: t, pos, h => by
    simp only [posAll] at h
    cases hp : c.pos a with
    | none => rw [hp] at h; simp at h
    | some i =>
      cases hr : posAll c t with
      | none => rw [hp, hr] at h; simp at h
      | some r =>
        rw [hp, hr] at h
        injection h with h; subst h
        have ih := ccArgs_eq c t r hr
        unfold ccArgs at ih ⊢
        simp only [List.foldr_cons, Prog.bind_eq] at ih ⊢
        rw [ih, hp]
        rfl

/-- the merged component of live arguments, computed from the fresh state: neither the "already
computed" panic nor the extraction panic -/
theorem mergedOf_some (v : FwView) (g : G) (hv : v.Ok g) (args : List Nat) (hargs : ∀ a ∈ args, g.live a = true) :
    ∃ c cc, CC.mergedOf v (CC.new v) args = some (some c, cc) ∧ GoodComp g c ∧ (∀ a ∈ args, a ∈ c.ids) ∧
      CCInv v g cc (fun a => a ∈ c.ids) := by
  have hI := CC.new_inv v g hv
  have hany : ¬ args.any (fun a => (CC.new v).inCC.getD a false) = true := by
    intro h
    obtain ⟨a, _, ha⟩ := List.any_eq_true.1 h
    exact (hI.mark a).2 ha
  cases hm : CC.mergedOf v (CC.new v) args with
  | none =>
    rw [mergedOf_eq, if_neg hany] at hm
    cases hm
  | some p =>
    obtain ⟨oc, cc⟩ := p
    obtain ⟨c, rfl, hgood, hin, hI'⟩ := CC.mergedOf_spec v g hv args hargs oc cc hm
    exact ⟨c, cc, rfl, hgood, hin, hI'⟩

/-- a good component has at most as many arguments as there are ids -/
theorem GoodComp.n_le {v : FwView} {g : G} (hv : v.Ok g) {c : Comp} (hc : GoodComp g c) :
    c.af.n ≤ 1 + v.maxId.getD 0 := by
  rw [hc.n_eq]
  have hsub : c.ids ⊆ List.range (1 + v.maxId.getD 0) := by
    intro a ha
    obtain ⟨m, hm, hle⟩ := hv.maxId_ge a (hc.live a ha)
    rw [hm]
    simp only [Option.getD_some, List.mem_range]
    omega
  have := hc.nodup.length_le_of_subset hsub
  simpa using this

/-! ## sizes of the enumerations -/

theorem length_subsets : ∀ n, (subsets n).length = 2 ^ n
  | 0 => rfl
  | n + 1 => by
    simp only [subsets, List.length_append, List.length_map, length_subsets n, Nat.pow_succ]
    omega

theorem length_extsCO_le (af : AF) : (extsCO af).length ≤ 2 ^ af.n := by
  rw [← length_subsets]; exact List.length_filter_le _ _

theorem length_extsCF_le (af : AF) : (extsCF af).length ≤ 2 ^ af.n := by
  rw [← length_subsets]; exact List.length_filter_le _ _

theorem length_extsPR_le (af : AF) : (extsPR af).length ≤ 2 ^ af.n := by
  rw [← length_subsets]
  exact Nat.le_trans (List.length_filter_le _ _) (List.length_filter_le _ _)

/-! ## the fuel -/

/-- a fuel sufficient for every loop of every solver on a view whose ids are below `N` -/
def fuelFor (N : Nat) : Nat := (N + 3) * 2 ^ N + N + 3

theorem fuelFor_ge_succ (N : Nat) : N + 1 ≤ fuelFor N := by
  unfold fuelFor; omega

theorem fuelFor_ge_lin {n N : Nat} (h : n ≤ N) : n + 3 ≤ fuelFor N := by
  unfold fuelFor; omega

theorem fuelFor_ge_mul {n N : Nat} (h : n ≤ N) : (n + 2) * 2 ^ n + 2 ≤ fuelFor N := by
  unfold fuelFor
  have h1 : 2 ^ n ≤ 2 ^ N := Nat.pow_le_pow_right (by decide) h
  have h2 : (n + 2) * 2 ^ n ≤ (N + 3) * 2 ^ N := Nat.mul_le_mul (by omega) h1
  omega

theorem fuelFor_ge_two_pow {n N : Nat} (h : n ≤ N) : 2 ^ n + 2 ^ n + 2 ≤ fuelFor N := by
  have h1 := fuelFor_ge_mul h
  have h2 : (n + 2) * 2 ^ n = n * 2 ^ n + 2 * 2 ^ n := Nat.add_mul _ _ _
  omega

/-! ## the loops over the components -/

/-- the loop over all components: no crash node, provided the per-component program has none -/
theorem safe_forEachComp (f : Comp → Prog (List Nat)) (Good : Comp → Prop)
    (hf : ∀ c w, w.Bounded → Good c → wp False (f c) w (fun _ w' => w'.Bounded)) :
    ∀ (cs : List Comp) (acc : List Nat) (w : World), w.Bounded → (∀ c ∈ cs, Good c) →
      wp False (forEachComp f (cs.map some) acc) w (fun _ w' => w'.Bounded)
  | [], _, _, hb, _ => hb
  | c :: rest, acc, w, hb, hg => by
    simp only [List.map_cons]
    unfold forEachComp
    simp only [Prog.bind_eq]
    show wp False ((f c).bind _) w _
    rw [wp_bind]
    refine wp_mono _ _ _ _ ?_ (hf c w hb (hg c (by simp)))
    intro r w1 hb1
    exact safe_forEachComp f Good hf rest (acc ++ r) w1 hb1 (fun c' hc' => hg c' (by simp [hc']))

/-- the loop over the remaining components: each iteration extracts a non-empty component of
unmarked live ids, so a fuel above the number of unmarked slots is never exhausted, and the
extraction never fails -/
theorem safe_otherCompsWith (v : FwView) (g : G) (hv : v.Ok g) (f : Comp → Prog (List Nat))
    (hf : ∀ c w, w.Bounded → GoodComp g c → wp False (f c) w (fun _ w' => w'.Bounded)) :
    ∀ (fuel : Nat) (cc : CC) (marked : Nat → Prop) (acc : List Nat) (w : World), CCInv v g cc marked →
      cc.inCC.count false < fuel → w.Bounded →
      wp False (otherCompsWith v f fuel cc acc) w (fun _ w' => w'.Bounded)
  | 0, _, _, _, _, _, hf', _ => by omega
  | fuel + 1, cc, marked, acc, w, hI, hfu, hb => by
    obtain ⟨_, hsome⟩ := CC.nextComp_spec v g hv cc marked hI
    unfold otherCompsWith
    cases hnc : CC.nextComp v cc with
    | none => exact hb
    | some p =>
      obtain ⟨oc, cc'⟩ := p
      obtain ⟨c, rfl, hgood, hne, hnm, hI'⟩ := hsome oc cc' hnc
      have hcnt : cc'.inCC.count false < cc.inCC.count false := by
        apply count_false_lt cc.inCC cc'.inCC (by rw [hI.len, hI'.len])
        · intro a ha
          exact (hI'.mark a).1 (Or.inl ((hI.mark a).2 ha))
        · obtain ⟨a, ha⟩ := List.exists_mem_of_ne_nil _ hne
          refine ⟨a, ?_, (hI'.mark a).1 (Or.inr ha)⟩
          cases hh : cc.inCC.getD a false
          · rfl
          · exact absurd ((hI.mark a).2 hh) (hnm a ha)
      simp only [Prog.bind_eq]
      show wp False ((f c).bind _) w _
      rw [wp_bind]
      refine wp_mono _ _ _ _ ?_ (hf c w hb hgood)
      intro r w1 hb1
      exact safe_otherCompsWith v g hv f hf fuel cc' _ (acc ++ r) w1 hI' (by omega) hb1

/-- the fuel of the loop over the remaining components, after the merged component -/
theorem otherComps_fuel {v : FwView} {g : G} {cc : CC} {marked : Nat → Prop} (hI : CCInv v g cc marked)
    {fuel : Nat} (hfuel : fuel ≥ fuelFor (1 + v.maxId.getD 0)) : cc.inCC.count false < fuel := by
  have h1 := @List.count_le_length _ _ false cc.inCC
  rw [hI.len] at h1
  have h2 := fuelFor_ge_succ (1 + v.maxId.getD 0)
  omega

/-- from a call-bound statement to plain crash-freedom with the invariant of the world -/
theorem safe_of_wp {α : Type} {p : Prog α} {w : World} {Q : α → World → Prop} (hb : w.Bounded)
    (h : wp False p w Q) : wp False p w (fun _ w' => w'.Bounded) :=
  wp_mono _ _ _ _ (fun _ _ h => h.1) (wp_bounded p w Q hb h)

end Crusta
