import Crusta.Proofs.DynCallsAux
import Crusta.Proofs.DynTotal
import Crusta.Proofs.SolveCalls
import Mathlib.Data.Finset.Powerset
import Mathlib.Data.Set.Card

/-!
# SAT calls of the preferred dynamic solver on sound replies (C18, dynamic part)

`DynCallsAux.lean` bounds the calls of every dynamic query for arbitrary replies (`Bounded`); for the
preferred solver that bound is the fuel of the model's loop (`dyn_pr_calls_fuel`, `dyn_pr_calls_crude`
restate it in the calculus).  Here the bound of the property: on sound replies, in a state satisfying
the solver invariant `QInv`, the skeptical query of the preferred solver makes at most `|CO|` SAT
calls (`dyn_pr_calls_co`; hence at most `|CO| + |PR| + 1`: `dyn_pr_calls`), `|CO|` the number of
complete extensions of the current framework (`nCO`, a `Finset.card`; `nCO_eq_ncard`: it is the
`Set.ncard` of the set of complete extensions) — and a loop fuel of `|CO| + 1` is never exhausted,
so that the fuel of the model does not matter (`dyn_pr_fuel_irrelevant`).

Counting (same as `SolveCalls.lean`): a ghost list `seen` of the sets that have been the current set
of the search (the grounded extension, computed without SAT, and the SAT replies).  Every SAT reply
is a complete set that lies in no blocked set, all earlier sets are blocked, so `seen` is
duplicate-free as a list of sets; each call but the last adds a set to `seen`, and the last call
(UNSAT: a preferred extension missing the query, or no further candidate) is paid by the grounded
extension.  The loop lemma of `DynPR.lean` (`wp_prLoop`) hides the blocked list behind an
existential; it is restated here (`DLX`, `wp_nextX`, `prLoop_calls`) with the blocked list explicit,
on top of the step lemmas of `DynPR.lean` (`wp_dIncrease`, `wp_dNewSearch`, `wp_block`).

As everywhere in the calculus, the postcondition speaks of the runs that return; for the runs that
are aborted by an `unknown` reply, or on unsound replies, the bound is the one of `DynCallsAux.lean`.
-/

namespace Crusta

/-! ## from `interp` to the calculus -/

/-- a bound on the calls of every run from `w` is a postcondition of the calculus -/
theorem wp_calls_of_interp {α : Type} (p : Prog α) : ∀ (w : World) (c : Nat),
    (∀ rs, (interp p rs w).2.calls ≤ c) → wp True p w (fun _ w' => w'.calls ≤ c) := by
  induction p with
  | pure a => intro w c h; exact h []
  | crash m => intro w c h; trivial
  | newSolver k ih => intro w c h; exact ih _ _ _ (fun rs => h rs)
  | reserve s n k ih => intro w c h; exact ih _ _ (fun rs => h rs)
  | clause s cl k ih => intro w c h; exact ih _ _ (fun rs => h rs)
  | nVars s k ih => intro w c h; exact ih _ _ _ (fun rs => h rs)
  | solve s a k ih =>
    intro w c h
    exact ⟨fun m _ => ih (some m) _ _ (fun rs => h (.sat m :: rs)),
           fun _ => ih none _ _ (fun rs => h (.unsat :: rs))⟩

/-- `Bounded` (arbitrary replies) in the calculus -/
theorem wp_calls_le {α : Type} {p : Prog α} {n : Nat} (h : Bounded p n) (w : World) :
    wp True p w (fun _ w' => w'.calls ≤ w.calls + n) :=
  wp_calls_of_interp p w _ (fun rs => h rs w)

end Crusta

namespace Crusta.Dyn
open Prog (addClause addClauses getNVars doSolve)
open Crusta.Store

/-! ## the crude bound: the fuel -/

/-- in a reachable state, with enough fuel, the skeptical query of the preferred solver answers
correctly, does not panic and makes at most `fuel` SAT calls -/
theorem dyn_pr_calls_fuel {fuel : Nat} {d : DState} {w : World} (h : QInv .PR d w) {l id : Nat}
    (hl : d.pending.Live id l) (hfuel : prFuel d.pending ≤ fuel) :
    wp False (prSkepQuery fuel d l) w (fun r w' =>
      (QInv .PR r.1 w' ∧ r.1.pending = d.pending ∧ SkepOK .PR d.pending l r.2) ∧
      w'.calls ≤ w.calls + fuel) :=
  wp_andT _ _ _ _ (prSkepQuery_no_crash h hl hfuel) (wp_calls_le (dyn_prSkep_bounded_fuel fuel d l) w)

/-- with the fuel `prFuel` of `DynTotal.lean`: no crash and at most `prFuel` calls -/
theorem dyn_pr_calls_crude {d : DState} {w : World} (h : QInv .PR d w) {l id : Nat}
    (hl : d.pending.Live id l) :
    wp False (prSkepQuery (prFuel d.pending) d l) w
      (fun _ w' => w'.calls ≤ w.calls + prFuel d.pending) :=
  wp_mono _ _ _ _ (fun _ _ hh => hh.2) (dyn_pr_calls_fuel h hl (Nat.le_refl _))

/-! ## the ghost list of the sets seen by a search -/

/-- `seen`: complete sets, pairwise different, all blocked except the current set while the search
is in the intermediate state -/
structure CInvD (d : DState) (st : MState) (cur : List Nat) (blocked seen : List (List Nat)) : Prop where
  seen_co : ∀ e ∈ seen, d.af.g.Complete (ofList e)
  seen_nd : DistinctS seen
  seen_blk : ∀ e ∈ seen, e ∈ blocked ∨ (st = .intermediate ∧ e = cur)

theorem fresh_ne {cur e : List Nat} (h : ¬ (∀ a ∈ cur, a ∈ e)) : ofList cur ≠ ofList e := by
  intro heq
  apply h
  intro a ha
  have : ofList cur a = true := (ofList_mem _ a).2 ha
  rw [heq] at this
  exact (ofList_mem _ a).1 this

theorem CInvD.init {d : DState} {gr : List Nat} (hgr : d.af.g.Complete (ofList gr)) :
    CInvD d .intermediate gr [] [gr] := by
  refine ⟨?_, List.pairwise_singleton _ _, ?_⟩
  · intro e he; simp only [List.mem_singleton] at he; subst he; exact hgr
  · intro e he; simp only [List.mem_singleton] at he; exact Or.inr ⟨rfl, he⟩

/-- a SAT reply: a complete set outside every set of the (possibly extended) blocked list -/
theorem CInvD.push_seen {d : DState} {st : MState} {cur : List Nat} {blocked seen : List (List Nat)}
    (h : CInvD d st cur blocked seen) (blocked' : List (List Nat)) (cur' : List Nat)
    (hmono : ∀ e ∈ blocked, e ∈ blocked') (hcur : st = .intermediate → cur ∈ blocked')
    (hco : d.af.g.Complete (ofList cur')) (hfresh : Fresh cur' blocked') :
    CInvD d .intermediate cur' blocked' (cur' :: seen) := by
  have hsb : ∀ e ∈ seen, e ∈ blocked' := by
    intro e he
    rcases h.seen_blk e he with hb | ⟨hs, rfl⟩
    · exact hmono e hb
    · exact hcur hs
  refine ⟨?_, ?_, ?_⟩
  · intro e he
    rcases List.mem_cons.1 he with rfl | he
    · exact hco
    · exact h.seen_co e he
  · exact List.pairwise_cons.2 ⟨fun e he => fresh_ne (hfresh e (hsb e he)), h.seen_nd⟩
  · intro e he
    rcases List.mem_cons.1 he with rfl | he
    · exact Or.inr ⟨rfl, rfl⟩
    · exact Or.inl (hsb e he)

/-- blocking the current set and leaving the intermediate state -/
theorem CInvD.block_cur {d : DState} {cur : List Nat} {blocked seen : List (List Nat)}
    (h : CInvD d .intermediate cur blocked seen) (st : MState) :
    CInvD d st cur (cur :: blocked) seen := by
  refine ⟨h.seen_co, h.seen_nd, ?_⟩
  intro e he
  rcases h.seen_blk e he with hb | ⟨_, rfl⟩
  · exact Or.inl (List.mem_cons_of_mem _ hb)
  · exact Or.inl List.mem_cons_self

/-! ## the loop, with the blocked list explicit -/

/-- the states in which the loop starts an iteration.  It never does so in the maximal state: a set
that contains the queried argument is discarded while it is intermediate, and a preferred extension
that misses it ends the search -/
def DLX (d : DState) (sel : Nat) (Γ₀ : Cnf) (arg : Nat) (m : DMEC) (w : World) (blocked : List (List Nat)) : Prop :=
  m.sel = sel ∧ m.additional = d.enc.assumptions ∧
  ((m.state = .init ∧ SInv d sel Γ₀ w [] ∧ blocked = []) ∨
   (m.state = .intermediate ∧ DSk d sel Γ₀ m w blocked arg ∧ Fresh m.cur blocked ∧ ¬ m.cur.contains arg = true) ∨
   (m.state = .justDiscarded ∧ SInv d sel Γ₀ w blocked ∧ AllTopD d.af.g arg blocked))

/-- what `compute_next` leaves: the search is over, or one more set has been seen, or the current
set (unchanged) is maximal -/
def AfterX (d : DState) (sel : Nat) (Γ₀ : Cnf) (arg : Nat) (m : DMEC) (seen : List (List Nat))
    (m' : DMEC) (w' : World) : Prop :=
  m'.sel = sel ∧ m'.additional = d.enc.assumptions ∧
  (m'.state = .none ∨
   (m'.state = .intermediate ∧ ∃ blocked' seen', DSk d sel Γ₀ m' w' blocked' arg ∧ Fresh m'.cur blocked' ∧
      CInvD d .intermediate m'.cur blocked' seen' ∧ seen'.length = seen.length + 1) ∨
   (m'.state = .maximal ∧ m.state = .intermediate ∧ m'.cur = m.cur))

theorem wp_nextX {d : DState} {sel : Nat} {Γ₀ : Cnf} {arg : Nat} {m : DMEC} {w : World}
    {blocked seen : List (List Nat)} (hrows : d.af.RowsNodup) (h : DLX d sel Γ₀ arg m w blocked)
    (hc : CInvD d m.state m.cur blocked seen) (hinit : m.state = .init → seen = []) :
    wp False (m.computeNext d) w (fun m' w' => AfterX d sel Γ₀ arg m seen m' w' ∧
      w'.calls ≤ w.calls + 1 ∧ (m.state = .init → w'.calls = w.calls)) := by
  obtain ⟨hsel, hadd, hcase⟩ := h
  rcases hcase with ⟨hst, hS, hbl⟩ | ⟨hst, hS, hfr, hno⟩ | ⟨hst, hS, htop⟩
  · -- init: the grounded extension, no SAT call
    unfold DMEC.computeNext
    rw [hst]
    obtain ⟨hgr, _, hlive⟩ := groundedV_spec d.af.view d.af.g (Store.view_ok d.af hS.st_inv hrows)
    have hs := hinit hst
    subst hs; subst hbl
    refine ⟨⟨hsel, hadd, Or.inr (Or.inl ⟨rfl, [], [groundedV d.af.view], ⟨hS, hlive, hgr.1, ?_, ?_⟩, ?_,
      CInvD.init hgr.1, rfl⟩)⟩, Nat.le_succ _, fun _ => rfl⟩
    · intro B hB; cases hB
    · intro B hB; cases hB
    · intro B hB; cases hB
  · -- intermediate: increase
    have hfin : ∃ n, ∀ a, d.af.g.live a = true → a < n :=
      ⟨d.af.labels.length, fun a ha => by obtain ⟨l, hl⟩ := hasId_iff.1 ha; exact live_lt hl⟩
    rw [hst] at hc
    refine wp_mono _ _ _ _ ?_ (wp_andT _ _ _ _ (wp_dIncrease (C := False) hS hsel hadd hst hfin)
      (wp_calls_le (bounded_computeNext d m) w))
    rintro m' w' ⟨⟨hsel', hadd', hcase⟩, hcalls⟩
    have hni : m.state = .init → w'.calls = w.calls := fun hi => by rw [hst] at hi; cases hi
    rcases hcase with ⟨hst', hS', hfr'⟩ | ⟨hst', hcur, _, _⟩
    · refine ⟨⟨hsel', hadd', Or.inr (Or.inl ⟨hst', m.cur :: blocked, m'.cur :: seen, hS', hfr', ?_, rfl⟩)⟩,
        hcalls, hni⟩
      exact hc.push_seen (m.cur :: blocked) m'.cur (fun e he => List.mem_cons_of_mem _ he)
        (fun _ => List.mem_cons_self) hS'.cur_co hfr'
    · exact ⟨⟨hsel', hadd', Or.inr (Or.inr ⟨hst', hst, hcur⟩)⟩, hcalls, hni⟩
  · -- justDiscarded: a new search
    unfold DMEC.computeNext
    rw [hst]
    refine wp_mono _ _ _ _ ?_ (wp_andT _ _ _ _ (wp_dNewSearch (C := False) hS hsel hadd htop)
      (wp_calls_le (bounded_newSearch d m) w))
    rintro m' w' ⟨⟨hsel', hadd', hcase⟩, hcalls⟩
    rcases hcase with ⟨hst', hS', hfr'⟩ | ⟨hst', _, _⟩
    · refine ⟨⟨hsel', hadd', Or.inr (Or.inl ⟨hst', blocked, m'.cur :: seen, hS', hfr', ?_, rfl⟩)⟩,
        hcalls, fun hi => (by cases hi)⟩
      exact hc.push_seen blocked m'.cur (fun e he => he) (fun hh => by rw [hst] at hh; cases hh)
        hS'.cur_co hfr'
    · exact ⟨⟨hsel', hadd', Or.inl hst'⟩, hcalls, fun hi => (by cases hi)⟩

/-- **the loop of the preferred solver**: `N` bounds the length of every duplicate-free list of
complete sets.  Each iteration uses one unit of fuel and adds one set to `seen`, or ends the search;
each call but the last is paid by such a set, the grounded extension pays the last one.  So a fuel of
`N + 1` is never exhausted and the loop makes at most `N` calls. -/
theorem prLoop_calls {d : DState} {sel : Nat} {Γ₀ : Cnf} {arg len : Nat} (hrows : d.af.RowsNodup)
    (c0 N : Nat)
    (hN : ∀ seen : List (List Nat), DistinctS seen → (∀ e ∈ seen, d.af.g.Complete (ofList e)) → seen.length ≤ N) :
    ∀ (fuel : Nat) (m : DMEC) (st : PrSt) (w : World) (blocked seen : List (List Nat)),
    DLX d sel Γ₀ arg m w blocked → CInvD d m.state m.cur blocked seen → (m.state = .init → seen = []) →
    w.calls + 1 ≤ c0 + seen.length + (if m.state = .init then 1 else 0) →
    fuel + seen.length ≥ N + 1 →
    wp False (prLoop d arg len fuel m st) w (fun _ w' => w'.calls ≤ c0 + N)
  | 0, m, _, _, _, seen, _, hc, _, _, hf => by
    have := hN seen hc.seen_nd hc.seen_co; omega
  | fuel + 1, m, st, w, blocked, seen, h, hc, hinit, hcalls, hf => by
    have hnohit : m.state = .intermediate → ¬ m.cur.contains arg = true := by
      intro hst
      rcases h.2.2 with ⟨hst', _⟩ | ⟨_, _, _, hnh⟩ | ⟨hst', _⟩
      · rw [hst] at hst'; cases hst'
      · exact hnh
      · rw [hst] at hst'; cases hst'
    unfold prLoop
    simp only [Prog.bind_eq]
    rw [wp_bind]
    refine wp_mono _ _ _ _ ?_ (wp_nextX hrows h hc hinit)
    rintro m' w' ⟨⟨hsel, hadd, hcase⟩, hc1, hc0⟩
    have hsl := hN seen hc.seen_nd hc.seen_co
    have hcalls' : w'.calls ≤ c0 + seen.length := by
      by_cases hi : m.state = .init
      · rw [if_pos hi] at hcalls; have := hc0 hi; omega
      · rw [if_neg hi] at hcalls; omega
    rcases hcase with hst | ⟨hst, blocked', seen', hS, hfr, hc', hlen⟩ | ⟨hst, hstm, hcur⟩
    · -- none: the search is over
      rw [hst]
      show w'.calls ≤ c0 + N
      omega
    · -- intermediate
      have hcalls'' : w'.calls + 1 ≤ c0 + seen'.length := by omega
      have hf' : fuel + seen'.length ≥ N + 1 := by omega
      rw [hst]
      simp only
      obtain ⟨_, T', F', hI⟩ := hS.sinv.clean
      by_cases hhit : m'.cur.contains arg = true
      · rw [if_pos hhit, wp_bind, wp_block hI, hsel]
        exact prLoop_calls hrows c0 N hN fuel _ _ _ (m'.cur :: blocked') seen'
          ⟨rfl, hadd, Or.inr (Or.inr ⟨rfl, hS.sinv.block m'.cur, hS.allTop_after_block hhit⟩)⟩
          (hc'.block_cur .justDiscarded) (fun hh => by cases hh)
          (by rw [if_neg (by intro hh; cases hh)]; exact hcalls'') hf'
      · rw [if_neg hhit]
        exact prLoop_calls hrows c0 N hN fuel _ _ _ blocked' seen'
          ⟨hsel, hadd, Or.inr (Or.inl ⟨hst, hS, hfr, hhit⟩)⟩
          (by rw [hst]; exact hc') (fun hh => by rw [hst] at hh; cases hh)
          (by rw [if_neg (by rw [hst]; intro hh; cases hh)]; exact hcalls'') hf'
    · -- maximal: the current set misses the query, the search is over
      rw [hst]
      simp only
      have hm' : (boolVec len m'.cur).getD arg false = false := by
        cases hh : (boolVec len m'.cur).getD arg false
        · rfl
        · have := ((boolVec_getD _ _ _).1 hh).1
          rw [hcur] at this
          exact absurd (List.contains_iff_mem.2 this) (hnohit hstm)
      rw [if_pos (by rw [hm']; rfl)]
      show w'.calls ≤ c0 + N
      omega

/-- the part of the query that runs on an up-to-date encoding -/
theorem prSkepSolve_calls (fuel N : Nat) {d : DState} {w : World} (h : QInv .PR d w)
    (hsync : d.af = d.pending) {l id : Nat} (hl : d.pending.Live id l)
    (hN : ∀ seen : List (List Nat), DistinctS seen → (∀ e ∈ seen, d.af.g.Complete (ofList e)) → seen.length ≤ N)
    (hfuel : N + 1 ≤ fuel) :
    wp False (prSkepSolve fuel d l) w (fun _ w' => w'.calls ≤ w.calls + N) := by
  have hainv := h.dinv.af_inv
  obtain ⟨hs, T, F, hI⟩ := h.dinv.clean
  have hrows : d.af.RowsNodup := by rw [hsync]; exact h.pend_rows
  unfold prSkepSolve
  simp only [Prog.bind_eq]
  rw [wp_bind, wp_getNVars, wp_bind, wp_needArg hainv (by rw [hsync]; exact hl), wp_bind]
  have hS0 : SInv d (w.nVarsOf 0 + 1) (w.db 0) (w.onNVars 0) [] := by
    refine ⟨W0_onNVars h.dinv.w0 0, hainv, ⟨hs, T, F, hI⟩, ?_, by simp⟩
    intro c hc lit hlit
    have := h.dinv.w0.db_le c hc lit hlit
    omega
  refine wp_mono _ _ _ _ ?_ (prLoop_calls (sel := w.nVarsOf 0 + 1) (Γ₀ := w.db 0) (arg := id) hrows w.calls N hN
    fuel _ _ _ [] [] ⟨rfl, rfl, Or.inl ⟨rfl, hS0, rfl⟩⟩
    ⟨fun e he => (by cases he), List.Pairwise.nil, fun e he => (by cases he)⟩ (fun _ => rfl)
    (by rw [if_pos rfl]; simp) (by simp only [List.length_nil]; omega))
  rintro ⟨m, res, accB, refB, ext⟩ w2 hw2
  simp only
  rw [wp_bind, wp_addClause]
  show (w2.onClause 0 [pl m.sel]).calls ≤ w.calls + N
  exact hw2

/-- **the skeptical query of the preferred solver**, `N` a bound on the length of the duplicate-free
lists of complete sets of the pending framework: with fuel `N + 1` no crash and at most `N` calls -/
theorem prSkepQuery_callsN (fuel N : Nat) {d : DState} {w : World} (h : QInv .PR d w) {l id : Nat}
    (hl : d.pending.Live id l)
    (hN : ∀ seen : List (List Nat), DistinctS seen → (∀ e ∈ seen, d.pending.g.Complete (ofList e)) →
      seen.length ≤ N)
    (hfuel : N + 1 ≤ fuel) :
    wp False (prSkepQuery fuel d l) w (fun _ w' => w'.calls ≤ w.calls + N) := by
  rw [prSkepQuery_eq]
  split
  · rename_i b e hc
    obtain ⟨_, c, hcm, acc, ref, hcc, _⟩ := cachedSkep_spec _ _ _ _ hc
    apply wp_fromCache h hcm hcc
    exact Nat.le_add_right _ _
  · rw [wp_bind]
    refine wp_mono _ _ _ _ ?_ (wp_andT _ _ _ _ (wp_updateEncoding (C := False) h.dinv)
      (wp_calls_le (bounded_updateEncoding d) w))
    rintro d' w' ⟨⟨hd, haf, hp, hbuf, hn⟩, hcalls⟩
    have hq := QInv_of_update h hd hp hbuf
    have := prSkepSolve_calls fuel N hq (by rw [haf, hp]) (l := l) (id := id) (by rw [hp]; exact hl)
      (by rw [haf]; exact hN) hfuel
    refine wp_mono _ _ _ _ ?_ this
    intro _ w'' hh
    have h1 : w''.calls ≤ w'.calls + N := hh
    have h2 : w'.calls ≤ w.calls + 0 := hcalls
    show w''.calls ≤ w.calls + N
    omega

/-! ## the numbers of complete and preferred extensions -/

/-- the set of arguments described by a finite set of ids -/
def asetOf (s : Finset Nat) : ASet := fun a => decide (a ∈ s)

open Classical in
/-- the number of sets `s ⊆ {0, …, n-1}` whose indicator function satisfies `P` -/
noncomputable def countSets (n : Nat) (P : ASet → Prop) : Nat :=
  ((Finset.range n).powerset.filter (fun s => P (asetOf s))).card

/-- **`|CO|`: the number of complete extensions of the framework held by the store.**  An extension
is a set of live ids and every live id is below `st.labels.length` (the number of ids ever issued),
so the extensions are counted among the subsets of `{0, …, st.labels.length - 1}`: the cardinality
(`Finset.card`) of the set of those subsets whose indicator function is a complete extension of the
sparse framework `st.g` (`G.Complete`, `GSem.lean`).  Classical: `G.Complete` is not decidable. -/
noncomputable def nCO (st : Store) : Nat := countSets st.labels.length st.g.Complete

/-- **`|PR|`: the number of preferred extensions** (`G.Preferred`), counted in the same way -/
noncomputable def nPR (st : Store) : Nat := countSets st.labels.length st.g.Preferred

theorem asetOf_toFinset (e : List Nat) : asetOf e.toFinset = ofList e := by
  funext a
  simp [asetOf, ofList]

/-- a list of sets satisfying `P`, pairwise different, is no longer than the count -/
theorem length_le_countSets (n : Nat) (P : ASet → Prop) (hlt : ∀ S, P S → ∀ a, S a = true → a < n)
    (seen : List (List Nat)) (hd : DistinctS seen) (hP : ∀ e ∈ seen, P (ofList e)) :
    seen.length ≤ countSets n P := by
  classical
  have hnd : (seen.map List.toFinset).Nodup := by
    unfold List.Nodup
    rw [List.pairwise_map]
    refine List.Pairwise.imp ?_ hd
    intro a b hab heq
    apply hab
    rw [← asetOf_toFinset, ← asetOf_toFinset, heq]
  have hsub : (seen.map List.toFinset).toFinset ⊆
      (Finset.range n).powerset.filter (fun s => P (asetOf s)) := by
    intro s hs
    rw [List.mem_toFinset, List.mem_map] at hs
    obtain ⟨e, he, rfl⟩ := hs
    rw [Finset.mem_filter, Finset.mem_powerset]
    refine ⟨?_, by rw [asetOf_toFinset]; exact hP e he⟩
    intro a ha
    rw [List.mem_toFinset] at ha
    exact Finset.mem_range.2 (hlt _ (hP e he) a ((ofList_mem _ a).2 ha))
  have := Finset.card_le_card hsub
  rw [List.toFinset_card_of_nodup hnd, List.length_map] at this
  unfold countSets
  convert this

theorem complete_lt {st : Store} {S : ASet} (h : st.g.Complete S) {a : Nat} (ha : S a = true) :
    a < st.labels.length := by
  have : st.hasId a = true := h.1.1.1 a ha
  obtain ⟨l, hl⟩ := hasId_iff.1 this
  exact live_lt hl

theorem length_le_nCO (st : Store) (seen : List (List Nat)) (hd : DistinctS seen)
    (hP : ∀ e ∈ seen, st.g.Complete (ofList e)) : seen.length ≤ nCO st :=
  length_le_countSets _ _ (fun _ h _ ha => complete_lt h ha) seen hd hP

theorem countSets_le_pow (n : Nat) (P : ASet → Prop) : countSets n P ≤ 2 ^ n := by
  classical
  unfold countSets
  refine Nat.le_trans (Finset.card_filter_le _ _) ?_
  rw [Finset.card_powerset, Finset.card_range]

theorem countSets_mono (n : Nat) {P Q : ASet → Prop} (h : ∀ S, P S → Q S) : countSets n P ≤ countSets n Q := by
  classical
  unfold countSets
  apply Finset.card_le_card
  intro s hs
  rw [Finset.mem_filter] at hs ⊢
  exact ⟨hs.1, h _ hs.2⟩

/-- every preferred extension is complete -/
theorem nPR_le_nCO (st : Store) : nPR st ≤ nCO st :=
  countSets_mono _ (fun _ h => G.preferred_complete h)

/-- the fuel that `DynTotal.lean` asks for covers `|CO| + 1` -/
theorem nCO_succ_le_prFuel (st : Store) : nCO st + 1 ≤ prFuel st := by
  have := countSets_le_pow st.labels.length st.g.Complete
  unfold nCO prFuel
  omega

/-! ## the bound of the property -/

/-- **the skeptical query of the preferred dynamic solver makes at most `|CO|` SAT calls**, where
`|CO|` is the number of complete extensions of the current framework, as soon as the fuel of the
model's loop is at least `|CO| + 1` (then it is never exhausted); and the query answers correctly
and re-establishes the solver invariant (`wp_prSkepQuery_gen`) -/
theorem dyn_pr_calls_co {fuel : Nat} {d : DState} {w : World} (h : QInv .PR d w) {l id : Nat}
    (hl : d.pending.Live id l) (hfuel : nCO d.pending + 1 ≤ fuel) :
    wp False (prSkepQuery fuel d l) w (fun r w' =>
      w'.calls ≤ w.calls + nCO d.pending ∧
      (QInv .PR r.1 w' ∧ r.1.pending = d.pending ∧ SkepOK .PR d.pending l r.2)) :=
  wp_andT _ _ _ _ (prSkepQuery_callsN fuel (nCO d.pending) h hl (length_le_nCO d.pending) hfuel)
    (wp_prSkepQuery_gen fuel h hl (Or.inl trivial))

/-- **C18 for the preferred dynamic solver**: in a state satisfying the solver invariant, for a live
argument, on sound replies, the skeptical query makes at most `|CO| + |PR| + 1` SAT calls (in fact at
most `|CO|`: `dyn_pr_calls_co`) and does not panic -/
theorem dyn_pr_calls {fuel : Nat} {d : DState} {w : World} (h : QInv .PR d w) {l id : Nat}
    (hl : d.pending.Live id l) (hfuel : prFuel d.pending ≤ fuel) :
    wp False (prSkepQuery fuel d l) w
      (fun _ w' => w'.calls ≤ w.calls + nCO d.pending + nPR d.pending + 1) := by
  refine wp_mono _ _ _ _ ?_ (dyn_pr_calls_co h hl (Nat.le_trans (nCO_succ_le_prFuel _) hfuel))
  intro _ w' hh
  have : w'.calls ≤ w.calls + nCO d.pending := hh.1
  omega

/-- the same on the runs: on sound replies no panic, and a run that returns has made at most
`|CO| + |PR| + 1` calls -/
theorem dyn_pr_calls_run {fuel : Nat} {d : DState} {w : World} (h : QInv .PR d w) {l id : Nat}
    (hl : d.pending.Live id l) (hfuel : prFuel d.pending ≤ fuel) (rs : List Reply)
    (hs : RunSound (prSkepQuery fuel d l) rs w) :
    (∀ msg w', interp (prSkepQuery fuel d l) rs w ≠ (.crashed msg, w')) ∧
    ∀ a w', interp (prSkepQuery fuel d l) rs w = (.done a, w') →
      w'.calls ≤ w.calls + (nCO d.pending + nPR d.pending + 1) :=
  calls_of_wp _ w _ (wp_mono _ _ _ _ (fun _ w' (hh : w'.calls ≤ _) => by omega) (dyn_pr_calls h hl hfuel)) rs hs

/-- the same at the entry point of the solver -/
theorem dyn_query_pr_calls {fuel : Nat} {d : DState} {w : World} (h : QInv .PR d w) (henc : d.enc.sem = .PR)
    {l id : Nat} (hl : d.pending.Live id l) (hfuel : prFuel d.pending ≤ fuel) :
    wp False (query fuel d .skep l) w
      (fun _ w' => w'.calls ≤ w.calls + nCO d.pending + nPR d.pending + 1) := by
  unfold query
  rw [henc]
  exact dyn_pr_calls h hl hfuel

/-! ## the counts do not depend on the way the sets are enumerated -/

theorem asetOf_injective : Function.Injective asetOf := by
  intro s t h
  ext a
  have := congrFun h a
  simpa [asetOf] using this

/-- `countSets n P` is the cardinality of the set of all `S : ASet` with `P S`, when `P` only holds of
sets of ids below `n` -/
theorem countSets_eq_ncard (n : Nat) (P : ASet → Prop) (hlt : ∀ S, P S → ∀ a, S a = true → a < n) :
    countSets n P = Set.ncard {S : ASet | P S} := by
  classical
  have himg : {S : ASet | P S} =
      asetOf '' (((Finset.range n).powerset.filter (fun s => P (asetOf s)) : Finset (Finset Nat)) : Set (Finset Nat)) := by
    ext S
    simp only [Set.mem_ofPred_eq, Set.mem_image, Finset.mem_coe, Finset.mem_filter, Finset.mem_powerset]
    constructor
    · intro hS
      have he : asetOf ((Finset.range n).filter (fun a => S a = true)) = S := by
        funext a
        cases hSa : S a
        · simp [asetOf, hSa]
        · simp [asetOf, hSa, hlt S hS a hSa]
      exact ⟨_, ⟨Finset.filter_subset _ _, by rw [he]; exact hS⟩, he⟩
    · rintro ⟨s, ⟨_, hs⟩, rfl⟩
      exact hs
  rw [himg, Set.ncard_image_of_injective _ asetOf_injective, Set.ncard_coe_finset]
  rfl

/-- `|CO|` is the cardinality of the set of complete extensions -/
theorem nCO_eq_ncard (st : Store) : nCO st = Set.ncard {S : ASet | st.g.Complete S} :=
  countSets_eq_ncard _ _ (fun _ h _ ha => complete_lt h ha)

/-- `|PR|` is the cardinality of the set of preferred extensions -/
theorem nPR_eq_ncard (st : Store) : nPR st = Set.ncard {S : ASet | st.g.Preferred S} :=
  countSets_eq_ncard _ _ (fun _ h _ ha => complete_lt (G.preferred_complete h) ha)

/-! ## the fuel is an artefact: beyond `|CO| + 1` it does not change the run -/

end Crusta.Dyn

namespace Crusta

/-- `p` runs like `q` whenever the run of `q` does not end in a crash -/
def CrashRefines {α : Type} (p q : Prog α) : Prop :=
  ∀ (rs : List Reply) (w : World), (∀ msg w', interp q rs w ≠ (.crashed msg, w')) → interp p rs w = interp q rs w

theorem CrashRefines.refl {α : Type} (p : Prog α) : CrashRefines p p := fun _ _ _ => rfl

theorem CrashRefines.of_crash {α : Type} (p : Prog α) (msg : String) : CrashRefines p (.crash msg) := by
  intro rs w h
  exact absurd rfl (h msg w)

theorem CrashRefines.bind_right {α β : Type} (p : Prog α) {f g : α → Prog β}
    (h : ∀ a, CrashRefines (f a) (g a)) : CrashRefines (p.bind f) (p.bind g) := by
  intro rs w hnc
  rw [interp_bind] at hnc ⊢
  rw [interp_bind]
  generalize interp p rs w = res at hnc ⊢
  obtain ⟨oc, w1⟩ := res
  cases oc with
  | done a => exact h a _ _ hnc
  | abort => rfl
  | crashed m => rfl
  | starved => rfl

theorem CrashRefines.bind_left {α β : Type} {p q : Prog α} (h : CrashRefines p q) (f : α → Prog β) :
    CrashRefines (p.bind f) (q.bind f) := by
  intro rs w hnc
  rw [interp_bind] at hnc ⊢
  rw [interp_bind]
  have hq : ∀ msg w', interp q rs w ≠ (.crashed msg, w') := by
    intro msg w' he
    rw [he] at hnc
    exact hnc msg w' rfl
  rw [h rs w hq]

theorem CrashRefines.ite {α : Type} {c : Prop} [Decidable c] {p q p' q' : Prog α}
    (h1 : c → CrashRefines p q) (h2 : ¬ c → CrashRefines p' q') :
    CrashRefines (if c then p else p') (if c then q else q') := by
  by_cases hc : c
  · rw [if_pos hc, if_pos hc]; exact h1 hc
  · rw [if_neg hc, if_neg hc]; exact h2 hc

end Crusta

namespace Crusta.Dyn
open Crusta.Store

/-- one more unit of fuel changes nothing unless the fuel was exhausted -/
theorem prLoop_fuel_succ (d : DState) (argId len : Nat) : ∀ (fuel : Nat) (m : DMEC) (st : PrSt),
    CrashRefines (prLoop d argId len (fuel + 1) m st) (prLoop d argId len fuel m st)
  | 0, m, st => by
    conv => rhs; unfold prLoop
    exact CrashRefines.of_crash _ _
  | fuel + 1, m, st => by
    conv => lhs; unfold prLoop
    conv => rhs; unfold prLoop
    simp only [Prog.bind_eq]
    apply CrashRefines.bind_right
    intro m'
    generalize m'.state = s
    cases s with
    | maximal =>
      simp only
      apply CrashRefines.ite
      · intro _; exact CrashRefines.refl _
      · intro _; exact prLoop_fuel_succ d argId len fuel _ _
    | intermediate =>
      simp only
      apply CrashRefines.ite
      · intro _
        apply CrashRefines.bind_right
        intro _
        exact prLoop_fuel_succ d argId len fuel _ _
      · intro _; exact prLoop_fuel_succ d argId len fuel _ _
    | none => exact CrashRefines.refl _
    | justDiscarded => exact prLoop_fuel_succ d argId len fuel _ _
    | init => exact prLoop_fuel_succ d argId len fuel _ _

theorem prSkepQuery_fuel_succ (fuel : Nat) (d : DState) (l : Nat) :
    CrashRefines (prSkepQuery (fuel + 1) d l) (prSkepQuery fuel d l) := by
  rw [prSkepQuery_eq, prSkepQuery_eq]
  split
  · exact CrashRefines.refl _
  · apply CrashRefines.bind_right
    intro d'
    unfold prSkepSolve
    simp only [Prog.bind_eq]
    apply CrashRefines.bind_right
    intro nv
    apply CrashRefines.bind_right
    intro argId
    apply CrashRefines.bind_left
    exact prLoop_fuel_succ d' argId _ fuel _ _

/-- more fuel changes nothing on a run that does not crash -/
theorem prSkepQuery_fuel_add (d : DState) (l : Nat) (rs : List Reply) (w : World) (fuel : Nat)
    (hnc : ∀ msg w', interp (prSkepQuery fuel d l) rs w ≠ (.crashed msg, w')) :
    ∀ k, interp (prSkepQuery (fuel + k) d l) rs w = interp (prSkepQuery fuel d l) rs w
  | 0 => rfl
  | k + 1 => by
    have ih := prSkepQuery_fuel_add d l rs w fuel hnc k
    have := prSkepQuery_fuel_succ (fuel + k) d l rs w (by rw [ih]; exact hnc)
    rw [← ih, ← this]
    rfl

/-- **the fuel of the model's loop is an artefact**: in a state satisfying the solver invariant, on
sound replies, every fuel of at least `|CO| + 1` gives the same run (same outcome, same trace, same
number of calls) -/
theorem dyn_pr_fuel_irrelevant {d : DState} {w : World} (h : QInv .PR d w) {l id : Nat}
    (hl : d.pending.Live id l) {f1 f2 : Nat} (h1 : nCO d.pending + 1 ≤ f1) (h2 : f1 ≤ f2)
    {rs : List Reply} (hs : RunSound (prSkepQuery f1 d l) rs w) :
    interp (prSkepQuery f2 d l) rs w = interp (prSkepQuery f1 d l) rs w := by
  have hnc := wp_no_crash _ rs w _ (dyn_pr_calls_co h hl h1) hs
  have := prSkepQuery_fuel_add d l rs w f1 hnc (f2 - f1)
  rwa [Nat.add_sub_cancel' h2] at this

end Crusta.Dyn
