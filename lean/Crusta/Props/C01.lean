import Crusta.Proofs.Oracle

/-! # C01 — single-extension answers are genuine extensions (property theorems) -/

namespace Crusta.C01
open Crusta

/-- The judge applied to every single-extension answer of the real solvers accepts exactly:
a duplicate-free list that is an extension under the textbook definition, or "no extension"
when the framework has none. For all frameworks and all seven semantics. -/
theorem se_judge_exact (af : AF) (hwf : af.WF) (σ : Sem) (cert : Bool) (args : List Nat)
    (e : Option (List Nat)) :
    checkAnswer af ⟨σ, .SE, cert, args⟩ (.se e) = .ok () ↔
      match e with
      | some l => l.Nodup ∧ σ.Ext af (ofList l)
      | none => ¬ ∃ S, σ.Ext af S := by
  rw [checkAnswer_iff af hwf]
  cases e <;> simp [Conforms]

/-- the reference decider of each semantics is exact -/
theorem decider_exact (σ : Sem) (af : AF) (hwf : af.WF) (l : List Nat) :
    σ.extB af l = true ↔ σ.Ext af (ofList l) := extB_iff σ af hwf l

/-- the reference enumeration contains every extension (so "NO" is justified only when empty) -/
theorem enumeration_complete (σ : Sem) (af : AF) (hwf : af.WF) (S : ASet) (hS : σ.Ext af S) :
    ∃ l ∈ σ.exts af, ofList l = S := by
  obtain ⟨l, hl, rfl⟩ := exists_list_of_sub af S (ext_sub σ hS)
  exact ⟨l, (mem_exts_iff σ af hwf l).2 ⟨hl, hS⟩, rfl⟩

end Crusta.C01
