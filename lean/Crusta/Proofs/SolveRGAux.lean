import Crusta.Proofs.SolvePR

/-!
# Range-based computer (semi-stable / stage): encoder interface and solver invariant

* `RangeMax af B S`: `S` is a member of the family `B` whose range is ⊆-maximal among the members.
* `EncKind.rsound` / `EncKind.rcomplete` / `EncKind.rv_occurs`: one interface over the six encoders
  that have a range variant (`RangeEnc`).  Soundness only says "a true range variable lies in the
  range of the decoded set" (this is all the exp / hybrid encodings give); completeness gives a
  model whose range variables are *exactly* the range.
* `RInv m w blocked`: the solver of a computer of kind `.range` holds the range clause set, one
  blocking clause (over range variables) per blocked set, and "junk" clauses that are switched off
  by a later selector; the selector of the computer is fresh.
-/

namespace Crusta
open Prog (mkSolver doReserve addClause addClauses getNVars doSolve)

/-- range-maximal members of a family -/
def RangeMax (af : AF) (B : ASet → Prop) (S : ASet) : Prop :=
  B S ∧ ∀ T, B T → RangeSub af S T → RangeSub af T S

/-- the encoders usable with a range: all but the default stable encoder, whose `clausesRange` is
empty -/
def RangeEnc (k : EncKind) : Prop := k ≠ .stb

theorem rangeMax_semistable (k : EncKind) (hk : k = .auxCO ∨ k = .expCO ∨ k = .hyb) (af : AF) (S : ASet) :
    RangeMax af (k.Base af) S ↔ SemiStable af S := by
  rcases hk with rfl | rfl | rfl <;> exact Iff.rfl

theorem rangeMax_stage (k : EncKind) (hk : k = .auxCF ∨ k = .expCF) (af : AF) (S : ASet) :
    RangeMax af (k.Base af) S ↔ Stage af S := by
  rcases hk with rfl | rfl <;> exact Iff.rfl

/-! ## the family of an encoder -/

theorem EncKind.Base_sub (k : EncKind) {af : AF} {T : ASet} (h : k.Base af T) : Sub af T := by
  cases k with
  | auxCF => exact h.1
  | expCF => exact h.1
  | auxADM => exact h.1.1
  | auxCO => exact h.1.1.1
  | expCO => exact h.1.1.1
  | hyb => exact h.1.1.1
  | stb => exact h.1.1

theorem EncKind.Base_of_complete (k : EncKind) (hk : RangeEnc k) {af : AF} {T : ASet} (h : Complete af T) :
    k.Base af T := by
  cases k with
  | auxCF => exact h.1.1
  | expCF => exact h.1.1
  | auxADM => exact h.1
  | auxCO => exact h
  | expCO => exact h
  | hyb => exact h
  | stb => exact absurd rfl hk

/-! ## range variables -/

def EncKind.rv (k : EncKind) (n a : Nat) : Nat := k.firstRangeVar n + a

theorem EncKind.rv_aux (k : EncKind) (h : k = .auxCF ∨ k = .auxADM ∨ k = .auxCO) (n a : Nat) :
    k.rv n a = Aux.r n a := by
  rcases h with rfl | rfl | rfl <;> (simp only [EncKind.rv, EncKind.firstRangeVar, Aux.r]; omega)

theorem EncKind.rv_exp (k : EncKind) (h : k = .expCF ∨ k = .expCO ∨ k = .hyb) (n a : Nat) :
    k.rv n a = Exp.r n a := by
  rcases h with rfl | rfl | rfl <;> (simp only [EncKind.rv, EncKind.firstRangeVar, Exp.r]; omega)

theorem EncKind.rv_pos (k : EncKind) (n a : Nat) : 1 ≤ k.rv n a := by
  cases k <;> (simp only [EncKind.rv, EncKind.firstRangeVar, Exp.r, Aux.r]; omega)

/-- soundness of the range clause sets: a model denotes a member of the family and a range
variable that is true lies in the range of that member -/
theorem EncKind.rsound (k : EncKind) (hk : RangeEnc k) (af : AF) (hwf : af.WF) (ν : Asg)
    (h : cnfTrue ν (k.clausesRange af) = true) :
    k.Base af (k.S af ν) ∧ ∀ a, a < af.n → ν (k.rv af.n a) = true → InRange af (k.S af ν) a := by
  cases k with
  | auxCF =>
    obtain ⟨_, hB, hR⟩ := (Aux.cfRange_iff af hwf ν).1 h
    refine ⟨hB, fun a ha hr => (hR a ha).1 ?_⟩
    rw [EncKind.rv_aux _ (Or.inl rfl)] at hr; exact hr
  | auxADM =>
    obtain ⟨_, hB, hR⟩ := (Aux.admRange_iff af hwf ν).1 h
    refine ⟨hB, fun a ha hr => (hR a ha).1 ?_⟩
    rw [EncKind.rv_aux _ (Or.inr (Or.inl rfl))] at hr; exact hr
  | auxCO =>
    obtain ⟨_, hB, hR⟩ := (Aux.coRange_iff af hwf ν).1 h
    refine ⟨hB, fun a ha hr => (hR a ha).1 ?_⟩
    rw [EncKind.rv_aux _ (Or.inr (Or.inr rfl))] at hr; exact hr
  | expCF =>
    obtain ⟨hB, hR⟩ := (Exp.cfRange_iff af hwf ν).1 h
    refine ⟨hB, fun a ha hr => (hR a ha).2 ?_⟩
    rw [EncKind.rv_exp _ (Or.inl rfl)] at hr; exact hr
  | expCO =>
    obtain ⟨hB, hR⟩ := (Exp.coRange_iff af hwf ν).1 h
    refine ⟨hB, fun a ha hr => (hR a ha).2 ?_⟩
    rw [EncKind.rv_exp _ (Or.inr (Or.inl rfl))] at hr; exact hr
  | hyb =>
    obtain ⟨hB, hR⟩ := Hyb.coRange_sound _ af hwf ν h
    refine ⟨hB, fun a ha hr => (hR a ha).2 ?_⟩
    rw [EncKind.rv_exp _ (Or.inr (Or.inr rfl))] at hr; exact hr
  | stb => exact absurd rfl hk

/-- completeness: every member of the family has a model whose range variables are exactly its
range -/
theorem EncKind.rcomplete (k : EncKind) (hk : RangeEnc k) (af : AF) (hwf : af.WF) (T : ASet)
    (hT : k.Base af T) :
    ∃ ν, cnfTrue ν (k.clausesRange af) = true ∧ k.S af ν = T ∧
      ∀ a, a < af.n → (ν (k.rv af.n a) = true ↔ InRange af T a) := by
  cases k with
  | auxCF =>
    obtain ⟨hS, hP, hR⟩ := Aux.asgOf_cons af T hT.1
    refine ⟨Aux.asgOf af T, (Aux.cfRange_iff af hwf _).2 ⟨hP, hS.symm ▸ hT, hR⟩, hS, ?_⟩
    intro a ha
    rw [EncKind.rv_aux _ (Or.inl rfl)]
    have := hR a ha; rw [hS] at this; exact this
  | auxADM =>
    obtain ⟨hS, hP, hR⟩ := Aux.asgOf_cons af T hT.1.1
    refine ⟨Aux.asgOf af T, (Aux.admRange_iff af hwf _).2 ⟨hP, hS.symm ▸ hT, hR⟩, hS, ?_⟩
    intro a ha
    rw [EncKind.rv_aux _ (Or.inr (Or.inl rfl))]
    have := hR a ha; rw [hS] at this; exact this
  | auxCO =>
    obtain ⟨hS, hP, hR⟩ := Aux.asgOf_cons af T hT.1.1.1
    refine ⟨Aux.asgOf af T, (Aux.coRange_iff af hwf _).2 ⟨hP, hS.symm ▸ hT, hR⟩, hS, ?_⟩
    intro a ha
    rw [EncKind.rv_aux _ (Or.inr (Or.inr rfl))]
    have := hR a ha; rw [hS] at this; exact this
  | expCF =>
    obtain ⟨hS, hRS, hR⟩ := Exp.asgOf_cons af T hT.1
    refine ⟨Exp.asgOf af T, (Exp.cfRange_iff af hwf _).2 ⟨hS.symm ▸ hT, hRS⟩, hS, ?_⟩
    intro a ha
    rw [EncKind.rv_exp _ (Or.inl rfl)]
    exact hR a ha
  | expCO =>
    obtain ⟨hS, hRS, hR⟩ := Exp.asgOf_cons af T hT.1.1.1
    refine ⟨Exp.asgOf af T, (Exp.coRange_iff af hwf _).2 ⟨hS.symm ▸ hT, hRS⟩, hS, ?_⟩
    intro a ha
    rw [EncKind.rv_exp _ (Or.inr (Or.inl rfl))]
    exact hR a ha
  | hyb =>
    obtain ⟨ν, h1, h2, h3⟩ := Hyb.coRange_exact Gen.hybridThreshold af hwf T hT
    refine ⟨ν, h1, h2, ?_⟩
    intro a ha
    rw [EncKind.rv_exp _ (Or.inr (Or.inr rfl))]
    exact h3 a ha
  | stb => exact absurd rfl hk

/-! ### every range variable occurs in the clause set (so that a total model gives it a value) -/

namespace Hyb

theorem allocFor_out_mono (af : AF) {c : Clause} : ∀ (bs : List Nat) (st : St), c ∈ st.out → c ∈ (allocFor af st bs).out
  | [], st, h => h
  | b :: bs, st, h => by
    simp only [allocFor]
    split
    · exact allocFor_out_mono af bs st h
    · exact allocFor_out_mono af bs _ (List.mem_append_left _ h)

theorem argStep_out_mono (thr : Nat) (af : AF) (st : St) (a : Nat) {c : Clause} (h : c ∈ st.out) :
    c ∈ (argStep thr af st a).out := by
  unfold argStep
  simp only
  split
  · exact List.mem_append_left _ h
  · split
    · exact List.mem_append_left _ h
    · split
      · exact List.mem_append_left _ h
      · exact List.mem_append_left _ (allocFor_out_mono af _ st h)

theorem rangeStep_out_mono (af : AF) (st : St) (a : Nat) {c : Clause} (h : c ∈ st.out) :
    c ∈ (rangeStep af st a).out := by
  unfold rangeStep
  split <;> exact List.mem_append_left _ h

theorem rangeStep_emits (af : AF) (st : St) (a : Nat) :
    [nl (Exp.x a), pl (Exp.r af.n a)] ∈ (rangeStep af st a).out := by
  unfold rangeStep
  split
  · exact List.mem_append_right _ (by simp)
  · exact List.mem_append_right _ (by simp [Exp.range])

theorem foldR_emits (thr : Nat) (af : AF) : ∀ (l : List Nat) (st : St) (a : Nat),
    (a ∈ l ∨ [nl (Exp.x a), pl (Exp.r af.n a)] ∈ st.out) →
    [nl (Exp.x a), pl (Exp.r af.n a)] ∈ (l.foldl (fun st a => rangeStep af (argStep thr af st a) a) st).out
  | [], st, a, h => by
    rcases h with h | h
    · cases h
    · exact h
  | b :: l, st, a, h => by
    simp only [List.foldl_cons]
    apply foldR_emits thr af l _ a
    rcases h with h | h
    · rcases List.mem_cons.1 h with rfl | h
      · exact Or.inr (rangeStep_emits af _ _)
      · exact Or.inl h
    · exact Or.inr (rangeStep_out_mono af _ _ (argStep_out_mono thr af _ _ h))

end Hyb

theorem EncKind.rv_occurs (k : EncKind) (hk : RangeEnc k) (af : AF) {a : Nat} (ha : a < af.n) :
    ∃ c ∈ k.clausesRange af, ∃ l ∈ c, l.var = k.rv af.n a := by
  have haux : ∀ (f : Nat → Cnf), (∀ a, [nl (Aux.x a), pl (Aux.r af.n a)] ∈ f a) →
      [nl (Aux.x a), pl (Aux.r af.n a)] ∈ (List.range af.n).flatMap f :=
    fun f hf => List.mem_flatMap.2 ⟨a, List.mem_range.2 ha, hf a⟩
  have hexp : ∀ (f : Nat → Cnf), (∀ a, [nl (Exp.x a), pl (Exp.r af.n a)] ∈ f a) →
      [nl (Exp.x a), pl (Exp.r af.n a)] ∈ (List.range af.n).flatMap f :=
    fun f hf => List.mem_flatMap.2 ⟨a, List.mem_range.2 ha, hf a⟩
  cases k with
  | auxCF =>
    refine ⟨_, haux _ (fun a => ?_), pl (Aux.r af.n a), by simp, ?_⟩
    · simp [Aux.range]
    · rw [EncKind.rv_aux _ (Or.inl rfl)]; rfl
  | auxADM =>
    refine ⟨_, haux _ (fun a => ?_), pl (Aux.r af.n a), by simp, ?_⟩
    · simp [Aux.range]
    · rw [EncKind.rv_aux _ (Or.inr (Or.inl rfl))]; rfl
  | auxCO =>
    refine ⟨_, haux _ (fun a => ?_), pl (Aux.r af.n a), by simp, ?_⟩
    · simp [Aux.range]
    · rw [EncKind.rv_aux _ (Or.inr (Or.inr rfl))]; rfl
  | expCF =>
    refine ⟨_, hexp _ (fun a => ?_), pl (Exp.r af.n a), by simp, ?_⟩
    · simp [Exp.range]
    · rw [EncKind.rv_exp _ (Or.inl rfl)]; rfl
  | expCO =>
    refine ⟨_, hexp _ (fun a => ?_), pl (Exp.r af.n a), by simp, ?_⟩
    · simp [Exp.range]
    · rw [EncKind.rv_exp _ (Or.inr (Or.inl rfl))]; rfl
  | hyb =>
    refine ⟨[nl (Exp.x a), pl (Exp.r af.n a)], ?_, pl (Exp.r af.n a), by simp, ?_⟩
    · exact Hyb.foldR_emits _ af _ _ a (Or.inl (List.mem_range.2 ha))
    · rw [EncKind.rv_exp _ (Or.inr (Or.inr rfl))]; rfl
  | stb => exact absurd rfl hk

/-- after `encodeInto … true` argument and range variables are below `n_vars` -/
theorem Encoded.rvars_le {k : EncKind} (hk : RangeEnc k) {af : AF} {s : Nat} {w : World} (h : Encoded k af s true w)
    {a : Nat} (ha : a < af.n) : k.argVar a ≤ w.nVarsOf s ∧ k.rv af.n a ≤ w.nVarsOf s := by
  cases k with
  | auxCF | auxADM | auxCO =>
    all_goals
      have := h.reserved (af.n * 3) (by simp [EncKind.reserve])
      simp only [EncKind.argVar, EncKind.rv, EncKind.firstRangeVar, Aux.x, Aux.r]
      omega
  | expCF | expCO | hyb =>
    all_goals
      have := h.reserved (af.n * 2) (by simp [EncKind.reserve])
      simp only [EncKind.argVar, EncKind.rv, EncKind.firstRangeVar, Exp.r]
      omega
  | stb => exact absurd rfl hk

/-! ## literal lists over range variables -/

def rinL (enc : EncKind) (n : Nat) (R : Nat → Bool) : List Lit :=
  ((List.range n).filter R).map (fun i => pl (enc.rv n i))

def routL (enc : EncKind) (n : Nat) (R : Nat → Bool) : List Lit :=
  ((List.range n).filter (fun i => !R i)).map (fun i => pl (enc.rv n i))

theorem rinL_true (enc : EncKind) (n : Nat) (R : Nat → Bool) (ν : Asg) :
    (∀ l ∈ rinL enc n R, litTrue ν l = true) ↔ ∀ a, a < n → R a = true → ν (enc.rv n a) = true := by
  unfold rinL
  constructor
  · intro h a ha hR
    have := h (pl (enc.rv n a)) (List.mem_map.2 ⟨a, List.mem_filter.2 ⟨List.mem_range.2 ha, hR⟩, rfl⟩)
    simpa using this
  · intro h l hl
    obtain ⟨a, ha, rfl⟩ := List.mem_map.1 hl
    obtain ⟨h1, h2⟩ := List.mem_filter.1 ha
    simpa using h a (List.mem_range.1 h1) h2

theorem routL_true (enc : EncKind) (n : Nat) (R : Nat → Bool) (ν : Asg) :
    (∃ l ∈ routL enc n R, litTrue ν l = true) ↔ ∃ a, a < n ∧ R a = false ∧ ν (enc.rv n a) = true := by
  unfold routL
  constructor
  · rintro ⟨l, hl, ht⟩
    obtain ⟨a, ha, rfl⟩ := List.mem_map.1 hl
    obtain ⟨h1, h2⟩ := List.mem_filter.1 ha
    exact ⟨a, List.mem_range.1 h1, by simpa using h2, by simpa using ht⟩
  · rintro ⟨a, ha, hR, ht⟩
    exact ⟨pl (enc.rv n a), List.mem_map.2 ⟨a, List.mem_filter.2 ⟨List.mem_range.2 ha, by simp [hR]⟩, rfl⟩,
      by simpa using ht⟩

theorem routL_neg_true (enc : EncKind) (n : Nat) (R : Nat → Bool) (ν : Asg) :
    (∀ l ∈ (routL enc n R).map Lit.neg, litTrue ν l = true) ↔ ∀ a, a < n → R a = false → ν (enc.rv n a) = false := by
  unfold routL
  constructor
  · intro h a ha hR
    have := h (pl (enc.rv n a)).neg (List.mem_map.2 ⟨_, List.mem_map.2 ⟨a, List.mem_filter.2 ⟨List.mem_range.2 ha, by simp [hR]⟩, rfl⟩, rfl⟩)
    simpa using this
  · intro h l hl
    obtain ⟨l', hl', rfl⟩ := List.mem_map.1 hl
    obtain ⟨a, ha, rfl⟩ := List.mem_map.1 hl'
    obtain ⟨h1, h2⟩ := List.mem_filter.1 ha
    have := h a (List.mem_range.1 h1) (by simpa using h2)
    simp [this]

theorem routL_var (enc : EncKind) (n : Nat) (R : Nat → Bool) : ∀ l ∈ routL enc n R, ∃ a, a < n ∧ l.var = enc.rv n a := by
  intro l hl
  unfold routL at hl
  obtain ⟨a, ha, rfl⟩ := List.mem_map.1 hl
  exact ⟨a, List.mem_range.1 (List.mem_filter.1 ha).1, rfl⟩

/-! ## `split_in_range` -/

def inRModel (enc : EncKind) (n : Nat) (mdl : Model) (i : Nat) : Bool :=
  !(mdl.getD (enc.rv n i - 1) none == some false)

def inRCur (af : AF) (cur : List Nat) (i : Nat) : Bool :=
  cur.any (fun a => a == i || (af.attackedOf a).contains i)

/-- the set of arguments `split_in_range` puts in the range -/
def MEC.inR (m : MEC) : Nat → Bool :=
  match m.model with
  | some mdl => inRModel m.enc m.af.n mdl
  | none => inRCur m.af m.cur

theorem splitInRange_eq (m : MEC) :
    splitInRange m = (rinL m.enc m.af.n m.inR, routL m.enc m.af.n m.inR) := by
  unfold splitInRange MEC.inR rinL routL
  cases m.model with
  | none => rfl
  | some mdl =>
    simp only [List.filter_map, List.map_map]
    refine Prod.ext ?_ ?_
    · rfl
    · simp only
      congr 1
      apply List.filter_congr
      intro i _
      simp [inRModel, EncKind.rv]

theorem blockAndAssume_rg {m : MEC} (hk : m.kind = .range) :
    m.blockAndAssume = (routL m.enc m.af.n m.inR ++ [pl m.sel], rinL m.enc m.af.n m.inR ++ [nl m.sel]) := by
  unfold MEC.blockAndAssume
  rw [hk]
  simp only [splitInRange_eq]

theorem mem_attackedOf {af : AF} {a i : Nat} : i ∈ af.attackedOf a ↔ (a, i) ∈ af.atts := by
  unfold AF.attackedOf
  simp only [List.mem_map, List.mem_filter, beq_iff_eq]
  constructor
  · rintro ⟨⟨x, y⟩, ⟨h1, h2⟩, h3⟩
    simp at h2 h3; subst h2; subst h3; exact h1
  · intro h; exact ⟨(a, i), ⟨h, rfl⟩, rfl⟩

theorem inRCur_spec (af : AF) (cur : List Nat) (i : Nat) :
    inRCur af cur i = true ↔ InRange af (ofList cur) i := by
  unfold inRCur InRange AttackedBy
  simp only [List.any_eq_true, Bool.or_eq_true, beq_iff_eq, List.contains_iff_mem, mem_attackedOf, ofList_mem]
  constructor
  · rintro ⟨a, ha, rfl | h⟩
    · exact Or.inl ha
    · exact Or.inr ⟨a, h, ha⟩
  · rintro (h | ⟨b, hb, hc⟩)
    · exact ⟨i, h, Or.inl rfl⟩
    · exact ⟨b, hc, Or.inr hb⟩

theorem inRModel_eq {enc : EncKind} {n : Nat} {mdl : Model} {db : Cnf} (ht : ModelTotal mdl db) {a : Nat}
    (hocc : ∃ c ∈ db, ∃ l ∈ c, l.var = enc.rv n a) :
    inRModel enc n mdl a = asgOfModel mdl (enc.rv n a) := by
  obtain ⟨c, hc, l, hl, hv⟩ := hocc
  have := ht c hc l hl
  rw [hv] at this
  have h1 := enc.rv_pos n a
  unfold inRModel asgOfModel
  cases h : mdl.getD (enc.rv n a - 1) none with
  | none => rw [h] at this; cases this
  | some b => cases b <;> simp [h1]

/-! ## assignments that agree on the variables of a clause -/

theorem clauseTrue_agree {ν ν' : Asg} {c : Clause} (h : ∀ l ∈ c, ν l.var = ν' l.var) :
    clauseTrue ν c = clauseTrue ν' c := by
  unfold clauseTrue
  induction c with
  | nil => rfl
  | cons a t ih =>
    simp only [List.any_cons]
    rw [ih (fun l hl => h l (List.mem_cons_of_mem _ hl))]
    have := h a List.mem_cons_self
    simp [litTrue, this]

theorem EncKind.S_agree (k : EncKind) (af : AF) {ν ν' : Asg} (h : ∀ a, a < af.n → ν (k.argVar a) = ν' (k.argVar a)) :
    k.S af ν = k.S af ν' := by
  funext a
  unfold EncKind.S setOfAsg
  by_cases ha : a < af.n
  · simp [ha, h a ha]
  · simp [ha]

/-! ## world bookkeeping -/

attribute [local simp] len_onClause len_onSolve
@[simp] theorem len_onReply (w : World) (s : Nat) (r : Reply) : (w.onReply s r).solvers.length = w.solvers.length := rfl
@[simp] theorem len_onNVars (w : World) (s : Nat) : (w.onNVars s).solvers.length = w.solvers.length := rfl

/-! ## the solver invariant -/

structure RInv (m : MEC) (w : World) (blocked : List (Nat → Bool)) : Prop where
  wf : m.af.WF
  renc : RangeEnc m.enc
  kind : m.kind = .range
  db_sound : ∀ c ∈ w.db m.sid, c ∈ m.enc.clausesRange m.af ∨
    (∃ B ∈ blocked, c = routL m.enc m.af.n B ++ [pl m.sel]) ∨ (∃ v, m.sel < v ∧ nl v ∈ c)
  db_enc : ∀ c ∈ m.enc.clausesRange m.af, c ∈ w.db m.sid
  db_blk : ∀ B ∈ blocked, routL m.enc m.af.n B ++ [pl m.sel] ∈ w.db m.sid
  fresh_enc : ∀ c ∈ m.enc.clausesRange m.af, ∀ l ∈ c, l.var < m.sel
  fresh_arg : ∀ a, a < m.af.n → m.enc.argVar a < m.sel
  fresh_rv : ∀ a, a < m.af.n → m.enc.rv m.af.n a < m.sel
  no_add : m.additional = []
  sid_lt : m.sid < w.solvers.length
  bnd : w.Bounded

theorem RInv.congr_m {m m' : MEC} {w : World} {blocked : List (Nat → Bool)} (h : RInv m w blocked)
    (haf : m'.af = m.af) (henc : m'.enc = m.enc) (hsid : m'.sid = m.sid) (hsel : m'.sel = m.sel)
    (hkind : m'.kind = m.kind) (hadd : m'.additional = m.additional) : RInv m' w blocked := by
  constructor
  · rw [haf]; exact h.wf
  · rw [henc]; exact h.renc
  · rw [hkind]; exact h.kind
  · rw [haf, henc, hsid, hsel]; exact h.db_sound
  · rw [haf, henc, hsid]; exact h.db_enc
  · rw [haf, henc, hsid, hsel]; exact h.db_blk
  · rw [haf, henc, hsel]; exact h.fresh_enc
  · rw [haf, henc, hsel]; exact h.fresh_arg
  · rw [haf, henc, hsel]; exact h.fresh_rv
  · rw [hadd]; exact h.no_add
  · rw [hsid]; exact h.sid_lt
  · exact h.bnd

/-- a world that differs by a solve / reply / `n_vars` event -/
theorem RInv.congr_w {m : MEC} {w w' : World} {blocked : List (Nat → Bool)} (h : RInv m w blocked)
    (hdb : w'.db m.sid = w.db m.sid) (hlen : w'.solvers.length = w.solvers.length) (hb : w'.Bounded) :
    RInv m w' blocked :=
  { h with db_sound := by rw [hdb]; exact h.db_sound
           db_enc := by rw [hdb]; exact h.db_enc
           db_blk := by rw [hdb]; exact h.db_blk
           sid_lt := by rw [hlen]; exact h.sid_lt
           bnd := hb }

theorem RInv.onSolve {m : MEC} {w : World} {blocked : List (Nat → Bool)} (h : RInv m w blocked) (a : List Lit) (r : Reply) :
    RInv m ((w.onSolve m.sid a).onReply m.sid r) blocked :=
  h.congr_w (by simp) (by simp) (Bounded_onReply (Bounded_onSolve h.bnd _ _) _ _)

theorem RInv.onNVars {m : MEC} {w : World} {blocked : List (Nat → Bool)} (h : RInv m w blocked) :
    RInv m (w.onNVars m.sid) blocked :=
  h.congr_w (by simp) (by simp) (Bounded_onNVars h.bnd _)

/-- adding the blocking clause of a set -/
theorem RInv.block {m : MEC} {w : World} {blocked : List (Nat → Bool)} (h : RInv m w blocked) (R : Nat → Bool) :
    RInv m (w.onClause m.sid (routL m.enc m.af.n R ++ [pl m.sel])) (R :: blocked) := by
  refine { h with db_sound := ?_, db_enc := ?_, db_blk := ?_, sid_lt := ?_, bnd := ?_ }
  · intro c hc
    rw [db_onClause_same] at hc
    rcases List.mem_cons.1 hc with rfl | hc
    · exact Or.inr (Or.inl ⟨R, by simp, rfl⟩)
    · rcases h.db_sound c hc with h1 | ⟨E', hE', rfl⟩ | h3
      · exact Or.inl h1
      · exact Or.inr (Or.inl ⟨E', by simp [hE'], rfl⟩)
      · exact Or.inr (Or.inr h3)
  · intro c hc; rw [db_onClause_same]; exact List.mem_cons_of_mem _ (h.db_enc c hc)
  · intro E' hE'
    rw [db_onClause_same]
    rcases List.mem_cons.1 hE' with rfl | hE'
    · exact List.mem_cons_self
    · exact List.mem_cons_of_mem _ (h.db_blk E' hE')
  · rw [len_onClause]; exact h.sid_lt
  · exact Bounded_onClause h.bnd _ _

/-- adding a clause that a later selector switches off -/
theorem RInv.junk {m : MEC} {w : World} {blocked : List (Nat → Bool)} (h : RInv m w blocked) (c0 : Clause)
    (hj : ∃ v, m.sel < v ∧ nl v ∈ c0) : RInv m (w.onClause m.sid c0) blocked := by
  refine { h with db_sound := ?_, db_enc := ?_, db_blk := ?_, sid_lt := ?_, bnd := ?_ }
  · intro c hc
    rw [db_onClause_same] at hc
    rcases List.mem_cons.1 hc with rfl | hc
    · exact Or.inr (Or.inr hj)
    · exact h.db_sound c hc
  · intro c hc; rw [db_onClause_same]; exact List.mem_cons_of_mem _ (h.db_enc c hc)
  · intro E' hE'
    rw [db_onClause_same]
    exact List.mem_cons_of_mem _ (h.db_blk E' hE')
  · rw [len_onClause]; exact h.sid_lt
  · exact Bounded_onClause h.bnd _ _

theorem RInv.db_le {m : MEC} {w : World} {blocked : List (Nat → Bool)} (h : RInv m w blocked) :
    ∀ c ∈ w.db m.sid, ∀ l ∈ c, l.var ≤ w.nVarsOf m.sid :=
  fun c hc l hl => h.bnd m.sid h.sid_lt c hc l hl

theorem RInv.sel_le {m : MEC} {w : World} {blocked : List (Nat → Bool)} {B : Nat → Bool}
    (h : RInv m w (B :: blocked)) : m.sel ≤ w.nVarsOf m.sid := by
  have := h.db_le _ (h.db_blk B List.mem_cons_self) (pl m.sel) (by simp)
  exact this

/-- what a model of the database means -/
theorem RInv.sat {m : MEC} {w : World} {blocked : List (Nat → Bool)} (h : RInv m w blocked) {ν : Asg}
    (hΓ : cnfTrue ν (w.db m.sid) = true) :
    m.enc.Base m.af (m.enc.S m.af ν) ∧
    (∀ a, a < m.af.n → ν (m.enc.rv m.af.n a) = true → InRange m.af (m.enc.S m.af ν) a) ∧
    (ν m.sel = false → ∀ B ∈ blocked, ∃ a, a < m.af.n ∧ B a = false ∧ ν (m.enc.rv m.af.n a) = true) := by
  rw [cnfTrue_iff] at hΓ
  have henc : cnfTrue ν (m.enc.clausesRange m.af) = true := by
    rw [cnfTrue_iff]; intro c hc; exact hΓ c (h.db_enc c hc)
  obtain ⟨h1, h2⟩ := m.enc.rsound h.renc m.af h.wf ν henc
  refine ⟨h1, h2, ?_⟩
  intro hsel B hB
  have := hΓ _ (h.db_blk B hB)
  rw [clauseTrue_iff] at this
  obtain ⟨l, hl, hlt⟩ := this
  rcases List.mem_append.1 hl with hl | hl
  · exact (routL_true m.enc m.af.n B ν).1 ⟨l, hl, hlt⟩
  · simp only [List.mem_singleton] at hl; subst hl
    simp [hsel] at hlt

/-- every member of the family has a model of the database with exact range variables, any value
of the selector (when the selector is false the blocking clauses must be met), and every later
variable false -/
theorem RInv.model {m : MEC} {w : World} {blocked : List (Nat → Bool)} (h : RInv m w blocked) {T : ASet}
    (hT : m.enc.Base m.af T) (b : Bool)
    (hb : b = false → ∀ B ∈ blocked, ∃ a, a < m.af.n ∧ B a = false ∧ InRange m.af T a) :
    ∃ ν, cnfTrue ν (w.db m.sid) = true ∧ m.enc.S m.af ν = T ∧
      (∀ a, a < m.af.n → (ν (m.enc.rv m.af.n a) = true ↔ InRange m.af T a)) ∧ ν m.sel = b ∧
      ∀ v, m.sel < v → ν v = false := by
  obtain ⟨ν0, hν0, hS0, hR0⟩ := m.enc.rcomplete h.renc m.af h.wf T hT
  let ν : Asg := fun x => if x < m.sel then ν0 x else if x = m.sel then b else false
  have hlow : ∀ x, x < m.sel → ν x = ν0 x := fun x hx => by simp [ν, hx]
  have hsel : ν m.sel = b := by simp [ν]
  have hhigh : ∀ v, m.sel < v → ν v = false := by
    intro v hv
    have h1 : ¬ v < m.sel := by omega
    have h2 : ¬ v = m.sel := by omega
    simp [ν, h1, h2]
  have hR : ∀ a, a < m.af.n → (ν (m.enc.rv m.af.n a) = true ↔ InRange m.af T a) := by
    intro a ha; rw [hlow _ (h.fresh_rv a ha)]; exact hR0 a ha
  have hS : m.enc.S m.af ν = T := by
    rw [← hS0]; exact m.enc.S_agree m.af (fun a ha => hlow _ (h.fresh_arg a ha))
  refine ⟨ν, ?_, hS, hR, hsel, hhigh⟩
  rw [cnfTrue_iff]
  intro c hc
  rcases h.db_sound c hc with hc' | ⟨B, hB, rfl⟩ | ⟨v, hv, hmem⟩
  · rw [clauseTrue_agree (ν' := ν0) (fun l hl => hlow _ (h.fresh_enc c hc' l hl))]
    exact (cnfTrue_iff _ _).1 hν0 c hc'
  · rw [clauseTrue_iff]
    cases b with
    | true => exact ⟨pl m.sel, List.mem_append_right _ (by simp), by simpa using hsel⟩
    | false =>
      obtain ⟨a, ha, hBa, hTa⟩ := hb rfl B hB
      obtain ⟨l, hl, hlt⟩ := (routL_true m.enc m.af.n B ν).2 ⟨a, ha, hBa, (hR a ha).2 hTa⟩
      exact ⟨l, List.mem_append_left _ hl, hlt⟩
  · rw [clauseTrue_iff]
    exact ⟨nl v, hmem, by simp [hhigh v hv]⟩

end Crusta
