import Crusta.Model.Store

/-! # C12 — the framework store is a faithful set model (property theorems) -/

namespace Crusta.C12
open Crusta

/-- an update rejected by the model leaves the state it returns identical to the input state
(for `remove_argument`, `new_attack`, `remove_attack` on unknown operands) -/
theorem err_unchanged (s s' : Store) (op : StoreOp) (h : s.step op = .err s') : s' = s := by
  cases op <;>
    simp +zetaDelta +zeta only [Store.step, Store.removeArgument, Store.newAttack, Store.removeAttack] at h
  all_goals
    repeat' (first
      | (injection h with h; exact h.symm)
      | (exfalso; exact StoreRes.noConfusion h)
      | split at h)

end Crusta.C12
