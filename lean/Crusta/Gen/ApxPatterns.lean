import Crusta.Model.Rx

/-! Regenerated from /repo/src/io/aspartix_reader.rs by tools/gen_from_source.py on every run (the four regular
expressions, `format!` placeholders expanded, translated into the AST of `Crusta.Rx`). Do not edit. -/

namespace Crusta.Gen
open Crusta.Rx

/-- `ARG_LINE_PATTERN` = `^\s*arg\([^)]+\).\s*$` -/
def argLine : Rx :=
  .cat (.star (.cls false [Atom.ws])) (.cat (.chr 97) (.cat (.chr 114) (.cat (.chr 103) (.cat (.chr 40) (.cat (.plus (.cls true [Atom.ch 41])) (.cat (.chr 41) (.cat (.anyNoNl) (.star (.cls false [Atom.ws])))))))))

/-- `ARG_LINE_ARG_NAME_PATTERN` = `^\s*arg\((\s*[_[:alpha:]][_[:alpha:]\d]*\s*)\).\s*$` -/
def argLineName : Rx :=
  .cat (.star (.cls false [Atom.ws])) (.cat (.chr 97) (.cat (.chr 114) (.cat (.chr 103) (.cat (.chr 40) (.cat (.grp (.cat (.star (.cls false [Atom.ws])) (.cat (.cls false [Atom.ch 95, Atom.alpha]) (.cat (.star (.cls false [Atom.ch 95, Atom.alpha, Atom.digit])) (.star (.cls false [Atom.ws])))))) (.cat (.chr 41) (.cat (.anyNoNl) (.star (.cls false [Atom.ws])))))))))

/-- `ATT_LINE_PATTERN` = `^\s*att\([^,]+,[^)]+\).\s*$` -/
def attLine : Rx :=
  .cat (.star (.cls false [Atom.ws])) (.cat (.chr 97) (.cat (.chr 116) (.cat (.chr 116) (.cat (.chr 40) (.cat (.plus (.cls true [Atom.ch 44])) (.cat (.chr 44) (.cat (.plus (.cls true [Atom.ch 41])) (.cat (.chr 41) (.cat (.anyNoNl) (.star (.cls false [Atom.ws])))))))))))

/-- `ATT_LINE_ARG_NAMES_PATTERN` = `^\s*att\((\s*[_[:alpha:]][_[:alpha:]\d]*\s*),(\s*[_[:alpha:]][_[:alpha:]\d]*\s*)\).\s*$` -/
def attLineNames : Rx :=
  .cat (.star (.cls false [Atom.ws])) (.cat (.chr 97) (.cat (.chr 116) (.cat (.chr 116) (.cat (.chr 40) (.cat (.grp (.cat (.star (.cls false [Atom.ws])) (.cat (.cls false [Atom.ch 95, Atom.alpha]) (.cat (.star (.cls false [Atom.ch 95, Atom.alpha, Atom.digit])) (.star (.cls false [Atom.ws])))))) (.cat (.chr 44) (.cat (.grp (.cat (.star (.cls false [Atom.ws])) (.cat (.cls false [Atom.ch 95, Atom.alpha]) (.cat (.star (.cls false [Atom.ch 95, Atom.alpha, Atom.digit])) (.star (.cls false [Atom.ws])))))) (.cat (.chr 41) (.cat (.anyNoNl) (.star (.cls false [Atom.ws])))))))))))

end Crusta.Gen
