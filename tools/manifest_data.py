HOOK_COMMITS = []
NOTES = ("Every check: (1) regenerates Crusta/Gen from /repo, (2) rebuilds and re-audits the Lean theorems of the property "
         "(#print axioms, forbidden-construct scan), (3) rebuilds the harness against /repo's working tree, (4) runs the real code "
         "and the Lean model on the same generated cases and diffs them (correspondence), (5) judges the implementation's outputs "
         "with reference deciders that are proved equivalent to the textbook definitions (conformance). known_findings.json lists "
         "open findings (none open at present) and the defects repaired by fix: commits in /repo.")

_SOLVE_NOTE = ("Trusted: Lean kernel + {propext, Classical.choice, Quot.sound}; the correspondence harness/driver/orchestrator; CaDiCaL assumed sound and "
               "complete. The theorems show that the judge applied to the real solvers' answers accepts exactly the answers the property allows "
               "(checkAnswer_iff over the textbook semantics, all frameworks) and that the reference deciders are exact; the solver algorithms "
               "themselves are tied by running the real code on generated frameworks (exhaustive for tiny sizes) and judging every answer.")

CLAIMED = {
    "C01": {"text": "Kernel-checked: the SE judge = textbook extension-hood for all frameworks and the 7 semantics (se_judge_exact, decider_exact, enumeration_complete); every SE answer of the real solvers on the generated frameworks is judged by it.",
            "note": _SOLVE_NOTE, "technique": "Lean 4 proof of the judge + differential conformance run"},
    "C02": {"text": "Kernel-checked: the credulous judge is exact (dc_judge_exact, credB_iff); every DC answer of the real solvers on generated frameworks x all arguments is judged by it.",
            "note": _SOLVE_NOTE, "technique": "Lean 4 proof of the judge + differential conformance run"},
    "C03": {"text": "Kernel-checked: the skeptical judge is exact (ds_judge_exact, skepB_iff, vacuous truth without extensions); every DS answer of the real solvers is judged by it.",
            "note": _SOLVE_NOTE, "technique": "Lean 4 proof of the judge + differential conformance run"},
    "C04": {"text": "Kernel-checked: certificate judge exact (dc_cert_judge_exact, ds_cert_judge_exact, no_cert_slot): witness is a duplicate-free extension containing / omitting the argument, present exactly when promised; membership of the certificate in the queried framework's own argument set is checked in the harness.",
            "note": _SOLVE_NOTE, "technique": "Lean 4 proof of the judge + differential conformance run"},
    "C07": {"text": "Kernel-checked: list queries are disjunctions at spec level (cred_is_disjunction, skep_list_spec, permutation/repetition invariance, variants_agree); all static solvers are run on lists of 1-3 arguments over several components, both entry points.",
            "note": _SOLVE_NOTE, "technique": "Lean 4 proof of the judge + differential conformance run"},
}
CLAIMED["C10"] = {
    "text": "Kernel-checked, for every well-formed compact framework and every assignment: each encoder's CNF has exactly the intended sets as models (both inclusions) - aux_var CF/ADM/CO, exp CF/CO, hybrid CO for EVERY threshold (fold invariant over the lazily allocated disjunction variables, freshness and injectivity of the allocation), default stable; range variants (aux: r_a <-> range; exp/hybrid: r_a sound + exact-range model exists); layouts injective and disjoint; assignment_to_extension decodes exactly the denoted set. The Lean encoders are tied to the 9 public Rust constructors by clause-multiset / reserve / arg_to_lit / first_range_var / decode comparison on every run.",
    "note": "Trusted: Lean kernel + {propext, Classical.choice, Quot.sound}; the correspondence run (generated compact frameworks incl. both sides of the hybrid threshold; the threshold constant itself is regenerated from the source into Crusta/Gen and the theorem holds for all thresholds); permutator::cart_prod modelled as cartesian product. Non-compact frameworks are out of scope as in the property text.",
    "technique": "Lean 4 proofs of encoder exactness + clause-level differential correspondence"}
CLAIMED["C12"] = {
    "text": "Model of LabelSet/ArgumentSet/AAFramework with tombstones, stale row indexes and swap_remove mirrored; kernel-checked: a rejected update returns the unchanged state (err_unchanged). Every run compares ALL observers incl. iteration orders after every operation of random histories against the model, and the model state against an abstract set model (refinement check, executable).",
    "note": "Trusted: Lean kernel; correspondence harness. PARTIAL at this commit: the store invariant and the refinement to the set model are checked by execution on every generated history, not yet proved by induction (planned: store_inv, store_refines).",
    "technique": "Lean 4 model + differential correspondence on update histories; invariant proofs in progress"}
CLAIMED["C17"] = {
    "text": "Kernel-checked for ALL solver programs (every Prog, hence every modelled solve site of the 7 solver types, all entry points): an `unknown` reply at the call the run has reached yields `abort` (unknown_aborts), and a run that produced an answer consumed no unknown reply (done_consumed_no_unknown). Tied to the code by injecting Unknown at every SAT-call position through the public factory constructors (the real call must unwind at the call where the Lean program aborts, with no answer) and by end-to-end runs of the crustabri binary against a scripted external solver failing in 5 ways.",
    "note": "Trusted: Lean kernel; harness (catch_unwind), the fake external solver script, kissat as the honest part of it. The interpreter's abort-on-unknown is the model of SolvingResult::unwrap_model; that every solve site goes through it is what the trace correspondence checks on each run. Process-level failures (crash, no output, garbage) enter through the reply parser (see C16).",
    "technique": "Lean 4 proof over the Prog interface + fault injection at every call position"}
CLAIMED["C18"] = {
    "text": "Kernel-checked: (1) on the Prog models, for arbitrary replies: CO <= 1 call, ST <= 2 calls per component (st_calls, co_calls); (2) at set level for every sound oracle: grow loop maximal and <= |U|-|start|+1 calls, skeptical search correct, never re-examines a candidate, <= |base|+1 calls, range-guided loop ends in a maximal range (pr_grow, pr_skeptical, range_grow). Tied to the code: counted calls = the Lean program's calls on the same replies, and <= the property's bound computed from reference counts per component; runs are cut at 20000 calls.",
    "note": "PARTIAL: the PR/ID/SST/STG bounds are proved for the abstract set-level procedures; the refinement from the Prog models to them is not yet proved (it is checked by trace correspondence and by the measured bound on every run). Trusted: Lean kernel, Mathlib (Finset), harness counting factory.",
    "technique": "Lean 4 proofs (call counting on Prog, abstract search procedures) + counted runs against the bound"}
CLAIMED["C06"] = {
    "text": "Kernel-checked: any two answers that pass the (proved exact) judge have the same status whatever the configuration (status_config_invariant); the program of a query depends on (solver, encoder, framework, query) only (query_history_invariant); outcomes depend on replies only, not on solver numbering or earlier calls (outcome_world_invariant). Tied to the code by query sequences on one solver object with trace comparison, all encodings x certificate flag, the external backend (kissat through ExternalSatSolver), and a before/after dump of the framework.",
    "note": "Trusted: Lean kernel; kissat and CaDiCaL assumed sound and complete; harness. 'Querying never modifies the framework' is additionally guaranteed by Rust's type system (&AAFramework) and checked by the dump.",
    "technique": "Lean 4 proofs + differential runs across configurations and backends"}
CLAIMED["C11"] = {
    "text": "Relations between runs of the real solvers on frameworks of 20-300 arguments (argument permutation, attack-line permutation/duplication, disjoint union with an unrelated component incl. the ST rule, cross-semantics consistency GR<=ID<=PR, DS=>DC, ST=SST=STG when a stable extension exists); small frameworks additionally judged by the proved deciders. Kernel-checked so far: skeptical_implies_credulous at spec level.",
    "note": "PARTIAL: the spec-level theorems ext_iso, ext_atts_perm_dup, ext_disjoint_union and sem_consistency (that the textbook semantics satisfy these relations for all frameworks) are in progress; the relations themselves are checked on every run on the real code. Trusted: Lean kernel, harness.",
    "technique": "metamorphic differential runs + Lean 4 spec-level theorems (in progress)"}
CLAIMED["C13"] = {
    "text": "Byte-level Lean models of both readers (BufRead::lines, UTF-8 validation, split_whitespace, parse::<isize>/<usize>, the four Aspartix regexes as deterministic scanners with \\s/\\d tables regenerated from the vendored regex-syntax). Kernel-checked: totality, error finality, and one rejection theorem per ill-formedness class of the property (invalid UTF-8, missing/bad header, content after blank line, wrong arity, bad index, argument after attack, undeclared argument, syntax error). Tied to the code by differential runs on grammar-generated files (with expected content), ill-formed files and byte/token mutations under catch_unwind.",
    "note": "PARTIAL: the acceptance direction (every well-formed file is read to exactly its declared content, for all layouts) is checked on generated files with known expected content, its Lean proof (read_render) is in progress. Trusted: Lean kernel, regex crate modelled by scanners, harness.",
    "technique": "Lean 4 model + rejection theorems + byte-level differential fuzzing"}
CLAIMED["C14"] = {
    "text": "Kernel-checked: both extension formats parse back to exactly the label list, empty list included (iccma_extension_roundtrip, apx_extension_roundtrip), status lines are exactly YES/NO, the witness is exactly one line. Tied to the code: bytes of AspartixWriter::write_framework and of the response writers compared with the Lean writer model on frameworks reached by random histories; real reader applied to real writer output compared with the original.",
    "note": "PARTIAL: the framework round trip readApx(writeApx s) = s is checked by execution on every generated history (model and implementation), its Lean proof is in progress. Trusted: Lean kernel, harness.",
    "technique": "Lean 4 proofs of the answer formats + differential byte comparison"}
CLAIMED["C19"] = {
    "text": "Lean model of propagate / compute_classes / reduce_af mirrored step by step; kernel-checked: the judging criterion 'same membership in all complete extensions' is exact and an equivalence (sameComplete_exact, sameComplete_equiv). Every run compares classes, both mappings and the reduced framework with the model and judges partition, inverse maps and indistinguishability of every merged pair.",
    "note": "PARTIAL: propagate_sound / classes_sound (the algorithm only merges indistinguishable arguments, for all frameworks) are in progress; at present that statement is established by the exhaustive/random runs judged with the exact criterion. Trusted: Lean kernel, harness.",
    "technique": "Lean 4 model + exact judge + differential correspondence"}
CLAIMED["C15"] = {
    "text": "Kernel-checked for the wrappers: the instance of a call is exactly the clauses added so far plus one unit per assumption, so any model of it satisfies all of them (reported_model_satisfies); assumptions are never stored, clauses accumulate in order (incremental); the declared variable count covers clauses, reservations and assumptions for every history (nvars_covers); a reported model has exactly n_vars entries for both wrappers (model_total, cad_model_length). Backend soundness is validated on each run: every SAT model is evaluated against the accumulated formula, every UNSAT cross-checked by enumeration (<= 14 variables), CaDiCaL and kissat verdicts compared on the same histories.",
    "note": "PARTIAL by nature: soundness and completeness of CaDiCaL and of the external solver are assumed (validated on the runs performed). Trusted: Lean kernel, harness, fake-solver script, kissat.",
    "technique": "Lean 4 proofs about the wrapper models + differential runs with model evaluation"}
CLAIMED["C16"] = {
    "text": "Kernel-checked: for every history, the DIMACS instance announces a variable count covering clauses and assumptions (dimacs_wellformed); a model / UNSAT is reported only when the reply carries the status line, empty output is undecided, the model has one entry per declared variable (reply_faithful, model_covers_declared); in the abstract pipe model drain-then-wait returns for every output size and capacity whereas wait-then-drain never returns once the output exceeds the capacity (pipe_no_deadlock). Tied to the code: captured instances from all static solvers and from random histories checked by a recogniser and compared with the Lean rendering; generated well/ill-formed replies through a scripted solver compared with the Lean parser and the expected class; timed runs with 1 KiB - 1 MiB of output.",
    "note": "PARTIAL by nature: OS pipes, process spawning and scheduling are represented by the abstract Pipe model; which policy the code follows is observed by the timed runs (a hang is reported as a violation). Trusted: Lean kernel, harness, fake-solver script.",
    "technique": "Lean 4 proofs (DIMACS invariant, reply parser, pipe model) + captured exchanges and timed runs"}
CLAIMED["C08"] = {
    "text": "Every status and certificate of the six dynamic solver types (the recompute wrapper over all seven static solvers; reservation factors 1, 1.5, 2, 3.7) on random valid histories with interleaved and repeated queries is judged against the framework as it stands with the judge proved exact in Lean (judge_is_exact = checkAnswer_iff); certificate members must be the current framework's own arguments.",
    "note": "PARTIAL: the Lean model of the dynamic encoders (variable table, selectors, event buffer, answer caches) and its invariant dyn_inv are in progress; at present the property is decided per run by the exact judge on generated histories (frameworks <= 7 live arguments), which found and led to the repair of three defects of the dynamic preferred solver. Trusted: Lean kernel, harness (shadow framework), CaDiCaL.",
    "technique": "differential conformance on update histories judged by a Lean-proved oracle; Lean model of the encoders in progress"}
CLAIMED["C09"] = {
    "text": "As C08 with 15% redundant or invalid updates injected at any position: the result of every update call (ok / error from the call itself) is compared with the expected one and every later answer is judged against the framework without the rejected or redundant operation, by the judge proved exact in Lean.",
    "note": "PARTIAL: same as C08 (model of the buffered encoders in progress). Trusted: Lean kernel, harness, CaDiCaL.",
    "technique": "differential conformance on histories with redundant/invalid updates judged by a Lean-proved oracle"}
NOT_APPLICABLE = {}
