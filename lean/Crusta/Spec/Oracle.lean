import Crusta.Spec.AF

/-!
# The conformance oracle for query answers (C01–C04, C07)

`checkAnswer af q a` is what the checks run on every answer produced by the real solvers.
`Conforms af q a` is the property text (C01–C04, C07) as a `Prop`; their agreement is proved in
`Crusta/Proofs/Oracle.lean`.
-/

namespace Crusta

inductive Task | SE | DC | DS
deriving Repr, DecidableEq, Inhabited

def Task.ofString? : String → Option Task
  | "SE" => some .SE | "DC" => some .DC | "DS" => some .DS | _ => none

structure Query where
  sem : Sem
  task : Task
  cert : Bool
  args : List Nat
deriving Repr

inductive Answer
  /-- single-extension answer: `none` = "no extension" -/
  | se (ext : Option (List Nat))
  /-- acceptance answer; `cert = none`: the certificate-less entry point was used -/
  | acc (status : Bool) (cert : Option (Option (List Nat)))
deriving Repr

def nodupB : List Nat → Bool
  | [] => true
  | a :: l => !l.contains a && nodupB l

/-- a returned list is a genuine σ-extension, given in the framework's arguments, no duplicates -/
def validExtB (σ : Sem) (af : AF) (e : List Nat) : Bool := nodupB e && σ.extB af e

def hitsB (e as : List Nat) : Bool := as.any (fun a => e.contains a)

def checkAnswer (af : AF) (q : Query) : Answer → Except String Unit
  | .se none =>
    if q.task != .SE then .error "SE answer to a non-SE task"
    else if (q.sem.exts af).isEmpty then .ok () else .error "NO-extension reported but one exists"
  | .se (some e) =>
    if q.task != .SE then .error "SE answer to a non-SE task"
    else if validExtB q.sem af e then .ok () else .error "returned set is not an extension"
  | .acc st c =>
    match q.task with
    | .SE => .error "acceptance answer to SE task"
    | .DC =>
      if st != q.sem.credB af q.args then .error "wrong credulous status"
      else match c, q.cert with
        | none, false => .ok ()
        | none, true => .error "certificate variant returned no certificate slot"
        | some _, false => .error "certificate-less variant returned a certificate slot"
        | some none, true => if st then .error "YES without certificate" else .ok ()
        | some (some e), true =>
          if !st then .error "NO with a certificate"
          else if !validExtB q.sem af e then .error "certificate is not an extension"
          else if !hitsB e q.args then .error "certificate omits the queried arguments"
          else .ok ()
    | .DS =>
      if st != q.sem.skepB af q.args then .error "wrong skeptical status"
      else match c, q.cert with
        | none, false => .ok ()
        | none, true => .error "certificate variant returned no certificate slot"
        | some _, false => .error "certificate-less variant returned a certificate slot"
        | some none, true => if st then .ok () else .error "NO without certificate"
        | some (some e), true =>
          if st then .error "YES with a certificate"
          else if !validExtB q.sem af e then .error "certificate is not an extension"
          else if hitsB e q.args then .error "certificate contains a queried argument"
          else .ok ()

end Crusta
