import Crusta.Proofs.EncCommon

/-!
# exp encoders and the default stable encoder (S5 / C10)
-/

namespace Crusta
namespace Exp

def S (af : AF) (ν : Asg) : ASet := setOfAsg af.n x ν

theorem S_sub (af : AF) (ν : Asg) : Sub af (S af ν) := setOfAsg_sub af x ν
theorem S_lt {af : AF} {ν : Asg} {a : Nat} (h : a < af.n) : S af ν a = ν (x a) := setOfAsg_lt h

theorem attackedBy_iff {af : AF} (hwf : af.WF) (ν : Asg) (a : Nat) :
    AttackedBy af (S af ν) a ↔ ∃ b ∈ af.attackers a, ν (x b) = true := by
  constructor
  · rintro ⟨b, hb, hSb⟩
    exact ⟨b, AF.mem_attackers.2 hb, by rwa [S_lt (hwf _ hb).1] at hSb⟩
  · rintro ⟨b, hb, hνb⟩
    exact ⟨b, AF.mem_attackers.1 hb, by rw [S_lt (AF.attackers_lt hwf hb)]; exact hνb⟩

theorem defended_iff {af : AF} (hwf : af.WF) (ν : Asg) (a : Nat) :
    Defended af (S af ν) a ↔ ∀ b ∈ af.attackers a, ∃ d ∈ af.attackers b, ν (x d) = true := by
  unfold Defended
  constructor
  · intro h b hb; exact (attackedBy_iff hwf ν b).1 (h b (AF.mem_attackers.1 hb))
  · intro h b hb; exact (attackedBy_iff hwf ν b).2 (h b (AF.mem_attackers.2 hb))

theorem cfArg_iff {af : AF} (hwf : af.WF) (ν : Asg) {a : Nat} (ha : a < af.n) :
    cnfTrue ν (cfArg af a) = true ↔ LocalCF af (S af ν) a := by
  unfold cfArg LocalCF
  rw [cnfTrue_map, S_lt ha]
  simp only [clauseTrue_cons, litTrue_nl, clauseTrue_nil, Bool.or_false, Bool.or_eq_true,
    Bool.not_eq_true']
  constructor
  · intro h hxa b hb
    rw [S_lt (hwf _ hb).1]
    rcases h b (AF.mem_attackers.2 hb) with h1 | h1
    · rw [hxa] at h1; cases h1
    · exact h1
  · intro h b hb
    cases hxa : ν (x a)
    · left; rfl
    · right
      have := h hxa b (AF.mem_attackers.1 hb)
      rwa [S_lt (AF.attackers_lt hwf hb)] at this

theorem cf_iff (af : AF) (hwf : af.WF) (ν : Asg) :
    cnfTrue ν (cf af) = true ↔ ConflictFree af (S af ν) := by
  rw [cf_iff_local af _ (S_sub af ν)]
  unfold cf
  rw [cnfTrue_flatMap]
  constructor
  · intro h a ha; exact (cfArg_iff hwf ν ha).1 (h a (List.mem_range.2 ha))
  · intro h a ha; exact (cfArg_iff hwf ν (List.mem_range.1 ha)).2 (h a (List.mem_range.1 ha))

/-- the three-part clause set of the non-trivial case, for any list of attackers/defenders -/
theorem nontrivial_iff {af : AF} (hwf : af.WF) (ν : Asg) {a : Nat} (ha : a < af.n) :
    cnfTrue ν (nontrivial af a (defenders af a)) = true ↔
      (LocalCF af (S af ν) a ∧ LocalDef af (S af ν) a ∧ LocalCO af (S af ν) a) := by
  unfold nontrivial
  rw [cnfTrue_append, cnfTrue_append, Bool.and_eq_true, Bool.and_eq_true, cfArg_iff hwf ν ha,
    cnfTrue_map, cnfTrue_map]
  unfold LocalDef LocalCO
  rw [defended_iff hwf, S_lt ha]
  have hdefs : ∀ D, D ∈ defenders af a ↔ ∃ b ∈ af.attackers a, D = (af.attackers b).map (fun d => pl (x d)) := by
    intro D; unfold defenders; simp only [List.mem_map]
    constructor
    · rintro ⟨b, hb, rfl⟩; exact ⟨b, hb, rfl⟩
    · rintro ⟨b, hb, rfl⟩; exact ⟨b, hb, rfl⟩
  constructor
  · rintro ⟨⟨hcf, hd⟩, hc⟩
    refine ⟨hcf, ?_, ?_⟩
    · intro hxa b hb
      have := hd _ ((hdefs _).2 ⟨b, hb, rfl⟩)
      simp only [clauseTrue_cons, litTrue_nl, Bool.or_eq_true, Bool.not_eq_true', clauseTrue_map,
        litTrue_pl] at this
      rcases this with h | h
      · rw [hxa] at h; cases h
      · exact h
    · intro hall
      cases hxa : ν (x a)
      · exfalso
        -- every tuple has a false literal, hence some defender set is entirely false
        have hc' : ∀ t ∈ cartProd (defenders af a), ∃ l ∈ t, litTrue ν l = false := by
          intro t ht
          have := hc t ht
          simp only [clauseTrue_cons, litTrue_pl, hxa, Bool.false_or, clauseTrue_map, litTrue_neg,
            Bool.not_eq_true'] at this
          exact this
        obtain ⟨D, hD, hDf⟩ := (cart_all_exists (fun l => litTrue ν l = false) _).1 hc'
        obtain ⟨b, hb, rfl⟩ := (hdefs D).1 hD
        obtain ⟨d, hd', hνd⟩ := hall b hb
        have := hDf (pl (x d)) (List.mem_map.2 ⟨d, hd', rfl⟩)
        simp only [litTrue_pl] at this
        rw [hνd] at this; cases this
      · rfl
  · rintro ⟨hcf, hd, hc⟩
    refine ⟨⟨hcf, ?_⟩, ?_⟩
    · intro D hD
      obtain ⟨b, hb, rfl⟩ := (hdefs D).1 hD
      simp only [clauseTrue_cons, litTrue_nl, Bool.or_eq_true, Bool.not_eq_true', clauseTrue_map,
        litTrue_pl]
      cases hxa : ν (x a)
      · left; rfl
      · right; exact hd hxa b hb
    · intro t ht
      simp only [clauseTrue_cons, litTrue_pl, Bool.or_eq_true, clauseTrue_map, litTrue_neg,
        Bool.not_eq_true']
      cases hxa : ν (x a)
      · right
        -- not all attackers are counter-attacked, so some defender set is entirely false
        have hnall : ¬ ∀ b ∈ af.attackers a, ∃ d ∈ af.attackers b, ν (x d) = true := by
          intro hall; rw [hc hall] at hxa; cases hxa
        obtain ⟨b, hb, hnb⟩ := not_forall_mem hnall
        have hDf : ∀ l ∈ (af.attackers b).map (fun d => pl (x d)), litTrue ν l = false := by
          intro l hl
          obtain ⟨d, hd', rfl⟩ := List.mem_map.1 hl
          simp only [litTrue_pl]
          cases hνd : ν (x d)
          · rfl
          · exact absurd ⟨d, hd', hνd⟩ hnb
        exact (cart_all_exists (fun l => litTrue ν l = false) _).2
          ⟨_, (hdefs _).2 ⟨b, hb, rfl⟩, hDf⟩ t ht
      · left; rfl

theorem coArg_iff {af : AF} (hwf : af.WF) (ν : Asg) {a : Nat} (ha : a < af.n) :
    cnfTrue ν (coArg af a) = true ↔
      (LocalCF af (S af ν) a ∧ LocalDef af (S af ν) a ∧ LocalCO af (S af ν) a) := by
  unfold coArg
  simp only
  split
  · -- no attacker
    rename_i hemp
    have hnil : af.attackers a = [] := by
      unfold defenders at hemp
      simpa using hemp
    have hno : ∀ b, (b, a) ∉ af.atts := by
      intro b hb
      have := AF.mem_attackers.2 hb
      rw [hnil] at this; cases this
    simp only [cnfTrue_cons, cnfTrue_nil, Bool.and_true, clauseTrue_cons, litTrue_pl, clauseTrue_nil,
      Bool.or_false]
    unfold LocalCF LocalDef LocalCO Defended
    rw [S_lt ha]
    constructor
    · intro hxa
      exact ⟨fun _ b hb => absurd hb (hno b), fun _ b hb => absurd hb (hno b), fun _ => hxa⟩
    · rintro ⟨_, _, h⟩
      exact h (fun b hb => absurd hb (hno b))
  · split
    · -- an unattacked attacker
      rename_i _ hany
      have : ∃ b ∈ af.attackers a, af.attackers b = [] := by
        unfold defenders at hany
        simp only [List.any_map, List.any_eq_true, Function.comp] at hany
        obtain ⟨b, hb, he⟩ := hany
        exact ⟨b, hb, by simpa using he⟩
      obtain ⟨b, hb, hbnil⟩ := this
      have hnd : ¬ Defended af (S af ν) a := by
        rw [defended_iff hwf]
        intro h
        obtain ⟨d, hd, _⟩ := h b hb
        rw [hbnil] at hd; cases hd
      simp only [cnfTrue_cons, cnfTrue_nil, Bool.and_true, clauseTrue_cons, litTrue_nl,
        clauseTrue_nil, Bool.or_false, Bool.not_eq_true']
      unfold LocalCF LocalDef LocalCO
      rw [S_lt ha]
      constructor
      · intro hxa
        refine ⟨?_, ?_, fun h => absurd h hnd⟩
        · intro h; rw [hxa] at h; cases h
        · intro h; rw [hxa] at h; cases h
      · rintro ⟨_, h, _⟩
        cases hxa : ν (x a)
        · rfl
        · exact absurd (h hxa) hnd
    · exact nontrivial_iff hwf ν ha

theorem co_iff (af : AF) (hwf : af.WF) (ν : Asg) :
    cnfTrue ν (co af) = true ↔ Complete af (S af ν) := by
  rw [co_iff_local af _ (S_sub af ν)]
  unfold co
  rw [cnfTrue_flatMap]
  simp only [List.mem_range]
  constructor
  · intro h
    exact ⟨fun a ha => ((coArg_iff hwf ν ha).1 (h a ha)).1,
      fun a ha => ((coArg_iff hwf ν ha).1 (h a ha)).2.1,
      fun a ha => ((coArg_iff hwf ν ha).1 (h a ha)).2.2⟩
  · rintro ⟨h1, h2, h3⟩ a ha
    exact (coArg_iff hwf ν ha).2 ⟨h1 a ha, h2 a ha, h3 a ha⟩

/-! ### range -/

/-- range variables are sound: `S a → r_a` and `r_a → a ∈ range(S)` -/
def RSound (af : AF) (ν : Asg) : Prop :=
  ∀ a, a < af.n → (S af ν a = true → ν (r af.n a) = true) ∧ (ν (r af.n a) = true → InRange af (S af ν) a)

theorem range_iff {af : AF} (hwf : af.WF) (ν : Asg) {a : Nat} (ha : a < af.n) :
    cnfTrue ν (range af a) = true ↔
      ((S af ν a = true → ν (r af.n a) = true) ∧ (ν (r af.n a) = true → InRange af (S af ν) a)) := by
  unfold range InRange
  rw [attackedBy_iff hwf, S_lt ha]
  simp only [cnfTrue_cons, cnfTrue_nil, Bool.and_true, Bool.and_eq_true, clauseTrue_cons,
    clauseTrue_nil, litTrue_nl, litTrue_pl, Bool.or_false, Bool.or_eq_true, Bool.not_eq_true',
    clauseTrue_map]
  constructor
  · rintro ⟨h1, h2⟩
    refine ⟨?_, ?_⟩
    · intro hxa; rcases h1 with h | h
      · rw [hxa] at h; cases h
      · exact h
    · intro hr; rcases h2 with h | h
      · rw [hr] at h; cases h
      · exact h
  · rintro ⟨h1, h2⟩
    refine ⟨?_, ?_⟩
    · cases hxa : ν (x a)
      · left; rfl
      · right; exact h1 hxa
    · cases hr : ν (r af.n a)
      · left; rfl
      · right; exact h2 hr

theorem split2 {ν : Asg} {n : Nat} {f g : Nat → Cnf} :
    (∀ a, a < n → cnfTrue ν (f a ++ g a) = true) ↔
      ((∀ a, a < n → cnfTrue ν (f a) = true) ∧ (∀ a, a < n → cnfTrue ν (g a) = true)) := by
  simp only [cnfTrue_append, Bool.and_eq_true]
  constructor
  · intro hh; exact ⟨fun a ha => (hh a ha).1, fun a ha => (hh a ha).2⟩
  · rintro ⟨h1, h2⟩ a ha; exact ⟨h1 a ha, h2 a ha⟩

theorem rsound_iff {af : AF} (hwf : af.WF) (ν : Asg) :
    (∀ a, a < af.n → cnfTrue ν (range af a) = true) ↔ RSound af ν := by
  unfold RSound
  constructor
  · intro h a ha; exact (range_iff hwf ν ha).1 (h a ha)
  · intro h a ha; exact (range_iff hwf ν ha).2 (h a ha)

theorem coRange_iff (af : AF) (hwf : af.WF) (ν : Asg) :
    cnfTrue ν (coRange af) = true ↔ (Complete af (S af ν) ∧ RSound af ν) := by
  have hco := co_iff af hwf ν
  unfold co at hco
  unfold coRange
  rw [cnfTrue_flatMap] at hco ⊢
  simp only [List.mem_range] at hco ⊢
  rw [split2, hco, rsound_iff hwf]

theorem cfRange_iff (af : AF) (hwf : af.WF) (ν : Asg) :
    cnfTrue ν (cfRange af) = true ↔ (ConflictFree af (S af ν) ∧ RSound af ν) := by
  have hco := cf_iff af hwf ν
  unfold cf at hco
  unfold cfRange
  rw [cnfTrue_flatMap] at hco ⊢
  simp only [List.mem_range] at hco ⊢
  rw [split2, hco, rsound_iff hwf]

open Classical in
/-- canonical assignment of a set: argument variables = the set, range variables = its range -/
noncomputable def asgOf (af : AF) (T : ASet) : Asg := fun v =>
  if v > af.n then decide (InRange af T (v - af.n - 1)) else T (v - 1)

theorem asgOf_x (af : AF) (T : ASet) {a : Nat} (ha : a < af.n) : asgOf af T (x a) = T a := by
  unfold asgOf x
  have h1 : ¬ a + 1 > af.n := by omega
  simp [h1]

theorem asgOf_r (af : AF) (T : ASet) (a : Nat) :
    asgOf af T (r af.n a) = true ↔ InRange af T a := by
  unfold asgOf r
  have h1 : af.n + a + 1 > af.n := by omega
  have h3 : af.n + a + 1 - af.n - 1 = a := by omega
  simp only [h1, h3, if_true, decide_eq_true_eq]

theorem S_asgOf (af : AF) (T : ASet) (hT : Sub af T) : S af (asgOf af T) = T := by
  funext a
  unfold S setOfAsg
  by_cases ha : a < af.n
  · simp [ha, asgOf_x af T ha]
  · cases h : T a
    · simp [ha]
    · exact absurd (hT a h) ha

/-- every set has an assignment whose range variables are exactly its range (and are sound) -/
theorem asgOf_cons (af : AF) (T : ASet) (hT : Sub af T) :
    S af (asgOf af T) = T ∧ RSound af (asgOf af T) ∧
      ∀ a, a < af.n → (asgOf af T (r af.n a) = true ↔ InRange af T a) := by
  refine ⟨S_asgOf af T hT, ?_, fun a _ => asgOf_r af T a⟩
  intro a _
  rw [S_asgOf af T hT]
  exact ⟨fun h => (asgOf_r af T a).2 (Or.inl h), fun h => (asgOf_r af T a).1 h⟩

theorem x_inj {a b : Nat} (h : x a = x b) : a = b := by unfold x at h; omega
theorem x_ne_r {n a : Nat} (ha : a < n) (b : Nat) : x a ≠ r n b := by unfold x r; omega
theorem r_inj {n a b : Nat} (h : r n a = r n b) : a = b := by unfold r at h; omega

end Exp

/-! ## default stable encoder -/
namespace Stb

def S (af : AF) (ν : Asg) : ASet := setOfAsg af.n x ν
theorem S_sub (af : AF) (ν : Asg) : Sub af (S af ν) := setOfAsg_sub af x ν
theorem S_lt {af : AF} {ν : Asg} {a : Nat} (h : a < af.n) : S af ν a = ν (x a) := setOfAsg_lt h

theorem argCl_iff {af : AF} (hwf : af.WF) (ν : Asg) {a : Nat} (ha : a < af.n) :
    cnfTrue ν (argCl af a) = true ↔ (LocalCF af (S af ν) a ∧ LocalST af (S af ν) a) := by
  unfold argCl LocalCF LocalST AttackedBy
  rw [cnfTrue_append, Bool.and_eq_true, cnfTrue_map, S_lt ha]
  simp only [cnfTrue_cons, cnfTrue_nil, Bool.and_true, clauseTrue_cons, litTrue_pl,
    Bool.or_eq_true, clauseTrue_map, List.mem_filter, Bool.not_eq_true', beq_eq_false_iff_ne, ne_eq]
  constructor
  · rintro ⟨h1, h2⟩
    refine ⟨?_, ?_⟩
    · intro hxa b hb
      have := h1 b (AF.mem_attackers.2 hb)
      rw [S_lt (hwf _ hb).1]
      by_cases e : b = a
      · subst e; simp [hxa] at this
      · simp [e, hxa] at this; exact this
    · intro hxa
      rcases h2 with h | ⟨b, ⟨hb, _⟩, hνb⟩
      · rw [hxa] at h; cases h
      · exact ⟨b, AF.mem_attackers.1 hb, by rw [S_lt (AF.attackers_lt hwf hb)]; exact hνb⟩
  · rintro ⟨h1, h2⟩
    refine ⟨?_, ?_⟩
    · intro b hb
      cases hxa : ν (x a)
      · by_cases e : b = a <;> simp [e, hxa]
      · have := h1 hxa b (AF.mem_attackers.1 hb)
        rw [S_lt (AF.attackers_lt hwf hb)] at this
        by_cases e : b = a
        · subst e; rw [hxa] at this; cases this
        · simp [e, this]
    · cases hxa : ν (x a)
      · right
        obtain ⟨b, hb, hSb⟩ := h2 hxa
        have hνb : ν (x b) = true := by rwa [S_lt (hwf _ hb).1] at hSb
        refine ⟨b, ⟨AF.mem_attackers.2 hb, ?_⟩, hνb⟩
        intro e; subst e; rw [hxa] at hνb; cases hνb
      · left; rfl

theorem enc_iff (af : AF) (hwf : af.WF) (ν : Asg) :
    cnfTrue ν (enc af) = true ↔ Stable af (S af ν) := by
  rw [st_iff_local af _ (S_sub af ν)]
  unfold enc
  rw [cnfTrue_flatMap]
  simp only [List.mem_range]
  constructor
  · intro h
    exact ⟨fun a ha => ((argCl_iff hwf ν ha).1 (h a ha)).1, fun a ha => ((argCl_iff hwf ν ha).1 (h a ha)).2⟩
  · rintro ⟨h1, h2⟩ a ha
    exact (argCl_iff hwf ν ha).2 ⟨h1 a ha, h2 a ha⟩

end Stb
end Crusta
