import Crusta.Proofs.Sat

/-!
# C15 — SAT solver objects honour the incremental solving contract (property theorems)

What is proved is the *wrapper* (clause buffer, instance construction, reply interpretation,
assignment padding); soundness and completeness of CaDiCaL / the external solver are assumed and
validated on the runs performed.
-/

namespace Crusta.C15
open Crusta Crusta.Sat

/-- the instance of a call consists of exactly the clauses added so far plus one unit clause per
assumption: any model of it satisfies every clause added so far and every assumption of the call -/
theorem reported_model_satisfies (b : Buffered) (as : List Lit) (ν : Asg)
    (h : cnfTrue ν (b.clauses ++ as.map (fun a => [a])) = true) :
    (∀ c ∈ b.clauses, clauseTrue ν c = true) ∧ (∀ a ∈ as, litTrue ν a = true) :=
  instance_model b as ν h

/-- assumptions hold for one call only, clauses added between calls are taken into account -/
theorem incremental (b : Buffered) (as : List Lit) (c : Clause) :
    (b.withAssumptions as).clauses = b.clauses ∧ (b.addClause c).clauses = b.clauses ++ [c] :=
  ⟨rfl, rfl⟩

/-- the model can be queried for every declared variable -/
theorem model_total (nv : Nat) (out : List UInt8) (m : List (Option Bool))
    (h : parseReply nv out = .sat m) : m.length = nv := model_length nv out m h

/-- the declared variable count never decreases and covers all clauses, reservations, assumptions -/
theorem nvars_covers (ops : List BOp) : (ops.foldl Buffered.apply {}).Inv := Buffered.inv_reachable ops

/-- CaDiCaL wrapper: the assignment handed back has `max(max_variable, reserved)` entries -/
theorem cad_model_length (values : List (Option Bool)) (maxVar reserved : Nat) :
    (cadModel values maxVar reserved).length = cadNVars maxVar reserved := by
  unfold cadModel cadNVars
  simp only [List.length_append, List.length_take, List.length_replicate]
  omega

end Crusta.C15
