import Crusta.Spec.AF
import Crusta.Proofs.StoreObs

/-!
# Semantics over a sparse universe

The dynamic solvers work on frameworks whose argument ids have holes (removed arguments keep their
id forever).  `G` is a framework given by a liveness predicate and an attack relation; the textbook
definitions are repeated on it verbatim.  `AF.g` shows that on a compact framework they are the
definitions of `Spec/AF.lean`; `Store.g` is the framework held by a store.
-/

namespace Crusta

structure G where
  live : Nat → Bool
  att : Nat → Nat → Prop

namespace G

def AttackedBy (g : G) (S : ASet) (a : Nat) : Prop := ∃ b, g.att b a ∧ S b = true
def CF (g : G) (S : ASet) : Prop := (∀ a, S a = true → g.live a = true) ∧ ∀ a, S a = true → ¬ g.AttackedBy S a
def Defended (g : G) (S : ASet) (a : Nat) : Prop := ∀ b, g.att b a → g.AttackedBy S b
def Admissible (g : G) (S : ASet) : Prop := g.CF S ∧ ∀ a, S a = true → g.Defended S a
def Complete (g : G) (S : ASet) : Prop := g.Admissible S ∧ ∀ a, g.live a = true → g.Defended S a → S a = true
def Stable (g : G) (S : ASet) : Prop := g.CF S ∧ ∀ a, g.live a = true → S a = false → g.AttackedBy S a
def Preferred (g : G) (S : ASet) : Prop := g.Admissible S ∧ ∀ T, g.Admissible T → SubsetS S T → SubsetS T S

/-- attacks only relate live arguments -/
def WF (g : G) : Prop := ∀ a b, g.att a b → g.live a = true ∧ g.live b = true

end G

def AF.g (af : AF) : G := ⟨fun a => decide (a < af.n), fun b a => (b, a) ∈ af.atts⟩

theorem AF.g_complete (af : AF) (S : ASet) : af.g.Complete S ↔ Complete af S := by
  simp [G.Complete, G.Admissible, G.CF, G.Defended, G.AttackedBy, AF.g, Complete, Admissible, ConflictFree,
    Defended, AttackedBy, Sub]

theorem AF.g_stable (af : AF) (S : ASet) : af.g.Stable S ↔ Stable af S := by
  simp [G.Stable, G.CF, G.AttackedBy, AF.g, Stable, ConflictFree, AttackedBy, Sub]

theorem AF.g_preferred (af : AF) (S : ASet) : af.g.Preferred S ↔ Preferred af S := by
  simp [G.Preferred, G.Admissible, G.CF, G.Defended, G.AttackedBy, AF.g, Preferred, Admissible, ConflictFree,
    Defended, AttackedBy, Sub]

/-- the framework held by a store: live ids, live attacks -/
def Store.g (s : Store) : G := ⟨s.hasId, s.HasAtt⟩

theorem Store.g_wf {s : Store} (hinv : s.Inv) : s.g.WF := by
  intro a b ⟨i, hi⟩
  exact hinv.ends_live i a b hi

end Crusta
