/-! Regenerated from /repo/src/aa/problem.rs by tools/gen_from_source.py on every run. Do not edit. -/

namespace Crusta.Gen

/-- variants of `enum Semantics`, in declaration order -/
def semanticsVariants : List String := ["GR", "CO", "PR", "ST", "SST", "STG", "ID"]

/-- variants of `enum Query`, in declaration order -/
def queryVariants : List String := ["SE", "DC", "DS"]

/-- match arms of `Semantics::try_from` (the ASCII-lowercased string, as code points, and the variant) -/
def semanticsArms : List (List Nat × String) := [([103, 114], "GR"), ([99, 111], "CO"), ([112, 114], "PR"), ([115, 116], "ST"), ([115, 115, 116], "SST"), ([115, 116, 103], "STG"), ([105, 100], "ID")]

/-- match arms of `Query::try_from` -/
def queryArms : List (List Nat × String) := [([115, 101], "SE"), ([100, 99], "DC"), ([100, 115], "DS")]

end Crusta.Gen
