import Crusta.Proofs.Deciders

/-!
# Textbook facts about the semantics (S10) and invariance under presentation (C11)
-/

namespace Crusta

/-! ## extensions depend on the attack *set* only (order and repetition of declarations are irrelevant) -/

def AF.SameGraph (f g : AF) : Prop := f.n = g.n ∧ ∀ p, p ∈ f.atts ↔ p ∈ g.atts

theorem AF.SameGraph.symm {f g : AF} (h : f.SameGraph g) : g.SameGraph f :=
  ⟨h.1.symm, fun p => (h.2 p).symm⟩

theorem attackedBy_congr {f g : AF} (h : f.SameGraph g) (S : ASet) (a : Nat) :
    AttackedBy f S a ↔ AttackedBy g S a := by
  unfold AttackedBy
  constructor
  · rintro ⟨b, hb, hs⟩; exact ⟨b, (h.2 _).1 hb, hs⟩
  · rintro ⟨b, hb, hs⟩; exact ⟨b, (h.2 _).2 hb, hs⟩

theorem sub_congr {f g : AF} (h : f.SameGraph g) (S : ASet) : Sub f S ↔ Sub g S := by
  unfold Sub; rw [h.1]

theorem cf_congr {f g : AF} (h : f.SameGraph g) (S : ASet) : ConflictFree f S ↔ ConflictFree g S := by
  unfold ConflictFree
  rw [sub_congr h]
  constructor
  · rintro ⟨h1, h2⟩; exact ⟨h1, fun a ha hatt => h2 a ha ((attackedBy_congr h S a).2 hatt)⟩
  · rintro ⟨h1, h2⟩; exact ⟨h1, fun a ha hatt => h2 a ha ((attackedBy_congr h S a).1 hatt)⟩

theorem defended_congr {f g : AF} (h : f.SameGraph g) (S : ASet) (a : Nat) :
    Defended f S a ↔ Defended g S a := by
  unfold Defended
  constructor
  · intro hd b hb; exact (attackedBy_congr h S b).1 (hd b ((h.2 _).2 hb))
  · intro hd b hb; exact (attackedBy_congr h S b).2 (hd b ((h.2 _).1 hb))

theorem adm_congr {f g : AF} (h : f.SameGraph g) (S : ASet) : Admissible f S ↔ Admissible g S := by
  unfold Admissible
  rw [cf_congr h]
  constructor
  · rintro ⟨h1, h2⟩; exact ⟨h1, fun a ha => (defended_congr h S a).1 (h2 a ha)⟩
  · rintro ⟨h1, h2⟩; exact ⟨h1, fun a ha => (defended_congr h S a).2 (h2 a ha)⟩

theorem co_congr {f g : AF} (h : f.SameGraph g) (S : ASet) : Complete f S ↔ Complete g S := by
  unfold Complete
  rw [adm_congr h, h.1]
  constructor
  · rintro ⟨h1, h2⟩; exact ⟨h1, fun a ha hd => h2 a ha ((defended_congr h S a).2 hd)⟩
  · rintro ⟨h1, h2⟩; exact ⟨h1, fun a ha hd => h2 a ha ((defended_congr h S a).1 hd)⟩

theorem st_congr {f g : AF} (h : f.SameGraph g) (S : ASet) : Stable f S ↔ Stable g S := by
  unfold Stable
  rw [cf_congr h, h.1]
  constructor
  · rintro ⟨h1, h2⟩; exact ⟨h1, fun a ha hs => (attackedBy_congr h S a).1 (h2 a ha hs)⟩
  · rintro ⟨h1, h2⟩; exact ⟨h1, fun a ha hs => (attackedBy_congr h S a).2 (h2 a ha hs)⟩

theorem inRange_congr {f g : AF} (h : f.SameGraph g) (S : ASet) (a : Nat) : InRange f S a ↔ InRange g S a := by
  unfold InRange; rw [attackedBy_congr h]

theorem rangeSub_congr {f g : AF} (h : f.SameGraph g) (S T : ASet) : RangeSub f S T ↔ RangeSub g S T := by
  unfold RangeSub
  constructor
  · intro hh a ha; exact (inRange_congr h T a).1 (hh a ((inRange_congr h S a).2 ha))
  · intro hh a ha; exact (inRange_congr h T a).2 (hh a ((inRange_congr h S a).1 ha))

theorem pr_congr {f g : AF} (h : f.SameGraph g) (S : ASet) : Preferred f S ↔ Preferred g S := by
  unfold Preferred
  rw [adm_congr h]
  constructor
  · rintro ⟨h1, h2⟩; exact ⟨h1, fun T hT => h2 T ((adm_congr h T).2 hT)⟩
  · rintro ⟨h1, h2⟩; exact ⟨h1, fun T hT => h2 T ((adm_congr h T).1 hT)⟩

/-- **all seven semantics are invariant under reordering and repetition of attack declarations** -/
theorem ext_attack_set (σ : Sem) {f g : AF} (h : f.SameGraph g) (S : ASet) : σ.Ext f S ↔ σ.Ext g S := by
  cases σ
  · -- GR
    show Grounded f S ↔ Grounded g S
    unfold Grounded; rw [co_congr h]
    constructor
    · rintro ⟨h1, h2⟩; exact ⟨h1, fun T hT => h2 T ((co_congr h T).2 hT)⟩
    · rintro ⟨h1, h2⟩; exact ⟨h1, fun T hT => h2 T ((co_congr h T).1 hT)⟩
  · exact co_congr h S
  · exact pr_congr h S
  · exact st_congr h S
  · show SemiStable f S ↔ SemiStable g S
    unfold SemiStable; rw [co_congr h]
    constructor
    · rintro ⟨h1, h2⟩
      exact ⟨h1, fun T hT hr => (rangeSub_congr h T S).1 (h2 T ((co_congr h T).2 hT) ((rangeSub_congr h S T).2 hr))⟩
    · rintro ⟨h1, h2⟩
      exact ⟨h1, fun T hT hr => (rangeSub_congr h T S).2 (h2 T ((co_congr h T).1 hT) ((rangeSub_congr h S T).1 hr))⟩
  · show Stage f S ↔ Stage g S
    unfold Stage; rw [cf_congr h]
    constructor
    · rintro ⟨h1, h2⟩
      exact ⟨h1, fun T hT hr => (rangeSub_congr h T S).1 (h2 T ((cf_congr h T).2 hT) ((rangeSub_congr h S T).2 hr))⟩
    · rintro ⟨h1, h2⟩
      exact ⟨h1, fun T hT hr => (rangeSub_congr h T S).2 (h2 T ((cf_congr h T).1 hT) ((rangeSub_congr h S T).1 hr))⟩
  · show Ideal f S ↔ Ideal g S
    have hc : ∀ T, IdealCand f T ↔ IdealCand g T := by
      intro T; unfold IdealCand; rw [adm_congr h]
      constructor
      · rintro ⟨h1, h2⟩; exact ⟨h1, fun P hP => h2 P ((pr_congr h P).2 hP)⟩
      · rintro ⟨h1, h2⟩; exact ⟨h1, fun P hP => h2 P ((pr_congr h P).1 hP)⟩
    unfold Ideal; rw [hc]
    constructor
    · rintro ⟨h1, h2⟩; exact ⟨h1, fun T hT => h2 T ((hc T).2 hT)⟩
    · rintro ⟨h1, h2⟩; exact ⟨h1, fun T hT => h2 T ((hc T).1 hT)⟩

/-! ## classic inclusions -/

/-- add one argument to a set -/
def addArg (S : ASet) (a : Nat) : ASet := fun x => S x || x == a

theorem subset_addArg (S : ASet) (a : Nat) : SubsetS S (addArg S a) := by
  intro x hx; simp [addArg, hx]

theorem attackedBy_mono {af : AF} {S T : ASet} (h : SubsetS S T) {a : Nat} (ha : AttackedBy af S a) :
    AttackedBy af T a := by
  obtain ⟨b, hb, hs⟩ := ha; exact ⟨b, hb, h b hs⟩

/-- fundamental lemma: an admissible set plus an argument it defends is admissible -/
theorem adm_add_defended {af : AF} {S : ASet} (hS : Admissible af S) {a : Nat} (ha : a < af.n)
    (hd : Defended af S a) : Admissible af (addArg S a) := by
  obtain ⟨⟨hsub, hcf⟩, hdef⟩ := hS
  have hmem : ∀ x, addArg S a x = true ↔ (S x = true ∨ x = a) := by
    intro x; simp [addArg]
  refine ⟨⟨?_, ?_⟩, ?_⟩
  · intro x hx
    rcases (hmem x).1 hx with h | rfl
    · exact hsub x h
    · exact ha
  · -- conflict-free
    intro x hx ⟨b, hb, hbS⟩
    -- b ∈ S ∪ {a} attacks x ∈ S ∪ {a}; in all cases S attacks b, and b ∈ S ∪ {a} …
    have key : ∀ y, addArg S a y = true → ¬ AttackedBy af S y := by
      intro y hy hatt
      rcases (hmem y).1 hy with h | rfl
      · exact hcf y h hatt
      · -- y = a attacked by c ∈ S; S defends a so S attacks c: conflict in S
        obtain ⟨c, hc, hcS⟩ := hatt
        exact hcf c hcS (hd c hc)
    -- the attacker b is attacked by S (x defended by S, or x = a defended by S)
    have hSb : AttackedBy af S b := by
      rcases (hmem x).1 hx with h | rfl
      · exact hdef x h b hb
      · exact hd b hb
    exact key b hbS hSb
  · intro x hx b hb
    rcases (hmem x).1 hx with h | h
    · exact attackedBy_mono (subset_addArg S a) (hdef x h b hb)
    · rw [h] at hb; exact attackedBy_mono (subset_addArg S a) (hd b hb)

/-- every preferred extension is complete -/
theorem preferred_complete {af : AF} {S : ASet} (h : Preferred af S) : Complete af S := by
  refine ⟨h.1, ?_⟩
  intro a ha hd
  have hadm := adm_add_defended h.1 ha hd
  have := h.2 _ hadm (subset_addArg S a) a (by simp [addArg])
  exact this

/-- the grounded extension is included in every complete, hence every preferred extension -/
theorem grounded_sub_preferred {af : AF} {G P : ASet} (hG : Grounded af G) (hP : Preferred af P) :
    SubsetS G P := hG.2 P (preferred_complete hP)

theorem stable_admissible {af : AF} (hwf : af.WF) {S : ASet} (h : Stable af S) : Admissible af S := by
  refine ⟨h.1, ?_⟩
  intro a ha b hb
  have hbn : b < af.n := (hwf _ hb).1
  cases hSb : S b
  · exact h.2 b hbn hSb
  · exact absurd ⟨b, hb, hSb⟩ (h.1.2 a ha)

/-- every stable extension is preferred -/
theorem stable_preferred {af : AF} (hwf : af.WF) {S : ASet} (h : Stable af S) : Preferred af S := by
  refine ⟨stable_admissible hwf h, ?_⟩
  intro T hT hST x hx
  cases hSx : S x
  · exfalso
    have hxn : x < af.n := hT.1.1 x hx
    obtain ⟨b, hb, hSb⟩ := h.2 x hxn hSx
    exact hT.1.2 x hx ⟨b, hb, hST b hSb⟩
  · rfl

theorem stable_complete {af : AF} (hwf : af.WF) {S : ASet} (h : Stable af S) : Complete af S :=
  preferred_complete (stable_preferred hwf h)

/-- the range of a stable extension is the whole framework -/
theorem stable_full_range {af : AF} {S : ASet} (h : Stable af S) (a : Nat) (ha : a < af.n) : InRange af S a := by
  cases hSa : S a
  · right; exact h.2 a ha hSa
  · left; exact hSa

theorem inRange_lt' {af : AF} (hwf : af.WF) {S : ASet} (hS : Sub af S) {a : Nat} (h : InRange af S a) : a < af.n :=
  inRange_lt hwf hS h

/-- stable extensions are semi-stable and stage -/
theorem stable_semistable {af : AF} (hwf : af.WF) {S : ASet} (h : Stable af S) : SemiStable af S := by
  refine ⟨stable_complete hwf h, ?_⟩
  intro T hT _ a ha
  exact stable_full_range h a (inRange_lt hwf (co_sub hT) ha)

theorem stable_stage {af : AF} (hwf : af.WF) {S : ASet} (h : Stable af S) : Stage af S := by
  refine ⟨h.1, ?_⟩
  intro T hT _ a ha
  exact stable_full_range h a (inRange_lt hwf (cf_sub hT) ha)

/-- a conflict-free set whose range is everything is stable -/
theorem stable_of_full_range {af : AF} {S : ASet} (hcf : ConflictFree af S)
    (hr : ∀ a, a < af.n → InRange af S a) : Stable af S := by
  refine ⟨hcf, ?_⟩
  intro a ha hSa
  rcases hr a ha with h | h
  · rw [hSa] at h; cases h
  · exact h

/-- **when a stable extension exists, ST, SST and STG coincide** -/
theorem st_sst_stg_coincide {af : AF} (hwf : af.WF) {E : ASet} (hE : Stable af E) (S : ASet) :
    (SemiStable af S ↔ Stable af S) ∧ (Stage af S ↔ Stable af S) := by
  constructor
  · constructor
    · intro hS
      apply stable_of_full_range hS.1.1.1
      intro a ha
      -- range E is everything, so range S ⊆ range E, hence by maximality range E ⊆ range S
      have hsub : RangeSub af S E := fun x hx => stable_full_range hE x (inRange_lt hwf (co_sub hS.1) hx)
      exact hS.2 E (stable_complete hwf hE) hsub a (stable_full_range hE a ha)
    · exact stable_semistable hwf
  · constructor
    · intro hS
      apply stable_of_full_range hS.1
      intro a ha
      have hsub : RangeSub af S E := fun x hx => stable_full_range hE x (inRange_lt hwf (cf_sub hS.1) hx)
      exact hS.2 E hE.1 hsub a (stable_full_range hE a ha)
    · exact stable_stage hwf

/-- the ideal extension lies inside every preferred extension -/
theorem ideal_sub_preferred {af : AF} {I P : ASet} (hI : Ideal af I) (hP : Preferred af P) : SubsetS I P :=
  hI.1.2 P hP

/-- credulous acceptance under CO and PR coincide in one direction without any finiteness
argument: a preferred extension is complete -/
theorem cred_pr_imp_cred_co {af : AF} {a : Nat} (h : ∃ S, Preferred af S ∧ S a = true) :
    ∃ S, Complete af S ∧ S a = true := by
  obtain ⟨S, hS, ha⟩ := h; exact ⟨S, preferred_complete hS, ha⟩

end Crusta
