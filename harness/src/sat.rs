//! SAT wrapper family (C15, C16): incremental histories on CadicalSolver / ExternalSatSolver.
use crate::{io, rec, util};
use crustabri::sat::{Literal, SatSolver, SolvingResult};
use std::collections::HashMap;
use std::panic::{catch_unwind, AssertUnwindSafe};

fn lits(s: &str) -> Vec<Literal> {
    s.split(',')
        .filter(|t| !t.is_empty())
        .map(|t| Literal::from(t.parse::<isize>().unwrap()))
        .collect()
}

/// `sat <id> backend=cadical|prog|opt ops=c:1,-2;r:5;q:1,-3;s;n [cap=<dir>] [replies=<dir>]`
pub fn run(_id: &str, p: &HashMap<String, String>, out: &mut Vec<String>) {
    let backend = p.get("backend").map(|s| s.as_str()).unwrap_or("cadical");
    if let Some(d) = p.get("cap") {
        std::fs::create_dir_all(d).ok();
        std::env::set_var("FAKE_CAPTURE", d);
        std::env::set_var("FAKE_STATE", format!("{}/state", d));
        let _ = std::fs::remove_file(format!("{}/state", d));
    }
    if let Some(d) = p.get("replies") {
        std::env::set_var("FAKE_REPLY_DIR", d);
        std::env::set_var("FAKE_CAPTURE", d);
        std::env::set_var("FAKE_STATE", format!("{}/state", d));
        let _ = std::fs::remove_file(format!("{}/state", d));
    } else {
        std::env::remove_var("FAKE_REPLY_DIR");
    }
    match (p.get("fake_at"), p.get("fake_kind")) {
        (Some(a), Some(k)) => {
            std::env::set_var("FAKE_FAIL_AT", a);
            std::env::set_var("FAKE_KIND", k);
        }
        _ => std::env::remove_var("FAKE_FAIL_AT"),
    }
    let mut ncall = 0usize;
    let mut s = rec::new_inner(backend);
    for op in p.get("ops").map(|s| s.as_str()).unwrap_or("").split(';').filter(|t| !t.is_empty()) {
        let (k, rest) = match op.find(':') {
            Some(i) => (&op[..i], &op[i + 1..]),
            None => (op, ""),
        };
        let r = catch_unwind(AssertUnwindSafe(|| match k {
            "c" => {
                s.add_clause(lits(rest));
                format!("O c {}", rest)
            }
            "r" => {
                s.reserve(rest.parse().unwrap());
                format!("O r {}", rest)
            }
            "n" => format!("O n {}", s.n_vars()),
            "q" | "s" => {
                let a = lits(rest);
                let res = if k == "s" { s.solve() } else { s.solve_under_assumptions(&a) };
                match res {
                    SolvingResult::Satisfiable(m) => format!("O {} {} -> s {}", k, rest, rec::model_to_string(&m)),
                    SolvingResult::Unsatisfiable => format!("O {} {} -> u", k, rest),
                    SolvingResult::Unknown => format!("O {} {} -> k", k, rest),
                }
            }
            _ => panic!("bad op"),
        }));
        match r {
            Ok(l) => out.push(l),
            Err(e) => out.push(format!("O {} {} -> panic {}", k, rest, util::panic_msg(e))),
        }
        if k == "q" || k == "s" {
            ncall += 1;
            if let Some(d) = p.get("cap").or(p.get("replies")) {
                if let Ok(b) = std::fs::read(format!("{}/in_{}", d, ncall)) {
                    out.push(format!("D {}", io::hex(&b)));
                }
                if let Ok(b) = std::fs::read(format!("{}/out_{}", d, ncall)) {
                    out.push(format!("P {}", io::hex(&b)));
                }
            }
            if let Some(d) = p.get("replies") {
                if let Ok(b) = std::fs::read(format!("{}/reply_{}", d, ncall)) {
                    out.push(format!("P {}", io::hex(&b)));
                } else {
                    out.push("P ".to_string());
                }
            }
        }
    }
    out.push("end".to_string());
}
