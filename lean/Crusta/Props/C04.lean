import Crusta.Proofs.Oracle
import Crusta.Proofs.StaticAll

/-! # C04 — certificates (property theorems) -/

namespace Crusta.C04
open Crusta

/-- credulous, certificate requested: the judge accepts exactly (YES + a duplicate-free extension
containing a queried argument) or (NO + no certificate), and only with the right status -/
theorem dc_cert_judge_exact (af : AF) (hwf : af.WF) (σ : Sem) (as : List Nat) (st : Bool)
    (c : Option (List Nat)) :
    checkAnswer af ⟨σ, .DC, true, as⟩ (.acc st (some c)) = .ok () ↔
      (st = true ↔ ∃ S, σ.Ext af S ∧ ∃ a ∈ as, S a = true) ∧
      match c with
      | none => st = false
      | some e => st = true ∧ e.Nodup ∧ σ.Ext af (ofList e) ∧ ∃ a ∈ as, a ∈ e := by
  rw [checkAnswer_iff af hwf]
  cases c <;> simp [Conforms, CertConforms]

/-- skeptical, certificate requested: (NO + an extension omitting every queried argument) or
(YES + no certificate) -/
theorem ds_cert_judge_exact (af : AF) (hwf : af.WF) (σ : Sem) (as : List Nat) (st : Bool)
    (c : Option (List Nat)) :
    checkAnswer af ⟨σ, .DS, true, as⟩ (.acc st (some c)) = .ok () ↔
      (st = true ↔ ∀ S, σ.Ext af S → ∃ a ∈ as, S a = true) ∧
      match c with
      | none => st = true
      | some e => st = false ∧ e.Nodup ∧ σ.Ext af (ofList e) ∧ ¬ ∃ a ∈ as, a ∈ e := by
  rw [checkAnswer_iff af hwf]
  cases c <;> cases st <;> simp [Conforms, CertConforms]

/-- the certificate-less entry points must not produce a certificate slot -/
theorem no_cert_slot (af : AF) (q : Query) (st : Bool) (c : Option (List Nat))
    (hq : q.cert = false) (ht : q.task ≠ .SE) :
    checkAnswer af q (.acc st (some c)) ≠ .ok () := by
  obtain ⟨σ, task, cert, args⟩ := q
  simp only at hq ht; subst hq
  cases task
  · exact absurd rfl ht
  · simp only [checkAnswer]; split <;> simp
  · simp only [checkAnswer]; split <;> simp


/-- **C04 on the solver programs**: the certificates of the `_with_certificate` entry points —
credulous YES comes with an extension containing a queried argument, skeptical NO with an extension
containing none; credulous NO and skeptical YES come with no certificate; the certificate-less
entry points return none -/
theorem certificates_witness (sk : SolverKind) (cfg : Cfg) (hcfg : CfgOK sk cfg) (v : FwView) (g : G) (hv : v.Ok g)
    (cert : Bool) (args : List Nat) (hargs : ∀ a ∈ args, g.live a = true) (w : World) (hb : w.Bounded)
    (rs : List Reply) (a : AccAns) (cv : Bool) (w' : World) :
    (∀ p, entryProg sk cfg v (.dc cert args) = some p → RunSound p rs w → interp p rs w = (.done (.acc a cv), w') →
      (cert = false → a.cert = none) ∧
      (cert = true → (a.status = true → ∃ e, a.cert = some e ∧ sk.sem.GExt g (ofList e) ∧ HitsL args (ofList e)) ∧
                     (a.status = false → a.cert = none))) ∧
    (∀ p, entryProg sk cfg v (.ds cert args) = some p → RunSound p rs w → interp p rs w = (.done (.acc a cv), w') →
      (cert = false → a.cert = none) ∧
      (cert = true → (a.status = false → ∃ e, a.cert = some e ∧ sk.sem.GExt g (ofList e) ∧ ¬ HitsL args (ofList e)) ∧
                     (a.status = true → a.cert = none))) := by
  constructor
  · intro p hp hs hrun
    obtain ⟨_, hdc, hnc⟩ := static_answers_conform sk cfg hcfg v g hv (.dc cert args) (fun x hx => hargs x hx) p hp w hb rs hs _ w' hrun
    exact ⟨hnc, fun hc => ⟨fun hst => (hdc.1 hst).2 hc, fun hst => (hdc.2 hst).2 hc⟩⟩
  · intro p hp hs hrun
    obtain ⟨_, hds, hnc⟩ := static_answers_conform sk cfg hcfg v g hv (.ds cert args) (fun x hx => hargs x hx) p hp w hb rs hs _ w' hrun
    exact ⟨hnc, fun hc => ⟨fun hst => (hds.2 hst).2 hc, fun hst => (hds.1 hst).2 hc⟩⟩

end Crusta.C04
