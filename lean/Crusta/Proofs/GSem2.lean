import Crusta.Proofs.GSem
import Crusta.Proofs.ViewSpec

/-! # The range-based and ideal semantics over a sparse universe (definitions) -/

namespace Crusta

def G.InRange (g : G) (S : ASet) (a : Nat) : Prop := S a = true ∨ g.AttackedBy S a
def G.RangeSub (g : G) (S T : ASet) : Prop := ∀ a, g.InRange S a → g.InRange T a
def G.SemiStable (g : G) (S : ASet) : Prop := g.Complete S ∧ ∀ T, g.Complete T → g.RangeSub S T → g.RangeSub T S
def G.Stage (g : G) (S : ASet) : Prop := g.CF S ∧ ∀ T, g.CF T → g.RangeSub S T → g.RangeSub T S
def G.IdealCand (g : G) (S : ASet) : Prop := g.Admissible S ∧ ∀ P, g.Preferred P → SubsetS S P
def G.Ideal (g : G) (S : ASet) : Prop := g.IdealCand S ∧ ∀ T, g.IdealCand T → SubsetS S T → SubsetS T S

end Crusta
