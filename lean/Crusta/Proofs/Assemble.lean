import Crusta.Proofs.StaticSpec
import Crusta.Proofs.CompAlg
import Crusta.Proofs.CompIso
import Crusta.Proofs.Decomp2
import Crusta.Proofs.GroundedAlg
import Crusta.Proofs.SolvePR

/-!
# From components to the framework

* `ext_parts`: every semantics decomposes over a partition into closed parts (one statement for the
  seven semantics);
* `comps_parts`: the components returned by `allComps` form such a partition;
* `assemble_ext`: per-component extensions, mapped back and concatenated, form an extension;
* `GrOK_of_wf`: the grounded algorithm on a component (discharges the hypothesis of the solver proofs);
* `wp_forEachComp`: the loop over the components.
-/

namespace Crusta
open Prog (mkSolver doReserve addClause addClauses getNVars doSolve)

theorem gext_iff (σ : Sem) (g : G) (S : ASet) : σ.GExt g S ↔ g.Ext σ S := by cases σ <;> rfl

/-- all semantics decompose over a partition into closed parts of a finite graph -/
theorem ext_parts {g : G} {parts : List (Nat → Bool)} (hp : Parts g parts)
    (hfin : ∃ n, ∀ a, g.live a = true → a < n) (σ : Sem) (S : ASet) (hS : ∀ a, S a = true → g.live a = true) :
    g.Ext σ S ↔ ∀ U ∈ parts, (g.restrict U).Ext σ (inter S U) := by
  cases σ with
  | GR => exact grounded_parts hp S hS
  | CO => exact complete_parts hp S hS
  | PR => exact preferred_parts hp S hS
  | ST => exact stable_parts hp S hS
  | SST => exact semistable_parts hp S hS
  | STG => exact stage_parts hp S hS
  | ID => exact ideal_parts_fin hp hfin S hS

theorem FwView.Ok.fin {v : FwView} {g : G} (h : v.Ok g) : ∃ n, ∀ a, g.live a = true → a < n := by
  cases hm : v.maxId with
  | none =>
    refine ⟨0, fun a ha => ?_⟩
    obtain ⟨m, hm', _⟩ := h.maxId_ge a ha
    rw [hm] at hm'; cases hm'
  | some m =>
    refine ⟨m + 1, fun a ha => ?_⟩
    obtain ⟨m', hm', hle⟩ := h.maxId_ge a ha
    rw [hm] at hm'; injection hm' with hm'; omega

theorem GoodComp.closedB {g : G} {c : Comp} (hc : GoodComp g c) : g.ClosedB c.memB := by
  intro a b hab
  have := hc.closed a b hab
  unfold Comp.memB
  rw [Bool.eq_iff_iff]
  simp only [List.contains_iff_mem]
  exact this

/-- a list of good components that are pairwise disjoint and cover the live arguments is a partition -/
theorem comps_parts {g : G} {cs : List Comp} (hgood : ∀ c ∈ cs, GoodComp g c)
    (hdisj : cs.Pairwise (fun c c' => ∀ a, a ∈ c.ids → a ∉ c'.ids))
    (hcover : ∀ a, g.live a = true → ∃ c ∈ cs, a ∈ c.ids) : Parts g (cs.map Comp.memB) := by
  refine ⟨?_, ?_, ?_⟩
  · intro U hU
    obtain ⟨c, hc, rfl⟩ := List.mem_map.1 hU
    exact (hgood c hc).closedB
  · rw [List.pairwise_map]
    refine hdisj.imp ?_
    intro c c' h a ⟨h1, h2⟩
    simp only [Comp.memB, List.contains_iff_mem] at h1 h2
    exact h a h1 h2
  · intro a ha
    obtain ⟨c, hc, hac⟩ := hcover a ha
    exact ⟨c.memB, List.mem_map_of_mem hc, by simpa [Comp.memB] using hac⟩

/-- `allComps` as a list of components -/
theorem allComps_list (v : FwView) (g : G) (h : v.Ok g) :
    ∃ cs : List Comp, allComps v = cs.map some ∧ (∀ c ∈ cs, GoodComp g c) ∧
      cs.Pairwise (fun c c' => ∀ a, a ∈ c.ids → a ∉ c'.ids) ∧ (∀ a, g.live a = true → ∃ c ∈ cs, a ∈ c.ids) := by
  obtain ⟨h1, h2, h3⟩ := allComps_spec v g h
  refine ⟨(allComps v).filterMap id, ?_, ?_, ?_, ?_⟩
  · have : ∀ l : List (Option Comp), (∀ oc ∈ l, ∃ c, oc = some c) → l = (l.filterMap id).map some := by
      intro l
      induction l with
      | nil => intro _; rfl
      | cons a t ih =>
        intro hl
        obtain ⟨c, rfl⟩ := hl a (by simp)
        simp only [List.filterMap_cons, id, List.map_cons]
        rw [← ih (fun oc ho => hl oc (by simp [ho]))]
    exact this _ (fun oc ho => by obtain ⟨c, hc, _⟩ := h1 oc ho; exact ⟨c, hc⟩)
  · intro c hc
    obtain ⟨oc, ho, hoc⟩ := List.mem_filterMap.1 hc
    simp only [id] at hoc; subst hoc
    obtain ⟨c', hc', hg, _⟩ := h1 _ ho
    injection hc' with hc'; subst hc'; exact hg
  · rw [List.pairwise_filterMap]
    refine h2.imp ?_
    intro x y hxy c hc c' hc'
    simp only [id] at hc hc'
    exact hxy c c' hc hc'
  · intro a ha
    obtain ⟨c, hc, hac⟩ := h3 a ha
    exact ⟨c, List.mem_filterMap.2 ⟨some c, hc, rfl⟩, hac⟩

/-- **assembling extensions**: one extension per component (lists of original ids inside the
component), concatenated, is an extension of the whole framework — and conversely -/
theorem assemble_ext {g : G} {cs : List Comp} (hp : Parts g (cs.map Comp.memB)) (hgood : ∀ c ∈ cs, GoodComp g c)
    (hfin : ∃ n, ∀ a, g.live a = true → a < n) (σ : Sem) (rs : List (List Nat)) (hlen : rs.length = cs.length)
    (hin : ∀ (i : Nat) (c : Comp) (r : List Nat), cs[i]? = some c → rs[i]? = some r → ∀ a ∈ r, a ∈ c.ids) :
    g.Ext σ (ofList rs.flatten) ↔
      ∀ (i : Nat) (c : Comp) (r : List Nat), cs[i]? = some c → rs[i]? = some r → (g.restrict c.memB).Ext σ (ofList r) := by
  have hS : ∀ a, ofList rs.flatten a = true → g.live a = true := by
    intro a ha
    rw [ofList_mem, List.mem_flatten] at ha
    obtain ⟨r, hr, har⟩ := ha
    obtain ⟨i, hi, hri⟩ := List.mem_iff_getElem.1 hr
    have hi' : i < cs.length := by omega
    have hc : cs[i]? = some cs[i] := List.getElem?_eq_getElem hi'
    have hr' : rs[i]? = some r := by rw [List.getElem?_eq_getElem hi, hri]
    exact (hgood _ (List.getElem_mem hi')).live a (hin i _ r hc hr' a har)
  have hinter : ∀ (i : Nat) (c : Comp) (r : List Nat), cs[i]? = some c → rs[i]? = some r → inter (ofList rs.flatten) c.memB = ofList r := by
    intro i c r hc hr
    apply inter_ofList_flatten rs (cs.map Comp.memB) (by simp [hlen]) ?_ hp.disjoint i r c.memB hr
      (by simp [List.getElem?_map, hc])
    intro j l U hl hU a ha
    simp only [List.getElem?_map, Option.map_eq_some_iff] at hU
    obtain ⟨c', hc', rfl⟩ := hU
    simpa [Comp.memB] using hin j c' l hc' hl a ha
  rw [ext_parts hp hfin σ _ hS]
  constructor
  · intro h i c r hc hr
    have := h c.memB (List.mem_map_of_mem (List.mem_of_getElem? hc))
    rw [hinter i c r hc hr] at this
    exact this
  · intro h U hU
    obtain ⟨c, hc, rfl⟩ := List.mem_map.1 hU
    obtain ⟨i, hi, hci⟩ := List.mem_iff_getElem.1 hc
    have hc' : cs[i]? = some c := by rw [List.getElem?_eq_getElem hi, hci]
    have hi' : i < rs.length := by omega
    have hr' : rs[i]? = some rs[i] := List.getElem?_eq_getElem hi'
    rw [hinter i c _ hc' hr']
    exact h i c _ hc' hr'

/-- the grounded algorithm on a compact well-formed framework -/
theorem GrOK_of_wf (af : AF) (hwf : af.WF) : GrOK af := by
  obtain ⟨hgr, _, hlive⟩ := groundedV_spec af.view af.g (AF.view_ok af hwf)
  refine ⟨(AF.g_complete af _).1 hgr.1, ?_, ?_⟩
  · intro a ha
    have := hlive a ha
    simpa [AF.g] using this
  · intro T hT
    exact hgr.2 T ((AF.g_complete af T).2 hT)

/-! ## the loop over the components -/

theorem wp_needComp' {C : Prop} (hc : C) (oc : Option Comp) (w : World) (Q : Comp → World → Prop)
    (h : ∀ c, oc = some c → Q c w) : wp C (needComp' oc) w Q := by
  cases oc with
  | none => exact hc
  | some c => exact h c rfl

theorem wp_forEachComp (f : Comp → Prog (List Nat)) (Good : Comp → Prop) (P : Comp → List Nat → Prop)
    (hf : ∀ c w, w.Bounded → Good c → wp True (f c) w (fun r w' => w'.Bounded ∧ P c r)) :
    ∀ (comps : List (Option Comp)) (acc : List Nat) (w : World), w.Bounded → (∀ c, some c ∈ comps → Good c) →
      wp True (forEachComp f comps acc) w (fun res w' => w'.Bounded ∧ ∃ (cs : List Comp) (rs : List (List Nat)), comps = cs.map some ∧
        rs.length = cs.length ∧ res = acc ++ rs.flatten ∧
        ∀ (i : Nat) (c : Comp) (r : List Nat), cs[i]? = some c → rs[i]? = some r → P c r)
  | [], acc, w, hb, _ => ⟨hb, [], [], rfl, rfl, by simp, fun i c r h => by simp at h⟩
  | oc :: rest, acc, w, hb, hg => by
    unfold forEachComp
    simp only [Prog.bind_eq]
    rw [wp_bind]
    apply wp_needComp' trivial
    intro c hc
    subst hc
    rw [wp_bind]
    refine wp_mono _ _ _ _ ?_ (hf c w hb (hg c (by simp)))
    rintro r w1 ⟨hb1, hP⟩
    refine wp_mono _ _ _ _ ?_ (wp_forEachComp f Good P hf rest (acc ++ r) w1 hb1 (fun c' hc' => hg c' (by simp [hc'])))
    rintro res w2 ⟨hb2, cs, rs, hcs, hlen, hres, hall⟩
    refine ⟨hb2, c :: cs, r :: rs, by simp [hcs], by simp [hlen], by simp [hres], ?_⟩
    intro i c' r' hci hri
    cases i with
    | zero =>
      simp only [List.getElem?_cons_zero, Option.some.injEq] at hci hri
      subst hci; subst hri; exact hP
    | succ j =>
      simp only [List.getElem?_cons_succ] at hci hri
      exact hall j c' r' hci hri

end Crusta
