"""C12: the framework store against its Lean model and the abstract set model."""
import gen
from engine import Property, Finding


def rand_history(rng, length, universe):
    ops = []
    for _ in range(length):
        r = rng.random()
        a, b = rng.choice(universe), rng.choice(universe)
        if r < 0.30:
            ops.append("A%d" % a)
        elif r < 0.42:
            ops.append("R%d" % a)
        elif r < 0.80:
            if rng.random() < 0.12:
                b = a
            ops.append("+%d>%d" % (a, b))
        else:
            ops.append("-%d>%d" % (a, b))
    return ops


def guided_history(rng, length, universe):
    """state-aware histories: most operations are valid on the current framework (existing attacks are removed,
    removed labels re-added, one or two hub arguments collect many attacks), the rest is arbitrary"""
    ops = []
    args, atts = set(), []
    hubs = rng.sample(universe, min(len(universe), rng.randint(1, 2)))
    for _ in range(length):
        r = rng.random()
        if r < 0.22 or len(args) < 2:
            a = rng.choice(universe)
            ops.append("A%d" % a)
            args.add(a)
        elif r < 0.60:
            a = rng.choice(sorted(args))
            b = rng.choice([h for h in hubs if h in args] or sorted(args)) if rng.random() < 0.6 else rng.choice(sorted(args))
            ops.append("+%d>%d" % (a, b))
            if (a, b) not in atts:
                atts.append((a, b))
        elif r < 0.82 and atts:
            # remove an existing attack: bias towards the older ones of a hub (not the last inserted)
            cand = atts[:-1] if len(atts) > 1 and rng.random() < 0.7 else atts
            a, b = rng.choice(cand)
            ops.append("-%d>%d" % (a, b))
            atts.remove((a, b))
        elif r < 0.90 and args:
            a = rng.choice(sorted(args))
            ops.append("R%d" % a)
            args.discard(a)
            atts = [(x, y) for (x, y) in atts if x != a and y != a]
        else:
            ops += rand_history(rng, 1, universe)
            o = ops[-1]
            # keep the shadow state exact for the arbitrary operation too
            if o[0] == "A":
                args.add(int(o[1:]))
            elif o[0] == "R":
                a = int(o[1:])
                if a in args:
                    args.discard(a)
                    atts = [(x, y) for (x, y) in atts if x != a and y != a]
            else:
                a, b = (int(t) for t in o[1:].split(">"))
                if o[0] == "+" and a in args and b in args and (a, b) not in atts:
                    atts.append((a, b))
                if o[0] == "-" and (a, b) in atts:
                    atts.remove((a, b))
    return ops


def observers_disagree(st_line):
    """None, or what is inconsistent in one dump `st r=.. n=.. m=.. args=id:label,.. atts=a>b,.. from=l:x.y,.. to=l:x.y,..`"""
    kvs = dict(t.split("=", 1) for t in st_line.split(" ") if "=" in t)
    if not all(k in kvs for k in ("n", "m", "args", "atts", "from", "to")):
        return None
    args = [x for x in kvs["args"].split(",") if x]
    atts = [x for x in kvs["atts"].split(",") if x]
    if int(kvs["n"]) != len(args):
        return "n_arguments: %s but %d arguments are iterated" % (kvs["n"], len(args))
    if int(kvs["m"]) != len(atts):
        return "n_attacks: %s but iter_attacks yields %d" % (kvs["m"], len(atts))
    if len(set(atts)) != len(atts):
        return "duplicate: an attack is listed twice by iter_attacks"
    labels = set(a.split(":")[1] for a in args)
    ids = [a.split(":")[0] for a in args]
    if len(set(ids)) != len(ids):
        return "ids: two live arguments share an id"
    fr, to = set(), set()
    for row, acc, mk in ((kvs["from"], fr, lambda l, x: "%s>%s" % (l, x)), (kvs["to"], to, lambda l, x: "%s>%s" % (x, l))):
        for ent in [x for x in row.split(",") if x]:
            l, xs = ent.split(":")
            for x in [y for y in xs.split(".") if y]:
                if mk(l, x) in acc:
                    return "rows: an attack is listed twice in a from / to row"
                acc.add(mk(l, x))
    if fr != set(atts) or to != set(atts):
        return "rows: iter_attacks_from / iter_attacks_to do not list the attacks of iter_attacks"
    for a in atts:
        x, y = a.split(">")
        if x not in labels or y not in labels:
            return "dangling: an attack involves an argument that is not in the framework"
    return None


class C12(Property):
    id = "C12"
    families = ["store"]
    rule = "random update histories (length 5-60) over label universes of 2-8 labels (one in 25: 80-250 operations over 12-30 labels; one in 50: a hub with 17-40 outgoing attacks, incoming ones, then its self-attack, repeated attacks and removals), half of them state-aware (most operations valid on the current framework: existing attacks removed with a bias to older ones, hub arguments collecting many attacks, removed labels re-added), incl. self-attacks, re-insertion of removed labels, repeated removals, invalid operands; plus constructor routes (new_with_labels, new_with_argument_set after set-level removals); after every operation all observers incl. iteration orders are compared with the Lean model, and the model state with the abstract set model; non-trivial = history with at least one removal and one attack"
    assumptions = ["std::collections::HashMap modelled as a finite map", "labels instantiated at usize"]

    def cases(self, tier, rng):
        n = 9000 if tier == "quick" else 300000
        lines = []
        for i in range(n):
            u = rng.randint(2, 8)
            universe = rng.sample(range(1, 40), u)
            length = rng.randint(5, 60 if tier != "quick" else 40)
            ops = rand_history(rng, length, universe) if i % 2 == 0 else guided_history(rng, length, universe)
            if i % 25 == 7:
                # large histories (hub histories below): 12-30 labels, 80-250 operations, hubs with many attacks, many tombstones
                big = rng.sample(range(1, 200), rng.randint(12, 30))
                ops = guided_history(rng, rng.randint(80, 250), big)
            if i % 50 == 3:
                # a hub: one argument with 17-40 outgoing attacks and a few incoming ones, THEN its self-attack, repeated attacks,
                # and removals around it (degree-dependent code paths in the duplicate tests and the rows)
                k = rng.randint(18, 42)
                big = rng.sample(range(1, 200), k)
                hub, others = big[0], big[1:]
                ops = ["A%d" % l for l in big]
                ops += ["+%d>%d" % (x, hub) for x in rng.sample(others, rng.randint(1, 3))]
                ops += ["+%d>%d" % (hub, x) for x in others[:rng.randint(17, len(others))]]
                tail = ["+%d>%d" % (hub, hub), "+%d>%d" % (hub, rng.choice(others)), "+%d>%d" % (rng.choice(others), hub),
                        "-%d>%d" % (hub, rng.choice(others)), "+%d>%d" % (hub, hub), "R%d" % rng.choice(others), "-%d>%d" % (hub, hub),
                        "+%d>%d" % (rng.choice(others), rng.choice(others))]
                rng.shuffle(tail)
                ops += ["+%d>%d" % (hub, hub)] + tail if rng.random() < 0.5 else tail
            if i % 10 == 0:
                init = rng.sample(universe, rng.randint(0, u))
                if rng.random() < 0.3 and init:
                    init.append(init[0])
                lines.append("store x init=%s ops=%s" % (",".join(map(str, init)) or "-", ";".join(ops)))
            elif i % 10 == 1:
                init = rng.sample(universe, rng.randint(1, u))
                setops = []
                for _ in range(rng.randint(0, 3)):
                    if rng.random() < 0.6:
                        setops.append("R%d" % rng.choice(init))
                    else:
                        setops.append("A%d" % rng.choice(universe))
                lines.append("store x init=%s setinit=%s ops=%s" % (",".join(map(str, init)), ";".join(setops), ";".join(ops)))
            else:
                lines.append("store x ops=%s" % ";".join(ops))
        return lines

    def judge(self, case_line, impl, model):
        fs = []
        ist = [l for l in impl if l.startswith("st ") or l.startswith("panic")]
        mst = [l for l in model if l.startswith("st ") or l.startswith("panic")]
        verdict = [l for l in model if l.startswith("verdict ")]
        ipanic = [l for l in ist if l.startswith("panic")]
        route = "setinit" if "setinit=" in case_line else ("init" if "init=" in case_line else "ops")
        if ipanic:
            fs.append(Finding("input", case_line, "the store panicked: " + ipanic[0][6:100],
                              "store/%s · panic" % route))
            return fs
        if verdict and verdict[0] != "verdict ok":
            # the model (which mirrors the code) violates the set model; confirmed on the implementation below
            pass
        # the observers of the implementation must agree with each other after every operation (a clause of the property that
        # needs no reference: counts = iteration, rows from / to = the attack list, no attack listed twice)
        for k, l in enumerate(ist):
            bad = observers_disagree(l)
            if bad:
                fs.append(Finding("input", case_line, "after operation %d the observers of the framework disagree: %s" % (k, bad),
                                  "store/%s · observers disagree (%s)" % (route, bad.split(":")[0])))
                return fs
        # conformance of the implementation itself against the set model is established through the
        # model: impl == model (all observers) and model refines the set model.
        if ist != mst:
            k = 0
            while k < min(len(ist), len(mst)) and ist[k] == mst[k]:
                k += 1
            d = {"first_difference_at_op": k, "impl": ist[k] if k < len(ist) else None, "model": mst[k] if k < len(mst) else None}
            # which side contradicts the set model? the driver's verdict is about the model; re-judge the impl
            fs.append(Finding("correspondence", case_line, "store and Lean model differ at operation %d" % k,
                              "store/%s · model-differs" % route, d))
        elif verdict and verdict[0] != "verdict ok":
            fs.append(Finding("input", case_line, verdict[0][8:], "store/%s · %s" % (route, verdict[0][8:].replace("BAD ", ""))))
        return fs

    def same_class(self, f, cur):
        return f.signature == cur.signature

    def nontrivial(self, case_line):
        return ("R" in case_line or "-" in case_line.split("ops=")[-1]) and "+" in case_line

    def shrink_candidates(self, case_line):
        toks = case_line.split(" ")
        out = []
        for ti, t in enumerate(toks):
            if t.startswith("ops="):
                ops = [o for o in t[4:].split(";") if o]
                for i in range(len(ops)):
                    out.append(" ".join(toks[:ti] + ["ops=" + ";".join(ops[:i] + ops[i + 1:])] + toks[ti + 1:]))
        return out[:80]

    def stats(self, cases, impl, model):
        from collections import Counter
        kinds = Counter()
        res = Counter()
        for c in cases:
            for t in c.split(" "):
                if t.startswith("ops="):
                    for o in t[4:].split(";"):
                        if o:
                            kinds[o[0]] += 1
            for l in impl.get(c.split(" ")[1], []):
                if l.startswith("st r="):
                    res[l.split(" ")[1]] += 1
        return {"distribution": {"operations": dict(kinds), "results": dict(res)}}
