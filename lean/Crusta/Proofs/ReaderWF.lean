import Crusta.Model.Readers

/-! What the ICCMA'23 reader accepts is a well-formed framework (every attack between declared arguments). -/

namespace Crusta.IO
open Crusta

def IccmaFw.WFA (af : IccmaFw) : Prop := ∀ p ∈ af.atts, p.1 < af.n ∧ p.2 < af.n

def IccmaSt.WFA (st : IccmaSt) : Prop := ∀ af, st.af = some af → af.WFA

theorem iccmaLine_wfa (st st' : IccmaSt) (line : Option Str) (h : st.WFA) (hr : iccmaLine st line = .ok st') :
    st'.WFA := by
  unfold iccmaLine at hr
  split at hr
  · cases hr
  · rename_i l
    split at hr
    · cases hr; exact h
    · split at hr
      · cases hr; exact h
      · split at hr
        · cases hr
        · split at hr
          · rename_i haf
            simp only [] at hr
            split at hr
            · cases hr
              intro af haf'
              simp at haf'
              subst haf'
              intro p hp; simp at hp
            · cases hr
          · rename_i af haf
            simp only [] at hr
            split at hr
            · split at hr
              · rename_i a b _ _
                split at hr
                · rename_i ha
                  split at hr
                  · rename_i hb
                    cases hr
                    intro af' haf'
                    simp at haf'
                    subst haf'
                    intro p hp
                    simp only [List.mem_append, List.mem_singleton] at hp
                    rcases hp with hp | hp
                    · exact h af haf p hp
                    · subst hp
                      simp only [Bool.and_eq_true, decide_eq_true_eq] at ha hb
                      constructor <;> simp only <;> omega
                  · cases hr
                · cases hr
              · cases hr
              · cases hr
            · cases hr

theorem foldLines_wfa : ∀ (ls : List (Option Str)) (st st' : IccmaSt), st.WFA →
    foldLines iccmaLine st ls = .ok st' → st'.WFA
  | [], st, st', h, hr => by simp [foldLines] at hr; subst hr; exact h
  | l :: ls, st, st', h, hr => by
    simp only [foldLines] at hr
    split at hr
    · rename_i s' hs'
      exact foldLines_wfa ls s' st' (iccmaLine_wfa st s' l h hs') hr
    · cases hr

/-- every file the ICCMA'23 reader accepts denotes a well-formed framework -/
theorem readIccma_wfa (bs : List UInt8) (af : IccmaFw) (h : readIccma bs = .ok af) : af.WFA := by
  unfold readIccma at h
  split at h
  · cases h
  · rename_i st hst
    split at h
    · rename_i af' haf
      cases h
      exact foldLines_wfa _ _ st (by intro af h; cases h) hst af haf
    · cases h

end Crusta.IO

