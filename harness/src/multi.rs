//! Many queries of different solvers on one framework (C11): statuses and extensions only.
use crate::{fw, rec, solve, util};
use std::collections::HashMap;
use std::panic::{catch_unwind, AssertUnwindSafe};

/// `multi <id> fw=<spec> qs=SEM:TASK:label/SEM:TASK:-/...`  (default encoders, no certificates)
pub fn run(_id: &str, p: &HashMap<String, String>, out: &mut Vec<String>) {
    let af = fw::build(&p["fw"]);
    let small = af.n_arguments() <= 40;
    if small {
        out.push(fw::dump_dense(&af));
    }
    out.push(format!("size n={} m={}", af.n_arguments(), af.n_attacks()));
    for (i, q) in p["qs"].split('/').enumerate() {
        let f: Vec<&str> = q.split(':').collect();
        let (sem, task) = (f[0], f[1]);
        let args = util::parse_usize_list(f[2]);
        rec::reset(0, 200000, "cadical", false);
        let r = catch_unwind(AssertUnwindSafe(|| {
            let enc = if f.len() > 3 { f[3] } else { "def" };
            let mut solver = solve::make_solver(&af, sem, enc);
            solve::run_query_labels(&af, &mut solver, task, &args)
        }));
        match r {
            Ok(s) => out.push(format!("r {} {} {} {} {} calls={}", i, sem, task, f[2], s, rec::n_calls())),
            Err(e) => out.push(format!("r {} {} {} {} PANIC {}", i, sem, task, f[2], util::panic_msg(e))),
        }
    }
    out.push("end".to_string());
}
