import Crusta.Proofs.StaticTotalAux

/-!
# Total correctness of every entry point of every static solver

`static_entry_ok` (`StaticAll.lean`) is crash-tolerant: it speaks about the answers that are
*returned*.  Here: with a fuel of at least `fuelFor (1 + maxId)` no `crash` node of the model is
reached on sound replies — neither a modelled Rust panic (`unwrap` on `None`, "unreachable", "no
more extensions", "already computed", …) nor the exhaustion of the artificial fuel of the model's
loops — and the answer is right (`static_entry_total`, `static_never_panics`).

Route: for each entry program a *crash-freedom* statement `Safe p w` (`wp False` with the invariant
of the world as postcondition), combined with `static_entry_ok` through `wp_andT`.  Crash-freedom of
the searches on one component comes from the call-bound theorems (`SolveCalls*.lean`); the only crash
node whose exclusion needs the semantic postcondition of a search is the "unreachable" branch of
`prDScert` (a negative skeptical answer without counterexample).
-/

namespace Crusta
open Prog (mkSolver doReserve addClause addClauses getNVars doSolve)

/-- the program reaches no crash node from `w` on sound replies, and keeps the invariant of the world -/
abbrev Safe {α : Type} (p : Prog α) (w : World) : Prop := wp False p w (fun _ w' => w'.Bounded)

theorem NC.safe {α : Type} {p : Prog α} (h : NC p) {w : World} (hb : w.Bounded) : Safe p w :=
  safe_of_wp hb (h.wp w (fun _ _ => True) (fun _ _ => trivial))

theorem Safe.bind {α β : Type} {p : Prog α} {f : α → Prog β} {w : World} (hp : Safe p w)
    (hf : ∀ a w', w'.Bounded → Safe (f a) w') : Safe (p.bind f) w := by
  unfold Safe
  rw [wp_bind]
  exact wp_mono _ _ _ _ (fun a w' hb' => hf a w' hb') hp

/-- `bind` with an intermediate fact -/
theorem Safe.bind' {α β : Type} {p : Prog α} {f : α → Prog β} {w : World} {Q : α → World → Prop}
    (hp : wp False p w Q) (hf : ∀ a w', Q a w' → Safe (f a) w') : Safe (p.bind f) w := by
  unfold Safe
  rw [wp_bind]
  exact wp_mono _ _ _ _ (fun a w' hq => hf a w' hq) hp

theorem Safe.certOnly {cert : Bool} {p : Prog AccAns} {w : World} (hp : Safe p w) : Safe (certOnly cert p) w := by
  unfold Crusta.certOnly
  simp only [Prog.bind_eq]
  exact hp.bind (fun _ _ hb' => hb')

theorem Safe.ext {p : Prog (Option (List Nat))} {w : World} (hp : Safe p w) :
    Safe (do pure (Ans.ext (← p))) w := by
  simp only [Prog.bind_eq]
  exact hp.bind (fun _ _ hb' => hb')

/-! ## the fuel hypotheses of the searches on one component -/

section fuel
variable {v : FwView} {g : G} {c : Comp} {cfg : Cfg}

theorem fuel_lin (hv : v.Ok g) (hc : GoodComp g c) (hfuel : cfg.fuel ≥ fuelFor (1 + v.maxId.getD 0)) :
    cfg.fuel ≥ c.af.n + 3 :=
  Nat.le_trans (fuelFor_ge_lin (hc.n_le hv)) hfuel

theorem fuel_co (hv : v.Ok g) (hc : GoodComp g c) (hfuel : cfg.fuel ≥ fuelFor (1 + v.maxId.getD 0)) :
    cfg.fuel ≥ (extsCO c.af).length + 1 := by
  have h1 := fuelFor_ge_two_pow (hc.n_le hv)
  have h2 := length_extsCO_le c.af
  omega

theorem fuel_copr (hv : v.Ok g) (hc : GoodComp g c) (hfuel : cfg.fuel ≥ fuelFor (1 + v.maxId.getD 0)) :
    cfg.fuel ≥ (extsCO c.af).length + (extsPR c.af).length + 2 := by
  have h1 := fuelFor_ge_two_pow (hc.n_le hv)
  have h2 := length_extsCO_le c.af
  have h3 := length_extsPR_le c.af
  omega

theorem fuel_mul (hv : v.Ok g) (hc : GoodComp g c) (hfuel : cfg.fuel ≥ fuelFor (1 + v.maxId.getD 0))
    {fam : List (List Nat)} (hlen : fam.length ≤ 2 ^ c.af.n) :
    cfg.fuel ≥ (c.af.n + 2) * fam.length + 2 := by
  have h1 := fuelFor_ge_mul (hc.n_le hv)
  have h2 : (c.af.n + 2) * fam.length ≤ (c.af.n + 2) * 2 ^ c.af.n := Nat.mul_le_mul_left _ hlen
  omega

end fuel

/-! ## grounded solver -/

theorem gr_entry_safe (cfg : Cfg) (v : FwView) (e : Entry) (p : Prog Ans)
    (hp : entryProg .GR cfg v e = some p) (w : World) (hb : w.Bounded) : Safe p w := by
  cases e with
  | se =>
    simp only [entryProg, Option.some.injEq] at hp
    subst hp
    exact hb
  | dc cert args =>
    simp only [entryProg, Option.some.injEq] at hp
    subst hp
    refine Safe.certOnly (NC.safe ?_ hb)
    unfold grDC
    simp only
    split <;> trivial
  | ds cert args =>
    simp only [entryProg, Option.some.injEq] at hp
    subst hp
    refine Safe.certOnly (NC.safe ?_ hb)
    unfold grDS
    simp only
    split <;> trivial

/-! ## complete solver -/

theorem coDC_safe (cfg : Cfg) (v : FwView) (g : G) (hv : v.Ok g) (args : List Nat)
    (hargs : ∀ a ∈ args, g.live a = true) (w : World) (hb : w.Bounded) : Safe (coDC cfg v args) w := by
  obtain ⟨c, cc, hm, hgood, hin, _⟩ := mergedOf_some v g hv args hargs
  obtain ⟨pos, hpos⟩ := posAll_of_mem c args hin
  refine NC.safe ?_ hb
  unfold coDC
  simp only [Prog.bind_eq]
  rw [hm]
  refine NC.bind NC_mkSolver (fun s => ?_)
  show NC ((encodeInto cfg.enc c.af s false).bind _)
  refine NC.bind (NC_encodeInto _ _ _ _) (fun _ => NC.bind (NC_getNVars _) (fun nv => ?_))
  rw [ccArgs_eq c args pos hpos]
  exact fun _ => trivial

theorem coDCcert_safe (cfg : Cfg) (v : FwView) (g : G) (hv : v.Ok g) (args : List Nat)
    (hargs : ∀ a ∈ args, g.live a = true) (w : World) (hb : w.Bounded)
    (hfuel : cfg.fuel ≥ fuelFor (1 + v.maxId.getD 0)) : Safe (coDCcert cfg v args) w := by
  obtain ⟨c, cc, hm, hgood, hin, hI⟩ := mergedOf_some v g hv args hargs
  obtain ⟨pos, hpos⟩ := posAll_of_mem c args hin
  unfold coDCcert
  simp only [Prog.bind_eq]
  rw [hm]
  show Safe (mkSolver.bind _) w
  refine (NC_mkSolver.safe hb).bind (fun s w1 hb1 => ?_)
  refine ((NC_encodeInto _ _ _ _).safe hb1).bind (fun _ w2 hb2 => ?_)
  refine ((NC_getNVars _).safe hb2).bind (fun nv w3 hb3 => ?_)
  rw [ccArgs_eq c args pos hpos]
  show Safe ((addClause _ _).bind _) w3
  refine ((NC_addClause _ _).safe hb3).bind (fun _ w4 hb4 => ?_)
  refine ((NC_doSolve _ _).safe hb4).bind (fun r w5 hb5 => ?_)
  cases r with
  | none => exact hb5
  | some mdl =>
    show Safe ((otherCompsWith v _ cfg.fuel cc _).bind _) w5
    exact Safe.bind (safe_otherCompsWith v g hv (fun oc => pure (oc.back (groundedV oc.af.view)))
      (fun oc w' hb' _ => hb') cfg.fuel cc _ _ w5 hI
      (otherComps_fuel hI hfuel) hb5) (fun _ _ h => h)

theorem co_entry_safe (cfg : Cfg) (v : FwView) (g : G) (hv : v.Ok g) (e : Entry)
    (hargs : ∀ a, a ∈ e.argsList → g.live a = true) (p : Prog Ans)
    (hp : entryProg .CO cfg v e = some p) (w : World) (hb : w.Bounded)
    (hfuel : cfg.fuel ≥ fuelFor (1 + v.maxId.getD 0)) : Safe p w := by
  cases e with
  | se => simp [entryProg] at hp
  | ds cert args => simp [entryProg] at hp
  | dc cert args =>
    simp only [entryProg, Option.some.injEq] at hp
    subst hp
    refine Safe.certOnly ?_
    cases cert with
    | true => exact coDCcert_safe cfg v g hv args hargs w hb hfuel
    | false => exact coDC_safe cfg v g hv args hargs w hb

/-! ## stable solver -/

theorem NC_stSE_go : ∀ (cs : List Comp) (acc : List Nat), NC (stSE.go (cs.map some) acc)
  | [], _ => trivial
  | c :: rest, acc => by
    simp only [List.map_cons]
    unfold stSE.go
    simp only [Prog.bind_eq]
    show NC (mkSolver.bind _)
    refine NC.bind NC_mkSolver (fun s => NC.bind (NC_encodeInto _ _ _ _) (fun _ =>
      NC.bind (NC_doSolve _ _) (fun r => ?_)))
    cases r with
    | none => trivial
    | some mdl => exact NC_stSE_go rest _

theorem NC_stAcc_go (args : List Nat) (pol sou : Bool) : ∀ (cs : List Comp) (acc : List Nat) (found : Bool),
    NC (stAcc.go args pol sou (cs.map some) acc found)
  | [], _, _ => by
    simp only [List.map_nil]
    unfold stAcc.go
    split <;> trivial
  | c :: rest, acc, found => by
    simp only [List.map_cons]
    unfold stAcc.go
    simp only [Prog.bind_eq]
    show NC (mkSolver.bind _)
    refine NC.bind NC_mkSolver (fun s => NC.bind (NC_encodeInto _ _ _ _) (fun _ => ?_))
    split
    · split
      · refine NC.bind (NC_getNVars _) (fun nv => NC.bind (NC_addClause _ _) (fun _ =>
          NC.bind (NC_doSolve _ _) (fun r => NC.bind (NC_addClause _ _) (fun _ => ?_))))
        cases r with
        | some mdl => exact NC_stAcc_go args pol sou rest _ _
        | none =>
          refine NC.bind (NC_doSolve _ _) (fun r => ?_)
          cases r with
          | some mdl => exact NC_stAcc_go args pol sou rest _ _
          | none => trivial
      · refine NC.bind (NC_doSolve _ _) (fun r => ?_)
        cases r with
        | some mdl => exact NC_stAcc_go args pol sou rest _ _
        | none => trivial
    · refine NC.bind (NC_doSolve _ _) (fun r => ?_)
      cases r with
      | some mdl => exact NC_stAcc_go args pol sou rest _ _
      | none => trivial

theorem st_entry_safe (cfg : Cfg) (v : FwView) (g : G) (hv : v.Ok g) (e : Entry) (p : Prog Ans)
    (hp : entryProg .ST cfg v e = some p) (w : World) (hb : w.Bounded) : Safe p w := by
  obtain ⟨cs, hcs, _⟩ := allComps_list v g hv
  cases e with
  | se =>
    simp only [entryProg, Option.some.injEq] at hp
    subst hp
    refine Safe.ext (NC.safe ?_ hb)
    unfold stSE
    rw [hcs]
    exact NC_stSE_go cs []
  | dc cert args =>
    simp only [entryProg, Option.some.injEq] at hp
    subst hp
    refine Safe.certOnly (NC.safe ?_ hb)
    unfold stDC stAcc
    rw [hcs]
    exact NC_stAcc_go args true false cs [] false
  | ds cert args =>
    simp only [entryProg, Option.some.injEq] at hp
    subst hp
    refine Safe.certOnly (NC.safe ?_ hb)
    unfold stDS stAcc
    rw [hcs]
    exact NC_stAcc_go args false true cs [] false

/-! ## the two loops over the components, on a view -/

/-- the loop of the `se` entry points: `allComps` has no `none` entry -/
theorem se_safe {v : FwView} {g : G} (hv : v.Ok g) (f : Comp → Prog (List Nat))
    (hf : ∀ c w, w.Bounded → GoodComp g c → Safe (f c) w) (w : World) (hb : w.Bounded) :
    Safe (forEachComp f (allComps v) []) w := by
  obtain ⟨cs, hcs, hgood, _⟩ := allComps_list v g hv
  rw [hcs]
  exact safe_forEachComp f (GoodComp g) hf cs [] w hb hgood

/-- the loop that completes a certificate after the merged component -/
theorem others_safe {v : FwView} {g : G} (hv : v.Ok g) (f : Comp → Prog (List Nat))
    (hf : ∀ c w, w.Bounded → GoodComp g c → Safe (f c) w) {cc : CC} {marked : Nat → Prop}
    (hI : CCInv v g cc marked) {fuel : Nat} (hfuel : fuel ≥ fuelFor (1 + v.maxId.getD 0))
    (acc : List Nat) (w : World) (hb : w.Bounded) : Safe (otherCompsWith v f fuel cc acc) w :=
  safe_otherCompsWith v g hv f hf fuel cc marked acc w hI (otherComps_fuel hI hfuel) hb

/-! ## preferred solver -/

section pr
variable (cfg : Cfg) (hk : ∀ af T, cfg.enc.Base af T ↔ Complete af T) {v : FwView} {g : G} (hv : v.Ok g)
  (hfuel : cfg.fuel ≥ fuelFor (1 + v.maxId.getD 0))
include hk hv hfuel

theorem prMaximalOfComp_safe (c : Comp) (w : World) (hb : w.Bounded) (hc : GoodComp g c) :
    Safe (prMaximalOfComp cfg c) w :=
  safe_of_wp hb (prMaximalOfComp_calls cfg hk c (Comp.af_wf hc) (GrOK_of_wf _ (Comp.af_wf hc)) w hb
    (fuel_lin hv hc hfuel))

theorem prSE_safe (w : World) (hb : w.Bounded) : Safe (prSE cfg v) w := by
  unfold prSE
  simp only [Prog.bind_eq]
  exact Safe.bind (se_safe hv _ (prMaximalOfComp_safe cfg hk hv hfuel) w hb) (fun _ _ h => h)

theorem prDS_safe (args : List Nat) (hargs : ∀ a ∈ args, g.live a = true) (w : World) (hb : w.Bounded) :
    Safe (prDS cfg v args) w := by
  obtain ⟨c, cc, hm, hgood, hin, _⟩ := mergedOf_some v g hv args hargs
  unfold prDS
  simp only [Prog.bind_eq]
  rw [hm]
  show Safe ((prSkeptInCc cfg c args true).bind _) w
  refine Safe.bind (safe_of_wp hb (prSkeptInCc_calls cfg hk c args true (Comp.af_wf hgood)
    (GrOK_of_wf _ (Comp.af_wf hgood)) w hb (posAll_of_mem c args hin) (fuel_co hv hgood hfuel))) ?_
  rintro ⟨st, ce⟩ w' hb'
  exact hb'

/-- the "unreachable" branch of `prDScert` is unreachable: a negative answer of the search without
shortcut comes with a counterexample (`SkeptOK`) -/
theorem prDScert_safe (args : List Nat) (hargs : ∀ a ∈ args, g.live a = true) (w : World) (hb : w.Bounded) :
    Safe (prDScert cfg v args) w := by
  obtain ⟨c, cc, hm, hgood, hin, hI⟩ := mergedOf_some v g hv args hargs
  obtain ⟨pos, hpos⟩ := posAll_of_mem c args hin
  have hwf := Comp.af_wf hgood
  unfold prDScert
  simp only [Prog.bind_eq]
  rw [hm]
  show Safe ((prSkeptInCc cfg c args false).bind _) w
  refine Safe.bind' (wp_andT _ _ _ _ (prSkeptInCc_calls cfg hk c args false hwf (GrOK_of_wf _ hwf) w hb
    ⟨pos, hpos⟩ (fuel_co hv hgood hfuel)) (wp_prSkeptInCc cfg hk c args false hwf (GrOK_of_wf _ hwf) w hb)) ?_
  rintro ⟨st, ce⟩ w1 ⟨_, hb1, hres⟩
  obtain ⟨_, h2⟩ := hres pos hpos
  cases st with
  | true => exact hb1
  | false =>
    obtain ⟨e, he, _⟩ := (h2 rfl).2 rfl
    simp only at he
    subst he
    show Safe ((otherCompsWith v (prMaximalOfComp cfg) cfg.fuel cc (c.back e)).bind _) w1
    exact Safe.bind (others_safe hv _ (prMaximalOfComp_safe cfg hk hv hfuel) hI hfuel _ w1 hb1) (fun _ _ h => h)

theorem pr_entry_safe (e : Entry) (hargs : ∀ a, a ∈ e.argsList → g.live a = true) (p : Prog Ans)
    (hp : entryProg .PR cfg v e = some p) (w : World) (hb : w.Bounded) : Safe p w := by
  cases e with
  | se =>
    simp only [entryProg, Option.some.injEq] at hp
    subst hp
    exact Safe.ext (prSE_safe cfg hk hv hfuel w hb)
  | dc cert args => simp [entryProg] at hp
  | ds cert args =>
    simp only [entryProg, Option.some.injEq] at hp
    subst hp
    refine Safe.certOnly ?_
    cases cert with
    | true => exact prDScert_safe cfg hk hv hfuel args hargs w hb
    | false => exact prDS_safe cfg hk hv hfuel args hargs w hb

end pr

/-! ## ideal solver -/

section id
variable (cfg : Cfg) (hk : ∀ af T, cfg.enc.Base af T ↔ Complete af T) {v : FwView} {g : G} (hv : v.Ok g)
  (hfuel : cfg.fuel ≥ fuelFor (1 + v.maxId.getD 0))
include hk hv hfuel

theorem idOneForCc_safe (c : Comp) (w : World) (hb : w.Bounded) (hc : GoodComp g c) :
    Safe (idOneForCc cfg c) w :=
  safe_of_wp hb (idOneForCc_calls cfg hk c (Comp.af_wf hc) (GrOK_of_wf _ (Comp.af_wf hc)) w hb
    (fuel_copr hv hc hfuel))

theorem idOneBack_safe (c : Comp) (w : World) (hb : w.Bounded) (hc : GoodComp g c) :
    Safe (do let e ← idOneForCc cfg c; pure (c.back e)) w := by
  simp only [Prog.bind_eq]
  exact Safe.bind (idOneForCc_safe cfg hk hv hfuel c w hb hc) (fun _ _ h => h)

theorem idSEComp_safe (c : Comp) (w : World) (hb : w.Bounded) (hc : GoodComp g c) :
    Safe (do
      let s0 ← mkSolver
      encodeInto cfg.enc c.af s0 false
      let e ← idOneForCc cfg c
      pure (c.back e)) w := by
  simp only [Prog.bind_eq]
  refine (NC_mkSolver.safe hb).bind (fun s w1 hb1 => ((NC_encodeInto _ _ _ _).safe hb1).bind (fun _ w2 hb2 => ?_))
  exact Safe.bind (idOneForCc_safe cfg hk hv hfuel c w2 hb2 hc) (fun _ _ h => h)

theorem idSE_safe (w : World) (hb : w.Bounded) : Safe (idSE cfg v) w := by
  unfold idSE
  simp only [Prog.bind_eq]
  refine Safe.bind (se_safe hv _ ?_ w hb) (fun _ _ h => h)
  intro c w hb hc
  exact idSEComp_safe cfg hk hv hfuel c w hb hc

theorem idDC_safe (args : List Nat) (hargs : ∀ a ∈ args, g.live a = true) (w : World) (hb : w.Bounded) :
    Safe (idDC cfg v args) w := by
  obtain ⟨c, cc, hm, hgood, hin, _⟩ := mergedOf_some v g hv args hargs
  obtain ⟨pos, hpos⟩ := posAll_of_mem c args hin
  have hwf := Comp.af_wf hgood
  unfold idDC
  simp only [Prog.bind_eq]
  rw [hm]
  show Safe ((ccArgs c args).bind _) w
  rw [ccArgs_eq c args pos hpos]
  show Safe ((idCredForCc cfg c pos).bind _) w
  refine Safe.bind (safe_of_wp hb (idCredForCc_calls cfg hk c pos hwf (GrOK_of_wf _ hwf) w hb
    (fuel_copr hv hgood hfuel))) ?_
  rintro ⟨st, ce⟩ w' hb'
  exact hb'

theorem idDCcert_safe (args : List Nat) (hargs : ∀ a ∈ args, g.live a = true) (w : World) (hb : w.Bounded) :
    Safe (idDCcert cfg v args) w := by
  obtain ⟨c, cc, hm, hgood, hin, hI⟩ := mergedOf_some v g hv args hargs
  obtain ⟨pos, hpos⟩ := posAll_of_mem c args hin
  have hwf := Comp.af_wf hgood
  unfold idDCcert
  simp only [Prog.bind_eq]
  rw [hm]
  show Safe ((ccArgs c args).bind _) w
  rw [ccArgs_eq c args pos hpos]
  show Safe ((idCredForCc cfg c pos).bind _) w
  refine Safe.bind (safe_of_wp hb (idCredForCc_calls cfg hk c pos hwf (GrOK_of_wf _ hwf) w hb
    (fuel_copr hv hgood hfuel))) ?_
  rintro ⟨st, ce⟩ w1 hb1
  cases st <;> cases ce <;> try exact hb1
  rename_i e
  show Safe ((otherCompsWith v _ cfg.fuel cc (c.back e)).bind _) w1
  refine Safe.bind (others_safe hv _ ?_ hI hfuel _ w1 hb1) (fun _ _ h => h)
  intro oc w hb hc
  exact idOneBack_safe cfg hk hv hfuel oc w hb hc

/-- the "unreachable" branch of `idDScert` is unreachable: `idSE` returns `some` -/
theorem idDScert_safe (args : List Nat) (w : World) (hb : w.Bounded) : Safe (idDScert cfg v args) w := by
  unfold idDScert idSE
  simp only [Prog.bind_eq]
  unfold Safe
  rw [wp_bind, wp_bind]
  refine wp_mono _ _ _ _ ?_ (se_safe hv _ ?_ w hb)
  · intro e w' hb'
    show wp False (if args.any e.contains = true then _ else _) w' _
    split <;> exact hb'
  · intro c w hb hc
    exact idSEComp_safe cfg hk hv hfuel c w hb hc

theorem id_entry_safe (e : Entry) (hargs : ∀ a, a ∈ e.argsList → g.live a = true) (p : Prog Ans)
    (hp : entryProg .ID cfg v e = some p) (w : World) (hb : w.Bounded) : Safe p w := by
  cases e with
  | se =>
    simp only [entryProg, Option.some.injEq] at hp
    subst hp
    exact Safe.ext (idSE_safe cfg hk hv hfuel w hb)
  | dc cert args =>
    simp only [entryProg, Option.some.injEq] at hp
    subst hp
    refine Safe.certOnly ?_
    cases cert with
    | true => exact idDCcert_safe cfg hk hv hfuel args hargs w hb
    | false => exact idDC_safe cfg hk hv hfuel args hargs w hb
  | ds cert args =>
    simp only [entryProg, Option.some.injEq] at hp
    subst hp
    refine Safe.certOnly ?_
    cases cert with
    | true => exact idDScert_safe cfg hk hv hfuel args w hb
    | false => exact idDC_safe cfg hk hv hfuel args hargs w hb

end id

/-! ## semi-stable and stage solvers -/

section rg
variable (cfg : Cfg) (hk : RangeEnc cfg.enc) (fam : AF → List (List Nat))
  (hfam : ∀ af l, l ∈ fam af ↔ l ∈ subsets af.n ∧ cfg.enc.Base af (ofList l))
  (hlen : ∀ af, (fam af).length ≤ 2 ^ af.n) {v : FwView} {g : G} (hv : v.Ok g)
  (hfuel : cfg.fuel ≥ fuelFor (1 + v.maxId.getD 0))
include hk hv hfuel

theorem rgMaximalOfComp_safe (c : Comp) (w : World) (hb : w.Bounded) (hc : GoodComp g c) :
    Safe (rgMaximalOfComp cfg c) w :=
  safe_of_wp hb (rgMaximalOfComp_calls cfg hk c (Comp.af_wf hc) (GrOK_of_wf _ (Comp.af_wf hc)) w hb
    (fuel_lin hv hc hfuel))

theorem rgSE_safe (w : World) (hb : w.Bounded) : Safe (rgSE cfg v) w := by
  unfold rgSE
  simp only [Prog.bind_eq]
  exact Safe.bind (se_safe hv _ (rgMaximalOfComp_safe cfg hk hv hfuel) w hb) (fun _ _ h => h)

include hfam hlen

theorem rgAccInCc_safe (c : Comp) (hc : GoodComp g c) (args : List Nat) (hin : ∀ a ∈ args, a ∈ c.ids)
    (cred : Bool) (w : World) (hb : w.Bounded) : Safe (rgAccInCc cfg c args cred) w :=
  safe_of_wp hb (rgAccInCc_calls cfg hk c args cred (Comp.af_wf hc) (GrOK_of_wf _ (Comp.af_wf hc)) w hb
    (posAll_of_mem c args hin) (fam c.af) (hfam c.af) (fuel_mul hv hc hfuel (hlen c.af)))

theorem rgAcc_safe (args : List Nat) (hargs : ∀ a ∈ args, g.live a = true) (cred : Bool) (w : World)
    (hb : w.Bounded) : Safe (rgAcc cfg v args cred) w := by
  obtain ⟨c, cc, hm, hgood, hin, _⟩ := mergedOf_some v g hv args hargs
  unfold rgAcc
  simp only [Prog.bind_eq]
  rw [hm]
  show Safe ((rgAccInCc cfg c args cred).bind _) w
  refine Safe.bind (rgAccInCc_safe cfg hk fam hfam hlen hv hfuel c hgood args hin cred w hb) ?_
  rintro ⟨st, ce⟩ w' hb'
  exact hb'

theorem rgAccCert_safe (args : List Nat) (hargs : ∀ a ∈ args, g.live a = true) (cred : Bool) (w : World)
    (hb : w.Bounded) : Safe (rgAccCert cfg v args cred) w := by
  obtain ⟨c, cc, hm, hgood, hin, hI⟩ := mergedOf_some v g hv args hargs
  unfold rgAccCert
  simp only [Prog.bind_eq]
  rw [hm]
  show Safe ((rgAccInCc cfg c args cred).bind _) w
  refine Safe.bind (rgAccInCc_safe cfg hk fam hfam hlen hv hfuel c hgood args hin cred w hb) ?_
  rintro ⟨st, ce⟩ w1 hb1
  cases ce with
  | none => exact hb1
  | some e =>
    show Safe ((otherCompsWith v (rgMaximalOfComp cfg) cfg.fuel cc (c.back e)).bind _) w1
    exact Safe.bind (others_safe hv _ (rgMaximalOfComp_safe cfg hk hv hfuel) hI hfuel _ w1 hb1) (fun _ _ h => h)

theorem rg_entry_safe (e : Entry) (hargs : ∀ a, a ∈ e.argsList → g.live a = true) (p : Prog Ans)
    (hp : entryProg .SST cfg v e = some p) (w : World) (hb : w.Bounded) : Safe p w := by
  cases e with
  | se =>
    simp only [entryProg, Option.some.injEq] at hp
    subst hp
    exact Safe.ext (rgSE_safe cfg hk hv hfuel w hb)
  | dc cert args =>
    simp only [entryProg, Option.some.injEq] at hp
    subst hp
    refine Safe.certOnly ?_
    cases cert with
    | true => exact rgAccCert_safe cfg hk fam hfam hlen hv hfuel args hargs true w hb
    | false => exact rgAcc_safe cfg hk fam hfam hlen hv hfuel args hargs true w hb
  | ds cert args =>
    simp only [entryProg, Option.some.injEq] at hp
    subst hp
    refine Safe.certOnly ?_
    cases cert with
    | true => exact rgAccCert_safe cfg hk fam hfam hlen hv hfuel args hargs false w hb
    | false => exact rgAcc_safe cfg hk fam hfam hlen hv hfuel args hargs false w hb

end rg

theorem sst_entry_safe (cfg : Cfg) (hkS : cfg.enc = .auxCO ∨ cfg.enc = .expCO ∨ cfg.enc = .hyb) {v : FwView} {g : G}
    (hv : v.Ok g) (hfuel : cfg.fuel ≥ fuelFor (1 + v.maxId.getD 0)) (e : Entry)
    (hargs : ∀ a, a ∈ e.argsList → g.live a = true) (p : Prog Ans)
    (hp : entryProg .SST cfg v e = some p) (w : World) (hb : w.Bounded) : Safe p w :=
  rg_entry_safe cfg (rangeEnc_of_co hkS) extsCO
    (fun af l => by rw [mem_extsCO, base_complete_of cfg.enc hkS]) length_extsCO_le hv hfuel e hargs p hp w hb

theorem stg_entry_safe (cfg : Cfg) (hkG : cfg.enc = .auxCF ∨ cfg.enc = .expCF) {v : FwView} {g : G}
    (hv : v.Ok g) (hfuel : cfg.fuel ≥ fuelFor (1 + v.maxId.getD 0)) (e : Entry)
    (hargs : ∀ a, a ∈ e.argsList → g.live a = true) (p : Prog Ans)
    (hp : entryProg .STG cfg v e = some p) (w : World) (hb : w.Bounded) : Safe p w :=
  rg_entry_safe cfg (rangeEnc_of_cf hkG) extsCF
    (fun af l => by
      rw [mem_extsCF]
      rcases hkG with h | h <;> rw [h] <;> rfl) length_extsCF_le hv hfuel e hargs p
    (by rw [← entryProg_stg_eq_sst]; exact hp) w hb

/-! ## all static solvers -/

/-- **no entry point of any static solver reaches a crash node** on sound replies, given the fuel -/
theorem static_entry_safe (sk : SolverKind) (cfg : Cfg) (hcfg : CfgOK sk cfg) (v : FwView) (g : G) (hv : v.Ok g)
    (e : Entry) (hargs : ∀ a, a ∈ e.argsList → g.live a = true)
    (p : Prog Ans) (hp : entryProg sk cfg v e = some p) (w : World) (hb : w.Bounded)
    (hfuel : cfg.fuel ≥ fuelFor (1 + v.maxId.getD 0)) : Safe p w := by
  cases sk with
  | GR => exact gr_entry_safe cfg v e p hp w hb
  | CO => exact co_entry_safe cfg v g hv e hargs p hp w hb hfuel
  | PR => exact pr_entry_safe cfg hcfg hv hfuel e hargs p hp w hb
  | ST => exact st_entry_safe cfg v g hv e p hp w hb
  | SST => exact sst_entry_safe cfg hcfg hv hfuel e hargs p hp w hb
  | STG => exact stg_entry_safe cfg hcfg hv hfuel e hargs p hp w hb
  | ID => exact id_entry_safe cfg hcfg hv hfuel e hargs p hp w hb

/-- **total correctness of every entry point of every static solver**: under the hypotheses of
`static_entry_ok` and with a fuel of at least `fuelFor (1 + maxId)`, the program reaches no crash
node on sound replies (no modelled panic, no fuel exhaustion) and the answer is what the semantics
dictate.  No side condition on the query beyond the liveness of the queried arguments. -/
theorem static_entry_total (sk : SolverKind) (cfg : Cfg) (hcfg : CfgOK sk cfg) (v : FwView) (g : G) (hv : v.Ok g)
    (e : Entry) (hargs : ∀ a, a ∈ e.argsList → g.live a = true)
    (p : Prog Ans) (hp : entryProg sk cfg v e = some p) (w : World) (hb : w.Bounded)
    (hfuel : cfg.fuel ≥ fuelFor (1 + v.maxId.getD 0)) :
    wp False p w (fun ans _ => EntryOK sk.sem g e ans) :=
  wp_mono _ _ _ _ (fun _ _ h => h.2)
    (wp_andT p w _ _ (static_entry_safe sk cfg hcfg v g hv e hargs p hp w hb hfuel)
      (static_entry_ok sk cfg hcfg v g hv e hargs p hp w hb))

/-- **the static solvers never panic** (and the model's fuel is never exhausted): no run on sound
replies ends in a crash node -/
theorem static_never_panics (sk : SolverKind) (cfg : Cfg) (hcfg : CfgOK sk cfg) (v : FwView) (g : G) (hv : v.Ok g)
    (e : Entry) (hargs : ∀ a, a ∈ e.argsList → g.live a = true)
    (p : Prog Ans) (hp : entryProg sk cfg v e = some p) (w : World) (hb : w.Bounded)
    (hfuel : cfg.fuel ≥ fuelFor (1 + v.maxId.getD 0)) (rs : List Reply) (hs : RunSound p rs w) :
    ∀ msg w', interp p rs w ≠ (.crashed msg, w') :=
  wp_no_crash p rs w _ (static_entry_total sk cfg hcfg v g hv e hargs p hp w hb hfuel) hs

/-- every run on sound replies either returns a conforming answer, or aborts on an `unknown`
reply, or is starved (the reply list was too short): it never crashes -/
theorem static_run_total (sk : SolverKind) (cfg : Cfg) (hcfg : CfgOK sk cfg) (v : FwView) (g : G) (hv : v.Ok g)
    (e : Entry) (hargs : ∀ a, a ∈ e.argsList → g.live a = true)
    (p : Prog Ans) (hp : entryProg sk cfg v e = some p) (w : World) (hb : w.Bounded)
    (hfuel : cfg.fuel ≥ fuelFor (1 + v.maxId.getD 0)) (rs : List Reply) (hs : RunSound p rs w) :
    (∃ ans w', interp p rs w = (.done ans, w') ∧ EntryOK sk.sem g e ans) ∨
    (∃ w', interp p rs w = (.abort, w')) ∨ (∃ w', interp p rs w = (.starved, w')) := by
  have hnc := static_never_panics sk cfg hcfg v g hv e hargs p hp w hb hfuel rs hs
  have htot := static_entry_total sk cfg hcfg v g hv e hargs p hp w hb hfuel
  cases hi : interp p rs w with
  | mk oc w' =>
    cases oc with
    | done ans => exact Or.inl ⟨ans, w', rfl, wp_sound p rs w w' ans _ htot hs hi⟩
    | abort => exact Or.inr (Or.inl ⟨w', rfl⟩)
    | starved => exact Or.inr (Or.inr ⟨w', rfl⟩)
    | crashed msg => exact absurd hi (hnc msg w')

end Crusta
