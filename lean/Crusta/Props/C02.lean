import Crusta.Proofs.Oracle
import Crusta.Proofs.StaticAll

/-! # C02 — credulous acceptance (property theorems) -/

namespace Crusta.C02
open Crusta

/-- The judge accepts a credulous status iff it is YES exactly when some extension contains the
argument. -/
theorem dc_judge_exact (af : AF) (hwf : af.WF) (σ : Sem) (a : Nat) (st : Bool) :
    checkAnswer af ⟨σ, .DC, false, [a]⟩ (.acc st none) = .ok () ↔
      (st = true ↔ ∃ S, σ.Ext af S ∧ S a = true) := by
  rw [checkAnswer_iff af hwf]
  simp [Conforms, CertConforms]

/-- NO for every argument when there is no extension (the ST case) -/
theorem no_extension_no_credulous (af : AF) (hwf : af.WF) (σ : Sem) (a : Nat)
    (h : ¬ ∃ S, σ.Ext af S) : σ.credB af [a] = false := by
  cases hc : σ.credB af [a]
  · rfl
  · obtain ⟨S, hS, _⟩ := (credB_iff σ af hwf [a]).1 hc
    exact absurd ⟨S, hS⟩ h


/-- **C02 on the solver programs**: the status of a credulous query (with or without certificate)
is YES exactly when some extension of `g` contains one of the queried arguments — for every
solver type offering the query, every sound run -/
theorem credulous_status_exact (sk : SolverKind) (cfg : Cfg) (hcfg : CfgOK sk cfg) (v : FwView) (g : G) (hv : v.Ok g)
    (cert : Bool) (args : List Nat) (hargs : ∀ a ∈ args, g.live a = true)
    (p : Prog Ans) (hp : entryProg sk cfg v (.dc cert args) = some p) (w : World) (hb : w.Bounded)
    (rs : List Reply) (hs : RunSound p rs w) (a : AccAns) (cv : Bool) (w' : World)
    (hrun : interp p rs w = (.done (.acc a cv), w')) :
    (a.status = true ↔ ∃ S, sk.sem.GExt g S ∧ HitsL args S) := by
  have h := static_answers_conform sk cfg hcfg v g hv (.dc cert args) (fun x hx => hargs x hx) p hp w hb rs hs _ w' hrun
  obtain ⟨_, hdc, _⟩ := h
  constructor
  · intro hst; exact (hdc.1 hst).1
  · intro hex
    cases hst : a.status with
    | true => rfl
    | false => exact absurd hex (hdc.2 hst).1

end Crusta.C02
