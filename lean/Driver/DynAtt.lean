import Driver.Trace
import Crusta.Model.DynAtt

/-! Driver side of the traces of the two *assumptions-on-attacks* dynamic solvers (`co_att`,
`st_att`): the `DynAtt` model is run on the same update / query sequence; the replies recorded
from the implementation feed the model's `solve` nodes. -/

namespace Driver
open Crusta Crusta.Dyn Crusta.DynAtt

def attSemOfKind (k : String) : Option DSem :=
  match k with
  | "co_att" => some .CO | "st_att" => some .ST | _ => none

/-- `factor=` as a fraction: `"2"` ↦ 2/1, `"1.5"` ↦ 15/10, `"3.7"` ↦ 37/10 -/
def factorOf (s : String) : Nat × Nat :=
  match s.splitOn "." with
  | [a] => (natOf a, 1)
  | [a, b] => (natOf a * 10 ^ b.length + natOf b, 10 ^ b.length)
  | _ => (2, 1)

def renderIdsA (st : Store) (denseLabels : List Nat) (ids : List Nat) : String :=
  if ids.isEmpty then "[]" else
  ",".intercalate (ids.map (fun i => match st.labelOf i with
    | none => "?"
    | some l => match posOf denseLabels l with | some p => toString p | none => s!"?{l}"))

/-- model output for a `dyn` case of kind `co_att` / `st_att` with `trace=1` -/
def runDynAttTrace (sem : DSem) (factor : Nat × Nat) (lines : List String) : List String := Id.run do
  let mut d := ADState.init sem factor.1 factor.2
  let mut world : World := ({} : World).onNew
  let mut out : List String := ["T S 0 new"]
  let mut rest := lines
  let mut stopped := false
  while !rest.isEmpty && !stopped do
    let l := rest.headD ""
    rest := rest.drop 1
    match toks l with
    | "U" :: tok :: _ =>
      match opOf tok with
      | none => out := s!"mU {tok} unparsable" :: out
      | some op =>
        let (d', r) := d.update op
        d := d'
        out := s!"mU {tok} {match r with | .ok => "ok" | .err => "err" | .panic => "panic"}" :: out
        if r == .panic then stopped := true
    | ["Q", what, lab] =>
      let chunk := rest.takeWhile (fun x => !(x.startsWith "ans " || x.startsWith "panic"))
      rest := rest.drop chunk.length
      let labels := match chunk.find? (fun x => x.startsWith "fw ") with
        | some f => natList (kvGetD (toks f) "labels" "-")
        | none => []
      let replies := chunk.filterMap parseReply
      let q : DQuery := if what.startsWith "dc" then .cred else .skep
      let cert := what.endsWith "1"
      let w0 : World := { world with trace := [], calls := 0 }
      let (oc, w) := interp (DynAtt.query d q (natOf lab)) replies w0
      world := w
      out := s!"mQ {what} {lab}" :: out
      for e in w.trace.reverse do
        out := s!"T {renderEv e}" :: out
      match oc with
      | .done (d', a) =>
        d := d'
        let c := if !cert then "-" else match a.cert with | none => "NONE" | some e => renderIdsA d'.af labels e
        out := s!"mans ACC status={if a.status then "YES" else "NO"} cert={c}" :: out
      | .abort => out := "mans ABORT" :: out; stopped := true
      | .crashed m => out := s!"mans CRASH {m}" :: out; stopped := true
      | .starved => out := "mans STARVED" :: out; stopped := true
    | _ => pure ()
  if stopped then out := "mstop" :: out
  return out.reverse

end Driver
