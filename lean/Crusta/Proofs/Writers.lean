import Crusta.Model.Readers

/-!
# Written extensions parse back (C14), at the level of code points
-/

namespace Crusta.IO

/-- a label that contains no comma / closing bracket / blank: every Aspartix identifier and every
decimal number -/
def NoSep (l : Str) : Prop := l ≠ [] ∧ ∀ c ∈ l, c ≠ 44 ∧ isWs c = false

theorem splitOnComma_go_append (x : Str) (hx : ∀ c ∈ x, c ≠ 44) (rest cur : Str) (acc : List Str) :
    splitOnComma.go (x ++ rest) cur acc = splitOnComma.go rest (x.reverse ++ cur) acc := by
  induction x generalizing cur with
  | nil => simp
  | cons c cs ih =>
    have hc : (c == 44) = false := by
      have := hx c (List.mem_cons_self ..); simpa using this
    simp only [List.cons_append, splitOnComma.go, hc]
    rw [ih (fun d hd => hx d (List.mem_cons_of_mem _ hd))]
    simp

theorem splitOnComma_intercalate (ext : List Str) (hne : ext ≠ []) (h : ∀ l ∈ ext, ∀ c ∈ l, c ≠ 44) :
    ∀ acc, splitOnComma.go (intercalate [44] ext) [] acc = acc.reverse ++ ext := by
  induction ext with
  | nil => exact absurd rfl hne
  | cons x xs ih =>
    intro acc
    cases xs with
    | nil =>
      simp only [intercalate]
      have := splitOnComma_go_append x (h x (List.mem_cons_self ..)) [] [] acc
      simp only [List.append_nil] at this
      rw [this]; simp [splitOnComma.go]
    | cons y ys =>
      simp only [intercalate, List.append_assoc]
      rw [splitOnComma_go_append x (h x (List.mem_cons_self ..))]
      simp only [List.append_nil, List.cons_append, List.nil_append, splitOnComma.go, beq_self_eq_true, if_true]
      rw [ih (by simp) (fun l hl => h l (List.mem_cons_of_mem _ hl))]
      simp

/-- **Aspartix extension line**: `[l1,…,lk]\n` reads back to exactly the labels (empty list included) -/
theorem parseExtApx_write (ext : List Str) (h : ∀ l ∈ ext, ∀ c ∈ l, c ≠ 44) (hne : ∀ l ∈ ext, l ≠ []) :
    parseExtApx (writeExtApx ext) = some ext := by
  unfold writeExtApx parseExtApx
  have hrev : ([91] ++ intercalate [44] ext ++ [93, 10]) = 91 :: (intercalate [44] ext ++ [93, 10]) := by simp
  rw [hrev]
  simp only
  have hr : (intercalate [44] ext ++ [93, 10]).reverse = 10 :: 93 :: (intercalate [44] ext).reverse := by simp
  rw [hr]
  simp only [List.reverse_reverse]
  cases ext with
  | nil => simp [intercalate]
  | cons x xs =>
    have hnotempty : (intercalate [44] (x :: xs)).isEmpty = false := by
      have hx := hne x (List.mem_cons_self ..)
      cases xs with
      | nil => simpa [intercalate] using hx
      | cons y ys => simp [intercalate]
    simp only [hnotempty]
    unfold splitOnComma
    rw [splitOnComma_intercalate (x :: xs) (by simp) h]
    simp

theorem splitWs_go_word (x : Str) (hx : ∀ c ∈ x, isWs c = false) (rest cur : Str) (acc : List Str) :
    splitWs.go (x ++ rest) cur acc = splitWs.go rest (x.reverse ++ cur) acc := by
  induction x generalizing cur with
  | nil => simp
  | cons c cs ih =>
    have hc := hx c (List.mem_cons_self ..)
    simp only [List.cons_append, splitWs.go, hc]
    rw [ih (fun d hd => hx d (List.mem_cons_of_mem _ hd))]
    simp

theorem isWs_space : isWs 32 = true := by
  unfold isWs inRanges
  simp only [List.any_eq_true]
  have : (32, 32) ∈ Gen.whiteSpaceRanges ∨ ∃ r ∈ Gen.whiteSpaceRanges, (decide (r.1 ≤ 32) && decide (32 ≤ r.2)) = true := by
    right; decide
  rcases this with h | h
  · exact ⟨(32, 32), h, by simp⟩
  · exact h

theorem splitWs_words (ext : List Str) (h : ∀ l ∈ ext, l ≠ [] ∧ ∀ c ∈ l, isWs c = false) :
    ∀ acc, splitWs.go (ext.flatMap (fun l => 32 :: l)) [] acc = acc.reverse ++ ext := by
  induction ext with
  | nil => intro acc; simp [splitWs.go]
  | cons x xs ih =>
    intro acc
    obtain ⟨hne, hx⟩ := h x (List.mem_cons_self ..)
    simp only [List.flatMap_cons, List.cons_append, splitWs.go, isWs_space, if_true, List.isEmpty_nil]
    rw [splitWs_go_word x hx]
    simp only [List.append_nil]
    -- after the word: either end of input or the next separator
    cases xs with
    | nil =>
      simp only [List.flatMap_nil, splitWs.go]
      have : x.reverse.isEmpty = false := by simp [hne]
      simp [this]
    | cons y ys =>
      have hrest := ih (fun l hl => h l (List.mem_cons_of_mem _ hl))
      simp only [List.flatMap_cons, List.cons_append, splitWs.go, isWs_space, if_true] at hrest ⊢
      have hxe : x.reverse.isEmpty = false := by simp [hne]
      simp only [hxe]
      have := hrest (x.reverse.reverse :: acc)
      simp only [List.isEmpty_nil, if_true] at this
      simp only [Bool.false_eq_true, if_false]
      rw [this]; simp

/-- **ICCMA extension line**: `w l1 … lk\n` reads back to exactly the labels (empty list included) -/
theorem parseExtIccma_write (ext : List Str) (h : ∀ l ∈ ext, l ≠ [] ∧ ∀ c ∈ l, isWs c = false) :
    parseExtIccma (writeExtIccma ext) = some ext := by
  unfold writeExtIccma parseExtIccma
  have e : ([119] ++ ext.flatMap (fun l => 32 :: l) ++ [10]) = 119 :: (ext.flatMap (fun l => 32 :: l) ++ [10]) := by simp
  rw [e]
  simp only
  have hlast : (ext.flatMap (fun l => 32 :: l) ++ [10]).getLast? = some 10 := by simp
  rw [hlast]
  simp only [List.dropLast_concat]
  unfold splitWs
  rw [splitWs_words ext h]; simp

end Crusta.IO
