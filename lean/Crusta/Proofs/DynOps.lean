import Crusta.Proofs.DynInv
import Crusta.Proofs.DynStore

/-!
# The encoder operations preserve the invariant

Accessor lemmas for the table updates, `wp` rules for the small programs, then one preservation
lemma per encoder operation.
-/

namespace Crusta.Dyn
open Prog (addClause addClauses getNVars doSolve)

/-! ## `wp` rules for the primitives -/

theorem wp_addClause {C : Prop} (s : Nat) (c : Clause) (w : World) (Q : Unit → World → Prop) :
    wp C (addClause s c) w Q ↔ Q () (w.onClause s c) := Iff.rfl

def addAll (s : Nat) (w : World) (cs : Cnf) : World := cs.foldl (fun w c => w.onClause s c) w

theorem wp_addClauses {C : Prop} (s : Nat) : ∀ (cs : Cnf) (w : World) (Q : Unit → World → Prop),
    wp C (addClauses s cs) w Q ↔ Q () (addAll s w cs)
  | [], w, Q => Iff.rfl
  | c :: cs, w, Q => by
    simp only [Prog.addClauses, wp, addAll, List.foldl_cons]
    exact wp_addClauses s cs (w.onClause s c) Q

theorem db_addAll (s : Nat) : ∀ (cs : Cnf) (w : World), (addAll s w cs).db s = cs.reverse ++ w.db s
  | [], w => by simp [addAll]
  | c :: cs, w => by
    simp only [addAll, List.foldl_cons]
    have := db_addAll s cs (w.onClause s c)
    simp only [addAll] at this
    rw [this]; simp

theorem wp_newSolverVar {C : Prop} (e : Enc) (t : VarType) (w : World) (Q : Nat × Enc → World → Prop) :
    wp C (newSolverVar e t) w Q ↔ Q (allocVar e t (w.nVarsOf 0)) (w.onNVars 0) := Iff.rfl

theorem wp_foldProg {α β : Type} {C : Prop} (f : β → α → Prog β) (I : List α → β → World → Prop) :
    ∀ (l : List α) (b : β) (w : World), I l b w →
      (∀ a rest b w, I (a :: rest) b w → wp C (f b a) w (fun b' w' => I rest b' w')) →
      wp C (foldProg f l b) w (fun b' w' => I [] b' w')
  | [], b, w, h0, _ => h0
  | a :: rest, b, w, h0, step => by
    show wp C ((f b a).bind (fun b' => foldProg f rest b')) w _
    rw [wp_bind]
    refine wp_mono _ _ _ _ ?_ (step a rest b w h0)
    intro b' w' h'
    exact wp_foldProg f I rest b' w' h' step

/-! ## solver 0 exists and its clause variables are counted by `n_vars` -/

/-- the shared solver exists and the world is bounded: then every variable of the database of
solver 0 is at most its `n_vars`, so that a freshly allocated variable occurs nowhere -/
def W0 (w : World) : Prop := 0 < w.solvers.length ∧ w.Bounded

theorem W0.db_le {w : World} (h : W0 w) : ∀ c ∈ w.db 0, ∀ l ∈ c, l.var ≤ w.nVarsOf 0 := h.2 0 h.1

theorem W0.occurs_le {w : World} (h : W0 w) {v : Nat} (ho : Occurs (w.db 0) v) : v ≤ w.nVarsOf 0 := by
  obtain ⟨c, hc, l, hl, rfl⟩ := ho
  exact h.db_le c hc l hl

theorem W0_onClause {w : World} (h : W0 w) (s : Nat) (c : Clause) : W0 (w.onClause s c) :=
  ⟨by simpa [World.onClause, World.upd] using h.1, Bounded_onClause h.2 s c⟩
theorem W0_onNVars {w : World} (h : W0 w) (s : Nat) : W0 (w.onNVars s) := ⟨h.1, Bounded_onNVars h.2 s⟩
theorem W0_onSolve {w : World} (h : W0 w) (s : Nat) (a : List Lit) (r : Reply) : W0 ((w.onSolve s a).onReply s r) :=
  ⟨by simpa [World.onSolve, World.onReply, World.upd] using h.1, Bounded_onReply (Bounded_onSolve h.2 s a) s r⟩

/-- `W0` is an invariant of every program: it can be added to any postcondition -/
theorem wp_W0 {α : Type} {C : Prop} (p : Prog α) : ∀ (w : World) (Q : α → World → Prop),
    W0 w → wp C p w Q → wp C p w (fun a w' => W0 w' ∧ Q a w') := by
  induction p with
  | pure a0 => intro w Q hb h; exact ⟨hb, h⟩
  | crash m => intro w Q _ h; exact h
  | newSolver k ih =>
    intro w Q hb h
    exact ih _ _ Q ⟨by simp [World.onNew], Bounded_onNew hb.2⟩ h
  | reserve s n k ih =>
    intro w Q hb h
    exact ih _ Q ⟨by simpa [World.onReserve, World.upd] using hb.1, Bounded_onReserve hb.2 s n⟩ h
  | clause s c k ih => intro w Q hb h; exact ih _ Q (W0_onClause hb s c) h
  | nVars s k ih => intro w Q hb h; exact ih _ _ Q (W0_onNVars hb s) h
  | solve s as k ih =>
    intro w Q hb h
    exact ⟨fun m hm => ih _ _ Q (W0_onSolve hb s as _) (h.1 m hm),
           fun hu => ih _ _ Q (W0_onSolve hb s as _) (h.2 hu)⟩

/-! ## accessors after table updates -/

theorem ty_allocVar (e : Enc) (t : VarType) (nv v : Nat) :
    (allocVar e t nv).2.ty v = if v = (allocVar e t nv).1 then t else e.ty v := by
  unfold allocVar Enc.ty
  simp only [List.length_append, List.length_replicate, List.length_cons, List.length_nil]
  generalize hp : nv + 1 - e.vars.length = pad
  have hk : e.vars.length + pad + (0 + 1) - 1 = e.vars.length + pad := by omega
  rw [hk]
  by_cases hv : v = e.vars.length + pad
  · rw [if_pos hv, hv]
    rw [List.getD_eq_getElem?_getD, List.getElem?_append_right (by simp)]
    simp
  · rw [if_neg hv]
    rw [List.getD_eq_getElem?_getD, List.getD_eq_getElem?_getD]
    by_cases h1 : v < e.vars.length
    · rw [List.getElem?_append_left (by simp; omega), List.getElem?_append_left h1]
    · rw [List.getElem?_eq_none (l := e.vars) (by omega)]
      by_cases h2 : v < e.vars.length + pad
      · rw [List.getElem?_append_left (by simp; omega), List.getElem?_append_right (by omega)]
        rw [List.getElem?_replicate]
        split <;> rfl
      · rw [List.getElem?_eq_none (by simp; omega)]

theorem allocVar_fst (e : Enc) (t : VarType) (nv : Nat) :
    (allocVar e t nv).1 = max e.vars.length (nv + 1) ∧ (allocVar e t nv).2.vars.length = (allocVar e t nv).1 + 1 := by
  unfold allocVar
  simp only [List.length_append, List.length_replicate, List.length_cons, List.length_nil]
  omega

@[simp] theorem allocVar_av (e : Enc) (t : VarType) (nv i : Nat) : (allocVar e t nv).2.av i = e.av i := rfl
@[simp] theorem allocVar_sv (e : Enc) (t : VarType) (nv i : Nat) : (allocVar e t nv).2.sv i = e.sv i := rfl
@[simp] theorem allocVar_asm (e : Enc) (t : VarType) (nv : Nat) : (allocVar e t nv).2.assumptions = e.assumptions := rfl
@[simp] theorem allocVar_sem (e : Enc) (t : VarType) (nv : Nat) : (allocVar e t nv).2.sem = e.sem := rfl
@[simp] theorem allocVar_argVar (e : Enc) (t : VarType) (nv : Nat) : (allocVar e t nv).2.argVar = e.argVar := rfl
@[simp] theorem allocVar_selVar (e : Enc) (t : VarType) (nv : Nat) : (allocVar e t nv).2.selVar = e.selVar := rfl
@[simp] theorem allocVar_enabled (e : Enc) (t : VarType) (nv : Nat) : (allocVar e t nv).2.enabled = e.enabled := rfl

theorem ty_fresh (e : Enc) (v : Nat) (h : e.vars.length ≤ v) : e.ty v = .ignored := by
  unfold Enc.ty; exact getD_ge _ _ _ h

theorem ty_set_ignored (e : Enc) (s v : Nat) :
    ({ e with vars := e.vars.set s .ignored } : Enc).ty v = if v = s then .ignored else e.ty v := by
  unfold Enc.ty
  simp only
  by_cases h : v = s
  · subst h
    rw [if_pos rfl]
    by_cases hl : v < e.vars.length
    · exact getD_set_eq _ _ _ _ hl
    · rw [getD_ge _ _ _ (by simp; omega)]
  · rw [if_neg h]
    exact getD_set_ne _ _ _ _ _ (fun h' => h h'.symm)

theorem getD_set_opt {α : Type} (l : List α) (i j : Nat) (x d : α) (hi : i < l.length) :
    (l.set i x).getD j d = if j = i then x else l.getD j d := by
  by_cases h : j = i
  · subst h; rw [if_pos rfl]; exact getD_set_eq _ _ _ _ hi
  · rw [if_neg h]; exact getD_set_ne _ _ _ _ _ (fun h' => h h'.symm)

theorem getD_push {α : Type} (l : List α) (j : Nat) (x d : α) :
    (l ++ [x]).getD j d = if j = l.length then x else l.getD j d := by
  by_cases h : j = l.length
  · subst h; rw [if_pos rfl]; exact getD_append_len _ _ _
  · rw [if_neg h]
    by_cases h2 : j < l.length
    · exact getD_append_lt _ _ _ _ h2
    · rw [getD_append_gt _ _ _ _ (by omega), getD_ge _ _ _ (by omega)]

/-! ## `swap_remove` on the assumption vector -/

theorem swapRemoveL_perm {α : Type} (l : List α) (pos : Nat) (h : pos < l.length) :
    (swapRemoveL l pos).Perm (l.eraseIdx pos) := by
  have hne0 : l ≠ [] := by intro e; subst e; simp at h
  obtain ⟨init, last, rfl⟩ : ∃ init last, l = init ++ [last] :=
    ⟨l.dropLast, l.getLast hne0, (List.dropLast_concat_getLast hne0).symm⟩
  unfold swapRemoveL
  simp only [List.getLast?_append, List.getLast?_singleton, Option.some_or, List.length_append,
    List.length_singleton]
  simp only [List.length_append, List.length_singleton] at h
  by_cases hp : pos = init.length
  · subst hp
    simp only [beq_self_eq_true, if_true, List.dropLast_concat]
    rw [List.eraseIdx_append_of_length_le (Nat.le_refl _)]
    simp
  · have hlt : pos < init.length := by omega
    have : (pos + 1 == init.length + 1) = false := by simp; omega
    simp only [this, Bool.false_eq_true, if_false]
    rw [List.set_append_left _ _ hlt, List.dropLast_concat, List.eraseIdx_append_of_lt_length hlt]
    rw [List.set_eq_take_append_cons_drop, if_pos hlt, List.eraseIdx_eq_take_drop_succ]
    exact List.perm_middle.trans (List.perm_append_singleton _ _).symm

theorem mem_swapRemoveL {α : Type} {l : List α} (hn : l.Nodup) {pos : Nat} (h : pos < l.length) (x : α) :
    x ∈ swapRemoveL l pos ↔ (x ∈ l ∧ x ≠ l[pos]) := by
  rw [(swapRemoveL_perm l pos h).mem_iff, List.mem_eraseIdx_iff_getElem]
  constructor
  · rintro ⟨i, hi, hne, rfl⟩
    refine ⟨List.getElem_mem _, ?_⟩
    intro heq
    have : l[i]? = l[pos]? := by rw [List.getElem?_eq_getElem hi, List.getElem?_eq_getElem h, heq]
    exact hne ((List.getElem?_inj hi hn).1 this)
  · rintro ⟨hx, hne⟩
    obtain ⟨i, hi, rfl⟩ := List.mem_iff_getElem.1 hx
    exact ⟨i, hi, fun e => hne (by subst e; rfl), rfl⟩

theorem nodup_swapRemoveL {α : Type} {l : List α} (hn : l.Nodup) {pos : Nat} (h : pos < l.length) :
    (swapRemoveL l pos).Nodup :=
  (swapRemoveL_perm l pos h).nodup_iff.2 (hn.eraseIdx pos)

/-- state after `remove_selector(s)` found at position `p` -/
def retire (e : Enc) (s p : Nat) : Enc :=
  { e with vars := e.vars.set s .ignored, assumptions := swapRemoveL e.assumptions p }

theorem wp_removeSelector {C : Prop} (e : Enc) (s : Nat) (w : World) (Q : Enc → World → Prop)
    (hmem : pl s ∈ e.assumptions) :
    ∃ p, ∃ hp : p < e.assumptions.length, e.assumptions[p] = pl s ∧
      (wp C (removeSelector e s) w Q ↔ Q (retire e s p) (w.onClause 0 [nl s])) := by
  cases hf : e.assumptions.findIdx? (fun l => l == pl s) with
  | none =>
    have := List.findIdx?_eq_none_iff.1 hf _ hmem
    simp at this
  | some p =>
    obtain ⟨hp, hpe, _⟩ := List.findIdx?_eq_some_iff_getElem.1 hf
    refine ⟨p, hp, by simpa using hpe, ?_⟩
    show wp C ((addClause 0 [nl s]).bind _) w Q ↔ _
    rw [wp_bind, wp_addClause, hf]
    rfl

theorem ty_lt_of_ne {e : Enc} {v : Nat} (h : e.ty v ≠ .ignored) : v < e.vars.length := by
  apply Classical.byContradiction
  intro hn
  exact h (ty_fresh e v (by omega))

theorem sv_lt {e : Enc} {i s : Nat} (h : e.sv i = some s) : i < e.selVar.length := by
  apply Classical.byContradiction
  intro hn
  unfold Enc.sv at h
  rw [getD_ge _ _ _ (by omega)] at h; cases h

theorem av_lt {e : Enc} {i v : Nat} (h : e.av i = some v) : i < e.argVar.length := by
  apply Classical.byContradiction
  intro hn
  unfold Enc.av at h
  rw [getD_ge _ _ _ (by omega)] at h; cases h

theorem CurClauses_congr {st : Store} {e e' : Enc} (hav : e'.argVar = e.argVar) (hsem : e'.sem = e.sem)
    (i s : Nat) (cl : Cnf) : CurClauses st e' i s cl ↔ CurClauses st e i s cl := by
  unfold CurClauses Enc.av
  rw [hav, hsem]

/-- state after the selector `s` of argument `i` (at position `p` of the assumptions) was retired -/
def retireSel (e : Enc) (i s p : Nat) : Enc :=
  { e with vars := e.vars.set s .ignored, assumptions := swapRemoveL e.assumptions p,
           selVar := e.selVar.set i none }

theorem ty_retireSel (e : Enc) (i s p v : Nat) :
    (retireSel e i s p).ty v = if v = s then .ignored else e.ty v := ty_set_ignored e s v

theorem sv_retireSel (e : Enc) (i s p j : Nat) (hi : i < e.selVar.length) :
    (retireSel e i s p).sv j = if j = i then none else e.sv j := by
  unfold retireSel Enc.sv
  exact getD_set_opt _ _ _ _ _ hi

theorem inv_retireSel {st : Store} {e : Enc} {Γ : Cnf} {T F : Nat → Bool} {dirty : Nat → Prop}
    (h : EncInv st e Γ T F dirty) {i s p : Nat} (hs : e.sv i = some s)
    (hp : p < e.assumptions.length) (hpe : e.assumptions[p] = pl s) :
    EncInv st (retireSel e i s p) ([nl s] :: Γ) T (fun v => F v || v == s) (fun j => dirty j ∨ j = i) := by
  have hi := sv_lt hs
  have htys : e.ty s = .sel i := (h.sv_live i s hs).2
  have hty : ∀ v, (retireSel e i s p).ty v = if v = s then .ignored else e.ty v := ty_retireSel e i s p
  have hsv : ∀ j, (retireSel e i s p).sv j = if j = i then none else e.sv j := fun j => sv_retireSel e i s p j hi
  have hav : ∀ j, (retireSel e i s p).av j = e.av j := fun j => rfl
  have hkeep : ∀ v t, e.ty v = t → t ≠ .sel i → (retireSel e i s p).ty v = t := by
    intro v t hv hne
    rw [hty, if_neg]; exact hv
    intro hvs; subst hvs; rw [htys] at hv; exact hne hv.symm
  have hcur : ∀ j s' cl, CurClauses st (retireSel e i s p) j s' cl ↔ CurClauses st e j s' cl :=
    fun j s' cl => CurClauses_congr rfl rfl j s' cl
  constructor
  · simpa [retireSel] using h.vars_pos
  · exact h.sz_a
  · simpa [retireSel] using h.sz_s
  · intro j hj
    obtain ⟨v, hv, hv1, hvt, hp'⟩ := h.av_live j hj
    refine ⟨v, hv, hv1, hkeep v _ hvt (by simp), ?_⟩
    intro hsem
    obtain ⟨hd, hm⟩ := hp' hsem
    exact ⟨hkeep _ _ hd (by simp), List.mem_cons_of_mem _ hm⟩
  · intro j s' hs'
    rw [hsv] at hs'
    by_cases hji : j = i
    · rw [if_pos hji] at hs'; cases hs'
    · rw [if_neg hji] at hs'
      obtain ⟨hl, ht⟩ := h.sv_live j s' hs'
      exact ⟨hl, hkeep _ _ ht (by simp; exact hji)⟩
  · intro v j hv
    rw [hty] at hv
    by_cases hvs : v = s
    · rw [if_pos hvs] at hv; cases hv
    · rw [if_neg hvs] at hv; exact h.ty_arg v j hv
  · intro v j hv
    rw [hty] at hv
    by_cases hvs : v = s
    · rw [if_pos hvs] at hv; cases hv
    · rw [if_neg hvs] at hv
      have := h.ty_sel v j hv
      rw [hsv, if_neg]; exact this
      intro hji; subst hji; rw [hs] at this; exact hvs (Option.some.inj this).symm
  · intro v j hv
    rw [hty] at hv
    by_cases hvs : v = s
    · rw [if_pos hvs] at hv; cases hv
    · rw [if_neg hvs] at hv
      obtain ⟨h1, h2⟩ := h.ty_disj v j hv
      refine ⟨h1, ?_⟩
      rcases h2 with h2 | h2
      · exact Or.inl (hkeep _ _ h2 (by simp))
      · exact Or.inr h2
  · intro l
    show l ∈ swapRemoveL e.assumptions p ↔ _
    rw [mem_swapRemoveL h.asm_nodup hp, hpe, h.asm]
    constructor
    · rintro ⟨⟨s', j, rfl, ht⟩, hne⟩
      refine ⟨s', j, rfl, ?_⟩
      rw [hty, if_neg]; exact ht
      intro e'; subst e'; exact hne rfl
    · rintro ⟨s', j, rfl, ht⟩
      rw [hty] at ht
      by_cases hvs : s' = s
      · rw [if_pos hvs] at ht; cases ht
      · rw [if_neg hvs] at ht
        exact ⟨⟨s', j, rfl, ht⟩, fun e' => hvs (by simpa [pl] using e')⟩
  · exact nodup_swapRemoveL h.asm_nodup hp
  · intro v hv
    obtain ⟨h1, h2⟩ := h.ghostT v hv
    refine ⟨by rw [hty]; split <;> simp [h1], h2.mono (fun c hc => List.mem_cons_of_mem _ hc)⟩
  · intro v hv
    simp only [Bool.or_eq_true, beq_iff_eq] at hv
    rcases hv with hv | hv
    · obtain ⟨h1, h2⟩ := h.ghostF v hv
      exact ⟨by rw [hty]; split <;> simp [h1], h2.mono (fun c hc => List.mem_cons_of_mem _ hc)⟩
    · subst hv
      exact ⟨by rw [hty, if_pos rfl], [nl v], by simp, nl v, by simp, rfl⟩
  · intro v ⟨hT, hF⟩
    simp only [Bool.or_eq_true, beq_iff_eq] at hF
    rcases hF with hF | hF
    · exact h.ghostTF v ⟨hT, hF⟩
    · subst hF
      have := (h.ghostT v hT).1
      rw [htys] at this; cases this
  · intro c hc
    rcases List.mem_cons.1 hc with rfl | hc
    · exact Or.inr (Or.inl ⟨s, by simp, by simp⟩)
    · rcases h.acc c hc with ⟨v, j, rfl, ht⟩ | ⟨s', hF, hm⟩ | hk | ⟨j, s', hs', hm, hcl⟩
      · exact Or.inl ⟨v, j, rfl, hkeep _ _ ht (by simp)⟩
      · exact Or.inr (Or.inl ⟨s', by simp [hF], hm⟩)
      · exact Or.inr (Or.inr (Or.inl hk))
      · by_cases hji : j = i
        · subst hji
          rw [hs] at hs'
          have : s' = s := (Option.some.inj hs').symm
          subst this
          exact Or.inr (Or.inl ⟨s', by simp, hm⟩)
        · refine Or.inr (Or.inr (Or.inr ⟨j, s', by rw [hsv, if_neg hji]; exact hs', hm, ?_⟩))
          intro hd
          obtain ⟨cl, h1, h2⟩ := hcl (fun hd' => hd (Or.inl hd'))
          exact ⟨cl, (hcur j s' cl).2 h1, h2⟩
  · intro j hj hd
    have hji : j ≠ i := fun e' => hd (Or.inr e')
    obtain ⟨s', cl, h1, h2, h3⟩ := h.act j hj (fun hd' => hd (Or.inl hd'))
    exact ⟨s', cl, by rw [hsv, if_neg hji]; exact h1, (hcur j s' cl).2 h2, fun c hc => List.mem_cons_of_mem _ (h3 c hc)⟩
  · intro v j hv
    rw [hty] at hv
    by_cases hvs : v + 1 = s
    · rw [if_pos hvs] at hv; cases hv
    · rw [if_neg hvs] at hv; exact List.mem_cons_of_mem _ (h.disj_cl v j hv)

theorem optAll_map_of_forall {α β : Type} (f : α → Option β) (g : α → β) :
    ∀ (l : List α), (∀ b ∈ l, f b = some (g b)) → optAll (l.map f) = some (l.map g)
  | [], _ => rfl
  | a :: t, h => by
    simp only [List.map_cons, optAll]
    rw [h a (by simp)]
    simp only [optAll]
    rw [optAll_map_of_forall f g t (fun b hb => h b (by simp [hb]))]
    rfl

theorem nl_sel_mem_attackClauses (sem : DSem) (s xt : Nat) (xs : List Nat) :
    ∀ c ∈ attackClauses sem s xt xs, nl s ∈ c := by
  intro c hc
  by_cases hsem : sem = .ST
  · subst hsem
    simp only [attackClauses, List.mem_append, List.mem_map, List.mem_singleton] at hc
    rcases hc with ⟨xa, _, rfl⟩ | rfl <;> simp
  · have hcl : attackClauses sem s xt xs =
        xs.map (fun xa => [nl s, nl xt, pl (xa + 1)]) ++ [[nl s, pl xt] ++ xs.map (fun xa => nl (xa + 1))] ++
        xs.map (fun xa => [nl s, pl (xt + 1), nl xa]) ++ [[nl s, nl (xt + 1)] ++ xs.map pl] := by
      cases sem <;> simp_all [attackClauses]
    rw [hcl] at hc
    simp only [List.mem_append, List.mem_map, List.mem_singleton] at hc
    rcases hc with ((⟨xa, _, rfl⟩ | rfl) | ⟨xa, _, rfl⟩) | rfl <;> simp

/-- state after a fresh selector was allocated for argument `i` -/
def withSel (e : Enc) (i nv : Nat) : Enc :=
  { (allocVar e (.sel i) nv).2 with
      assumptions := e.assumptions ++ [pl (allocVar e (.sel i) nv).1],
      selVar := e.selVar.set i (some (allocVar e (.sel i) nv).1) }

/-- the current attack clauses exist for every live argument -/
theorem curClauses_exists {st : Store} {e : Enc} {Γ : Cnf} {T F : Nat → Bool} {dirty : Nat → Prop}
    (hinv : st.Inv) (h : EncInv st e Γ T F dirty) {i : Nat} (hi : st.hasId i = true) :
    e.av i = some (e.xv i) ∧ optAll ((attackersOf st i).map e.av) = some ((attackersOf st i).map e.xv) := by
  obtain ⟨v, hv, _⟩ := h.av_live i hi
  refine ⟨by unfold Enc.xv; rw [hv]; rfl, ?_⟩
  apply optAll_map_of_forall
  intro b hb
  have hbl := (Store.g_wf hinv b i ((mem_attackersOf hinv i b).1 hb)).1
  obtain ⟨v', hv', _⟩ := h.av_live b hbl
  unfold Enc.xv; rw [hv']; rfl

theorem inv_withSel {st : Store} {e : Enc} {Γ : Cnf} {T F : Nat → Bool} {dirty : Nat → Prop}
    (hinv : st.Inv) (h : EncInv st e Γ T F dirty) {i : Nat} (hi : st.hasId i = true) (hs : e.sv i = none)
    (nv : Nat) (hnv : ∀ c ∈ Γ, ∀ l ∈ c, l.var ≤ nv) :
    let k := (allocVar e (.sel i) nv).1
    let cl := attackClauses e.sem k (e.xv i) ((attackersOf st i).map e.xv)
    EncInv st (withSel e i nv) (cl.reverse ++ Γ) T F (fun j => dirty j ∧ j ≠ i) := by
  intro k cl
  have hk : k = max e.vars.length (nv + 1) := (allocVar_fst e (.sel i) nv).1
  have hklen : (withSel e i nv).vars.length = k + 1 := (allocVar_fst e (.sel i) nv).2
  have htyk : e.ty k = .ignored := ty_fresh e k (by omega)
  have hocc : ∀ v, Occurs Γ v → v ≠ k := by
    rintro v ⟨c, hc, l, hl, rfl⟩
    have := hnv c hc l hl
    omega
  have hil : i < e.selVar.length := by
    rw [h.sz_s]; obtain ⟨l, hl⟩ := Store.hasId_iff.1 hi; exact Store.live_lt hl
  have hty : ∀ v, (withSel e i nv).ty v = if v = k then .sel i else e.ty v := ty_allocVar e (.sel i) nv
  have hsv : ∀ j, (withSel e i nv).sv j = if j = i then some k else e.sv j := by
    intro j; unfold withSel Enc.sv; exact getD_set_opt _ _ _ _ _ hil
  have hkeep : ∀ v t, e.ty v = t → t ≠ .ignored → (withSel e i nv).ty v = t := by
    intro v t hv hne
    rw [hty, if_neg]; exact hv
    intro hvk; subst hvk; rw [htyk] at hv; exact hne hv.symm
  have hcurc : ∀ j s' cl', CurClauses st (withSel e i nv) j s' cl' ↔ CurClauses st e j s' cl' :=
    fun j s' cl' => CurClauses_congr rfl rfl j s' cl'
  obtain ⟨hxi, hxs⟩ := curClauses_exists hinv h hi
  have hcur : CurClauses st (withSel e i nv) i k cl := (hcurc i k cl).2 ⟨_, _, hxi, hxs, rfl⟩
  constructor
  · rw [hklen]; omega
  · exact h.sz_a
  · simpa [withSel] using h.sz_s
  · intro j hj
    obtain ⟨v, hv, hv1, hvt, hp'⟩ := h.av_live j hj
    refine ⟨v, hv, hv1, hkeep v _ hvt (by simp), ?_⟩
    intro hsem
    obtain ⟨hd, hm⟩ := hp' hsem
    exact ⟨hkeep _ _ hd (by simp), List.mem_append_right _ hm⟩
  · intro j s' hs'
    rw [hsv] at hs'
    by_cases hji : j = i
    · rw [if_pos hji] at hs'
      have : s' = k := (Option.some.inj hs').symm
      subst this; subst hji
      exact ⟨hi, by rw [hty, if_pos rfl]⟩
    · rw [if_neg hji] at hs'
      obtain ⟨hl, ht⟩ := h.sv_live j s' hs'
      exact ⟨hl, hkeep _ _ ht (by simp)⟩
  · intro v j hv
    rw [hty] at hv
    by_cases hvk : v = k
    · rw [if_pos hvk] at hv; cases hv
    · rw [if_neg hvk] at hv; exact h.ty_arg v j hv
  · intro v j hv
    rw [hty] at hv
    by_cases hvk : v = k
    · rw [if_pos hvk] at hv
      injection hv with hv; subst hv; subst hvk
      rw [hsv, if_pos rfl]
    · rw [if_neg hvk] at hv
      have := h.ty_sel v j hv
      rw [hsv, if_neg]; exact this
      intro hji; subst hji; rw [hs] at this; cases this
  · intro v j hv
    rw [hty] at hv
    by_cases hvk : v = k
    · rw [if_pos hvk] at hv; cases hv
    · rw [if_neg hvk] at hv
      obtain ⟨h1, h2⟩ := h.ty_disj v j hv
      refine ⟨h1, ?_⟩
      rcases h2 with h2 | h2
      · exact Or.inl (hkeep _ _ h2 (by simp))
      · exact Or.inr h2
  · intro l
    show l ∈ e.assumptions ++ [pl k] ↔ _
    rw [List.mem_append, h.asm, List.mem_singleton]
    constructor
    · rintro (⟨s', j, rfl, ht⟩ | rfl)
      · exact ⟨s', j, rfl, hkeep _ _ ht (by simp)⟩
      · exact ⟨k, i, rfl, by rw [hty, if_pos rfl]⟩
    · rintro ⟨s', j, rfl, ht⟩
      rw [hty] at ht
      by_cases hvk : s' = k
      · right; rw [hvk]
      · rw [if_neg hvk] at ht; exact Or.inl ⟨s', j, rfl, ht⟩
  · show (e.assumptions ++ [pl k]).Nodup
    rw [List.nodup_append]
    refine ⟨h.asm_nodup, by simp, ?_⟩
    intro a ha b hb
    simp only [List.mem_singleton] at hb; subst hb
    intro e'; subst e'
    obtain ⟨s', j, he, ht⟩ := (h.asm _).1 ha
    have : s' = k := by simpa [pl] using he.symm
    subst this
    rw [htyk] at ht; cases ht
  · intro v hv
    obtain ⟨h1, h2⟩ := h.ghostT v hv
    exact ⟨by rw [hty, if_neg (hocc v h2)]; exact h1, h2.mono (fun c hc => List.mem_append_right _ hc)⟩
  · intro v hv
    obtain ⟨h1, h2⟩ := h.ghostF v hv
    exact ⟨by rw [hty, if_neg (hocc v h2)]; exact h1, h2.mono (fun c hc => List.mem_append_right _ hc)⟩
  · exact h.ghostTF
  · intro c hc
    rcases List.mem_append.1 hc with hc | hc
    · have hc' : c ∈ cl := List.mem_reverse.1 hc
      exact Or.inr (Or.inr (Or.inr ⟨i, k, by rw [hsv, if_pos rfl], nl_sel_mem_attackClauses _ _ _ _ c hc',
        fun _ => ⟨cl, hcur, hc'⟩⟩))
    · rcases h.acc c hc with ⟨v, j, rfl, ht⟩ | hk' | hk' | ⟨j, s', hs', hm, hcl⟩
      · exact Or.inl ⟨v, j, rfl, hkeep _ _ ht (by simp)⟩
      · exact Or.inr (Or.inl hk')
      · exact Or.inr (Or.inr (Or.inl hk'))
      · have hji : j ≠ i := by intro e'; subst e'; rw [hs] at hs'; cases hs'
        refine Or.inr (Or.inr (Or.inr ⟨j, s', by rw [hsv, if_neg hji]; exact hs', hm, ?_⟩))
        intro hd
        obtain ⟨cl', h1, h2⟩ := hcl (fun hd' => hd ⟨hd', hji⟩)
        exact ⟨cl', (hcurc j s' cl').2 h1, h2⟩
  · intro j hj hd
    by_cases hji : j = i
    · subst hji
      exact ⟨k, cl, by rw [hsv, if_pos rfl], hcur, fun c hc => List.mem_append_left _ (List.mem_reverse.2 hc)⟩
    · obtain ⟨s', cl', h1, h2, h3⟩ := h.act j hj (fun hd' => hd ⟨hd', hji⟩)
      exact ⟨s', cl', by rw [hsv, if_neg hji]; exact h1, (hcurc j s' cl').2 h2,
        fun c hc => List.mem_append_right _ (h3 c hc)⟩
  · intro v j hv
    rw [hty] at hv
    by_cases hvk : v + 1 = k
    · rw [if_pos hvk] at hv; cases hv
    · rw [if_neg hvk] at hv; exact List.mem_append_right _ (h.disj_cl v j hv)

theorem EncInv.weaken {st : Store} {e : Enc} {Γ : Cnf} {T F : Nat → Bool} {d d' : Nat → Prop}
    (h : EncInv st e Γ T F d) (hd : ∀ j, d j → d' j) : EncInv st e Γ T F d' := by
  refine { h with acc := ?_, act := ?_ }
  · intro c hc
    rcases h.acc c hc with hk | hk | hk | ⟨j, s, hs, hm, hcl⟩
    · exact Or.inl hk
    · exact Or.inr (Or.inl hk)
    · exact Or.inr (Or.inr (Or.inl hk))
    · exact Or.inr (Or.inr (Or.inr ⟨j, s, hs, hm, fun hn => hcl (fun hdj => hn (hd j hdj))⟩))
  · intro j hj hn
    exact h.act j hj (fun hdj => hn (hd j hdj))

theorem CurClauses_store {st st' : Store} {e : Enc} {j : Nat} (h : attackersOf st' j = attackersOf st j)
    (s : Nat) (cl : Cnf) : CurClauses st' e j s cl ↔ CurClauses st e j s cl := by
  unfold CurClauses; rw [h]

/-- a store update that keeps the ids and the attackers of the clean arguments keeps the invariant -/
theorem inv_store_change {st st' : Store} {e : Enc} {Γ : Cnf} {T F : Nat → Bool} {d d' : Nat → Prop}
    (h : EncInv st e Γ T F d) (hlen : st'.labels.length = st.labels.length)
    (hid : ∀ j, st'.hasId j = st.hasId j) (hatt : ∀ j, ¬ d' j → attackersOf st' j = attackersOf st j)
    (hd : ∀ j, d j → d' j) : EncInv st' e Γ T F d' := by
  constructor
  · exact h.vars_pos
  · rw [hlen]; exact h.sz_a
  · rw [hlen]; exact h.sz_s
  · intro j hj; rw [hid] at hj; exact h.av_live j hj
  · intro j s hs; rw [hid]; exact h.sv_live j s hs
  · intro v j hv; rw [hid]; exact h.ty_arg v j hv
  · exact h.ty_sel
  · intro v j hv; rw [hid, hlen]; exact h.ty_disj v j hv
  · exact h.asm
  · exact h.asm_nodup
  · exact h.ghostT
  · exact h.ghostF
  · exact h.ghostTF
  · intro c hc
    rcases h.acc c hc with hk | hk | hk | ⟨j, s, hs, hm, hcl⟩
    · exact Or.inl hk
    · exact Or.inr (Or.inl hk)
    · exact Or.inr (Or.inr (Or.inl hk))
    · refine Or.inr (Or.inr (Or.inr ⟨j, s, hs, hm, fun hn => ?_⟩))
      obtain ⟨cl, h1, h2⟩ := hcl (fun hdj => hn (hd j hdj))
      exact ⟨cl, (CurClauses_store (hatt j hn) s cl).2 h1, h2⟩
  · intro j hj hn
    rw [hid] at hj
    obtain ⟨s, cl, h1, h2, h3⟩ := h.act j hj (fun hdj => hn (hd j hdj))
    exact ⟨s, cl, h1, (CurClauses_store (hatt j hn) s cl).2 h2, h3⟩
  · exact h.disj_cl

theorem CurClauses_transfer {st st' : Store} {e e' : Enc} {j : Nat}
    (hatt : attackersOf st' j = attackersOf st j) (hsem : e'.sem = e.sem) (hj : e'.av j = e.av j)
    (hb : ∀ b ∈ attackersOf st j, e'.av b = e.av b) (s : Nat) (cl : Cnf) :
    CurClauses st' e' j s cl ↔ CurClauses st e j s cl := by
  unfold CurClauses
  rw [hatt, hsem, hj, List.map_congr_left hb]

/-- the invariant after the variables of a new argument were allocated: stated for any `e1` whose
tables relate to those of `e` as `alloc_arg` makes them -/
theorem inv_newArg_core {st : Store} {e e1 : Enc} {Γ Γ' : Cnf} {T F : Nat → Bool} {d : Nat → Prop}
    (hinv : st.Inv) (h : EncInv st e Γ T F d) {l v : Nat} (hfresh : ∀ i, ¬ st.Live i l)
    (hv : e.vars.length ≤ v) (hnv : ∀ c ∈ Γ, ∀ l ∈ c, l.var < v) (hsem : e1.sem = e.sem)
    (hty : ∀ x, e1.ty x = if x = v then .arg st.labels.length
      else if e.sem ≠ .ST ∧ x = v + 1 then .disj st.labels.length else e.ty x)
    (hav : ∀ j, e1.av j = if j = st.labels.length then some v else e.av j)
    (hsv : ∀ j, e1.sv j = e.sv j) (hasm : e1.assumptions = e.assumptions)
    (hla : e1.argVar.length = e.argVar.length + 1) (hls : e1.selVar.length = e.selVar.length + 1)
    (hlv : e.vars.length ≤ e1.vars.length)
    (hΓ1 : ∀ c ∈ Γ, c ∈ Γ') (hΓ2 : e.sem ≠ .ST → [nl v, nl (v + 1)] ∈ Γ')
    (hΓ3 : ∀ c ∈ Γ', c ∈ Γ ∨ (e.sem ≠ .ST ∧ c = [nl v, nl (v + 1)])) :
    EncInv (st.pushArg l) e1 Γ' T F (fun j => d j ∨ j = st.labels.length) := by
  have hpos := h.vars_pos
  have hid : ∀ j, (st.pushArg l).hasId j = true ↔ (st.hasId j = true ∨ j = st.labels.length) := by
    intro j; rw [hasId_pushArg]; simp
  have hlive_lt : ∀ j, st.hasId j = true → j < st.labels.length := by
    intro j hj; obtain ⟨l', hl'⟩ := Store.hasId_iff.1 hj; exact Store.live_lt hl'
  have hkeep : ∀ x t, e.ty x = t → t ≠ .ignored → e1.ty x = t := by
    intro x t hx hne
    have hxl : x < e.vars.length := ty_lt_of_ne (by rw [hx]; exact hne)
    rw [hty, if_neg (by omega), if_neg (by omega)]; exact hx
  have hkeepI : ∀ x, Occurs Γ x → e1.ty x = e.ty x := by
    rintro x ⟨c, hc, l', hl', rfl⟩
    have := hnv c hc l' hl'
    rw [hty, if_neg (by omega), if_neg (by omega)]
  have hold : ∀ x t, e1.ty x = t → x ≠ v → ¬ (e.sem ≠ .ST ∧ x = v + 1) → e.ty x = t := by
    intro x t hx h1 h2; rw [hty, if_neg h1, if_neg h2] at hx; exact hx
  have havold : ∀ j, st.hasId j = true → e1.av j = e.av j := by
    intro j hj; rw [hav, if_neg]; have := hlive_lt j hj; omega
  have hcur : ∀ j, st.hasId j = true → ∀ s cl, CurClauses (st.pushArg l) e1 j s cl ↔ CurClauses st e j s cl := by
    intro j hj s cl
    apply CurClauses_transfer (attackersOf_pushArg st l j) hsem (havold j hj)
    intro b hb
    exact havold b (Store.g_wf hinv b j ((mem_attackersOf hinv j b).1 hb)).1
  constructor
  · omega
  · rw [hla, h.sz_a]; simp [Store.pushArg]
  · rw [hls, h.sz_s]; simp [Store.pushArg]
  · intro j hj
    rcases (hid j).1 hj with hj | hj
    · obtain ⟨x, hx, hx1, hxt, hp'⟩ := h.av_live j hj
      refine ⟨x, by rw [havold j hj]; exact hx, hx1, hkeep _ _ hxt (by simp), ?_⟩
      intro hs
      rw [hsem] at hs
      obtain ⟨hd', hm⟩ := hp' hs
      exact ⟨hkeep _ _ hd' (by simp), hΓ1 _ hm⟩
    · subst hj
      refine ⟨v, by rw [hav, if_pos rfl], by omega, by rw [hty, if_pos rfl], ?_⟩
      intro hs
      rw [hsem] at hs
      exact ⟨by rw [hty, if_neg (by omega), if_pos ⟨hs, rfl⟩], hΓ2 hs⟩
  · intro j s hs
    rw [hsv] at hs
    obtain ⟨hl', ht⟩ := h.sv_live j s hs
    exact ⟨(hid j).2 (Or.inl hl'), hkeep _ _ ht (by simp)⟩
  · intro x j hx
    rw [hty] at hx
    by_cases h1 : x = v
    · rw [if_pos h1] at hx
      injection hx with hx; subst hx; subst h1
      exact ⟨(hid _).2 (Or.inr rfl), by rw [hav, if_pos rfl]⟩
    · rw [if_neg h1] at hx
      by_cases h2 : e.sem ≠ .ST ∧ x = v + 1
      · rw [if_pos h2] at hx; cases hx
      · rw [if_neg h2] at hx
        obtain ⟨hl', ha⟩ := h.ty_arg x j hx
        exact ⟨(hid j).2 (Or.inl hl'), by rw [havold j hl']; exact ha⟩
  · intro x j hx
    rw [hsv]
    apply h.ty_sel
    rw [hty] at hx
    by_cases h1 : x = v
    · rw [if_pos h1] at hx; cases hx
    · rw [if_neg h1] at hx
      by_cases h2 : e.sem ≠ .ST ∧ x = v + 1
      · rw [if_pos h2] at hx; cases hx
      · rw [if_neg h2] at hx; exact hx
  · intro x j hx
    rw [hty] at hx
    by_cases h1 : x = v
    · rw [if_pos h1] at hx; cases hx
    · rw [if_neg h1] at hx
      by_cases h2 : e.sem ≠ .ST ∧ x = v + 1
      · rw [if_pos h2] at hx
        injection hx with hx; subst hx
        obtain ⟨_, rfl⟩ := h2
        refine ⟨⟨by omega, by simp [Store.pushArg]⟩, Or.inl ?_⟩
        simp only [Nat.add_sub_cancel]
        rw [hty, if_pos rfl]
      · rw [if_neg h2] at hx
        obtain ⟨⟨hx1, hjl⟩, hx2⟩ := h.ty_disj x j hx
        refine ⟨⟨hx1, by simp [Store.pushArg]; omega⟩, ?_⟩
        rcases hx2 with hx2 | ⟨hT, hdead⟩
        · exact Or.inl (hkeep _ _ hx2 (by simp))
        · refine Or.inr ⟨hT, ?_⟩
          cases hh : (st.pushArg l).hasId j
          · rfl
          · rcases (hid j).1 hh with hh' | hh'
            · rw [hdead] at hh'; cases hh'
            · omega
  · intro l'
    rw [hasm, h.asm]
    constructor
    · rintro ⟨s, j, rfl, ht⟩; exact ⟨s, j, rfl, hkeep _ _ ht (by simp)⟩
    · rintro ⟨s, j, rfl, ht⟩
      refine ⟨s, j, rfl, ?_⟩
      rw [hty] at ht
      by_cases h1 : s = v
      · rw [if_pos h1] at ht; cases ht
      · rw [if_neg h1] at ht
        by_cases h2 : e.sem ≠ .ST ∧ s = v + 1
        · rw [if_pos h2] at ht; cases ht
        · rw [if_neg h2] at ht; exact ht
  · rw [hasm]; exact h.asm_nodup
  · intro x hx
    obtain ⟨h1, h2⟩ := h.ghostT x hx
    exact ⟨by rw [hkeepI x h2]; exact h1, h2.mono hΓ1⟩
  · intro x hx
    obtain ⟨h1, h2⟩ := h.ghostF x hx
    exact ⟨by rw [hkeepI x h2]; exact h1, h2.mono hΓ1⟩
  · exact h.ghostTF
  · intro c hc
    rcases hΓ3 c hc with hc | ⟨hs, rfl⟩
    · rcases h.acc c hc with ⟨x, j, rfl, ht⟩ | hk | hk | ⟨j, s, hs, hm, hcl⟩
      · exact Or.inl ⟨x, j, rfl, hkeep _ _ ht (by simp)⟩
      · exact Or.inr (Or.inl hk)
      · exact Or.inr (Or.inr (Or.inl hk))
      · refine Or.inr (Or.inr (Or.inr ⟨j, s, by rw [hsv]; exact hs, hm, fun hn => ?_⟩))
        obtain ⟨cl, h1, h2⟩ := hcl (fun hdj => hn (Or.inl hdj))
        exact ⟨cl, (hcur j (h.sv_live j s hs).1 s cl).2 h1, h2⟩
    · exact Or.inl ⟨v, st.labels.length, rfl, by rw [hty, if_neg (by omega), if_pos ⟨hs, rfl⟩]⟩
  · intro j hj hn
    rcases (hid j).1 hj with hj' | hj'
    · obtain ⟨s, cl, h1, h2, h3⟩ := h.act j hj' (fun hdj => hn (Or.inl hdj))
      exact ⟨s, cl, by rw [hsv]; exact h1, (hcur j hj' s cl).2 h2, fun c hc => hΓ1 c (h3 c hc)⟩
    · exact absurd (Or.inr hj') hn
  · intro x j hx
    rw [hty] at hx
    by_cases h1 : x + 1 = v
    · rw [if_pos h1] at hx; cases hx
    · rw [if_neg h1] at hx
      by_cases h2 : e.sem ≠ .ST ∧ x + 1 = v + 1
      · obtain ⟨h2a, h2b⟩ := h2
        have : x = v := by omega
        subst this
        exact hΓ2 h2a
      · rw [if_neg h2] at hx
        exact hΓ1 _ (h.disj_cl x j hx)

/-- only the dirtiness of live arguments matters -/
theorem EncInv.restrict {st : Store} {e : Enc} {Γ : Cnf} {T F : Nat → Bool} {d d' : Nat → Prop}
    (h : EncInv st e Γ T F d) (hd : ∀ j, st.hasId j = true → d j → d' j) : EncInv st e Γ T F d' := by
  refine { h with acc := ?_, act := ?_ }
  · intro c hc
    rcases h.acc c hc with hk | hk | hk | ⟨j, s, hs, hm, hcl⟩
    · exact Or.inl hk
    · exact Or.inr (Or.inl hk)
    · exact Or.inr (Or.inr (Or.inl hk))
    · exact Or.inr (Or.inr (Or.inr ⟨j, s, hs, hm, fun hn => hcl (fun hdj => hn (hd j (h.sv_live j s hs).1 hdj))⟩))
  · intro j hj hn
    exact h.act j hj (fun hdj => hn (hd j hj hdj))

/-- the invariant as a predicate on the encoder and the world (ghost sets hidden) -/
def EInv (sem : DSem) (st : Store) (dirty : Nat → Prop) (e : Enc) (w : World) : Prop :=
  e.sem = sem ∧ ∃ T F, EncInv st e (w.db 0) T F dirty

theorem wp_dropSel {C : Prop} {sem : DSem} {st : Store} {dirty : Nat → Prop} {e : Enc} {w : World}
    (h : EInv sem st dirty e w) (to : Nat) :
    wp C (dropSel e to) w (fun e1 w1 => EInv sem st (fun j => dirty j ∨ j = to) e1 w1 ∧ e1.sv to = none ∧
      e1.enabled = e.enabled ∧ e1.argVar = e.argVar) := by
  obtain ⟨hsem, T, F, hI⟩ := h
  unfold dropSel
  cases hs : e.selVar.getD to none with
  | none =>
    exact ⟨⟨hsem, T, F, hI.weaken (fun j hj => Or.inl hj)⟩, hs, rfl, rfl⟩
  | some s =>
    have hs' : e.sv to = some s := hs
    have hmem : pl s ∈ e.assumptions := (hI.asm _).2 ⟨s, to, rfl, (hI.sv_live to s hs').2⟩
    simp only
    rw [wp_bind]
    obtain ⟨p, hp, hpe, hiff⟩ := wp_removeSelector (C := C) e s w
      (fun e' w' => wp C (Prog.pure { e' with selVar := e'.selVar.set to none } : Prog Enc) w'
        (fun e1 w1 => EInv sem st (fun j => dirty j ∨ j = to) e1 w1 ∧ e1.sv to = none ∧
          e1.enabled = e.enabled ∧ e1.argVar = e.argVar)) hmem
    rw [hiff]
    show EInv sem st _ (retireSel e to s p) _ ∧ _
    have hI' := inv_retireSel hI hs' hp hpe
    refine ⟨⟨hsem, T, _, by rw [db_onClause_same]; exact hI'⟩, ?_, rfl, rfl⟩
    have := sv_retireSel e to s p to (sv_lt hs')
    rw [if_pos rfl] at this
    exact this

theorem wp_updateAttacksTo {C : Prop} {sem : DSem} {st : Store} {dirty : Nat → Prop} {e : Enc} {w : World}
    (hinv : st.Inv) (h : EInv sem st dirty e w) (hw : W0 w) (hen : e.enabled = true) {to : Nat}
    (hi : st.hasId to = true) :
    wp C (updateAttacksTo st e to) w (fun e' w' => EInv sem st (fun j => dirty j ∧ j ≠ to) e' w' ∧
      e'.enabled = true) := by
  have hlt : to < e.selVar.length := by
    obtain ⟨_, T, F, hI⟩ := h
    rw [hI.sz_s]; obtain ⟨l, hl⟩ := Store.hasId_iff.1 hi; exact Store.live_lt hl
  unfold updateAttacksTo
  rw [if_neg (by simp [hen]), if_neg (by omega), wp_bind]
  refine wp_mono _ _ _ _ ?_ (wp_W0 _ _ _ hw (wp_dropSel h to))
  rintro e1 w1 ⟨hw1, ⟨hsem, T, F, hI⟩, hsv, hen1, _⟩
  rw [wp_bind, wp_newSolverVar]
  have hle := hw1.db_le
  generalize hnv : w1.nVarsOf 0 = nv at hle
  have hI2 := inv_withSel hinv hI hi hsv nv hle
  simp only at hI2
  obtain ⟨hxi, hxs⟩ := curClauses_exists hinv hI hi
  unfold emitAttackClauses
  rw [if_neg (by simp [hi])]
  have hws : (withSelOf (allocVar e1 (.sel to) nv) to) = withSel e1 to nv := rfl
  rw [hws]
  have h1 : (withSel e1 to nv).argVar.getD to none = some (e1.xv to) := hxi
  have h2 : optAll ((st.iterTo to).map (fun p => (withSel e1 to nv).argVar.getD p.1 none)) =
      some ((attackersOf st to).map e1.xv) := by
    have : (st.iterTo to).map (fun p => (withSel e1 to nv).argVar.getD p.1 none) = (attackersOf st to).map e1.av := by
      unfold attackersOf; rw [List.map_map]; rfl
    rw [this]; exact hxs
  rw [h1, h2]
  simp only
  rw [wp_bind, wp_addClauses]
  show EInv sem st _ (withSel e1 to nv) _ ∧ _
  refine ⟨⟨hsem, T, F, ?_⟩, ?_⟩
  · rw [db_addAll, db_onNVars]
    exact hI2.weaken (fun j hj => ⟨hj.1.resolve_right hj.2, hj.2⟩)
  · show e1.enabled = true
    rw [hen1, hen]

/-- state after the variable of the removed argument `id` was forgotten -/
def forgotten (e : Enc) (id v : Nat) : Enc :=
  { e with argVar := e.argVar.set id none, vars := e.vars.set v .ignored }

theorem inv_forgotten {st : Store} {e : Enc} {Γ : Cnf} {T F : Nat → Bool} {d : Nat → Prop}
    (hinv : st.Inv) (h : EncInv st e Γ T F d) {l id v : Nat} (hl : st.Live id l)
    (hs : e.sv id = none) (hv : e.av id = some v) :
    EncInv (st.dropArg l id) (forgotten e id v) ([pl v] :: Γ) (fun x => T x || x == v) F
      (fun j => d j ∨ st.HasAtt id j) := by
  have hidl : st.hasId id = true := Store.hasId_iff.2 ⟨l, hl⟩
  have htyv : e.ty v = .arg id := by
    obtain ⟨v', hv', _, ht, _⟩ := h.av_live id hidl
    rw [hv] at hv'; injection hv' with hv'; subst hv'; exact ht
  have hty : ∀ x, (forgotten e id v).ty x = if x = v then .ignored else e.ty x := ty_set_ignored e v
  have hav : ∀ j, (forgotten e id v).av j = if j = id then none else e.av j := by
    intro j; unfold forgotten Enc.av; exact getD_set_opt _ _ _ _ _ (av_lt hv)
  have hsv : ∀ j, (forgotten e id v).sv j = e.sv j := fun j => rfl
  have hid : ∀ j, (st.dropArg l id).hasId j = true ↔ (st.hasId j = true ∧ j ≠ id) := by
    intro j; rw [hasId_dropArg]; simp
  have hkeep : ∀ x t, e.ty x = t → t ≠ .arg id → (forgotten e id v).ty x = t := by
    intro x t hx hne
    rw [hty, if_neg]; exact hx
    intro hxv; subst hxv; rw [htyv] at hx; exact hne hx.symm
  have hcur : ∀ j, st.hasId j = true → j ≠ id → ¬ st.HasAtt id j → ∀ s cl,
      CurClauses (st.dropArg l id) (forgotten e id v) j s cl ↔ CurClauses st e j s cl := by
    intro j hj hji hno s cl
    apply CurClauses_transfer (e := e) (e' := forgotten e id v) (attackersOf_dropArg hinv hl hji hno) rfl
      (by rw [hav, if_neg hji])
    intro b hb
    rw [hav, if_neg]
    intro hbi; subst hbi
    exact hno ((mem_attackersOf hinv j b).1 hb)
  constructor
  · simpa [forgotten] using h.vars_pos
  · simpa [forgotten, Store.dropArg] using h.sz_a
  · simpa [forgotten, Store.dropArg] using h.sz_s
  · intro j hj
    obtain ⟨hj1, hj2⟩ := (hid j).1 hj
    obtain ⟨x, hx, hx1, hxt, hp'⟩ := h.av_live j hj1
    refine ⟨x, by rw [hav, if_neg hj2]; exact hx, hx1, hkeep _ _ hxt (by simp; exact hj2), ?_⟩
    intro hsem
    obtain ⟨hd', hm⟩ := hp' hsem
    exact ⟨hkeep _ _ hd' (by simp), List.mem_cons_of_mem _ hm⟩
  · intro j s hs'
    rw [hsv] at hs'
    obtain ⟨hl', ht⟩ := h.sv_live j s hs'
    refine ⟨(hid j).2 ⟨hl', ?_⟩, hkeep _ _ ht (by simp)⟩
    intro hji; subst hji; rw [hs] at hs'; cases hs'
  · intro x j hx
    rw [hty] at hx
    by_cases hxv : x = v
    · rw [if_pos hxv] at hx; cases hx
    · rw [if_neg hxv] at hx
      obtain ⟨hl', ha⟩ := h.ty_arg x j hx
      have hji : j ≠ id := by
        intro hji; subst hji; rw [hv] at ha; injection ha with ha; exact hxv ha.symm
      exact ⟨(hid j).2 ⟨hl', hji⟩, by rw [hav, if_neg hji]; exact ha⟩
  · intro x j hx
    rw [hty] at hx
    by_cases hxv : x = v
    · rw [if_pos hxv] at hx; cases hx
    · rw [if_neg hxv] at hx; exact h.ty_sel x j hx
  · intro x j hx
    rw [hty] at hx
    by_cases hxv : x = v
    · rw [if_pos hxv] at hx; cases hx
    · rw [if_neg hxv] at hx
      obtain ⟨⟨hx1, hjl⟩, hx2⟩ := h.ty_disj x j hx
      refine ⟨⟨hx1, by simpa [Store.dropArg] using hjl⟩, ?_⟩
      rcases hx2 with hx2 | ⟨hT, hdead⟩
      · by_cases hji : j = id
        · subst hji
          have hxv' : x - 1 = v := by
            have := (h.ty_arg (x - 1) j hx2).2
            rw [hv] at this; injection this with this; exact this.symm
          refine Or.inr ⟨by simp [hxv'], ?_⟩
          cases hh : (st.dropArg l j).hasId j
          · rfl
          · exact absurd rfl ((hid j).1 hh).2
        · exact Or.inl (hkeep _ _ hx2 (by simp; exact hji))
      · refine Or.inr ⟨by simp [hT], ?_⟩
        cases hh : (st.dropArg l id).hasId j
        · rfl
        · have := ((hid j).1 hh).1; rw [hdead] at this; cases this
  · intro l'
    show l' ∈ e.assumptions ↔ _
    rw [h.asm]
    constructor
    · rintro ⟨s, j, rfl, ht⟩; exact ⟨s, j, rfl, hkeep _ _ ht (by simp)⟩
    · rintro ⟨s, j, rfl, ht⟩
      rw [hty] at ht
      by_cases hsv' : s = v
      · rw [if_pos hsv'] at ht; cases ht
      · rw [if_neg hsv'] at ht; exact ⟨s, j, rfl, ht⟩
  · exact h.asm_nodup
  · intro x hx
    simp only [Bool.or_eq_true, beq_iff_eq] at hx
    rcases hx with hx | hx
    · obtain ⟨h1, h2⟩ := h.ghostT x hx
      exact ⟨by rw [hty]; split <;> simp [h1], h2.mono (fun c hc => List.mem_cons_of_mem _ hc)⟩
    · subst hx
      exact ⟨by rw [hty, if_pos rfl], [pl x], by simp, pl x, by simp, rfl⟩
  · intro x hx
    obtain ⟨h1, h2⟩ := h.ghostF x hx
    exact ⟨by rw [hty]; split <;> simp [h1], h2.mono (fun c hc => List.mem_cons_of_mem _ hc)⟩
  · intro x ⟨hT, hF⟩
    simp only [Bool.or_eq_true, beq_iff_eq] at hT
    rcases hT with hT | hT
    · exact h.ghostTF x ⟨hT, hF⟩
    · subst hT
      have := (h.ghostF x hF).1
      rw [htyv] at this; cases this
  · intro c hc
    rcases List.mem_cons.1 hc with rfl | hc
    · exact Or.inr (Or.inr (Or.inl ⟨v, by simp, by simp⟩))
    · rcases h.acc c hc with ⟨x, j, rfl, ht⟩ | hk | ⟨t, hT, hm⟩ | ⟨j, s, hs', hm, hcl⟩
      · exact Or.inl ⟨x, j, rfl, hkeep _ _ ht (by simp)⟩
      · exact Or.inr (Or.inl hk)
      · exact Or.inr (Or.inr (Or.inl ⟨t, by simp [hT], hm⟩))
      · refine Or.inr (Or.inr (Or.inr ⟨j, s, hs', hm, fun hn => ?_⟩))
        have hji : j ≠ id := by intro hji; subst hji; rw [hs] at hs'; cases hs'
        obtain ⟨cl, h1, h2⟩ := hcl (fun hdj => hn (Or.inl hdj))
        exact ⟨cl, (hcur j (h.sv_live j s hs').1 hji (fun ha => hn (Or.inr ha)) s cl).2 h1, h2⟩
  · intro j hj hn
    obtain ⟨hj1, hj2⟩ := (hid j).1 hj
    obtain ⟨s, cl, h1, h2, h3⟩ := h.act j hj1 (fun hdj => hn (Or.inl hdj))
    exact ⟨s, cl, h1, (hcur j hj1 hj2 (fun ha => hn (Or.inr ha)) s cl).2 h2,
      fun c hc => List.mem_cons_of_mem _ (h3 c hc)⟩
  · intro x j hx
    rw [hty] at hx
    by_cases hxv : x + 1 = v
    · rw [if_pos hxv] at hx; cases hx
    · rw [if_neg hxv] at hx; exact List.mem_cons_of_mem _ (h.disj_cl x j hx)

theorem updateAttacksTo_disabled (st : Store) (e : Enc) (to : Nat) (h : e.enabled = false) :
    updateAttacksTo st e to = .pure e := by
  unfold updateAttacksTo; simp [h]

theorem wp_allocArg {C : Prop} {sem : DSem} {st : Store} {d : Nat → Prop} {e : Enc} {w : World}
    (hinv : st.Inv) (h : EInv sem st d e w) (hw : W0 w) {l : Nat} (hfresh : ∀ i, ¬ st.Live i l) :
    wp C (allocArg e st.labels.length) w (fun e1 w1 =>
      EInv sem (st.pushArg l) (fun j => d j ∨ j = st.labels.length) e1 w1 ∧ e1.enabled = e.enabled) := by
  obtain ⟨hsem, T, F, hI⟩ := h
  unfold allocArg
  rw [wp_bind, wp_newSolverVar]
  have hle := hw.db_le
  generalize hnv : w.nVarsOf 0 = nv at hle
  have hr1 := allocVar_fst e (.arg st.labels.length) nv
  have hlt : ∀ c ∈ w.db 0, ∀ l ∈ c, l.var < (allocVar e (.arg st.labels.length) nv).1 := by
    intro c hc l' hl'
    have := hle c hc l' hl'
    omega
  have hav : ∀ (e1 : Enc) (v : Nat), e1.argVar = e.argVar ++ [some v] →
      ∀ j, e1.av j = if j = st.labels.length then some v else e.av j := by
    intro e1 v he j
    unfold Enc.av; rw [he, getD_push, hI.sz_a]
  have hsv : ∀ (e1 : Enc), e1.selVar = e.selVar ++ [none] → ∀ j, e1.sv j = e.sv j := by
    intro e1 he j
    unfold Enc.sv; rw [he, getD_push]
    split
    · rename_i hj; rw [hj, getD_ge _ _ _ (Nat.le_refl _)]
    · rfl
  cases hs : e.sem with
  | ST =>
    simp only
    refine ⟨⟨by show e.sem = sem; exact hsem, T, F, ?_⟩, rfl⟩
    rw [db_onNVars]
    refine inv_newArg_core hinv hI hfresh (v := (allocVar e (.arg st.labels.length) nv).1) (by omega) hlt rfl ?_
      (hav _ _ rfl) (hsv _ rfl) rfl (by simp) (by simp) ?_ (fun c hc => hc) (fun hn => absurd hs hn)
      (fun c hc => Or.inl hc)
    · intro x
      show (allocVar e (.arg st.labels.length) nv).2.ty x = _
      rw [ty_allocVar]
      split
      · rfl
      · rw [if_neg (by simp [hs])]
    · show e.vars.length ≤ (allocVar e (.arg st.labels.length) nv).2.vars.length
      omega
  | CO | PR =>
    all_goals
      simp only
      rw [wp_bind, wp_newSolverVar, nVarsOf_onNVars, hnv, wp_bind, wp_addClause]
      have hr2 := allocVar_fst (allocVar e (.arg st.labels.length) nv).2 (.disj st.labels.length) nv
      have hv2 : (allocVar (allocVar e (.arg st.labels.length) nv).2 (.disj st.labels.length) nv).1 =
          (allocVar e (.arg st.labels.length) nv).1 + 1 := by omega
      refine ⟨⟨by show e.sem = sem; exact hsem, T, F, ?_⟩, rfl⟩
      rw [db_onClause_same, db_onNVars, db_onNVars, hv2]
      refine inv_newArg_core hinv hI hfresh (v := (allocVar e (.arg st.labels.length) nv).1) (by omega) hlt rfl ?_
        (hav _ _ rfl) (hsv _ rfl) rfl (by simp) (by simp) ?_ (fun c hc => List.mem_cons_of_mem _ hc)
        (fun _ => List.mem_cons_self) ?_
      · intro x
        show (allocVar (allocVar e (.arg st.labels.length) nv).2 (.disj st.labels.length) nv).2.ty x = _
        rw [ty_allocVar, ty_allocVar, hv2]
        by_cases h1 : x = (allocVar e (.arg st.labels.length) nv).1
        · have h3 : ¬ x = (allocVar e (.arg st.labels.length) nv).1 + 1 := by omega
          simp only [h1, if_true] at *
          simp
        · by_cases h2 : x = (allocVar e (.arg st.labels.length) nv).1 + 1
          · simp [h1, h2, hs]
          · simp [h1, h2]
      · show e.vars.length ≤ (allocVar (allocVar e (.arg st.labels.length) nv).2 (.disj st.labels.length) nv).2.vars.length
        omega
      · intro c hc
        rcases List.mem_cons.1 hc with rfl | hc
        · exact Or.inr ⟨by simp [hs], rfl⟩
        · exact Or.inl hc

end Crusta.Dyn
