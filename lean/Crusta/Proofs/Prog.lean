import Crusta.Model.Prog

/-!
# Generic theorems about solver programs (all `Prog` values, hence all modelled solve sites)

* a run that produces an answer consumed no `unknown` reply (C17);
* if the reply to some call is `unknown` the run aborts at that call — whatever the program;
* the number of SAT calls is the number of replies consumed (C18 counts this).
-/

namespace Crusta

theorem Prog.bind_eq {α β : Type} (p : Prog α) (f : α → Prog β) : (p >>= f) = p.bind f := rfl
theorem Prog.pure_eq {α : Type} (a : α) : (pure a : Prog α) = Prog.pure a := rfl

theorem interp_calls_mono {α : Type} (p : Prog α) : ∀ (rs : List Reply) (w : World),
    (interp p rs w).2.calls ≥ w.calls := by
  induction p with
  | pure a => intro rs w; simp [interp]
  | crash m => intro rs w; simp [interp]
  | newSolver k ih => intro rs w; simp only [interp]; exact ih _ rs _
  | reserve s n k ih => intro rs w; simp only [interp]; exact ih rs _
  | clause s c k ih => intro rs w; simp only [interp]; exact ih rs _
  | nVars s k ih => intro rs w; simp only [interp]; exact ih _ rs _
  | solve s a k ih =>
    intro rs w
    cases rs with
    | nil => simp [interp]
    | cons r rs' =>
      cases r with
      | unknown => simp [interp]
      | unsat => simp only [interp]; have := ih none rs' ((w.onSolve s a).onReply s .unsat); simp at this; omega
      | sat m => simp only [interp]; have := ih (some m) rs' ((w.onSolve s a).onReply s (.sat m)); simp at this; omega

/-- **C17, model level**: whenever a program run ends with an answer, none of the replies it
consumed was `unknown`, and it consumed exactly `calls` replies. -/
theorem done_consumed_no_unknown {α : Type} (p : Prog α) : ∀ (rs : List Reply) (w w' : World) (a : α),
    interp p rs w = (.done a, w') →
      w'.calls - w.calls ≤ rs.length ∧ Reply.unknown ∉ rs.take (w'.calls - w.calls) := by
  induction p with
  | pure a0 =>
    intro rs w w' a h
    simp only [interp, Prod.mk.injEq] at h
    obtain ⟨_, rfl⟩ := h
    simp
  | crash m => intro rs w w' a h; simp [interp] at h
  | newSolver k ih =>
    intro rs w w' a h; simp only [interp] at h
    have := ih _ rs _ w' a h; simpa using this
  | reserve s n k ih =>
    intro rs w w' a h; simp only [interp] at h
    have := ih rs _ w' a h; simpa using this
  | clause s c k ih =>
    intro rs w w' a h; simp only [interp] at h
    have := ih rs _ w' a h; simpa using this
  | nVars s k ih =>
    intro rs w w' a h; simp only [interp] at h
    have := ih _ rs _ w' a h; simpa using this
  | solve s as k ih =>
    intro rs w w' a h
    cases rs with
    | nil => simp [interp] at h
    | cons r rs' =>
      cases r with
      | unknown => simp [interp] at h
      | unsat =>
        simp only [interp] at h
        have hm := interp_calls_mono (k none) rs' ((w.onSolve s as).onReply s .unsat)
        rw [h] at hm
        have := ih none rs' _ w' a h
        simp only [World.onReply_calls, World.onSolve_calls] at this hm
        have e : w'.calls - w.calls = (w'.calls - (w.calls + 1)) + 1 := by omega
        rw [e]
        refine ⟨by simp; omega, ?_⟩
        simp only [List.take_succ_cons, List.mem_cons, not_or]
        exact ⟨by simp, this.2⟩
      | sat m =>
        simp only [interp] at h
        have hm := interp_calls_mono (k (some m)) rs' ((w.onSolve s as).onReply s (.sat m))
        rw [h] at hm
        have := ih (some m) rs' _ w' a h
        simp only [World.onReply_calls, World.onSolve_calls] at this hm
        have e : w'.calls - w.calls = (w'.calls - (w.calls + 1)) + 1 := by omega
        rw [e]
        refine ⟨by simp; omega, ?_⟩
        simp only [List.take_succ_cons, List.mem_cons, not_or]
        exact ⟨by simp, this.2⟩

/-- **C17, positional form**: if the run on `pre` is starved (it asks for one more reply) and the
next reply is `unknown`, the run aborts — whatever the program and whatever follows. -/
theorem unknown_aborts {α : Type} (p : Prog α) : ∀ (pre post : List Reply) (w : World),
    (∃ w1, interp p pre w = (.starved, w1)) →
    ∃ w2, interp p (pre ++ Reply.unknown :: post) w = (.abort, w2) := by
  induction p with
  | pure a0 => intro pre post w ⟨w1, h⟩; simp [interp] at h
  | crash m => intro pre post w ⟨w1, h⟩; simp [interp] at h
  | newSolver k ih => intro pre post w h; simp only [interp] at h ⊢; exact ih _ pre post _ h
  | reserve s n k ih => intro pre post w h; simp only [interp] at h ⊢; exact ih pre post _ h
  | clause s c k ih => intro pre post w h; simp only [interp] at h ⊢; exact ih pre post _ h
  | nVars s k ih => intro pre post w h; simp only [interp] at h ⊢; exact ih _ pre post _ h
  | solve s as k ih =>
    intro pre post w ⟨w1, h⟩
    cases pre with
    | nil => simp only [List.nil_append, interp]; exact ⟨_, rfl⟩
    | cons r pre' =>
      cases r with
      | unknown => simp [interp] at h
      | unsat => simp only [interp, List.cons_append] at h ⊢; exact ih none pre' post _ ⟨w1, h⟩
      | sat m => simp only [interp, List.cons_append] at h ⊢; exact ih (some m) pre' post _ ⟨w1, h⟩

/-- `bind` runs the first program, then the second on the remaining replies -/
theorem interp_bind {α β : Type} (p : Prog α) (f : α → Prog β) : ∀ (rs : List Reply) (w : World),
    interp (p.bind f) rs w =
      match interp p rs w with
      | (.done a, w') => interp (f a) (rs.drop (w'.calls - w.calls)) w'
      | (.abort, w') => (.abort, w')
      | (.crashed m, w') => (.crashed m, w')
      | (.starved, w') => (.starved, w') := by
  induction p with
  | pure a0 => intro rs w; simp [Prog.bind, interp]
  | crash m => intro rs w; simp [Prog.bind, interp]
  | newSolver k ih => intro rs w; simp only [Prog.bind, interp]; rw [ih]; simp
  | reserve s n k ih => intro rs w; simp only [Prog.bind, interp]; rw [ih]; simp
  | clause s c k ih => intro rs w; simp only [Prog.bind, interp]; rw [ih]; simp
  | nVars s k ih => intro rs w; simp only [Prog.bind, interp]; rw [ih]; simp
  | solve s as k ih =>
    intro rs w
    cases rs with
    | nil => simp [Prog.bind, interp]
    | cons r rs' =>
      cases r with
      | unknown => simp [Prog.bind, interp]
      | unsat =>
        simp only [Prog.bind, interp]
        rw [ih]
        have hm := interp_calls_mono (k none) rs' ((w.onSolve s as).onReply s .unsat)
        generalize interp (k none) rs' _ = res at hm ⊢
        obtain ⟨oc, w'⟩ := res
        cases oc <;> simp only
        simp only [World.onReply_calls, World.onSolve_calls] at hm ⊢
        have e : w'.calls - w.calls = (w'.calls - (w.calls + 1)) + 1 := by omega
        rw [e, List.drop_succ_cons]
      | sat m =>
        simp only [Prog.bind, interp]
        rw [ih]
        have hm := interp_calls_mono (k (some m)) rs' ((w.onSolve s as).onReply s (.sat m))
        generalize interp (k (some m)) rs' _ = res at hm ⊢
        obtain ⟨oc, w'⟩ := res
        cases oc <;> simp only
        simp only [World.onReply_calls, World.onSolve_calls] at hm ⊢
        have e : w'.calls - w.calls = (w'.calls - (w.calls + 1)) + 1 := by omega
        rw [e, List.drop_succ_cons]

end Crusta
