import Crusta.Proofs.SolveID
import Crusta.Proofs.StaticPRCO

/-!
# Ideal solver: entry points on the whole framework

* `G.idealSet`: the union of the ideal candidates; on a graph with a preferred extension it is the
  ideal extension, and every ideal extension equals it (`G.ideal_eq`), so credulous and skeptical
  acceptance coincide (`id_cred_iff_skep`);
* `id_se_ok`, `id_dc_ok`, `id_dc_cert_ok`, `id_ds_cert_ok`: the entry points of the ideal solver;
* `id_entry_ok`: every entry point offered by the solver type (the skeptical status without
  certificate is answered by the credulous procedure).
-/

namespace Crusta
open Prog (mkSolver doReserve addClause addClauses getNVars doSolve)

/-! ## the ideal extension of a graph: existence and uniqueness -/

/-- the union of all ideal candidates -/
noncomputable def G.idealSet (g : G) : ASet :=
  fun a => @decide (∃ S, g.IdealCand S ∧ S a = true) (Classical.propDecidable _)

theorem G.idealSet_true (g : G) (a : Nat) : g.idealSet a = true ↔ ∃ S, g.IdealCand S ∧ S a = true := by
  unfold G.idealSet
  exact @decide_eq_true_iff _ (Classical.propDecidable _)

theorem G.idealCand_sub_idealSet {g : G} {S : ASet} (h : g.IdealCand S) : SubsetS S g.idealSet :=
  fun a ha => (g.idealSet_true a).2 ⟨S, h, ha⟩

theorem G.idealSet_cand {g : G} (hex : ∃ P, g.Preferred P) : g.IdealCand g.idealSet := by
  obtain ⟨P, hP⟩ := hex
  have hsubP : ∀ Q, g.Preferred Q → SubsetS g.idealSet Q := by
    intro Q hQ a ha
    obtain ⟨S, hS, hSa⟩ := (g.idealSet_true a).1 ha
    exact hS.2 Q hQ a hSa
  refine ⟨⟨⟨?_, ?_⟩, ?_⟩, hsubP⟩
  · intro a ha
    obtain ⟨S, hS, hSa⟩ := (g.idealSet_true a).1 ha
    exact hS.1.1.1 a hSa
  · rintro a ha ⟨b, hba, hb⟩
    exact hP.1.1.2 a (hsubP P hP a ha) ⟨b, hba, hsubP P hP b hb⟩
  · intro a ha b hba
    obtain ⟨S, hS, hSa⟩ := (g.idealSet_true a).1 ha
    obtain ⟨c, hcb, hc⟩ := hS.1.2 a hSa b hba
    exact ⟨c, hcb, G.idealCand_sub_idealSet hS c hc⟩

theorem G.idealSet_ideal {g : G} (hex : ∃ P, g.Preferred P) : g.Ideal g.idealSet :=
  ⟨G.idealSet_cand hex, fun _ hT _ => G.idealCand_sub_idealSet hT⟩

/-- every ideal extension is the union of the ideal candidates -/
theorem G.ideal_eq {g : G} (hex : ∃ P, g.Preferred P) {S : ASet} (h : g.Ideal S) (a : Nat) : S a = g.idealSet a := by
  rw [Bool.eq_iff_iff]
  exact ⟨fun ha => G.idealCand_sub_idealSet h.1 a ha,
    fun ha => h.2 _ (G.idealSet_cand hex) (G.idealCand_sub_idealSet h.1) a ha⟩

theorem G.ideal_unique {g : G} (hex : ∃ P, g.Preferred P) {S T : ASet} (hS : g.Ideal S) (hT : g.Ideal T) (a : Nat) :
    S a = T a := by
  rw [G.ideal_eq hex hS, G.ideal_eq hex hT]

theorem G.exists_ideal (g : G) (hfin : ∃ n, ∀ a, g.live a = true → a < n) : ∃ S, g.Ext .ID S :=
  ⟨_, G.idealSet_ideal (g.exists_preferred hfin)⟩

/-- one ideal extension: credulous and skeptical acceptance coincide -/
theorem id_cred_iff_skep (g : G) (hfin : ∃ n, ∀ a, g.live a = true → a < n) (args : List Nat) :
    (∃ S, Sem.GExt .ID g S ∧ HitsL args S) ↔ (∀ S, Sem.GExt .ID g S → HitsL args S) := by
  have hex := g.exists_preferred hfin
  constructor
  · rintro ⟨S, hS, hh⟩ T hT
    exact (HitsL.congr (G.ideal_unique hex hS hT)).1 hh
  · intro h
    exact ⟨_, G.idealSet_ideal hex, h _ (G.idealSet_ideal hex)⟩

/-- credulous acceptance of a disjunction for the ideal semantics: the merged component decides -/
theorem id_cred_lift {g : G} {v : FwView} (hv : v.Ok g) {c : Comp} (hgood : GoodComp g c) {args pos : List Nat}
    (hin : ∀ a ∈ args, a ∈ c.ids) (hpos : posAll c args = some pos) :
    (∃ T, Ideal c.af T ∧ Hits pos T) ↔ (∃ S, Sem.GExt .ID g S ∧ HitsL args S) := by
  have := comp_ext_exists hgood hv.fin .ID (g.exists_ideal hv.fin) (HitsL args)
  constructor
  · rintro ⟨T, hT, hh⟩
    obtain ⟨S, hS, hh'⟩ := this.1 ⟨T, hT, (hits_up hgood hpos T).1 hh⟩
    exact ⟨S, hS, (hitsL_inter hin S).1 hh'⟩
  · rintro ⟨S, hS, hh⟩
    obtain ⟨T, hT, hh'⟩ := this.2 ⟨S, hS, (hitsL_inter hin S).2 hh⟩
    exact ⟨T, hT, (hits_up hgood hpos T).2 hh'⟩

theorem posAll_lt {g : G} {c : Comp} (hgood : GoodComp g c) {args pos : List Nat} (hpos : posAll c args = some pos) :
    ∀ p ∈ pos, p < c.af.n := by
  intro p hp
  obtain ⟨a, _, hpa⟩ := (mem_posAll hpos p).1 hp
  exact Comp.pos_lt hgood.n_eq hpa

/-! ## one component, mapped back to original ids -/

/-- the per-component function of `idDCcert`'s loop over the remaining components -/
theorem wp_idOneBack (cfg : Cfg) (hk : ∀ af T, cfg.enc.Base af T ↔ Complete af T) {g : G} (c : Comp)
    (hgood : GoodComp g c) (w : World) (hb : w.Bounded) :
    wp True (do let e ← idOneForCc cfg c; pure (c.back e)) w (fun r w' => w'.Bounded ∧
      ∃ e, r = c.back e ∧ Ideal c.af (ofList e) ∧ ∀ a ∈ e, a < c.af.n) := by
  simp only [Prog.bind_eq]
  rw [wp_bind]
  refine wp_mono _ _ _ _ ?_ (wp_idOneForCc cfg hk c (Comp.af_wf hgood) (GrOK_of_wf _ (Comp.af_wf hgood)) w hb)
  rintro e w' ⟨hb', hI, hlt⟩
  exact ⟨hb', e, rfl, hI, hlt⟩

/-- the per-component function of `idSE`: a throw-away solver is created and encoded first -/
theorem wp_idSEComp (cfg : Cfg) (hk : ∀ af T, cfg.enc.Base af T ↔ Complete af T) {g : G} (c : Comp)
    (hgood : GoodComp g c) (w : World) (hb : w.Bounded) :
    wp True (do
        let s0 ← mkSolver
        encodeInto cfg.enc c.af s0 false
        let e ← idOneForCc cfg c
        pure (c.back e)) w (fun r w' => w'.Bounded ∧
      ∃ e, r = c.back e ∧ Sem.Ext .ID c.af (ofList e) ∧ ∀ a ∈ e, a < c.af.n) := by
  simp only [Prog.bind_eq]
  rw [wp_bind, wp_mkSolver, wp_bind]
  have hlen : w.solvers.length < w.onNew.solvers.length := by simp [World.onNew]
  apply wp_encodeInto _ _ _ _ _ (Bounded_onNew hb) hlen (db_onNew_self w)
  intro w1 henc _
  exact wp_idOneBack cfg hk c hgood w1 henc.bounded

/-! ## SE-ID -/

/-- **SE-ID** (with the invariant of the world, for reuse) -/
theorem id_se_ext (cfg : Cfg) (hk : ∀ af T, cfg.enc.Base af T ↔ Complete af T) (v : FwView) (g : G) (hv : v.Ok g)
    (w : World) (hb : w.Bounded) :
    wp True (idSE cfg v) w (fun res w' => w'.Bounded ∧ ∃ e, res = some e ∧ g.Ideal (ofList e)) := by
  unfold idSE
  simp only [Prog.bind_eq]
  rw [wp_bind]
  refine wp_mono _ _ _ _ ?_ (se_by_components .ID _ v g hv ?_ w hb)
  · rintro res w' ⟨hb', hext⟩
    exact ⟨hb', res, rfl, hext⟩
  · intro c w hb hc
    exact wp_idSEComp cfg hk c hc w hb

/-- **SE-ID** -/
theorem id_se_ok (cfg : Cfg) (hk : ∀ af T, cfg.enc.Base af T ↔ Complete af T) (v : FwView) (g : G) (hv : v.Ok g)
    (w : World) (hb : w.Bounded) :
    wp True (idSE cfg v) w (fun res _ => SEOK .ID g res) := by
  refine wp_mono _ _ _ _ ?_ (id_se_ext cfg hk v g hv w hb)
  rintro res w' ⟨_, e, rfl, hext⟩
  refine ⟨fun e' he => ?_, fun h => by cases h⟩
  injection he with he; subst he
  exact hext

/-! ## DC-ID -/

/-- **DC-ID** (status) -/
theorem id_dc_ok (cfg : Cfg) (hk : ∀ af T, cfg.enc.Base af T ↔ Complete af T) (v : FwView) (g : G) (hv : v.Ok g)
    (args : List Nat) (hargs : ∀ a ∈ args, g.live a = true) (w : World) (hb : w.Bounded) :
    wp True (idDC cfg v args) w (fun a _ => DCOK .ID g args false a ∧ a.cert = none) := by
  unfold idDC
  simp only [Prog.bind_eq]
  rw [wp_bind]
  apply wp_needComp trivial
  intro c cc hcc
  obtain ⟨c', hc', hgood, hin, _⟩ := CC.mergedOf_spec v g hv args hargs _ _ hcc
  injection hc' with hc'; subst hc'
  simp only
  rw [wp_bind]
  apply wp_ccArgs trivial
  intro pos hpos
  rw [wp_bind]
  refine wp_mono _ _ _ _ ?_ (wp_idCredForCc cfg hk c pos (posAll_lt hgood hpos) (Comp.af_wf hgood)
    (GrOK_of_wf _ (Comp.af_wf hgood)) w hb)
  rintro ⟨st, ce⟩ w' ⟨_, h1, h2⟩
  have hkey := id_cred_lift hv hgood hin hpos
  refine ⟨⟨fun hst => ⟨?_, fun hc => by cases hc⟩, fun hst => ⟨?_, fun hc => by cases hc⟩⟩, rfl⟩
  · obtain ⟨e, _, hI, hh, _⟩ := h1 hst
    exact hkey.1 ⟨_, hI, hh⟩
  · intro hn
    obtain ⟨T, hT, hh⟩ := hkey.2 hn
    exact (h2 hst).2 T hT hh

/-- **DC-ID** (certificate variant) -/
theorem id_dc_cert_ok (cfg : Cfg) (hk : ∀ af T, cfg.enc.Base af T ↔ Complete af T) (v : FwView) (g : G) (hv : v.Ok g)
    (args : List Nat) (hargs : ∀ a ∈ args, g.live a = true) (w : World) (hb : w.Bounded) :
    wp True (idDCcert cfg v args) w (fun a _ => DCOK .ID g args true a) := by
  unfold idDCcert
  simp only [Prog.bind_eq]
  rw [wp_bind]
  apply wp_needComp trivial
  intro c cc hcc
  obtain ⟨c', hc', hgood, hin, hI⟩ := CC.mergedOf_spec v g hv args hargs _ _ hcc
  injection hc' with hc'; subst hc'
  simp only
  rw [wp_bind]
  apply wp_ccArgs trivial
  intro pos hpos
  rw [wp_bind]
  refine wp_mono _ _ _ _ ?_ (wp_idCredForCc cfg hk c pos (posAll_lt hgood hpos) (Comp.af_wf hgood)
    (GrOK_of_wf _ (Comp.af_wf hgood)) w hb)
  rintro ⟨st, ce⟩ w1 ⟨hb1, h1, h2⟩
  have hkey := id_cred_lift hv hgood hin hpos
  cases st with
  | true =>
    obtain ⟨e, he, hIe, hhit, hlt⟩ := h1 rfl
    simp only at he
    subst he
    show wp True ((otherCompsWith v _ cfg.fuel cc _).bind _) _ _
    rw [wp_bind]
    refine wp_mono _ _ _ _ ?_ (wp_otherCompsWith v g hv (fun oc => do let e ← idOneForCc cfg oc; pure (oc.back e))
      (fun oc r => ∃ e, r = oc.back e ∧ Ideal oc.af (ofList e) ∧ ∀ a ∈ e, a < oc.af.n)
      (fun oc w' hb' hg' => wp_idOneBack cfg hk oc hg' w' hb') cfg.fuel cc _ _ _ hI hb1)
    rintro res w' ⟨_, cs, rs, hlen', hres', hgs, hdisj, hun, hcov, hall⟩
    obtain ⟨hext, hhits⟩ := assemble_cert hv .ID hgood hin (c.back e)
      ((Comp.ext_back_iff hgood .ID _ hlt).1 hIe) (Comp.back_mem hgood _) cs rs hlen' hgs hdisj hun hcov (by
        intro i c' r hci hri
        have hg' := hgs c' (List.mem_of_getElem? hci)
        obtain ⟨e', rfl, hp', hlt'⟩ := hall i c' r hci hri
        exact ⟨(Comp.ext_back_iff hg' .ID _ hlt').1 hp', Comp.back_mem hg' _⟩)
    rw [← hres'] at hext hhits
    have hh : HitsL args (ofList res) := by
      rw [hhits, Comp.ofList_back hgood _ hlt]
      exact (hits_up hgood hpos _).1 hhit
    show DCOK .ID g args true ⟨true, some res⟩
    exact ⟨fun _ => ⟨⟨_, hext, hh⟩, fun _ => ⟨res, rfl, hext, hh⟩⟩, fun hf => by cases hf⟩
  | false =>
    obtain ⟨he, hno⟩ := h2 rfl
    simp only at he
    subst he
    show DCOK .ID g args true ⟨false, none⟩
    refine ⟨fun hf => (by cases hf), fun _ => ⟨fun hn => ?_, fun _ => rfl⟩⟩
    obtain ⟨T, hT, hh⟩ := hkey.2 hn
    exact hno T hT hh

/-! ## DS-ID -/

/-- **DS-ID** (certificate variant): the whole ideal extension is computed and inspected -/
theorem id_ds_cert_ok (cfg : Cfg) (hk : ∀ af T, cfg.enc.Base af T ↔ Complete af T) (v : FwView) (g : G) (hv : v.Ok g)
    (args : List Nat) (_hargs : ∀ a ∈ args, g.live a = true) (w : World) (hb : w.Bounded) :
    wp True (idDScert cfg v args) w (fun a _ => DSOK .ID g args true a) := by
  unfold idDScert
  simp only [Prog.bind_eq]
  rw [wp_bind]
  refine wp_mono _ _ _ _ ?_ (id_se_ext cfg hk v g hv w hb)
  rintro res w' ⟨_, ext, rfl, hext⟩
  have hex := g.exists_preferred hv.fin
  by_cases hany : args.any ext.contains = true
  · simp only [hany, if_true]
    show DSOK .ID g args true ⟨true, none⟩
    refine ⟨fun _ => ⟨fun S hS => ?_, fun _ => rfl⟩, fun hf => (by cases hf)⟩
    exact (HitsL.congr (G.ideal_unique hex hext hS)).1 ((hitsL_any _ _).1 hany)
  · simp only [hany]
    have hn : ¬ HitsL args (ofList ext) := fun hh => hany ((hitsL_any _ _).2 hh)
    show DSOK .ID g args true ⟨false, some ext⟩
    exact ⟨fun hf => (by cases hf), fun _ => ⟨⟨_, hext, hn⟩, fun _ => ⟨ext, rfl, hext, hn⟩⟩⟩

/-- for the ideal semantics a correct credulous status is a correct skeptical status -/
theorem DSOK_of_DCOK_id {g : G} (hfin : ∃ n, ∀ a, g.live a = true → a < n) {args : List Nat} {a : AccAns}
    (h : DCOK .ID g args false a) : DSOK .ID g args false a := by
  have hiff := id_cred_iff_skep g hfin args
  refine ⟨fun hs => ⟨hiff.1 (h.1 hs).1, fun hc => by cases hc⟩, fun hs => ⟨?_, fun hc => by cases hc⟩⟩
  have hn := (h.2 hs).1
  refine ⟨_, G.idealSet_ideal (g.exists_preferred hfin), fun hh => hn ⟨_, G.idealSet_ideal (g.exists_preferred hfin), hh⟩⟩

/-- **DS-ID** (status): the credulous procedure answers the skeptical query -/
theorem id_ds_ok (cfg : Cfg) (hk : ∀ af T, cfg.enc.Base af T ↔ Complete af T) (v : FwView) (g : G) (hv : v.Ok g)
    (args : List Nat) (hargs : ∀ a ∈ args, g.live a = true) (w : World) (hb : w.Bounded) :
    wp True (idDC cfg v args) w (fun a _ => DSOK .ID g args false a ∧ a.cert = none) := by
  refine wp_mono _ _ _ _ ?_ (id_dc_ok cfg hk v g hv args hargs w hb)
  intro a _ ha
  exact ⟨DSOK_of_DCOK_id hv.fin ha.1, ha.2⟩

/-! ## entry points -/

/-- **all entry points of the ideal solver** (`se`, `dc` and `ds`, with and without certificate) -/
theorem id_entry_ok (cfg : Cfg) (hk : ∀ af T, cfg.enc.Base af T ↔ Complete af T) (v : FwView) (g : G) (hv : v.Ok g)
    (e : Entry) (hargs : ∀ a, a ∈ e.argsList → g.live a = true) (p : Prog Ans)
    (hp : entryProg .ID cfg v e = some p) (w : World) (hb : w.Bounded) :
    wp True p w (fun ans _ => EntryOK .ID g e ans) := by
  cases e with
  | se =>
    simp only [entryProg, Option.some.injEq] at hp
    subst hp
    simp only [Prog.bind_eq]
    rw [wp_bind]
    exact id_se_ok cfg hk v g hv w hb
  | dc cert args =>
    simp only [entryProg, Option.some.injEq] at hp
    subst hp
    unfold certOnly
    simp only [Prog.bind_eq]
    rw [wp_bind]
    cases cert with
    | true =>
      simp only [if_true]
      refine wp_mono _ _ _ _ ?_ (id_dc_cert_ok cfg hk v g hv args hargs w hb)
      intro a _ ha
      exact ⟨rfl, ha, fun hc => by cases hc⟩
    | false =>
      simp only [Bool.false_eq_true, if_false]
      refine wp_mono _ _ _ _ ?_ (id_dc_ok cfg hk v g hv args hargs w hb)
      intro a _ ha
      exact ⟨rfl, DCOK_false_strip ha.1, fun _ => rfl⟩
  | ds cert args =>
    simp only [entryProg, Option.some.injEq] at hp
    subst hp
    unfold certOnly
    simp only [Prog.bind_eq]
    rw [wp_bind]
    cases cert with
    | true =>
      simp only [if_true]
      refine wp_mono _ _ _ _ ?_ (id_ds_cert_ok cfg hk v g hv args hargs w hb)
      intro a _ ha
      exact ⟨rfl, ha, fun hc => by cases hc⟩
    | false =>
      simp only [Bool.false_eq_true, if_false]
      refine wp_mono _ _ _ _ ?_ (id_ds_ok cfg hk v g hv args hargs w hb)
      intro a _ ha
      exact ⟨rfl, DSOK_false_strip ha.1, fun _ => rfl⟩

end Crusta
