import Crusta.Proofs.DynAttOps
import Crusta.Proofs.DynReplay

/-!
# Replay of the buffered updates and `update_encoding` of the attack-assumption solvers

`EState sem st e w`: the part of the encoder state that always holds (`WInv`) and, when no encoding is
due, the invariant `AInv` on the clause database of the solver in the shared cell.  It is
preserved by the three encoder updates (none of which can panic on an update accepted by the
store) and re-established by a re-encoding; `wp_updateEncoding` is the resulting statement about
`BufferedDynamicConstraintsEncoder::update_encoding`: afterwards no encoding is due, the solver's
framework is the pending one, and `AInv` holds.
-/

namespace Crusta.DynAtt
open Crusta Crusta.Dyn Crusta.Store

/-- what holds of the encoder whatever `need_to_encode` says -/
structure WInv (sem : DSem) (e : AEnc) : Prop where
  sem_eq : e.sem = sem
  sem_ok : sem ≠ .PR
  fac : 0 < e.den ∧ e.den ≤ e.num
  av_lt : ∀ i v, e.av i = some v → v < e.vars.length

def EState (sem : DSem) (st : Store) (e : AEnc) (w : World) : Prop :=
  WInv sem e ∧ (e.needToEncode = false → AInv st e (w.db e.solver))

theorem WInv.sem_ne {sem : DSem} {e : AEnc} (h : WInv sem e) : e.sem ≠ .PR := by
  rw [h.sem_eq]; exact h.sem_ok

theorem scaled_ge {sem : DSem} {e : AEnc} (h : WInv sem e) (m : Nat) : m ≤ e.scaled m := by
  unfold AEnc.scaled
  rw [Nat.le_div_iff_mul_le h.fac.1]
  exact Nat.mul_le_mul_left m h.fac.2

/-! ## a new argument -/

theorem ainv_newArg {st : Store} {e : AEnc} {Γ : Cnf} (h : AInv st e Γ)
    (hnd : e.nextDummy < e.nArgVars) (l : Nat) (e' : AEnc)
    (hsem : e'.sem = e.sem) (hn : e'.nArgVars = e.nArgVars) (hnd' : e'.nextDummy = e.nextDummy + 1)
    (hav : e'.argVar = e.argVar ++ [some e.nextDummy])
    (hlen : e'.vars.length = e.vars.length)
    (hty_nd : e'.ty e.nextDummy = .arg st.labels.length)
    (hty_lt : ∀ v, v < e.nextDummy → e'.ty v = e.ty v)
    (hty_arg : ∀ v i, e'.ty v = .arg i → v = e.nextDummy ∨ e.ty v = .arg i) :
    AInv (st.pushArg l) e' Γ := by
  have hsz : e.argVar.length = st.labels.length := h.sz (by omega)
  have hav_old : ∀ j, j < st.labels.length → e'.av j = e.av j := by
    intro j hj
    unfold AEnc.av
    rw [hav, getD_append_lt _ _ _ _ (by omega)]
  have hav_new : e'.av st.labels.length = some e.nextDummy := by
    unfold AEnc.av
    rw [hav, ← hsz, getD_append_len]
  have hid_old : ∀ j, st.hasId j = true → (st.pushArg l).hasId j = true := by
    intro j hj; rw [hasId_pushArg, hj]; rfl
  constructor
  · intro c hc; rw [hsem, hn] at hc; exact h.enc_in c hc
  · intro c hc
    rcases h.db_kind c hc with hk | ⟨v, rfl, h1, h2, h3⟩
    · left; rw [hsem, hn]; exact hk
    · right
      refine ⟨v, rfl, h1, by omega, ?_⟩
      rw [hty_lt v (h.unit_lt v hc)]; exact h3
  · intro j hj
    rw [hasId_pushArg] at hj
    by_cases hjl : j = st.labels.length
    · subst hjl
      exact ⟨e.nextDummy, hav_new, h.nd_pos, by omega, hty_nd⟩
    · have hj' : st.hasId j = true := by
        have : (j == st.labels.length) = false := by simp [hjl]
        simpa [this] using hj
      obtain ⟨v, h1, h2, h3, h4⟩ := h.av_live j hj'
      refine ⟨v, by rw [hav_old j (hasId_lt hj')]; exact h1, h2, by omega, ?_⟩
      rw [hty_lt v (h.arg_lt v j h4)]; exact h4
  · intro v i hv
    rcases hty_arg v i hv with rfl | hold
    · rw [hty_nd] at hv
      have : st.labels.length = i := AVarType.arg.inj hv
      subst this
      refine ⟨by rw [hasId_pushArg]; simp, hav_new⟩
    · obtain ⟨h1, h2⟩ := h.ty_arg v i hold
      exact ⟨hid_old i h1, by rw [hav_old i (hasId_lt h1)]; exact h2⟩
  · intro v i hv
    rcases hty_arg v i hv with rfl | hold
    · omega
    · have := h.arg_lt v i hold; omega
  · intro v hv; have := h.unit_lt v hv; omega
  · omega
  · omega
  · intro _
    rw [hav]
    simp [pushArg, hsz]
  · have := h.vars_len
    rw [hsem, hn, hlen]; exact this

theorem maxId_pushArg (st : Store) (l : Nat) : (st.pushArg l).maxId = some st.labels.length := by
  simp [Store.maxId, pushArg]

theorem wp_encNewArgument {C : Prop} {sem : DSem} {st : Store} {e : AEnc} {w : World} (hinv : st.Inv)
    (hE : EState sem st e w) {l : Nat} (hfresh : ∀ i, ¬ st.Live i l) :
    wp C (encNewArgument st e l) w (fun p w' => p.1 = st.pushArg l ∧ EState sem (st.pushArg l) p.2 w') := by
  obtain ⟨hW, hA⟩ := hE
  unfold encNewArgument
  rw [newArgument_fresh hinv hfresh]
  simp only
  by_cases hcond : (e.needToEncode || decide (e.nextDummy ≥ e.nArgVars)) = true
  · rw [if_pos hcond]
    refine ⟨rfl, ⟨hW.sem_eq, hW.sem_ok, hW.fac, hW.av_lt⟩, ?_⟩
    intro hne; cases hne
  · rw [if_neg hcond]
    simp only [Bool.or_eq_true, decide_eq_true_eq, not_or, Bool.not_eq_true] at hcond
    obtain ⟨hneed, hnd⟩ := hcond
    have hnd : e.nextDummy < e.nArgVars := by omega
    have h := hA hneed
    rw [maxId_pushArg]
    simp only
    obtain ⟨hvl1, hvl2⟩ := h.vars_len
    have hlt : ¬ e.nextDummy ≥ e.vars.length := by omega
    rw [if_neg hlt]
    have hav_lt' : ∀ (vars' : List AVarType), vars'.length = e.vars.length →
        ∀ i v, (e.argVar ++ [some e.nextDummy]).getD i none = some v → v < vars'.length := by
      intro vars' hl' i v hv
      rw [hl']
      by_cases hi : i < e.argVar.length
      · rw [getD_append_lt _ _ _ _ hi] at hv; exact hW.av_lt i v hv
      · by_cases hi2 : i = e.argVar.length
        · subst hi2
          rw [getD_append_len] at hv
          have : e.nextDummy = v := Option.some.inj hv
          omega
        · rw [getD_append_gt _ _ _ _ (by omega)] at hv; cases hv
    cases hs : e.sem with
    | PR => exact absurd hs hW.sem_ne
    | ST =>
      simp only
      refine ⟨rfl, ⟨by rw [← hW.sem_eq, hs], hW.sem_ok, hW.fac, hav_lt' _ (by simp)⟩, ?_⟩
      intro _
      apply ainv_newArg h hnd l
      · exact hs.symm
      · rfl
      · rfl
      · rfl
      · simp
      · show (e.vars.set e.nextDummy (.arg st.labels.length)).getD e.nextDummy .ignored = _
        rw [getD_set_eq _ _ _ _ (by omega)]
      · intro v hv
        show (e.vars.set e.nextDummy (.arg st.labels.length)).getD v .ignored = _
        rw [getD_set_ne _ _ _ _ _ (by omega)]; rfl
      · intro v i hv
        by_cases hvn : v = e.nextDummy
        · exact Or.inl hvn
        · right
          have : (e.vars.set e.nextDummy (.arg st.labels.length)).getD v .ignored = .arg i := hv
          rw [getD_set_ne _ _ _ _ _ (fun h => hvn h.symm)] at this
          exact this
    | CO =>
      simp only
      have hdv : disjVar e.nArgVars e.nextDummy < e.vars.length := by
        have := hvl2 hs
        have h3 : e.nArgVars * (1 + e.nArgVars) = e.nArgVars + e.nArgVars * e.nArgVars := by
          rw [Nat.mul_add]; omega
        unfold disjVar; omega
      have hdv' : ¬ disjVar e.nArgVars e.nextDummy ≥ (e.vars.set e.nextDummy (.arg st.labels.length)).length := by
        simp; omega
      rw [if_neg hdv']
      have hdgt : e.nextDummy ≤ disjVar e.nArgVars e.nextDummy := by unfold disjVar; omega
      have hdne : disjVar e.nArgVars e.nextDummy ≠ e.nextDummy := by
        unfold disjVar
        have : 0 < e.nArgVars * (1 + e.nArgVars) := Nat.mul_pos (by omega) (by omega)
        omega
      refine ⟨rfl, ⟨by rw [← hW.sem_eq, hs], hW.sem_ok, hW.fac, hav_lt' _ (by simp)⟩, ?_⟩
      intro _
      apply ainv_newArg h hnd l
      · exact hs.symm
      · rfl
      · rfl
      · rfl
      · simp
      · show ((e.vars.set e.nextDummy (.arg st.labels.length)).set (disjVar e.nArgVars e.nextDummy)
            (.disj st.labels.length)).getD e.nextDummy .ignored = _
        rw [getD_set_ne _ _ _ _ _ hdne, getD_set_eq _ _ _ _ (by omega)]
      · intro v hv
        show ((e.vars.set e.nextDummy (.arg st.labels.length)).set (disjVar e.nArgVars e.nextDummy)
            (.disj st.labels.length)).getD v .ignored = _
        rw [getD_set_ne _ _ _ _ _ (by omega), getD_set_ne _ _ _ _ _ (by omega)]; rfl
      · intro v i hv
        by_cases hvn : v = e.nextDummy
        · exact Or.inl hvn
        · right
          have hv' : ((e.vars.set e.nextDummy (.arg st.labels.length)).set (disjVar e.nArgVars e.nextDummy)
            (.disj st.labels.length)).getD v .ignored = .arg i := hv
          by_cases hvd : v = disjVar e.nArgVars e.nextDummy
          · subst hvd
            rw [getD_set_eq _ _ _ _ (by simp; omega)] at hv'
            cases hv'
          · rw [getD_set_ne _ _ _ _ _ (fun h => hvd h.symm),
              getD_set_ne _ _ _ _ _ (fun h => hvn h.symm)] at hv'
            exact hv'

/-! ## a removed argument -/

theorem ainv_remArg {st : Store} {e : AEnc} {Γ : Cnf} (h : AInv st e Γ) {l id v : Nat}
    (hlive : st.hasId id = true) (hv : e.av id = some v) :
    AInv (st.dropArg l id) { e with vars := e.vars.set v .ignored, argVar := e.argVar.set id none }
      ([pl v] :: Γ) := by
  obtain ⟨v0, hv0, hv1, hv2, hv3⟩ := h.av_live id hlive
  rw [hv] at hv0
  obtain rfl := Option.some.inj hv0
  have hvlen : v < e.vars.length := by have := h.vars_len.1; omega
  have hty : ∀ u, ({ e with vars := e.vars.set v .ignored, argVar := e.argVar.set id none } : AEnc).ty u =
      if u = v then .ignored else e.ty u := by
    intro u
    show (e.vars.set v .ignored).getD u .ignored = _
    by_cases huv : u = v
    · subst huv; rw [if_pos rfl, getD_set_eq _ _ _ _ hvlen]
    · rw [if_neg huv, getD_set_ne _ _ _ _ _ (fun h => huv h.symm)]; rfl
  have hav : ∀ j, j ≠ id →
      ({ e with vars := e.vars.set v .ignored, argVar := e.argVar.set id none } : AEnc).av j = e.av j := by
    intro j hj
    show (e.argVar.set id none).getD j none = _
    rw [getD_set_ne _ _ _ _ _ (fun h => hj h.symm)]; rfl
  constructor
  · intro c hc; exact List.mem_cons_of_mem _ (h.enc_in c hc)
  · intro c hc
    rcases List.mem_cons.1 hc with rfl | hc
    · right
      refine ⟨v, rfl, hv1, hv2, ?_⟩
      intro a; rw [hty, if_pos rfl]; simp
    · rcases h.db_kind c hc with hk | ⟨u, rfl, h1, h2, h3⟩
      · exact Or.inl hk
      · right
        refine ⟨u, rfl, h1, h2, ?_⟩
        intro a; rw [hty]
        split
        · simp
        · exact h3 a
  · intro j hj
    rw [hasId_dropArg] at hj
    simp only [Bool.and_eq_true, Bool.not_eq_true', beq_eq_false_iff_ne, ne_eq] at hj
    obtain ⟨u, h1, h2, h3, h4⟩ := h.av_live j hj.1
    have hne : u ≠ v := by
      intro huv; subst huv
      rw [hv3] at h4
      exact hj.2 (AVarType.arg.inj h4).symm
    refine ⟨u, by rw [hav j hj.2]; exact h1, h2, h3, by rw [hty, if_neg hne]; exact h4⟩
  · intro u i hu
    rw [hty] at hu
    split at hu
    · cases hu
    · rename_i hne
      obtain ⟨h1, h2⟩ := h.ty_arg u i hu
      have hi : i ≠ id := by
        intro hi; subst hi
        rw [hv] at h2
        exact hne (Option.some.inj h2).symm
      refine ⟨?_, by rw [hav i hi]; exact h2⟩
      rw [hasId_dropArg, h1]; simp [hi]
  · intro u i hu
    rw [hty] at hu
    split at hu
    · cases hu
    · exact h.arg_lt u i hu
  · intro u hu
    rcases List.mem_cons.1 hu with hu | hu
    · have : u = v := by
        have := (List.cons.inj hu).1
        exact (Lit.mk.inj this).1
      rw [this]; exact h.arg_lt v id hv3
    · exact h.unit_lt u hu
  · exact h.nd_pos
  · exact h.nd_le
  · intro hp
    have := h.sz hp
    simp [dropArg, this]
  · have := h.vars_len
    simpa using this

theorem wp_encRemoveArgument {C : Prop} {sem : DSem} {st : Store} {e : AEnc} {w : World} (hinv : st.Inv)
    (hE : EState sem st e w) {l id : Nat} (hl : st.Live id l) :
    wp C (encRemoveArgument st e l) w (fun p w' => p.1 = st.dropArg l id ∧ EState sem (st.dropArg l id) p.2 w') := by
  obtain ⟨hW, hA⟩ := hE
  unfold encRemoveArgument
  rw [(getArg_eq_some hinv).2 hl, (removeArgument_spec hinv l).1 id hl]
  simp only
  have hlive : st.hasId id = true := hasId_iff.2 ⟨l, hl⟩
  by_cases hid : id < e.argVar.length
  · rw [if_pos hid]
    cases hv : e.argVar.getD id none with
    | none =>
      simp only
      refine ⟨rfl, ⟨hW.sem_eq, hW.sem_ok, hW.fac, ?_⟩, ?_⟩
      · intro i v' hv'
        have hv'' : (e.argVar.set id none).getD i none = some v' := hv'
        by_cases hi : i = id
        · subst hi; rw [getD_set_eq _ _ _ _ hid] at hv''; cases hv''
        · rw [getD_set_ne _ _ _ _ _ (fun h => hi h.symm)] at hv''; exact hW.av_lt i v' hv''
      · intro hne
        obtain ⟨v0, hv0, _⟩ := (hA hne).av_live id hlive
        have : e.argVar.getD id none = some v0 := hv0
        rw [hv] at this; cases this
    | some v =>
      simp only
      have hvlt : v < e.vars.length := hW.av_lt id v hv
      have hnlt : ¬ v ≥ e.vars.length := by omega
      rw [if_neg hnlt]
      simp only [Prog.addClause, Prog.bind, wp]
      refine ⟨trivial, ⟨hW.sem_eq, hW.sem_ok, hW.fac, ?_⟩, ?_⟩
      · intro i v' hv'
        have hv'' : (e.argVar.set id none).getD i none = some v' := hv'
        show v' < (e.vars.set v .ignored).length
        rw [List.length_set]
        by_cases hi : i = id
        · subst hi; rw [getD_set_eq _ _ _ _ hid] at hv''; cases hv''
        · rw [getD_set_ne _ _ _ _ _ (fun h => hi h.symm)] at hv''; exact hW.av_lt i v' hv''
      · intro hne
        have := ainv_remArg (hA hne) (l := l) hlive hv
        show AInv _ _ ((w.onClause e.solver [pl v]).db e.solver)
        rw [db_onClause_same]
        exact this
  · rw [if_neg hid]
    refine ⟨rfl, hW, ?_⟩
    intro hne
    exfalso
    have h := hA hne
    obtain ⟨v0, _, h1, h2, _⟩ := h.av_live id hlive
    have := h.sz (by omega)
    have := live_lt hl
    omega

/-! ## attacks -/

theorem AInv.store_change {st st' : Store} {e : AEnc} {Γ : Cnf} (h : AInv st e Γ)
    (hlab : st'.labels = st.labels) : AInv st' e Γ := by
  have hid : ∀ j, st'.hasId j = st.hasId j := by intro j; unfold Store.hasId; rw [hlab]
  exact ⟨h.enc_in, h.db_kind, fun i hi => h.av_live i (by rw [← hid]; exact hi),
    fun v i hv => by rw [hid]; exact h.ty_arg v i hv, h.arg_lt, h.unit_lt, h.nd_pos, h.nd_le,
    fun hp => by rw [hlab]; exact h.sz hp, h.vars_len⟩

theorem wp_encAttack {C : Prop} {sem : DSem} {st st1 : Store} {e : AEnc} {w : World} (hE : EState sem st e w)
    {add : Bool} {a b : Nat}
    (hstep : (if add = true then st.newAttack a b else st.removeAttack a b) = .ok st1)
    (hlab : st1.labels = st.labels) :
    wp C (encAttack add st e a b) w (fun p w' => p.1 = st1 ∧ EState sem st1 p.2 w') := by
  unfold encAttack
  rw [hstep]
  exact ⟨rfl, hE.1, fun hne => (hE.2 hne).store_change hlab⟩

/-! ## the replay loop and the re-encoding -/

theorem wp_replayEvent {C : Prop} {sem : DSem} {r : Store × AEnc} {w : World} (hinv : r.1.Inv) (hE : EState sem r.1 r.2 w)
    (ev : Event) : ∀ (st1 : Store), (match Event.op ev with | none => st1 = r.1 | some op => Eff r.1 op st1) →
    wp C (replayEvent r ev) w (fun r' w' => r'.1 = st1 ∧ r'.1.Inv ∧ EState sem r'.1 r'.2 w') := by
  cases ev with
  | cred a b c => intro st1 h1; simp only [Event.op] at h1; subst h1; exact ⟨rfl, hinv, hE⟩
  | skep a b c => intro st1 h1; simp only [Event.op] at h1; subst h1; exact ⟨rfl, hinv, hE⟩
  | newArg l =>
    intro st1 h1
    simp only [Event.op, Eff, Store.step] at h1
    obtain ⟨h1, h2⟩ := h1
    have hfresh : ∀ i, ¬ r.1.Live i l := by
      intro i hi
      rw [newArgument_existing hinv hi] at h1
      injection h1 with h1; subst h1
      exact Nat.lt_irrefl _ h2
    rw [newArgument_fresh hinv hfresh] at h1
    injection h1 with h1; subst h1
    unfold replayEvent
    refine wp_mono _ _ _ _ ?_ (wp_encNewArgument hinv hE hfresh)
    rintro ⟨af', e'⟩ w' ⟨rfl, hE'⟩
    exact ⟨rfl, inv_pushArg hinv hfresh, hE'⟩
  | remArg l =>
    intro st1 h1
    simp only [Event.op, Eff, Store.step, and_true] at h1
    have hex : ∃ id, r.1.Live id l := by
      apply Classical.byContradiction
      intro hn
      rw [(removeArgument_spec hinv l).2 (fun id hid => hn ⟨id, hid⟩)] at h1
      cases h1
    obtain ⟨id, hl⟩ := hex
    rw [(removeArgument_spec hinv l).1 id hl] at h1
    injection h1 with h1; subst h1
    unfold replayEvent
    refine wp_mono _ _ _ _ ?_ (wp_encRemoveArgument hinv hE hl)
    rintro ⟨af', e'⟩ w' ⟨rfl, hE'⟩
    exact ⟨rfl, inv_dropArg hinv hl, hE'⟩
  | newAtt la lb =>
    intro st1 h1
    simp only [Event.op, Eff, Store.step] at h1
    obtain ⟨h1, h2⟩ := h1
    have hexa : ∃ a, r.1.Live a la := by
      apply Classical.byContradiction
      intro hn
      rw [(newAttack_spec hinv la lb).2 (Or.inl (fun a ha => hn ⟨a, ha⟩))] at h1
      cases h1
    have hexb : ∃ b, r.1.Live b lb := by
      apply Classical.byContradiction
      intro hn
      rw [(newAttack_spec hinv la lb).2 (Or.inr (fun b hb => hn ⟨b, hb⟩))] at h1
      cases h1
    obtain ⟨a, ha⟩ := hexa
    obtain ⟨b, hb⟩ := hexb
    have hno : ¬ r.1.HasAtt a b := by
      intro hh
      rw [((newAttack_spec hinv la lb).1 a b ha hb).1 hh] at h1
      injection h1 with h1; subst h1
      exact Nat.lt_irrefl _ h2
    have h1' := h1
    rw [((newAttack_spec hinv la lb).1 a b ha hb).2 hno] at h1
    injection h1 with h1; subst h1
    unfold replayEvent
    refine wp_mono _ _ _ _ ?_ (wp_encAttack (add := true) (st1 := r.1.pushAtt a b) hE (by simpa using h1') rfl)
    rintro ⟨af', e'⟩ w' ⟨rfl, hE'⟩
    exact ⟨rfl, inv_pushAtt hinv ha hb hno, hE'⟩
  | remAtt la lb =>
    intro st1 h1
    simp only [Event.op, Eff, Store.step, and_true] at h1
    have hexa : ∃ a, r.1.Live a la := by
      apply Classical.byContradiction
      intro hn
      rw [(removeAttack_spec hinv la lb).2 (Or.inl (fun a ha => hn ⟨a, ha⟩))] at h1
      cases h1
    have hexb : ∃ b, r.1.Live b lb := by
      apply Classical.byContradiction
      intro hn
      rw [(removeAttack_spec hinv la lb).2 (Or.inr (fun b hb => hn ⟨b, hb⟩))] at h1
      cases h1
    obtain ⟨a, ha⟩ := hexa
    obtain ⟨b, hb⟩ := hexb
    have hhas : r.1.HasAtt a b := by
      apply Classical.byContradiction
      intro hn
      rw [((removeAttack_spec hinv la lb).1 a b ha hb).2 hn] at h1
      cases h1
    obtain ⟨k, hk⟩ := hhas
    obtain ⟨pf, pt, he, hp1, hp2, hp3, hp4⟩ := ((removeAttack_spec hinv la lb).1 a b ha hb).1 k hk
    have h1' := h1
    rw [he] at h1
    injection h1 with h1; subst h1
    unfold replayEvent
    refine wp_mono _ _ _ _ ?_ (wp_encAttack (add := false) (st1 := r.1.dropAtt a b k pf pt) hE (by simpa using h1') rfl)
    rintro ⟨af', e'⟩ w' ⟨rfl, hE'⟩
    exact ⟨rfl, inv_dropAtt hinv ha hb hk hp1 hp2 hp3 hp4, hE'⟩

theorem winv_reencoded {sem : DSem} {st : Store} (hinv : st.Inv) {e : AEnc} (hW : WInv sem e) (k : Nat) :
    WInv sem (e.reencoded st k) := by
  refine ⟨hW.sem_eq, hW.sem_ok, hW.fac, ?_⟩
  intro i v hv
  obtain ⟨p, l, hp, rfl⟩ := (freshArgVar_spec st).2 i v |>.1 hv
  have hplt : p < st.nArguments := by
    rw [← liveArgs_length hinv]; exact (List.getElem?_eq_some_iff.1 hp).1
  have := scaled_ge hW st.nArguments
  show p + 1 < (freshVars e.sem st (e.scaled st.nArguments)).length
  have hlen := liveArgs_length hinv
  cases hs : e.sem <;> simp [freshVars, hlen] <;> omega

/-- the encoder part of `update_encoding`: afterwards no encoding is due and the invariant holds -/
theorem wp_encUpdateEncoding {C : Prop} {sem : DSem} {st : Store} {e : AEnc} {w : World} (hinv : st.Inv)
    (hE : EState sem st e w) :
    wp C (e.updateEncoding st) w (fun e' w' => EState sem st e' w' ∧ e'.needToEncode = false) := by
  obtain ⟨hW, hA⟩ := hE
  cases hneed : e.needToEncode with
  | false =>
    rw [updateEncoding_noop e st w _ hW.sem_ne hneed]
    exact ⟨⟨hW, hA⟩, hneed⟩
  | true =>
    apply updateEncoding_wp e st w _ hW.sem_ne hneed (scaled_ge hW _)
    intro w' _ hdb
    refine ⟨⟨winv_reencoded hinv hW _, fun _ => ?_⟩, rfl⟩
    exact ainv_reencoded hinv e _ (scaled_ge hW _) hdb

/-- the invariant of an attack-assumption solver between two calls of its API -/
structure ADInv (sem : DSem) (d : ADState) (w : World) : Prop where
  af_inv : d.af.Inv
  est : EState sem d.af d.enc w
  sync : EffRun d.af (d.buffer.drop d.next) d.pending
  next_le : d.next ≤ d.buffer.length

/-- **`update_encoding`**: whatever was buffered, afterwards the solver's framework is the pending
one, no encoding is due and the clause database of the solver in the shared cell encodes it -/
theorem wp_updateEncoding {C : Prop} {sem : DSem} {d : ADState} {w : World} (h : ADInv sem d w) :
    wp C d.updateEncoding w (fun d' w' => ADInv sem d' w' ∧ d'.enc.needToEncode = false ∧
      d'.af = d.pending ∧ d'.pending = d.pending ∧ d'.buffer = d.buffer ∧ d'.next = d.buffer.length) := by
  unfold ADState.updateEncoding
  rw [wp_bind]
  have hfold := wp_foldProg (C := C) replayEvent
    (fun rest (r : Store × AEnc) w => r.1.Inv ∧ EState sem r.1 r.2 w ∧ EffRun r.1 rest d.pending)
    (d.buffer.drop d.next) (d.af, d.enc) w ⟨h.af_inv, h.est, h.sync⟩ (by
      intro ev rest r w ⟨hinv, hE, hrun⟩
      cases hop : Event.op ev with
      | none =>
        have hrun' : EffRun r.1 rest d.pending := by
          simp only [EffRun, hop] at hrun; exact hrun
        refine wp_mono _ _ _ _ ?_ (wp_replayEvent hinv hE ev r.1 (by rw [hop]))
        rintro r' w' ⟨haf, hinv', hE'⟩
        exact ⟨hinv', hE', by rw [haf]; exact hrun'⟩
      | some op =>
        simp only [EffRun, hop] at hrun
        obtain ⟨st1, heff, hrun'⟩ := hrun
        refine wp_mono _ _ _ _ ?_ (wp_replayEvent hinv hE ev st1 (by rw [hop]; exact heff))
        rintro r' w' ⟨haf, hinv', hE'⟩
        exact ⟨hinv', hE', by rw [haf]; exact hrun'⟩)
  refine wp_mono _ _ _ _ ?_ hfold
  rintro r w1 ⟨hinv, hE, hrun⟩
  have haf : d.pending = r.1 := hrun
  rw [wp_bind]
  refine wp_mono _ _ _ _ ?_ (wp_encUpdateEncoding hinv hE)
  rintro e' w2 ⟨hE', hneed⟩
  refine ⟨⟨hinv, hE', ?_, Nat.le_refl _⟩, hneed, haf.symm, rfl, rfl, rfl⟩
  show EffRun r.1 (d.buffer.drop d.buffer.length) d.pending
  rw [List.drop_length]
  exact haf

end Crusta.DynAtt
