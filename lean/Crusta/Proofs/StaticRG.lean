import Crusta.Proofs.SolveRG
import Crusta.Proofs.StaticPRCO

/-!
# Semi-stable and stage solvers: entry points on the whole framework

The two solver types run the same code (`rgSE`, `rgAcc`, `rgAccCert`); they differ only in the
family of sets described by the encoder (complete extensions / conflict-free sets).  Everything is
proved once for a semantics `σ` such that the range-maximal members of the encoder's family are the
`σ`-extensions (`rangeMax_semistable`, `rangeMax_stage`) and such that the graph has a
`σ`-extension (`G.exists_semistable`, `G.exists_stage`: counting on the size of the range).

* `G.exists_rangeMax`: in a finite graph every member of a family lies range-below a range-maximal one;
* `rg_se_ok`, `rg_acc_ok`, `rg_acc_cert_ok`, `rg_entry_ok`: the generic development;
* `sst_*`, `stg_*`: the instances.
-/

namespace Crusta
open Prog (mkSolver doReserve addClause addClauses getNVars doSolve)

/-! ## range-maximal members exist in a finite graph -/

theorem G.inRange_live {g : G} (hwf : g.WF) {S : ASet} (hS : ∀ a, S a = true → g.live a = true) {a : Nat}
    (h : g.InRange S a) : g.live a = true := by
  rcases h with h | ⟨b, hb, _⟩
  · exact hS a h
  · exact (hwf b a hb).2

open Classical in
/-- the range as a Boolean predicate (for counting only) -/
noncomputable def G.rangeB (g : G) (S : ASet) : Nat → Bool := fun a => decide (g.InRange S a)

theorem G.rangeB_true (g : G) (S : ASet) (a : Nat) : g.rangeB S a = true ↔ g.InRange S a := by
  simp [G.rangeB]

theorem G.rangeB_false (g : G) (S : ASet) (a : Nat) : g.rangeB S a = false ↔ ¬ g.InRange S a := by
  simp [G.rangeB]

/-- the analogue of `exists_maximal_above` for the range preorder: counting the arguments of the
(bounded) universe that are in the range -/
theorem G.exists_rangeMax (g : G) (hwf : g.WF) (hfin : ∃ n, ∀ a, g.live a = true → a < n) (B : ASet → Prop)
    (hB : ∀ S, B S → ∀ a, S a = true → g.live a = true) (S : ASet) (hS : B S) :
    ∃ M, B M ∧ g.RangeSub S M ∧ ∀ T, B T → g.RangeSub M T → g.RangeSub T M := by
  obtain ⟨n, hn⟩ := hfin
  suffices H : ∀ k (S : ASet), B S → n - (List.range n).countP (g.rangeB S) < k →
      ∃ M, B M ∧ g.RangeSub S M ∧ ∀ T, B T → g.RangeSub M T → g.RangeSub T M from H _ S hS (Nat.lt_succ_self _)
  intro k
  induction k with
  | zero => intro S _ h; omega
  | succ k ih =>
    intro S hS hk
    by_cases hmax : ∀ T, B T → g.RangeSub S T → g.RangeSub T S
    · exact ⟨S, hS, fun _ h => h, hmax⟩
    · obtain ⟨T, hT⟩ := Classical.not_forall.1 hmax
      obtain ⟨hTB, hT⟩ := Classical.not_imp.1 hT
      obtain ⟨hST, hT⟩ := Classical.not_imp.1 hT
      obtain ⟨a, ha⟩ := Classical.not_forall.1 hT
      obtain ⟨hTa, hSa⟩ := Classical.not_imp.1 ha
      have halt : a < n := hn a (G.inRange_live hwf (hB T hTB) hTa)
      have hlt := countP_lt_of (g.rangeB S) (g.rangeB T)
        (fun x hx => (g.rangeB_true T x).2 (hST x ((g.rangeB_true S x).1 hx))) a
        ((g.rangeB_true T a).2 hTa) ((g.rangeB_false S a).2 hSa) (List.range n) (List.mem_range.2 halt)
      have hle : (List.range n).countP (g.rangeB T) ≤ n := by
        have := List.countP_le_length (p := g.rangeB T) (l := List.range n)
        simpa using this
      obtain ⟨M, hM, hTM, hmaxM⟩ := ih T hTB (by omega)
      exact ⟨M, hM, fun x hx => hTM x (hST x hx), hmaxM⟩

/-- every finite graph has a stage extension (the empty set is conflict-free) -/
theorem G.exists_stage (g : G) (hwf : g.WF) (hfin : ∃ n, ∀ a, g.live a = true → a < n) : ∃ S, g.Stage S := by
  have h0 : g.CF (fun _ => false) := ⟨fun a h => (by cases h), fun a h => (by cases h)⟩
  obtain ⟨M, hM, _, hmax⟩ := g.exists_rangeMax hwf hfin g.CF (fun S h => h.1) _ h0
  exact ⟨M, hM, hmax⟩

/-- every finite graph presented by a view has a semi-stable extension (climb from the grounded one) -/
theorem G.exists_semistable (v : FwView) (g : G) (hv : v.Ok g) : ∃ S, g.SemiStable S := by
  have h0 : g.Complete (ofList (groundedV v)) := (groundedV_spec v g hv).1.1
  obtain ⟨M, hM, _, hmax⟩ := g.exists_rangeMax hv.wf hv.fin g.Complete (fun S h => h.1.1.1) _ h0
  exact ⟨M, hM, hmax⟩

/-! ## one statement for the credulous and the skeptical query -/

/-- a set is a witness of the query: it meets the queried arguments (credulous) / avoids them (skeptical) -/
def WitL (cred : Bool) (args : List Nat) (S : ASet) : Prop := if cred then HitsL args S else ¬ HitsL args S

/-- the status `cred` announces a witness extension (and the certificate is one); the status `!cred`
says there is none -/
def AccOK (σ : Sem) (g : G) (args : List Nat) (cred cert : Bool) (a : AccAns) : Prop :=
  (a.status = cred → (∃ S, σ.GExt g S ∧ WitL cred args S) ∧
    (cert = true → ∃ e, a.cert = some e ∧ σ.GExt g (ofList e) ∧ WitL cred args (ofList e))) ∧
  (a.status = (!cred) → (¬ ∃ S, σ.GExt g S ∧ WitL cred args S) ∧ (cert = true → a.cert = none))

theorem AccOK.dc {σ : Sem} {g : G} {args : List Nat} {cert : Bool} {a : AccAns} (h : AccOK σ g args true cert a) :
    DCOK σ g args cert a := by
  simpa [AccOK, WitL, DCOK] using h

theorem AccOK.ds {σ : Sem} {g : G} {args : List Nat} {cert : Bool} {a : AccAns} (h : AccOK σ g args false cert a) :
    DSOK σ g args cert a := by
  obtain ⟨h1, h2⟩ := h
  simp only [WitL, Bool.false_eq_true, if_false, Bool.not_false] at h1 h2
  refine ⟨fun hs => ⟨fun S hS => ?_, (h2 hs).2⟩, fun hs => h1 hs⟩
  apply Classical.byContradiction
  intro hn
  exact (h2 hs).1 ⟨S, hS, hn⟩

theorem AccOK.of_cred {σ : Sem} {g : G} {args : List Nat} {cred cert : Bool} {a : AccAns}
    (h : AccOK σ g args cred cert a) : if cred then DCOK σ g args cert a else DSOK σ g args cert a := by
  cases cred with
  | true => exact h.dc
  | false => exact h.ds

/-! ## the component result in uniform shape -/

theorem wp_rgAccInCc_uniform (cfg : Cfg) (hk : RangeEnc cfg.enc) (c : Comp) (args : List Nat) (cred : Bool)
    (hwf : c.af.WF) (hn : c.af.n = c.ids.length) (hgr : GrOK c.af) (w : World) (hb : w.Bounded) :
    wp True (rgAccInCc cfg c args cred) w (fun res w' => w'.Bounded ∧ ∀ pos, posAll c args = some pos →
      RgOK c.af (cfg.enc.Base c.af) pos cred res) := by
  refine wp_mono _ _ _ _ ?_ (wp_rgAccInCc cfg hk c args cred hwf hn hgr w hb)
  rintro res w' ⟨hb', hres⟩
  refine ⟨hb', fun pos hpos => ?_⟩
  have h := hres pos hpos
  cases cred with
  | true =>
    simp only [↓reduceIte] at h
    refine ⟨fun hr => ?_, fun hr => ?_⟩
    · obtain ⟨e, he, hrm, hh, hlt⟩ := h.1 hr
      exact ⟨e, he, hrm, wit_true.2 hh, hlt⟩
    · obtain ⟨hnone, hall⟩ := h.2 (by simpa using hr)
      exact ⟨hnone, fun T hT hw => hall T hT (wit_true.1 hw)⟩
  | false =>
    simp only [Bool.false_eq_true, ↓reduceIte] at h
    refine ⟨fun hr => ?_, fun hr => ?_⟩
    · obtain ⟨e, he, hrm, hh, hlt⟩ := h.1 hr
      exact ⟨e, he, hrm, wit_false.2 hh, hlt⟩
    · obtain ⟨hnone, hall⟩ := h.2 (by simpa using hr)
      exact ⟨hnone, fun T hT hw => wit_false.1 hw (hall T hT)⟩

/-! ## the generic development -/

section generic
variable (cfg : Cfg) (hk : RangeEnc cfg.enc) (σ : Sem)
  (hσ : ∀ af T, RangeMax af (cfg.enc.Base af) T ↔ σ.Ext af T)

include hk hσ

/-- one range-maximal member per component, read as a `σ`-extension of the component -/
theorem wp_rgMaximalOfComp_ext {g : G} (c : Comp) (hc : GoodComp g c) (w : World) (hb : w.Bounded) :
    wp True (rgMaximalOfComp cfg c) w (fun r w' => w'.Bounded ∧
      ∃ e, r = c.back e ∧ σ.Ext c.af (ofList e) ∧ ∀ a ∈ e, a < c.af.n) := by
  refine wp_mono _ _ _ _ ?_ (wp_rgMaximalOfComp cfg hk c (Comp.af_wf hc) (GrOK_of_wf _ (Comp.af_wf hc)) w hb)
  rintro r w' ⟨hb', e, he, hrm, hlt⟩
  exact ⟨hb', e, he, (hσ _ _).1 hrm, hlt⟩

/-- **SE** for the range-based solvers -/
theorem rg_se_ok (v : FwView) (g : G) (hv : v.Ok g) (w : World) (hb : w.Bounded) :
    wp True (rgSE cfg v) w (fun res _ => SEOK σ g res) := by
  unfold rgSE
  simp only [Prog.bind_eq]
  rw [wp_bind]
  refine wp_mono _ _ _ _ ?_ (se_by_components σ (rgMaximalOfComp cfg) v g hv ?_ w hb)
  · rintro res w' ⟨_, hext⟩
    refine ⟨fun e he => ?_, fun h => by cases h⟩
    injection he with he; subst he
    exact (gext_iff σ g _).2 hext
  · intro c w hb hc
    exact wp_rgMaximalOfComp_ext cfg hk σ hσ c hc w hb

omit hk in
/-- witnesses among the range-maximal members of the merged component and among the
`σ`-extensions of the framework -/
theorem wit_lift {g : G} {v : FwView} (hv : v.Ok g) (hex : ∃ S0, g.Ext σ S0) {c : Comp} (hgood : GoodComp g c)
    {args pos : List Nat} (hin : ∀ a ∈ args, a ∈ c.ids) (hpos : posAll c args = some pos) (cred : Bool) :
    (∃ T, RangeMax c.af (cfg.enc.Base c.af) T ∧ Wit cred pos T) ↔ (∃ S, σ.GExt g S ∧ WitL cred args S) := by
  have hup : ∀ T, Wit cred pos T ↔ WitL cred args (c.up T) := by
    intro T
    unfold Wit WitL
    rw [hits_up hgood hpos T]
  have hint : ∀ S, WitL cred args (inter S c.memB) ↔ WitL cred args S := by
    intro S
    unfold WitL
    rw [hitsL_inter hin S]
  have := comp_ext_exists hgood hv.fin σ hex (WitL cred args)
  constructor
  · rintro ⟨T, hT, hw⟩
    obtain ⟨S, hS, hw'⟩ := this.1 ⟨T, (hσ _ _).1 hT, (hup T).1 hw⟩
    exact ⟨S, (gext_iff σ g S).2 hS, (hint S).1 hw'⟩
  · rintro ⟨S, hS, hw⟩
    obtain ⟨T, hT, hw'⟩ := this.2 ⟨S, (gext_iff σ g S).1 hS, (hint S).2 hw⟩
    exact ⟨T, (hσ _ _).2 hT, (hup T).2 hw'⟩

/-- **DC / DS** (status only) -/
theorem rg_acc_ok (v : FwView) (g : G) (hv : v.Ok g) (hex : ∃ S0, g.Ext σ S0) (args : List Nat)
    (hargs : ∀ a ∈ args, g.live a = true) (cred : Bool) (w : World) (hb : w.Bounded) :
    wp True (rgAcc cfg v args cred) w (fun a _ => AccOK σ g args cred false a ∧ a.cert = none) := by
  unfold rgAcc
  simp only [Prog.bind_eq]
  rw [wp_bind]
  apply wp_needComp trivial
  intro c cc hcc
  obtain ⟨c', hc', hgood, hin, _⟩ := CC.mergedOf_spec v g hv args hargs _ _ hcc
  injection hc' with hc'; subst hc'
  simp only
  rw [wp_bind]
  refine wp_mono _ _ _ _ ?_ (wp_rgAccInCc_uniform cfg hk c args cred (Comp.af_wf hgood) hgood.n_eq
    (GrOK_of_wf _ (Comp.af_wf hgood)) w hb)
  rintro ⟨st, ce⟩ w' ⟨_, hres⟩
  obtain ⟨pos, hpos⟩ := posAll_of_mem c args hin
  obtain ⟨h1, h2⟩ := hres pos hpos
  have hlift := wit_lift cfg σ hσ hv hex hgood hin hpos cred
  show AccOK σ g args cred false ⟨st, none⟩ ∧ _
  refine ⟨⟨fun hs => ⟨?_, fun hc => by cases hc⟩, fun hs => ⟨?_, fun hc => by cases hc⟩⟩, rfl⟩
  · obtain ⟨e, _, hrm, hw, _⟩ := h1 hs
    exact hlift.1 ⟨_, hrm, hw⟩
  · intro hn
    obtain ⟨T, hT, hw⟩ := hlift.2 hn
    exact (h2 hs).2 T hT hw

/-- **DC / DS** (certificate variant) -/
theorem rg_acc_cert_ok (v : FwView) (g : G) (hv : v.Ok g) (hex : ∃ S0, g.Ext σ S0) (args : List Nat)
    (hargs : ∀ a ∈ args, g.live a = true) (cred : Bool) (w : World) (hb : w.Bounded) :
    wp True (rgAccCert cfg v args cred) w (fun a _ => AccOK σ g args cred true a) := by
  unfold rgAccCert
  simp only [Prog.bind_eq]
  rw [wp_bind]
  apply wp_needComp trivial
  intro c cc hcc
  obtain ⟨c', hc', hgood, hin, hI⟩ := CC.mergedOf_spec v g hv args hargs _ _ hcc
  injection hc' with hc'; subst hc'
  simp only
  rw [wp_bind]
  refine wp_mono _ _ _ _ ?_ (wp_rgAccInCc_uniform cfg hk c args cred (Comp.af_wf hgood) hgood.n_eq
    (GrOK_of_wf _ (Comp.af_wf hgood)) w hb)
  rintro ⟨st, ce⟩ w1 ⟨hb1, hres⟩
  obtain ⟨pos, hpos⟩ := posAll_of_mem c args hin
  obtain ⟨h1, h2⟩ := hres pos hpos
  have hlift := wit_lift cfg σ hσ hv hex hgood hin hpos cred
  have hst : st = cred ∨ st = (!cred) := by cases st <;> cases cred <;> simp
  cases ce with
  | none =>
    have hs : st = (!cred) := by
      rcases hst with hs | hs
      · obtain ⟨e, he, _⟩ := h1 hs
        cases he
      · exact hs
    show AccOK σ g args cred true ⟨!cred, none⟩
    refine ⟨fun hf => ?_, fun _ => ⟨?_, fun _ => rfl⟩⟩
    · exfalso; revert hf; cases cred <;> simp
    · intro hn
      obtain ⟨T, hT, hw⟩ := hlift.2 hn
      exact (h2 hs).2 T hT hw
  | some e =>
    have hs : st = cred := by
      rcases hst with hs | hs
      · exact hs
      · have := (h2 hs).1
        cases this
    obtain ⟨e', he, hrm, hw, hlt⟩ := h1 hs
    simp only at he
    injection he with he; subst he
    show wp True ((otherCompsWith v _ cfg.fuel cc _).bind _) _ _
    rw [wp_bind]
    refine wp_mono _ _ _ _ ?_ (wp_otherCompsWith v g hv (rgMaximalOfComp cfg)
      (fun oc r => ∃ e, r = oc.back e ∧ σ.Ext oc.af (ofList e) ∧ ∀ a ∈ e, a < oc.af.n)
      (fun oc w' hb' hg' => wp_rgMaximalOfComp_ext cfg hk σ hσ oc hg' w' hb')
      cfg.fuel cc _ _ _ hI hb1)
    rintro res w' ⟨_, cs, rs, hlen', hres', hgs, hdisj, hun, hcov, hall⟩
    obtain ⟨hext, hhits⟩ := assemble_cert hv σ hgood hin (c.back e)
      ((Comp.ext_back_iff hgood σ _ hlt).1 ((hσ _ _).1 hrm)) (Comp.back_mem hgood _) cs rs hlen' hgs hdisj hun hcov (by
        intro i c' r hci hri
        have hg' := hgs c' (List.mem_of_getElem? hci)
        obtain ⟨e', rfl, hp', hlt'⟩ := hall i c' r hci hri
        exact ⟨(Comp.ext_back_iff hg' σ _ hlt').1 hp', Comp.back_mem hg' _⟩)
    rw [← hres'] at hext hhits
    have hwit : WitL cred args (ofList res) := by
      unfold WitL
      rw [hhits, Comp.ofList_back hgood _ hlt, ← hits_up hgood hpos]
      exact hw
    have hgext : σ.GExt g (ofList res) := (gext_iff σ g _).2 hext
    show AccOK σ g args cred true ⟨cred, some res⟩
    refine ⟨fun _ => ⟨⟨_, hgext, hwit⟩, fun _ => ⟨res, rfl, hgext, hwit⟩⟩, fun hf => ?_⟩
    exfalso; revert hf; cases cred <;> simp

end generic

/-! ## entry points, generically -/

theorem entryProg_stg_eq_sst (cfg : Cfg) (v : FwView) (e : Entry) :
    entryProg .STG cfg v e = entryProg .SST cfg v e := by
  cases e <;> rfl

theorem AccOK.strip {σ : Sem} {g : G} {args : List Nat} {cred : Bool} {a : AccAns} (h : AccOK σ g args cred false a) :
    AccOK σ g args cred false ⟨a.status, none⟩ :=
  ⟨fun hs => ⟨(h.1 hs).1, fun hc => by cases hc⟩, fun hs => ⟨(h.2 hs).1, fun hc => by cases hc⟩⟩

/-- every entry point of a range-based solver, for the semantics `σ` its encoder induces -/
theorem rg_entry_ok (cfg : Cfg) (hk : RangeEnc cfg.enc) (σ : Sem)
    (hσ : ∀ af T, RangeMax af (cfg.enc.Base af) T ↔ σ.Ext af T) (v : FwView) (g : G) (hv : v.Ok g)
    (hex : ∃ S0, g.Ext σ S0) (e : Entry) (hargs : ∀ a, a ∈ e.argsList → g.live a = true) (p : Prog Ans)
    (hp : entryProg .SST cfg v e = some p) (w : World) (hb : w.Bounded) :
    wp True p w (fun ans _ => EntryOK σ g e ans) := by
  cases e with
  | se =>
    simp only [entryProg, Option.some.injEq] at hp
    subst hp
    simp only [Prog.bind_eq]
    rw [wp_bind]
    exact rg_se_ok cfg hk σ hσ v g hv w hb
  | dc cert args =>
    simp only [entryProg, Option.some.injEq] at hp
    subst hp
    unfold certOnly
    simp only [Prog.bind_eq]
    rw [wp_bind]
    cases cert with
    | true =>
      simp only [if_true]
      refine wp_mono _ _ _ _ ?_ (rg_acc_cert_ok cfg hk σ hσ v g hv hex args hargs true w hb)
      intro a _ ha
      exact ⟨rfl, ha.dc, fun hc => by cases hc⟩
    | false =>
      simp only [Bool.false_eq_true, if_false]
      refine wp_mono _ _ _ _ ?_ (rg_acc_ok cfg hk σ hσ v g hv hex args hargs true w hb)
      intro a _ ha
      exact ⟨rfl, ha.1.strip.dc, fun _ => rfl⟩
  | ds cert args =>
    simp only [entryProg, Option.some.injEq] at hp
    subst hp
    unfold certOnly
    simp only [Prog.bind_eq]
    rw [wp_bind]
    cases cert with
    | true =>
      simp only [if_true]
      refine wp_mono _ _ _ _ ?_ (rg_acc_cert_ok cfg hk σ hσ v g hv hex args hargs false w hb)
      intro a _ ha
      exact ⟨rfl, ha.ds, fun hc => by cases hc⟩
    | false =>
      simp only [Bool.false_eq_true, if_false]
      refine wp_mono _ _ _ _ ?_ (rg_acc_ok cfg hk σ hσ v g hv hex args hargs false w hb)
      intro a _ ha
      exact ⟨rfl, ha.1.strip.ds, fun _ => rfl⟩

/-! ## the semi-stable solver -/

theorem rangeEnc_of_co {k : EncKind} (hk : k = .auxCO ∨ k = .expCO ∨ k = .hyb) : RangeEnc k := by
  rcases hk with rfl | rfl | rfl <;> intro h <;> cases h

theorem rangeEnc_of_cf {k : EncKind} (hk : k = .auxCF ∨ k = .expCF) : RangeEnc k := by
  rcases hk with rfl | rfl <;> intro h <;> cases h

section sst
variable (cfg : Cfg) (hkS : cfg.enc = .auxCO ∨ cfg.enc = .expCO ∨ cfg.enc = .hyb)
include hkS

/-- **SE-SST** -/
theorem sst_se_ok (v : FwView) (g : G) (hv : v.Ok g) (w : World) (hb : w.Bounded) :
    wp True (rgSE cfg v) w (fun res _ => SEOK .SST g res) :=
  rg_se_ok cfg (rangeEnc_of_co hkS) .SST (fun af T => rangeMax_semistable cfg.enc hkS af T) v g hv w hb

/-- **DC-SST / DS-SST** (status) -/
theorem sst_acc_ok (cred : Bool) (v : FwView) (g : G) (hv : v.Ok g) (args : List Nat)
    (hargs : ∀ a ∈ args, g.live a = true) (w : World) (hb : w.Bounded) :
    wp True (rgAcc cfg v args cred) w (fun a _ =>
      (if cred then DCOK .SST g args false a else DSOK .SST g args false a) ∧ a.cert = none) := by
  refine wp_mono _ _ _ _ ?_ (rg_acc_ok cfg (rangeEnc_of_co hkS) .SST
    (fun af T => rangeMax_semistable cfg.enc hkS af T) v g hv (G.exists_semistable v g hv) args hargs cred w hb)
  intro a _ ha
  exact ⟨ha.1.of_cred, ha.2⟩

/-- **DC-SST / DS-SST** (certificate variant) -/
theorem sst_acc_cert_ok (cred : Bool) (v : FwView) (g : G) (hv : v.Ok g) (args : List Nat)
    (hargs : ∀ a ∈ args, g.live a = true) (w : World) (hb : w.Bounded) :
    wp True (rgAccCert cfg v args cred) w (fun a _ =>
      if cred then DCOK .SST g args true a else DSOK .SST g args true a) := by
  refine wp_mono _ _ _ _ ?_ (rg_acc_cert_ok cfg (rangeEnc_of_co hkS) .SST
    (fun af T => rangeMax_semistable cfg.enc hkS af T) v g hv (G.exists_semistable v g hv) args hargs cred w hb)
  intro a _ ha
  exact ha.of_cred

/-- **all entry points of the semi-stable solver** -/
theorem sst_entry_ok (v : FwView) (g : G) (hv : v.Ok g) (e : Entry)
    (hargs : ∀ a, a ∈ e.argsList → g.live a = true) (p : Prog Ans)
    (hp : entryProg .SST cfg v e = some p) (w : World) (hb : w.Bounded) :
    wp True p w (fun ans _ => EntryOK .SST g e ans) :=
  rg_entry_ok cfg (rangeEnc_of_co hkS) .SST (fun af T => rangeMax_semistable cfg.enc hkS af T) v g hv
    (G.exists_semistable v g hv) e hargs p hp w hb

end sst

/-! ## the stage solver -/

section stg
variable (cfg : Cfg) (hkG : cfg.enc = .auxCF ∨ cfg.enc = .expCF)
include hkG

/-- **SE-STG** -/
theorem stg_se_ok (v : FwView) (g : G) (hv : v.Ok g) (w : World) (hb : w.Bounded) :
    wp True (rgSE cfg v) w (fun res _ => SEOK .STG g res) :=
  rg_se_ok cfg (rangeEnc_of_cf hkG) .STG (fun af T => rangeMax_stage cfg.enc hkG af T) v g hv w hb

/-- **DC-STG / DS-STG** (status) -/
theorem stg_acc_ok (cred : Bool) (v : FwView) (g : G) (hv : v.Ok g) (args : List Nat)
    (hargs : ∀ a ∈ args, g.live a = true) (w : World) (hb : w.Bounded) :
    wp True (rgAcc cfg v args cred) w (fun a _ =>
      (if cred then DCOK .STG g args false a else DSOK .STG g args false a) ∧ a.cert = none) := by
  refine wp_mono _ _ _ _ ?_ (rg_acc_ok cfg (rangeEnc_of_cf hkG) .STG
    (fun af T => rangeMax_stage cfg.enc hkG af T) v g hv (G.exists_stage g hv.wf hv.fin) args hargs cred w hb)
  intro a _ ha
  exact ⟨ha.1.of_cred, ha.2⟩

/-- **DC-STG / DS-STG** (certificate variant) -/
theorem stg_acc_cert_ok (cred : Bool) (v : FwView) (g : G) (hv : v.Ok g) (args : List Nat)
    (hargs : ∀ a ∈ args, g.live a = true) (w : World) (hb : w.Bounded) :
    wp True (rgAccCert cfg v args cred) w (fun a _ =>
      if cred then DCOK .STG g args true a else DSOK .STG g args true a) := by
  refine wp_mono _ _ _ _ ?_ (rg_acc_cert_ok cfg (rangeEnc_of_cf hkG) .STG
    (fun af T => rangeMax_stage cfg.enc hkG af T) v g hv (G.exists_stage g hv.wf hv.fin) args hargs cred w hb)
  intro a _ ha
  exact ha.of_cred

/-- **all entry points of the stage solver** -/
theorem stg_entry_ok (v : FwView) (g : G) (hv : v.Ok g) (e : Entry)
    (hargs : ∀ a, a ∈ e.argsList → g.live a = true) (p : Prog Ans)
    (hp : entryProg .STG cfg v e = some p) (w : World) (hb : w.Bounded) :
    wp True p w (fun ans _ => EntryOK .STG g e ans) :=
  rg_entry_ok cfg (rangeEnc_of_cf hkG) .STG (fun af T => rangeMax_stage cfg.enc hkG af T) v g hv
    (G.exists_stage g hv.wf hv.fin) e hargs p (by rw [← entryProg_stg_eq_sst]; exact hp) w hb

end stg

end Crusta
