import Crusta.Proofs.SolveST
import Crusta.Proofs.StaticPR
import Crusta.Proofs.StaticGR

/-!
# The stable solver: all entry points on the whole framework

`SolveST` says what `stSE` / `stDC` / `stDS` return in terms of the list of components and of the
stable extensions (in positions) of their compact frameworks.  Here this is turned into statements
about the graph `g` presented by the view:

* `CompList`: what is known about the list of components (a partition into good components);
* `CompList.stable_down`: a stable extension of `g`, cut down to a component, is (the image of) a
  stable extension of the compact framework of the component;
* `CompList.assemble`: one stable extension per component, mapped back and concatenated, is a
  stable extension of `g`;
* `st_se_ok`, `st_dc_ok`, `st_ds_ok`, `st_entry_ok`.
-/

namespace Crusta
open Prog (mkSolver doReserve addClause addClauses getNVars doSolve)

/-! ## the list of components of a view -/

/-- the components are good, partition the live arguments, and the graph is finite -/
structure CompList (g : G) (cs : List Comp) : Prop where
  good : ∀ c ∈ cs, GoodComp g c
  parts : Parts g (cs.map Comp.memB)
  cover : ∀ a, g.live a = true → ∃ c ∈ cs, a ∈ c.ids
  fin : ∃ n, ∀ a, g.live a = true → a < n

theorem compList_of_view (v : FwView) (g : G) (hv : v.Ok g) :
    ∃ cs : List Comp, allComps v = cs.map some ∧ CompList g cs := by
  obtain ⟨cs, hcs, hgood, hdisj, hcover⟩ := allComps_list v g hv
  exact ⟨cs, hcs, hgood, comps_parts hgood hdisj hcover, hcover, hv.fin⟩

theorem mem_of_some_mem {α : Type} {c : α} {cs : List α} (h : some c ∈ cs.map some) : c ∈ cs := by
  obtain ⟨c', hc', he⟩ := List.mem_map.1 h
  injection he with he; subst he; exact hc'

section
variable {g : G} {cs : List Comp}

/-- the hypothesis of the component-list-level theorems of `SolveST` -/
theorem CompList.wf (H : CompList g cs) :
    ∀ c, some c ∈ cs.map some → c.af.WF ∧ c.af.n = c.ids.length := by
  intro c hc
  have hg := H.good c (mem_of_some_mem hc)
  exact ⟨Comp.af_wf hg, hg.n_eq⟩

/-- a stable extension of the graph, cut down to a component, comes from a stable extension of the
compact framework of the component -/
theorem CompList.stable_down (H : CompList g cs) {S : ASet} (hS : g.Stable S) {c : Comp} (hc : c ∈ cs) :
    ∃ T, Stable c.af T ∧ c.up T = inter S c.memB := by
  have hgc := H.good c hc
  have h1 : (g.restrict c.memB).Stable (inter S c.memB) :=
    (stable_parts H.parts S hS.1.1).1 hS c.memB (List.mem_map_of_mem hc)
  obtain ⟨T, hT, hup⟩ := Comp.exists_down hgc (inter S c.memB) (fun a ha => by
    have := ((inter_true _ _ a).1 ha).2
    simpa [Comp.memB] using this)
  exact ⟨T, (Comp.stable_iff hgc T hT).2 (by rw [hup]; exact h1), hup⟩

/-- a component without stable extension: the graph has none -/
theorem CompList.no_stable (H : CompList g cs) {c : Comp} (hc : c ∈ cs) (hno : ∀ T, ¬ Stable c.af T) :
    ∀ S, ¬ g.Stable S := by
  intro S hS
  obtain ⟨T, hT, _⟩ := H.stable_down hS hc
  exact hno T hT

/-! ## `backZip` -/

theorem zipBack_get {es : List (List Nat)} {i : Nat} {c : Comp} {r : List Nat} (hc : cs[i]? = some c)
    (hr : (List.zipWith Comp.back cs es)[i]? = some r) : ∃ e, es[i]? = some e ∧ r = c.back e := by
  rw [List.getElem?_zipWith, hc] at hr
  cases he : es[i]? with
  | none => rw [he] at hr; cases hr
  | some e =>
    rw [he] at hr
    injection hr with hr
    exact ⟨e, rfl, hr.symm⟩

theorem get_zipBack {es : List (List Nat)} {i : Nat} {c : Comp} {e : List Nat} (hc : cs[i]? = some c)
    (he : es[i]? = some e) : (List.zipWith Comp.back cs es)[i]? = some (c.back e) := by
  rw [List.getElem?_zipWith, hc, he]

theorem mem_back {c : Comp} {e : List Nat} {a : Nat} : a ∈ c.back e ↔ ∃ p ∈ e, c.ids[p]? = some a := by
  unfold Comp.back
  exact List.mem_filterMap

theorem mem_backZip {es : List (List Nat)} {i : Nat} {c : Comp} {e : List Nat} (hc : cs[i]? = some c)
    (he : es[i]? = some e) {a : Nat} (ha : a ∈ c.back e) : a ∈ backZip cs es := by
  unfold backZip
  exact List.mem_flatten.2 ⟨_, List.mem_of_getElem? (get_zipBack hc he), ha⟩

theorem backZip_mem {es : List (List Nat)} {a : Nat} (ha : a ∈ backZip cs es) :
    ∃ (i : Nat) (c : Comp) (e : List Nat), cs[i]? = some c ∧ es[i]? = some e ∧ a ∈ c.back e := by
  unfold backZip at ha
  obtain ⟨r, hr, har⟩ := List.mem_flatten.1 ha
  obtain ⟨i, hi, hri⟩ := List.getElem_of_mem hr
  have hic : i < cs.length := by
    rw [List.length_zipWith] at hi; omega
  have hc : cs[i]? = some cs[i] := List.getElem?_eq_getElem hic
  obtain ⟨e, he, hre⟩ := zipBack_get (es := es) hc (by rw [List.getElem?_eq_getElem hi, hri])
  exact ⟨i, cs[i], e, hc, he, hre ▸ har⟩

/-- **assembling stable extensions** -/
theorem CompList.assemble (H : CompList g cs) {es : List (List Nat)} (hes : AllStable cs es) :
    g.Stable (ofList (backZip cs es)) := by
  have hlen : (List.zipWith Comp.back cs es).length = cs.length := by
    rw [List.length_zipWith, hes.1]; omega
  have key := assemble_ext H.parts H.good H.fin .ST (List.zipWith Comp.back cs es) hlen (by
    intro i c r hc hr a ha
    obtain ⟨e, _, rfl⟩ := zipBack_get hc hr
    exact Comp.back_mem (H.good c (List.mem_of_getElem? hc)) e a ha)
  refine key.2 ?_
  intro i c r hc hr
  obtain ⟨e, he, rfl⟩ := zipBack_get hc hr
  have h := hes.2 i c e hc he
  exact (Comp.ext_back_iff (H.good c (List.mem_of_getElem? hc)) .ST e h.2).1 h.1

/-- a queried argument whose position is in the piece of its component is in the assembled set -/
theorem hitsL_backZip {es : List (List Nat)} {args : List Nat} {i : Nat} {c : Comp} {e : List Nat}
    (hc : cs[i]? = some c) (he : es[i]? = some e) {x p : Nat} (hx : x ∈ args) (hp : c.pos x = some p)
    (hpe : p ∈ e) : HitsL args (ofList (backZip cs es)) :=
  ⟨x, hx, (ofList_mem _ _).2 (mem_backZip hc he (mem_back.2 ⟨p, hpe, Comp.get_of_pos hp⟩))⟩

/-- every piece avoids the queried positions of its component: the assembled set contains no
queried argument -/
theorem not_hitsL_backZip (H : CompList g cs) {es : List (List Nat)} {args : List Nat}
    (hav : ∀ (i : Nat) (c : Comp) (e : List Nat), cs[i]? = some c → es[i]? = some e →
      ∀ x ∈ args, ∀ p, c.pos x = some p → p ∉ e) : ¬ HitsL args (ofList (backZip cs es)) := by
  rintro ⟨x, hx, hmem⟩
  obtain ⟨i, c, e, hc, he, hxe⟩ := backZip_mem ((ofList_mem _ _).1 hmem)
  obtain ⟨p, hpe, hp⟩ := mem_back.1 hxe
  exact hav i c e hc he x hx p (Comp.pos_of_get (H.good c (List.mem_of_getElem? hc)) hp) hpe

/-- no stable extension of any component contains a queried position: no stable extension of the
graph contains a queried argument -/
theorem CompList.no_hit (H : CompList g cs) {args : List Nat}
    (hall : ∀ c ∈ cs, ∀ T, Stable c.af T → ∀ x ∈ args, ∀ p, c.pos x = some p → T p = false) :
    ¬ ∃ S, g.Stable S ∧ HitsL args S := by
  rintro ⟨S, hS, x, hx, hSx⟩
  obtain ⟨c, hc, hxc⟩ := H.cover x (hS.1.1 x hSx)
  obtain ⟨T, hT, hup⟩ := H.stable_down hS hc
  obtain ⟨p, hp⟩ := Comp.exists_get hxc
  have hgc := H.good c hc
  have h1 := hall c hc T hT x hx p (Comp.pos_of_get hgc hp)
  have h2 : c.up T x = true := by
    rw [hup]; exact (inter_true _ _ _).2 ⟨hSx, (c.memB_true x).2 hxc⟩
  rw [Comp.up_get hgc T hp, h1] at h2
  cases h2

/-- every stable extension of one component contains a queried position: every stable extension of
the graph contains a queried argument -/
theorem CompList.all_hit (H : CompList g cs) {args : List Nat} {c : Comp} (hc : c ∈ cs)
    (hall : ∀ T, Stable c.af T → ∃ x ∈ args, ∃ p, c.pos x = some p ∧ T p = true) :
    ∀ S, g.Stable S → HitsL args S := by
  intro S hS
  obtain ⟨T, hT, hup⟩ := H.stable_down hS hc
  obtain ⟨x, hx, p, hp, hTp⟩ := hall T hT
  refine ⟨x, hx, ?_⟩
  have h : c.up T x = true := by simp [Comp.up, hp, hTp]
  rw [hup] at h
  exact ((inter_true _ _ _).1 h).1

end

/-! ## the entry points -/

/-- **SE-ST** -/
theorem st_se_ok (v : FwView) (g : G) (hv : v.Ok g) (w : World) (hb : w.Bounded) :
    wp True (stSE v) w (fun res _ => SEOK .ST g res) := by
  obtain ⟨cs, hcs, H⟩ := compList_of_view v g hv
  refine wp_mono _ _ _ _ ?_ (wp_stSE v w hb (hcs ▸ H.wf))
  rintro res w' ⟨_, h⟩
  rcases h with ⟨cs', es, hcs', hres, hes⟩ | ⟨hres, c, hc, hno⟩
  · have : cs' = cs := map_some_inj' (by rw [← hcs', hcs])
    subst this
    subst hres
    refine ⟨fun e he => ?_, fun h => by cases h⟩
    injection he with he; subst he
    exact H.assemble hes
  · subst hres
    refine ⟨fun e he => (by cases he), fun _ => ?_⟩
    rintro ⟨S, hS⟩
    rw [hcs] at hc
    exact H.no_stable (mem_of_some_mem hc) hno S hS

/-- **DC-ST** (with certificate) -/
theorem st_dc_ok (v : FwView) (g : G) (hv : v.Ok g) (args : List Nat) (hargs : ∀ a ∈ args, g.live a = true)
    (w : World) (hb : w.Bounded) :
    wp True (stDC v args) w (fun a _ => DCOK .ST g args true a) := by
  have _ := hargs
  obtain ⟨cs, hcs, H⟩ := compList_of_view v g hv
  refine wp_mono _ _ _ _ ?_ (wp_stDC v args w hb (hcs ▸ H.wf))
  rintro a w' ⟨_, h1, h2⟩
  refine ⟨fun hs => ?_, fun hs => ?_⟩
  · obtain ⟨cs', es, hcs', hcert, hes, i, c, e, hc, he, x, hx, p, hp, hpe⟩ := h1 hs
    have : cs' = cs := map_some_inj' (by rw [← hcs', hcs])
    subst this
    have hst : g.Stable (ofList (backZip cs' es)) := H.assemble hes
    have hh := hitsL_backZip hc he hx hp hpe
    exact ⟨⟨_, hst, hh⟩, fun _ => ⟨_, hcert, hst, hh⟩⟩
  · obtain ⟨hcert, ⟨c, hc, hno⟩ | ⟨cs', hcs', hall⟩⟩ := h2 hs
    · refine ⟨?_, fun _ => hcert⟩
      rintro ⟨S, hS, _⟩
      rw [hcs] at hc
      exact H.no_stable (mem_of_some_mem hc) hno S hS
    · have : cs' = cs := map_some_inj' (by rw [← hcs', hcs])
      subst this
      exact ⟨H.no_hit hall, fun _ => hcert⟩

/-- **DS-ST** (with counterexample) -/
theorem st_ds_ok (v : FwView) (g : G) (hv : v.Ok g) (args : List Nat) (hargs : ∀ a ∈ args, g.live a = true)
    (w : World) (hb : w.Bounded) :
    wp True (stDS v args) w (fun a _ => DSOK .ST g args true a) := by
  have _ := hargs
  obtain ⟨cs, hcs, H⟩ := compList_of_view v g hv
  refine wp_mono _ _ _ _ ?_ (wp_stDS v args w hb (hcs ▸ H.wf))
  rintro a w' ⟨_, h1, h2⟩
  refine ⟨fun hs => ?_, fun hs => ?_⟩
  · obtain ⟨hcert, ⟨c, hc, hno⟩ | ⟨c, hc, hall⟩⟩ := h2 hs
    · refine ⟨fun S hS => ?_, fun _ => hcert⟩
      rw [hcs] at hc
      exact (H.no_stable (mem_of_some_mem hc) hno S hS).elim
    · rw [hcs] at hc
      exact ⟨H.all_hit (mem_of_some_mem hc) hall, fun _ => hcert⟩
  · obtain ⟨cs', es, hcs', hcert, hes, hav⟩ := h1 hs
    have : cs' = cs := map_some_inj' (by rw [← hcs', hcs])
    subst this
    have hst : g.Stable (ofList (backZip cs' es)) := H.assemble hes
    have hnh := not_hitsL_backZip H hav
    exact ⟨⟨_, hst, hnh⟩, fun _ => ⟨_, hcert, hst, hnh⟩⟩

/-- the certificate variants imply the plain ones -/
theorem DCOK.strip {σ : Sem} {g : G} {args : List Nat} {a : AccAns} (h : DCOK σ g args true a) :
    DCOK σ g args false ⟨a.status, none⟩ :=
  ⟨fun hs => ⟨(h.1 hs).1, fun hc => by cases hc⟩, fun hs => ⟨(h.2 hs).1, fun hc => by cases hc⟩⟩

theorem DSOK.strip {σ : Sem} {g : G} {args : List Nat} {a : AccAns} (h : DSOK σ g args true a) :
    DSOK σ g args false ⟨a.status, none⟩ :=
  ⟨fun hs => ⟨(h.1 hs).1, fun hc => by cases hc⟩, fun hs => ⟨(h.2 hs).1, fun hc => by cases hc⟩⟩

/-- **the stable solver, every entry point** -/
theorem st_entry_ok (cfg : Cfg) (v : FwView) (g : G) (hv : v.Ok g) (e : Entry)
    (hargs : ∀ a, a ∈ e.argsList → g.live a = true) (p : Prog Ans)
    (hp : entryProg .ST cfg v e = some p) (w : World) (hb : w.Bounded) :
    wp True p w (fun ans _ => EntryOK .ST g e ans) := by
  cases e with
  | se =>
    simp only [entryProg, Option.some.injEq] at hp
    subst hp
    simp only [Prog.bind_eq]
    rw [wp_bind]
    refine wp_mono _ _ _ _ ?_ (st_se_ok v g hv w hb)
    intro res _ h
    exact h
  | dc cert args =>
    simp only [entryProg, Option.some.injEq] at hp
    subst hp
    unfold certOnly
    simp only [Prog.bind_eq]
    rw [wp_bind]
    refine wp_mono _ _ _ _ ?_ (st_dc_ok v g hv args hargs w hb)
    intro a _ h
    show EntryOK .ST g (.dc cert args) (.acc (if cert then a else ⟨a.status, none⟩) cert)
    cases cert with
    | true => exact ⟨rfl, h, fun hc => by cases hc⟩
    | false => exact ⟨rfl, h.strip, fun _ => rfl⟩
  | ds cert args =>
    simp only [entryProg, Option.some.injEq] at hp
    subst hp
    unfold certOnly
    simp only [Prog.bind_eq]
    rw [wp_bind]
    refine wp_mono _ _ _ _ ?_ (st_ds_ok v g hv args hargs w hb)
    intro a _ h
    show EntryOK .ST g (.ds cert args) (.acc (if cert then a else ⟨a.status, none⟩) cert)
    cases cert with
    | true => exact ⟨rfl, h, fun hc => by cases hc⟩
    | false => exact ⟨rfl, h.strip, fun _ => rfl⟩

end Crusta
