import Crusta.Proofs.Assemble
import Crusta.Proofs.StaticAll

/-!
# Renaming the arguments of a sparse graph

`Bij`: a bijection of the id space `Nat`, given with its inverse.  `G.rename g ρ` is the graph `g`
with every argument `a` renamed `ρ.f a`; `ρ.image S` is the set `S` renamed the same way.  All the
definitions of `GSem.lean` / `GSem2.lean` / `ViewSpec.lean` are first-order over the graph, so every
one of the seven semantics is carried across (`G.ext_rename`, no finiteness hypothesis needed), and
so are the credulous and skeptical statuses of a list of arguments (`G.status_rename`).

`solver_status_renaming_invariant`: on the solver programs — a view of `g` queried on `args` and a
view of `g.rename ρ` queried on `args.map ρ.f` return the same status.
-/

namespace Crusta

/-- a bijection of the id space, with its inverse -/
structure Bij where
  f : Nat → Nat
  finv : Nat → Nat
  l : ∀ a, finv (f a) = a
  r : ∀ a, f (finv a) = a

namespace Bij

/-- the inverse bijection -/
def symm (ρ : Bij) : Bij := ⟨ρ.finv, ρ.f, ρ.r, ρ.l⟩

/-- the identity -/
def id : Bij := ⟨fun a => a, fun a => a, fun _ => rfl, fun _ => rfl⟩

/-- the set `S` with every member `a` renamed `ρ.f a` -/
def image (ρ : Bij) (S : ASet) : ASet := fun a => S (ρ.finv a)

variable (ρ : Bij)

@[simp] theorem image_apply (S : ASet) (a : Nat) : ρ.image S a = S (ρ.finv a) := rfl

theorem image_f (S : ASet) (a : Nat) : ρ.image S (ρ.f a) = S a := by
  show S (ρ.finv (ρ.f a)) = S a
  rw [ρ.l]

/-- every set is the image of its preimage -/
theorem image_preimage (T : ASet) : ρ.image (fun a => T (ρ.f a)) = T := by
  funext a
  show T (ρ.f (ρ.finv a)) = T a
  rw [ρ.r]

theorem preimage_image (S : ASet) : (fun a => ρ.image S (ρ.f a)) = S := by
  funext a
  exact ρ.image_f S a

/-- quantifying over ids through the inverse -/
theorem forall_finv (P : Nat → Prop) : (∀ a, P (ρ.finv a)) ↔ ∀ a, P a := by
  constructor
  · intro h a
    have := h (ρ.f a)
    rw [ρ.l] at this
    exact this
  · intro h a
    exact h _

theorem exists_finv (P : Nat → Prop) : (∃ a, P (ρ.finv a)) ↔ ∃ a, P a := by
  constructor
  · rintro ⟨a, h⟩
    exact ⟨_, h⟩
  · rintro ⟨a, h⟩
    refine ⟨ρ.f a, ?_⟩
    rw [ρ.l]
    exact h

/-- quantifying over sets through the image -/
theorem forall_image (P : ASet → Prop) : (∀ T', P T') ↔ ∀ T, P (ρ.image T) := by
  constructor
  · intro h T
    exact h _
  · intro h T'
    have := h (fun a => T' (ρ.f a))
    rw [ρ.image_preimage] at this
    exact this

theorem exists_image (P : ASet → Prop) : (∃ T', P T') ↔ ∃ T, P (ρ.image T) := by
  constructor
  · rintro ⟨T', h⟩
    refine ⟨fun a => T' (ρ.f a), ?_⟩
    rw [ρ.image_preimage]
    exact h
  · rintro ⟨T, h⟩
    exact ⟨_, h⟩

theorem subsetS_image (S T : ASet) : SubsetS (ρ.image S) (ρ.image T) ↔ SubsetS S T :=
  ρ.forall_finv (fun a => S a = true → T a = true)

/-- a list renamed element-wise is the image of the set it denotes -/
theorem ofList_map (e : List Nat) : ofList (e.map ρ.f) = ρ.image (ofList e) := by
  funext a
  apply Bool.eq_iff_iff.2
  simp only [ofList, image_apply, List.contains_iff_mem, List.mem_map]
  constructor
  · rintro ⟨b, hb, rfl⟩
    rw [ρ.l]
    exact hb
  · intro h
    exact ⟨_, h, ρ.r a⟩

/-- a query hits the renamed set iff the original query hits the original set -/
theorem hitsL_map (args : List Nat) (S : ASet) : HitsL (args.map ρ.f) (ρ.image S) ↔ HitsL args S := by
  unfold HitsL
  constructor
  · rintro ⟨a, ha, hS⟩
    obtain ⟨b, hb, rfl⟩ := List.mem_map.1 ha
    rw [ρ.image_f] at hS
    exact ⟨b, hb, hS⟩
  · rintro ⟨a, ha, hS⟩
    refine ⟨ρ.f a, List.mem_map.2 ⟨a, ha, rfl⟩, ?_⟩
    rw [ρ.image_f]
    exact hS

end Bij

/-- the graph `g` with every argument `a` renamed `ρ.f a` -/
def G.rename (g : G) (ρ : Bij) : G :=
  ⟨fun a => g.live (ρ.finv a), fun a b => g.att (ρ.finv a) (ρ.finv b)⟩

namespace G

variable (g : G) (ρ : Bij)

@[simp] theorem rename_live (a : Nat) : (g.rename ρ).live a = g.live (ρ.finv a) := rfl
@[simp] theorem rename_att (a b : Nat) : (g.rename ρ).att a b ↔ g.att (ρ.finv a) (ρ.finv b) := Iff.rfl

theorem rename_live_f (a : Nat) : (g.rename ρ).live (ρ.f a) = g.live a := by
  show g.live (ρ.finv (ρ.f a)) = g.live a
  rw [ρ.l]

theorem rename_att_f (a b : Nat) : (g.rename ρ).att (ρ.f a) (ρ.f b) ↔ g.att a b := by
  show g.att (ρ.finv (ρ.f a)) (ρ.finv (ρ.f b)) ↔ g.att a b
  rw [ρ.l, ρ.l]

/-- renaming back gives the original graph -/
theorem rename_rename_symm : (g.rename ρ).rename ρ.symm = g := by
  cases g with
  | mk live att =>
    show G.mk (fun a => live (ρ.finv (ρ.f a))) (fun a b => att (ρ.finv (ρ.f a)) (ρ.finv (ρ.f b))) = G.mk live att
    simp only [ρ.l]

theorem wf_rename : (g.rename ρ).WF ↔ g.WF := by
  unfold WF
  constructor
  · intro h a b hab
    have := h (ρ.f a) (ρ.f b) ((g.rename_att_f ρ a b).2 hab)
    rw [rename_live_f, rename_live_f] at this
    exact this
  · intro h a b hab
    exact h _ _ hab

theorem attackedBy_rename (S : ASet) (a : Nat) :
    (g.rename ρ).AttackedBy (ρ.image S) a ↔ g.AttackedBy S (ρ.finv a) :=
  ρ.exists_finv (fun b => g.att b (ρ.finv a) ∧ S b = true)

theorem defended_rename (S : ASet) (a : Nat) :
    (g.rename ρ).Defended (ρ.image S) a ↔ g.Defended S (ρ.finv a) := by
  unfold Defended
  simp only [attackedBy_rename]
  exact ρ.forall_finv (fun b => g.att b (ρ.finv a) → g.AttackedBy S b)

theorem inRange_rename (S : ASet) (a : Nat) :
    (g.rename ρ).InRange (ρ.image S) a ↔ g.InRange S (ρ.finv a) := by
  unfold InRange
  rw [attackedBy_rename]
  rfl

theorem rangeSub_rename (S T : ASet) :
    (g.rename ρ).RangeSub (ρ.image S) (ρ.image T) ↔ g.RangeSub S T := by
  unfold RangeSub
  simp only [inRange_rename]
  exact ρ.forall_finv (fun a => g.InRange S a → g.InRange T a)

theorem cf_rename (S : ASet) : (g.rename ρ).CF (ρ.image S) ↔ g.CF S := by
  unfold CF
  simp only [attackedBy_rename]
  exact and_congr (ρ.forall_finv (fun a => S a = true → g.live a = true))
    (ρ.forall_finv (fun a => S a = true → ¬ g.AttackedBy S a))

theorem admissible_rename (S : ASet) : (g.rename ρ).Admissible (ρ.image S) ↔ g.Admissible S := by
  unfold Admissible
  simp only [cf_rename, defended_rename]
  exact and_congr Iff.rfl (ρ.forall_finv (fun a => S a = true → g.Defended S a))

theorem complete_rename (S : ASet) : (g.rename ρ).Complete (ρ.image S) ↔ g.Complete S := by
  unfold Complete
  simp only [admissible_rename, defended_rename]
  exact and_congr Iff.rfl (ρ.forall_finv (fun a => g.live a = true → g.Defended S a → S a = true))

theorem stable_rename (S : ASet) : (g.rename ρ).Stable (ρ.image S) ↔ g.Stable S := by
  unfold Stable
  simp only [cf_rename, attackedBy_rename]
  exact and_congr Iff.rfl (ρ.forall_finv (fun a => g.live a = true → S a = false → g.AttackedBy S a))

theorem grounded_rename (S : ASet) : (g.rename ρ).Grounded (ρ.image S) ↔ g.Grounded S := by
  unfold Grounded
  rw [ρ.forall_image (fun T' => (g.rename ρ).Complete T' → SubsetS (ρ.image S) T')]
  simp only [complete_rename, Bij.subsetS_image]

theorem preferred_rename (S : ASet) : (g.rename ρ).Preferred (ρ.image S) ↔ g.Preferred S := by
  unfold Preferred
  rw [ρ.forall_image (fun T' => (g.rename ρ).Admissible T' → SubsetS (ρ.image S) T' → SubsetS T' (ρ.image S))]
  simp only [admissible_rename, Bij.subsetS_image]

theorem semiStable_rename (S : ASet) : (g.rename ρ).SemiStable (ρ.image S) ↔ g.SemiStable S := by
  unfold SemiStable
  rw [ρ.forall_image (fun T' => (g.rename ρ).Complete T' →
    (g.rename ρ).RangeSub (ρ.image S) T' → (g.rename ρ).RangeSub T' (ρ.image S))]
  simp only [complete_rename, rangeSub_rename]

theorem stage_rename (S : ASet) : (g.rename ρ).Stage (ρ.image S) ↔ g.Stage S := by
  unfold Stage
  rw [ρ.forall_image (fun T' => (g.rename ρ).CF T' →
    (g.rename ρ).RangeSub (ρ.image S) T' → (g.rename ρ).RangeSub T' (ρ.image S))]
  simp only [cf_rename, rangeSub_rename]

theorem idealCand_rename (S : ASet) : (g.rename ρ).IdealCand (ρ.image S) ↔ g.IdealCand S := by
  unfold IdealCand
  rw [ρ.forall_image (fun P' => (g.rename ρ).Preferred P' → SubsetS (ρ.image S) P')]
  simp only [admissible_rename, preferred_rename, Bij.subsetS_image]

theorem ideal_rename (S : ASet) : (g.rename ρ).Ideal (ρ.image S) ↔ g.Ideal S := by
  unfold Ideal
  rw [ρ.forall_image (fun T' => (g.rename ρ).IdealCand T' → SubsetS (ρ.image S) T' → SubsetS T' (ρ.image S))]
  simp only [idealCand_rename, Bij.subsetS_image]

/-- the two spellings of "extension of `g` for `σ`" agree -/
theorem ext_eq_gext (σ : Sem) : g.Ext σ = σ.GExt g := by
  cases σ <;> rfl

/-- **renaming the arguments maps extensions to extensions**, for all seven semantics, on every
graph (finite or not, well-formed or not) -/
theorem gext_rename (σ : Sem) (S : ASet) : σ.GExt (g.rename ρ) (ρ.image S) ↔ σ.GExt g S := by
  cases σ with
  | GR => exact grounded_rename g ρ S
  | CO => exact complete_rename g ρ S
  | PR => exact preferred_rename g ρ S
  | ST => exact stable_rename g ρ S
  | SST => exact semiStable_rename g ρ S
  | STG => exact stage_rename g ρ S
  | ID => exact ideal_rename g ρ S

/-- the same with the `G.Ext` spelling -/
theorem ext_rename (σ : Sem) (S : ASet) : (g.rename ρ).Ext σ (ρ.image S) ↔ g.Ext σ S := by
  rw [ext_eq_gext, ext_eq_gext]
  exact gext_rename g ρ σ S

/-- the extensions of the renamed graph are exactly the images of the extensions -/
theorem gext_rename_iff (σ : Sem) (S' : ASet) :
    σ.GExt (g.rename ρ) S' ↔ ∃ S, σ.GExt g S ∧ S' = ρ.image S := by
  constructor
  · intro h
    refine ⟨fun a => S' (ρ.f a), ?_, (ρ.image_preimage S').symm⟩
    rw [← gext_rename g ρ, ρ.image_preimage]
    exact h
  · rintro ⟨S, hS, rfl⟩
    exact (gext_rename g ρ σ S).2 hS

/-- **credulous and skeptical statuses of a list of arguments are invariant under renaming** -/
theorem gstatus_rename (σ : Sem) (args : List Nat) :
    ((∃ S, σ.GExt g S ∧ HitsL args S) ↔ (∃ S', σ.GExt (g.rename ρ) S' ∧ HitsL (args.map ρ.f) S')) ∧
    ((∀ S, σ.GExt g S → HitsL args S) ↔ (∀ S', σ.GExt (g.rename ρ) S' → HitsL (args.map ρ.f) S')) := by
  constructor
  · rw [ρ.exists_image (fun S' => σ.GExt (g.rename ρ) S' ∧ HitsL (args.map ρ.f) S')]
    simp only [gext_rename, Bij.hitsL_map]
  · rw [ρ.forall_image (fun S' => σ.GExt (g.rename ρ) S' → HitsL (args.map ρ.f) S')]
    simp only [gext_rename, Bij.hitsL_map]

/-- the same with the `G.Ext` spelling -/
theorem status_rename (σ : Sem) (args : List Nat) :
    ((∃ S, g.Ext σ S ∧ HitsL args S) ↔ (∃ S', (g.rename ρ).Ext σ S' ∧ HitsL (args.map ρ.f) S')) ∧
    ((∀ S, g.Ext σ S → HitsL args S) ↔ (∀ S', (g.rename ρ).Ext σ S' → HitsL (args.map ρ.f) S')) := by
  rw [ext_eq_gext, ext_eq_gext]
  exact gstatus_rename g ρ σ args

/-- the existence of an extension is invariant too -/
theorem exists_gext_rename (σ : Sem) : (∃ S, σ.GExt g S) ↔ ∃ S', σ.GExt (g.rename ρ) S' := by
  rw [ρ.exists_image (fun S' => σ.GExt (g.rename ρ) S')]
  simp only [gext_rename]

end G

/-! ## the obligations of the entry points, transported -/

/-- a conforming answer to the renamed credulous query, with its certificate renamed back, conforms
to the original query -/
theorem DCOK.of_rename {σ : Sem} {g : G} {ρ : Bij} {args : List Nat} {cert : Bool} {a : AccAns}
    (h : DCOK σ (g.rename ρ) (args.map ρ.f) cert a) :
    DCOK σ g args cert ⟨a.status, a.cert.map (fun e => e.map ρ.finv)⟩ := by
  have hst := G.gstatus_rename g ρ σ args
  constructor
  · intro hs
    obtain ⟨h1, h2⟩ := h.1 hs
    refine ⟨hst.1.2 h1, ?_⟩
    intro hc
    obtain ⟨e, he, hE, hH⟩ := h2 hc
    refine ⟨e.map ρ.finv, by simp [he], ?_, ?_⟩
    · have := (G.gext_rename (g.rename ρ) ρ.symm σ (ofList e)).2 hE
      rw [G.rename_rename_symm, ← Bij.ofList_map] at this
      exact this
    · have := (Bij.hitsL_map ρ.symm (args.map ρ.f) (ofList e)).2 hH
      rw [← Bij.ofList_map, List.map_map] at this
      have hid : (ρ.symm.f ∘ ρ.f) = fun a => a := funext ρ.l
      rw [hid, List.map_id'] at this
      exact this
  · intro hs
    obtain ⟨h1, h2⟩ := h.2 hs
    refine ⟨fun hn => h1 (hst.1.1 hn), ?_⟩
    intro hc
    simp [h2 hc]

/-- a conforming answer to the renamed skeptical query, with its certificate renamed back, conforms
to the original query -/
theorem DSOK.of_rename {σ : Sem} {g : G} {ρ : Bij} {args : List Nat} {cert : Bool} {a : AccAns}
    (h : DSOK σ (g.rename ρ) (args.map ρ.f) cert a) :
    DSOK σ g args cert ⟨a.status, a.cert.map (fun e => e.map ρ.finv)⟩ := by
  have hst := G.gstatus_rename g ρ σ args
  have hid : (ρ.symm.f ∘ ρ.f) = fun a => a := funext ρ.l
  have hback : ∀ S', ¬ HitsL (args.map ρ.f) S' → ¬ HitsL args (ρ.symm.image S') := by
    intro S' hn hh
    apply hn
    have := (Bij.hitsL_map ρ (args) (ρ.symm.image S')).2 hh
    rw [show ρ.image (ρ.symm.image S') = S' from ρ.image_preimage S'] at this
    exact this
  constructor
  · intro hs
    obtain ⟨h1, h2⟩ := h.1 hs
    refine ⟨hst.2.2 h1, ?_⟩
    intro hc
    simp [h2 hc]
  · intro hs
    obtain ⟨⟨S', hS', hn⟩, h2⟩ := h.2 hs
    refine ⟨⟨ρ.symm.image S', ?_, hback S' hn⟩, ?_⟩
    · have := (G.gext_rename (g.rename ρ) ρ.symm σ S').2 hS'
      rw [G.rename_rename_symm] at this
      exact this
    · intro hc
      obtain ⟨e, he, hE, hH⟩ := h2 hc
      refine ⟨e.map ρ.finv, by simp [he], ?_, ?_⟩
      · have := (G.gext_rename (g.rename ρ) ρ.symm σ (ofList e)).2 hE
        rw [G.rename_rename_symm, ← Bij.ofList_map] at this
        exact this
      · have := hback _ hH
        rw [← Bij.ofList_map] at this
        exact this

/-- the status of an acceptance query is determined by the semantics up to renaming: a conforming
answer on `g` and a conforming answer on the renamed graph to the renamed query have the same
status -/
theorem status_determined_rename (σ : Sem) (g : G) (ρ : Bij) (args : List Nat) (c1 c2 : Bool)
    (a1 a2 : AccAns) :
    (DCOK σ g args c1 a1 → DCOK σ (g.rename ρ) (args.map ρ.f) c2 a2 → a1.status = a2.status) ∧
    (DSOK σ g args c1 a1 → DSOK σ (g.rename ρ) (args.map ρ.f) c2 a2 → a1.status = a2.status) := by
  constructor
  · intro h1 h2
    exact (status_determined σ g args c1 c2 a1 ⟨a2.status, a2.cert.map (fun e => e.map ρ.finv)⟩).1 h1 h2.of_rename
  · intro h1 h2
    exact (status_determined σ g args c1 c2 a1 ⟨a2.status, a2.cert.map (fun e => e.map ρ.finv)⟩).2 h1 h2.of_rename

/-- **the solvers' statuses do not depend on the names of the arguments** (on the solver programs):
a view presenting `g`, queried on `args`, and a view presenting `g` with its arguments renamed by
any bijection `ρ` of the id space, queried on the renamed arguments, give the same credulous and
the same skeptical status — for every solver type, admissible encoders, sound reply lists, with or
without certificate, whatever the histories of the two views -/
theorem solver_status_renaming_invariant (sk : SolverKind) (v1 v2 : FwView) (g : G) (ρ : Bij)
    (hv1 : v1.Ok g) (hv2 : v2.Ok (g.rename ρ))
    (args : List Nat) (hargs : ∀ a ∈ args, g.live a = true)
    (cfg1 cfg2 : Cfg) (h1 : CfgOK sk cfg1) (h2 : CfgOK sk cfg2) (c1 c2 : Bool)
    (w1 w2 : World) (hb1 : w1.Bounded) (hb2 : w2.Bounded) (rs1 rs2 : List Reply)
    (a1 a2 : AccAns) (cv1 cv2 : Bool) (w1' w2' : World) :
    (∀ p1 p2, entryProg sk cfg1 v1 (.dc c1 args) = some p1 →
      entryProg sk cfg2 v2 (.dc c2 (args.map ρ.f)) = some p2 →
      RunSound p1 rs1 w1 → RunSound p2 rs2 w2 →
      interp p1 rs1 w1 = (.done (.acc a1 cv1), w1') → interp p2 rs2 w2 = (.done (.acc a2 cv2), w2') →
      a1.status = a2.status) ∧
    (∀ p1 p2, entryProg sk cfg1 v1 (.ds c1 args) = some p1 →
      entryProg sk cfg2 v2 (.ds c2 (args.map ρ.f)) = some p2 →
      RunSound p1 rs1 w1 → RunSound p2 rs2 w2 →
      interp p1 rs1 w1 = (.done (.acc a1 cv1), w1') → interp p2 rs2 w2 = (.done (.acc a2 cv2), w2') →
      a1.status = a2.status) := by
  have hargs2 : ∀ x, x ∈ args.map ρ.f → (g.rename ρ).live x = true := by
    intro x hx
    obtain ⟨a, ha, rfl⟩ := List.mem_map.1 hx
    rw [G.rename_live_f]
    exact hargs a ha
  constructor
  · intro p1 p2 hp1 hp2 hs1 hs2 hr1 hr2
    obtain ⟨_, hd1, _⟩ := static_answers_conform sk cfg1 h1 v1 g hv1 (.dc c1 args)
      (fun x hx => hargs x hx) p1 hp1 w1 hb1 rs1 hs1 _ w1' hr1
    obtain ⟨_, hd2, _⟩ := static_answers_conform sk cfg2 h2 v2 (g.rename ρ) hv2 (.dc c2 (args.map ρ.f))
      hargs2 p2 hp2 w2 hb2 rs2 hs2 _ w2' hr2
    exact (status_determined_rename sk.sem g ρ args c1 c2 a1 a2).1 hd1 hd2
  · intro p1 p2 hp1 hp2 hs1 hs2 hr1 hr2
    obtain ⟨_, hd1, _⟩ := static_answers_conform sk cfg1 h1 v1 g hv1 (.ds c1 args)
      (fun x hx => hargs x hx) p1 hp1 w1 hb1 rs1 hs1 _ w1' hr1
    obtain ⟨_, hd2, _⟩ := static_answers_conform sk cfg2 h2 v2 (g.rename ρ) hv2 (.ds c2 (args.map ρ.f))
      hargs2 p2 hp2 w2 hb2 rs2 hs2 _ w2' hr2
    exact (status_determined_rename sk.sem g ρ args c1 c2 a1 a2).2 hd1 hd2

end Crusta
