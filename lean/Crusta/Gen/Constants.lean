/-! Regenerated from /repo by tools/gen_from_source.py on every run. Do not edit. -/

namespace Crusta.Gen

/-- `DEFENDER_SETS_PROD_THRESHOLD` in `encodings/hybrid_complete_constraints_encoder.rs` -/
def hybridThreshold : Nat := 32

end Crusta.Gen
