import Crusta.Proofs.StaticSpec
import Crusta.Proofs.GroundedAlg
import Crusta.Proofs.SolveBase

/-! # The grounded solver: all entry points -/

namespace Crusta

theorem G.grounded_unique {g : G} {S T : ASet} (hS : g.Grounded S) (hT : g.Grounded T) (a : Nat) : S a = T a := by
  have h1 := hS.2 T hT.1 a
  have h2 := hT.2 S hS.1 a
  cases hSa : S a <;> cases hTa : T a <;> simp_all

theorem hitsL_any (args l : List Nat) : args.any l.contains = true ↔ HitsL args (ofList l) := by
  simp [HitsL, ofList, List.any_eq_true]

theorem HitsL.congr {args : List Nat} {S T : ASet} (h : ∀ a, S a = T a) : HitsL args S ↔ HitsL args T := by
  unfold HitsL
  constructor
  · rintro ⟨a, ha, hs⟩; exact ⟨a, ha, by rw [← h]; exact hs⟩
  · rintro ⟨a, ha, hs⟩; exact ⟨a, ha, by rw [h]; exact hs⟩

theorem gr_entry_ok (cfg : Cfg) (v : FwView) (g : G) (hv : v.Ok g) (e : Entry) (p : Prog Ans)
    (hp : entryProg .GR cfg v e = some p) (w : World) :
    wp True p w (fun ans _ => EntryOK .GR g e ans) := by
  obtain ⟨hgr, _, _⟩ := groundedV_spec v g hv
  cases e with
  | se =>
    simp only [entryProg, Option.some.injEq] at hp
    subst hp
    show SEOK .GR g (some (groundedV v))
    exact ⟨fun e he => by injection he with he; subst he; exact hgr, fun h => by cases h⟩
  | dc cert args =>
    simp only [entryProg, Option.some.injEq] at hp
    subst hp
    unfold certOnly grDC
    simp only [Prog.bind_eq]
    by_cases hhit : args.any (groundedV v).contains = true
    · simp only [hhit, if_true]
      show EntryOK .GR g (.dc cert args) (.acc (if cert then ⟨true, some (groundedV v)⟩ else ⟨true, none⟩) cert)
      have hh := (hitsL_any _ _).1 hhit
      refine ⟨rfl, ⟨fun _ => ⟨⟨_, hgr, hh⟩, fun hc => ?_⟩, fun hf => ?_⟩, fun hc => by simp [hc]⟩
      · simp only [hc, if_true]; exact ⟨_, rfl, hgr, hh⟩
      · cases cert <;> simp at hf
    · simp only [hhit, Bool.false_eq_true, if_false]
      show EntryOK .GR g (.dc cert args) (.acc (if cert then ⟨false, none⟩ else ⟨false, none⟩) cert)
      refine ⟨rfl, ⟨fun hf => ?_, fun _ => ⟨?_, fun _ => by cases cert <;> rfl⟩⟩, fun _ => by cases cert <;> rfl⟩
      · cases cert <;> simp at hf
      · rintro ⟨S, hS, hSh⟩
        exact hhit ((hitsL_any _ _).2 ((HitsL.congr (G.grounded_unique hS hgr)).1 hSh))
  | ds cert args =>
    simp only [entryProg, Option.some.injEq] at hp
    subst hp
    unfold certOnly grDS
    simp only [Prog.bind_eq]
    by_cases hhit : args.any (groundedV v).contains = true
    · simp only [hhit, if_true]
      show EntryOK .GR g (.ds cert args) (.acc (if cert then ⟨true, none⟩ else ⟨true, none⟩) cert)
      have hh := (hitsL_any _ _).1 hhit
      refine ⟨rfl, ⟨fun _ => ⟨fun S hS => (HitsL.congr (G.grounded_unique hS hgr)).2 hh, fun _ => by cases cert <;> rfl⟩,
        fun hf => ?_⟩, fun _ => by cases cert <;> rfl⟩
      cases cert <;> simp at hf
    · simp only [hhit, Bool.false_eq_true, if_false]
      show EntryOK .GR g (.ds cert args) (.acc (if cert then ⟨false, some (groundedV v)⟩ else ⟨false, none⟩) cert)
      have hnh : ¬ HitsL args (ofList (groundedV v)) := fun hh => hhit ((hitsL_any _ _).2 hh)
      refine ⟨rfl, ⟨fun hf => ?_, fun _ => ⟨⟨_, hgr, hnh⟩, fun hc => ?_⟩⟩, fun hc => by simp [hc]⟩
      · cases cert <;> simp at hf
      · simp only [hc, if_true]; exact ⟨_, rfl, hgr, hnh⟩

end Crusta
