"""(n as f64 * factor) as usize  ==  n*num//den  for the factors used; Python floats are IEEE f64 like Rust's."""
import struct
FACT = {"1": (1, 1), "1.5": (3, 2), "2": (2, 1), "3.7": (37, 10)}
DRIVER = {"1": (1, 1), "1.5": (15, 10), "2": (2, 1), "3.7": (37, 10)}  # what Driver.factorOf parses
bad = 0
for s, (num, den) in FACT.items():
    f = float(s)
    dn, dd = DRIVER[s]
    for n in range(0, 1000001):
        a = int(float(n) * f)      # Rust `as usize` on a non-negative finite f64 truncates
        if a != n * num // den or a != n * dn // dd:
            bad += 1
            if bad < 10:
                print("DIFF", s, n, a, n * num // den)
print("factors", list(FACT), "n=0..10^6 mismatches:", bad)
