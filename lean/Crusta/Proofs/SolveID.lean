import Crusta.Proofs.SolveIDAux

/-!
# Ideal semantics on one component

1. `idEnumLoop` enumerates the preferred extensions of the component with a preferred computer and
   maintains the intersection of those found (`EnInv`, `EL`, `IaInv`, `wp_idEnumLoop`).  It stops
   early when the intersection has shrunk to the grounded extension, or when there is no further
   preferred extension (`EnumPost`).
2. `idFinish` answers at once in two easy cases; otherwise a second computer, of kind `.ideal forb`,
   grows a ⊆-maximal complete extension inside the intersection.  That computer works on the *same*
   SAT solver, whose clause database still contains the blocking clauses of the first computer; they
   all contain the positive literal of the first selector, which `drop` has forced true
   (`Dropped`).  `MInvD` is `MInv` with such dead clauses allowed (`solve_satD`, `solve_unsatD`).
-/

namespace Crusta
open Prog (mkSolver doReserve addClause addClauses getNVars doSolve)

/-! ## the solver invariant with a dead selector -/

/-- as `MInv`, but the solver may hold further clauses, each containing the positive literal of the
variable `dead`, which is neither the selector nor a variable of the encoding -/
structure MInvD (m : MEC) (w : World) (blocked : List (List Nat)) (dead : Nat) : Prop where
  wf : m.af.WF
  isCO : ∀ T, m.enc.Base m.af T ↔ Complete m.af T
  db_sound : ∀ c ∈ w.db m.sid, c ∈ m.enc.clauses m.af ∨
    (∃ E ∈ blocked, c = outL m.enc m.af.n E ++ [pl m.sel]) ∨ pl dead ∈ c
  db_enc : ∀ c ∈ m.enc.clauses m.af, c ∈ w.db m.sid
  db_blk : ∀ E ∈ blocked, outL m.enc m.af.n E ++ [pl m.sel] ∈ w.db m.sid
  fresh_enc : ∀ c ∈ m.enc.clauses m.af, ∀ l ∈ c, l.var ≠ m.sel
  fresh_arg : ∀ a, a < m.af.n → m.enc.argVar a ≠ m.sel
  dead_enc : ∀ c ∈ m.enc.clauses m.af, ∀ l ∈ c, l.var ≠ dead
  dead_arg : ∀ a, a < m.af.n → m.enc.argVar a ≠ dead
  dead_sel : m.sel ≠ dead
  no_add : m.additional = []

theorem MInvD.congr_db {m : MEC} {w w' : World} {blocked : List (List Nat)} {dead : Nat}
    (h : MInvD m w blocked dead) (hdb : w'.db m.sid = w.db m.sid) : MInvD m w' blocked dead :=
  { h with db_sound := by rw [hdb]; exact h.db_sound
           db_enc := by rw [hdb]; exact h.db_enc
           db_blk := by rw [hdb]; exact h.db_blk }

theorem MInvD.congr_m {m m' : MEC} {w : World} {blocked : List (List Nat)} {dead : Nat}
    (h : MInvD m w blocked dead)
    (haf : m'.af = m.af) (henc : m'.enc = m.enc) (hsid : m'.sid = m.sid) (hsel : m'.sel = m.sel)
    (hadd : m'.additional = m.additional) : MInvD m' w blocked dead := by
  constructor
  · rw [haf]; exact h.wf
  · rw [haf, henc]; exact h.isCO
  · rw [haf, henc, hsid, hsel]; exact h.db_sound
  · rw [haf, henc, hsid]; exact h.db_enc
  · rw [haf, henc, hsid, hsel]; exact h.db_blk
  · rw [haf, henc, hsel]; exact h.fresh_enc
  · rw [haf, henc, hsel]; exact h.fresh_arg
  · rw [haf, henc]; exact h.dead_enc
  · rw [haf, henc]; exact h.dead_arg
  · rw [hsel]; exact h.dead_sel
  · rw [hadd]; exact h.no_add

theorem MInvD.block {m : MEC} {w : World} {blocked : List (List Nat)} {dead : Nat}
    (h : MInvD m w blocked dead) (E : List Nat) :
    MInvD m (w.onClause m.sid (outL m.enc m.af.n E ++ [pl m.sel])) (E :: blocked) dead := by
  refine { h with db_sound := ?_, db_enc := ?_, db_blk := ?_ }
  · intro c hc
    rw [db_onClause_same] at hc
    rcases List.mem_cons.1 hc with rfl | hc
    · exact Or.inr (Or.inl ⟨E, by simp, rfl⟩)
    · rcases h.db_sound c hc with h1 | ⟨E', hE', rfl⟩ | h3
      · exact Or.inl h1
      · exact Or.inr (Or.inl ⟨E', by simp [hE'], rfl⟩)
      · exact Or.inr (Or.inr h3)
  · intro c hc; rw [db_onClause_same]; exact List.mem_cons_of_mem _ (h.db_enc c hc)
  · intro E' hE'
    rw [db_onClause_same]
    rcases List.mem_cons.1 hE' with rfl | hE'
    · exact List.mem_cons_self
    · exact List.mem_cons_of_mem _ (h.db_blk E' hE')

theorem solve_satD {m : MEC} {w : World} {blocked : List (List Nat)} {dead : Nat} (h : MInvD m w blocked dead)
    (must : List Nat) (extra : List Lit) {ν : Asg} (hΓ : cnfTrue ν (w.db m.sid) = true)
    (hA : assumpsTrue ν (inL m.enc m.af.n must ++ [nl m.sel] ++ extra) = true) :
    Complete m.af (m.enc.S m.af ν) ∧ (∀ a ∈ must, a < m.af.n → m.enc.S m.af ν a = true) ∧
      (∀ E ∈ blocked, ¬ SubL (m.enc.S m.af ν) E) ∧ assumpsTrue ν extra = true := by
  rw [cnfTrue_iff] at hΓ
  have henc : cnfTrue ν (m.enc.clauses m.af) = true := by
    rw [cnfTrue_iff]; intro c hc; exact hΓ c (h.db_enc c hc)
  simp only [assumpsTrue, List.all_append, Bool.and_eq_true, List.all_eq_true] at hA
  obtain ⟨⟨hin, hsel⟩, hextra⟩ := hA
  have hsel' : ν m.sel = false := by simpa using hsel (nl m.sel) (by simp)
  refine ⟨(h.isCO _).1 (m.enc.sound m.af h.wf ν henc), (inL_true m.enc m.af ν must).1 hin, ?_, ?_⟩
  · intro E hE hsub
    have := hΓ _ (h.db_blk E hE)
    rw [clauseTrue_iff] at this
    obtain ⟨l, hl, hlt⟩ := this
    rcases List.mem_append.1 hl with hl | hl
    · obtain ⟨a, ha, hS⟩ := (outL_true m.enc m.af ν E).1 ⟨l, hl, hlt⟩
      exact ha (hsub a hS)
    · simp only [List.mem_singleton] at hl; subst hl
      simp [hsel'] at hlt
  · simp only [assumpsTrue, List.all_eq_true]; exact hextra

/-- completeness: the canonical assignment of `T` is extended with `selector := false` and
`dead := true`, which satisfies the dead clauses -/
theorem solve_unsatD {m : MEC} {w : World} {blocked : List (List Nat)} {dead : Nat} (h : MInvD m w blocked dead)
    (must : List Nat) (extra : List Lit)
    (hun : ∀ ν : Asg, ¬ (cnfTrue ν (w.db m.sid) = true ∧
      assumpsTrue ν (inL m.enc m.af.n must ++ [nl m.sel] ++ extra) = true))
    {T : ASet} (hT : Complete m.af T) (hmust : ∀ a ∈ must, a < m.af.n → T a = true)
    (hextra : ∀ ν, m.enc.S m.af ν = T → ν m.sel = false → assumpsTrue ν extra = true) :
    ∃ E ∈ blocked, SubL T E := by
  apply Classical.byContradiction
  intro hno
  obtain ⟨ν, hν, hS⟩ := m.enc.complete m.af h.wf T ((h.isCO _).2 hT)
  have hS' : m.enc.S m.af ((ν.set m.sel false).set dead true) = T := by
    rw [m.enc.S_set_fresh m.af _ _ _ h.dead_arg, m.enc.S_set_fresh m.af ν _ _ h.fresh_arg, hS]
  have hselF : ((ν.set m.sel false).set dead true) m.sel = false := by
    rw [Asg.set_ne _ _ h.dead_sel]; simp
  apply hun ((ν.set m.sel false).set dead true)
  constructor
  · rw [cnfTrue_iff]
    intro c hc
    rcases h.db_sound c hc with hc' | ⟨E, hE, rfl⟩ | hd
    · rw [clauseTrue_set_fresh _ _ _ (h.dead_enc c hc'), clauseTrue_set_fresh _ _ _ (h.fresh_enc c hc')]
      exact (cnfTrue_iff _ _).1 hν c hc'
    · rw [clauseTrue_iff]
      have : ¬ SubL T E := fun hsub => hno ⟨E, hE, hsub⟩
      simp only [SubL, Classical.not_forall] at this
      obtain ⟨a, hTa, hna⟩ := this
      obtain ⟨l, hl, hlt⟩ := (outL_true m.enc m.af ((ν.set m.sel false).set dead true) E).2
        ⟨a, hna, by rw [hS']; exact hTa⟩
      exact ⟨l, List.mem_append_left _ hl, hlt⟩
    · rw [clauseTrue_iff]
      exact ⟨pl dead, hd, by simp⟩
  · simp only [assumpsTrue, List.all_append, Bool.and_eq_true]
    refine ⟨⟨?_, by simp [hselF]⟩, hextra _ hS' hselF⟩
    rw [List.all_eq_true]
    apply (inL_true m.enc m.af _ must).2
    intro a ha hn
    rw [hS']; exact hmust a ha hn

theorem wp_MEC_solveD {C : Prop} {m : MEC} {w : World} {blocked : List (List Nat)} {dead : Nat}
    (h : MInvD m w blocked dead)
    (must : List Nat) (extra : List Lit) (Q : Option (Model × List Nat) → World → Prop)
    (hsat : ∀ mdl w', MInvD m w' blocked dead →
      Complete m.af (ofList (m.enc.decode m.af.n mdl)) →
      (∀ a ∈ must, a < m.af.n → a ∈ m.enc.decode m.af.n mdl) →
      (∀ E ∈ blocked, ¬ SubL (ofList (m.enc.decode m.af.n mdl)) E) →
      assumpsTrue (asgOfModel mdl) extra = true →
      Q (some (mdl, m.enc.decode m.af.n mdl)) w')
    (hunsat : ∀ w', MInvD m w' blocked dead →
      (∀ T, Complete m.af T → (∀ a ∈ must, a < m.af.n → T a = true) →
        (∀ ν, m.enc.S m.af ν = T → ν m.sel = false → assumpsTrue ν extra = true) → ∃ E ∈ blocked, SubL T E) →
      Q none w') :
    wp C (m.solve (inL m.enc m.af.n must ++ [nl m.sel] ++ extra)) w Q := by
  unfold MEC.solve
  simp only [Prog.bind_eq, h.no_add, List.append_nil]
  rw [wp_bind]
  have hdb : ∀ r, ((w.onSolve m.sid (inL m.enc m.af.n must ++ [nl m.sel] ++ extra)).onReply m.sid r).db m.sid
      = w.db m.sid := by
    intro r; simp
  constructor
  · rintro mdl ⟨_, hΓ, hA⟩
    obtain ⟨h1, h2, h3, h4⟩ := solve_satD h must extra hΓ hA
    have hS := m.enc.ofList_decode m.af mdl
    refine hsat mdl _ (h.congr_db (hdb _)) (by rw [hS]; exact h1) ?_ (by rw [hS]; exact h3) h4
    intro a ha hn
    exact (m.enc.decode_spec m.af mdl a).2 (h2 a ha hn)
  · intro hun
    refine hunsat _ (h.congr_db (hdb _)) ?_
    intro T hT hmust hextra
    exact solve_unsatD h must extra hun hT hmust hextra

/-! ## the computer of kind `.ideal`: growing inside the intersection -/

/-- the assumptions `¬a` for the arguments outside the Boolean vector `inAll` -/
def forbL (enc : EncKind) (n : Nat) (inAll : List Bool) : List Lit :=
  ((List.range n).filter (fun i => !inAll.getD i false)).map (fun i => (argLit enc i).neg)

theorem forbL_true (enc : EncKind) (af : AF) (ν : Asg) (inAll : List Bool) :
    assumpsTrue ν (forbL enc af.n inAll) = true ↔ ∀ a, enc.S af ν a = true → inAll.getD a false = true := by
  unfold assumpsTrue forbL
  rw [List.all_eq_true]
  constructor
  · intro h a hS
    have hn := enc.S_sub af ν a hS
    cases hi : inAll.getD a false with
    | true => rfl
    | false =>
      have := h ((argLit enc a).neg)
        (List.mem_map_of_mem (List.mem_filter.2 ⟨List.mem_range.2 hn, by
          show (!inAll.getD a false) = true
          rw [hi]; rfl⟩))
      rw [enc.S_lt hn] at hS
      simp [litTrue, Lit.neg, argLit, pl, hS] at this
  · intro h l hl
    obtain ⟨i, hi, rfl⟩ := List.mem_map.1 hl
    obtain ⟨h1, h2⟩ := List.mem_filter.1 hi
    have hn := List.mem_range.1 h1
    cases hv : ν (enc.argVar i) with
    | false => simp [litTrue, Lit.neg, argLit, pl, hv]
    | true =>
      have := h i (by rw [enc.S_lt hn]; exact hv)
      have h2' : (!inAll.getD i false) = true := h2
      rw [this] at h2'
      cases h2'

theorem blockAndAssume_ideal {m : MEC} {forb : List Lit} (hk : m.kind = .ideal forb) :
    m.blockAndAssume = (outL m.enc m.af.n m.cur ++ [pl m.sel], inL m.enc m.af.n m.cur ++ [nl m.sel] ++ forb) := by
  unfold MEC.blockAndAssume
  rw [hk]
  simp only [splitInExt_eq]

/-- growing phase of the ideal computer: the current set is complete and inside `inAll`, every blocked
set is below it -/
structure GrowD (m : MEC) (w : World) (blocked : List (List Nat)) (dead : Nat) (inAll : List Bool) : Prop where
  minv : MInvD m w blocked dead
  kind : m.kind = .ideal (forbL m.enc m.af.n inAll)
  st : m.state = .intermediate ∨ m.state = .maximal
  cur_lt : ∀ a ∈ m.cur, a < m.af.n
  cur_co : Complete m.af (ofList m.cur)
  cur_in : ∀ a ∈ m.cur, inAll.getD a false = true
  below : ∀ B ∈ blocked, ∀ a ∈ B, a ∈ m.cur
  max : m.state = .maximal → ∀ T, Complete m.af T → (∀ a, T a = true → inAll.getD a false = true) →
    SubsetS (ofList m.cur) T → SubsetS T (ofList m.cur)

theorem wp_increaseD {C : Prop} {m : MEC} {w : World} {blocked : List (List Nat)} {dead : Nat} {inAll : List Bool}
    (h : GrowD m w blocked dead inAll) (hst : m.state = .intermediate) :
    wp C m.computeNext w (fun m' w' => ∃ blocked', GrowD m' w' blocked' dead inAll ∧ m'.af = m.af ∧
      (∀ a ∈ m.cur, a ∈ m'.cur)) := by
  unfold MEC.computeNext
  rw [hst]
  simp only [Prog.bind_eq, blockAndAssume_ideal h.kind]
  rw [wp_bind, wp_addClause1, wp_bind]
  have hM := h.minv.block m.cur
  apply wp_MEC_solveD hM m.cur (forbL m.enc m.af.n inAll)
  · intro mdl w' hM' hco hmust hblk hex
    refine ⟨m.cur :: blocked, ⟨hM'.congr_m rfl rfl rfl rfl rfl, h.kind, Or.inl rfl, ?_, hco, ?_, ?_, ?_⟩, rfl, ?_⟩
    · intro a ha
      exact (hco.1.1.1) a ((ofList_mem _ a).2 ha)
    · intro a ha
      exact (forbL_true m.enc m.af _ inAll).1 hex a ((m.enc.decode_spec m.af mdl a).1 ha)
    · intro B hB a ha
      rcases List.mem_cons.1 hB with rfl | hB
      · exact hmust a ha (h.cur_lt a ha)
      · exact hmust a (h.below B hB a ha) (h.cur_lt a (h.below B hB a ha))
    · intro hmax; cases hmax
    · intro a ha; exact hmust a ha (h.cur_lt a ha)
  · intro w' hM' hun
    refine ⟨m.cur :: blocked, ⟨hM'.congr_m rfl rfl rfl rfl rfl, h.kind, Or.inr rfl, h.cur_lt, h.cur_co, h.cur_in, ?_, ?_⟩,
      rfl, fun a ha => ha⟩
    · intro B hB a ha
      rcases List.mem_cons.1 hB with rfl | hB
      · exact ha
      · exact h.below B hB a ha
    · intro _ T hT hTin hsub
      obtain ⟨E, hE, hTE⟩ := hun T hT (fun a ha _ => hsub a ((ofList_mem _ a).2 ha))
        (fun ν hS _ => (forbL_true m.enc m.af ν inAll).2 (by rw [hS]; exact hTin))
      intro a hTa
      apply (ofList_mem _ a).2
      rcases List.mem_cons.1 hE with rfl | hE
      · exact hTE a hTa
      · exact h.below E hE a (hTE a hTa)

/-- what the ideal computer returns: a complete extension inside `inAll`, ⊆-maximal among those -/
def MaxIn (af : AF) (inAll : List Bool) (e : List Nat) : Prop :=
  Complete af (ofList e) ∧ (∀ a ∈ e, inAll.getD a false = true) ∧ (∀ a ∈ e, a < af.n) ∧
    ∀ T, Complete af T → (∀ a, T a = true → inAll.getD a false = true) → SubsetS (ofList e) T →
      SubsetS T (ofList e)

theorem wp_computeMaximalD (dead : Nat) (inAll : List Bool) : ∀ (fuel : Nat) (m : MEC) (w : World)
    (blocked : List (List Nat)), GrowD m w blocked dead inAll →
    wp True (MEC.computeMaximal fuel m) w (fun e _ => MaxIn m.af inAll e)
  | 0, _, _, _, _ => trivial
  | fuel + 1, m, w, blocked, h => by
    unfold MEC.computeMaximal
    by_cases hmax : m.state = .maximal
    · simp only [hmax, beq_self_eq_true, if_true, Prog.bind_eq]
      rw [wp_bind]
      exact ⟨h.cur_co, h.cur_in, h.cur_lt, h.max hmax⟩
    · have hst : m.state = .intermediate := h.st.resolve_right hmax
      have hne : (m.state == MState.maximal) = false := by rw [hst]; rfl
      simp only [hne, Bool.false_eq_true, if_false, Prog.bind_eq]
      rw [wp_bind]
      refine wp_mono _ _ _ _ ?_ (wp_increaseD h hst)
      rintro m' w' ⟨blocked', hG, haf, _⟩
      refine wp_mono _ _ _ _ ?_ (wp_computeMaximalD dead inAll fuel m' w' blocked' hG)
      intro e _ he
      rw [haf] at he
      exact he

theorem wp_computeMaximalD_init (dead : Nat) (inAll : List Bool) (fuel : Nat) (m : MEC) (w : World)
    (h : MInvD m w [] dead) (hk : m.kind = .ideal (forbL m.enc m.af.n inAll)) (hst : m.state = .init)
    (hgr : GrOK m.af) (hgin : ∀ a ∈ groundedV m.af.view, inAll.getD a false = true) :
    wp True (MEC.computeMaximal fuel m) w (fun e _ => MaxIn m.af inAll e) := by
  cases fuel with
  | zero => trivial
  | succ fuel =>
    unfold MEC.computeMaximal
    have hne : (m.state == MState.maximal) = false := by rw [hst]; rfl
    simp only [hne, Bool.false_eq_true, if_false, Prog.bind_eq]
    rw [wp_bind]
    unfold MEC.computeNext
    rw [hst]
    show wp True (MEC.computeMaximal fuel { m with cur := groundedV m.af.view, state := .intermediate }) w _
    exact wp_computeMaximalD dead inAll fuel _ w []
      ⟨h.congr_m rfl rfl rfl rfl rfl, hk, Or.inl rfl, hgr.2.1, hgr.1, hgin, (fun B hB => by cases hB),
        (fun hh => by cases hh)⟩

/-! ## what the first computer leaves in the solver -/

/-- the solver after the first computer has been dropped: the encoder's clauses, and clauses that
contain the positive literal of `dead`, among them the unit clause -/
structure Dropped (enc : EncKind) (af : AF) (s : Nat) (dead : Nat) (w : World) : Prop where
  db_sound : ∀ c ∈ w.db s, c ∈ enc.clauses af ∨ pl dead ∈ c
  db_enc : ∀ c ∈ enc.clauses af, c ∈ w.db s
  db_dead : [pl dead] ∈ w.db s
  fresh_enc : ∀ c ∈ enc.clauses af, ∀ l ∈ c, l.var ≠ dead
  arg_lt : ∀ a, a < af.n → enc.argVar a < dead

theorem Dropped.of_MInv {m : MEC} {w : World} {blocked : List (List Nat)} (h : MInv m w blocked)
    (hlt : ∀ a, a < m.af.n → m.enc.argVar a < m.sel) :
    Dropped m.enc m.af m.sid m.sel (w.onClause m.sid [pl m.sel]) := by
  refine ⟨?_, ?_, ?_, h.fresh_enc, hlt⟩
  · intro c hc
    rw [db_onClause_same] at hc
    rcases List.mem_cons.1 hc with rfl | hc
    · exact Or.inr (by simp)
    · rcases h.db_sound c hc with h1 | ⟨E, _, rfl⟩
      · exact Or.inl h1
      · exact Or.inr (by simp)
  · intro c hc; rw [db_onClause_same]; exact List.mem_cons_of_mem _ (h.db_enc c hc)
  · rw [db_onClause_same]; exact List.mem_cons_self

/-- a second computer created on a dropped solver -/
theorem wp_MEC_newD {C : Prop} {enc : EncKind} {af : AF} {s dead : Nat} {w : World} (hd : Dropped enc af s dead w)
    (hwf : af.WF) (hco : ∀ T, enc.Base af T ↔ Complete af T) (hb : w.Bounded) (hs : s < w.solvers.length)
    (kind : MKind) :
    wp C (MEC.new af enc s kind) w (fun m w' => MInvD m w' [] dead ∧ m.af = af ∧ m.enc = enc ∧
      m.kind = kind ∧ m.state = .init) := by
  unfold MEC.new
  simp only [Prog.bind_eq]
  rw [wp_bind, wp_getNVars]
  have hdead : dead ≤ w.nVarsOf s := hb s hs _ hd.db_dead (pl dead) (by simp)
  refine ⟨⟨hwf, hco, ?_, ?_, ?_, ?_, ?_, hd.fresh_enc, ?_, ?_, rfl⟩, rfl, rfl, rfl, rfl⟩
  · intro c hc
    rw [db_onNVars] at hc
    rcases hd.db_sound c hc with h1 | h2
    · exact Or.inl h1
    · exact Or.inr (Or.inr h2)
  · intro c hc; rw [db_onNVars]; exact hd.db_enc c hc
  · intro E hE; cases hE
  · intro c hc l hl
    have := hb s hs c (hd.db_enc c hc) l hl
    show l.var ≠ w.nVarsOf s + 1
    omega
  · intro a ha
    have := hd.arg_lt a ha
    show enc.argVar a ≠ w.nVarsOf s + 1
    omega
  · intro a ha
    have := hd.arg_lt a ha
    show enc.argVar a ≠ dead
    omega
  · show w.nVarsOf s + 1 ≠ dead
    omega

/-! ## enumerating the preferred extensions -/

/-- the invariant of the enumeration, in the growing phase: `found` lists the preferred extensions
already counted; a blocked set is below a counted extension or below the current set -/
structure EnInv (m : MEC) (w : World) (blocked found : List (List Nat)) : Prop where
  minv : MInv m w blocked
  kind : m.kind = .preferred
  cur_lt : ∀ a ∈ m.cur, a < m.af.n
  cur_nd : m.cur.Nodup
  cur_co : Complete m.af (ofList m.cur)
  sep : ∀ B ∈ blocked, (∀ a ∈ B, a ∈ m.cur) ∨ ¬ (∀ a ∈ m.cur, a ∈ B)
  top : ∀ B ∈ blocked, (∃ F ∈ found, ∀ a ∈ B, a ∈ F) ∨ (∀ a ∈ B, a ∈ m.cur)

theorem EnInv.mono {m : MEC} {w : World} {blocked found : List (List Nat)} (h : EnInv m w blocked found)
    (E : List Nat) : EnInv m w blocked (E :: found) := by
  refine { h with top := ?_ }
  intro B hB
  rcases h.top B hB with ⟨F, hF, hsub⟩ | h2
  · exact Or.inl ⟨F, List.mem_cons_of_mem _ hF, hsub⟩
  · exact Or.inr h2

/-- a fresh search when every blocked set is below a counted preferred extension -/
theorem wp_newSearch_en {C : Prop} {m : MEC} {w : World} {blocked found : List (List Nat)}
    (hM : MInv m w blocked) (hk : m.kind = .preferred)
    (hpf : ∀ F ∈ found, Preferred m.af (ofList F))
    (htop : ∀ B ∈ blocked, ∃ F ∈ found, ∀ a ∈ B, a ∈ F) :
    wp C m.newSearch w (fun m' w' =>
      m'.af = m.af ∧ m'.enc = m.enc ∧ m'.sid = m.sid ∧ m'.sel = m.sel ∧ m'.kind = m.kind ∧
      ((m'.state = .intermediate ∧ EnInv m' w' blocked found) ∨
       (m'.state = .none ∧ MInv m' w' blocked ∧
          ∀ P, Preferred m.af P → ∃ F ∈ found, ∀ a, P a = ofList F a))) := by
  unfold MEC.newSearch
  simp only [Prog.bind_eq]
  rw [wp_bind]
  have happ : [nl m.sel] = inL m.enc m.af.n [] ++ [nl m.sel] ++ [] := by simp [inL]
  rw [happ]
  apply wp_MEC_solve hM [] []
  · intro mdl w' hM' _ hco _ hblk _
    refine ⟨rfl, rfl, rfl, rfl, rfl, Or.inl ⟨rfl, hM'.congr_m rfl rfl rfl rfl rfl, hk, ?_,
      m.enc.decode_nodup m.af.n mdl, hco, ?_, ?_⟩⟩
    · intro a ha; exact hco.1.1.1 a ((ofList_mem _ a).2 ha)
    · intro B hB
      right
      intro hsub
      exact hblk B hB (fun a ha => hsub a ((ofList_mem _ a).1 ha))
    · intro B hB; exact Or.inl (htop B hB)
  · intro w' hM' _ hun
    refine ⟨rfl, rfl, rfl, rfl, rfl, Or.inr ⟨rfl, hM'.congr_m rfl rfl rfl rfl rfl, ?_⟩⟩
    intro P hP
    obtain ⟨E, hE, hPE⟩ := hun P (preferred_complete hP) (fun a ha => by cases ha)
      (fun _ _ _ => by simp [assumpsTrue])
    obtain ⟨F, hF, hEF⟩ := htop E hE
    have hPF : SubsetS P (ofList F) := fun a ha => (ofList_mem _ a).2 (hEF a (hPE a ha))
    have hFP := hP.2 _ (hpf F hF).1 hPF
    refine ⟨F, hF, ?_⟩
    intro a
    have h1 := hPF a
    have h2 := hFP a
    cases hPa : P a <;> cases hFa : ofList F a <;> simp_all

/-- the increase step from an intermediate set -/
theorem wp_increase_en {C : Prop} {m : MEC} {w : World} {blocked found : List (List Nat)}
    (h : EnInv m w blocked found) (hst : m.state = .intermediate) :
    wp C m.computeNext w (fun m' w' =>
      m'.af = m.af ∧ m'.enc = m.enc ∧ m'.sid = m.sid ∧ m'.sel = m.sel ∧ m'.kind = m.kind ∧
      ((m'.state = .intermediate ∧ EnInv m' w' (m.cur :: blocked) found) ∨
       (m'.state = .maximal ∧ EnInv m' w' (m.cur :: blocked) found ∧ Preferred m.af (ofList m'.cur)))) := by
  unfold MEC.computeNext
  rw [hst]
  simp only [Prog.bind_eq, blockAndAssume_pref h.kind]
  rw [wp_bind, wp_addClause1, wp_bind]
  have hM := h.minv.block m.cur
  have happ : inL m.enc m.af.n m.cur ++ [nl m.sel] = inL m.enc m.af.n m.cur ++ [nl m.sel] ++ [] := by simp
  rw [happ]
  apply wp_MEC_solve hM m.cur []
  · intro mdl w' hM' _ hco hmust hblk _
    refine ⟨rfl, rfl, rfl, rfl, rfl, Or.inl ⟨rfl, hM'.congr_m rfl rfl rfl rfl rfl, h.kind, ?_,
      m.enc.decode_nodup m.af.n mdl, hco, ?_, ?_⟩⟩
    · intro a ha; exact hco.1.1.1 a ((ofList_mem _ a).2 ha)
    · intro B hB
      right
      intro hsub
      exact hblk B hB (fun a ha => hsub a ((ofList_mem _ a).1 ha))
    · intro B hB
      rcases List.mem_cons.1 hB with rfl | hB
      · exact Or.inr (fun a ha => hmust a ha (h.cur_lt a ha))
      · rcases h.top B hB with hD | hsub
        · exact Or.inl hD
        · exact Or.inr (fun a ha => hmust a (hsub a ha) (h.cur_lt a (hsub a ha)))
  · intro w' hM' _ hun
    have hpref : Preferred m.af (ofList m.cur) := by
      apply preferred_of_max_complete h.cur_co
      intro T hT hsub
      obtain ⟨E, hE, hTE⟩ := hun T hT (fun a ha _ => hsub a ((ofList_mem _ a).2 ha))
        (fun _ _ _ => by simp [assumpsTrue])
      intro a hTa
      apply (ofList_mem _ a).2
      rcases List.mem_cons.1 hE with rfl | hE
      · exact hTE a hTa
      · rcases h.sep E hE with h1 | h1
        · exact h1 a (hTE a hTa)
        · exact absurd (fun a ha => hTE a (hsub a ((ofList_mem _ a).2 ha))) h1
    refine ⟨rfl, rfl, rfl, rfl, rfl, Or.inr ⟨rfl, ⟨hM'.congr_m rfl rfl rfl rfl rfl, h.kind, h.cur_lt, h.cur_nd,
      h.cur_co, ?_, ?_⟩, hpref⟩⟩
    · intro B hB
      rcases List.mem_cons.1 hB with rfl | hB
      · exact Or.inl (fun a ha => ha)
      · exact h.sep B hB
    · intro B hB
      rcases List.mem_cons.1 hB with rfl | hB
      · exact Or.inr (fun a ha => ha)
      · exact h.top B hB

/-- the states in which the enumeration loop starts an iteration; the computer keeps its framework,
encoder, solver and selector -/
def EL (af : AF) (enc : EncKind) (sid sel : Nat) (m : MEC) (w : World) (found : List (List Nat)) : Prop :=
  m.af = af ∧ m.enc = enc ∧ m.sid = sid ∧ m.sel = sel ∧ m.kind = .preferred ∧
  ((m.state = .init ∧ MInv m w [] ∧ found = []) ∨
   (m.state = .intermediate ∧ ∃ blocked, EnInv m w blocked found) ∨
   (m.state = .maximal ∧ (∃ blocked, EnInv m w blocked found) ∧ m.cur ∈ found))

/-- what `compute_next` leaves during the enumeration -/
def ENext (af : AF) (enc : EncKind) (sid sel : Nat) (m' : MEC) (w' : World) (found : List (List Nat)) : Prop :=
  m'.af = af ∧ m'.enc = enc ∧ m'.sid = sid ∧ m'.sel = sel ∧ m'.kind = .preferred ∧
  ((m'.state = .intermediate ∧ ∃ blocked, EnInv m' w' blocked found) ∨
   (m'.state = .maximal ∧ (∃ blocked, EnInv m' w' blocked found) ∧ Preferred af (ofList m'.cur)) ∨
   (m'.state = .none ∧ found ≠ [] ∧ (∃ blocked, MInv m' w' blocked) ∧
      ∀ P, Preferred af P → ∃ F ∈ found, ∀ a, P a = ofList F a))

theorem wp_next_en {C : Prop} {af : AF} {enc : EncKind} {sid sel : Nat} {m : MEC} {w : World}
    {found : List (List Nat)} (h : EL af enc sid sel m w found) (hgr : GrOK af)
    (hnd : (groundedV af.view).Nodup) (hpf : ∀ F ∈ found, Preferred af (ofList F)) :
    wp C m.computeNext w (fun m' w' => ENext af enc sid sel m' w' found) := by
  obtain ⟨rfl, rfl, rfl, rfl, hk, hcase⟩ := h
  rcases hcase with ⟨hst, hM, _⟩ | ⟨hst, blocked, hS⟩ | ⟨hst, ⟨blocked, hS⟩, hcur⟩
  · unfold MEC.computeNext
    rw [hst]
    refine ⟨rfl, rfl, rfl, rfl, hk, Or.inl ⟨rfl, [], hM.congr_m rfl rfl rfl rfl rfl, hk, hgr.2.1, hnd, hgr.1, ?_, ?_⟩⟩
    · intro B hB; cases hB
    · intro B hB; cases hB
  · refine wp_mono _ _ _ _ ?_ (wp_increase_en hS hst)
    rintro m' w' ⟨haf, henc, hsid, hsel, hkk, hcase⟩
    refine ⟨haf, henc, hsid, hsel, by rw [hkk]; exact hk, ?_⟩
    rcases hcase with ⟨hst', hS'⟩ | ⟨hst', hS', hpref⟩
    · exact Or.inl ⟨hst', _, hS'⟩
    · exact Or.inr (Or.inl ⟨hst', ⟨_, hS'⟩, hpref⟩)
  · unfold MEC.computeNext
    rw [hst]
    simp only [Prog.bind_eq, blockAndAssume_pref hk]
    rw [wp_bind, wp_addClause1]
    have htop : ∀ B ∈ m.cur :: blocked, ∃ F ∈ found, ∀ a ∈ B, a ∈ F := by
      intro B hB
      rcases List.mem_cons.1 hB with rfl | hB
      · exact ⟨_, hcur, fun a ha => ha⟩
      · rcases hS.top B hB with h1 | h2
        · exact h1
        · exact ⟨_, hcur, h2⟩
    refine wp_mono _ _ _ _ ?_ (wp_newSearch_en (hS.minv.block m.cur) hk hpf htop)
    rintro m' w' ⟨haf, henc, hsid, hsel, hkk, hcase⟩
    refine ⟨haf, henc, hsid, hsel, by rw [hkk]; exact hk, ?_⟩
    rcases hcase with ⟨hst', hS'⟩ | ⟨hst', hM', hall⟩
    · exact Or.inl ⟨hst', _, hS'⟩
    · exact Or.inr (Or.inr ⟨hst', (fun e => by rw [e] at hcur; cases hcur), ⟨_, hM'⟩, hall⟩)

/-- the callback's state: `inAll` is the intersection of the extensions found so far -/
structure IaInv (af : AF) (found : List (List Nat)) (ia : InAll) : Prop where
  pref : ∀ F ∈ found, Preferred af (ofList F)
  inAll : ∀ a, ia.inAll.getD a false = true ↔ a < af.n ∧ ∀ F ∈ found, a ∈ F
  np : ia.nPreferred = found.length
  ne : found ≠ [] → ia.nInAll ≠ (groundedV af.view).length

/-- what the enumeration establishes -/
structure EnumPost (af : AF) (ia : InAll) : Prop where
  /-- `inAll` contains what every preferred extension contains -/
  sup : ∀ a, (∀ P, Preferred af P → P a = true) → ia.inAll.getD a false = true
  cases :
    -- early exit: the intersection found is inside the grounded extension
    (ia.nInAll = (groundedV af.view).length ∧ ∀ a, ia.inAll.getD a false = true → a ∈ groundedV af.view) ∨
    -- exhaustive enumeration: `inAll` is the intersection of all the preferred extensions
    (ia.nInAll ≠ (groundedV af.view).length ∧
      (∀ a, ia.inAll.getD a false = true → ∀ P, Preferred af P → P a = true) ∧
      (ia.nPreferred = 1 → ∃ P, Preferred af P ∧ ∀ Q, Preferred af Q → ∀ a, Q a = P a))

theorem IaInv.sup {af : AF} {found : List (List Nat)} {ia : InAll} (h : IaInv af found ia) (a : Nat)
    (ha : ∀ P, Preferred af P → P a = true) : ia.inAll.getD a false = true :=
  (h.inAll a).2 ⟨inAllPref_lt ha, fun F hF => (ofList_mem _ a).1 (ha _ (h.pref F hF))⟩

/-- **the enumeration loop** -/
theorem wp_idEnumLoop (af : AF) (enc : EncKind) (sid sel : Nat) (hgr : GrOK af)
    (hnd : (groundedV af.view).Nodup) (hlt : ∀ a, a < af.n → enc.argVar a < sel) :
    ∀ (fuel : Nat) (m : MEC) (w : World) (found : List (List Nat)) (ia : InAll),
    EL af enc sid sel m w found → IaInv af found ia →
    wp True (idEnumLoop (groundedV af.view).length fuel m ia) w (fun ia' w' =>
      EnumPost af ia' ∧ Dropped enc af sid sel w')
  | 0, _, _, _, _, _, _ => trivial
  | fuel + 1, m, w, found, ia, h, hia => by
    unfold idEnumLoop
    simp only [Prog.bind_eq]
    rw [wp_bind]
    refine wp_mono _ _ _ _ ?_ (wp_next_en h hgr hnd hia.pref)
    rintro m' w' ⟨haf, henc, hsid, hsel, hk', hcase⟩
    rcases hcase with ⟨hst, blocked, hS⟩ | ⟨hst, ⟨blocked, hS⟩, hpref⟩ | ⟨hst, hne, ⟨blocked, hM⟩, hall⟩
    · -- intermediate
      rw [hst]
      simp only
      exact wp_idEnumLoop af enc sid sel hgr hnd hlt fuel m' w' found ia
        ⟨haf, henc, hsid, hsel, hk', Or.inr (Or.inl ⟨hst, blocked, hS⟩)⟩ hia
    · -- maximal: one more preferred extension
      rw [hst]
      simp only
      have hia' : ∀ cnt, cnt ≠ (groundedV af.view).length →
          IaInv af (m'.cur :: found)
            ⟨(List.range m'.af.n).map (fun i => ia.inAll.getD i false && m'.cur.contains i), cnt, ia.nPreferred + 1⟩ := by
        intro cnt hcnt
        refine ⟨?_, ?_, ?_, fun _ => hcnt⟩
        · intro F hF
          rcases List.mem_cons.1 hF with rfl | hF
          · exact hpref
          · exact hia.pref F hF
        · intro a
          show ((List.range m'.af.n).map (fun i => ia.inAll.getD i false && m'.cur.contains i)).getD a false = true ↔ _
          rw [getD_map_range_bool, haf]
          simp only [Bool.and_eq_true, List.contains_iff_mem, List.mem_cons, hia.inAll a]
          constructor
          · rintro ⟨hn, ⟨_, hf⟩, hc⟩
            refine ⟨hn, ?_⟩
            rintro F (rfl | hF)
            · exact hc
            · exact hf F hF
          · rintro ⟨hn, hf⟩
            exact ⟨hn, ⟨hn, fun F hF => hf F (Or.inr hF)⟩, hf _ (Or.inl rfl)⟩
        · show ia.nPreferred + 1 = (m'.cur :: found).length
          rw [hia.np]; rfl
      by_cases hcnt : ((m'.cur.filter (fun a => ia.inAll.getD a false)).length != (groundedV af.view).length) = true
      · rw [if_pos hcnt]
        have hcnt' : (m'.cur.filter (fun a => ia.inAll.getD a false)).length ≠ (groundedV af.view).length := by
          simpa using hcnt
        exact wp_idEnumLoop af enc sid sel hgr hnd hlt fuel m' w' (m'.cur :: found) _
          ⟨haf, henc, hsid, hsel, hk', Or.inr (Or.inr ⟨hst, ⟨blocked, hS.mono _⟩, by simp⟩)⟩
          (hia' _ hcnt')
      · rw [if_neg hcnt]
        rw [wp_bind, wp_drop]
        have hcnt' : (m'.cur.filter (fun a => ia.inAll.getD a false)).length = (groundedV af.view).length := by
          simpa using hcnt
        -- the counting argument
        have hco : Complete af (ofList m'.cur) := by rw [← haf]; exact hS.cur_co
        have hgsub : ∀ a ∈ groundedV af.view, a ∈ m'.cur.filter (fun a => ia.inAll.getD a false) := by
          intro a ha
          have hGa : ofList (groundedV af.view) a = true := (ofList_mem _ a).2 ha
          refine List.mem_filter.2 ⟨(ofList_mem _ a).1 (hgr.2.2 _ hco a hGa), ?_⟩
          exact (hia.inAll a).2 ⟨hgr.2.1 a ha, fun F hF =>
            (ofList_mem _ a).1 (hgr.2.2 _ (preferred_complete (hia.pref F hF)) a hGa)⟩
        have hback := subset_of_nodup_length_le hnd hgsub
          (List.Nodup.sublist List.filter_sublist hS.cur_nd) (Nat.le_of_eq hcnt')
        have hnew : ∀ a, ((List.range m'.af.n).map (fun i => ia.inAll.getD i false && m'.cur.contains i)).getD a false = true ↔
            a < af.n ∧ ia.inAll.getD a false = true ∧ a ∈ m'.cur := by
          intro a
          rw [getD_map_range_bool, haf]
          simp
        refine ⟨⟨?_, Or.inl ⟨hcnt', ?_⟩⟩, ?_⟩
        · intro a ha
          refine (hnew a).2 ⟨inAllPref_lt ha, hia.sup a ha, (ofList_mem _ a).1 (ha _ hpref)⟩
        · intro a ha
          obtain ⟨_, h1, h2⟩ := (hnew a).1 ha
          exact hback a (List.mem_filter.2 ⟨h2, h1⟩)
        · have := Dropped.of_MInv hS.minv (by rw [haf, henc, hsel]; exact hlt)
          rw [haf, henc] at this
          rw [hsid, hsel] at this ⊢
          exact this
    · -- none: every preferred extension has been counted
      rw [hst]
      simp only
      rw [wp_bind, wp_drop]
      refine ⟨⟨hia.sup, Or.inr ⟨hia.ne hne, ?_, ?_⟩⟩, ?_⟩
      · intro a ha P hP
        obtain ⟨F, hF, hPF⟩ := hall P hP
        rw [hPF a]
        exact (ofList_mem _ a).2 (((hia.inAll a).1 ha).2 F hF)
      · intro h1
        rw [hia.np] at h1
        match found, h1, hia.pref, hall with
        | [F], _, hp, hall =>
          refine ⟨ofList F, hp F (by simp), ?_⟩
          intro Q hQ a
          obtain ⟨F', hF', hQF⟩ := hall Q hQ
          simp only [List.mem_singleton] at hF'
          subst hF'
          exact hQF a
      · have := Dropped.of_MInv hM (by rw [haf, henc, hsel]; exact hlt)
        rw [haf, henc] at this
        rw [hsid, hsel] at this ⊢
        exact this

/-! ## `idInAll`, `idFinish` -/

theorem wp_idInAll (cfg : Cfg) (hk : ∀ af T, cfg.enc.Base af T ↔ Complete af T) (c : Comp)
    (hwf : c.af.WF) (hgr : GrOK c.af) (w : World) (s : Nat) (hb : w.Bounded) (hs : s < w.solvers.length)
    (hdb : w.db s = []) :
    wp True (idInAll cfg c (groundedV c.af.view).length s) w (fun ia w' =>
      w'.Bounded ∧ s < w'.solvers.length ∧ EnumPost c.af ia ∧ ∃ dead, Dropped cfg.enc c.af s dead w') := by
  apply wp_bounded _ _ _ hb
  apply wp_len (s + 1) _ _ _ hs
  unfold idInAll
  simp only [Prog.bind_eq]
  rw [wp_bind]
  apply wp_encodeInto _ _ _ _ _ hb hs hdb
  intro w1 henc _
  rw [wp_bind]
  unfold MEC.new
  simp only [Prog.bind_eq]
  rw [wp_bind, wp_getNVars]
  have hnew := wp_MEC_new (C := True) henc hwf (hk _) .preferred
  unfold MEC.new at hnew
  simp only [Prog.bind_eq] at hnew
  rw [wp_bind, wp_getNVars] at hnew
  obtain ⟨hM, _⟩ := hnew
  have hnd : (groundedV c.af.view).Nodup := (groundedV_spec _ _ (AF.view_ok c.af hwf)).2.1
  have hlt : ∀ a, a < c.af.n → cfg.enc.argVar a < w1.nVarsOf s + 1 := by
    intro a ha; have := henc.argVar_le ha; omega
  show wp True (idEnumLoop _ _ _ _) _ _
  refine wp_mono _ _ _ _ ?_ (wp_idEnumLoop c.af cfg.enc s (w1.nVarsOf s + 1) hgr hnd hlt cfg.fuel _ _ [] _
    ⟨rfl, rfl, rfl, rfl, rfl, Or.inl ⟨rfl, hM, rfl⟩⟩ ?_)
  · rintro ia w' ⟨hpost, hd⟩
    exact ⟨hpost, _, hd⟩
  · refine ⟨(fun F hF => by cases hF), ?_, rfl, fun h => absurd rfl h⟩
    intro a
    show (List.replicate c.af.n true).getD a false = true ↔ _
    rw [getD_replicate_true]
    exact ⟨fun h => ⟨h, fun F hF => by cases hF⟩, fun h => h.1⟩

theorem wp_idFinish (cfg : Cfg) (hk : ∀ af T, cfg.enc.Base af T ↔ Complete af T) (c : Comp)
    (hwf : c.af.WF) (hgr : GrOK c.af) (s dead : Nat) (ia : InAll) (w : World) (hb : w.Bounded)
    (hs : s < w.solvers.length) (hpost : EnumPost c.af ia) (hd : Dropped cfg.enc c.af s dead w) :
    wp True (idFinish cfg c s (groundedV c.af.view) ia) w (fun e _ =>
      Ideal c.af (ofList e) ∧ ∀ a ∈ e, a < c.af.n) := by
  unfold idFinish
  by_cases h1 : (ia.nInAll == (groundedV c.af.view).length) = true
  · rw [if_pos h1]
    have h1' : ia.nInAll = (groundedV c.af.view).length := by simpa using h1
    rcases hpost.cases with ⟨_, hsub⟩ | ⟨hne, _⟩
    · refine ⟨ideal_of_grounded_inter hgr.1 hgr.2.2 ?_, hgr.2.1⟩
      intro a ha
      exact (ofList_mem _ a).2 (hsub a (hpost.sup a ha))
    · exact absurd h1' hne
  · rw [if_neg h1]
    rcases hpost.cases with ⟨heq, _⟩ | ⟨_, hsubI, huniq⟩
    · exact absurd (by simpa using heq) h1
    · by_cases h2 : (ia.nPreferred == 1) = true
      · rw [if_pos h2]
        obtain ⟨P, hP, hu⟩ := huniq (by simpa using h2)
        have hE : ofList ((List.range c.af.n).filter (fun i => ia.inAll.getD i false)) = P := by
          funext a
          rw [Bool.eq_iff_iff, ofList_mem, List.mem_filter, List.mem_range]
          constructor
          · rintro ⟨_, ha⟩; exact hsubI a ha P hP
          · intro ha
            exact ⟨hP.1.1.1 a ha, hpost.sup a (fun Q hQ => by rw [hu Q hQ a]; exact ha)⟩
        show Ideal c.af (ofList ((List.range c.af.n).filter (fun i => ia.inAll.getD i false))) ∧ _
        rw [hE]
        refine ⟨ideal_of_unique_preferred hP hu, ?_⟩
        intro a ha
        exact List.mem_range.1 (List.mem_filter.1 ha).1
      · rw [if_neg h2]
        simp only [Prog.bind_eq]
        rw [wp_bind]
        refine wp_mono _ _ _ _ ?_ (wp_MEC_newD hd hwf (hk _) hb hs (.ideal (forbL cfg.enc c.af.n ia.inAll)))
        rintro m w2 ⟨hM, haf, henc, hkind, hst⟩
        have hgin : ∀ a ∈ groundedV c.af.view, ia.inAll.getD a false = true := by
          intro a ha
          apply hpost.sup
          intro P hP
          exact hgr.2.2 P (preferred_complete hP) a ((ofList_mem _ a).2 ha)
        refine wp_mono _ _ _ _ ?_ (wp_computeMaximalD_init dead ia.inAll cfg.fuel m w2 hM
          (by rw [hkind, haf, henc]) hst (by rw [haf]; exact hgr) (by rw [haf]; exact hgin))
        rintro e _ ⟨hco, hin, hlt, hmax⟩
        rw [haf] at hco hlt hmax
        refine ⟨ideal_of_max_complete hco ?_ ?_, hlt⟩
        · intro P hP a ha
          exact hsubI a (hin a ((ofList_mem _ a).1 ha)) P hP
        · intro T hT hTP hsub
          exact hmax T hT (fun a ha => hpost.sup a (fun P hP => hTP P hP a ha)) hsub

/-! ## the two entry points on one component -/

/-- **SE-ID on one component**: the ideal extension of the component's framework -/
theorem wp_idOneForCc (cfg : Cfg) (hk : ∀ af T, cfg.enc.Base af T ↔ Complete af T) (c : Comp)
    (hwf : c.af.WF) (hgr : GrOK c.af) (w : World) (hb : w.Bounded) :
    wp True (idOneForCc cfg c) w (fun e w' => w'.Bounded ∧ Ideal c.af (ofList e) ∧ ∀ a ∈ e, a < c.af.n) := by
  apply wp_bounded _ _ _ hb
  unfold idOneForCc
  simp only [Prog.bind_eq]
  rw [wp_bind, wp_mkSolver, wp_bind]
  have hlen : w.solvers.length < w.onNew.solvers.length := by simp [World.onNew]
  refine wp_mono _ _ _ _ ?_ (wp_idInAll cfg hk c hwf hgr w.onNew w.solvers.length (Bounded_onNew hb) hlen
    (db_onNew_self w))
  rintro ia w1 ⟨hb1, hs1, hpost, dead, hd⟩
  exact wp_idFinish cfg hk c hwf hgr _ dead ia w1 hb1 hs1 hpost hd

/-- **DC-ID on one component** (the queried arguments are given by their positions) -/
theorem wp_idCredForCc (cfg : Cfg) (hk : ∀ af T, cfg.enc.Base af T ↔ Complete af T) (c : Comp)
    (pos : List Nat) (_hpos : ∀ p ∈ pos, p < c.af.n) (hwf : c.af.WF) (hgr : GrOK c.af) (w : World)
    (hb : w.Bounded) :
    wp True (idCredForCc cfg c pos) w (fun res w' => w'.Bounded ∧
      (res.1 = true → ∃ e, res.2 = some e ∧ Ideal c.af (ofList e) ∧ Hits pos (ofList e) ∧ ∀ a ∈ e, a < c.af.n) ∧
      (res.1 = false → res.2 = none ∧ ∀ T, Ideal c.af T → ¬ Hits pos T)) := by
  apply wp_bounded _ _ _ hb
  unfold idCredForCc
  simp only [Prog.bind_eq]
  rw [wp_bind, wp_mkSolver, wp_bind]
  have hlen : w.solvers.length < w.onNew.solvers.length := by simp [World.onNew]
  refine wp_mono _ _ _ _ ?_ (wp_idInAll cfg hk c hwf hgr w.onNew w.solvers.length (Bounded_onNew hb) hlen
    (db_onNew_self w))
  rintro ia w1 ⟨hb1, hs1, hpost, dead, hd⟩
  by_cases hall : pos.all (fun a => !ia.inAll.getD a false) = true
  · rw [if_pos hall]
    refine ⟨(fun h => by cases h), fun _ => ⟨rfl, ?_⟩⟩
    rintro T hT ⟨p, hp, hTp⟩
    have h1 := hpost.sup p (fun P hP => ideal_sub_preferred hT hP p hTp)
    have h2 : (!ia.inAll.getD p false) = true := List.all_eq_true.1 hall p hp
    rw [h1] at h2
    cases h2
  · rw [if_neg hall]
    rw [wp_bind]
    refine wp_mono _ _ _ _ ?_ (wp_idFinish cfg hk c hwf hgr _ dead ia w1 hb1 hs1 hpost hd)
    rintro e w2 ⟨hI, hlt⟩
    by_cases hhit : pos.any e.contains = true
    · rw [if_pos hhit]
      exact ⟨fun _ => ⟨e, rfl, hI, (hits_any _ _).1 hhit, hlt⟩, fun h => by cases h⟩
    · rw [if_neg hhit]
      refine ⟨(fun h => by cases h), fun _ => ⟨rfl, ?_⟩⟩
      rintro T hT ⟨p, hp, hTp⟩
      apply hhit
      apply (hits_any _ _).2
      exact ⟨p, hp, by rw [← ideal_unique hT hI p]; exact hTp⟩

end Crusta
