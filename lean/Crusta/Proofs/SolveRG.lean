import Crusta.Proofs.SolveRGAux

/-!
# Semi-stable / stage semantics on one component: `compute_maximal` and the acceptance loop of the
range-based `MaximalExtensionComputer`

The current range `R = m.inR` is the set of range variables that are true in the last model (or the
real range of the grounded extension before the first model).  For the exp / hybrid encodings this is
only known to lie between the set and its range; the UNSAT answer of the increase step, applied to
the canonical model of the current set itself, shows that at a `maximal` state `R` *is* the range of
the current set, for every encoding.
-/

namespace Crusta
open Prog (mkSolver doReserve addClause addClauses getNVars doSolve)

/-! ## SAT calls on the solver of the computer -/

theorem wp_rdoSolve {C : Prop} {m : MEC} {w : World} {blocked : List (Nat → Bool)} (h : RInv m w blocked)
    (as : List Lit) (Q : Option Model → World → Prop)
    (hsat : ∀ mdl w', RInv m w' blocked → w'.db m.sid = w.db m.sid →
      cnfTrue (asgOfModel mdl) (w'.db m.sid) = true → assumpsTrue (asgOfModel mdl) as = true →
      (∀ a, a < m.af.n → inRModel m.enc m.af.n mdl a = asgOfModel mdl (m.enc.rv m.af.n a)) → Q (some mdl) w')
    (hunsat : ∀ w', RInv m w' blocked → w'.db m.sid = w.db m.sid →
      (∀ ν : Asg, ¬ (cnfTrue ν (w'.db m.sid) = true ∧ assumpsTrue ν as = true)) → Q none w') :
    wp C (doSolve m.sid as) w Q := by
  have hdb : ∀ r, ((w.onSolve m.sid as).onReply m.sid r).db m.sid = w.db m.sid := by intro r; simp
  constructor
  · rintro mdl ⟨htot, hΓ, hA⟩
    refine hsat mdl _ (h.onSolve _ _) (hdb _) (by rw [hdb]; exact hΓ) hA ?_
    intro a ha
    apply inRModel_eq htot
    obtain ⟨c, hc, l, hl, hv⟩ := m.enc.rv_occurs h.renc m.af ha
    exact ⟨c, h.db_enc c hc, l, hl, hv⟩
  · intro hun
    exact hunsat _ (h.onSolve _ _) (hdb _) (by rw [hdb]; exact hun)

theorem wp_rsolve {C : Prop} {m : MEC} {w : World} {blocked : List (Nat → Bool)} (h : RInv m w blocked)
    (as : List Lit) (Q : Option (Model × List Nat) → World → Prop)
    (hsat : ∀ mdl w', RInv m w' blocked → w'.db m.sid = w.db m.sid →
      cnfTrue (asgOfModel mdl) (w'.db m.sid) = true → assumpsTrue (asgOfModel mdl) as = true →
      (∀ a, a < m.af.n → inRModel m.enc m.af.n mdl a = asgOfModel mdl (m.enc.rv m.af.n a)) →
      Q (some (mdl, m.enc.decode m.af.n mdl)) w')
    (hunsat : ∀ w', RInv m w' blocked → w'.db m.sid = w.db m.sid →
      (∀ ν : Asg, ¬ (cnfTrue ν (w'.db m.sid) = true ∧ assumpsTrue ν as = true)) → Q none w') :
    wp C (m.solve as) w Q := by
  unfold MEC.solve
  simp only [Prog.bind_eq, h.no_add, List.append_nil]
  rw [wp_bind]
  apply wp_rdoSolve h as
  · intro mdl w' h1 h2 h3 h4 h5; exact hsat mdl w' h1 h2 h3 h4 h5
  · intro w' h1 h2 h3; exact hunsat w' h1 h2 h3

theorem assumps_rin (enc : EncKind) (n : Nat) (R : Nat → Bool) (sel : Nat) (ν : Asg) :
    assumpsTrue ν (rinL enc n R ++ [nl sel]) = true ↔
      ((∀ a, a < n → R a = true → ν (enc.rv n a) = true) ∧ ν sel = false) := by
  simp only [assumpsTrue, List.all_append, Bool.and_eq_true, List.all_eq_true]
  rw [rinL_true]
  simp

theorem assumps_req (enc : EncKind) (n : Nat) (R : Nat → Bool) (sel : Nat) (extra : List Lit) (ν : Asg) :
    assumpsTrue ν (rinL enc n R ++ (routL enc n R).map Lit.neg ++ [pl sel] ++ extra) = true ↔
      ((∀ a, a < n → ν (enc.rv n a) = R a) ∧ ν sel = true ∧ assumpsTrue ν extra = true) := by
  simp only [assumpsTrue, List.all_append, Bool.and_eq_true, List.all_eq_true]
  rw [rinL_true, routL_neg_true]
  constructor
  · rintro ⟨⟨⟨h1, h2⟩, h3⟩, h4⟩
    refine ⟨?_, by simpa using h3, h4⟩
    intro a ha
    cases hR : R a with
    | true => exact h1 a ha hR
    | false => exact h2 a ha hR
  · rintro ⟨h1, h2, h3⟩
    refine ⟨⟨⟨fun a ha hR => by rw [h1 a ha, hR], fun a ha hR => by rw [h1 a ha, hR]⟩, by simpa using h2⟩, h3⟩

/-! ## range-maximal sets -/

theorem RangeMax.of_rangeSub {af : AF} {Bs : ASet → Prop} {S T : ASet} (hS : RangeMax af Bs S) (hT : Bs T)
    (h : RangeSub af S T) : RangeMax af Bs T :=
  ⟨hT, fun U hU hTU a ha => h a (hS.2 U hU (fun a ha => hTU a (h a ha)) a ha)⟩

/-- `B` lies inside the range of a member `D` all of whose range-equivalents satisfy `P` -/
def Covered (af : AF) (Bs : ASet → Prop) (P : ASet → Prop) (B : Nat → Bool) : Prop :=
  ∃ D, Bs D ∧ (∀ a, a < af.n → B a = true → InRange af D a) ∧
    ∀ T, Bs T → RangeSub af T D → RangeSub af D T → P T

/-- the invariant of a search: the current set is a member of the family, the current range `R`
lies inside its range; every blocked set is below `R` or not above it; every blocked set is covered
or below `R` -/
structure RSk (m : MEC) (w : World) (blocked : List (Nat → Bool)) (P : ASet → Prop) : Prop where
  rinv : RInv m w blocked
  cur_lt : ∀ a ∈ m.cur, a < m.af.n
  cur_base : m.enc.Base m.af (ofList m.cur)
  r_sound : ∀ a, a < m.af.n → m.inR a = true → InRange m.af (ofList m.cur) a
  sep : ∀ B ∈ blocked, (∀ a, a < m.af.n → B a = true → m.inR a = true) ∨
    ¬ (∀ a, a < m.af.n → m.inR a = true → B a = true)
  top : ∀ B ∈ blocked, Covered m.af (m.enc.Base m.af) P B ∨ (∀ a, a < m.af.n → B a = true → m.inR a = true)

/-- the state after a model has been found under `¬selector` -/
theorem RSk.of_model {m : MEC} {w : World} {blocked : List (Nat → Bool)} {P : ASet → Prop} (h : RInv m w blocked)
    (mdl : Model) (hΓ : cnfTrue (asgOfModel mdl) (w.db m.sid) = true) (hsel : asgOfModel mdl m.sel = false)
    (hin : ∀ a, a < m.af.n → inRModel m.enc m.af.n mdl a = asgOfModel mdl (m.enc.rv m.af.n a))
    (htop : ∀ B ∈ blocked, Covered m.af (m.enc.Base m.af) P B ∨
      (∀ a, a < m.af.n → B a = true → asgOfModel mdl (m.enc.rv m.af.n a) = true)) :
    RSk { m with cur := m.enc.decode m.af.n mdl, model := some mdl, state := .intermediate } w blocked P := by
  obtain ⟨h1, h2, h3⟩ := h.sat hΓ
  have hS := m.enc.ofList_decode m.af mdl
  have hR : ∀ a, a < m.af.n →
      MEC.inR { m with cur := m.enc.decode m.af.n mdl, model := some mdl, state := .intermediate } a =
        asgOfModel mdl (m.enc.rv m.af.n a) := fun a ha => hin a ha
  refine ⟨h.congr_m rfl rfl rfl rfl rfl rfl, ?_, ?_, ?_, ?_, ?_⟩
  · intro a ha
    exact m.enc.S_sub m.af (asgOfModel mdl) a ((m.enc.decode_spec m.af mdl a).1 ha)
  · show m.enc.Base m.af (ofList (m.enc.decode m.af.n mdl))
    rw [hS]; exact h1
  · intro a ha hRa
    show InRange m.af (ofList (m.enc.decode m.af.n mdl)) a
    rw [hS]
    rw [hR a ha] at hRa
    exact h2 a ha hRa
  · intro B hB
    right
    intro hsub
    obtain ⟨a, ha, hBa, hνa⟩ := h3 hsel B hB
    have := hsub a ha (by rw [hR a ha]; exact hνa)
    rw [hBa] at this; cases this
  · intro B hB
    rcases htop B hB with hc | hsub
    · exact Or.inl hc
    · right
      intro a ha hBa
      rw [hR a ha]; exact hsub a ha hBa

/-- the first step of a fresh computer: the grounded extension and its real range -/
theorem RSk.init {m : MEC} {w : World} {P : ASet → Prop} (h : RInv m w []) (hgr : GrOK m.af) (hmodel : m.model = none) :
    RSk { m with cur := groundedV m.af.view, state := .intermediate } w [] P := by
  have hR : MEC.inR { m with cur := groundedV m.af.view, state := .intermediate } =
      inRCur m.af (groundedV m.af.view) := by
    unfold MEC.inR
    simp only [hmodel]
  refine ⟨h.congr_m rfl rfl rfl rfl rfl rfl, hgr.2.1, m.enc.Base_of_complete h.renc hgr.1, ?_, ?_, ?_⟩
  · intro a _ hRa
    rw [hR] at hRa
    exact (inRCur_spec _ _ _).1 hRa
  · intro B hB; cases hB
  · intro B hB; cases hB

/-- one increase step -/
theorem wp_rincrease {C : Prop} {m : MEC} {w : World} {blocked : List (Nat → Bool)} {P : ASet → Prop}
    (h : RSk m w blocked P) (hst : m.state = .intermediate) :
    wp C m.computeNext w (fun m' w' =>
      m'.af = m.af ∧ m'.enc = m.enc ∧
      ((m'.state = .intermediate ∧ RSk m' w' (m.inR :: blocked) P) ∨
       (m'.state = .maximal ∧ m'.cur = m.cur ∧ m'.inR = m.inR ∧ RSk m' w' (m.inR :: blocked) P ∧
          RangeMax m.af (m.enc.Base m.af) (ofList m.cur) ∧
          ∀ a, a < m.af.n → InRange m.af (ofList m.cur) a → m.inR a = true))) := by
  unfold MEC.computeNext
  rw [hst]
  simp only [Prog.bind_eq, blockAndAssume_rg h.rinv.kind]
  rw [wp_bind, wp_addClause1, wp_bind]
  have hM := h.rinv.block m.inR
  apply wp_rsolve hM
  · intro mdl w' hM' _ hΓ hA hin
    obtain ⟨hA1, hA2⟩ := (assumps_rin _ _ _ _ _).1 hA
    refine ⟨rfl, rfl, Or.inl ⟨rfl, RSk.of_model hM' mdl hΓ hA2 hin ?_⟩⟩
    intro B hB
    rcases List.mem_cons.1 hB with rfl | hB
    · exact Or.inr hA1
    · rcases h.top B hB with hc | hsub
      · exact Or.inl hc
      · exact Or.inr (fun a ha hBa => hA1 a ha (hsub a ha hBa))
  · intro w' hM' _ hun
    have hmax : ∀ T, m.enc.Base m.af T → (∀ a, a < m.af.n → m.inR a = true → InRange m.af T a) →
        ∀ a, a < m.af.n → InRange m.af T a → m.inR a = true := by
      intro T hT hsub a0 ha0 hTa0
      cases hin0 : m.inR a0 with
      | true => rfl
      | false =>
        exfalso
        have hblk : ∀ B ∈ m.inR :: blocked, ∃ a, a < m.af.n ∧ B a = false ∧ InRange m.af T a := by
          intro B hB
          rcases List.mem_cons.1 hB with rfl | hB
          · exact ⟨a0, ha0, hin0, hTa0⟩
          · rcases h.sep B hB with h1 | h1
            · refine ⟨a0, ha0, ?_, hTa0⟩
              cases hB0 : B a0 with
              | false => rfl
              | true => rw [h1 a0 ha0 hB0] at hin0; cases hin0
            · have : ∃ a, a < m.af.n ∧ m.inR a = true ∧ B a = false := by
                apply Classical.byContradiction
                intro hn
                apply h1
                intro a ha hRa
                cases hBa : B a with
                | true => rfl
                | false => exact absurd ⟨a, ha, hRa, hBa⟩ hn
              obtain ⟨a, ha, hRa, hBa⟩ := this
              exact ⟨a, ha, hBa, hsub a ha hRa⟩
        obtain ⟨ν, hν, _, hR, hsel, _⟩ := hM'.model hT false (fun _ => hblk)
        exact hun ν ⟨hν, (assumps_rin _ _ _ _ _).2 ⟨fun a ha hRa => (hR a ha).2 (hsub a ha hRa), hsel⟩⟩
    have hex : ∀ a, a < m.af.n → InRange m.af (ofList m.cur) a → m.inR a = true :=
      hmax _ h.cur_base h.r_sound
    have hrm : RangeMax m.af (m.enc.Base m.af) (ofList m.cur) := by
      refine ⟨h.cur_base, ?_⟩
      intro T hT hsub a hTa
      have ha : a < m.af.n := inRange_lt h.rinv.wf (m.enc.Base_sub hT) hTa
      exact h.r_sound a ha (hmax T hT (fun a ha hRa => hsub a (h.r_sound a ha hRa)) a ha hTa)
    refine ⟨rfl, rfl, Or.inr ⟨rfl, rfl, rfl,
      ⟨hM'.congr_m rfl rfl rfl rfl rfl rfl, h.cur_lt, h.cur_base, h.r_sound, ?_, ?_⟩, hrm, hex⟩⟩
    · intro B hB
      rcases List.mem_cons.1 hB with rfl | hB
      · exact Or.inl (fun a _ ha => ha)
      · exact h.sep B hB
    · intro B hB
      rcases List.mem_cons.1 hB with rfl | hB
      · exact Or.inr (fun a _ ha => ha)
      · exact h.top B hB

/-- a fresh search (`¬selector` alone) when every blocked set is covered -/
theorem wp_rnewSearch {C : Prop} {m : MEC} {w : World} {blocked : List (Nat → Bool)} {P : ASet → Prop}
    (hM : RInv m w blocked) (htop : ∀ B ∈ blocked, Covered m.af (m.enc.Base m.af) P B) :
    wp C m.newSearch w (fun m' w' =>
      m'.af = m.af ∧ m'.enc = m.enc ∧
      ((m'.state = .intermediate ∧ RSk m' w' blocked P) ∨
       (m'.state = .none ∧ ∀ T, RangeMax m.af (m.enc.Base m.af) T → P T))) := by
  unfold MEC.newSearch
  simp only [Prog.bind_eq]
  rw [wp_bind]
  apply wp_rsolve hM
  · intro mdl w' hM' _ hΓ hA hin
    have hsel : asgOfModel mdl m.sel = false := by simpa [assumpsTrue] using hA
    exact ⟨rfl, rfl, Or.inl ⟨rfl, RSk.of_model hM' mdl hΓ hsel hin (fun B hB => Or.inl (htop B hB))⟩⟩
  · intro w' hM' _ hun
    refine ⟨rfl, rfl, Or.inr ⟨rfl, ?_⟩⟩
    intro T hT
    have hlt : ∀ a, InRange m.af T a → a < m.af.n := fun a ha => inRange_lt hM.wf (m.enc.Base_sub hT.1) ha
    have : ∃ B ∈ blocked, ∀ a, a < m.af.n → InRange m.af T a → B a = true := by
      apply Classical.byContradiction
      intro hno
      have hblk : ∀ B ∈ blocked, ∃ a, a < m.af.n ∧ B a = false ∧ InRange m.af T a := by
        intro B hB
        apply Classical.byContradiction
        intro hn
        apply hno
        refine ⟨B, hB, ?_⟩
        intro a ha hTa
        cases hBa : B a with
        | true => rfl
        | false => exact absurd ⟨a, ha, hBa, hTa⟩ hn
      obtain ⟨ν, hν, _, _, hsel, _⟩ := hM'.model hT.1 false (fun _ => hblk)
      exact hun ν ⟨hν, by simp [assumpsTrue, hsel]⟩
    obtain ⟨B, hB, hTB⟩ := this
    obtain ⟨D, _, hBD, hchk⟩ := htop B hB
    have hTD : RangeSub m.af T D := fun a ha => hBD a (hlt a ha) (hTB a (hlt a ha) ha)
    exact hchk T hT.1 hTD (hT.2 D ‹_› hTD)

/-! ## `compute_maximal` -/

theorem wp_rcomputeMaximal {P : ASet → Prop} : ∀ (fuel : Nat) (m : MEC) (w : World),
    ((m.state = .init ∧ RInv m w [] ∧ GrOK m.af ∧ m.model = none) ∨
     (m.state = .intermediate ∧ ∃ blocked, RSk m w blocked P) ∨
     (m.state = .maximal ∧ RangeMax m.af (m.enc.Base m.af) (ofList m.cur) ∧ ∀ a ∈ m.cur, a < m.af.n)) →
    wp True (MEC.computeMaximal fuel m) w (fun e _ =>
      RangeMax m.af (m.enc.Base m.af) (ofList e) ∧ ∀ a ∈ e, a < m.af.n)
  | 0, _, _, _ => trivial
  | fuel + 1, m, w, h => by
    unfold MEC.computeMaximal
    rcases h with ⟨hst, hM, hgr, hmodel⟩ | ⟨hst, blocked, hS⟩ | ⟨hst, hrm, hlt⟩
    · have hne : (m.state == MState.maximal) = false := by rw [hst]; rfl
      simp only [hne, Bool.false_eq_true, if_false, Prog.bind_eq]
      rw [wp_bind]
      unfold MEC.computeNext
      rw [hst]
      show wp True (MEC.computeMaximal fuel { m with cur := groundedV m.af.view, state := .intermediate }) w _
      exact wp_rcomputeMaximal (P := P) fuel _ w (Or.inr (Or.inl ⟨rfl, [], RSk.init hM hgr hmodel⟩))
    · have hne : (m.state == MState.maximal) = false := by rw [hst]; rfl
      simp only [hne, Bool.false_eq_true, if_false, Prog.bind_eq]
      rw [wp_bind]
      refine wp_mono _ _ _ _ ?_ (wp_rincrease hS hst)
      rintro m' w' ⟨haf, henc, hcase⟩
      rcases hcase with ⟨hst', hS'⟩ | ⟨hst', hcur, _, hS', hrm, _⟩
      · have := wp_rcomputeMaximal (P := P) fuel m' w' (Or.inr (Or.inl ⟨hst', _, hS'⟩))
        rw [haf, henc] at this
        exact this
      · have := wp_rcomputeMaximal (P := P) fuel m' w' (Or.inr (Or.inr ⟨hst', by rw [haf, henc, hcur]; exact hrm,
          by rw [haf, hcur]; exact hS.cur_lt⟩))
        rw [haf, henc] at this
        exact this
    · simp only [hst, beq_self_eq_true, if_true, Prog.bind_eq]
      rw [wp_bind]
      exact ⟨hrm, hlt⟩

theorem wp_MEC_new_rg {C : Prop} {enc : EncKind} {af : AF} {sid : Nat} {w : World} (henc : Encoded enc af sid true w)
    (hwf : af.WF) (hk : RangeEnc enc) :
    wp C (MEC.new af enc sid .range) w (fun m w' => RInv m w' [] ∧ m.af = af ∧ m.enc = enc ∧
      m.state = .init ∧ m.model = none) := by
  unfold MEC.new
  simp only [Prog.bind_eq]
  rw [wp_bind, wp_getNVars]
  have hdbc : ∀ c, c ∈ w.db sid ↔ c ∈ enc.clausesRange af := by
    intro c; rw [henc.db]; simp
  refine ⟨⟨hwf, hk, rfl, ?_, ?_, ?_, ?_, ?_, ?_, rfl, ?_, Bounded_onNVars henc.bounded _⟩, rfl, rfl, rfl, rfl⟩
  · intro c hc; rw [db_onNVars] at hc; exact Or.inl ((hdbc c).1 hc)
  · intro c hc; rw [db_onNVars]; exact (hdbc c).2 hc
  · intro E hE; cases hE
  · intro c hc l hl
    have := henc.db_lt c ((hdbc c).2 hc) l hl
    exact this
  · intro a ha
    have := (henc.rvars_le hk ha).1
    show enc.argVar a < w.nVarsOf sid + 1
    omega
  · intro a ha
    have := (henc.rvars_le hk ha).2
    show enc.rv af.n a < w.nVarsOf sid + 1
    omega
  · exact henc.exists_

/-- **SE-SST / SE-STG on one component**: a range-maximal member of the encoder's family -/
theorem wp_rgMaximalOfComp (cfg : Cfg) (hk : RangeEnc cfg.enc) (c : Comp) (hwf : c.af.WF) (hgr : GrOK c.af)
    (w : World) (hb : w.Bounded) :
    wp True (rgMaximalOfComp cfg c) w (fun res w' => w'.Bounded ∧
      ∃ e, res = c.back e ∧ RangeMax c.af (cfg.enc.Base c.af) (ofList e) ∧ ∀ a ∈ e, a < c.af.n) := by
  apply wp_bounded _ _ _ hb
  unfold rgMaximalOfComp
  simp only [Prog.bind_eq]
  rw [wp_bind, wp_mkSolver, wp_bind]
  have hlen : w.solvers.length < w.onNew.solvers.length := by simp [World.onNew]
  apply wp_encodeInto _ _ _ _ _ (Bounded_onNew hb) hlen (db_onNew_self w)
  intro w1 henc _
  rw [wp_bind]
  refine wp_mono _ _ _ _ ?_ (wp_MEC_new_rg henc hwf hk)
  rintro m w2 ⟨hM, haf, henc', hst, hmodel⟩
  rw [wp_bind]
  refine wp_mono _ _ _ _ ?_ (wp_rcomputeMaximal (P := fun _ => True) cfg.fuel m w2
    (Or.inl ⟨hst, hM, by rw [haf]; exact hgr, hmodel⟩))
  rintro e w3 ⟨h1, h2⟩
  rw [haf, henc'] at h1
  rw [haf] at h2
  exact ⟨e, rfl, h1, h2⟩

/-! ## the acceptance loop -/

/-- `T` is a witness of the query: it hits the queried arguments (credulous) / misses all of them
(skeptical) -/
def Wit (cred : Bool) (pos : List Nat) (T : ASet) : Prop := if cred then Hits pos T else ¬ Hits pos T

theorem wit_check (cred : Bool) (pos cur : List Nat) :
    ((cred && pos.any cur.contains) || (!cred && pos.all (fun a => !cur.contains a))) = true ↔
      Wit cred pos (ofList cur) := by
  cases cred with
  | true => simp [Wit, ← hits_any]
  | false =>
    simp only [Wit, ← hits_any]
    simp [List.all_eq_true, List.any_eq_true]

def RgOK (af : AF) (Bs : ASet → Prop) (pos : List Nat) (cred : Bool) (res : Bool × Option (List Nat)) : Prop :=
  (res.1 = cred → ∃ e, res.2 = some e ∧ RangeMax af Bs (ofList e) ∧ Wit cred pos (ofList e) ∧ ∀ a ∈ e, a < af.n) ∧
  (res.1 = (!cred) → res.2 = none ∧ ∀ T, RangeMax af Bs T → ¬ Wit cred pos T)

/-- the states in which the loop starts an iteration -/
def RLInv (m : MEC) (w : World) (P : ASet → Prop) : Prop :=
  (m.state = .init ∧ RInv m w [] ∧ GrOK m.af ∧ m.model = none) ∨
  (m.state = .intermediate ∧ ∃ blocked, RSk m w blocked P) ∨
  (m.state = .maximal ∧ ∃ blocked, RSk m w blocked P ∧
    ∀ T, m.enc.Base m.af T → RangeSub m.af T (ofList m.cur) → RangeSub m.af (ofList m.cur) T → P T)

def RAfter (af : AF) (enc : EncKind) (m' : MEC) (w' : World) (P : ASet → Prop) : Prop :=
  m'.af = af ∧ m'.enc = enc ∧
  ((m'.state = .intermediate ∧ ∃ blocked, RSk m' w' blocked P) ∨
   (m'.state = .maximal ∧ (∃ B blocked, RSk m' w' (B :: blocked) P) ∧
      RangeMax af (enc.Base af) (ofList m'.cur) ∧
      ∀ a, a < af.n → InRange af (ofList m'.cur) a → m'.inR a = true) ∨
   (m'.state = .none ∧ ∀ T, RangeMax af (enc.Base af) T → P T))

theorem wp_rnext {C : Prop} {m : MEC} {w : World} {P : ASet → Prop} (h : RLInv m w P) :
    wp C m.computeNext w (fun m' w' => RAfter m.af m.enc m' w' P) := by
  rcases h with ⟨hst, hM, hgr, hmodel⟩ | ⟨hst, blocked, hS⟩ | ⟨hst, blocked, hS, hchk⟩
  · unfold MEC.computeNext
    rw [hst]
    exact ⟨rfl, rfl, Or.inl ⟨rfl, [], RSk.init hM hgr hmodel⟩⟩
  · refine wp_mono _ _ _ _ ?_ (wp_rincrease hS hst)
    rintro m' w' ⟨haf, henc, hcase⟩
    rcases hcase with ⟨hst', hS'⟩ | ⟨hst', hcur, hinR, hS', hrm, hex⟩
    · exact ⟨haf, henc, Or.inl ⟨hst', _, hS'⟩⟩
    · refine ⟨haf, henc, Or.inr (Or.inl ⟨hst', ⟨_, _, hS'⟩, by rw [hcur]; exact hrm, ?_⟩)⟩
      rw [hcur, hinR]; exact hex
  · unfold MEC.computeNext
    rw [hst]
    simp only [Prog.bind_eq, blockAndAssume_rg hS.rinv.kind]
    rw [wp_bind, wp_addClause1]
    have hcov : Covered m.af (m.enc.Base m.af) P m.inR := ⟨_, hS.cur_base, hS.r_sound, hchk⟩
    have htop : ∀ B ∈ m.inR :: blocked, Covered m.af (m.enc.Base m.af) P B := by
      intro B hB
      rcases List.mem_cons.1 hB with rfl | hB
      · exact hcov
      · rcases hS.top B hB with hc | hsub
        · exact hc
        · exact ⟨_, hS.cur_base, fun a ha hBa => hS.r_sound a ha (hsub a ha hBa), hchk⟩
    refine wp_mono _ _ _ _ ?_ (wp_rnewSearch (hS.rinv.block m.inR) htop)
    rintro m' w' ⟨haf, henc, hcase⟩
    rcases hcase with ⟨hst', hS'⟩ | ⟨hst', hall⟩
    · exact ⟨haf, henc, Or.inl ⟨hst', _, hS'⟩⟩
    · exact ⟨haf, henc, Or.inr (Or.inr ⟨hst', hall⟩)⟩

theorem RSk.congr_rinv {m : MEC} {w w' : World} {blocked : List (Nat → Bool)} {P : ASet → Prop}
    (h : RSk m w blocked P) (h' : RInv m w' blocked) : RSk m w' blocked P :=
  { h with rinv := h' }

theorem wit_true {pos : List Nat} {T : ASet} : Wit true pos T ↔ Hits pos T := by simp [Wit]
theorem wit_false {pos : List Nat} {T : ASet} : Wit false pos T ↔ ¬ Hits pos T := by simp [Wit]

/-- **the acceptance loop**: for every fuel, from any loop state -/
theorem wp_rgAccLoop (cred : Bool) (pos : List Nat) : ∀ (fuel : Nat) (m : MEC) (w : World),
    (∀ p ∈ pos, p < m.af.n) → RLInv m w (fun T => ¬ Wit cred pos T) →
    wp True (rgAccLoop cred pos fuel m) w (fun res _ => RgOK m.af (m.enc.Base m.af) pos cred res)
  | 0, _, _, _, _ => trivial
  | fuel + 1, m, w, hpos, h => by
    unfold rgAccLoop
    simp only [Prog.bind_eq]
    rw [wp_bind]
    refine wp_mono _ _ _ _ ?_ (wp_rnext h)
    rintro m' w' ⟨haf, henc, hcase⟩
    rw [← haf, ← henc] at hcase ⊢
    have hpos' : ∀ p ∈ pos, p < m'.af.n := by rw [haf]; exact hpos
    rcases hcase with ⟨hst, blocked, hS⟩ | ⟨hst, ⟨B, blocked, hS⟩, hrm, hex⟩ | ⟨hst, hall⟩
    · -- intermediate
      rw [hst]
      simp only
      exact wp_rgAccLoop cred pos fuel m' w' hpos' (Or.inr (Or.inl ⟨hst, blocked, hS⟩))
    · -- maximal
      rw [hst]
      simp only
      by_cases hw : ((cred && pos.any m'.cur.contains) || (!cred && pos.all (fun a => !m'.cur.contains a))) = true
      · rw [if_pos hw]
        rw [wp_bind, wp_drop]
        refine ⟨fun _ => ⟨_, rfl, hrm, (wit_check _ _ _).1 hw, hS.cur_lt⟩, fun hf => ?_⟩
        exfalso; revert hf; cases cred <;> simp
      · rw [if_neg hw]
        have hwf := hS.rinv.wf
        cases cred with
        | true =>
          simp only [splitInRange_eq, ↓reduceIte]
          rw [wp_bind, wp_getNVars, wp_bind, wp_addClause1, wp_bind]
          have hsel_le : m'.sel ≤ w'.nVarsOf m'.sid := hS.rinv.sel_le
          generalize hsel' : w'.nVarsOf m'.sid + 1 = sel'
          have hlt' : m'.sel < sel' := by omega
          have hM0 : RInv m' (w'.onNVars m'.sid) (B :: blocked) := hS.rinv.onNVars
          have hM1 := hM0.junk (pos.map (argLit m'.enc) ++ [nl sel']) ⟨sel', hlt', by simp⟩
          apply wp_rdoSolve hM1
          · intro mdl w2 hM2 hdb hΓ hA hin
            rw [wp_bind, wp_addClause1]
            show wp True ((m'.drop).bind _) _ _
            rw [wp_bind, wp_drop]
            obtain ⟨hA1, hA2, hA3⟩ := (assumps_req _ _ _ _ _ _).1 hA
            have hsel'_true : asgOfModel mdl sel' = true := by simpa [assumpsTrue] using hA3
            obtain ⟨h1, h2, _⟩ := hM2.sat hΓ
            have hcl : clauseTrue (asgOfModel mdl) (pos.map (argLit m'.enc) ++ [nl sel']) = true := by
              rw [cnfTrue_iff] at hΓ
              apply hΓ
              rw [hdb, db_onClause_same]
              exact List.mem_cons_self
            have hhit : Hits pos (m'.enc.S m'.af (asgOfModel mdl)) := by
              rw [clauseTrue_iff] at hcl
              obtain ⟨l, hl, hlt⟩ := hcl
              rcases List.mem_append.1 hl with hl | hl
              · obtain ⟨p, hp, rfl⟩ := List.mem_map.1 hl
                refine ⟨p, hp, ?_⟩
                rw [m'.enc.S_lt (hpos' p hp)]; simpa [argLit] using hlt
              · simp only [List.mem_singleton] at hl; subst hl
                simp [hsel'_true] at hlt
            have hsub : RangeSub m'.af (ofList m'.cur) (m'.enc.S m'.af (asgOfModel mdl)) := by
              intro a ha
              have han : a < m'.af.n := inRange_lt hwf (m'.enc.Base_sub hS.cur_base) ha
              apply h2 a han
              rw [hA1 a han]
              exact hex a han ha
            have hrm' := hrm.of_rangeSub h1 hsub
            refine ⟨fun _ => ⟨_, rfl, ?_, ?_, ?_⟩, fun hf => by simp at hf⟩
            · rw [m'.enc.ofList_decode]; exact hrm'
            · rw [m'.enc.ofList_decode]; exact wit_true.2 hhit
            · intro a ha; exact m'.enc.S_sub m'.af _ a ((m'.enc.decode_spec m'.af mdl a).1 ha)
          · intro w2 hM2 hdb hun
            rw [wp_bind, wp_addClause1]
            have hM3 := hM2.junk [nl sel'] ⟨sel', hlt', by simp⟩
            have hchk : ∀ T, m'.enc.Base m'.af T → RangeSub m'.af T (ofList m'.cur) →
                RangeSub m'.af (ofList m'.cur) T → ¬ Wit true pos T := by
              intro T hT hTc hcT hwit
              have hhit : Hits pos T := wit_true.1 hwit
              obtain ⟨ν, hν, hSν, hR, hselν, _⟩ := hM0.model hT true (fun hf => by cases hf)
              apply hun (ν.set sel' true)
              have hfresh : ∀ c ∈ (w'.onNVars m'.sid).db m'.sid, ∀ l ∈ c, l.var ≠ sel' := by
                intro c hc l hl
                have := hM0.db_le c hc l hl
                simp only [nVarsOf_onNVars] at this
                omega
              constructor
              · rw [hdb, db_onClause_same, cnfTrue_cons, Bool.and_eq_true]
                constructor
                · rw [clauseTrue_iff]
                  obtain ⟨p, hp, hTp⟩ := hhit
                  refine ⟨argLit m'.enc p, List.mem_append_left _ (List.mem_map_of_mem hp), ?_⟩
                  have hpn := hpos' p hp
                  have hne : m'.enc.argVar p ≠ sel' := by have := hM0.fresh_arg p hpn; omega
                  simp only [argLit, litTrue_pl']
                  rw [Asg.set_ne _ _ hne, ← m'.enc.S_lt (ν := ν) hpn, hSν]; exact hTp
                · rw [cnfTrue_set_fresh _ _ _ hfresh]; exact hν
              · apply (assumps_req _ _ _ _ _ _).2
                refine ⟨?_, ?_, ?_⟩
                · intro a ha
                  have hne : m'.enc.rv m'.af.n a ≠ sel' := by have := hM0.fresh_rv a ha; omega
                  rw [Asg.set_ne _ _ hne, Bool.eq_iff_iff, hR a ha]
                  constructor
                  · intro hTa; exact hex a ha (hTc a hTa)
                  · intro hRa; exact hcT a (hS.r_sound a ha hRa)
                · rw [Asg.set_ne _ _ (by omega)]; exact hselν
                · simp [assumpsTrue]
            exact wp_rgAccLoop true pos fuel m' _ hpos' (Or.inr (Or.inr ⟨hst, _, hS.congr_rinv hM3, hchk⟩))
        | false =>
          simp only [splitInRange_eq, Bool.false_eq_true, ↓reduceIte]
          rw [wp_bind]
          apply wp_rdoSolve hS.rinv
          · intro mdl w2 hM2 hdb hΓ hA hin
            show wp True ((m'.drop).bind _) _ _
            rw [wp_bind, wp_drop]
            obtain ⟨hA1, hA2, hA3⟩ := (assumps_req _ _ _ _ _ _).1 hA
            obtain ⟨h1, h2, _⟩ := hM2.sat hΓ
            have hmiss : ¬ Hits pos (m'.enc.S m'.af (asgOfModel mdl)) := by
              rintro ⟨p, hp, hSp⟩
              simp only [assumpsTrue, List.all_eq_true] at hA3
              have := hA3 _ (List.mem_map_of_mem hp)
              rw [m'.enc.S_lt (hpos' p hp)] at hSp
              simp [argLit, hSp] at this
            have hsub : RangeSub m'.af (ofList m'.cur) (m'.enc.S m'.af (asgOfModel mdl)) := by
              intro a ha
              have han : a < m'.af.n := inRange_lt hwf (m'.enc.Base_sub hS.cur_base) ha
              apply h2 a han
              rw [hA1 a han]
              exact hex a han ha
            have hrm' := hrm.of_rangeSub h1 hsub
            refine ⟨fun _ => ⟨_, rfl, ?_, ?_, ?_⟩, fun hf => by simp at hf⟩
            · rw [m'.enc.ofList_decode]; exact hrm'
            · rw [m'.enc.ofList_decode]; exact wit_false.2 hmiss
            · intro a ha; exact m'.enc.S_sub m'.af _ a ((m'.enc.decode_spec m'.af mdl a).1 ha)
          · intro w2 hM2 hdb hun
            have hchk : ∀ T, m'.enc.Base m'.af T → RangeSub m'.af T (ofList m'.cur) →
                RangeSub m'.af (ofList m'.cur) T → ¬ Wit false pos T := by
              intro T hT hTc hcT hwit
              have hmiss : ¬ Hits pos T := wit_false.1 hwit
              obtain ⟨ν, hν, hSν, hR, hselν, _⟩ := hS.rinv.model hT true (fun hf => by cases hf)
              apply hun ν
              refine ⟨by rw [hdb]; exact hν, (assumps_req _ _ _ _ _ _).2 ⟨?_, hselν, ?_⟩⟩
              · intro a ha
                rw [Bool.eq_iff_iff, hR a ha]
                constructor
                · intro hTa; exact hex a ha (hTc a hTa)
                · intro hRa; exact hcT a (hS.r_sound a ha hRa)
              · simp only [assumpsTrue, List.all_eq_true]
                intro l hl
                obtain ⟨p, hp, rfl⟩ := List.mem_map.1 hl
                have hTp : T p = false := by
                  cases hh : T p with
                  | false => rfl
                  | true => exact absurd ⟨p, hp, hh⟩ hmiss
                rw [← hSν, m'.enc.S_lt (hpos' p hp)] at hTp
                simp [argLit, hTp]
            exact wp_rgAccLoop false pos fuel m' _ hpos' (Or.inr (Or.inr ⟨hst, _, hS.congr_rinv hM2, hchk⟩))
    · -- none
      rw [hst]
      simp only
      rw [wp_bind, wp_drop]
      exact ⟨fun hf => by revert hf; cases cred <;> simp, fun _ => ⟨rfl, hall⟩⟩

/-- **DC / DS for the semi-stable and stage semantics inside the merged component** -/
theorem wp_rgAccInCc (cfg : Cfg) (hk : RangeEnc cfg.enc) (c : Comp) (args : List Nat) (cred : Bool)
    (hwf : c.af.WF) (hn : c.af.n = c.ids.length) (hgr : GrOK c.af) (w : World) (hb : w.Bounded) :
    wp True (rgAccInCc cfg c args cred) w (fun res w' => w'.Bounded ∧ ∀ pos, posAll c args = some pos →
      let B := cfg.enc.Base c.af
      if cred then
        (res.1 = true → ∃ e, res.2 = some e ∧ RangeMax c.af B (ofList e) ∧ Hits pos (ofList e) ∧ ∀ a ∈ e, a < c.af.n) ∧
        (res.1 = false → res.2 = none ∧ ∀ T, RangeMax c.af B T → ¬ Hits pos T)
      else
        (res.1 = false → ∃ e, res.2 = some e ∧ RangeMax c.af B (ofList e) ∧ ¬ Hits pos (ofList e) ∧ ∀ a ∈ e, a < c.af.n) ∧
        (res.1 = true → res.2 = none ∧ ∀ T, RangeMax c.af B T → Hits pos T)) := by
  apply wp_bounded _ _ _ hb
  unfold rgAccInCc
  simp only [Prog.bind_eq]
  rw [wp_bind]
  apply wp_ccArgs trivial
  intro pos hpos
  rw [wp_bind, wp_mkSolver, wp_bind]
  have hlen : w.solvers.length < w.onNew.solvers.length := by simp [World.onNew]
  apply wp_encodeInto _ _ _ _ _ (Bounded_onNew hb) hlen (db_onNew_self w)
  intro w1 henc _
  rw [wp_bind]
  refine wp_mono _ _ _ _ ?_ (wp_MEC_new_rg henc hwf hk)
  rintro m w2 ⟨hM, haf, henc', hst, hmodel⟩
  have hposlt : ∀ p ∈ pos, p < m.af.n := by
    intro p hp
    rw [haf]
    obtain ⟨a, _, hpa⟩ := (mem_posAll hpos p).1 hp
    exact Comp.pos_lt hn hpa
  refine wp_mono _ _ _ _ ?_ (wp_rgAccLoop cred pos cfg.fuel m w2 hposlt
    (Or.inl ⟨hst, hM, by rw [haf]; exact hgr, hmodel⟩))
  intro res _ hres pos' hpos'
  rw [hpos] at hpos'; injection hpos' with hpos'; subst hpos'
  rw [haf, henc'] at hres
  obtain ⟨h1, h2⟩ := hres
  cases cred with
  | true =>
    simp only [↓reduceIte]
    refine ⟨fun hr => ?_, fun hr => ?_⟩
    · obtain ⟨e, he, hrm, hw, hlt⟩ := h1 hr
      exact ⟨e, he, hrm, wit_true.1 hw, hlt⟩
    · obtain ⟨hnone, hall⟩ := h2 (by simpa using hr)
      exact ⟨hnone, fun T hT hh => hall T hT (wit_true.2 hh)⟩
  | false =>
    simp only [Bool.false_eq_true, ↓reduceIte]
    refine ⟨fun hr => ?_, fun hr => ?_⟩
    · obtain ⟨e, he, hrm, hw, hlt⟩ := h1 hr
      exact ⟨e, he, hrm, wit_false.1 hw, hlt⟩
    · obtain ⟨hnone, hall⟩ := h2 (by simpa using hr)
      refine ⟨hnone, fun T hT => ?_⟩
      apply Classical.byContradiction
      intro hh
      exact hall T hT (wit_false.2 hh)

end Crusta
