import Crusta.Proofs.Oracle
import Crusta.Proofs.StaticAll

/-! # C07 — multi-argument queries are disjunctions (property theorems) -/

namespace Crusta.C07
open Crusta

/-- the reference status of a list query is the disjunction over its members (credulous) -/
theorem cred_is_disjunction (σ : Sem) (af : AF) (hwf : af.WF) (as : List Nat) :
    σ.credB af as = true ↔ ∃ a ∈ as, σ.credB af [a] = true := by
  rw [credB_iff σ af hwf]
  constructor
  · rintro ⟨S, hS, a, ha, hSa⟩
    exact ⟨a, ha, (credB_iff σ af hwf [a]).2 ⟨S, hS, a, by simp, hSa⟩⟩
  · rintro ⟨a, ha, h⟩
    obtain ⟨S, hS, b, hb, hSb⟩ := (credB_iff σ af hwf [a]).1 h
    simp at hb; subst hb
    exact ⟨S, hS, b, ha, hSb⟩

/-- skeptical list queries: every extension contains at least one member (this is *not* the
disjunction of the single-argument skeptical statuses, which is why it needs its own check) -/
theorem skep_list_spec (σ : Sem) (af : AF) (hwf : af.WF) (as : List Nat) :
    σ.skepB af as = true ↔ ∀ S, σ.Ext af S → ∃ a ∈ as, S a = true := skepB_iff σ af hwf as

/-- repetitions and order in the list are irrelevant -/
theorem cred_perm_invariant (σ : Sem) (af : AF) (hwf : af.WF) (as bs : List Nat)
    (h : ∀ a, a ∈ as ↔ a ∈ bs) : σ.credB af as = σ.credB af bs := by
  apply Bool.eq_iff_iff.2
  rw [credB_iff σ af hwf, credB_iff σ af hwf]
  constructor
  · rintro ⟨S, hS, a, ha, hSa⟩; exact ⟨S, hS, a, (h a).1 ha, hSa⟩
  · rintro ⟨S, hS, a, ha, hSa⟩; exact ⟨S, hS, a, (h a).2 ha, hSa⟩

theorem skep_perm_invariant (σ : Sem) (af : AF) (hwf : af.WF) (as bs : List Nat)
    (h : ∀ a, a ∈ as ↔ a ∈ bs) : σ.skepB af as = σ.skepB af bs := by
  apply Bool.eq_iff_iff.2
  rw [skepB_iff σ af hwf, skepB_iff σ af hwf]
  constructor
  · intro hh S hS; obtain ⟨a, ha, hSa⟩ := hh S hS; exact ⟨a, (h a).1 ha, hSa⟩
  · intro hh S hS; obtain ⟨a, ha, hSa⟩ := hh S hS; exact ⟨a, (h a).2 ha, hSa⟩

/-- the judge forces the variants with and without certificate to the same status -/
theorem variants_agree (af : AF) (hwf : af.WF) (σ : Sem) (t : Task) (as : List Nat)
    (st1 st2 : Bool) (c : Option (List Nat))
    (h1 : checkAnswer af ⟨σ, t, false, as⟩ (.acc st1 none) = .ok ())
    (h2 : checkAnswer af ⟨σ, t, true, as⟩ (.acc st2 (some c)) = .ok ()) : st1 = st2 := by
  rw [checkAnswer_iff af hwf] at h1 h2
  cases t
  · simp [Conforms] at h1
  · simp only [Conforms] at h1 h2; exact status_eq_of_iff h1.1 h2.1
  · simp only [Conforms] at h1 h2; exact status_eq_of_iff h1.1 h2.1


/-- **C07 on the solver programs**: a query over a list of arguments is answered as the
disjunction of its members (`HitsL args S` = some member of the list is in `S`), for the variants
with and without certificate alike (C02 / C03 theorems, restated for lists) -/
theorem list_queries_are_disjunctions (σ : Sem) (g : G) (args : List Nat) (c1 c2 : Bool) (a1 a2 : AccAns) :
    (DCOK σ g args c1 a1 → (a1.status = true ↔ ∃ S, σ.GExt g S ∧ ∃ x ∈ args, S x = true)) ∧
    (DSOK σ g args c1 a1 → (a1.status = true ↔ ∀ S, σ.GExt g S → ∃ x ∈ args, S x = true)) ∧
    (DCOK σ g args c1 a1 → DCOK σ g args c2 a2 → a1.status = a2.status) ∧
    (DSOK σ g args c1 a1 → DSOK σ g args c2 a2 → a1.status = a2.status) := by
  refine ⟨fun h => ⟨fun hst => (h.1 hst).1, fun hex => ?_⟩, fun h => ⟨fun hst => (h.1 hst).1, fun hall => ?_⟩,
    (status_determined σ g args c1 c2 a1 a2).1, (status_determined σ g args c1 c2 a1 a2).2⟩
  · cases hst : a1.status with
    | true => rfl
    | false => exact absurd hex (h.2 hst).1
  · cases hst : a1.status with
    | true => rfl
    | false =>
      obtain ⟨S, hS, hn⟩ := (h.2 hst).1
      exact absurd (hall S hS) hn

/-- every static solver's acceptance answers satisfy `DCOK` / `DSOK` (hence the above) -/
theorem solver_answers_satisfy_spec (sk : SolverKind) (cfg : Cfg) (hcfg : CfgOK sk cfg) (v : FwView) (g : G) (hv : v.Ok g)
    (e : Entry) (hargs : ∀ a, a ∈ e.argsList → g.live a = true) (p : Prog Ans)
    (hp : entryProg sk cfg v e = some p) (w : World) (hb : w.Bounded) (rs : List Reply)
    (hs : RunSound p rs w) (ans : Ans) (w' : World) (hrun : interp p rs w = (.done ans, w')) :
    EntryOK sk.sem g e ans := static_answers_conform sk cfg hcfg v g hv e hargs p hp w hb rs hs ans w' hrun

end Crusta.C07
