import Crusta.Proofs.EncCommon

/-!
# aux_var encoders: the CNF has exactly the intended sets as models (S5 / C10)
-/

namespace Crusta
namespace Aux

/-- the set denoted by an assignment -/
def S (af : AF) (ν : Asg) : ASet := setOfAsg af.n x ν

/-- auxiliary variables are consistent: `P_a ⇔ a is attacked by the set` -/
def PCons (af : AF) (ν : Asg) : Prop := ∀ a, a < af.n → (ν (p a) = true ↔ AttackedBy af (S af ν) a)

/-- range variables are exact: `r_a ⇔ a ∈ S ∪ S⁺` -/
def RCons (af : AF) (ν : Asg) : Prop := ∀ a, a < af.n → (ν (r af.n a) = true ↔ InRange af (S af ν) a)

theorem S_sub (af : AF) (ν : Asg) : Sub af (S af ν) := setOfAsg_sub af x ν

theorem S_lt {af : AF} {ν : Asg} {a : Nat} (h : a < af.n) : S af ν a = ν (x a) := setOfAsg_lt h

theorem attackedBy_iff {af : AF} (hwf : af.WF) (ν : Asg) (a : Nat) :
    AttackedBy af (S af ν) a ↔ ∃ b ∈ af.attackers a, ν (x b) = true := by
  constructor
  · rintro ⟨b, hb, hSb⟩
    exact ⟨b, AF.mem_attackers.2 hb, by rwa [S_lt (hwf _ hb).1] at hSb⟩
  · rintro ⟨b, hb, hνb⟩
    exact ⟨b, AF.mem_attackers.1 hb, by rw [S_lt (AF.attackers_lt hwf hb)]; exact hνb⟩

theorem cfArg_iff {af : AF} (hwf : af.WF) (ν : Asg) {a : Nat} (ha : a < af.n) :
    cnfTrue ν (cfArg af a) = true ↔ LocalCF af (S af ν) a := by
  unfold cfArg LocalCF
  rw [cnfTrue_map, S_lt ha]
  simp only [clauseTrue_cons, litTrue_nl, clauseTrue_nil, Bool.or_false, Bool.or_eq_true,
    Bool.not_eq_true']
  constructor
  · intro h hxa b hb
    rw [S_lt (hwf _ hb).1]
    rcases h b (AF.mem_attackers.2 hb) with h1 | h1
    · rw [hxa] at h1; cases h1
    · exact h1
  · intro h b hb
    cases hxa : ν (x a)
    · left; rfl
    · right
      have := h hxa b (AF.mem_attackers.1 hb)
      rwa [S_lt (AF.attackers_lt hwf hb)] at this

theorem disj_iff {af : AF} (hwf : af.WF) (ν : Asg) (a : Nat) :
    cnfTrue ν (disj af a) = true ↔
      ((ν (x a) = true → ν (p a) = false) ∧ (ν (p a) = true ↔ AttackedBy af (S af ν) a)) := by
  rw [attackedBy_iff hwf]
  unfold disj
  simp only [cnfTrue_append, cnfTrue_cons, cnfTrue_nil, Bool.and_true, Bool.and_eq_true,
    clauseTrue_cons, clauseTrue_nil, litTrue_nl, litTrue_pl, Bool.or_false, Bool.or_eq_true,
    Bool.not_eq_true', cnfTrue_map, clauseTrue_map]
  constructor
  · rintro ⟨⟨h1, h2⟩, h3⟩
    refine ⟨?_, ?_, ?_⟩
    · intro hs; rcases h1 with h | h
      · rw [hs] at h; cases h
      · exact h
    · intro hp
      rcases h3 with h3 | h3
      · rw [hp] at h3; cases h3
      · exact h3
    · rintro ⟨b, hb, hνb⟩
      rcases h2 b hb with h | h
      · exact h
      · rw [hνb] at h; cases h
  · rintro ⟨h1, h2⟩
    refine ⟨⟨?_, ?_⟩, ?_⟩
    · cases hs : ν (x a)
      · left; rfl
      · right; exact h1 hs
    · intro b hb
      cases hνb : ν (x b)
      · right; rfl
      · left; exact h2.2 ⟨b, hb, hνb⟩
    · cases hp : ν (p a)
      · left; rfl
      · right; exact h2.1 hp

theorem admArg_iff (af : AF) (ν : Asg) (a : Nat) :
    cnfTrue ν (admArg af a) = true ↔ (ν (x a) = true → ∀ b ∈ af.attackers a, ν (p b) = true) := by
  unfold admArg
  rw [cnfTrue_map]
  simp only [clauseTrue_cons, litTrue_nl, litTrue_pl, clauseTrue_nil, Bool.or_false,
    Bool.or_eq_true, Bool.not_eq_true']
  constructor
  · intro h hs b hb
    rcases h b hb with h1 | h1
    · rw [hs] at h1; cases h1
    · exact h1
  · intro h b hb
    cases hs : ν (x a)
    · left; rfl
    · right; exact h hs b hb

theorem coArg_iff (af : AF) (ν : Asg) (a : Nat) :
    cnfTrue ν (coArg af a) = true ↔
      ((ν (x a) = true → ∀ b ∈ af.attackers a, ν (p b) = true) ∧
       ((∀ b ∈ af.attackers a, ν (p b) = true) → ν (x a) = true)) := by
  unfold coArg
  rw [cnfTrue_append, Bool.and_eq_true]
  have h1 := admArg_iff af ν a
  unfold admArg at h1
  rw [h1]
  simp only [cnfTrue_cons, cnfTrue_nil, Bool.and_true, clauseTrue_cons, litTrue_pl,
    Bool.or_eq_true, clauseTrue_map, litTrue_nl, Bool.not_eq_true']
  constructor
  · rintro ⟨h, h2⟩
    refine ⟨h, fun hall => ?_⟩
    rcases h2 with h2 | ⟨b, hb, hpb⟩
    · exact h2
    · rw [hall b hb] at hpb; cases hpb
  · rintro ⟨h, h2⟩
    refine ⟨h, ?_⟩
    by_cases hall : ∀ b ∈ af.attackers a, ν (p b) = true
    · left; exact h2 hall
    · right
      obtain ⟨b, hb, hnb⟩ := not_forall_mem hall
      exact ⟨b, hb, by simpa using hnb⟩

theorem range_iff (ν : Asg) (n a : Nat) :
    cnfTrue ν (range n a) = true ↔ (ν (r n a) = true ↔ (ν (x a) = true ∨ ν (p a) = true)) := by
  unfold range
  simp only [cnfTrue_cons, cnfTrue_nil, Bool.and_true, Bool.and_eq_true, clauseTrue_cons,
    clauseTrue_nil, litTrue_nl, litTrue_pl, Bool.or_false, Bool.or_eq_true, Bool.not_eq_true']
  cases ν (r n a) <;> cases ν (x a) <;> cases ν (p a) <;> simp

/-! ### the three plain encodings -/

theorem cf_iff (af : AF) (hwf : af.WF) (ν : Asg) :
    cnfTrue ν (cf af) = true ↔ ConflictFree af (S af ν) := by
  rw [cf_iff_local af _ (S_sub af ν)]
  unfold cf
  rw [cnfTrue_flatMap]
  constructor
  · intro h a ha; exact (cfArg_iff hwf ν ha).1 (h a (List.mem_range.2 ha))
  · intro h a ha; exact (cfArg_iff hwf ν (List.mem_range.1 ha)).2 (h a (List.mem_range.1 ha))

/-- local CF follows from the disjunction-variable definition -/
theorem localCF_of_disj {af : AF} (ν : Asg) {a : Nat} (ha : a < af.n)
    (h1 : ν (x a) = true → ν (p a) = false) (h2 : ν (p a) = true ↔ AttackedBy af (S af ν) a) :
    LocalCF af (S af ν) a := by
  intro hSa b hb
  rw [S_lt ha] at hSa
  cases hSb : S af ν b
  · rfl
  · have := h2.2 ⟨b, hb, hSb⟩
    rw [h1 hSa] at this; cases this

theorem adm_iff (af : AF) (hwf : af.WF) (ν : Asg) :
    cnfTrue ν (adm af) = true ↔ (PCons af ν ∧ Admissible af (S af ν)) := by
  rw [adm_iff_local af _ (S_sub af ν)]
  unfold adm
  rw [cnfTrue_flatMap]
  simp only [cnfTrue_append, Bool.and_eq_true, admArg_iff, disj_iff hwf, List.mem_range]
  constructor
  · intro h
    have hP : PCons af ν := fun a ha => (h a ha).2.2
    refine ⟨hP, fun a ha => localCF_of_disj ν ha (h a ha).2.1 (h a ha).2.2, ?_⟩
    intro a ha hSa b hb
    rw [S_lt ha] at hSa
    exact (hP b (hwf _ hb).1).1 ((h a ha).1 hSa b (AF.mem_attackers.2 hb))
  · rintro ⟨hP, hcf, hdef⟩ a ha
    refine ⟨?_, ?_, hP a ha⟩
    · intro hxa b hb
      have hSa : S af ν a = true := by rw [S_lt ha]; exact hxa
      exact (hP b (AF.attackers_lt hwf hb)).2 (hdef a ha hSa b (AF.mem_attackers.1 hb))
    · intro hxa
      have hSa : S af ν a = true := by rw [S_lt ha]; exact hxa
      cases hp : ν (p a)
      · rfl
      · obtain ⟨b, hb, hSb⟩ := (hP a ha).1 hp
        have := hcf a ha hSa b hb
        rw [this] at hSb; cases hSb

theorem co_iff (af : AF) (hwf : af.WF) (ν : Asg) :
    cnfTrue ν (co af) = true ↔ (PCons af ν ∧ Complete af (S af ν)) := by
  rw [co_iff_local af _ (S_sub af ν)]
  unfold co
  rw [cnfTrue_flatMap]
  simp only [cnfTrue_append, Bool.and_eq_true, coArg_iff, disj_iff hwf, List.mem_range]
  constructor
  · intro h
    have hP : PCons af ν := fun a ha => (h a ha).2.2
    refine ⟨hP, fun a ha => localCF_of_disj ν ha (h a ha).2.1 (h a ha).2.2, ?_, ?_⟩
    · intro a ha hSa b hb
      rw [S_lt ha] at hSa
      exact (hP b (hwf _ hb).1).1 ((h a ha).1.1 hSa b (AF.mem_attackers.2 hb))
    · intro a ha hdef
      rw [S_lt ha]
      apply (h a ha).1.2
      intro b hb
      exact (hP b (AF.attackers_lt hwf hb)).2 (hdef b (AF.mem_attackers.1 hb))
  · rintro ⟨hP, hcf, hdef, hco⟩ a ha
    refine ⟨⟨?_, ?_⟩, ?_, hP a ha⟩
    · intro hxa b hb
      have hSa : S af ν a = true := by rw [S_lt ha]; exact hxa
      exact (hP b (AF.attackers_lt hwf hb)).2 (hdef a ha hSa b (AF.mem_attackers.1 hb))
    · intro hall
      rw [← S_lt (af := af) (ν := ν) ha]
      apply hco a ha
      intro b hb
      exact (hP b (hwf _ hb).1).1 (hall b (AF.mem_attackers.2 hb))
    · intro hxa
      have hSa : S af ν a = true := by rw [S_lt ha]; exact hxa
      cases hp : ν (p a)
      · rfl
      · obtain ⟨b, hb, hSb⟩ := (hP a ha).1 hp
        have := hcf a ha hSa b hb
        rw [this] at hSb; cases hSb

/-- conflict-freeness + disjunction variables (the part of the range encodings before the range
clauses) -/
theorem cfDisj_iff (af : AF) (hwf : af.WF) (ν : Asg) :
    (∀ a, a < af.n → cnfTrue ν (cfArg af a ++ disj af a) = true) ↔
      (PCons af ν ∧ ConflictFree af (S af ν)) := by
  rw [cf_iff_local af _ (S_sub af ν)]
  simp only [cnfTrue_append, Bool.and_eq_true, disj_iff hwf]
  constructor
  · intro h
    exact ⟨fun a ha => (h a ha).2.2, fun a ha => (cfArg_iff hwf ν ha).1 (h a ha).1⟩
  · rintro ⟨hP, hcf⟩ a ha
    refine ⟨(cfArg_iff hwf ν ha).2 (hcf a ha), ?_, hP a ha⟩
    intro hxa
    have hSa : S af ν a = true := by rw [S_lt ha]; exact hxa
    cases hp : ν (p a)
    · rfl
    · obtain ⟨b, hb, hSb⟩ := (hP a ha).1 hp
      have := hcf a ha hSa b hb
      rw [this] at hSb; cases hSb

/-! ### range variants: under `PCons`, the range clauses say `r_a ⇔ a ∈ range` -/

theorem rcons_iff {af : AF} {ν : Asg} (hP : PCons af ν) :
    (∀ a, a < af.n → cnfTrue ν (range af.n a) = true) ↔ RCons af ν := by
  unfold RCons InRange
  constructor
  · intro h a ha
    rw [(range_iff ν af.n a).1 (h a ha), S_lt ha, hP a ha]
  · intro h a ha
    rw [range_iff, h a ha, S_lt ha, hP a ha]

theorem split3 {ν : Asg} {n : Nat} {f g h : Nat → Cnf} :
    (∀ a, a < n → cnfTrue ν (f a ++ g a ++ h a) = true) ↔
      ((∀ a, a < n → cnfTrue ν (f a ++ g a) = true) ∧ (∀ a, a < n → cnfTrue ν (h a) = true)) := by
  simp only [cnfTrue_append, Bool.and_eq_true]
  constructor
  · intro hh; exact ⟨fun a ha => (hh a ha).1, fun a ha => (hh a ha).2⟩
  · rintro ⟨h1, h2⟩ a ha; exact ⟨h1 a ha, h2 a ha⟩

theorem coRange_iff (af : AF) (hwf : af.WF) (ν : Asg) :
    cnfTrue ν (coRange af) = true ↔ (PCons af ν ∧ Complete af (S af ν) ∧ RCons af ν) := by
  have hco := co_iff af hwf ν
  unfold co at hco
  unfold coRange
  rw [cnfTrue_flatMap] at hco ⊢
  simp only [List.mem_range] at hco ⊢
  rw [split3, hco]
  constructor
  · rintro ⟨⟨hP, hC⟩, hR⟩; exact ⟨hP, hC, (rcons_iff hP).1 hR⟩
  · rintro ⟨hP, hC, hR⟩; exact ⟨⟨hP, hC⟩, (rcons_iff hP).2 hR⟩

theorem admRange_iff (af : AF) (hwf : af.WF) (ν : Asg) :
    cnfTrue ν (admRange af) = true ↔ (PCons af ν ∧ Admissible af (S af ν) ∧ RCons af ν) := by
  have hco := adm_iff af hwf ν
  unfold adm at hco
  unfold admRange
  rw [cnfTrue_flatMap] at hco ⊢
  simp only [List.mem_range] at hco ⊢
  rw [split3, hco]
  constructor
  · rintro ⟨⟨hP, hC⟩, hR⟩; exact ⟨hP, hC, (rcons_iff hP).1 hR⟩
  · rintro ⟨hP, hC, hR⟩; exact ⟨⟨hP, hC⟩, (rcons_iff hP).2 hR⟩

theorem cfRange_iff (af : AF) (hwf : af.WF) (ν : Asg) :
    cnfTrue ν (cfRange af) = true ↔ (PCons af ν ∧ ConflictFree af (S af ν) ∧ RCons af ν) := by
  unfold cfRange
  rw [cnfTrue_flatMap]
  simp only [List.mem_range]
  rw [split3, cfDisj_iff af hwf ν]
  constructor
  · rintro ⟨⟨hP, hC⟩, hR⟩; exact ⟨hP, hC, (rcons_iff hP).1 hR⟩
  · rintro ⟨hP, hC, hR⟩; exact ⟨⟨hP, hC⟩, (rcons_iff hP).2 hR⟩

/-! ### every set has a consistent assignment (so "no fewer") -/

open Classical in
/-- the canonical assignment of a set: argument, disjunction and range variables all exact -/
noncomputable def asgOf (af : AF) (T : ASet) : Asg := fun v =>
  if v > af.n * 2 then decide (InRange af T (v - af.n * 2 - 1))
  else if v % 2 = 0 then T (v / 2 - 1)
  else decide (AttackedBy af T ((v + 1) / 2 - 1))

theorem asgOf_x (af : AF) (T : ASet) {a : Nat} (ha : a < af.n) : asgOf af T (x a) = T a := by
  unfold asgOf x
  have h1 : ¬ (a + 1) * 2 > af.n * 2 := by omega
  have h2 : (a + 1) * 2 % 2 = 0 := by omega
  have h3 : (a + 1) * 2 / 2 - 1 = a := by omega
  simp only [h1, h2, h3, if_true, if_false]

theorem asgOf_p (af : AF) (T : ASet) {a : Nat} (ha : a < af.n) :
    asgOf af T (p a) = true ↔ AttackedBy af T a := by
  unfold asgOf p
  have h1 : ¬ (a + 1) * 2 - 1 > af.n * 2 := by omega
  have h2 : ¬ ((a + 1) * 2 - 1) % 2 = 0 := by omega
  have h3 : ((a + 1) * 2 - 1 + 1) / 2 - 1 = a := by omega
  simp only [h1, h2, h3, if_false, decide_eq_true_eq]

theorem asgOf_r (af : AF) (T : ASet) (a : Nat) :
    asgOf af T (r af.n a) = true ↔ InRange af T a := by
  unfold asgOf r
  have h1 : af.n * 2 + a + 1 > af.n * 2 := by omega
  have h3 : af.n * 2 + a + 1 - af.n * 2 - 1 = a := by omega
  simp only [h1, h3, if_true, decide_eq_true_eq]

theorem S_asgOf (af : AF) (T : ASet) (hT : Sub af T) : S af (asgOf af T) = T := by
  funext a
  unfold S setOfAsg
  by_cases ha : a < af.n
  · simp [ha, asgOf_x af T ha]
  · cases h : T a
    · simp [ha]
    · exact absurd (hT a h) ha

theorem asgOf_cons (af : AF) (T : ASet) (hT : Sub af T) :
    S af (asgOf af T) = T ∧ PCons af (asgOf af T) ∧ RCons af (asgOf af T) := by
  refine ⟨S_asgOf af T hT, ?_, ?_⟩
  · intro a ha; rw [S_asgOf af T hT]; exact asgOf_p af T ha
  · intro a _; rw [S_asgOf af T hT]; exact asgOf_r af T a

/-! ### layout -/

theorem x_inj {a b : Nat} (h : x a = x b) : a = b := by unfold x at h; omega
theorem x_ne_p (a b : Nat) : x a ≠ p b := by unfold x p; omega
theorem x_ne_r {n : Nat} {a : Nat} (ha : a < n) (b : Nat) : x a ≠ r n b := by unfold x r; omega
theorem p_ne_r {n : Nat} {a : Nat} (ha : a < n) (b : Nat) : p a ≠ r n b := by unfold p r; omega
theorem r_inj {n a b : Nat} (h : r n a = r n b) : a = b := by unfold r at h; omega
theorem x_le_reserve {n a : Nat} (ha : a < n) : 1 ≤ x a ∧ x a ≤ n * 2 := by unfold x; omega
theorem r_le_reserve {n a : Nat} (ha : a < n) : n * 2 < r n a ∧ r n a ≤ n * 3 := by unfold r; omega

end Aux
end Crusta
