import Crusta.Proofs.Oracle

/-! # C02 — credulous acceptance (property theorems) -/

namespace Crusta.C02
open Crusta

/-- The judge accepts a credulous status iff it is YES exactly when some extension contains the
argument. -/
theorem dc_judge_exact (af : AF) (hwf : af.WF) (σ : Sem) (a : Nat) (st : Bool) :
    checkAnswer af ⟨σ, .DC, false, [a]⟩ (.acc st none) = .ok () ↔
      (st = true ↔ ∃ S, σ.Ext af S ∧ S a = true) := by
  rw [checkAnswer_iff af hwf]
  simp [Conforms, CertConforms]

/-- NO for every argument when there is no extension (the ST case) -/
theorem no_extension_no_credulous (af : AF) (hwf : af.WF) (σ : Sem) (a : Nat)
    (h : ¬ ∃ S, σ.Ext af S) : σ.credB af [a] = false := by
  cases hc : σ.credB af [a]
  · rfl
  · obtain ⟨S, hS, _⟩ := (credB_iff σ af hwf [a]).1 hc
    exact absurd ⟨S, hS⟩ h

end Crusta.C02
