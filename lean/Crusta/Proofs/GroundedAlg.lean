import Crusta.Proofs.ViewSpec
import Crusta.Proofs.StoreObs
import Crusta.Proofs.StoreRows

/-!
# The worklist algorithm `groundedV` computes the grounded extension

`groundedV_spec`: on every view presenting a graph, the result lists the least complete extension.
`AF.view_ok`, `Store.view_ok`: the two views in use present their graphs.
-/

namespace Crusta

/-! ## list toolkit -/

theorem nodup_length_le : ∀ (n : Nat) (l : List Nat), l.Nodup → (∀ a ∈ l, a < n) → l.length ≤ n
  | 0, l, _, h => by
    cases l with
    | nil => simp
    | cons a t => exact absurd (h a (by simp)) (by omega)
  | n + 1, l, hn, h => by
    have ih := nodup_length_le n (l.erase n) (hn.erase n) (by
      intro a ha
      have h1 := (hn.mem_erase_iff).1 ha
      have h2 := h a h1.2
      have h3 := h1.1
      omega)
    by_cases hm : n ∈ l
    · rw [List.length_erase_of_mem hm] at ih; omega
    · rw [List.erase_of_not_mem hm] at ih; omega

theorem getD_set_true_mono (df : List Bool) (t b : Nat) (h : df.getD b false = true) :
    (df.set t true).getD b false = true := by
  by_cases e : t = b
  · subst e
    have : t < df.length := by
      apply Classical.byContradiction
      intro hn
      rw [getD_ge _ _ _ (by omega)] at h; cases h
    exact getD_set_eq _ _ _ _ this
  · rw [getD_set_ne _ _ _ _ _ e]; exact h

/-- number of entries of `l` that are not marked in `df` -/
def und (df : List Bool) (l : List Nat) : Nat := l.countP (fun b => !(df.getD b false))

theorem und_set (df : List Bool) (t : Nat) (ht : t < df.length) (hf : df.getD t false = false)
    (l : List Nat) : und (df.set t true) l + l.count t = und df l := by
  induction l with
  | nil => simp [und]
  | cons b l ih =>
    unfold und at ih ⊢
    rw [List.countP_cons, List.countP_cons, List.count_cons]
    generalize List.countP (fun b => !((df.set t true).getD b false)) l = x at ih ⊢
    generalize List.countP (fun b => !(df.getD b false)) l = y at ih ⊢
    generalize List.count t l = z at ih ⊢
    by_cases hb : b = t
    · subst hb
      rw [getD_set_eq _ _ _ _ ht, hf]
      simp
      omega
    · rw [getD_set_ne _ _ _ _ _ (Ne.symm hb)]
      have hbt : (b == t) = false := by simpa using hb
      rw [hbt]
      cases df.getD b false <;> simp <;> omega

theorem und_zero {df : List Bool} {l : List Nat} (h : und df l = 0) :
    ∀ b ∈ l, df.getD b false = true := by
  intro b hb
  have := List.countP_eq_zero.1 h b hb
  simpa using this

theorem und_pos {df : List Bool} {l : List Nat} (h : 1 ≤ und df l) :
    ∃ b ∈ l, df.getD b false = false := by
  obtain ⟨b, hb, hp⟩ := List.countP_pos_iff.1 h
  exact ⟨b, hb, by simpa using hp⟩

theorem und_replicate (n : Nat) (l : List Nat) : und (List.replicate n false) l = l.length := by
  unfold und
  rw [List.countP_eq_length]
  intro b _
  simp [List.getD_eq_getElem?_getD, List.getElem?_replicate]
  split <;> simp

/-! ## the invariant -/

/-- invariant of the algorithm; `p` = number of members of `ext` whose processing has started,
`ds` = the targets of the freshly defeated argument still to be walked by `grDefend` -/
structure GrInv (v : FwView) (g : G) (N : Nat) (st : GrSt) (p : Nat) (ds : List Nat) : Prop where
  ext_nodup : st.ext.Nodup
  ext_live : ∀ a ∈ st.ext, g.live a = true
  len_def : st.defeated.length = N
  len_cnt : st.cnt.length = N
  def_sound : ∀ t, st.defeated.getD t false = true → ∃ j a : Nat, j < p ∧ st.ext[j]? = some a ∧ g.att a t
  cnt_ok : ∀ d, g.live d = true → d ∉ st.ext →
    st.cnt.getD d 0 = und st.defeated (v.attTo d) + ds.count d ∧ 1 ≤ st.cnt.getD d 0
  ext_pend : ∀ d ∈ st.ext, d ∉ ds
  ext_att : ∀ d ∈ st.ext, ∀ b, g.att b d → st.defeated.getD b false = true
  ext_ord : ∀ k d, st.ext[k]? = some d → ∀ b, g.att b d →
    ∃ j a : Nat, j < k ∧ st.ext[j]? = some a ∧ g.att a b
  p_le : p ≤ st.ext.length

variable {v : FwView} {g : G} {N : Nat}

theorem GrInv.ext_len_le {st : GrSt} {p : Nat} {ds : List Nat} (h : GrInv v g N st p ds)
    (hN : ∀ a, g.live a = true → a < N) : st.ext.length ≤ N :=
  nodup_length_le N st.ext h.ext_nodup (fun a ha => hN a (h.ext_live a ha))

theorem GrInv.mono_p {st : GrSt} {p p' : Nat} {ds : List Nat} (h : GrInv v g N st p ds)
    (h1 : p ≤ p') (h2 : p' ≤ st.ext.length) : GrInv v g N st p' ds :=
  { h with
    def_sound := by
      intro t ht
      obtain ⟨j, a, hj, ha, hat⟩ := h.def_sound t ht
      exact ⟨j, a, by omega, ha, hat⟩
    p_le := h2 }

theorem GrInv.push {st : GrSt} {p d : Nat} {ds : List Nat} (hv : v.Ok g)
    (h : GrInv v g N st p (d :: ds)) (hlive : g.live d = true) (hnot : d ∉ st.ext)
    (hund : und st.defeated (v.attTo d) = 0) (hds : d ∉ ds) :
    GrInv v g N { st with ext := st.ext ++ [d] } p ds := by
  have hatt : ∀ b, g.att b d → st.defeated.getD b false = true := by
    intro b hb
    exact und_zero hund b ((hv.attTo_mem d b).2 hb)
  have hlift : ∀ j a, j < st.ext.length → st.ext[j]? = some a → (st.ext ++ [d])[j]? = some a := by
    intro j a hj ha
    rw [List.getElem?_append_left hj]; exact ha
  refine ⟨?_, ?_, h.len_def, h.len_cnt, ?_, ?_, ?_, ?_, ?_, ?_⟩
  · show (st.ext ++ [d]).Nodup
    refine List.nodup_append.2 ⟨h.ext_nodup, by simp, ?_⟩
    intro a ha b hb e
    simp at hb
    subst hb; subst e
    exact hnot ha
  · intro a ha
    rcases List.mem_append.1 ha with h1 | h1
    · exact h.ext_live a h1
    · simp at h1; subst h1; exact hlive
  · intro t ht
    obtain ⟨j, a, hj, ha, hat⟩ := h.def_sound t ht
    exact ⟨j, a, hj, hlift j a (Nat.lt_of_lt_of_le hj h.p_le) ha, hat⟩
  · intro d' hl hn
    have hn' : d' ∉ st.ext ∧ ¬ d' = d := by simpa using hn
    obtain ⟨hc, h1⟩ := h.cnt_ok d' hl hn'.1
    refine ⟨?_, h1⟩
    show st.cnt.getD d' 0 = _
    rw [hc, List.count_cons]
    have : (d == d') = false := by
      simp; exact fun e => hn'.2 e.symm
    simp [this]
  · intro d' hd'
    rcases List.mem_append.1 hd' with h1 | h1
    · have := h.ext_pend d' h1
      simp at this; exact this.2
    · simp at h1; subst h1; exact hds
  · intro d' hd' b hb
    rcases List.mem_append.1 hd' with h1 | h1
    · exact h.ext_att d' h1 b hb
    · simp at h1; subst h1; exact hatt b hb
  · intro k d' hk b hb
    show ∃ j a, j < k ∧ (st.ext ++ [d])[j]? = some a ∧ g.att a b
    have hk' : (st.ext ++ [d])[k]? = some d' := hk
    by_cases hkl : k < st.ext.length
    · rw [List.getElem?_append_left hkl] at hk'
      obtain ⟨j, a, hj, ha, hab⟩ := h.ext_ord k d' hk' b hb
      exact ⟨j, a, hj, hlift j a (by omega) ha, hab⟩
    · have hkl' : st.ext.length ≤ k := by omega
      rw [List.getElem?_append_right hkl'] at hk'
      have : d' = d := by
        cases hkk : k - st.ext.length with
        | zero => rw [hkk] at hk'; simpa using hk'.symm
        | succ n => rw [hkk] at hk'; simp at hk'
      subst this
      obtain ⟨j, a, hj, ha, hab⟩ := h.def_sound b (hatt b hb)
      have := h.p_le
      exact ⟨j, a, by omega, hlift j a (by omega) ha, hab⟩
  · show p ≤ (st.ext ++ [d]).length
    have := h.p_le
    simp; omega

theorem GrInv.dec {st : GrSt} {p d : Nat} {ds : List Nat}
    (h : GrInv v g N st p (d :: ds)) (hlive : g.live d = true) (hnot : d ∉ st.ext)
    (hdN : d < N) (h2 : 2 ≤ st.cnt.getD d 0) :
    GrInv v g N { st with cnt := st.cnt.set d (st.cnt.getD d 0 - 1) } p ds := by
  refine ⟨h.ext_nodup, h.ext_live, h.len_def, ?_, h.def_sound, ?_, ?_, h.ext_att, h.ext_ord, h.p_le⟩
  · show (st.cnt.set d _).length = N
    simp [h.len_cnt]
  · intro d' hl hn
    show (st.cnt.set d _).getD d' 0 = und st.defeated (v.attTo d') + ds.count d' ∧
      1 ≤ (st.cnt.set d _).getD d' 0
    by_cases e : d' = d
    · subst e
      rw [getD_set_eq _ _ _ _ (by rw [h.len_cnt]; exact hdN)]
      obtain ⟨hc, _⟩ := h.cnt_ok d' hl hn
      rw [List.count_cons_self] at hc
      omega
    · rw [getD_set_ne _ _ _ _ _ (Ne.symm e)]
      obtain ⟨hc, h1⟩ := h.cnt_ok d' hl hn
      refine ⟨?_, h1⟩
      rw [hc, List.count_cons]
      have : (d == d') = false := by
        simp; exact fun e' => e e'.symm
      simp [this]
  · intro d' hd'
    have := h.ext_pend d' hd'
    simp at this; exact this.2

theorem grDefend_inv (hv : v.Ok g) (hN : ∀ a, g.live a = true → a < N) :
    ∀ (ds : List Nat) (st : GrSt) (p : Nat), GrInv v g N st p ds → (∀ d ∈ ds, g.live d = true) →
      GrInv v g N (grDefend st ds) p [] ∧ (grDefend st ds).defeated = st.defeated ∧
        ∃ l, (grDefend st ds).ext = st.ext ++ l := by
  intro ds
  induction ds with
  | nil =>
    intro st p h _
    exact ⟨h, rfl, [], by simp [grDefend]⟩
  | cons d ds ih =>
    intro st p h hl
    have hlive : g.live d = true := hl d (by simp)
    have hnot : d ∉ st.ext := fun hm => h.ext_pend d hm (by simp)
    obtain ⟨hc, h1⟩ := h.cnt_ok d hlive hnot
    rw [List.count_cons_self] at hc
    have hl' : ∀ d' ∈ ds, g.live d' = true := fun d' hd' => hl d' (by simp [hd'])
    unfold grDefend
    split
    · rename_i hone
      have hone' : st.cnt.getD d 0 = 1 := by simpa using hone
      have hds : d ∉ ds := by
        intro hm
        have := List.count_pos_iff.2 hm
        omega
      obtain ⟨i1, i2, l, i3⟩ := ih _ p (h.push hv hlive hnot (by omega) hds) hl'
      exact ⟨i1, i2, [d] ++ l, by rw [i3]; simp⟩
    · rename_i hone
      have hone' : ¬ st.cnt.getD d 0 = 1 := by simpa using hone
      obtain ⟨i1, i2, l, i3⟩ := ih _ p (h.dec hlive hnot (hN d hlive) (by omega)) hl'
      exact ⟨i1, i2, l, i3⟩

theorem GrInv.mark {st : GrSt} {p j a t : Nat} (hv : v.Ok g) (hN : ∀ a, g.live a = true → a < N)
    (h : GrInv v g N st p []) (hund : st.defeated.getD t false = false) (hj : j < p)
    (ha : st.ext[j]? = some a) (hat : g.att a t) :
    GrInv v g N { st with defeated := st.defeated.set t true } p (v.attFrom t) := by
  have htN : t < st.defeated.length := by
    rw [h.len_def]; exact hN t (hv.wf a t hat).2
  refine ⟨h.ext_nodup, h.ext_live, ?_, h.len_cnt, ?_, ?_, ?_, ?_, h.ext_ord, h.p_le⟩
  · show (st.defeated.set t true).length = N
    simp [h.len_def]
  · intro t' ht'
    have ht'' : (st.defeated.set t true).getD t' false = true := ht'
    by_cases e : t = t'
    · subst e; exact ⟨j, a, hj, ha, hat⟩
    · rw [getD_set_ne _ _ _ _ _ e] at ht''
      exact h.def_sound t' ht''
  · intro d hl hn
    obtain ⟨hc, h1⟩ := h.cnt_ok d hl hn
    refine ⟨?_, h1⟩
    show st.cnt.getD d 0 = und (st.defeated.set t true) (v.attTo d) + (v.attFrom t).count d
    rw [hv.count t d, und_set _ _ htN hund, hc]
    simp
  · intro d hd hm
    have := h.ext_att d hd t ((hv.attFrom_mem t d).1 hm)
    rw [hund] at this; cases this
  · intro d hd b hb
    exact getD_set_true_mono _ _ _ (h.ext_att d hd b hb)

theorem grDefeat_inv (hv : v.Ok g) (hN : ∀ a, g.live a = true → a < N) :
    ∀ (ts : List Nat) (st : GrSt) (p j a : Nat), GrInv v g N st p [] → j < p →
      st.ext[j]? = some a → (∀ t ∈ ts, g.att a t) →
      GrInv v g N (grDefeat v st ts) p [] ∧
      (∀ t, (st.defeated.getD t false = true ∨ t ∈ ts) →
        (grDefeat v st ts).defeated.getD t false = true) ∧
      ∃ l, (grDefeat v st ts).ext = st.ext ++ l := by
  intro ts
  induction ts with
  | nil =>
    intro st p j a h _ _ _
    refine ⟨h, ?_, [], by simp [grDefeat]⟩
    intro t ht
    rcases ht with ht | ht
    · exact ht
    · simp at ht
  | cons t ts ih =>
    intro st p j a h hj ha hts
    have hts' : ∀ t' ∈ ts, g.att a t' := fun t' ht' => hts t' (by simp [ht'])
    unfold grDefeat
    split
    · rename_i hdef
      obtain ⟨i1, i2, i3⟩ := ih st p j a h hj ha hts'
      refine ⟨i1, ?_, i3⟩
      intro t' ht'
      rcases ht' with ht' | ht'
      · exact i2 t' (Or.inl ht')
      · rcases List.mem_cons.1 ht' with e | e
        · subst e; exact i2 t' (Or.inl hdef)
        · exact i2 t' (Or.inr e)
    · rename_i hdef
      have hund : st.defeated.getD t false = false := by simpa using hdef
      have hat : g.att a t := hts t (by simp)
      have hm := h.mark hv hN hund hj ha hat
      have hlive : ∀ d ∈ v.attFrom t, g.live d = true := fun d hd =>
        (hv.wf t d ((hv.attFrom_mem t d).1 hd)).2
      obtain ⟨d1, d2, l1, d3⟩ := grDefend_inv hv hN (v.attFrom t) _ p hm hlive
      have ha' : (grDefend { st with defeated := st.defeated.set t true } (v.attFrom t)).ext[j]?
          = some a := by
        rw [d3]
        show (st.ext ++ l1)[j]? = some a
        rw [List.getElem?_append_left (Nat.lt_of_lt_of_le hj h.p_le)]; exact ha
      obtain ⟨i1, i2, l2, i3⟩ := ih _ p j a d1 hj ha' hts'
      refine ⟨i1, ?_, l1 ++ l2, ?_⟩
      · intro t' ht'
        apply i2 t'
        rw [d2]
        show (st.defeated.set t true).getD t' false = true ∨ t' ∈ ts
        rcases ht' with ht' | ht'
        · exact Or.inl (getD_set_true_mono _ _ _ ht')
        · rcases List.mem_cons.1 ht' with e | e
          · subst e
            have htN : t' < st.defeated.length := by
              rw [h.len_def]; exact hN t' (hv.wf a t' hat).2
            exact Or.inl (getD_set_eq _ _ _ _ htN)
          · exact Or.inr e
      · rw [i3, d3]
        show (st.ext ++ l1) ++ l2 = st.ext ++ (l1 ++ l2)
        simp

/-- the first `q` members of `ext` are fully processed: all their targets are marked -/
def Proc (g : G) (st : GrSt) (q : Nat) : Prop :=
  ∀ j a t, j < q → st.ext[j]? = some a → g.att a t → st.defeated.getD t false = true

theorem grLoop_inv (hv : v.Ok g) (hN : ∀ a, g.live a = true → a < N) :
    ∀ (fuel i : Nat) (st : GrSt), GrInv v g N st i [] → Proc g st i → N + 1 ≤ fuel + i →
      GrInv v g N (grLoop v fuel i st) (grLoop v fuel i st).ext.length [] ∧
      Proc g (grLoop v fuel i st) (grLoop v fuel i st).ext.length := by
  intro fuel
  induction fuel with
  | zero =>
    intro i st h _ hf
    have := h.ext_len_le hN
    have := h.p_le
    omega
  | succ fuel ih =>
    intro i st h hp hf
    unfold grLoop
    split
    · rename_i hnone
      have hlen : st.ext.length ≤ i := by simpa using hnone
      have : i = st.ext.length := by have := h.p_le; omega
      subst this
      exact ⟨h, hp⟩
    · rename_i a hsome
      have hi : i < st.ext.length := by
        apply Classical.byContradiction
        intro hn
        rw [List.getElem?_eq_none (by omega)] at hsome; cases hsome
      have h' := h.mono_p (Nat.le_succ i) hi
      have hts : ∀ t ∈ v.attFrom a, g.att a t := fun t ht => (hv.attFrom_mem a t).1 ht
      obtain ⟨i1, i2, l, i3⟩ := grDefeat_inv hv hN (v.attFrom a) st (i + 1) i a h' (Nat.lt_succ_self i)
        hsome hts
      apply ih (i + 1) _ i1 ?_ (by omega)
      intro j a' t hj ha' hat
      rw [i3, List.getElem?_append_left (by omega)] at ha'
      by_cases e : j = i
      · subst e
        rw [hsome] at ha'
        injection ha' with ha'
        subst ha'
        exact i2 t (Or.inr ((hv.attFrom_mem _ t).2 hat))
      · exact i2 t (Or.inl (hp j a' t (by omega) ha' hat))

/-! ## initial state -/

theorem ofList_true (l : List Nat) (a : Nat) : ofList l a = true ↔ a ∈ l := by simp [ofList]

theorem getD_map_range (f : Nat → Nat) (n d : Nat) (h : d < n) :
    ((List.range n).map f).getD d 0 = f d := by
  simp [List.getD_eq_getElem?_getD, h]

theorem getD_replicate_false (n t : Nat) : (List.replicate n false).getD t false = false := by
  simp [List.getD_eq_getElem?_getD, List.getElem?_replicate]
  split <;> simp

/-- the initial state of `groundedV` -/
def grInit (v : FwView) (m : Nat) : GrSt :=
  { ext := v.live.filter (fun a => (v.attTo a).length == 0)
    defeated := List.replicate (m + 1) false
    cnt := (List.range (m + 1)).map (fun a => if v.isLive a then (v.attTo a).length else 0) }

theorem gr_init (hv : v.Ok g) (m : Nat) (hN : ∀ a, g.live a = true → a < m + 1) :
    GrInv v g (m + 1) (grInit v m) 0 [] := by
  have hext : ∀ d, d ∈ (grInit v m).ext → ∀ b, ¬ g.att b d := by
    intro d hd b hb
    have hd' : d ∈ v.live.filter (fun a => (v.attTo a).length == 0) := hd
    have h0 := (List.mem_filter.1 hd').2
    have hb' := (hv.attTo_mem d b).2 hb
    have : v.attTo d = [] := by simpa using h0
    rw [this] at hb'; cases hb'
  refine ⟨?_, ?_, ?_, ?_, ?_, ?_, ?_, ?_, ?_, Nat.zero_le _⟩
  · exact List.Nodup.sublist List.filter_sublist hv.live_nodup
  · intro a ha
    have ha' : a ∈ v.live.filter (fun a => (v.attTo a).length == 0) := ha
    exact (hv.live_mem a).1 (List.mem_filter.1 ha').1
  · simp [grInit]
  · simp [grInit]
  · intro t ht
    have ht' : (List.replicate (m + 1) false).getD t false = true := ht
    rw [getD_replicate_false] at ht'; cases ht'
  · intro d hl hn
    have hn' : d ∉ v.live.filter (fun a => (v.attTo a).length == 0) := hn
    have hlen : (v.attTo d).length ≠ 0 := by
      intro e
      apply hn'
      exact List.mem_filter.2 ⟨(hv.live_mem d).2 hl, by simp [e]⟩
    have hc : (grInit v m).cnt.getD d 0 = (v.attTo d).length := by
      show ((List.range (m + 1)).map _).getD d 0 = _
      rw [getD_map_range _ _ _ (hN d hl), hv.isLive d, hl]
      simp
    have hu : und (grInit v m).defeated (v.attTo d) = (v.attTo d).length := und_replicate _ _
    rw [hc, hu]
    simp
    omega
  · intro d _
    simp
  · intro d hd b hb
    exact absurd hb (hext d hd b)
  · intro k d hk b hb
    exact absurd hb (hext d (List.mem_iff_getElem?.2 ⟨k, hk⟩) b)

/-! ## final state -/

theorem final_cf {st : GrSt} {p : Nat} (h : GrInv v g N st p []) :
    ∀ (n ka kd a d : Nat), ka + kd < n → st.ext[ka]? = some a → st.ext[kd]? = some d → ¬ g.att a d := by
  intro n
  induction n with
  | zero => intro ka kd a d hlt; omega
  | succ n ih =>
    intro ka kd a d hlt ha hd hatt
    obtain ⟨j, c, hj, hc, hca⟩ := h.ext_ord kd d hd a hatt
    exact ih j ka c a (by omega) hc ha hca

theorem final_sound {st : GrSt} {p : Nat} (h : GrInv v g N st p []) (T : ASet) (hT : g.Complete T) :
    ∀ (n k d : Nat), k < n → st.ext[k]? = some d → T d = true := by
  intro n
  induction n with
  | zero => intro k d hlt; omega
  | succ n ih =>
    intro k d hlt hd
    apply hT.2 d (h.ext_live d (List.mem_iff_getElem?.2 ⟨k, hd⟩))
    intro b hb
    obtain ⟨j, c, hj, hc, hcb⟩ := h.ext_ord k d hd b hb
    exact ⟨c, hcb, ih j c (by omega) hc⟩

theorem final_spec (hv : v.Ok g) {st : GrSt} (h : GrInv v g N st st.ext.length [])
    (hp : Proc g st st.ext.length) : g.Grounded (ofList st.ext) := by
  refine ⟨⟨⟨⟨?_, ?_⟩, ?_⟩, ?_⟩, ?_⟩
  · intro a ha
    exact h.ext_live a ((ofList_true _ _).1 ha)
  · intro d hd hatt
    obtain ⟨a, had, ha⟩ := hatt
    obtain ⟨ka, hka⟩ := List.mem_iff_getElem?.1 ((ofList_true _ _).1 ha)
    obtain ⟨kd, hkd⟩ := List.mem_iff_getElem?.1 ((ofList_true _ _).1 hd)
    exact final_cf h (ka + kd + 1) ka kd a d (by omega) hka hkd had
  · intro d hd b hb
    obtain ⟨kd, hkd⟩ := List.mem_iff_getElem?.1 ((ofList_true _ _).1 hd)
    obtain ⟨j, c, _, hc, hcb⟩ := h.ext_ord kd d hkd b hb
    exact ⟨c, hcb, (ofList_true _ _).2 (List.mem_iff_getElem?.2 ⟨j, hc⟩)⟩
  · intro d hl hdef
    apply Classical.byContradiction
    intro hnot
    have hn : d ∉ st.ext := fun hm => hnot ((ofList_true _ _).2 hm)
    obtain ⟨hc, h1⟩ := h.cnt_ok d hl hn
    have hu : 1 ≤ und st.defeated (v.attTo d) := by
      rw [List.count_nil, Nat.add_zero] at hc; omega
    obtain ⟨b, hb, hbu⟩ := und_pos hu
    obtain ⟨c, hcb, hc'⟩ := hdef b ((hv.attTo_mem d b).1 hb)
    obtain ⟨j, hj⟩ := List.mem_iff_getElem?.1 ((ofList_true _ _).1 hc')
    have hjl : j < st.ext.length := by
      apply Classical.byContradiction
      intro hn'
      rw [List.getElem?_eq_none (by omega)] at hj; cases hj
    have := hp j c b hjl hj hcb
    rw [hbu] at this; cases this
  · intro T hT a ha
    obtain ⟨k, hk⟩ := List.mem_iff_getElem?.1 ((ofList_true _ _).1 ha)
    exact final_sound h T hT (k + 1) k a (by omega) hk

/-- main theorem: for every view presenting a graph, the algorithm returns (the list of) the least
complete extension, without duplicates, made of live arguments -/
theorem groundedV_spec (v : FwView) (g : G) (h : v.Ok g) :
    g.Grounded (ofList (groundedV v)) ∧ (groundedV v).Nodup ∧ ∀ a ∈ groundedV v, g.live a = true := by
  cases hm : v.maxId with
  | none =>
    have hdead : ∀ a, ¬ g.live a = true := by
      intro a ha
      obtain ⟨m, hm', _⟩ := h.maxId_ge a ha
      rw [hm] at hm'; cases hm'
    have he : groundedV v = [] := by simp [groundedV, hm]
    rw [he]
    refine ⟨⟨⟨⟨⟨?_, ?_⟩, ?_⟩, ?_⟩, ?_⟩, by simp, by simp⟩
    · intro a ha; simp [ofList] at ha
    · intro a ha; simp [ofList] at ha
    · intro a ha; simp [ofList] at ha
    · intro a ha; exact absurd ha (hdead a)
    · intro T _ a ha; simp [ofList] at ha
  | some m =>
    have hN : ∀ a, g.live a = true → a < m + 1 := by
      intro a ha
      obtain ⟨m', hm', hle⟩ := h.maxId_ge a ha
      rw [hm] at hm'
      injection hm' with hm'
      omega
    have he : groundedV v = (grLoop v (m + 2) 0 (grInit v m)).ext := by
      simp [groundedV, hm, grInit]
    have hproc : Proc g (grInit v m) 0 := by
      intro j a t hj; omega
    obtain ⟨f1, f2⟩ := grLoop_inv h hN (m + 2) 0 (grInit v m) (gr_init h m hN) hproc (by omega)
    rw [he]
    exact ⟨final_spec h f1 f2, f1.ext_nodup, f1.ext_live⟩

/-! ## the two views -/

theorem AF.count_rows (atts : List (Nat × Nat)) (a b : Nat) :
    ((atts.filter (fun p => p.1 == a)).map (·.2)).count b
      = ((atts.filter (fun p => p.2 == b)).map (·.1)).count a := by
  induction atts with
  | nil => simp
  | cons p t ih =>
    obtain ⟨x, y⟩ := p
    simp only [List.filter_cons]
    by_cases hx : x = a <;> by_cases hy : y = b <;> simp [hx, hy, ih]

/-- the view of a well-formed compact framework presents its graph -/
theorem AF.view_ok (af : AF) (hwf : af.WF) : af.view.Ok af.g := by
  refine ⟨?_, ?_, ?_, ?_, ?_, ?_, ?_, ?_, ?_⟩
  · intro a b hab
    have := hwf (a, b) hab
    simpa [AF.g] using this
  · intro a ha
    have ha' : a < af.n := by simpa [AF.g] using ha
    refine ⟨af.n - 1, ?_, by omega⟩
    have : af.n ≠ 0 := by omega
    simp [AF.view, this]
  · intro a; rfl
  · intro a
    simp [AF.view, AF.g]
  · exact List.nodup_range
  · intro a b
    simp [AF.view, AF.g, AF.attackedOf]
  · intro a b
    simp [AF.view, AF.g, AF.attackers]
  · intro a b
    exact AF.count_rows af.atts a b
  · intro a b; rfl

theorem Store.mem_liveArgs (s : Store) (a : Nat) : a ∈ s.liveArgs.map (·.1) ↔ s.hasId a = true := by
  unfold Store.liveArgs Store.hasId
  simp only [List.mem_map, List.mem_filterMap]
  constructor
  · rintro ⟨⟨i, l⟩, ⟨⟨x, k⟩, hm, hx⟩, rfl⟩
    have := List.mem_zipIdx_iff_getElem?.1 hm
    cases x with
    | none => simp at hx
    | some l' =>
      simp at hx
      obtain ⟨rfl, rfl⟩ := hx
      simp at this
      simp [List.getD_eq_getElem?_getD, this]
  · intro h
    cases hl : s.labels.getD a none with
    | none => rw [hl] at h; cases h
    | some l =>
      refine ⟨(a, l), ⟨(some l, a), ?_, by simp⟩, rfl⟩
      apply List.mem_zipIdx_iff_getElem?.2
      simp only
      rw [List.getD_eq_getElem?_getD] at hl
      cases hg : s.labels[a]? with
      | none => rw [hg] at hl; cases hl
      | some x => rw [hg] at hl; simp at hl; rw [hl]

theorem Store.liveArgs_nodup (s : Store) : (s.liveArgs.map (·.1)).Nodup := by
  unfold Store.liveArgs
  rw [List.map_filterMap]
  have h1 : (s.labels.zipIdx.map Prod.snd).Nodup := by
    rw [List.zipIdx_map_snd]; exact List.nodup_range' 1
  have h2 : List.Pairwise (fun p q : Option Nat × Nat => p.2 ≠ q.2) s.labels.zipIdx :=
    List.pairwise_map.1 h1
  refine List.Pairwise.filterMap _ ?_ h2
  intro p q hpq b hb b' hb'
  obtain ⟨x, i⟩ := p
  obtain ⟨y, j⟩ := q
  cases x <;> cases y <;> simp at hb hb'
  subst hb; subst hb'
  exact hpq

theorem Store.iterFrom_nodup {s : Store} (hinv : s.Inv) (hr : s.RowsNodup) (a : Nat) :
    ((s.iterFrom a).map (·.2)).Nodup := by
  unfold Store.iterFrom
  rw [List.map_filterMap]
  refine List.Pairwise.filterMap _ ?_ (List.Pairwise.and_mem.1 (hr.from_nodup a))
  intro i j hij b hb b' hb' e
  subst e
  obtain ⟨hi, hj, hne⟩ := hij
  apply hne
  rcases (hinv.from_ok a i hi).2 with h | ⟨x, h⟩
  · rw [h] at hb; cases hb
  · rcases (hinv.from_ok a j hj).2 with h' | ⟨y, h'⟩
    · rw [h'] at hb'; cases hb'
    · rw [h] at hb; rw [h'] at hb'
      simp at hb hb'
      rw [hb] at h; rw [hb'] at h'
      exact hinv.att_nodup i j a b h h'

theorem Store.iterTo_nodup {s : Store} (hinv : s.Inv) (hr : s.RowsNodup) (b : Nat) :
    ((s.iterTo b).map (·.1)).Nodup := by
  unfold Store.iterTo
  rw [List.map_filterMap]
  refine List.Pairwise.filterMap _ ?_ (List.Pairwise.and_mem.1 (hr.to_nodup b))
  intro i j hij c hc c' hc' e
  subst e
  obtain ⟨hi, hj, hne⟩ := hij
  apply hne
  rcases (hinv.to_ok b i hi).2 with h | ⟨x, h⟩
  · rw [h] at hc; cases hc
  · rcases (hinv.to_ok b j hj).2 with h' | ⟨y, h'⟩
    · rw [h'] at hc'; cases hc'
    · rw [h] at hc; rw [h'] at hc'
      simp at hc hc'
      rw [hc] at h; rw [hc'] at h'
      exact hinv.att_nodup i j c b h h'

theorem Store.mem_attFrom {s : Store} (hinv : s.Inv) (a b : Nat) :
    b ∈ (s.iterFrom a).map (·.2) ↔ s.HasAtt a b := by
  simp only [List.mem_map]
  constructor
  · rintro ⟨p, hp, rfl⟩
    obtain ⟨h1, h2⟩ := (Store.mem_iterFrom hinv a p).1 hp
    rw [h1] at h2; exact h2
  · intro h
    exact ⟨(a, b), (Store.mem_iterFrom hinv a (a, b)).2 ⟨rfl, h⟩, rfl⟩

theorem Store.mem_attTo {s : Store} (hinv : s.Inv) (a b : Nat) :
    b ∈ (s.iterTo a).map (·.1) ↔ s.HasAtt b a := by
  simp only [List.mem_map]
  constructor
  · rintro ⟨p, hp, rfl⟩
    obtain ⟨h1, h2⟩ := (Store.mem_iterTo hinv a p).1 hp
    rw [h1] at h2; exact h2
  · intro h
    exact ⟨(b, a), (Store.mem_iterTo hinv a (b, a)).2 ⟨rfl, h⟩, rfl⟩

/-- the view of a store satisfying its invariant, whose rows hold no duplicate, presents its graph
(`Store.Inv` alone is not enough: see `Crusta/Proofs/StoreRows.lean`) -/
theorem Store.view_ok (st : Store) (hinv : st.Inv) (hrows : st.RowsNodup) : st.view.Ok st.g := by
  refine ⟨Store.g_wf hinv, ?_, ?_, ?_, ?_, ?_, ?_, ?_, ?_⟩
  · intro a ha
    obtain ⟨l, hl⟩ := Store.hasId_iff.1 ha
    have hlt := Store.live_lt hl
    refine ⟨st.labels.length - 1, ?_, by omega⟩
    have : st.labels ≠ [] := by
      intro e; rw [e] at hlt; simp at hlt
    simp [Store.view, Store.maxId, this]
  · intro a; rfl
  · exact Store.mem_liveArgs st
  · exact Store.liveArgs_nodup st
  · exact Store.mem_attFrom hinv
  · exact Store.mem_attTo hinv
  · intro a b
    show ((st.iterFrom a).map (·.2)).count b = ((st.iterTo b).map (·.1)).count a
    rw [(Store.iterFrom_nodup hinv hrows a).count, (Store.iterTo_nodup hinv hrows b).count]
    have h1 := Store.mem_attFrom hinv a b
    have h2 := Store.mem_attTo hinv b a
    by_cases h : st.HasAtt a b
    · rw [if_pos (h1.2 h), if_pos (h2.2 h)]
    · rw [if_neg (fun hm => h (h1.1 hm)), if_neg (fun hm => h (h2.1 hm))]
  · intro a b
    exact Store.mem_iterAttacks a b

end Crusta
