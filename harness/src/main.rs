//! vh — verification harness: runs the real crustabri code on case files, one canonical line per
//! observable event. Usage: `vh <casefile>` (or stdin). Case lines: `<family> <id> k=v k=v ...`.
mod dynf;
mod enc;
mod equiv;
mod fw;
mod io;
mod multi;
mod rec;
mod sat;
mod solve;
mod store;
mod util;

use std::io::{BufRead, Write};

fn main() {
    std::panic::set_hook(Box::new(|_| {}));
    let args: Vec<String> = std::env::args().collect();
    let input: Box<dyn BufRead> = if args.len() > 1 && args[1] != "-" {
        Box::new(std::io::BufReader::new(std::fs::File::open(&args[1]).expect("open case file")))
    } else {
        Box::new(std::io::BufReader::new(std::io::stdin()))
    };
    let stdout = std::io::stdout();
    let mut w = std::io::BufWriter::new(stdout.lock());
    for line in input.lines() {
        let line = line.unwrap();
        let toks: Vec<&str> = line.split(' ').filter(|t| !t.is_empty()).collect();
        if toks.is_empty() || toks[0].starts_with('#') {
            continue;
        }
        let family = toks[0];
        let id = toks[1];
        let p = util::kv(&toks[2..]);
        let mut out = Vec::new();
        out.push(format!("case {} {}", id, family));
        out.push(format!("in {}", line));
        match family {
            "solve" => solve::run(id, &p, &mut out),
            "store" => store::run(id, &p, &mut out),
            "enc" => enc::run(id, &p, &mut out),
            "multi" => multi::run(id, &p, &mut out),
            "equiv" => equiv::run(id, &p, &mut out),
            "dyn" => dynf::run(id, &p, &mut out),
            "sat" => sat::run(id, &p, &mut out),
            "read" => io::run_read(id, &p, &mut out),
            "write" => io::run_write(id, &p, &mut out),
            _ => {
                out.push(format!("panic unknown family {}", family));
                out.push("end".to_string());
            }
        }
        for l in out {
            writeln!(w, "{}", l).unwrap();
        }
    }
    w.flush().unwrap();
}
