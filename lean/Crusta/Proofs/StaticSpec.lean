import Crusta.Proofs.GSem2
import Crusta.Model.Solvers

/-!
# What the entry points of the static solvers must return (statements only)

For a semantics `σ` and the graph `g` presented by the view: `SEOK` (one extension or none),
`DCOK` / `DSOK` (credulous / skeptical acceptance of a list of arguments read as a disjunction,
with the certificate obligations of the `_with_certificate` variants), `EntryOK` for an `Ans`.
-/

namespace Crusta

def Sem.GExt : Sem → G → ASet → Prop
  | .GR => G.Grounded
  | .CO => G.Complete
  | .PR => G.Preferred
  | .ST => G.Stable
  | .SST => G.SemiStable
  | .STG => G.Stage
  | .ID => G.Ideal

def SolverKind.sem : SolverKind → Sem
  | .GR => .GR | .CO => .CO | .PR => .PR | .ST => .ST | .SST => .SST | .STG => .STG | .ID => .ID

/-- some queried argument is in the set -/
def HitsL (args : List Nat) (S : ASet) : Prop := ∃ a ∈ args, S a = true

def SEOK (σ : Sem) (g : G) (res : Option (List Nat)) : Prop :=
  (∀ e, res = some e → σ.GExt g (ofList e)) ∧ (res = none → ¬ ∃ S, σ.GExt g S)

def DCOK (σ : Sem) (g : G) (args : List Nat) (cert : Bool) (a : AccAns) : Prop :=
  (a.status = true → (∃ S, σ.GExt g S ∧ HitsL args S) ∧
    (cert = true → ∃ e, a.cert = some e ∧ σ.GExt g (ofList e) ∧ HitsL args (ofList e))) ∧
  (a.status = false → (¬ ∃ S, σ.GExt g S ∧ HitsL args S) ∧ (cert = true → a.cert = none))

def DSOK (σ : Sem) (g : G) (args : List Nat) (cert : Bool) (a : AccAns) : Prop :=
  (a.status = true → (∀ S, σ.GExt g S → HitsL args S) ∧ (cert = true → a.cert = none)) ∧
  (a.status = false → (∃ S, σ.GExt g S ∧ ¬ HitsL args S) ∧
    (cert = true → ∃ e, a.cert = some e ∧ σ.GExt g (ofList e) ∧ ¬ HitsL args (ofList e)))

/-- the arguments a query is about -/
def Entry.argsList : Entry → List Nat
  | .se => []
  | .dc _ args => args
  | .ds _ args => args

/-- the answer of an entry point is what the semantics dictate -/
def EntryOK (σ : Sem) (g : G) : Entry → Ans → Prop
  | .se, .ext res => SEOK σ g res
  | .dc cert args, .acc a cv => cv = cert ∧ DCOK σ g args cert a ∧ (cert = false → a.cert = none)
  | .ds cert args, .acc a cv => cv = cert ∧ DSOK σ g args cert a ∧ (cert = false → a.cert = none)
  | _, _ => False

end Crusta
