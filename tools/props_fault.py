"""C17 (fault injection), C18 (SAT-call bounds), C06 (configuration / history independence)."""
import os
import stat
import subprocess
import tempfile

import common
import engine
import gen
from engine import Finding
from props_solve import SolveProperty, SOLVERS, kv, trace_diff, parse_fw_line, comps_of


class C17(SolveProperty):
    id = "C17"
    families = ["solve", "dyn"]
    tasks = ["SE", "DC", "DS"]
    certs = [0, 1]
    needs_bins = True
    rule = ("for every generated (framework, solver, encoder, query): a counting run (k SAT calls), then one run per call position 1..min(k,cap) in which the "
            "recording factory's solver returns Unknown at that call; the real call must unwind without an answer at the same call at which the Lean "
            "program aborts; the same for update/query histories of the six dynamic solvers and the recompute wrappers (the i-th SAT call of the history "
            "reports Unknown: the query in progress must unwind, and the run is compared with the Lean dynamic-solver models up to the abort); plus end-to-end runs of the crustabri binary with a scripted external solver failing in 13 ways (exit without output, truncated model, garbage, status without model, empty value line, `s UNKNOWN` / `s INDETERMINATE` and six near misses of the verdict lines) at its i-th invocation; "
            "non-trivial = the fault position was reached")
    assumptions = ["panics are observed through catch_unwind in the harness; the CLI maps them to a non-zero exit status"]

    def cases(self, tier, rng):
        base = []
        nfw = 120 if tier == "quick" else 6000
        combos = self.combos()
        for _ in range(nfw):
            n, atts = gen.random_framework(rng, 7)
            if n == 0:
                continue
            spec, labels = gen.spec_of(rng, n, atts)
            for (sem, enc, task) in rng.sample(combos, 4):
                if sem == "GR":
                    continue
                cert = rng.choice([0, 1])
                args = [rng.choice(labels)]
                if task == "SE":
                    base.append("solve x fw=%s sem=%s enc=%s task=SE" % (spec, sem, enc))
                else:
                    base.append("solve x fw=%s sem=%s enc=%s task=%s cert=%d args=%s" % (spec, sem, enc, task, cert, args[0]))
        base = engine.renumber(base, "b")
        r = common.Runner("C17pre", tier)
        try:
            _, impl = r.harness([b + " trace=0" for b in base])
        finally:
            r.cleanup()
        cap = 6 if tier == "quick" else 40
        out = []
        for b in base:
            lines = impl.get(b.split(" ")[1], [])
            calls = [int(l.split(" ")[1]) for l in lines if l.startswith("calls ")]
            k = calls[0] if calls else 0
            positions = list(range(1, k + 1))
            if len(positions) > cap:
                positions = sorted(rng.sample(positions, cap))
            for i in positions:
                out.append(b + " fault=%d" % i)
        return out + self.dyn_cases(tier, rng)

    def dyn_cases(self, tier, rng):
        """update/query histories of the dynamic solvers in which the i-th SAT call of the history reports Unknown"""
        import props_dyn
        per = 14 if tier == "quick" else 500
        base = []
        for kind in props_dyn.KINDS:
            for _ in range(per if not kind.startswith("dummy") else max(2, per // 4)):
                toks = props_dyn.gen_history(rng, kind, rng.randint(5, 30))
                if rng.random() < 0.3:
                    toks = props_dyn.gadget_prefix(rng, kind) + toks
                f = " factor=%s" % rng.choice(props_dyn.FACTORS) if kind.endswith("_att") else ""
                base.append("dyn x kind=%s%s trace=1 hist=%s" % (kind, f, ";".join(toks)))
        base = engine.renumber(base, "d")
        r = common.Runner("C17pre", tier)
        try:
            _, impl = r.harness(base)
        finally:
            r.cleanup()
        cap = 5 if tier == "quick" else 30
        out = []
        for b in base:
            lines = impl.get(b.split(" ")[1], [])
            k = len([l for l in lines if l.startswith("S ") and l.split(" ")[2:3] == ["q"]])
            positions = list(range(1, k + 1))
            if len(positions) > cap:
                positions = sorted(rng.sample(positions, cap))
            for i in positions:
                out.append(b + " fault=%d" % i)
        return out

    def judge_dyn(self, case_line, impl, model):
        import props_dyn
        fs = []
        p = kv(case_line)
        kind = p.get("kind")
        fired = False
        query = None
        for l in impl:
            if l.startswith("Q "):
                query = l
            if l.startswith("S ") and l.endswith(" k"):
                fired = True
                continue
            if fired and (l.startswith("ans ") or l.startswith("U ")):
                fs.append(Finding("input", case_line, "dynamic solver %s: %r was answered (%s) although the backend reported Unknown at SAT call %s of the history"
                                  % (kind, query, l[:60], p.get("fault")), "dyn %s · answer after Unknown" % kind,
                                  {"impl": [x for x in impl if not x.startswith("S ")][-6:]}))
                return fs
            if fired and l.startswith("panic"):
                break
        if not fired:
            return fs
        if not any(l.startswith("panic") for l in impl):
            fs.append(Finding("input", case_line, "neither an answer nor an abort was observed", "dyn %s · no abort" % kind))
            return fs
        if kind in props_dyn.MODELLED:
            a = props_dyn.impl_stream(impl)
            b, stopped = props_dyn.model_stream(model)
            if stopped:
                a = a[:len(b)]
            if a != b:
                i = 0
                while i < min(len(a), len(b)) and a[i] == b[i]:
                    i += 1
                fs.append(Finding("correspondence", case_line,
                                  "faulted history: the dynamic solver and its Lean model differ at event %d: impl %r model %r" % (i, a[i] if i < len(a) else None, b[i] if i < len(b) else None),
                                  "dyn %s · faulted run differs from model" % kind, {"impl": a[max(0, i - 3):i + 3], "model": b[max(0, i - 3):i + 3]}))
        return fs

    def judge(self, case_line, impl, model):
        if case_line.startswith("dyn "):
            return self.judge_dyn(case_line, impl, model)
        fs = []
        p = kv(case_line)
        fired = any(l.startswith("S ") and l.endswith(" k") for l in impl)
        if not fired:
            return fs
        entry = "%s/%s/cert=%s" % (p.get("sem"), p.get("task"), p.get("cert", "0"))
        if any(l.startswith("ans ") for l in impl):
            fs.append(Finding("input", case_line, "an answer was produced although the backend reported Unknown at call %s" % p.get("fault"),
                              entry + " · answer after Unknown", {"impl": [l for l in impl if not l.startswith("S ")][:8]}))
            return fs
        if not any(l.startswith("panic") for l in impl):
            fs.append(Finding("input", case_line, "neither an answer nor an abort was observed", entry + " · no abort"))
            return fs
        d = trace_diff(impl, model)
        if d is not None:
            fs.append(Finding("correspondence", case_line, "faulted run differs from the Lean program's aborted run", entry + " · trace differs from model", d))
        return fs

    def nontrivial(self, case_line):
        return "fault=" in case_line

    def shrink_candidates(self, case_line):
        return []

    # ---- end-to-end part -------------------------------------------------------------------
    def extra(self, ctx):
        tier = ctx["tier"]
        runner = ctx["runner"]
        findings = []
        binp = os.path.join(common.REPO_TARGET, "release", "crustabri")
        fake = os.path.join(common.VERIF, "tools", "fakesolver.py")
        kinds = ["exit", "truncated", "garbage", "status-only", "empty-v",
                 # what real solvers print when they give up, and near misses of the two verdict lines
                 "status:s_UNKNOWN", "status:s_INDETERMINATE", "status:s_UNSAT", "status:s_unsatisfiable", "status:s_SATISFIABLE_", "status:s__UNSATISFIABLE",
                 "status:S_UNSATISFIABLE", "status:s_UNSATISFIABLE_(time_limit)"]
        n_runs = 0
        reached = 0
        inst = os.path.join(runner.dir, "inst.af")
        # 1<->2, 2->3, 3->4, 4->3 : several SAT calls for PR/SST
        open(inst, "w").write("p af 5\n1 2\n2 1\n2 3\n3 4\n4 3\n4 5\n")
        problems = [("DS-PR", "3"), ("DC-CO", "3"), ("SE-ST", None), ("DC-SST", "4"), ("SE-ID", None)]
        for (prob, arg) in problems:
            for kind in kinds:
                for at in ([1, 2] if tier == "quick" else [1, 2, 3, 4]):
                    state = os.path.join(runner.dir, "fake_state_%d" % n_runs)
                    env = dict(os.environ, FAKE_STATE=state, FAKE_FAIL_AT=str(at), FAKE_KIND=kind)
                    cmd = [binp, "solve", "-f", inst, "-p", prob, "--external-sat-solver", fake, "--logging-level", "off"]
                    if arg:
                        cmd += ["-a", arg]
                    try:
                        pr = subprocess.run(cmd, env=env, stdout=subprocess.PIPE, stderr=subprocess.PIPE, text=True, timeout=60)
                    except subprocess.TimeoutExpired:
                        findings.append(Finding("input", None, "crustabri hung with a failing external solver (%s at call %d, %s)" % (kind, at, prob),
                                                "cli/%s · hang with failing backend %s" % (prob, kind), {"cmd": cmd}))
                        continue
                    n_runs += 1
                    ncalls = int(open(state).read() or "0") if os.path.exists(state) else 0
                    if ncalls < at:
                        continue  # the failing call was never reached
                    reached += 1
                    answered = any(l.strip() in ("YES", "NO") or l.startswith("w") or l.startswith("[") for l in pr.stdout.splitlines())
                    if pr.returncode == 0 or answered:
                        findings.append(Finding("input", None,
                                                "backend failure (%s at SAT call %d) was converted into an answer: exit=%d stdout=%r" % (kind, at, pr.returncode, pr.stdout[:80]),
                                                "cli/%s · answer after backend failure kind=%s" % (prob, kind),
                                                {"cmd": " ".join(cmd), "env": {"FAKE_FAIL_AT": at, "FAKE_KIND": kind}, "stdout": pr.stdout[:200], "exit": pr.returncode}))
        # the external program cannot be started at all (missing file, not executable)
        notexec = os.path.join(runner.dir, "not_executable")
        open(notexec, "w").write("#!/bin/sh\necho s SATISFIABLE\n")
        os.chmod(notexec, 0o644)
        for (prob, arg) in problems:
            for bad in (os.path.join(runner.dir, "no_such_solver"), notexec):
                cmd = [binp, "solve", "-f", inst, "-p", prob, "--external-sat-solver", bad, "--logging-level", "off"]
                if arg:
                    cmd += ["-a", arg]
                try:
                    pr = subprocess.run(cmd, stdout=subprocess.PIPE, stderr=subprocess.PIPE, text=True, timeout=60)
                except subprocess.TimeoutExpired:
                    findings.append(Finding("input", None, "crustabri hung with an external solver that cannot be started (%s)" % prob, "cli/%s · hang with unstartable backend" % prob, {"cmd": cmd}))
                    continue
                n_runs += 1
                answered = any(l.strip() in ("YES", "NO") or l.startswith("w") or l.startswith("[") for l in pr.stdout.splitlines())
                if pr.returncode == 0 or answered:
                    findings.append(Finding("input", None, "an external solver that cannot be started was converted into an answer: exit=%d stdout=%r" % (pr.returncode, pr.stdout[:80]),
                                            "cli/%s · answer although the backend cannot be started" % prob, {"cmd": " ".join(cmd), "stdout": pr.stdout[:200], "exit": pr.returncode}))
        return findings, {"cli_fault_runs": n_runs, "cli_fault_runs_reached": reached, "cli_failure_kinds": kinds + ["missing program", "not executable"]}


class C18(SolveProperty):
    id = "C18"
    tasks = ["SE", "DC", "DS"]
    certs = [0, 1]
    max_n = 7
    rule = ("random and structured frameworks up to 7 arguments (mostly connected), all solver/encoder configurations and entry points; the counting factory's "
            "number of solve calls is compared with the Lean program's on the same replies and with the bound computed from the reference counts of the "
            "base semantics per component (PR <= |base|+|PR|+1, ID <= 2|base|+|PR|+2, SST/STG <= (n+2)|base|+3, CO/ST <= 2); within one preferred- or ideal-semantics query no solver object "
            "returns the same model twice (no candidate set examined twice); runs are cut at 20000 calls, "
            "which is how a non-terminating change is reported instead of hanging the check")
    assumptions = SolveProperty.assumptions + ["bounds are evaluated per component and summed over the components a query may touch"]

    families = ["solve", "dyn"]
    dyn_bound_slack = 0

    def cases(self, tier, rng):
        lines = super().cases(tier, rng)
        return [l + " cap=20000" for l in lines if " sem=GR " not in l] + self.dyn_cases(tier, rng)

    def dyn_cases(self, tier, rng):
        """the dynamic preferred solver (the only dynamic solver with a search loop): SAT calls of every skeptical query of an update/query
        history, counted and compared with the bound of the static procedure on the framework as it stands (taken as one component)"""
        import props_dyn
        out = []
        for kind, k in (("pr", 160 if tier == "quick" else 8000), ("co", 20 if tier == "quick" else 500), ("st", 20 if tier == "quick" else 500)):
            for _ in range(k):
                toks = props_dyn.gen_history(rng, kind, rng.randint(5, 40))
                if rng.random() < 0.4:
                    toks = props_dyn.gadget_prefix(rng, kind) + toks
                out.append("dyn x kind=%s trace=1 cap=20000 hist=%s" % (kind, ";".join(toks)))
        return out

    @staticmethod
    def repeated_model(lines):
        """(solver index, model) if one solver object returned the same model twice in `lines` (one query): in the preferred
        searches every model is either extended (the next one is strictly larger) or excluded by a blocking clause"""
        seen = set()
        for l in lines:
            if l.startswith("S "):
                t = l.split(" ")
                if len(t) >= 4 and t[2] == "s":
                    key = (t[1], t[3])
                    if key in seen:
                        return key
                    seen.add(key)
        return None

    def judge_dyn(self, case_line, impl, model):
        fs = []
        kind = kv(case_line).get("kind")
        if kind == "pr":
            seg = []
            for l in impl:
                if l.startswith("Q "):
                    seg = []
                seg.append(l)
                if l.startswith("ans ") or l.startswith("panic"):
                    dup = self.repeated_model(seg)
                    if dup:
                        fs.append(Finding("input", case_line, "a candidate set was examined twice: the SAT solver returned the same model twice within one skeptical query of the dynamic preferred solver",
                                          "dyn pr · candidate examined twice", {"model": dup[1][:80]}))
                        return fs
                    seg = []
        counts = {}
        for l in model:
            if l.startswith("counts "):
                t = l.split(" ")
                counts[int(t[1])] = tuple(int(x) for x in t[2].split(","))
        if any("CALLCAP" in l for l in impl):
            fs.append(Finding("input", case_line, "more than 20000 SAT calls in a history: a query does not terminate within any reasonable bound", "dyn %s · call cap exceeded" % kind))
            return fs
        qi = 0
        calls = 0
        cur = None
        for l in impl:
            if l.startswith("Q "):
                qi += 1
                calls = 0
                cur = l
            elif l.startswith("S ") and l.split(" ")[2:3] == ["q"]:
                calls += 1
            elif (l.startswith("ans ") or l.startswith("panic")) and cur is not None:
                if qi in counts:
                    cf, adm, co, pr, n = counts[qi]
                    b = (co + pr + 1 if kind == "pr" else 2) + self.dyn_bound_slack
                    if calls > b:
                        fs.append(Finding("input", case_line, "dynamic %s solver: query %d (%s) made %d SAT calls, bound %d (|CO|=%d |PR|=%d)" % (kind, qi, cur, calls, b, co, pr),
                                          "dyn %s · bound exceeded" % kind, {"calls": calls, "bound": b, "counts(cf,adm,co,pr,n)": counts[qi]}))
                        return fs
                cur = None
        return fs

    def nontrivial(self, case_line):
        return SolveProperty.nontrivial(self, case_line) if not case_line.startswith("dyn ") else "?ds" in case_line

    def bound(self, p, counts):
        sem, enc, task = p.get("sem"), p.get("enc"), p.get("task")
        tot = 0
        for (cf, adm, co, pr, n) in counts:
            if sem in ("CO", "ST"):
                b = 2
            elif sem == "PR":
                base = adm if enc == "aux_adm" else co
                b = base + pr + 1
            elif sem == "ID":
                b = 2 * co + pr + 2
            elif sem == "SST":
                b = (n + 2) * co + 3
            elif sem == "STG":
                b = (n + 2) * cf + 3
            else:
                b = 0
            tot += b
        return tot

    def judge(self, case_line, impl, model):
        if case_line.startswith("dyn "):
            return self.judge_dyn(case_line, impl, model)
        fs = super().judge(case_line, impl, model)
        p = kv(case_line)
        entry = "%s/%s/cert=%s" % (p.get("sem"), p.get("task"), p.get("cert", "0"))
        calls = [int(l.split(" ")[1]) for l in impl if l.startswith("calls ")]
        cl = [l for l in model if l.startswith("counts ")]
        if any("CALLCAP" in l for l in impl):
            fs.append(Finding("input", case_line, "more than 20000 SAT calls: the query does not terminate within any reasonable bound", entry + " · call cap exceeded"))
            return fs
        if p.get("sem") in ("PR", "ID"):
            dup = self.repeated_model(impl)
            if dup:
                fs.append(Finding("input", case_line, "a candidate set was examined twice: SAT solver %s returned the same model twice within one preferred / ideal query" % dup[0],
                                  entry + " · candidate examined twice", {"model": dup[1][:80]}))
        if calls and cl:
            counts = [tuple(int(x) for x in c.split(",")) for c in cl[0][7:].split(";") if c]
            b = self.bound(p, counts)
            if calls[0] > b:
                fs.append(Finding("input", case_line, "%d SAT calls exceed the bound %d" % (calls[0], b), entry + " · bound exceeded",
                                  {"calls": calls[0], "bound": b, "component_counts(cf,adm,co,pr,n)": counts}))
        return fs

    def stats(self, cases, impl, model):
        st = super().stats(cases, impl, model)
        worst = 0.0
        tot = 0
        for c in cases:
            cid = c.split(" ")[1]
            calls = [int(l.split(" ")[1]) for l in impl.get(cid, []) if l.startswith("calls ")]
            cl = [l for l in model.get(cid, []) if l.startswith("counts ")]
            if calls and cl:
                counts = [tuple(int(x) for x in cc.split(",")) for cc in cl[0][7:].split(";") if cc]
                b = self.bound(kv(c), counts)
                if b:
                    worst = max(worst, calls[0] / b)
                tot += calls[0]
        st["worst_calls_over_bound"] = round(worst, 3)
        st["total_sat_calls"] = tot
        return st


KISSAT = "/usr/local/bin/kissat|-q"


class C06(SolveProperty):
    id = "C06"
    tasks = ["DC", "DS", "SE"]
    certs = [0, 1]
    rule = ("(a) sequences of 2-5 queries (random order, repetitions, mixed SE/DC/DS, with and without certificate) on ONE solver object, every answer judged "
            "by the reference deciders and the SAT trace compared with the Lean programs run back to back; (b) the same queries through ExternalSatSolver "
            "driving kissat; (c) all encodings x certificate flag; the framework is dumped before and after the queries; (d) the command line: each (framework, problem, argument) "
            "run under --encoding {default, aux_var, exp, hybrid} x {embedded, kissat through --external-sat-solver} x {with, without -c}: same status in all 16 runs, every "
            "printed answer judged; non-trivial = framework with an attack")
    assumptions = SolveProperty.assumptions + ["kissat (external backend) assumed sound and complete; its replies cross-checked against the reference statuses"]
    needs_bins = True

    def extra(self, ctx):
        import random
        import props_cli
        return props_cli.C05().config_matrix(ctx, random.Random(ctx["seed"] + 6))

    def cases(self, tier, rng):
        lines = []
        nfw = 350 if tier == "quick" else 15000
        for _ in range(nfw):
            n, atts = gen.random_framework(rng, 7)
            if n == 0:
                continue
            spec, labels = gen.spec_of(rng, n, atts)
            for sem in rng.sample(list(SOLVERS), 3):
                encs, tasks = SOLVERS[sem]
                enc = rng.choice(encs)
                qs = []
                for _ in range(rng.randint(2, 5)):
                    t = rng.choice(tasks)
                    c = rng.choice([0, 1])
                    a = rng.choice(labels)
                    qs.append((t, c, a))
                if rng.random() < 0.4:
                    qs.append(qs[0])
                first = qs[0]
                more = "/".join("%s:%d:%s" % (t, c, a if t != "SE" else "-") for (t, c, a) in qs[1:])
                head = "solve x fw=%s sem=%s enc=%s task=%s cert=%d args=%s more=%s" % (
                    spec, sem, enc, first[0], first[1], first[2] if first[0] != "SE" else "-", more)
                lines.append(head)
                if sem != "GR" and rng.random() < (0.25 if tier == "quick" else 0.5):
                    lines.append(head + " backend=%s ext=1" % KISSAT)
        return lines

    def judge(self, case_line, impl, model):
        save = self.check_trace
        if " ext=1" in case_line:
            self.check_trace = False
        try:
            fs = super().judge(case_line, impl, model)
        finally:
            self.check_trace = save
        if " ext=1" in case_line:
            for f in fs:
                f.signature = "external-backend " + f.signature
        return fs

    def shrink_candidates(self, case_line):
        toks = case_line.split(" ")
        out = []
        for ti, t in enumerate(toks):
            if t.startswith("more="):
                qs = [q for q in t[5:].split("/") if q]
                for i in range(len(qs)):
                    rest = qs[:i] + qs[i + 1:]
                    out.append(" ".join(toks[:ti] + (["more=" + "/".join(rest)] if rest else []) + toks[ti + 1:]))
        return out + super().shrink_candidates(case_line)[:30]
