import Crusta.Proofs.SolvePR

/-!
# C18 on the `Prog` models: termination and SAT-call bounds of the searches on one component

For **sound** replies, `wp False p w (fun _ w' => w'.calls ≤ w.calls + k)` says: the program `p`
reaches no `crash` node (in particular the fuel of its loops never runs out: with the stated fuel
the model loops exactly as long as the fuel-less Rust loop) and makes at most `k` SAT calls
(`calls_of_wp` restates this on `interp`).

Counting: ghost lists `seen` (the sets that have been the current set of the computer: the grounded
extension and the SAT replies) and `found` (the preferred extensions certified by an UNSAT reply).
Every SAT reply is a complete set not included in any blocked set and all earlier sets are blocked,
so `seen` is duplicate-free (as sets) and injects into the exact enumeration `extsCO`; likewise
`found` into `extsPR`.

This file: the generic tools and the preferred semantics (`prMaximalOfComp_calls`,
`prSkeptInCc_calls`).  The ideal semantics is in `SolveCallsID.lean`, the range-based semantics in
`SolveCallsRG.lean` (two files because `SolveIDAux` and `SolveRGAux` declare the same names, so no
module can import both).
-/

namespace Crusta
open Prog (mkSolver doReserve addClause addClauses getNVars doSolve)

/-! ## generic: conjunction rule of the calculus, counting lemma -/

/-- what `wp False … (calls bound)` means for the runs: on sound replies no crash, and a run that
returns has made at most `k` calls -/
theorem calls_of_wp {α : Type} (p : Prog α) (w : World) (k : Nat)
    (h : wp False p w (fun _ w' => w'.calls ≤ w.calls + k)) (rs : List Reply) (hs : RunSound p rs w) :
    (∀ msg w', interp p rs w ≠ (.crashed msg, w')) ∧
    ∀ a w', interp p rs w = (.done a, w') → w'.calls ≤ w.calls + k :=
  ⟨wp_no_crash p rs w _ h hs, fun a w' hi => wp_sound p rs w w' a _ h hs hi⟩

/-- lists that are pairwise different as sets -/
def DistinctS (l : List (List Nat)) : Prop := l.Pairwise (fun a b => ofList a ≠ ofList b)

/-- a duplicate-free (as sets) list whose members all occur (as sets) in `L` is no longer than `L` -/
theorem length_le_of_distinct : ∀ (seen L : List (List Nat)), DistinctS seen →
    (∀ e ∈ seen, ∃ l ∈ L, ofList l = ofList e) → seen.length ≤ L.length
  | [], _, _, _ => Nat.zero_le _
  | e :: t, L, hd, hm => by
    obtain ⟨l, hl, hle⟩ := hm e (by simp)
    have hd' := List.pairwise_cons.1 hd
    have ih := length_le_of_distinct t (L.erase l) hd'.2 (by
      intro e' he'
      obtain ⟨l', hl', hle'⟩ := hm e' (by simp [he'])
      refine ⟨l', (List.mem_erase_of_ne ?_).2 hl', hle'⟩
      intro heq
      apply hd'.1 e' he'
      rw [← hle, ← hle', heq])
    rw [List.length_erase_of_mem hl] at ih
    have : 0 < L.length := List.length_pos_of_mem hl
    simp only [List.length_cons]
    omega

/-- counting against an exact enumeration of a family of sets of the framework -/
theorem length_le_fam (af : AF) (P : ASet → Prop) (fam : List (List Nat))
    (hfam : ∀ l, l ∈ fam ↔ l ∈ subsets af.n ∧ P (ofList l)) (hsub : ∀ T, P T → Sub af T)
    (seen : List (List Nat)) (hd : DistinctS seen) (hP : ∀ e ∈ seen, P (ofList e)) :
    seen.length ≤ fam.length := by
  apply length_le_of_distinct seen fam hd
  intro e he
  obtain ⟨l, hl, hle⟩ := exists_list_of_sub af (ofList e) (hsub _ (hP e he))
  exact ⟨l, (hfam l).2 ⟨hl, by rw [hle]; exact hP e he⟩, hle⟩

theorem length_le_extsCO (af : AF) (seen : List (List Nat)) (hd : DistinctS seen)
    (hP : ∀ e ∈ seen, Complete af (ofList e)) : seen.length ≤ (extsCO af).length :=
  length_le_fam af (Complete af) _ (mem_extsCO af) (fun _ h => co_sub h) seen hd hP

theorem length_le_extsPR (af : AF) (found : List (List Nat)) (hd : DistinctS found)
    (hP : ∀ e ∈ found, Preferred af (ofList e)) : found.length ≤ (extsPR af).length :=
  length_le_fam af (Preferred af) _ (mem_extsPR af) (fun _ h => adm_sub h.1) found hd hP

theorem length_le_extsCF (af : AF) (seen : List (List Nat)) (hd : DistinctS seen)
    (hP : ∀ e ∈ seen, ConflictFree af (ofList e)) : seen.length ≤ (extsCF af).length :=
  length_le_fam af (ConflictFree af) _ (mem_extsCF af) (fun _ h => cf_sub h) seen hd hP

theorem SubL_self (e : List Nat) : SubL (ofList e) e := fun a ha => (ofList_mem _ a).1 ha

theorem not_SubL_ne {cur e : List Nat} (h : ¬ SubL (ofList cur) e) : ofList cur ≠ ofList e := by
  intro heq; apply h; rw [heq]; exact SubL_self e

/-! ## SAT calls of the steps of the computer -/

theorem calls_addAllS (s : Nat) : ∀ (cs : Cnf) (w : World), (addAllS s w cs).calls = w.calls
  | [], _ => rfl
  | c :: cs, w => by
    simp only [addAllS, List.foldl_cons]
    have := calls_addAllS s cs (w.onClause s c)
    simp only [addAllS] at this
    rw [this]; rfl

theorem wp_encodeInto_calls (k : EncKind) (af : AF) (s : Nat) (wr : Bool) (w : World) :
    wp True (encodeInto k af s wr) w (fun _ w' => w'.calls = w.calls) := by
  unfold encodeInto
  cases hr : k.reserve af.n wr with
  | none =>
    show wp True ((Prog.pure () : Prog Unit).bind fun _ => addClauses _ _) w _
    rw [wp_bind]
    show wp True (addClauses _ _) w _
    rw [wp_addClausesS]
    exact calls_addAllS _ _ _
  | some r =>
    show wp True ((doReserve _ r).bind fun _ => addClauses _ _) w _
    rw [wp_bind]
    show wp True (addClauses _ _) (w.onReserve _ r) _
    rw [wp_addClausesS]
    exact calls_addAllS _ _ _

theorem wp_MEC_new_calls (af : AF) (enc : EncKind) (sid : Nat) (kind : MKind) (w : World) :
    wp True (MEC.new af enc sid kind) w (fun _ w' => w'.calls = w.calls) := by
  unfold MEC.new
  simp only [Prog.bind_eq]
  rw [wp_bind, wp_getNVars]
  rfl

theorem wp_solve_calls (m : MEC) (as : List Lit) (w : World) :
    wp True (m.solve as) w (fun _ w' => w'.calls = w.calls + 1) := by
  unfold MEC.solve
  simp only [Prog.bind_eq]
  rw [wp_bind]
  exact ⟨fun _ _ => rfl, fun _ => rfl⟩

theorem wp_newSearch_calls (m : MEC) (w : World) :
    wp True m.newSearch w (fun _ w' => w'.calls = w.calls + 1) := by
  unfold MEC.newSearch
  simp only [Prog.bind_eq]
  rw [wp_bind]
  refine wp_mono _ _ _ _ ?_ (wp_solve_calls m _ w)
  intro r w' h
  cases r with
  | none => exact h
  | some p => obtain ⟨mdl, ext⟩ := p; exact h

/-- `compute_next` makes exactly one SAT call, none from the initial state -/
theorem wp_computeNext_calls (m : MEC) (w : World) :
    wp True m.computeNext w (fun _ w' => w'.calls ≤ w.calls + 1 ∧ (m.state = .init → w'.calls = w.calls) ∧
      (m.state ≠ .init → w'.calls = w.calls + 1)) := by
  unfold MEC.computeNext
  cases hst : m.state with
  | init => exact ⟨Nat.le_succ _, fun _ => rfl, fun hh => absurd rfl hh⟩
  | intermediate =>
    simp only [Prog.bind_eq]
    rcases hba : m.blockAndAssume with ⟨cl, as⟩
    simp only
    rw [wp_bind, wp_addClause1, wp_bind]
    refine wp_mono _ _ _ _ ?_ (wp_solve_calls m _ _)
    intro r w' h
    have h' : w'.calls = w.calls + 1 := h
    cases r with
    | none => exact ⟨Nat.le_of_eq h', fun hh => (by cases hh), fun _ => h'⟩
    | some p => obtain ⟨mdl, ext⟩ := p; exact ⟨Nat.le_of_eq h', fun hh => (by cases hh), fun _ => h'⟩
  | maximal =>
    simp only [Prog.bind_eq]
    rw [wp_bind, wp_addClause1]
    refine wp_mono _ _ _ _ ?_ (wp_newSearch_calls m _)
    intro r w' h
    have h' : w'.calls = w.calls + 1 := h
    exact ⟨Nat.le_of_eq h', fun hh => (by cases hh), fun _ => h'⟩
  | justDiscarded =>
    simp only
    refine wp_mono _ _ _ _ ?_ (wp_newSearch_calls m _)
    intro r w' h
    exact ⟨Nat.le_of_eq h, fun hh => (by cases hh), fun _ => h⟩
  | none => trivial

/-! ## freshness of the SAT replies: not inside any blocked set -/

theorem wp_increase_freshF {F : AF → ASet → Prop} {C : Prop} {m : MEC} {w : World} {blocked : List (List Nat)}
    (h : MInvF F m w blocked)
    (hk : m.kind = .preferred) (hst : m.state = .intermediate) :
    wp C m.computeNext w (fun m' _ =>
      (m'.state = .intermediate → ∀ E ∈ m.cur :: blocked, ¬ SubL (ofList m'.cur) E) ∧
      (m'.state = .maximal → m'.cur = m.cur)) := by
  unfold MEC.computeNext
  rw [hst]
  simp only [Prog.bind_eq, blockAndAssume_pref hk]
  rw [wp_bind, wp_addClause1, wp_bind]
  have hM := h.block m.cur
  have happ : inL m.enc m.af.n m.cur ++ [nl m.sel] = inL m.enc m.af.n m.cur ++ [nl m.sel] ++ [] := by simp
  rw [happ]
  apply wp_MEC_solveF hM m.cur []
  · intro mdl w' _ _ _ _ hblk _
    exact ⟨fun _ => hblk, fun hmax => (by cases hmax)⟩
  · intro w' _ _ _
    exact ⟨fun hmax => (by cases hmax), fun _ => rfl⟩

theorem wp_increase_fresh {C : Prop} {m : MEC} {w : World} {blocked : List (List Nat)} (h : MInv m w blocked)
    (hk : m.kind = .preferred) (hst : m.state = .intermediate) :
    wp C m.computeNext w (fun m' _ =>
      (m'.state = .intermediate → ∀ E ∈ m.cur :: blocked, ¬ SubL (ofList m'.cur) E) ∧
      (m'.state = .maximal → m'.cur = m.cur)) :=
  wp_increase_freshF h hk hst

theorem wp_newSearch_fresh {C : Prop} {m : MEC} {w : World} {blocked : List (List Nat)} (h : MInv m w blocked) :
    wp C m.newSearch w (fun m' _ =>
      m'.state = .intermediate → ∀ E ∈ blocked, ¬ SubL (ofList m'.cur) E) := by
  unfold MEC.newSearch
  simp only [Prog.bind_eq]
  rw [wp_bind]
  have happ : [nl m.sel] = inL m.enc m.af.n [] ++ [nl m.sel] ++ [] := by simp [inL]
  rw [happ]
  apply wp_MEC_solve h [] []
  · intro mdl w' _ _ _ _ hblk _ _
    exact hblk
  · intro w' _ _ _ hmax
    cases hmax

/-! ## SE-PR: `compute_maximal` -/

/-- the number of iterations `compute_maximal` still needs, minus one; also the calls it still makes -/
def growMeasure (m : MEC) : Nat :=
  if m.state = .maximal then 0 else outside m.af.n (ofList m.cur) + 1

theorem outside_le (n : Nat) (S : ASet) : outside n S ≤ n := by
  unfold outside
  exact Nat.le_trans (List.length_filter_le _ _) (by simp)

/-- one increase step: at most one call and the measure decreases -/
theorem wp_increase_measureF {F : AF → ASet → Prop} (hF : PrefFam F) {m : MEC} {w : World}
    {blocked : List (List Nat)} (h : GrowInvF F m w blocked)
    (hst : m.state = .intermediate) :
    wp False m.computeNext w (fun m' w' => (∃ blocked', GrowInvF F m' w' blocked') ∧
      growMeasure m' + 1 ≤ growMeasure m ∧ w'.calls ≤ w.calls + 1) := by
  have h1 := wp_andT _ _ _ _ (wp_andT _ _ _ _ (wp_increaseF hF (C := False) h hst)
    (wp_increase_freshF (C := True) h.minv h.kind hst)) (wp_computeNext_calls m w)
  refine wp_mono _ _ _ _ ?_ h1
  rintro m' w' ⟨⟨⟨blocked', hG, haf, _, _, _, hsub, _⟩, hfresh⟩, hcalls, _⟩
  refine ⟨⟨blocked', hG⟩, ?_, hcalls⟩
  have e1 : growMeasure m = outside m.af.n (ofList m.cur) + 1 := by
    unfold growMeasure
    rw [if_neg (by rw [hst]; intro hh; cases hh)]
  rw [e1]
  unfold growMeasure
  by_cases hmax : m'.state = .maximal
  · rw [if_pos hmax]; omega
  · rw [if_neg hmax]
    have hst' : m'.state = .intermediate := hG.st.resolve_right hmax
    have hns := hfresh.1 hst' m.cur (by simp)
    have : ∃ a, ofList m'.cur a = true ∧ ofList m.cur a = false := by
      apply Classical.byContradiction
      intro hn
      apply hns
      intro a ha
      cases hc : ofList m.cur a with
      | true => exact (ofList_mem _ a).1 hc
      | false => exact absurd ⟨a, ha, hc⟩ hn
    obtain ⟨a, ha', ha⟩ := this
    have halt : a < m.af.n := by rw [← haf]; exact hG.cur_lt a ((ofList_mem _ a).1 ha')
    have := filter_out_lt (List.range m.af.n) (ofList m.cur) (ofList m'.cur)
      (fun x hx => (ofList_mem _ x).2 (hsub x ((ofList_mem _ x).1 hx))) (List.mem_range.2 halt) ha' ha
    unfold outside
    rw [haf]
    omega

theorem wp_increase_measure {m : MEC} {w : World} {blocked : List (List Nat)} (h : GrowInv m w blocked)
    (hst : m.state = .intermediate) :
    wp False m.computeNext w (fun m' w' => (∃ blocked', GrowInv m' w' blocked') ∧
      growMeasure m' + 1 ≤ growMeasure m ∧ w'.calls ≤ w.calls + 1) :=
  wp_increase_measureF prefFam_complete h hst

/-- **`compute_maximal` terminates**: from a growing state, with fuel above the measure, no crash and
at most `measure` calls -/
theorem computeMaximal_callsF {F : AF → ASet → Prop} (hF : PrefFam F) :
    ∀ (fuel : Nat) (m : MEC) (w : World) (blocked : List (List Nat)),
    GrowInvF F m w blocked → fuel ≥ growMeasure m + 1 →
    wp False (MEC.computeMaximal fuel m) w (fun _ w' => w'.calls ≤ w.calls + growMeasure m)
  | 0, _, _, _, _, hf => by omega
  | fuel + 1, m, w, blocked, h, hf => by
    unfold MEC.computeMaximal
    by_cases hmax : m.state = .maximal
    · simp only [hmax, beq_self_eq_true, if_true, Prog.bind_eq]
      rw [wp_bind]
      show (w.onClause m.sid [pl m.sel]).calls ≤ w.calls + growMeasure m
      simp
    · have hst : m.state = .intermediate := h.st.resolve_right hmax
      have hne : (m.state == MState.maximal) = false := by rw [hst]; rfl
      simp only [hne, Bool.false_eq_true, if_false, Prog.bind_eq]
      rw [wp_bind]
      refine wp_mono _ _ _ _ ?_ (wp_increase_measureF hF h hst)
      rintro m' w' ⟨⟨blocked', hG⟩, hμ, hcalls⟩
      refine wp_mono _ _ _ _ ?_ (computeMaximal_callsF hF fuel m' w' blocked' hG (by omega))
      intro _ w'' hw''
      have : w''.calls ≤ w'.calls + growMeasure m' := hw''
      omega

theorem computeMaximal_calls : ∀ (fuel : Nat) (m : MEC) (w : World) (blocked : List (List Nat)),
    GrowInv m w blocked → fuel ≥ growMeasure m + 1 →
    wp False (MEC.computeMaximal fuel m) w (fun _ w' => w'.calls ≤ w.calls + growMeasure m) :=
  computeMaximal_callsF prefFam_complete

/-- from the initial state: one more iteration, no more calls -/
theorem computeMaximal_init_callsF {F : AF → ASet → Prop} (hF : PrefFam F) (fuel : Nat) (m : MEC) (w : World)
    (h : MInvF F m w []) (hk : m.kind = .preferred)
    (hst : m.state = .init) (hgr : GrOK m.af) (hf : fuel ≥ m.af.n + 3) :
    wp False (MEC.computeMaximal fuel m) w (fun _ w' => w'.calls ≤ w.calls + m.af.n + 1) := by
  cases fuel with
  | zero => omega
  | succ fuel =>
    unfold MEC.computeMaximal
    have hne : (m.state == MState.maximal) = false := by rw [hst]; rfl
    simp only [hne, Bool.false_eq_true, if_false, Prog.bind_eq]
    rw [wp_bind]
    unfold MEC.computeNext
    rw [hst]
    show wp False (MEC.computeMaximal fuel { m with cur := groundedV m.af.view, state := .intermediate }) w _
    have hG := GrowInvF_init hF h hk hgr
    have hμ : growMeasure { m with cur := groundedV m.af.view, state := .intermediate } ≤ m.af.n + 1 := by
      unfold growMeasure
      rw [if_neg (by intro hh; cases hh)]
      have := outside_le m.af.n (ofList (groundedV m.af.view))
      simp only
      omega
    refine wp_mono _ _ _ _ ?_ (computeMaximal_callsF hF fuel _ w [] hG (by omega))
    intro _ w' hw'
    have : w'.calls ≤ w.calls + growMeasure { m with cur := groundedV m.af.view, state := .intermediate } := hw'
    omega

theorem computeMaximal_init_calls (fuel : Nat) (m : MEC) (w : World) (h : MInv m w []) (hk : m.kind = .preferred)
    (hst : m.state = .init) (hgr : GrOK m.af) (hf : fuel ≥ m.af.n + 3) :
    wp False (MEC.computeMaximal fuel m) w (fun _ w' => w'.calls ≤ w.calls + m.af.n + 1) :=
  computeMaximal_init_callsF prefFam_complete fuel m w h hk hst hgr hf

/-- **SE-PR on one component terminates** (fuel `n + 3`: one iteration for the initial state, at most
`n + 1` increase steps, one iteration to notice the maximal state) **within `n + 1` SAT calls** -/
theorem prMaximalOfComp_callsF {F : AF → ASet → Prop} (hF : PrefFam F) (cfg : Cfg)
    (hk : ∀ af T, cfg.enc.Base af T ↔ F af T) (c : Comp)
    (hwf : c.af.WF) (hgr : GrOK c.af) (w : World) (hb : w.Bounded) (hfuel : cfg.fuel ≥ c.af.n + 3) :
    wp False (prMaximalOfComp cfg c) w (fun _ w' => w'.calls ≤ w.calls + c.af.n + 1) := by
  unfold prMaximalOfComp
  simp only [Prog.bind_eq]
  rw [wp_bind, wp_mkSolver, wp_bind]
  have hlen : w.solvers.length < w.onNew.solvers.length := by simp [World.onNew]
  refine wp_mono _ _ _ _ ?_ (wp_andT _ _ _ _
    (wp_encodeInto (C := False) cfg.enc c.af w.solvers.length false w.onNew (Bounded_onNew hb) hlen (db_onNew_self w)
      (fun _ w' => Encoded cfg.enc c.af w.solvers.length false w') (fun w' h _ => h))
    (wp_encodeInto_calls cfg.enc c.af w.solvers.length false w.onNew))
  rintro _ w1 ⟨henc, hc1⟩
  rw [wp_bind]
  refine wp_mono _ _ _ _ ?_ (wp_andT _ _ _ _ (wp_MEC_newF (C := False) henc hwf (hk _) .preferred)
    (wp_MEC_new_calls c.af cfg.enc w.solvers.length .preferred w1))
  rintro m w2 ⟨⟨hM, haf, _, _, hkind, hst, _, _⟩, hc2⟩
  rw [wp_bind]
  refine wp_mono _ _ _ _ ?_ (computeMaximal_init_callsF hF cfg.fuel m w2 hM hkind hst (by rw [haf]; exact hgr)
    (by rw [haf]; exact hfuel))
  intro e w3 hw3
  rw [haf] at hw3
  have h1 : w1.calls = w.onNew.calls := hc1
  have h2 : w2.calls = w1.calls := hc2
  have h3 : w3.calls ≤ w2.calls + c.af.n + 1 := hw3
  show w3.calls ≤ w.calls + c.af.n + 1
  simp only [World.onNew_calls] at h1
  omega

theorem prMaximalOfComp_calls (cfg : Cfg) (hk : ∀ af T, cfg.enc.Base af T ↔ Complete af T) (c : Comp)
    (hwf : c.af.WF) (hgr : GrOK c.af) (w : World) (hb : w.Bounded) (hfuel : cfg.fuel ≥ c.af.n + 3) :
    wp False (prMaximalOfComp cfg c) w (fun _ w' => w'.calls ≤ w.calls + c.af.n + 1) :=
  prMaximalOfComp_callsF prefFam_complete cfg hk c hwf hgr w hb hfuel

/-! ## DS-PR: the skeptical search -/

/-- ghost bookkeeping of a search: `seen` = the sets that have been current (grounded extension, SAT
replies), `found` = the preferred extensions certified by UNSAT; all of them are blocked, except the
current set while the computer is in the intermediate state, which is outside every blocked set -/
structure CInv (af : AF) (st : MState) (cur : List Nat) (blocked seen found : List (List Nat)) : Prop where
  seen_co : ∀ e ∈ seen, Complete af (ofList e)
  seen_nd : DistinctS seen
  found_pr : ∀ e ∈ found, Preferred af (ofList e)
  found_nd : DistinctS found
  seen_blk : ∀ e ∈ seen, e ∈ blocked ∨ (st = .intermediate ∧ e = cur)
  found_blk : ∀ e ∈ found, e ∈ blocked
  fresh : st = .intermediate → ∀ E ∈ blocked, ¬ SubL (ofList cur) E

theorem CInv.seen_le {af : AF} {st : MState} {cur : List Nat} {blocked seen found : List (List Nat)}
    (h : CInv af st cur blocked seen found) : seen.length ≤ (extsCO af).length :=
  length_le_extsCO af seen h.seen_nd h.seen_co

theorem CInv.found_le {af : AF} {st : MState} {cur : List Nat} {blocked seen found : List (List Nat)}
    (h : CInv af st cur blocked seen found) : found.length ≤ (extsPR af).length :=
  length_le_extsPR af found h.found_nd h.found_pr

theorem CInv.init {af : AF} {gr : List Nat} (hgr : Complete af (ofList gr)) :
    CInv af .intermediate gr [] [gr] [] := by
  refine ⟨?_, ?_, ?_, ?_, ?_, ?_, ?_⟩
  · intro e he; simp only [List.mem_singleton] at he; subst he; exact hgr
  · exact List.pairwise_singleton _ _
  · intro e he; cases he
  · exact List.Pairwise.nil
  · intro e he; simp only [List.mem_singleton] at he; exact Or.inr ⟨rfl, he⟩
  · intro e he; cases he
  · intro _ E hE; cases hE

/-- a SAT reply: a complete set outside every set of the (possibly extended) blocked list -/
theorem CInv.push_seen {af : AF} {st : MState} {cur : List Nat} {blocked seen found : List (List Nat)}
    (h : CInv af st cur blocked seen found) (blocked' : List (List Nat)) (cur' : List Nat)
    (hmono : ∀ e ∈ blocked, e ∈ blocked') (hcur : st = .intermediate → cur ∈ blocked')
    (hco : Complete af (ofList cur')) (hfresh : ∀ E ∈ blocked', ¬ SubL (ofList cur') E) :
    CInv af .intermediate cur' blocked' (cur' :: seen) found := by
  have hsb : ∀ e ∈ seen, e ∈ blocked' := by
    intro e he
    rcases h.seen_blk e he with hb | ⟨hs, rfl⟩
    · exact hmono e hb
    · exact hcur hs
  refine ⟨?_, ?_, h.found_pr, h.found_nd, ?_, fun e he => hmono e (h.found_blk e he), fun _ => hfresh⟩
  · intro e he
    rcases List.mem_cons.1 he with rfl | he
    · exact hco
    · exact h.seen_co e he
  · exact List.pairwise_cons.2 ⟨fun e he => not_SubL_ne (hfresh e (hsb e he)), h.seen_nd⟩
  · intro e he
    rcases List.mem_cons.1 he with rfl | he
    · exact Or.inr ⟨rfl, rfl⟩
    · exact Or.inl (hsb e he)

/-- an UNSAT reply in the intermediate state: the current set is a new preferred extension -/
theorem CInv.push_found {af : AF} {cur : List Nat} {blocked seen found : List (List Nat)}
    (h : CInv af .intermediate cur blocked seen found) (hpr : Preferred af (ofList cur)) :
    CInv af .maximal cur (cur :: blocked) seen (cur :: found) := by
  refine ⟨h.seen_co, h.seen_nd, ?_, ?_, ?_, ?_, fun hh => by cases hh⟩
  · intro e he
    rcases List.mem_cons.1 he with rfl | he
    · exact hpr
    · exact h.found_pr e he
  · exact List.pairwise_cons.2 ⟨fun e he => not_SubL_ne (h.fresh rfl e (h.found_blk e he)), h.found_nd⟩
  · intro e he
    rcases h.seen_blk e he with hb | ⟨_, rfl⟩
    · exact Or.inl (List.mem_cons_of_mem _ hb)
    · exact Or.inl List.mem_cons_self
  · intro e he
    rcases List.mem_cons.1 he with rfl | he
    · exact List.mem_cons_self
    · exact List.mem_cons_of_mem _ (h.found_blk e he)

/-- blocking the current set and leaving the intermediate state (discard; UNSAT of a computer whose
maximal sets are not counted) -/
theorem CInv.block_cur {af : AF} {cur : List Nat} {blocked seen found : List (List Nat)}
    (h : CInv af .intermediate cur blocked seen found) (st : MState) (hst : st ≠ .intermediate) :
    CInv af st cur (cur :: blocked) seen found := by
  refine ⟨h.seen_co, h.seen_nd, h.found_pr, h.found_nd, ?_, ?_, fun hh => absurd hh hst⟩
  · intro e he
    rcases h.seen_blk e he with hb | ⟨_, rfl⟩
    · exact Or.inl (List.mem_cons_of_mem _ hb)
    · exact Or.inl List.mem_cons_self
  · intro e he; exact List.mem_cons_of_mem _ (h.found_blk e he)

/-- the states in which the skeptical loop starts an iteration, with the blocked list explicit.  The
loop never starts an iteration in the maximal state: a set that hits the query is discarded while it
is intermediate, and a preferred extension that misses the query ends the search -/
def LInvT (m : MEC) (w : World) (pos : List Nat) (blocked : List (List Nat)) : Prop :=
  m.kind = .preferred ∧
  ((m.state = .init ∧ MInv m w [] ∧ blocked = [] ∧ GrOK m.af) ∨
   (m.state = .intermediate ∧ SkInv m w blocked pos ∧ ¬ pos.any m.cur.contains = true) ∨
   (m.state = .justDiscarded ∧ MInv m w blocked ∧ AllTop m.af pos blocked))

/-- what `compute_next` leaves, with the bookkeeping: the search is over, or one more set has been
seen, or the current set (unchanged) is a preferred extension -/
def AfterNextT (af : AF) (m m' : MEC) (w' : World) (pos : List Nat) (seen : List (List Nat)) : Prop :=
  m'.af = af ∧ m'.kind = .preferred ∧
  (m'.state = .none ∨
   (∃ blocked' seen', m'.state = .intermediate ∧ SkInv m' w' blocked' pos ∧
     CInv af .intermediate m'.cur blocked' seen' [] ∧ seen'.length = seen.length + 1) ∨
   (m'.state = .maximal ∧ m.state = .intermediate ∧ m'.cur = m.cur))

theorem wp_next_cnt {m : MEC} {w : World} {pos : List Nat} {blocked seen : List (List Nat)}
    (h : LInvT m w pos blocked) (hc : CInv m.af m.state m.cur blocked seen [])
    (hinit : m.state = .init → seen = []) :
    wp False m.computeNext w (fun m' w' => AfterNextT m.af m m' w' pos seen ∧
      w'.calls ≤ w.calls + 1 ∧ (m.state = .init → w'.calls = w.calls) ∧
      (m.state ≠ .init → w'.calls = w.calls + 1)) := by
  refine wp_andT _ _ (fun m' w' => AfterNextT m.af m m' w' pos seen) _ ?_
    (wp_computeNext_calls m w)
  obtain ⟨hk, hcase⟩ := h
  rcases hcase with ⟨hst, hM, hbl, hgr⟩ | ⟨hst, hS, _⟩ | ⟨hst, hM, htop⟩
  · -- init
    unfold MEC.computeNext
    rw [hst]
    have hs := hinit hst
    subst hs; subst hbl
    refine ⟨rfl, hk, Or.inr (Or.inl ⟨[], [groundedV m.af.view], rfl,
      ⟨hM.congr_m rfl rfl rfl rfl rfl, hk, hgr.2.1, hgr.1, ?_, ?_⟩, CInv.init hgr.1, rfl⟩)⟩
    · intro B hB; cases hB
    · intro B hB; cases hB
  · -- intermediate: increase
    rw [hst] at hc
    refine wp_mono _ _ _ _ ?_ (wp_andT _ _ _ _ (wp_increase_sk (C := False) hS hst)
      (wp_increase_fresh (C := True) hS.minv hk hst))
    rintro m' w' ⟨⟨haf, _, _, _, hcase⟩, hfresh⟩
    rcases hcase with ⟨hst', hS'⟩ | ⟨hst', hcur, hS', _⟩
    · refine ⟨haf, hS'.kind, Or.inr (Or.inl ⟨m.cur :: blocked, m'.cur :: seen, hst', hS', ?_, rfl⟩)⟩
      refine hc.push_seen (m.cur :: blocked) m'.cur (fun e he => List.mem_cons_of_mem _ he)
        (fun _ => List.mem_cons_self) ?_ (hfresh.1 hst')
      rw [← haf]; exact hS'.cur_co
    · exact ⟨haf, hS'.kind, Or.inr (Or.inr ⟨hst', hst, hcur⟩)⟩
  · -- justDiscarded: a new search
    unfold MEC.computeNext
    rw [hst]
    refine wp_mono _ _ _ _ ?_ (wp_andT _ _ _ _ (wp_newSearch (C := False) hM hk htop)
      (wp_newSearch_fresh (C := True) hM))
    rintro m' w' ⟨⟨haf, _, _, hkk, hcase⟩, hfresh⟩
    rcases hcase with ⟨hst', hS'⟩ | ⟨hst', _, _⟩
    · refine ⟨haf, hS'.kind, Or.inr (Or.inl ⟨blocked, m'.cur :: seen, hst', hS', ?_, rfl⟩)⟩
      refine hc.push_seen blocked m'.cur (fun e he => he) (fun hh => by rw [hst] at hh; cases hh) ?_ (hfresh hst')
      rw [← haf]; exact hS'.cur_co
    · exact ⟨haf, by rw [hkk]; exact hk, Or.inl hst'⟩

/-- **the skeptical loop terminates**: each iteration uses one unit of fuel and adds one set to
`seen`, or ends the search; each call but the last is paid by such a set, the grounded extension
pays the last one -/
theorem prSkeptLoop_calls (sc : Bool) (pos : List Nat) (c0 : Nat) : ∀ (fuel : Nat) (m : MEC) (w : World)
    (blocked seen : List (List Nat)), LInvT m w pos blocked →
    CInv m.af m.state m.cur blocked seen [] → (m.state = .init → seen = []) →
    w.calls + 1 ≤ c0 + seen.length + (if m.state = .init then 1 else 0) →
    fuel + seen.length ≥ (extsCO m.af).length + 1 →
    wp False (prSkeptLoop sc pos fuel m) w (fun _ w' => w'.calls ≤ c0 + (extsCO m.af).length)
  | 0, m, _, _, _, _, hc, _, _, hf => by
    have := hc.seen_le; omega
  | fuel + 1, m, w, blocked, seen, h, hc, hinit, hcalls, hf => by
    unfold prSkeptLoop
    simp only [Prog.bind_eq]
    rw [wp_bind]
    have hnohit : m.state = .intermediate → ¬ pos.any m.cur.contains = true := by
      intro hst
      rcases h.2 with ⟨hst', _⟩ | ⟨_, _, hnh⟩ | ⟨hst', _⟩
      · rw [hst] at hst'; cases hst'
      · exact hnh
      · rw [hst] at hst'; cases hst'
    refine wp_mono _ _ _ _ ?_ (wp_next_cnt h hc hinit)
    rintro m' w' ⟨⟨haf, hk', hcase⟩, hc1, hc0, _⟩
    have hsl := hc.seen_le
    have hcalls' : w'.calls ≤ c0 + seen.length := by
      by_cases hi : m.state = .init
      · rw [if_pos hi] at hcalls; have := hc0 hi; omega
      · rw [if_neg hi] at hcalls; omega
    rcases hcase with hst | ⟨blocked', seen', hst, hS, hc', hlen⟩ | ⟨hst, hstm, hcur⟩
    · -- none
      rw [hst]
      simp only
      rw [wp_bind, wp_drop]
      show (w'.onClause m'.sid [pl m'.sel]).calls ≤ _
      simp only [World.onClause_calls]
      omega
    · -- intermediate
      have hcalls'' : w'.calls + 1 ≤ c0 + seen'.length := by omega
      have hf' : fuel + seen'.length ≥ (extsCO m'.af).length + 1 := by rw [haf]; omega
      have hsl' := hc'.seen_le
      rw [hst]
      simp only
      by_cases hhit : pos.any m'.cur.contains = true
      · rw [if_pos hhit]
        unfold MEC.discardCurrentSearch
        simp only [Prog.bind_eq, blockAndAssume_pref hk']
        rw [wp_bind, wp_bind, wp_addClause1]
        have hL : LInvT { m' with state := .justDiscarded }
            (w'.onClause m'.sid (outL m'.enc m'.af.n m'.cur ++ [pl m'.sel])) pos (m'.cur :: blocked') :=
          ⟨hk', Or.inr (Or.inr ⟨rfl, (hS.minv.block m'.cur).congr_m rfl rfl rfl rfl rfl,
            hS.allTop_after_block ((hits_any _ _).1 hhit)⟩)⟩
        have hcd := hc'.block_cur .justDiscarded (by intro hh; cases hh)
        rw [← haf] at hcd
        have := prSkeptLoop_calls sc pos c0 fuel { m' with state := .justDiscarded } _ _ seen' hL hcd
          (fun hh => by cases hh) (by rw [if_neg (by intro hh; cases hh)]; exact hcalls'') hf'
        show wp False (prSkeptLoop sc pos fuel { m' with state := .justDiscarded }) _ _
        refine wp_mono _ _ _ _ ?_ this
        intro _ w'' hh
        have e : ({ m' with state := MState.justDiscarded } : MEC).af = m.af := haf
        rw [← e]; exact hh
      · rw [if_neg hhit]
        by_cases hsc : (sc && pos.all (fun a => (m'.af.attackers a).any m'.cur.contains)) = true
        · rw [if_pos hsc]
          rw [wp_bind, wp_drop]
          show (w'.onClause m'.sid [pl m'.sel]).calls ≤ _
          simp only [World.onClause_calls]
          omega
        · rw [if_neg hsc]
          have hL : LInvT m' w' pos blocked' := ⟨hk', Or.inr (Or.inl ⟨hst, hS, hhit⟩)⟩
          have hcc : CInv m'.af m'.state m'.cur blocked' seen' [] := by rw [haf, hst]; exact hc'
          have := prSkeptLoop_calls sc pos c0 fuel m' w' blocked' seen' hL hcc
            (fun hh => by rw [hst] at hh; cases hh)
            (by rw [if_neg (by rw [hst]; intro hh; cases hh)]; exact hcalls'') hf'
          refine wp_mono _ _ _ _ ?_ this
          intro _ w'' hh
          rw [← haf]; exact hh
    · -- maximal: the current set, which misses the query, is a preferred extension
      rw [hst]
      simp only
      have hhit : ¬ pos.any m'.cur.contains = true := by rw [hcur]; exact hnohit hstm
      have : (!pos.any m'.cur.contains) = true := by simpa using hhit
      rw [if_pos this]
      rw [wp_bind, wp_drop]
      show (w'.onClause m'.sid [pl m'.sel]).calls ≤ _
      simp only [World.onClause_calls]
      omega

theorem wp_ccArgs_some {C : Prop} (c : Comp) : ∀ (args pos : List Nat) (w : World) (Q : List Nat → World → Prop),
    posAll c args = some pos → Q pos w → wp C (ccArgs c args) w Q
  | [], pos, w, Q, h, hq => by
    simp only [posAll, Option.some.injEq] at h; subst h; exact hq
  | a :: t, pos, w, Q, h, hq => by
    unfold ccArgs
    simp only [List.foldr_cons, Prog.bind_eq]
    rw [wp_bind]
    simp only [posAll] at h
    cases hp : c.pos a with
    | none => rw [hp] at h; simp at h
    | some i =>
      cases hr : posAll c t with
      | none => rw [hp, hr] at h; simp at h
      | some r =>
        rw [hp, hr] at h
        injection h with h; subst h
        apply wp_ccArgs_some c t r w _ hr
        exact hq

/-- **DS-PR inside the merged component terminates** with fuel `|CO| + 1` **within `|CO|` SAT calls**
(`|CO|` = number of complete sets of the component): the grounded extension and the SAT replies are
pairwise different complete sets; each call but the last returns a new one; the last call is UNSAT
and ends the search (a preferred extension missing the query, or no further candidate) -/
theorem prSkeptInCc_calls (cfg : Cfg) (hk : ∀ af T, cfg.enc.Base af T ↔ Complete af T) (c : Comp) (args : List Nat)
    (sc : Bool) (hwf : c.af.WF) (hgr : GrOK c.af) (w : World) (hb : w.Bounded)
    (hpos : ∃ pos, posAll c args = some pos)
    (hfuel : cfg.fuel ≥ (extsCO c.af).length + 1) :
    wp False (prSkeptInCc cfg c args sc) w (fun _ w' => w'.calls ≤ w.calls + (extsCO c.af).length) := by
  obtain ⟨pos, hpos⟩ := hpos
  unfold prSkeptInCc
  simp only [Prog.bind_eq]
  rw [wp_bind]
  apply wp_ccArgs_some c args pos w _ hpos
  rw [wp_bind, wp_mkSolver, wp_bind]
  have hlen : w.solvers.length < w.onNew.solvers.length := by simp [World.onNew]
  refine wp_mono _ _ _ _ ?_ (wp_andT _ _ _ _
    (wp_encodeInto (C := False) cfg.enc c.af w.solvers.length false w.onNew (Bounded_onNew hb) hlen (db_onNew_self w)
      (fun _ w' => Encoded cfg.enc c.af w.solvers.length false w') (fun w' h _ => h))
    (wp_encodeInto_calls cfg.enc c.af w.solvers.length false w.onNew))
  rintro _ w1 ⟨henc, hc1⟩
  rw [wp_bind]
  refine wp_mono _ _ _ _ ?_ (wp_andT _ _ _ _ (wp_MEC_new (C := False) henc hwf (hk _) .preferred)
    (wp_MEC_new_calls c.af cfg.enc w.solvers.length .preferred w1))
  rintro m w2 ⟨⟨hM, haf, _, _, hkind, hst, _, _⟩, hc2⟩
  have hL : LInvT m w2 pos [] := ⟨hkind, Or.inl ⟨hst, hM, rfl, by rw [haf]; exact hgr⟩⟩
  have hC : CInv m.af m.state m.cur [] [] [] :=
    ⟨fun e he => (by cases he), List.Pairwise.nil, fun e he => (by cases he), List.Pairwise.nil,
     fun e he => (by cases he), fun e he => (by cases he), fun _ E hE => (by cases hE)⟩
  have h1 : w1.calls = w.onNew.calls := hc1
  have h2 : w2.calls = w1.calls := hc2
  simp only [World.onNew_calls] at h1
  have := prSkeptLoop_calls sc pos w.calls cfg.fuel m w2 [] [] hL hC (fun _ => rfl)
    (by rw [if_pos hst]; simp only [List.length_nil]; omega)
    (by rw [haf]; simp only [List.length_nil]; omega)
  rw [haf] at this
  exact this

/-- the bound in the form of property C18, `|base| + |PR| + 1`, is a consequence -/
theorem prSkeptInCc_calls_c18 (cfg : Cfg) (hk : ∀ af T, cfg.enc.Base af T ↔ Complete af T) (c : Comp)
    (args : List Nat) (sc : Bool) (hwf : c.af.WF) (hgr : GrOK c.af) (w : World) (hb : w.Bounded)
    (hpos : ∃ pos, posAll c args = some pos)
    (hfuel : cfg.fuel ≥ (extsCO c.af).length + 1) :
    wp False (prSkeptInCc cfg c args sc) w
      (fun _ w' => w'.calls ≤ w.calls + (extsCO c.af).length + (extsPR c.af).length + 1) := by
  refine wp_mono _ _ _ _ ?_ (prSkeptInCc_calls cfg hk c args sc hwf hgr w hb hpos hfuel)
  intro _ w' h
  have : w'.calls ≤ w.calls + (extsCO c.af).length := h
  omega

end Crusta
