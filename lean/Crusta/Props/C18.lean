import Crusta.Proofs.Calls
import Crusta.Proofs.Abstract
import Crusta.Proofs.SolveCallsID
import Crusta.Proofs.SolveCallsRG
import Crusta.Proofs.Assemble
import Crusta.Proofs.StaticTotal
import Crusta.Proofs.DynCalls
import Crusta.Proofs.DynHistory

/-!
# C18 — every query terminates within a bounded number of SAT calls (property theorems)

Two layers.  (1) On the `Prog` models of the real procedures, for **arbitrary** reply lists:
CO makes at most one call, ST at most two per connected component.  (2) On the set-level search
procedures (`Proofs/Abstract`), for every **sound** reply list: the grow loop makes at most
`|U| - |start| + 1` calls and ends in a ⊆-maximal base set; the skeptical search never examines a
candidate twice and makes at most `|base| + 1` calls; the range-guided loop ends in a maximal range.
The link between the two layers for PR/ID/SST/STG is established by trace correspondence (the
recorded call count equals the program's on the same replies) and by the measured bound.
-/

namespace Crusta.C18
open Crusta

/-- the number of SAT calls of a run is the number of replies it consumed -/
theorem calls_eq_replies_consumed (sk : SolverKind) (cfg : Cfg) (v : FwView) (e : Entry)
    (p : Prog Ans) (_hp : entryProg sk cfg v e = some p)
    (rs : List Reply) (w w' : World) (a : Ans) (h : interp p rs w = (.done a, w')) :
    w'.calls - w.calls ≤ rs.length :=
  (done_consumed_no_unknown p rs w w' a h).1

/-- CO: at most one SAT call per query, for every framework, encoder and reply -/
theorem co_calls (cfg : Cfg) (v : FwView) (args : List Nat) :
    Bounded (coDC cfg v args) 1 ∧ Bounded (coDCcert cfg v args) 1 :=
  ⟨coDC_bounded cfg v args, coDCcert_bounded cfg v args⟩

/-- ST: one call per component for SE, at most two per component for DC/DS -/
theorem st_calls (v : FwView) (args : List Nat) :
    Bounded (stSE v) (allComps v).length ∧
    Bounded (stDC v args) (2 * (allComps v).length) ∧
    Bounded (stDS v args) (2 * (allComps v).length) :=
  ⟨stSE_bounded v, stAcc_bounded v args true false, stAcc_bounded v args false true⟩

/-- PR (set level): the grow loop of `compute_maximal` returns a ⊆-maximal base set and makes at
most `|U| - |start| + 1` calls, for every sound oracle -/
theorem pr_grow {α : Type} [DecidableEq α] (base : Finset α → Prop) (U : Finset α)
    (hU : ∀ S, base S → S ⊆ U) (rs : List (Abs.SReply α)) (cur : Finset α) (res : Finset α × Nat)
    (hb : base cur) (hs : Abs.GrowSound base rs cur []) (h : Abs.grow rs cur [] = some res) :
    Abs.IsMaxBase base res.1 ∧ cur ⊆ res.1 ∧ res.2 + cur.card ≤ U.card + 1 :=
  ⟨(Abs.grow_maximal base rs cur [] res hb (by simp) hs h).1,
   (Abs.grow_maximal base rs cur [] res hb (by simp) hs h).2,
   Abs.grow_calls base U hU rs cur [] res hb hs h⟩

/-- PR (set level): the skeptical search answers correctly and makes at most `|base| + 1` calls;
no candidate set is examined twice -/
theorem pr_skeptical {α : Type} [DecidableEq α] [Fintype α] (base : Finset α → Prop) [DecidablePred base]
    (a : α) (rs : List (Abs.SReply α)) (start : Finset α) (res : Option (Finset α) × Nat)
    (hb : base start) (hs : Abs.SkeptSound base a rs start []) (h : Abs.skept a rs start [] = some res) :
    (∀ M, res.1 = some M → Abs.IsMaxBase base M ∧ a ∉ M) ∧
    (res.1 = none → ∀ M, Abs.IsMaxBase base M → a ∈ M) ∧
    res.2 ≤ (Finset.univ.filter base).card := by
  have h1 := Abs.skept_correct base a rs start [] res ⟨hb, by simp, by simp⟩ hs h
  have h2 := Abs.skept_calls base a rs start [] res hb (by simp) (by simp) hs h
  refine ⟨h1.1, h1.2, ?_⟩
  simp at h2; omega

/-- SST / STG (set level): at UNSAT the asserted range is the true range and is maximal -/
theorem range_grow {α : Type} [DecidableEq α] (c : Abs.RCtx α) (rs : List (Abs.RReply α))
    (S R : Finset α) (res : Finset α × Finset α) (hb : c.base S) (hSR : S ⊆ R) (hR : R ⊆ c.rg S)
    (hs : Abs.RSoundRun c rs R []) (h : Abs.rgrow rs S R [] = some res) :
    Abs.MaxRange c res.1 ∧ res.2 = c.rg res.1 :=
  Abs.rgrow_correct c rs S R [] res hb hSR hR (by simp) hs h

/-! ## the searches on the `Prog` models: termination and call bounds for every sound run

The four theorems below are about the programs the driver replays against the implementation.  They
are total-correctness statements (`wp False`): on sound replies the program reaches no `crash` node
(in particular the model's fuel — an artefact, the Rust loops have none — never runs out when it is
at least the stated amount) and a run that returns has made at most the stated number of SAT calls.
`|CO|`, `|PR|`, `|CF|` are the lengths of the exact enumerations of the spec layer. -/

/-- PR on a component: `compute_maximal` ≤ n + 1 calls; the skeptical search ≤ |CO| + |PR| + 1
(in fact ≤ |CO|: no candidate set is examined twice) -/
theorem pr_calls_on_prog (cfg : Cfg) (hk : ∀ af T, cfg.enc.Base af T ↔ Complete af T) (c : Comp)
    (hwf : c.af.WF) (w : World) (hb : w.Bounded) :
    (cfg.fuel ≥ c.af.n + 3 →
      wp False (prMaximalOfComp cfg c) w (fun _ w' => w'.calls ≤ w.calls + c.af.n + 1)) ∧
    (∀ args sc, (∃ pos, posAll c args = some pos) → cfg.fuel ≥ (extsCO c.af).length + 1 →
      wp False (prSkeptInCc cfg c args sc) w
        (fun _ w' => w'.calls ≤ w.calls + (extsCO c.af).length + (extsPR c.af).length + 1)) :=
  ⟨fun hf => prMaximalOfComp_calls cfg hk c hwf (GrOK_of_wf _ hwf) w hb hf,
   fun args sc hpos hf => prSkeptInCc_calls_c18 cfg hk c args sc hwf (GrOK_of_wf _ hwf) w hb hpos hf⟩

/-- ID on a component: ≤ 2|CO| + |PR| + 2 calls -/
theorem id_calls_on_prog (cfg : Cfg) (hk : ∀ af T, cfg.enc.Base af T ↔ Complete af T) (c : Comp)
    (hwf : c.af.WF) (w : World) (hb : w.Bounded)
    (hfuel : cfg.fuel ≥ (extsCO c.af).length + (extsPR c.af).length + 2) :
    wp False (idOneForCc cfg c) w
      (fun _ w' => w'.calls ≤ w.calls + 2 * (extsCO c.af).length + (extsPR c.af).length + 2) ∧
    ∀ pos, wp False (idCredForCc cfg c pos) w
      (fun _ w' => w'.calls ≤ w.calls + 2 * (extsCO c.af).length + (extsPR c.af).length + 2) :=
  ⟨idOneForCc_calls_c18 cfg hk c hwf (GrOK_of_wf _ hwf) w hb hfuel,
   fun pos => idCredForCc_calls_c18 cfg hk c pos hwf (GrOK_of_wf _ hwf) w hb hfuel⟩

/-- SST / STG on a component: ≤ (n+2)·|base| + 3 calls, `base` = the complete (SST) or conflict-free
(STG) sets -/
theorem range_calls_on_prog (cfg : Cfg) (hk : RangeEnc cfg.enc) (c : Comp) (args : List Nat) (cred : Bool)
    (hwf : c.af.WF) (w : World) (hb : w.Bounded) (hpos : ∃ pos, posAll c args = some pos) :
    ((∀ af T, cfg.enc.Base af T ↔ Complete af T) → cfg.fuel ≥ (c.af.n + 2) * (extsCO c.af).length + 2 →
      wp False (rgAccInCc cfg c args cred) w
        (fun _ w' => w'.calls ≤ w.calls + (c.af.n + 2) * (extsCO c.af).length + 3)) ∧
    ((∀ af T, cfg.enc.Base af T ↔ ConflictFree af T) → cfg.fuel ≥ (c.af.n + 2) * (extsCF c.af).length + 2 →
      wp False (rgAccInCc cfg c args cred) w
        (fun _ w' => w'.calls ≤ w.calls + (c.af.n + 2) * (extsCF c.af).length + 3)) := by
  constructor
  · intro hco hf
    refine wp_mono _ _ _ _ ?_ (rgAccInCc_calls_sst cfg hk hco c args cred hwf (GrOK_of_wf _ hwf) w hb hpos hf)
    intro _ w' h; omega
  · intro hcf hf
    refine wp_mono _ _ _ _ ?_ (rgAccInCc_calls_stg cfg hk hcf c args cred hwf (GrOK_of_wf _ hwf) w hb hpos hf)
    intro _ w' h; omega

/-- what the `wp False … calls` statements mean for runs of the interpreter -/
theorem calls_statement_meaning {α : Type} (p : Prog α) (w : World) (k : Nat)
    (h : wp False p w (fun _ w' => w'.calls ≤ w.calls + k)) (rs : List Reply) (hs : RunSound p rs w) :
    (∀ msg w', interp p rs w ≠ (.crashed msg, w')) ∧
    ∀ a w', interp p rs w = (.done a, w') → w'.calls ≤ w.calls + k := calls_of_wp p w k h rs hs

/-- **every query terminates**: for each of the seven static solver types, every entry point, every
view presenting a graph, every admissible encoder and every sound behaviour of the SAT solver, the
program reaches no crash node — no `unwrap` panic, no "unreachable", and the model's loop fuel (the
Rust loops have none) is never exhausted once it is at least `fuelFor N = (N+3)·2^N + N + 3` for ids
below `N`; a run on a reply list therefore either returns a conforming answer, or aborts on an
`unknown` reply (C17), or stops because the reply list given to the interpreter was too short -/
theorem every_query_terminates (sk : SolverKind) (cfg : Cfg) (hcfg : CfgOK sk cfg) (v : FwView) (g : G) (hv : v.Ok g)
    (e : Entry) (hargs : ∀ a, a ∈ e.argsList → g.live a = true)
    (p : Prog Ans) (hp : entryProg sk cfg v e = some p) (w : World) (hb : w.Bounded)
    (hfuel : cfg.fuel ≥ fuelFor (1 + v.maxId.getD 0)) (rs : List Reply) (hs : RunSound p rs w) :
    (∀ msg w', interp p rs w ≠ (.crashed msg, w')) ∧
    ((∃ ans w', interp p rs w = (.done ans, w') ∧ EntryOK sk.sem g e ans) ∨
     (∃ w', interp p rs w = (.abort, w')) ∨ (∃ w', interp p rs w = (.starved, w'))) :=
  ⟨static_never_panics sk cfg hcfg v g hv e hargs p hp w hb hfuel rs hs,
   static_run_total sk cfg hcfg v g hv e hargs p hp w hb hfuel rs hs⟩

/-! ### the dynamic solvers (`src/dynamics`): the same bounds on the framework as it stands

The dynamic solvers do not split the framework into components, so the bound is the one of a single
component: the whole current framework. -/

/-- complete and stable dynamic solvers, arbitrary replies: at most one SAT call per query, in whatever
state the update history left the solver -/
theorem dynamic_co_st_calls (fuel : Nat) (d : Dyn.DState) (q : Dyn.DQuery) (l : Nat) (h : d.enc.sem ≠ .PR) :
    Bounded (Dyn.query fuel d q l) 1 := Dyn.dyn_query_bounded_co_st fuel d q l h

/-- the dynamic solvers with assumptions on attacks: at most one SAT call per query -/
theorem dynamic_attacks_calls (d : DynAtt.ADState) (q : Dyn.DQuery) (l : Nat) :
    Bounded (DynAtt.query d q l) 1 := DynAtt.dynatt_query_bounded d q l

/-- **preferred dynamic solver.**  After any history `ops` of update calls and completed queries, a
skeptical query about an argument of the framework, on sound replies, does not panic (in particular
the model's loop fuel — an artefact, the Rust loop has none — is not exhausted once it is at least
`|CO| + 1`, which `prFuel` covers) and a run that returns has made at most `|CO|` SAT calls, hence at
most the property's `|CO| + |PR| + 1`, where `|CO|`, `|PR|` count the complete / preferred extensions
of the current framework (`Dyn.nCO`, `Dyn.nPR`; `counts_are_cardinalities`): no candidate set is
examined twice. -/
theorem dynamic_preferred_calls {fuel : Nat} {ops : List StoreOp} {d : Dyn.DState} {w : World}
    (hreach : Dyn.Reach .PR fuel ops d w) {l id : Nat} (hl : d.pending.Live id l) {fuel' : Nat}
    (hfuel : Dyn.prFuel d.pending ≤ fuel') (rs : List Reply)
    (hs : RunSound (Dyn.query fuel' d .skep l) rs w) :
    (∀ msg w', interp (Dyn.query fuel' d .skep l) rs w ≠ (.crashed msg, w')) ∧
    ∀ a w', interp (Dyn.query fuel' d .skep l) rs w = (.done a, w') →
      w'.calls ≤ w.calls + Dyn.nCO d.pending ∧
      w'.calls ≤ w.calls + (Dyn.nCO d.pending + Dyn.nPR d.pending + 1) := by
  obtain ⟨hq, henc, _⟩ := Dyn.reach_inv hreach
  have hwp : wp False (Dyn.query fuel' d .skep l) w (fun _ w' => w'.calls ≤ w.calls + Dyn.nCO d.pending) := by
    unfold Dyn.query
    rw [henc]
    exact wp_mono _ _ _ _ (fun _ _ hh => hh.1)
      (Dyn.dyn_pr_calls_co hq hl (Nat.le_trans (Dyn.nCO_succ_le_prFuel _) hfuel))
  obtain ⟨hnc, hdone⟩ := calls_of_wp _ w _ hwp rs hs
  exact ⟨hnc, fun a w' hi => ⟨hdone a w' hi, by have := hdone a w' hi; omega⟩⟩

/-- the counts are the cardinalities of the sets of complete / preferred extensions -/
theorem counts_are_cardinalities (st : Store) :
    Dyn.nCO st = Set.ncard {S : ASet | st.g.Complete S} ∧ Dyn.nPR st = Set.ncard {S : ASet | st.g.Preferred S} :=
  ⟨Dyn.nCO_eq_ncard st, Dyn.nPR_eq_ncard st⟩

/-- the fuel of the model is immaterial: any two amounts of at least `|CO| + 1` give the same run -/
theorem dynamic_preferred_fuel_irrelevant {d : Dyn.DState} {w : World} (h : Dyn.QInv .PR d w) {l id : Nat}
    (hl : d.pending.Live id l) {f1 f2 : Nat} (h1 : Dyn.nCO d.pending + 1 ≤ f1) (h2 : f1 ≤ f2) {rs : List Reply}
    (hs : RunSound (Dyn.prSkepQuery f1 d l) rs w) :
    interp (Dyn.prSkepQuery f2 d l) rs w = interp (Dyn.prSkepQuery f1 d l) rs w :=
  Dyn.dyn_pr_fuel_irrelevant h hl h1 h2 hs

end Crusta.C18
