import Crusta.Proofs.Sat
import Crusta.Proofs.SatRoundTrip
import Crusta.Proofs.SatMalformed
import Crusta.Gen.SatTokens

/-!
# C16 — the exchange with an external SAT solver is well-formed and cannot hang (property theorems)
-/

namespace Crusta.C16
open Crusta Crusta.Sat

/-- every instance handed to the external solver, after any history of clause additions,
reservations and earlier calls, announces a variable count that covers every variable of every
clause and of every assumption of the call -/
theorem dimacs_wellformed (ops : List BOp) (as : List Lit) :
    let b := (ops.foldl Buffered.apply {}).withAssumptions as
    (∀ c ∈ b.clauses, ∀ l ∈ c, l.var ≤ b.nVars) ∧ (∀ a ∈ as, a.var ≤ b.nVars) :=
  Sat.dimacs_wellformed ops as

/-- a model / "unsatisfiable" is reported only when the reply carries the corresponding status
line; a reply without output is undecided -/
theorem reply_faithful (nv : Nat) (out : List UInt8) :
    (∀ m, parseReply nv out = .sat m → some (IO.strOf "s SATISFIABLE") ∈ IO.lines out) ∧
    (parseReply nv out = .unsat → some (IO.strOf "s UNSATISFIABLE") ∈ IO.lines out) ∧
    parseReply nv [] = .unknown :=
  ⟨(Sat.reply_faithful nv out).1, (Sat.reply_faithful nv out).2, rfl⟩

/-- a reported model has exactly one entry per declared variable -/
theorem model_covers_declared (nv : Nat) (out : List UInt8) (m : List (Option Bool))
    (h : parseReply nv out = .sat m) : m.length = nv := model_length nv out m h

/-- whatever the volume of the solver's output and whatever the pipe capacity, the policy "read the
output to the end, then wait for the process" returns; the policy "wait, then read" never returns
once the output exceeds the pipe capacity -/
theorem pipe_no_deadlock :
    (∀ cap out, 0 < cap → Pipe.run .drainThenWait cap (out + 3) (Pipe.start out) = .returned) ∧
    (∀ cap out, cap < out → ∀ fuel, Pipe.run .waitThenDrain cap fuel (Pipe.start out) ≠ .returned) :=
  ⟨fun cap out h => Pipe.drain_then_wait_returns cap h out, Pipe.wait_then_drain_deadlocks⟩

/-- **the DIMACS text denotes exactly the instance, and its header is exact.**  After any history
of clause additions, reservations and earlier calls (literals have a variable ≥ 1: Rust's
`Literal(NonZeroIsize)`), a reference DIMACS reader (`readDimacs`: header `p cnf V C`, one clause per
non-empty line, terminated by the only `0`) reads the text handed to the external program back as
exactly the clauses added so far followed by one unit clause per assumption; the number of clause
lines of the text **equals** the announced count, and every variable is between 1 and the
announced variable count. -/
theorem dimacs_text_exact (ops : List BOp) (as : List Lit)
    (hops : ∀ op ∈ ops, op.Proper) (has : ∀ a ∈ as, 1 ≤ a.var) :
    let b := ops.foldl Buffered.apply {}
    ∃ nv nc cls, readDimacs (b.dimacs as) = some (nv, nc, cls) ∧
      cls = b.clauses ++ as.map (fun a => [a]) ∧
      clauseLineCount (b.dimacs as) = nc ∧ cls.length = nc ∧
      ∀ c ∈ cls, ∀ l ∈ c, 1 ≤ l.var ∧ l.var ≤ nv :=
  Sat.dimacs_header_exact ops as hops has

/-- the hypothesis on literals is needed and is what the type guarantees: variable 0 would be
rendered as the clause terminator -/
theorem dimacs_variable_zero_breaks :
    readDimacs (Buffered.dimacs (({} : Buffered).addClause [pl 0, pl 1]) []) = none := Sat.readDimacs_var0

/-- **the printed model is reported as such**: a reply consisting of `s SATISFIABLE` and the
literals of a model `m` over the declared variables, split over `v` lines in any way (bare `v`
lines included), the last one closed by ` 0`, with comment lines (`c`, `c text`, empty; any valid
text without line break) anywhere — before the status line, between value lines, after the end —
is reported as exactly `m`; fewer literals than declared variables leave the rest undefined;
`s UNSATISFIABLE` among comment lines is reported as unsatisfiable.  (`isize` parsing of the
literals bounds the number of variables by `isize::MAX`: `reply_variable_bound_needed`.) -/
theorem wellformed_reply_reported (m : List Bool) (r : Nat) (lay : Layout) (hlay : lay.Ok)
    (hm : m.length + r ≤ 9223372036854775807) (nv : Nat) (pre post : List IO.Str)
    (hpre : ∀ l ∈ pre, Noise l) (hpost : ∀ l ∈ post, Noise l) :
    parseReply (m.length + r) (renderModel m lay) = .sat (m.map some ++ List.replicate r none) ∧
    parseReply nv (renderUnsat pre post) = .unsat :=
  ⟨Sat.parseReply_renderModel_pad m r lay hlay hm, Sat.parseReply_renderUnsat nv pre post hpre hpost⟩

theorem reply_variable_bound_needed (a : List Bool) (ha : a.length = 9223372036854775807) :
    parseReply (a ++ [true]).length (renderModel (a ++ [true]) ⟨[], [], [], []⟩) = .abort "not a literal" :=
  Sat.parseReply_renderModel_big a ha

/-- **a truncated reply is never a result**: every byte prefix of a well-formed satisfiable reply
that ends before the terminating `0` token — between lines, inside a line, inside a token, inside a
multi-byte character of a comment — is reported as undecided or aborts, whatever the number of
declared variables -/
theorem truncated_reply_is_no_result (nv : Nat) (m : List Bool) (lay : Layout) (hlay : lay.Ok)
    (out : List UInt8) (h : out <+: renderHead m lay) :
    (parseReply nv out = .unknown ∨ ∃ e, parseReply nv out = .abort e) ∧
    renderModel m lay = renderHead m lay ++ IO.encodeUtf8 (48 :: 10 :: lay.post.flatMap (fun l => l ++ [10])) :=
  ⟨Sat.truncated_reply_not_result nv m lay hlay out h, Sat.renderModel_eq_head m lay⟩

/-- non-vacuity: a layout with a comment before the status line, one value line with one literal,
a comment, and the closing value line -/
example : (⟨[[99]], [([], 1)], [[99, 32, 120]], []⟩ : Layout).Ok := by
  have ok1 : IO.LineOk [99] := ⟨by intro c hc; simp at hc; subst hc; unfold IO.Scalar; omega, by simp⟩
  have ok2 : IO.LineOk [99, 32, 120] :=
    ⟨by intro c hc; simp at hc; rcases hc with rfl | rfl | rfl <;> (unfold IO.Scalar; omega), by simp⟩
  refine ⟨?_, ?_, ?_, ?_⟩
  · intro l hl; simp at hl; subst hl; exact ⟨ok1, .inr (.inl rfl)⟩
  · intro ch hch l hl; simp at hch; subst hch; simp at hl
  · intro l hl; simp at hl; subst hl; exact ⟨ok2, .inr (.inr ⟨[120], rfl⟩)⟩
  · intro l hl; simp at hl

/-- **a malformed reply is never a result, wherever the malformed part is.**  (1) If any line of
the output is one the parser rejects (`BadLine`: invalid UTF-8; neither a status line, a `v ` line,
a comment, a bare `v` nor empty; a `v ` line with a token that is not an integer or a literal
beyond the declared variables — `badLine_*` give these sufficient conditions), the call aborts.
(2) Two status lines, in any order, anything in between, abort.  (3) In particular anything bad
*after* `s UNSATISFIABLE` or after `s SATISFIABLE` prevents the result from being reported — a
parser may not stop reading at the status line. -/
theorem malformed_reply_aborts (nv : Nat) (out : List UInt8) :
    ((∃ l ∈ IO.lines out, BadLine nv l) → ∃ e, parseReply nv out = .abort e) ∧
    (∀ (a b c : List (Option IO.Str)) (s1 s2 : Option IO.Str), StatusLine s1 → StatusLine s2 →
      IO.lines out = a ++ s1 :: (b ++ s2 :: c) → ∃ e, parseReply nv out = .abort e) ∧
    (∀ (a b : List (Option IO.Str)), IO.lines out = a ++ some sUnsat :: b →
      (∃ l ∈ b, BadLine nv l ∨ StatusLine l) → parseReply nv out ≠ .unsat) ∧
    (∀ (a b : List (Option IO.Str)), IO.lines out = a ++ some sSat :: b →
      (∃ l ∈ b, BadLine nv l ∨ StatusLine l) → ∀ m, parseReply nv out ≠ .sat m) :=
  ⟨Sat.bad_line_aborts nv out,
   fun a b c s1 s2 h1 h2 hl => Sat.two_status_lines_abort nv out a b c s1 s2 h1 h2 hl,
   fun a b hl hb => (Sat.unsat_then_anything_bad nv out a b hl hb).2,
   fun a b hl hb => (Sat.sat_then_anything_bad nv out a b hl hb).2⟩

/-- the classes of rejected lines -/
theorem rejected_lines (nv : Nat) :
    BadLine nv none ∧
    (∀ l : IO.Str, l ≠ IO.strOf "s SATISFIABLE" → l ≠ IO.strOf "s UNSATISFIABLE" →
      (IO.strOf "v ").isPrefixOf l = false → (IO.strOf "c ").isPrefixOf l = false →
      l ≠ IO.strOf "c" → l ≠ IO.strOf "v" → l ≠ [] → BadLine nv (some l)) ∧
    (∀ l : IO.Str, (IO.strOf "v ").isPrefixOf l = true →
      (∃ w ∈ (splitAsciiWs l).drop 1, BadTok nv w) → BadLine nv (some l)) :=
  ⟨Sat.badLine_none nv, fun l h1 h2 h3 h4 h5 h6 h7 => Sat.badLine_unexpected' nv l h1 h2 h3 h4 h5 h6 h7,
   fun l hp h => Sat.badLine_vline' nv l hp h⟩

/-- **the tokens of the exchange are those of the source**: the status lines, the value-line
prefix, the comment prefix, the two bare lines that are skipped and the DIMACS header prefix are
regenerated from `src/sat/buffered_sat_solver.rs` on every run (the generator also insists on the
shape of the if-chain: status tests first, `split_ascii_whitespace().skip(1)`, `parse::<isize>`);
the string literals of the Lean reply parser and DIMACS renderer are exactly these -/
theorem exchange_tokens_are_the_source :
    Gen.statusLines = [IO.strOf "s SATISFIABLE", IO.strOf "s UNSATISFIABLE"] ∧
    Gen.valuePrefix = IO.strOf "v " ∧ Gen.commentPrefix = IO.strOf "c " ∧
    Gen.bareLines = [IO.strOf "c", IO.strOf "v"] ∧ Gen.dimacsHeaderPrefix = IO.strOf "p cnf " := by
  rw [Sat.strOf_sSat, Sat.strOf_sUnsat, Sat.strOf_v_sp, Sat.strOf_c_sp, Sat.strOf_c, Sat.strOf_v, Sat.strOf_p_cnf]
  decide

end Crusta.C16
