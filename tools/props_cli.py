"""C05: black-box runs of the two binaries; answers judged by the Lean oracle."""
import os
import random
import subprocess
from concurrent.futures import ThreadPoolExecutor

import common
import gen
from engine import Property, Finding
import props_io

SEMS = ["GR", "CO", "PR", "ST", "SST", "STG", "ID"]
TASKS = ["SE", "DC", "DS"]
PROBLEMS = ["%s-%s" % (t, s) for s in SEMS for t in TASKS]


def is_answer_line(l):
    return l in ("YES", "NO") or l.startswith("w") or l.startswith("[")


def recase(rng, s):
    return "".join(c.lower() if rng.random() < 0.5 else c.upper() for c in s)


def _parse_solver_out(out, nvars):
    """reply of the external program as the driver's reply line (bits over the declared variables)"""
    txt = out.decode(errors="replace")
    status = None
    bits = ["?"] * nvars
    for l in txt.split("\n"):
        if l == "s SATISFIABLE":
            status = True
        elif l == "s UNSATISFIABLE":
            status = False
        elif l.startswith("v "):
            for t in l.split()[1:]:
                try:
                    k = int(t)
                except ValueError:
                    continue
                if k != 0 and abs(k) <= nvars:
                    bits[abs(k) - 1] = "+" if k > 0 else "-"
    if status is True:
        return "S 0 s " + "".join(bits) if nvars else "S 0 s"
    if status is False:
        return "S 0 u"
    return "S 0 k"


def dispatch_frameworks(rng, tier):
    """frameworks on which the semantics (and hence a wrongly dispatched solver or encoder) differ"""
    fws = [
        (3, [(0, 1), (1, 2), (2, 2)]),                                   # stage != semi-stable, no stable extension
        (7, [(0, 4), (4, 1), (1, 2), (2, 3), (3, 1), (5, 6), (6, 5)]),   # odd cycle fed by a chain + a 2-cycle
        (5, [(0, 1), (1, 0), (1, 2), (2, 3), (3, 4), (4, 2)]),           # preferred != complete != grounded
        (4, [(0, 1), (1, 0), (0, 2), (1, 2), (2, 3)]),                   # floating acceptance
        gen.funnel(5, 2),                                                 # above the hybrid threshold
    ]
    for _ in range(3 if tier == "quick" else 40):
        n, atts = gen.random_framework(rng, 8)
        if n:
            fws.append((n, atts))
    # medium-size frameworks (answers compared with the composed model only; the oracle is exponential)
    for _ in range(2 if tier == "quick" else 12):
        order = list(range(rng.randint(14, 36)))
        rng.shuffle(order)
        atts = []
        for i in range(1, len(order)):
            for _ in range(1 if rng.random() < 0.8 else 2):
                atts.append((order[rng.randrange(max(0, i - 5), i)], order[i]))
        a, b = rng.sample(order, 2)
        atts += [(a, b), (b, a)]
        fws.append((len(order), list(dict.fromkeys(atts))))
    return fws


class C05(Property):
    id = "C05"
    families = []
    needs_bins = True
    rule = ("generated instance files (both formats, layout variation as in C13) x the 21 problems (random case) x every argument x CLI options (reader, encoding, certificate flag, logging level off) "
            "on `crustabri solve` and on the ICCMA'23 wrapper (8% of the runs with logging on: lines prefixed `![` are log lines, the rest must be exactly the answer), the `authors` / help invocations; stdout must be exactly the status line and/or one witness line, exit status 0, and the answer is judged by the Lean oracle (witness validated "
            "against the semantics, not against a particular extension); malformed invocations (unreadable or ill-formed file, unknown problem, missing -a, unknown argument, unknown reader/encoding/level, "
            "duplicate and unknown options) must exit non-zero without any answer line; `--problems` / `problems` must list exactly the 21 problems; "
            "dispatch correspondence: on frameworks that separate the semantics (no stable extension, stage != semi-stable, preferred != complete, above the hybrid threshold, random ones, two of 14-36 arguments) every problem x "
            "every --encoding value (and `SE-PR` literal vs recased) is run with --external-sat-solver pointing to a recording script: the DIMACS text of every SAT call must equal (header, and clauses up to clause and literal order) the text "
            "rendered by the composed Lean model (readProblem, dispatchSolver, dispatchEncoder, entryProg, Buffered.dimacs) replayed on the recorded replies, the printed answer must equal the model's, "
            "and is judged by the oracle as well; the problem-string parser is compared with Cli.readProblem on the 21 problems and mutations of them (case, extra / missing / doubled hyphens, blanks, swapped parts, non-ASCII look-alikes) and on random concatenations of name pieces; `crustabri check` on well- and ill-formed files of both formats (the C13 generator) must exit 0 exactly when the Lean reader model accepts the file; non-trivial = invocation on a framework with an attack")
    assumptions = ["clap 2.34 and process exit plumbing are trusted; help requests exit 0 by design and are not errors",
                   "log lines (prefix `![`) are not answers; they appear on stdout only when logging is not off or on usage errors"]

    def cases(self, tier, rng):
        return []

    def extra(self, ctx):
        rng = random.Random(ctx["seed"])
        findings, cov = self.judged_invocations(ctx, rng)
        f2, c2 = self.dispatch_trace(ctx, rng)
        findings += f2
        cov.update(c2)
        f2b, c2b = self.search_after_dispatch_break(ctx, rng, f2)
        findings += f2b
        cov.update(c2b)
        f3, c3 = self.problem_strings(ctx, rng)
        findings += f3
        cov.update(c3)
        f4, c4 = self.check_command(ctx, rng)
        findings += f4
        cov.update(c4)
        f5, c5 = self.unwritable_stdout(ctx, rng)
        findings += f5
        cov.update(c5)
        self._cov = cov
        return findings, cov

    # ---- random invocations of both binaries on files of both formats: every printed answer judged ----
    def judged_invocations(self, ctx, rng, tasks=None, errors=True, nfiles=None):
        """tasks: restriction to some task kinds (used by C04); errors=False leaves out the malformed / informational invocations"""
        tier, runner = ctx["tier"], ctx["runner"]
        problems = [p for p in PROBLEMS if tasks is None or p.split("-")[0] in tasks]
        crust = os.path.join(common.REPO_TARGET, "release", "crustabri")
        wrap = os.path.join(common.REPO_TARGET, "release", "crustabri_iccma23")
        d = runner.dir
        jobs = []   # (kind, cmd, meta)
        nfiles = nfiles or (24 if tier == "quick" else 200)
        files = []
        for i in range(nfiles):
            n, atts = gen.random_framework(rng, 6)
            if n == 0:
                n, atts = 1, []
            fmt = "iccma" if i % 3 != 2 else "apx"
            if fmt == "iccma":
                b, exp = props_io.iccma_file(rng, n, atts, None)
                labels = [str(k + 1) for k in range(n)]
                exp_atts = list(atts)
            else:
                b, exp = props_io.apx_file(rng, n, atts, None)
                labels = exp[1]
                exp_atts = exp[2]
            path = os.path.join(d, "inst_%d.%s" % (i, "af" if fmt == "iccma" else "apx"))
            open(path, "wb").write(b)
            files.append((path, fmt, labels, exp_atts, len(labels)))
        # well-formed invocations
        per_file = 10 if tier == "quick" else 14
        for (path, fmt, labels, atts, n) in files:
            for _ in range(per_file):
                prob = rng.choice(problems)
                t, s = prob.split("-")
                shown = prob if rng.random() < 0.5 else recase(rng, prob)
                arg = rng.choice(labels) if t != "SE" else None
                cert = rng.random() < 0.5
                enc = rng.choice([None, None, "aux_var", "exp", "hybrid"])
                use_wrap = fmt == "iccma" and rng.random() < 0.35
                if use_wrap:
                    cmd = [wrap, "-f", path, "-p", shown]
                    if arg:
                        cmd += ["-a", arg]
                    cert = True
                    enc = None
                else:
                    loglevel = "off" if rng.random() < 0.92 else rng.choice(["info", "debug", "warn", "error"])
                    cmd = [crust, "solve", "-f", path, "-p", shown, "--logging-level", loglevel]
                    if t == "SE" and labels and rng.random() < 0.1:
                        cmd += ["-a", rng.choice(labels)]      # superfluous for SE problems: ignored (a warning is logged)
                    if fmt == "apx":
                        cmd += ["-r", "apx"] if rng.random() < 0.5 else ["--reader=apx"]
                    elif rng.random() < 0.3:
                        cmd += ["--reader", "iccma23"]
                    if arg:
                        cmd += ["-a", arg]
                    if cert:
                        cmd += [rng.choice(["-c", "--with-certificate"])]
                    if enc:
                        cmd += ["--encoding", enc]
                    if rng.random() < 0.1 and os.path.exists("/usr/local/bin/kissat"):
                        # a real external solver (exit status 10 / 20) with an option passed through
                        cmd += ["--external-sat-solver", "/usr/local/bin/kissat", "--external-sat-solver-opt=-q"]
                    rng.shuffle(cmd[2:]) if False else None
                jobs.append(("ok", cmd, dict(fmt=fmt, labels=labels, atts=atts, n=n, task=t, sem=s, arg=arg, cert=cert, literal=shown)))
        # malformed invocations
        good = files[0]
        bad_file = os.path.join(d, "bad.af")
        open(bad_file, "wb").write(b"p af 2\n1 3\n")
        bad_apx = os.path.join(d, "bad.apx")
        open(bad_apx, "wb").write(b"arg(a).\natt(a,b).\n")
        errs = [
            ["solve", "-f", os.path.join(d, "does_not_exist.af"), "-p", "SE-GR"],
            ["solve", "-f", bad_file, "-p", "SE-GR"],
            ["solve", "-f", bad_apx, "-p", "SE-GR", "-r", "apx"],
            ["solve", "-f", good[0], "-p", "SE-XX"],
            ["solve", "-f", good[0], "-p", "XX-GR"],
            ["solve", "-f", good[0], "-p", "SEGR"],
            ["solve", "-f", good[0], "-p", "SE-GR-"],
            ["solve", "-f", good[0], "-p", ""],
            ["solve", "-f", good[0], "-p", "DC-CO"],
            ["solve", "-f", good[0], "-p", "DS-PR"],
            ["solve", "-f", good[0], "-p", "DC-CO", "-a", "0"],
            ["solve", "-f", good[0], "-p", "DC-CO", "-a", str(good[4] + 1)],
            ["solve", "-f", good[0], "-p", "DC-CO", "-a", "zz"],
            ["solve", "-f", good[0], "-p", "SE-GR", "-r", "nope"],
            ["solve", "-f", good[0], "-p", "SE-PR", "--encoding", "nope"],
            ["solve", "-f", good[0], "-p", "SE-GR", "--logging-level", "nope"],
            ["solve", "-f", good[0], "-p", "SE-GR", "-p", "SE-CO"],
            ["solve", "-f", good[0], "-p", "SE-GR", "--frobnicate"],
            ["solve", "-p", "SE-GR"],
            ["solve", "-f", good[0]],
            ["solve", "-f", good[0], "-p", "SE-GR", "-r", "iccma23_aba"],
            ["frobnicate"],
            [],
        ]
        # near misses of a declared label in an Aspartix file: not an argument of the framework
        for (apath, afmt, alabels, _aatts, _an) in [f for f in files if f[1] == "apx" and f[2]][:3]:
            lab = alabels[0]
            for bad in (lab + "x", lab[:-1] or "q", lab.swapcase() if lab.swapcase() != lab else lab + "_", " " + lab + "z",
                        lab + ".x", lab + " y", "1" + lab, lab + "-1", "(" + lab + ")", lab + ","):
                if bad not in alabels and bad.strip() not in alabels:
                    errs.append(["solve", "-f", apath, "-r", "apx", "-p", "DC-CO", "-a", bad])
        if not errors:
            errs = []
        for e in errs:
            cmd = [crust] + e
            if "--logging-level" not in e and e and e[0] == "solve":
                cmd += ["--logging-level", "off"]
            jobs.append(("err", cmd, {}))
        if errors:
            for e in (["-f", os.path.join(d, "nope.af"), "-p", "SE-GR"], ["-f", bad_file, "-p", "DC-CO", "-a", "1"], ["-f", good[0], "-p", "DC-CO"],
                      ["-f", good[0], "-p", "ZZ-GR"], ["-p", "SE-GR"], ["-f", good[0], "-p", "DC-ST", "-a", "99"]):
                jobs.append(("err", [wrap] + e, {}))
            jobs.append(("info", [crust, "authors", "--logging-level", "off"], {"what": "authors"}))
            jobs.append(("info", [wrap], {"what": "authors"}))
            jobs.append(("info", [crust, "--help"], {"what": "help"}))
            jobs.append(("info", [crust, "solve", "--help"], {"what": "help"}))
            jobs.append(("info", [crust, "solve", "-h"], {"what": "help"}))
            jobs.append(("problems", [crust, "problems", "--logging-level", "off"], {}))
            jobs.append(("problems", [wrap, "--problems"], {}))

        def run(job):
            kind, cmd, meta = job
            try:
                p = subprocess.run(cmd, stdout=subprocess.PIPE, stderr=subprocess.PIPE, timeout=120)
                return (p.returncode, p.stdout.decode(errors="replace"), p.stderr.decode(errors="replace"))
            except subprocess.TimeoutExpired:
                return (None, "", "timeout")
        with ThreadPoolExecutor(max_workers=16) as ex:
            results = list(ex.map(run, jobs))
        findings = []
        blocks = []
        judged = []
        for i, ((kind, cmd, meta), (rc, out, err)) in enumerate(zip(jobs, results)):
            shown = " ".join(cmd)
            lines = out.split("\n")
            if lines and lines[-1] == "":
                lines = lines[:-1]
            if kind == "ok" and "--logging-level" in cmd and cmd[cmd.index("--logging-level") + 1] != "off":
                lines = [l for l in lines if not l.startswith("![")]     # log lines carry the prefix `![`
            if kind == "info":
                body = [l for l in lines if l.strip()]
                if meta["what"] == "authors":
                    ok = rc == 0 and len(body) == 2 and body[0].startswith("crustabri ") and not any(is_answer_line(l) for l in body)
                else:   # help: everything goes through the logger
                    ok = rc == 0 and body and all(l.startswith("![") for l in body)
                if not ok:
                    findings.append(Finding("input", None, "unexpected output or exit status %s for the %s invocation: %r" % (rc, meta["what"], out[:120]),
                                            "cli · %s invocation" % meta["what"], {"cmd": shown}))
                continue
            if kind == "err":
                if rc == 0 or rc is None:
                    findings.append(Finding("input", None, "usage/input error but exit status %s: %s" % (rc, shown[-120:]), "cli · error with exit status 0", {"cmd": shown, "stdout": out[:200]}))
                elif any(is_answer_line(l) for l in lines):
                    findings.append(Finding("input", None, "an answer line was printed although the invocation is erroneous: %s" % shown[-120:], "cli · answer printed on error", {"cmd": shown, "stdout": out[:200]}))
                continue
            if kind == "problems":
                exp = "[" + ",".join(PROBLEMS) + "]"
                if rc != 0 or lines != [exp]:
                    findings.append(Finding("input", None, "the problems listing is not exactly the 21 problems: %r" % out[:200], "cli · problems listing", {"cmd": shown}))
                continue
            # well-formed solve
            t, s = meta["task"], meta["sem"]
            entry = "%s-%s%s" % (t, s, " (wrapper)" if cmd[0] == wrap else "")
            if rc != 0:
                findings.append(Finding("input", None, "exit status %s on a valid invocation: %s | stderr=%s stdout=%s" % (rc, shown[-150:], err[-120:], out[-120:]),
                                        "cli/%s-%s · non-zero exit on valid invocation" % (t, s), {"cmd": shown, "file": open(cmd[cmd.index("-f") + 1], "rb").read().decode(errors="replace")[:300]}))
                continue
            # shape of stdout
            labels = meta["labels"]
            fmt = meta["fmt"]

            def parse_w(l):
                if fmt == "iccma":
                    if not (l == "w" or l.startswith("w ")):
                        return None
                    return l.split(" ")[1:] if l != "w" else []
                if not (l.startswith("[") and l.endswith("]")):
                    return None
                return [x for x in l[1:-1].split(",") if x]
            ans = None
            ok_shape = True
            if t == "SE":
                if lines == ["NO"]:
                    ans = "ans SE ext=NONE members=1"
                elif len(lines) == 1 and parse_w(lines[0]) is not None:
                    w = parse_w(lines[0])
                    ans = ("SE", w)
                else:
                    ok_shape = False
            else:
                if not lines or lines[0] not in ("YES", "NO") or len(lines) > 2:
                    ok_shape = False
                else:
                    w = None
                    if len(lines) == 2:
                        w = parse_w(lines[1])
                        if w is None:
                            ok_shape = False
                    ans = ("ACC", lines[0], w)
            if not ok_shape:
                findings.append(Finding("input", None, "stdout is not a well-formed answer: %r (%s)" % (out[:120], shown[-100:]), "cli/%s-%s · malformed stdout" % (t, s), {"cmd": shown}))
                continue
            # to the oracle
            def dense(ws):
                try:
                    return ",".join(str(labels.index(x)) for x in ws) if ws else "[]"
                except ValueError:
                    return None
            jsem = "CO" if (t == "DC" and s == "PR") else s
            fwl = "fw n=%d labels=- ids=- atts=%s" % (meta["n"], ",".join("%d>%d" % p for p in meta["atts"]))
            if isinstance(ans, str):
                al = ans
                ql = "query sem=%s enc=- task=SE cert=0 args=-" % jsem
            elif ans[0] == "SE":
                dz = dense(ans[1])
                if dz is None:
                    findings.append(Finding("input", None, "witness names an unknown argument: %r" % out[:100], "cli/%s-%s · unknown argument in witness" % (t, s), {"cmd": shown}))
                    continue
                al = "ans SE ext=%s members=1" % dz
                ql = "query sem=%s enc=- task=SE cert=0 args=-" % jsem
            else:
                cert = meta["cert"]
                if ans[2] is None:
                    cs = "NONE" if cert else "-"
                else:
                    cs = dense(ans[2])
                    if cs is None:
                        findings.append(Finding("input", None, "witness names an unknown argument: %r" % out[:100], "cli/%s-%s · unknown argument in witness" % (t, s), {"cmd": shown}))
                        continue
                    if not cert:
                        findings.append(Finding("input", None, "a witness was printed although no certificate was requested: %r" % out[:100], "cli/%s-%s · unrequested witness" % (t, s), {"cmd": shown}))
                        continue
                al = "ans ACC status=%s cert=%s members=1" % (ans[1], cs)
                ql = "query sem=%s enc=- task=%s cert=%d args=%d" % (jsem, t, 1 if cert else 0, labels.index(meta["arg"]))
            blocks.append("case c%d solve\n%s\n%s\n%s\nunchanged 1\nend\n" % (i, fwl, ql, al))
            judged.append((i, shown, entry, t, s))
        _, model = runner.driver("".join(blocks))
        for (i, shown, entry, t, s) in judged:
            for v in model.get("c%d" % i, []):
                if v.startswith("verdict BAD"):
                    findings.append(Finding("input", None, "wrong answer printed for %s: %s | %s" % (entry, v[12:], shown[-140:]),
                                            "cli/%s-%s · %s" % (t, s, v[12:]), {"cmd": shown, "stdout": results[i][1][:200],
                                                                                "file": open(jobs[i][1][jobs[i][1].index("-f") + 1], "rb").read().decode(errors="replace")[:400]}))
        cov = {"evaluations": len(jobs), "distinct_nontrivial": len(set(" ".join(j[1][1:]) for j in jobs if j[0] == "ok" and j[2]["atts"])),
               "cli_valid_invocations": len([j for j in jobs if j[0] == "ok"]), "cli_answers_judged": len(judged),
               "cli_error_invocations": len([j for j in jobs if j[0] == "err"]),
               "samples": [" ".join(j[1]) for j in jobs[:2]] + [" ".join(j[1]) for j in jobs if j[0] == "err"][:2]}
        return findings, cov

    # ---- dispatch correspondence: the CLI run against a recording external solver = the composed Lean model ----
    def dispatch_trace(self, ctx, rng, tasks=None, force_cert=None):
        """tasks / force_cert: restriction used by C04 (acceptance problems, certificate always requested)"""
        tier, runner = ctx["tier"], ctx["runner"]
        crust = os.path.join(common.REPO_TARGET, "release", "crustabri")
        fake = os.path.join(common.VERIF, "tools", "fakesolver.py")
        d = runner.dir
        jobs = []
        fws = dispatch_frameworks(rng, tier)
        for fi, (n, atts) in enumerate(fws):
            path = os.path.join(d, "disp_%d.af" % fi)
            open(path, "w").write("p af %d\n" % n + "".join("%d %d\n" % (a + 1, b + 1) for a, b in atts))
            for prob in PROBLEMS:
                t, sem = prob.split("-")
                if tasks is not None and t not in tasks:
                    continue
                shown_variants = [prob]
                if prob == "SE-PR" or rng.random() < 0.15:
                    shown_variants.append(recase(rng, prob) if prob != "SE-PR" else "se-pr")
                for shown in shown_variants:
                    for enc in [None, "aux_var", "exp", "hybrid"]:
                        if tier == "quick" and fi >= 5 and rng.random() < 0.5:
                            continue
                        arg = rng.randrange(n) if t != "SE" else None
                        cert = rng.random() < 0.5 if force_cert is None else force_cert
                        k = len(jobs)
                        cap = os.path.join(d, "cap_%d" % k)
                        os.makedirs(cap, exist_ok=True)
                        cmd = [crust, "solve", "-f", path, "-p", shown, "--logging-level", "off", "--external-sat-solver", fake]
                        if arg is not None:
                            cmd += ["-a", str(arg + 1)]
                        if cert:
                            cmd += ["-c"]
                        if enc:
                            cmd += ["--encoding", enc]
                        jobs.append(dict(cmd=cmd, cap=cap, n=n, atts=atts, shown=shown, enc=enc, cert=cert, arg=arg, t=t, sem=sem))

        def run(job):
            env = dict(os.environ, FAKE_STATE=os.path.join(job["cap"], "state"), FAKE_CAPTURE=job["cap"])
            try:
                pr = subprocess.run(job["cmd"], env=env, stdout=subprocess.PIPE, stderr=subprocess.PIPE, timeout=120)
                return (pr.returncode, pr.stdout.decode(errors="replace"), pr.stderr.decode(errors="replace"))
            except subprocess.TimeoutExpired:
                return (None, "", "timeout")
        with ThreadPoolExecutor(max_workers=16) as ex:
            results = list(ex.map(run, jobs))
        blocks = []
        expected = {}
        findings = []
        ncalls = 0
        for k, (job, (rc, out, err)) in enumerate(zip(jobs, results)):
            shown = " ".join(job["cmd"])
            if rc != 0:
                findings.append(Finding("input", None, "exit status %s on a valid invocation with an external SAT solver: %s | %s" % (rc, shown[-160:], err[-120:]),
                                        "cli/%s-%s · non-zero exit with external solver" % (job["t"], job["sem"]), {"cmd": shown}))
                continue
            insts, replies = [], []
            i = 1
            while os.path.exists(os.path.join(job["cap"], "in_%d" % i)):
                data = open(os.path.join(job["cap"], "in_%d" % i), "rb").read()
                insts.append(data.decode(errors="replace").replace("\n", "|"))
                head = data.split(b"\n", 1)[0].split()
                nv = int(head[2]) if len(head) >= 4 and head[0] == b"p" else 0
                op = os.path.join(job["cap"], "out_%d" % i)
                replies.append(_parse_solver_out(open(op, "rb").read() if os.path.exists(op) else b"", nv))
                i += 1
            ncalls += len(insts)
            lines = out.split("\n")
            if lines and lines[-1] == "":
                lines = lines[:-1]
            # the printed answer in the driver's notation (ICCMA labels are id + 1)
            t = job["t"]

            def dense(ws):
                return ",".join(str(int(x) - 1) for x in ws) if ws else "[]"
            try:
                if t == "SE":
                    ans = "ans SE ext=NONE members=1" if lines == ["NO"] else "ans SE ext=%s members=1" % dense(lines[0].split(" ")[1:])
                else:
                    w = lines[1].split(" ")[1:] if len(lines) == 2 else None
                    cs = ("NONE" if job["cert"] else "-") if w is None else dense(w)
                    ans = "ans ACC status=%s cert=%s members=1" % (lines[0], cs)
            except (IndexError, ValueError):
                ans = "unparsable stdout %r" % out[:80]
            expected[k] = (insts, ans)
            fw = "i:%d:%s" % (job["n"], ",".join("%d>%d" % (a + 1, b + 1) for a, b in job["atts"]))
            if not ans.startswith("unparsable"):
                jsem = "CO" if (t == "DC" and job["sem"] == "PR") else job["sem"]
                blocks.append("case j%d solve\nfw n=%d labels=- ids=- atts=%s\nquery sem=%s enc=- task=%s cert=%d args=%s\n%s\nunchanged 1\nend\n" % (
                    k, job["n"], ",".join("%d>%d" % pq for pq in job["atts"]), jsem, t, 1 if (job["cert"] and t != "SE") else 0,
                    "-" if job["arg"] is None else str(job["arg"]), ans))
            blocks.append("case d%d cli\nin fw=%s problem=%s enc=%s cert=%d arg=%s\n%s%send\n" % (
                k, fw, job["shown"], job["enc"] or "-", 1 if job["cert"] else 0, "-" if job["arg"] is None else str(job["arg"]),
                "\n".join(replies), "\n" if replies else ""))
        _, model = runner.driver("".join(blocks))
        combos = set()
        nbytes_cmp = 0
        for k, (insts, ans) in expected.items():
            job = jobs[k]
            shown = " ".join(job["cmd"])
            m = model.get("d%d" % k, [])
            minst = [l[5:] for l in m if l.startswith("inst ")]
            mans = [l for l in m if l.startswith("ans ") or l.startswith("panic") or l.startswith("T-") or l.startswith("rejected")]
            disp = [l for l in m if l.startswith("dispatch ")]
            combos.add((job["t"], job["sem"], job["enc"], job["shown"] == "SE-PR"))
            entry = "%s-%s enc=%s" % (job["t"], job["sem"], job["enc"] or "default")
            for v in model.get("j%d" % k, []):
                if v.startswith("verdict BAD"):
                    findings.append(Finding("input", None, "wrong answer printed for %s: %s | %s" % (entry, v[12:], shown[-160:]),
                                            "cli/%s-%s · %s" % (job["t"], job["sem"], v[12:]),
                                            {"cmd": shown, "stdout": results[k][1][:200], "file": open(job["cmd"][job["cmd"].index("-f") + 1]).read()}))
            def canon(text):
                # header + multiset of clauses with sorted literals: clause and literal order are not part of the contract
                ls = [x for x in text.split("|") if x]
                body = sorted(" ".join(sorted(x.split()[:-1], key=lambda z: (abs(int(z)), z)) + ["0"]) if x and x.split()[-1] == "0" and all(t.lstrip("-").isdigit() for t in x.split()) else x for x in ls[1:])
                return ls[:1] + body
            if minst != insts and [canon(x) for x in minst] != [canon(x) for x in insts]:
                j = next((x for x in range(min(len(minst), len(insts))) if minst[x] != insts[x]), min(len(minst), len(insts)))
                findings.append(Finding("model", None,
                                        "the SAT instances the CLI hands to the external solver differ from those of the composed Lean model (%s) at call %d of %d/%d: impl %r model %r | %s"
                                        % (disp[0] if disp else "?", j + 1, len(insts), len(minst), (insts[j] if j < len(insts) else "-")[:100], (minst[j] if j < len(minst) else "-")[:100], shown[-150:]),
                                        "cli/%s · dispatch or encoding differs from the model" % entry,
                                        {"cmd": shown, "file": open(job["cmd"][job["cmd"].index("-f") + 1]).read(), "theorem": "correspondence cli family (Driver/Cli.lean: readProblem, dispatchSolver, dispatchEncoder, entryProg)"}))
            elif mans[:1] != [ans]:
                findings.append(Finding("model", None, "the answer printed by the CLI differs from the answer of the composed Lean model on the same SAT replies: impl %r model %r | %s" % (ans, mans[:1], shown[-150:]),
                                        "cli/%s · printed answer differs from the model" % entry, {"cmd": shown, "stdout": out[:200]}))
            else:
                # byte for byte: what the binary printed = the text of the model (Model/CliOut.lean: stdoutIccma), the subject of
                # the theorem cli_stdout_on_readable_file
                mso = [l[7:] for l in m if l.startswith("stdout ")]
                real = results[k][1].encode().hex()
                nbytes_cmp += 1
                if mso[:1] != [real]:
                    findings.append(Finding("model", None, "the bytes printed on stdout differ from the text of the Lean model: impl %r model %r | %s" % (
                        results[k][1][:80], bytes.fromhex(mso[0]).decode(errors="replace")[:80] if mso else None, shown[-150:]),
                        "cli/%s · stdout bytes differ from the model" % entry, {"cmd": shown, "stdout": results[k][1][:200], "theorem": "correspondence cli family (Model/CliOut.lean: stdoutIccma)"}))
        return findings, {"cli_dispatch_runs": len(jobs), "cli_dispatch_sat_calls_compared": ncalls, "cli_dispatch_combinations": len(combos),
                          "cli_dispatch_frameworks": len(fws), "cli_stdout_bytes_compared_with_model": nbytes_cmp}

    # ---- one query under every configuration of the command line (C06) ----
    def config_matrix(self, ctx, rng):
        """each (framework, problem, argument) is run with --encoding {default, aux_var, exp, hybrid} x {embedded solver, kissat as external
        process} x {with, without certificate}: the status (first stdout line; for SE: whether an extension exists) must be the same in
        all 16 runs, and every printed answer is judged"""
        tier, runner = ctx["tier"], ctx["runner"]
        crust = os.path.join(common.REPO_TARGET, "release", "crustabri")
        kissat = "/usr/local/bin/kissat"
        backends = [None] + ([kissat] if os.path.exists(kissat) else [])
        d = runner.dir
        fws = dispatch_frameworks(rng, "quick")[:6]
        for _ in range(6 if tier == "quick" else 120):
            n, atts = gen.gadget_union(rng, 8) if rng.random() < 0.5 else gen.random_framework(rng, 7)
            if n:
                fws.append((n, atts))
        jobs = []
        for fi, (n, atts) in enumerate(fws):
            path = os.path.join(d, "cfg_%d.af" % fi)
            open(path, "w").write("p af %d\n" % n + "".join("%d %d\n" % (a + 1, b + 1) for a, b in atts))
            for prob in rng.sample(PROBLEMS, 8 if tier == "quick" else 21):
                t, sem = prob.split("-")
                arg = rng.randrange(n) if t != "SE" else None
                for enc in [None, "aux_var", "exp", "hybrid"]:
                    for be in backends:
                        for cert in (False, True):
                            cmd = [crust, "solve", "-f", path, "-p", prob, "--logging-level", "off"]
                            if arg is not None:
                                cmd += ["-a", str(arg + 1)]
                            if cert:
                                cmd += ["-c"]
                            if enc:
                                cmd += ["--encoding", enc]
                            if be:
                                cmd += ["--external-sat-solver", be, "--external-sat-solver-opt=-q"]
                            jobs.append(dict(cmd=cmd, key=(fi, prob, arg), n=n, atts=atts, t=t, sem=sem, enc=enc, be=be, cert=cert, arg=arg, path=path))

        # chains of bridged semantic gadgets (skeptically accepted arguments outside the grounded extension, long searches):
        # every argument, with and without certificate, built-in solver, default encoding
        import props_meta
        for bi in range(40 if tier == "quick" else 1500):
            n, atts = props_meta.bridged_gadgets(rng)
            if n > 12:
                continue      # the judge is exponential
            path = os.path.join(d, "cfgb_%d.af" % bi)
            open(path, "w").write("p af %d\n" % n + "".join("%d %d\n" % (a + 1, b + 1) for a, b in atts))
            prob = rng.choice(["DS-PR", "DS-PR", "DS-ID", "DS-SST", "DC-SST", "DS-STG", "DC-ID"])
            t, sem = prob.split("-")
            for arg in range(n):
                for cert in (False, True):
                    cmd = [crust, "solve", "-f", path, "-p", prob, "--logging-level", "off", "-a", str(arg + 1)] + (["-c"] if cert else [])
                    jobs.append(dict(cmd=cmd, key=("b%d" % bi, prob, arg), n=n, atts=atts, t=t, sem=sem, enc=None, be=None, cert=cert, arg=arg, path=path))

        def run(job):
            try:
                pr = subprocess.run(job["cmd"], stdout=subprocess.PIPE, stderr=subprocess.PIPE, timeout=120)
                return (pr.returncode, pr.stdout.decode(errors="replace"))
            except subprocess.TimeoutExpired:
                return (None, "")
        with ThreadPoolExecutor(max_workers=16) as ex:
            results = list(ex.map(run, jobs))
        findings = []
        blocks = []
        status = {}
        for k, (job, (rc, out)) in enumerate(zip(jobs, results)):
            shown = " ".join(job["cmd"])
            cfg = "enc=%s backend=%s cert=%d" % (job["enc"] or "default", "external" if job["be"] else "embedded", job["cert"])
            if rc != 0:
                findings.append(Finding("input", None, "exit status %s under configuration %s: %s" % (rc, cfg, shown[-150:]), "cli-config/%s-%s · non-zero exit" % (job["t"], job["sem"]), {"cmd": shown}))
                continue
            lines = out.split("\n")
            if lines and lines[-1] == "":
                lines = lines[:-1]
            t = job["t"]

            def dense(ws):
                return ",".join(str(int(x) - 1) for x in ws) if ws else "[]"
            try:
                if t == "SE":
                    st = "NO" if lines == ["NO"] else "EXT"
                    ans = "ans SE ext=NONE members=1" if lines == ["NO"] else "ans SE ext=%s members=1" % dense(lines[0].split(" ")[1:])
                else:
                    st = lines[0]
                    w = lines[1].split(" ")[1:] if len(lines) == 2 else None
                    ans = "ans ACC status=%s cert=%s members=1" % (lines[0], ("NONE" if job["cert"] else "-") if w is None else dense(w))
            except (IndexError, ValueError):
                findings.append(Finding("input", None, "unparsable stdout %r under %s" % (out[:80], cfg), "cli-config/%s-%s · malformed stdout" % (job["t"], job["sem"]), {"cmd": shown}))
                continue
            status.setdefault(job["key"], []).append((st, cfg, shown))
            jsem = "CO" if (t == "DC" and job["sem"] == "PR") else job["sem"]
            blocks.append("case m%d solve\nfw n=%d labels=- ids=- atts=%s\nquery sem=%s enc=- task=%s cert=%d args=%s\n%s\nunchanged 1\nend\n" % (
                k, job["n"], ",".join("%d>%d" % pq for pq in job["atts"]), jsem, t, 1 if (job["cert"] and t != "SE") else 0,
                "-" if job["arg"] is None else str(job["arg"]), ans))
        _, model = runner.driver("".join(blocks))
        for k, job in enumerate(jobs):
            for v in model.get("m%d" % k, []):
                if v.startswith("verdict BAD"):
                    shown = " ".join(job["cmd"])
                    findings.append(Finding("input", None, "wrong answer printed for %s-%s (enc=%s, %s backend): %s | %s" % (job["t"], job["sem"], job["enc"] or "default", "external" if job["be"] else "embedded", v[12:], shown[-160:]),
                                            "cli-config/%s-%s · %s" % (job["t"], job["sem"], v[12:]), {"cmd": shown, "stdout": results[k][1][:200], "file": open(job["path"]).read()}))
        for key, sts in status.items():
            if len(set(s for s, _, _ in sts)) > 1:
                a = sts[0]
                b = next(x for x in sts if x[0] != a[0])
                findings.append(Finding("input", None, "%s: status %s under (%s) but %s under (%s) | %s" % (key[1], a[0], a[1], b[0], b[1], b[2][-150:]),
                                        "cli-config/%s · status depends on the configuration" % key[1], {"cmd_a": a[2], "cmd_b": b[2], "file": open(a[2].split(" -f ")[1].split(" ")[0]).read()}))
        return findings, {"cli_config_matrix_runs": len(jobs), "cli_config_matrix_queries": len(status), "cli_config_matrix_frameworks": len(fws),
                          "cli_config_matrix_external_backend": bool(len(backends) > 1)}

    # ---- search for a concrete failing input after a broken dispatch correspondence ----
    def search_after_dispatch_break(self, ctx, rng, dispatch_findings):
        import re
        combos = set()
        for f in dispatch_findings:
            m = re.match(r"cli/(\w+)-(\w+) enc=(\w+) · dispatch or encoding differs", f.signature)
            if m:
                combos.add((m.group(1), m.group(2), None if m.group(3) == "default" else m.group(3)))
        if not combos:
            return [], {}
        runs = 0
        found = []
        for _ in range(4 if ctx["tier"] == "quick" else 24):
            f2, c2 = self.search_failing_cli(ctx, rng, combos, 1500)
            runs += c2["cli_failing_input_search_runs"]
            found += f2
            if f2:
                break
        return found, {"cli_failing_input_search_runs": runs}

    def search_failing_cli(self, ctx, rng, combos, budget):
        """combos: (task, sem, enc or None) whose SAT instances differ from the model's.  Runs the real binary (built-in SAT solver)
        on up to `budget` (framework, argument) pairs per combination and judges every printed answer with the proved deciders."""
        runner = ctx["runner"]
        crust = os.path.join(common.REPO_TARGET, "release", "crustabri")
        d = runner.dir
        jobs = []
        for ci, (t, sem, enc) in enumerate(sorted(combos, key=str)):
            cnt = 0
            fi = 0
            while cnt < budget:
                if rng.random() < 0.3:
                    n, atts = gen.gadget_union(rng, 8)
                else:
                    n, atts = gen.random_framework(rng, rng.choice([5, 6, 7, 8]))
                if n == 0:
                    continue
                path = os.path.join(d, "srch_%d_%d.af" % (ci, fi))
                fi += 1
                open(path, "w").write("p af %d\n" % n + "".join("%d %d\n" % (a + 1, b + 1) for a, b in atts))
                for arg in ([None] if t == "SE" else range(n)):
                    cmd = [crust, "solve", "-f", path, "-p", "%s-%s" % (t, sem), "--logging-level", "off", "-c"]
                    if arg is not None:
                        cmd += ["-a", str(arg + 1)]
                    if enc:
                        cmd += ["--encoding", enc]
                    jobs.append(dict(cmd=cmd, n=n, atts=atts, t=t, sem=sem, enc=enc, arg=arg, path=path))
                    cnt += 1

        def run(job):
            try:
                pr = subprocess.run(job["cmd"], stdout=subprocess.PIPE, stderr=subprocess.PIPE, timeout=120)
                return (pr.returncode, pr.stdout.decode(errors="replace"))
            except subprocess.TimeoutExpired:
                return (None, "")
        with ThreadPoolExecutor(max_workers=16) as ex:
            results = list(ex.map(run, jobs))
        blocks = []
        for k, (job, (rc, out)) in enumerate(zip(jobs, results)):
            if rc != 0:
                continue
            lines = out.split("\n")
            if lines and lines[-1] == "":
                lines = lines[:-1]
            t = job["t"]

            def dense(ws):
                return ",".join(str(int(x) - 1) for x in ws) if ws else "[]"
            try:
                if t == "SE":
                    ans = "ans SE ext=NONE members=1" if lines == ["NO"] else "ans SE ext=%s members=1" % dense(lines[0].split(" ")[1:])
                else:
                    w = lines[1].split(" ")[1:] if len(lines) == 2 else None
                    ans = "ans ACC status=%s cert=%s members=1" % (lines[0], "NONE" if w is None else dense(w))
            except (IndexError, ValueError):
                continue
            jsem = "CO" if (t == "DC" and job["sem"] == "PR") else job["sem"]
            blocks.append("case s%d solve\nfw n=%d labels=- ids=- atts=%s\nquery sem=%s enc=- task=%s cert=%d args=%s\n%s\nunchanged 1\nend\n" % (
                k, job["n"], ",".join("%d>%d" % pq for pq in job["atts"]), jsem, t, 0 if t == "SE" else 1,
                "-" if job["arg"] is None else str(job["arg"]), ans))
        _, model = runner.driver("".join(blocks))
        findings = []
        seen = set()
        for k, job in enumerate(jobs):
            for v in model.get("s%d" % k, []):
                if v.startswith("verdict BAD"):
                    sig = "cli/%s-%s · %s" % (job["t"], job["sem"], v[12:])
                    if sig in seen:
                        continue
                    seen.add(sig)
                    shown = " ".join(job["cmd"])
                    findings.append(Finding("input", None, "wrong answer printed for %s-%s enc=%s: %s | %s" % (job["t"], job["sem"], job["enc"] or "default", v[12:], shown[-160:]),
                                            sig, {"cmd": shown, "stdout": results[k][1][:200], "file": open(job["path"]).read()}))
        return findings, {"cli_failing_input_search_runs": len(jobs)}

    # ---- the problem-string parser against its Lean model (readProblem) ----
    def problem_strings(self, ctx, rng):
        runner, tier = ctx["runner"], ctx["tier"]
        strs = set(PROBLEMS)
        pieces = ["SE", "DC", "DS", "se", "Dc", "GR", "co", "PR", "St", "SST", "stg", "ID", "", "-", " ", "X", "S", "E", "ST-", "\u017f", "\u212a", "\u0130", "\u00e9", "\t", "EE"]
        for p in PROBLEMS:
            strs.add(p.lower())
            strs.add(recase(rng, p))
            for extra in ["-", "-x", " ", "-" + p.split("-")[1]]:
                strs.add(p + extra)
                strs.add(extra + p)
            strs.add(p.replace("-", ""))
            strs.add(p.replace("-", "--"))
            strs.add(p.replace("-", "_"))
            strs.add(p.replace("-", "\u2010"))
            t, sm = p.split("-")
            strs.add(sm + "-" + t)
            # characters whose Unicode (not ASCII) case mapping yields ASCII letters of the name
            for (frm, to) in (("S", "\u017f"), ("s", "\u017f"), ("SS", "\u00df"), ("ss", "\u00df"), ("I", "\u0131"), ("i", "\u0131"),
                              ("I", "\u0130"), ("ST", "\ufb06"), ("st", "\ufb06"), ("ST", "\ufb05"), ("K", "\u212a")):
                for q in (p, p.lower()):
                    if frm in q:
                        i = q.rindex(frm)
                        strs.add(q[:i] + to + q[i + len(frm):])
                        strs.add(q.replace(frm, to))
            k = rng.randrange(len(p))
            strs.add(p[:k] + p[k + 1:])
            strs.add(p[:k] + rng.choice(pieces) + p[k:])
        for _ in range(200 if tier == "quick" else 5000):
            strs.add("".join(rng.choice(pieces) for _ in range(rng.randint(1, 4))))
            strs.add(rng.choice(pieces) + "-" + rng.choice(pieces))
        strs = sorted(strs)
        lines = ["read p%d fmt=prob hex=%s" % (i, x.encode("utf-8").hex()) for i, x in enumerate(strs)]
        text, impl = runner.harness(lines)
        _, model = runner.driver(text)
        findings = []
        nacc = 0
        for i, x in enumerate(strs):
            ir = [l for l in impl.get("p%d" % i, []) if l.startswith("P ") or l.startswith("panic")]
            mr = [l for l in model.get("p%d" % i, []) if l.startswith("P ")]
            if ir and ir[0].startswith("P ok"):
                nacc += 1
                if x.upper() not in PROBLEMS:
                    findings.append(Finding("input", None, "the problem string %r is accepted (%s) although it is none of the 21 problems" % (x, ir[0]),
                                            "cli · unlisted problem string accepted", {"problem": x}))
            elif x.upper() in PROBLEMS and x.isascii():
                findings.append(Finding("input", None, "the listed problem %r is rejected" % x, "cli · listed problem rejected", {"problem": x}))
            if ir != mr:
                findings.append(Finding("model", None, "read_problem_string and its Lean model (Cli.readProblem) differ on %r: impl %s model %s" % (x, ir, mr),
                                        "cli · problem parser differs from the model", {"problem": x, "theorem": "correspondence read family fmt=prob (C05.problem_parse_iff is about Cli.readProblem)"}))
        return findings, {"problem_strings_compared": len(strs), "problem_strings_accepted": nacc}

    # ---- the answer cannot be written: "exactly the right answer, or none" means a non-zero exit status then ----
    def unwritable_stdout(self, ctx, rng):
        runner = ctx["runner"]
        crust = os.path.join(common.REPO_TARGET, "release", "crustabri")
        wrap = os.path.join(common.REPO_TARGET, "release", "crustabri_iccma23")
        inst = os.path.join(runner.dir, "unw.af")
        open(inst, "w").write("p af 3\n1 2\n2 3\n")
        cmds = [[wrap, "-p", "SE-PR", "-f", inst], [wrap, "-p", "DC-CO", "-a", "1", "-f", inst],
                [crust, "solve", "--logging-level", "off", "-p", "DS-ST", "-a", "2", "-f", inst],
                [crust, "solve", "--logging-level", "off", "-p", "SE-GR", "-f", inst, "-c"],
                [crust, "problems", "--logging-level", "off"]]
        findings = []
        n = 0
        for cmd in cmds:
            for kind in ("closed pipe", "/dev/full"):
                if kind == "closed pipe":
                    r, w = os.pipe()
                    os.close(r)
                    out = w
                else:
                    out = os.open("/dev/full", os.O_WRONLY)
                try:
                    pr = subprocess.run(cmd, stdout=out, stderr=subprocess.PIPE, timeout=60)
                    rc = pr.returncode
                except subprocess.TimeoutExpired:
                    rc = None
                finally:
                    os.close(out)
                n += 1
                if rc == 0 or rc is None:
                    findings.append(Finding("input", None, "exit status %s although nothing could be written on stdout (%s): %s" % (rc, kind, " ".join(cmd)[-120:]),
                                            "cli · exit status 0 with unwritable stdout (%s)" % kind, {"cmd": " ".join(cmd), "stdout": kind}))
        return findings, {"unwritable_stdout_runs": n}

    # ---- `crustabri check`: exit status 0 exactly when the reader (and its Lean model) accepts the file ----
    def check_command(self, ctx, rng, n=None):
        runner, tier = ctx["runner"], ctx["tier"]
        crust = os.path.join(common.REPO_TARGET, "release", "crustabri")
        c13 = props_io.C13()
        cases = c13.cases("quick", random.Random(rng.randrange(1 << 30)))
        rng.shuffle(cases)
        cases = cases[:n or (120 if tier == "quick" else 1500)]
        lines, jobs = [], []
        for i, cl in enumerate(cases):
            kv = dict(t.split("=", 1) for t in cl.split(" ")[2:] if "=" in t)
            path = os.path.join(runner.dir, "chk_%d.%s" % (i, "af" if kv["fmt"] == "iccma" else "apx"))
            open(path, "wb").write(bytes.fromhex(kv.get("hex", "")))
            lines.append("read k%d fmt=%s hex=%s" % (i, kv["fmt"], kv.get("hex", "")))
            jobs.append([crust, "check", "-f", path, "-r", "iccma23" if kv["fmt"] == "iccma" else "apx", "--logging-level", "off"])

        def run(cmd):
            try:
                pr = subprocess.run(cmd, stdout=subprocess.PIPE, stderr=subprocess.PIPE, timeout=60)
                return pr.returncode, pr.stdout.decode(errors="replace")
            except subprocess.TimeoutExpired:
                return None, ""
        with ThreadPoolExecutor(max_workers=16) as ex:
            results = list(ex.map(run, jobs))
        text, impl = runner.harness(lines)
        _, model = runner.driver(text)
        findings = []
        nok = 0
        for i, (rc, out) in enumerate(results):
            mr = [l for l in model.get("k%d" % i, []) if l.startswith("R ")]
            accepted = bool(mr) and mr[0].startswith("R ok")
            nok += accepted
            shown = " ".join(jobs[i])
            if accepted and rc != 0:
                findings.append(Finding("input", None, "`check` exits with %s on a file the reader model accepts: %s" % (rc, shown[-100:]), "cli/check · readable file reported as erroneous",
                                        {"cmd": shown, "file_hex": lines[i].split("hex=")[1]}))
            if not accepted and rc == 0:
                findings.append(Finding("input", None, "`check` exits with 0 on an ill-formed file: %s" % shown[-100:], "cli/check · ill-formed file reported as fine",
                                        {"cmd": shown, "file_hex": lines[i].split("hex=")[1]}))
            if any(is_answer_line(l) for l in out.split("\n")):
                findings.append(Finding("input", None, "`check` printed an answer line: %r" % out[:80], "cli/check · answer printed", {"cmd": shown}))
        return findings, {"check_command_runs": len(jobs), "check_command_accepted": nok}

    def stats(self, cases, impl, model):
        return getattr(self, "_cov", {})

    def same_class(self, f, cur):
        return False
