import Crusta.Proofs.StoreObs

/-!
# C12 — the framework store is a faithful set model under any update history (property theorems)

`Store` mirrors `LabelSet` / `ArgumentSet` / `AAFramework` (tombstones, stale row indexes,
`swap_remove`).  The abstract view of a state is: the live arguments `Live i l` (id, label) and
the live attacks `HasAtt a b` (between ids).  All theorems hold for **every** reachable state,
i.e. after any finite sequence of `new_argument` / `remove_argument` / `new_attack` /
`remove_attack` over any labels (self-attacks, re-insertions, repeated removals, invalid operands).
-/

namespace Crusta.C12
open Crusta Crusta.Store

/-- every history runs without panic and ends in a state satisfying the store invariant -/
theorem reachable_inv (ops : List StoreOp) : ∃ s, runOps Store.empty ops = some s ∧ s.Inv :=
  inv_reachable ops

/-- an update rejected by the store leaves the state it returns identical to the input state -/
theorem err_unchanged (s s' : Store) (op : StoreOp) (h : s.step op = .err s') : s' = s := by
  cases op <;>
    simp +zetaDelta +zeta only [Store.step, Store.removeArgument, Store.newAttack, Store.removeAttack] at h
  all_goals
    repeat' (first
      | (injection h with h; exact h.symm)
      | (exfalso; exact StoreRes.noConfusion h)
      | split at h)

/-- `new_argument`: inserting an existing label changes nothing; a new label gets the next id
(the number of ids ever issued), every other argument and every attack is untouched -/
theorem new_argument_refines {s : Store} (hinv : s.Inv) (l : Nat) :
    ((∃ i, s.Live i l) → s.newArgument l = s) ∧
    ((∀ i, ¬ s.Live i l) →
      (∀ i l', (s.newArgument l).Live i l' ↔ (s.Live i l' ∨ (i = s.labels.length ∧ l' = l))) ∧
      (∀ a b, (s.newArgument l).HasAtt a b ↔ s.HasAtt a b)) := by
  constructor
  · rintro ⟨i, hi⟩; exact newArgument_existing hinv hi
  · intro h
    rw [newArgument_fresh hinv h]
    exact ⟨fun i l' => live_pushArg, fun a b => Iff.rfl⟩

/-- `remove_argument`: an unknown label is an error; otherwise exactly that argument and exactly
its incident attacks disappear -/
theorem remove_argument_refines {s : Store} (hinv : s.Inv) (l : Nat) :
    ((∀ id, ¬ s.Live id l) → s.removeArgument l = .err s) ∧
    (∀ id, s.Live id l → ∃ s', s.removeArgument l = .ok s' ∧
      (∀ i l', s'.Live i l' ↔ (s.Live i l' ∧ i ≠ id)) ∧
      (∀ a b, s'.HasAtt a b ↔ (s.HasAtt a b ∧ a ≠ id ∧ b ≠ id))) := by
  refine ⟨(removeArgument_spec hinv l).2, fun id hl => ⟨_, (removeArgument_spec hinv l).1 id hl, fun i l' => live_dropArg, ?_⟩⟩
  intro a b
  constructor
  · rintro ⟨i, hi⟩
    obtain ⟨h0, h1, h2⟩ := (att_dropArg hinv hl i (a, b)).1 hi
    exact ⟨⟨i, h0⟩, h1, h2⟩
  · rintro ⟨⟨i, hi⟩, h1, h2⟩
    exact ⟨i, (att_dropArg hinv hl i (a, b)).2 ⟨hi, h1, h2⟩⟩

/-- `new_attack`: unknown endpoint is an error; an existing attack changes nothing; otherwise
exactly that attack is added -/
theorem new_attack_refines {s : Store} (hinv : s.Inv) (la lb : Nat) :
    (((∀ a, ¬ s.Live a la) ∨ (∀ b, ¬ s.Live b lb)) → s.newAttack la lb = .err s) ∧
    (∀ a b, s.Live a la → s.Live b lb → ∃ s', s.newAttack la lb = .ok s' ∧
      (∀ i l', s'.Live i l' ↔ s.Live i l') ∧
      (∀ c d, s'.HasAtt c d ↔ (s.HasAtt c d ∨ (c = a ∧ d = b))) ∧
      (s.HasAtt a b → s' = s)) := by
  refine ⟨(newAttack_spec hinv la lb).2, ?_⟩
  intro a b ha hb
  by_cases hh : s.HasAtt a b
  · refine ⟨s, ((newAttack_spec hinv la lb).1 a b ha hb).1 hh, fun _ _ => Iff.rfl, ?_, fun _ => rfl⟩
    intro c d
    constructor
    · intro h; exact Or.inl h
    · rintro (h | ⟨rfl, rfl⟩)
      · exact h
      · exact hh
  · exact ⟨_, ((newAttack_spec hinv la lb).1 a b ha hb).2 hh, fun _ _ => Iff.rfl, hasAtt_pushAtt a b,
      fun h => absurd h hh⟩

/-- `remove_attack`: unknown endpoint or absent attack is an error; otherwise exactly that attack
disappears -/
theorem remove_attack_refines {s : Store} (hinv : s.Inv) (la lb : Nat) :
    (((∀ a, ¬ s.Live a la) ∨ (∀ b, ¬ s.Live b lb)) → s.removeAttack la lb = .err s) ∧
    (∀ a b, s.Live a la → s.Live b lb →
      (¬ s.HasAtt a b → s.removeAttack la lb = .err s) ∧
      (s.HasAtt a b → ∃ s', s.removeAttack la lb = .ok s' ∧
        (∀ i l', s'.Live i l' ↔ s.Live i l') ∧
        (∀ c d, s'.HasAtt c d ↔ (s.HasAtt c d ∧ ¬ (c = a ∧ d = b))))) := by
  refine ⟨(removeAttack_spec hinv la lb).2, ?_⟩
  intro a b ha hb
  refine ⟨((removeAttack_spec hinv la lb).1 a b ha hb).2, ?_⟩
  rintro ⟨k, hk⟩
  obtain ⟨pf, pt, he, _⟩ := ((removeAttack_spec hinv la lb).1 a b ha hb).1 k hk
  exact ⟨_, he, fun _ _ => Iff.rfl, hasAtt_dropAtt hinv hk⟩

/-- counts and iterators agree with the abstract view: `n_attacks` counts the live attacks,
`iter_attacks` lists exactly them, `iter_attacks_from/to` exactly those from / to the argument -/
theorem observers_agree {s : Store} (hinv : s.Inv) :
    s.nAttacks = s.iterAttacks.length ∧
    (∀ a b, (a, b) ∈ s.iterAttacks ↔ s.HasAtt a b) ∧
    (∀ a p, p ∈ s.iterFrom a ↔ (p.1 = a ∧ s.HasAtt p.1 p.2)) ∧
    (∀ b p, p ∈ s.iterTo b ↔ (p.2 = b ∧ s.HasAtt p.1 p.2)) ∧
    (∀ i j a b, s.att i = some (a, b) → s.att j = some (a, b) → i = j) :=
  ⟨nAttacks_eq hinv, mem_iterAttacks, mem_iterFrom hinv, mem_iterTo hinv, hinv.att_nodup⟩

/-- ids are unique and labels are unique among live arguments; lookup by label finds exactly the
live argument with that label; attacks only relate live arguments -/
theorem ids_and_labels {s : Store} (hinv : s.Inv) :
    (∀ i j l, s.Live i l → s.Live j l → i = j) ∧
    (∀ l i, s.getArg l = some i ↔ s.Live i l) ∧
    (∀ a b, s.HasAtt a b → s.hasId a = true ∧ s.hasId b = true) :=
  ⟨hinv.label_inj, fun _ _ => getArg_eq_some hinv, fun a b ⟨i, hi⟩ => hinv.ends_live i a b hi⟩

/-- ids are stable and never reused: across any operation a live argument keeps its id and label
unless it is the one removed, and a new argument gets an id no argument ever had -/
theorem ids_stable {s s' : Store} (hinv : s.Inv) (op : StoreOp) (h : s.step op = .ok s') :
    s.labels.length ≤ s'.labels.length ∧
    (∀ i l, s'.Live i l → i < s.labels.length → s.Live i l) := by
  cases op with
  | newArg l =>
    simp only [Store.step] at h; injection h with h; subst h
    by_cases hl : ∃ i, s.Live i l
    · obtain ⟨i, hi⟩ := hl
      rw [newArgument_existing hinv hi]; exact ⟨Nat.le_refl _, fun _ _ h _ => h⟩
    · have hl' : ∀ i, ¬ s.Live i l := fun i hi => hl ⟨i, hi⟩
      rw [newArgument_fresh hinv hl']
      refine ⟨by simp [pushArg], ?_⟩
      intro i l' hli hlt
      rcases live_pushArg.1 hli with h | ⟨h, _⟩
      · exact h
      · omega
  | remArg l =>
    simp only [Store.step] at h
    by_cases hl : ∃ id, s.Live id l
    · obtain ⟨id, hid⟩ := hl
      rw [(removeArgument_spec hinv l).1 id hid] at h
      injection h with h; subst h
      exact ⟨by simp [dropArg], fun i l' hli _ => (live_dropArg.1 hli).1⟩
    · rw [(removeArgument_spec hinv l).2 (fun id hid => hl ⟨id, hid⟩)] at h; cases h
  | newAtt la lb =>
    simp only [Store.step] at h
    by_cases ha : ∃ a, s.Live a la
    · by_cases hb : ∃ b, s.Live b lb
      · obtain ⟨a, ha⟩ := ha
        obtain ⟨b, hb⟩ := hb
        by_cases hh : s.HasAtt a b
        · rw [((newAttack_spec hinv la lb).1 a b ha hb).1 hh] at h
          injection h with h; subst h; exact ⟨Nat.le_refl _, fun _ _ h _ => h⟩
        · rw [((newAttack_spec hinv la lb).1 a b ha hb).2 hh] at h
          injection h with h; subst h; exact ⟨Nat.le_refl _, fun _ _ h _ => h⟩
      · rw [(newAttack_spec hinv la lb).2 (Or.inr (fun b hb' => hb ⟨b, hb'⟩))] at h; cases h
    · rw [(newAttack_spec hinv la lb).2 (Or.inl (fun a ha' => ha ⟨a, ha'⟩))] at h; cases h
  | remAtt la lb =>
    simp only [Store.step] at h
    by_cases ha : ∃ a, s.Live a la
    · by_cases hb : ∃ b, s.Live b lb
      · obtain ⟨a, ha⟩ := ha
        obtain ⟨b, hb⟩ := hb
        by_cases hh : s.HasAtt a b
        · obtain ⟨k, hk⟩ := hh
          obtain ⟨pf, pt, he, _⟩ := ((removeAttack_spec hinv la lb).1 a b ha hb).1 k hk
          rw [he] at h; injection h with h; subst h
          exact ⟨Nat.le_refl _, fun _ _ h _ => h⟩
        · rw [((removeAttack_spec hinv la lb).1 a b ha hb).2 hh] at h; cases h
      · rw [(removeAttack_spec hinv la lb).2 (Or.inr (fun b hb' => hb ⟨b, hb'⟩))] at h; cases h
    · rw [(removeAttack_spec hinv la lb).2 (Or.inl (fun a ha' => ha ⟨a, ha'⟩))] at h; cases h

/-- non-vacuity: a concrete history with a self-attack, a removal and a re-insertion runs -/
example : ∃ s, runOps Store.empty [.newArg 1, .newArg 2, .newAtt 1 1, .newAtt 1 2, .remArg 1, .newArg 1] = some s ∧
    s.nArguments = 2 := ⟨_, rfl, rfl⟩

end Crusta.C12
