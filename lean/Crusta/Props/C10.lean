import Crusta.Proofs.EncAux
import Crusta.Proofs.EncExp
import Crusta.Proofs.EncHyb2
import Crusta.Proofs.EncDecode

/-!
# C10 — CNF encodings characterise exactly the intended argument sets (property theorems)

For every well-formed compact framework (no bound on size), every assignment, and — for the
hybrid encoder — every switching threshold.  `X.S af ν` is the set obtained by translating a model
back (restricted to the argument variables, cf. `decode_eq_S`).
"no more": every model denotes an intended set;  "no fewer": every intended set has a model.
-/

namespace Crusta.C10
open Crusta

/-! ## aux_var -/

theorem auxCF_exact (af : AF) (hwf : af.WF) :
    (∀ ν, cnfTrue ν (Aux.cf af) = true ↔ ConflictFree af (Aux.S af ν)) ∧
    (∀ T, ConflictFree af T → ∃ ν, cnfTrue ν (Aux.cf af) = true ∧ Aux.S af ν = T) := by
  refine ⟨Aux.cf_iff af hwf, fun T hT => ?_⟩
  obtain ⟨hS, _, _⟩ := Aux.asgOf_cons af T hT.1
  exact ⟨Aux.asgOf af T, (Aux.cf_iff af hwf _).2 (hS.symm ▸ hT), hS⟩

theorem auxADM_exact (af : AF) (hwf : af.WF) :
    (∀ ν, cnfTrue ν (Aux.adm af) = true ↔ (Aux.PCons af ν ∧ Admissible af (Aux.S af ν))) ∧
    (∀ T, Admissible af T → ∃ ν, cnfTrue ν (Aux.adm af) = true ∧ Aux.S af ν = T) := by
  refine ⟨Aux.adm_iff af hwf, fun T hT => ?_⟩
  obtain ⟨hS, hP, _⟩ := Aux.asgOf_cons af T hT.1.1
  exact ⟨Aux.asgOf af T, (Aux.adm_iff af hwf _).2 ⟨hP, hS.symm ▸ hT⟩, hS⟩

theorem auxCO_exact (af : AF) (hwf : af.WF) :
    (∀ ν, cnfTrue ν (Aux.co af) = true ↔ (Aux.PCons af ν ∧ Complete af (Aux.S af ν))) ∧
    (∀ T, Complete af T → ∃ ν, cnfTrue ν (Aux.co af) = true ∧ Aux.S af ν = T) := by
  refine ⟨Aux.co_iff af hwf, fun T hT => ?_⟩
  obtain ⟨hS, hP, _⟩ := Aux.asgOf_cons af T hT.1.1.1
  exact ⟨Aux.asgOf af T, (Aux.co_iff af hwf _).2 ⟨hP, hS.symm ▸ hT⟩, hS⟩

/-- aux_var with range variables: in every model `r_a ⇔ a ∈ range(S)`, and every intended set
has such a model (all three base semantics) -/
theorem auxRange_exact (af : AF) (hwf : af.WF) :
    (∀ ν, cnfTrue ν (Aux.cfRange af) = true ↔ (Aux.PCons af ν ∧ ConflictFree af (Aux.S af ν) ∧ Aux.RCons af ν)) ∧
    (∀ ν, cnfTrue ν (Aux.admRange af) = true ↔ (Aux.PCons af ν ∧ Admissible af (Aux.S af ν) ∧ Aux.RCons af ν)) ∧
    (∀ ν, cnfTrue ν (Aux.coRange af) = true ↔ (Aux.PCons af ν ∧ Complete af (Aux.S af ν) ∧ Aux.RCons af ν)) ∧
    (∀ T, Sub af T → ∃ ν, Aux.S af ν = T ∧ Aux.PCons af ν ∧ Aux.RCons af ν) :=
  ⟨Aux.cfRange_iff af hwf, Aux.admRange_iff af hwf, Aux.coRange_iff af hwf,
   fun T hT => ⟨Aux.asgOf af T, Aux.asgOf_cons af T hT⟩⟩

/-! ## exp -/

theorem expCF_exact (af : AF) (hwf : af.WF) :
    (∀ ν, cnfTrue ν (Exp.cf af) = true ↔ ConflictFree af (Exp.S af ν)) ∧
    (∀ T, ConflictFree af T → ∃ ν, cnfTrue ν (Exp.cf af) = true ∧ Exp.S af ν = T) := by
  refine ⟨Exp.cf_iff af hwf, fun T hT => ?_⟩
  have hS := Exp.S_asgOf af T hT.1
  exact ⟨Exp.asgOf af T, (Exp.cf_iff af hwf _).2 (hS.symm ▸ hT), hS⟩

theorem expCO_exact (af : AF) (hwf : af.WF) :
    (∀ ν, cnfTrue ν (Exp.co af) = true ↔ Complete af (Exp.S af ν)) ∧
    (∀ T, Complete af T → ∃ ν, cnfTrue ν (Exp.co af) = true ∧ Exp.S af ν = T) := by
  refine ⟨Exp.co_iff af hwf, fun T hT => ?_⟩
  have hS := Exp.S_asgOf af T hT.1.1.1
  exact ⟨Exp.asgOf af T, (Exp.co_iff af hwf _).2 (hS.symm ▸ hT), hS⟩

/-- exp with range variables: a range variable is true only inside the range (and for every member
of the set); every intended set has a model whose range variables equal its range -/
theorem expRange_exact (af : AF) (hwf : af.WF) :
    (∀ ν, cnfTrue ν (Exp.cfRange af) = true ↔ (ConflictFree af (Exp.S af ν) ∧ Exp.RSound af ν)) ∧
    (∀ ν, cnfTrue ν (Exp.coRange af) = true ↔ (Complete af (Exp.S af ν) ∧ Exp.RSound af ν)) ∧
    (∀ T, Sub af T → ∃ ν, Exp.S af ν = T ∧ Exp.RSound af ν ∧
        ∀ a, a < af.n → (ν (Exp.r af.n a) = true ↔ InRange af T a)) :=
  ⟨Exp.cfRange_iff af hwf, Exp.coRange_iff af hwf, fun T hT => ⟨Exp.asgOf af T, Exp.asgOf_cons af T hT⟩⟩

/-! ## hybrid, for every threshold (in particular the one regenerated from the source) -/

theorem hybridCO_exact (thr : Nat) (af : AF) (hwf : af.WF) :
    (∀ ν, cnfTrue ν (Hyb.co thr af) = true ↔ (Complete af (Exp.S af ν) ∧ Hyb.DvC af ν (Hyb.run thr af))) ∧
    (∀ T, Complete af T → ∃ ν, cnfTrue ν (Hyb.co thr af) = true ∧ Exp.S af ν = T) :=
  ⟨Hyb.co_iff thr af hwf, Hyb.co_surj thr af hwf⟩

theorem hybridRange_exact (thr : Nat) (af : AF) (hwf : af.WF) :
    (∀ ν, cnfTrue ν (Hyb.coRange thr af) = true → (Complete af (Exp.S af ν) ∧ Exp.RSound af ν)) ∧
    (∀ T, Complete af T → ∃ ν, cnfTrue ν (Hyb.coRange thr af) = true ∧ Exp.S af ν = T ∧
        ∀ a, a < af.n → (ν (Exp.r af.n a) = true ↔ InRange af T a)) :=
  ⟨Hyb.coRange_sound thr af hwf, Hyb.coRange_exact thr af hwf⟩

/-- the allocated disjunction variables never collide with argument or range variables and are
pairwise distinct -/
theorem hybrid_fresh (thr : Nat) (af : AF) (hwf : af.WF) (b v : Nat)
    (h : Hyb.dvOf (Hyb.run thr af) b = some v) :
    af.n < v ∧ ∀ b', Hyb.dvOf (Hyb.run thr af) b' = some v → b' = b := by
  obtain ⟨_, hA⟩ := Hyb.fold_dv hwf thr false (Hyb.argStep thr af) (fun _ _ => ⟨rfl, rfl⟩) af.n (Nat.le_refl _)
  have h1 := (hA.2.1 b v h).1
  refine ⟨by simp [Hyb.init] at h1; omega, fun b' hb' => (hA.2.2 b b' v h hb').symm⟩

/-! ## default stable encoder -/

theorem stable_exact (af : AF) (hwf : af.WF) :
    (∀ ν, cnfTrue ν (Stb.enc af) = true ↔ Stable af (Stb.S af ν)) ∧
    (∀ T, Stable af T → ∃ ν, cnfTrue ν (Stb.enc af) = true ∧ Stb.S af ν = T) := by
  refine ⟨Stb.enc_iff af hwf, fun T hT => ?_⟩
  have hS : Stb.S af (Exp.asgOf af T) = T := Exp.S_asgOf af T hT.1.1
  exact ⟨Exp.asgOf af T, (Stb.enc_iff af hwf _).2 (hS.symm ▸ hT), hS⟩

/-! ## layout and decoding -/

/-- distinct arguments get distinct literals, never colliding with auxiliary or range variables -/
theorem layout_aux (n a b : Nat) (ha : a < n) :
    (Aux.x a = Aux.x b → a = b) ∧ Aux.x a ≠ Aux.p b ∧ Aux.x a ≠ Aux.r n b ∧ Aux.p a ≠ Aux.r n b ∧
    (Aux.r n a = Aux.r n b → a = b) ∧ 1 ≤ Aux.x a ∧ Aux.x a ≤ n * 2 ∧ Aux.r n a ≤ n * 3 :=
  ⟨Aux.x_inj, Aux.x_ne_p a b, Aux.x_ne_r ha b, Aux.p_ne_r ha b, Aux.r_inj, (Aux.x_le_reserve ha).1,
   (Aux.x_le_reserve ha).2, (Aux.r_le_reserve ha).2⟩

theorem layout_exp (n a b : Nat) (ha : a < n) :
    (Exp.x a = Exp.x b → a = b) ∧ Exp.x a ≠ Exp.r n b ∧ (Exp.r n a = Exp.r n b → a = b) ∧
    1 ≤ Exp.x a ∧ Exp.x a ≤ n ∧ Exp.r n a ≤ n * 2 := by
  refine ⟨Exp.x_inj, Exp.x_ne_r ha b, Exp.r_inj, ?_, ?_, ?_⟩ <;> (simp only [Exp.x, Exp.r]; omega)

/-- `assignment_to_extension` returns exactly the set denoted by the model, for the three layouts -/
theorem decode_exact (af : AF) (m : List (Option Bool)) (a : Nat) :
    (a ∈ Aux.decode af.n m ↔ Aux.S af (asgOfModel m) a = true) ∧
    (a ∈ Exp.decode af.n m ↔ Exp.S af (asgOfModel m) a = true) ∧
    (a ∈ Stb.decode af.n m ↔ Stb.S af (asgOfModel m) a = true) :=
  ⟨Aux.decode_eq_S af m a, Exp.decode_eq_S af m a, Stb.decode_eq_S af m a⟩

/-! ## non-vacuity: the hypotheses are met by concrete frameworks -/

example : (⟨3, [(0, 1), (1, 0), (1, 2)]⟩ : AF).WF := by
  intro p hp; simp at hp; rcases hp with rfl | rfl | rfl <;> simp

end Crusta.C10
