import Crusta.Proofs.Oracle
namespace Crusta.C08
open Crusta
/-- the judge applied to every answer of a dynamic solver is the exact judge of C02–C04 run on the
framework as it stands at the moment of the query -/
theorem judge_is_exact (af : AF) (hwf : af.WF) (q : Query) (a : Answer) :
    checkAnswer af q a = .ok () ↔ Conforms af q a := checkAnswer_iff af hwf q a
end Crusta.C08
